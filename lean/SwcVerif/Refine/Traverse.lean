import SwcVerif.Gen.AlgoTraverse
import SwcVerif.Refine.PyLemmas
import SwcVerif.Proofs.Traverse
/-! Refinement for C04: the definition GENERATED from `swcgeom/core/swc_utils/base.py::_traverse_dfs`
(`Gen.Algo.traverse_dfs`, regenerated from the current source on every run: the children map built by the
`for … zip(*topology)` loop, the explicit stack as a Python list with `append` / `pop` at the END, the two
dictionaries `params` / `vals` with `pop`) computes the structural recursion `Trav.spec` on every tree the table
represents — directly, by induction over the rose tree, without going through the hand-written step machine. -/
namespace RefineTrav
open Gen.Algo Trav Py

variable {σ T K : Type} [Inhabited σ] [Inhabited T] [Inhabited K]
variable (enter : σ → Int → Option T → σ × T) (leave : σ → Int → List K → σ × K)

/-- the children map of `v` is the table's: `children_map.get(k, []) = tableKids ids pids k` -/
def CM (kidsOf : Int → List Int) (v : traverse_dfs.V σ T K) : Prop :=
  ∀ k, Dict.getD v.children_map k [] = kidsOf k

/-- what no step of the loop changes -/
def Same (v v' : traverse_dfs.V σ T K) : Prop := v'.children_map = v.children_map ∧ v'.root = v.root

theorem Same.refl (v : traverse_dfs.V σ T K) : Same v v := ⟨rfl, rfl⟩
theorem Same.trans {a b c : traverse_dfs.V σ T K} (h1 : Same a b) (h2 : Same b c) : Same a c :=
  ⟨h2.1.trans h1.1, h2.2.trans h1.2⟩
theorem CM.of_same {kidsOf : Int → List Int} {v v' : traverse_dfs.V σ T K} (h : CM kidsOf v) (s : Same v v') :
    CM kidsOf v' := by
  intro k; rw [s.1]; exact h k

theorem nodup_ids_of_idsL : ∀ (ks : List Rose), (idsL ks).Nodup → (ks.map Rose.id).Nodup := by
  intro ks
  induction ks with
  | nil => intro _; simp
  | cons r rs ih =>
    intro h
    simp only [idsL, List.nodup_append] at h
    obtain ⟨_, hrs, hdisj⟩ := h
    simp only [List.map_cons, List.nodup_cons]
    refine ⟨?_, ih hrs⟩
    intro hm
    obtain ⟨k, hk, e⟩ := List.mem_map.1 hm
    exact hdisj r.id (ids_head r) k.id (mem_idsL_of_mem hk) e.symm

/-! ### the two inner loops -/

theorem for2_loop : ∀ (cs : List Int) (v : traverse_dfs.V σ T K),
    ∃ v', forEach (traverse_dfs.for2 enter leave) cs v = .next v' ∧
      v'.stack = v.stack ++ cs.map (fun c => (c, true)) ∧
      (∀ k, Dict.get? v'.params k = if k ∈ cs then some (some v.cur) else Dict.get? v.params k) ∧
      v'.vals = v.vals ∧ v'.cbs = v.cbs ∧ v'.cur = v.cur ∧ Same v v' := by
  intro cs
  induction cs with
  | nil => intro v; exact ⟨v, rfl, by simp, by simp, rfl, rfl, rfl, Same.refl v⟩
  | cons c cs ih =>
    intro v
    obtain ⟨v', e, h1, h2, h3, h4, h5, h6⟩ := ih
      { v with child := c, stack := v.stack ++ [(c, true)], params := Dict.set v.params c (some v.cur) }
    refine ⟨v', ?_, ?_, ?_, h3, h4, h5, ⟨h6.1, h6.2⟩⟩
    · simp only [forEach, traverse_dfs.for2, seq]
      exact e
    · simp [h1]
    · intro k
      rw [h2 k]
      simp only [Dict.get?_set, List.mem_cons]
      by_cases hk : k ∈ cs
      · simp [hk]
      · by_cases hc : k = c <;> simp [hk, hc]

theorem for3_loop : ∀ (cs : List Int) (v : traverse_dfs.V σ T K) (vs : List K), cs.Nodup →
    cs.map (fun c => Dict.get? v.vals c) = vs.map some →
    ∃ v', forEach (traverse_dfs.for3 enter leave) cs v = .next v' ∧
      v'.c6_ = v.c6_ ++ vs ∧
      (∀ k, Dict.get? v'.vals k = if k ∈ cs then none else Dict.get? v.vals k) ∧
      v'.stack = v.stack ∧ v'.params = v.params ∧ v'.cbs = v.cbs ∧ v'.idx = v.idx ∧ Same v v' := by
  intro cs
  induction cs with
  | nil =>
    intro v vs _ h
    have : vs = [] := by cases vs <;> simp_all
    subst this
    exact ⟨v, rfl, by simp, by simp, rfl, rfl, rfl, rfl, Same.refl v⟩
  | cons c cs ih =>
    intro v vs hnd h
    cases vs with
    | nil => simp at h
    | cons x vs =>
      simp only [List.map_cons, List.cons.injEq] at h
      obtain ⟨hx, hrest⟩ := h
      rw [List.nodup_cons] at hnd
      have hpop := Dict.pop_of_get? v.vals c x hx
      have hrest' : cs.map (fun c' => Dict.get? (v.vals.filter (fun p => p.1 ≠ c)) c') = vs.map some := by
        rw [← hrest]
        apply List.map_congr_left
        intro c' hc'
        have : c' ≠ c := fun e => hnd.1 (e ▸ hc')
        simp [Dict.get?_filter_ne, this]
      obtain ⟨v', e, h1, h2, h3, h4, h5, h6, h7⟩ := ih
        { v with i := c, vals := v.vals.filter (fun p => p.1 ≠ c), c6_ := v.c6_ ++ [x] } vs hnd.2 hrest'
      refine ⟨v', ?_, ?_, ?_, h3, h4, h5, h6, ⟨h7.1, h7.2⟩⟩
      · simp only [forEach, traverse_dfs.for3, Py.bind, hpop]
        exact e
      · simp [h1]
      · intro k
        rw [h2 k]
        simp only [Dict.get?_filter_ne, List.mem_cons]
        by_cases hk : k ∈ cs
        · simp [hk]
        · by_cases hc : k = c <;> simp [hk, hc]

/-! ### one iteration of the `while` loop -/

theorem cond_eq (v : traverse_dfs.V σ T K) :
    traverse_dfs.while4_cond enter leave v = some (decide (v.stack ≠ [])) := by
  simp only [traverse_dfs.while4_cond, len_eq]
  generalize v.stack = st
  cases st with
  | nil => simp
  | cons a l =>
    have h0 : (0 : Int) ≤ (l.length : Int) := Int.natCast_nonneg _
    simp
    refine decide_eq_true ?_
    omega

/-- an `enter` iteration -/
theorem enter_step (kidsOf : Int → List Int) (v : traverse_dfs.V σ T K) (S : List (Int × Bool)) (i : Int)
    (pv : Option T) (hcm : CM kidsOf v) (hs : v.stack = S ++ [(i, true)]) (hp : Dict.get? v.params i = some pv) :
    ∃ v', traverse_dfs.while4_body enter leave v = .next v' ∧
      v'.stack = S ++ (i, false) :: (kidsOf i).map (fun c => (c, true)) ∧
      (∀ k, Dict.get? v'.params k = if k ∈ kidsOf i then some (some (enter v.cbs i pv).2)
          else if k = i then none else Dict.get? v.params k) ∧
      v'.vals = v.vals ∧ v'.cbs = (enter v.cbs i pv).1 ∧ Same v v' := by
  have hpop := Dict.pop_of_get? v.params i pv hp
  obtain ⟨v', e, h1, h2, h3, h4, _, h6⟩ := for2_loop enter leave (kidsOf i)
    { v with stack := S ++ [(i, false)], idx := i, is_enter := true, params := v.params.filter (fun p => p.1 ≠ i),
             pre := pv, cbs := (enter v.cbs i pv).1, cur := (enter v.cbs i pv).2 }
  refine ⟨v', ?_, ?_, ?_, h3, h4, ⟨h6.1, h6.2⟩⟩
  · simp only [traverse_dfs.while4_body, seq, Py.bind, hs, pop_append, if_true, hpop]
    have := hcm i
    simp only [CM] at hcm
    rw [hcm i]
    exact e
  · simp [h1]
  · intro k
    rw [h2 k]
    simp only [Dict.get?_filter_ne]

/-- a `leave` iteration -/
theorem leave_step (kidsOf : Int → List Int) (v : traverse_dfs.V σ T K) (S : List (Int × Bool)) (i : Int)
    (vs : List K) (hcm : CM kidsOf v) (hs : v.stack = S ++ [(i, false)]) (hnd : (kidsOf i).Nodup)
    (hv : (kidsOf i).map (fun c => Dict.get? v.vals c) = vs.map some) :
    ∃ v', traverse_dfs.while4_body enter leave v = .next v' ∧
      v'.stack = S ∧
      (∀ k, Dict.get? v'.vals k = if k = i then some (leave v.cbs i vs).2
          else if k ∈ kidsOf i then none else Dict.get? v.vals k) ∧
      v'.params = v.params ∧ v'.cbs = (leave v.cbs i vs).1 ∧ Same v v' := by
  obtain ⟨v', e, h1, h2, h3, h4, h5, h6, h7⟩ := for3_loop enter leave (kidsOf i)
    { v with stack := S, idx := i, is_enter := false, c6_ := [] } vs hnd hv
  refine ⟨{ v' with children := v'.c6_, cbs := (leave v'.cbs v'.idx v'.c6_).1,
                    vals := Dict.set v'.vals v'.idx (leave v'.cbs v'.idx v'.c6_).2 }, ?_, ?_, ?_, ?_, ?_, ⟨h7.1, h7.2⟩⟩
  · simp only [traverse_dfs.while4_body, seq, Py.bind, bindS, hs, pop_append, Bool.false_eq_true, if_false]
    rw [hcm i, e]
  · exact h3
  · intro k
    simp only [Dict.get?_set, h6, h5, h1, List.nil_append, h2 k]
  · exact h4
  · simp [h5, h6, h1]

/-! ### the whole loop, by induction over the tree -/

section main
variable (kidsOf : Int → List Int)

local notation "LOOP" => whileF (traverse_dfs.while4_cond enter leave) (traverse_dfs.while4_body enter leave)

theorem step_loop (F : Nat) (v v' : traverse_dfs.V σ T K) (hne : v.stack ≠ [])
    (hb : traverse_dfs.while4_body enter leave v = .next v') : LOOP (F + 1) v = LOOP F v' :=
  whileF_next _ _ F v v' (by simp [cond_eq, hne]) hb

mutual
theorem gmain (r : Rose) (hA : Agrees kidsOf r) (hD : r.ids.Nodup) :
    ∀ (v : traverse_dfs.V σ T K) (S : List (Int × Bool)) (pv : Option T) (F : Nat), CM kidsOf v →
      v.stack = S ++ [(r.id, true)] → Dict.get? v.params r.id = some pv →
      ∃ v', LOOP (2 * r.size + F) v = LOOP F v' ∧ v'.stack = S ∧
        v'.cbs = (spec enter leave r pv v.cbs).1 ∧
        Dict.get? v'.vals r.id = some (spec enter leave r pv v.cbs).2 ∧
        (∀ j, j ∉ r.ids → Dict.get? v'.vals j = Dict.get? v.vals j) ∧
        (∀ j, j ∉ r.ids → Dict.get? v'.params j = Dict.get? v.params j) ∧ Same v v' := by
  match r, hA, hD with
  | .node i ks, hA, hD =>
    intro v S pv F hcm hs hp
    simp only [Agrees] at hA
    obtain ⟨hk, hAL⟩ := hA
    simp only [Rose.ids, List.nodup_cons] at hD
    obtain ⟨hi, hDL⟩ := hD
    simp only [Rose.id] at hs hp ⊢
    -- enter
    obtain ⟨v1, e1, s1, p1, vl1, c1, sm1⟩ := enter_step enter leave kidsOf v S i pv hcm hs hp
    have hne : v.stack ≠ [] := by rw [hs]; simp
    have sz : 2 * (Rose.node i ks).size + F = (2 * sizeL ks + (F + 1)) + 1 := by simp [Rose.size]; omega
    rw [sz, step_loop enter leave _ v v1 hne e1]
    -- the children
    have hs1 : v1.stack = (S ++ [(i, false)]) ++ ks.map (fun k => (k.id, true)) := by
      rw [s1, hk]; simp [List.map_map, Function.comp_def]
    have hp1 : ∀ k ∈ ks, Dict.get? v1.params k.id = some (some (enter v.cbs i pv).2) := by
      intro k hkm
      have : k.id ∈ kidsOf i := by rw [hk]; exact List.mem_map_of_mem hkm
      rw [p1 k.id]; simp [this]
    obtain ⟨v2, e2, s2, c2, vl2, fv2, fp2, sm2⟩ :=
      gmainL ks hAL hDL v1 (S ++ [(i, false)]) (enter v.cbs i pv).2 (F + 1) (hcm.of_same sm1) hs1 hp1
    rw [e2]
    -- leave
    have hkn : (kidsOf i).Nodup := by
      rw [hk]
      exact nodup_ids_of_idsL ks hDL
    have hv2 : (kidsOf i).map (fun c => Dict.get? v2.vals c) =
        (specRev enter leave ks (enter v.cbs i pv).2 (enter v.cbs i pv).1).2.map some := by
      rw [hk, List.map_map]
      rw [c1] at vl2
      exact vl2
    obtain ⟨v3, e3, s3, vl3, p3, c3, sm3⟩ := leave_step enter leave kidsOf v2 S i _
      ((hcm.of_same sm1).of_same sm2) s2 hkn hv2
    have hne2 : v2.stack ≠ [] := by rw [s2]; simp
    rw [step_loop enter leave F v2 v3 hne2 e3]
    refine ⟨v3, rfl, s3, ?_, ?_, ?_, ?_, (sm1.trans sm2).trans sm3⟩
    · rw [c3, c2, c1]; simp [spec]
    · rw [vl3 i, c2, c1]; simp [spec]
    · intro j hj
      simp only [Rose.ids, List.mem_cons, not_or] at hj
      have hjk : j ∉ kidsOf i := by
        rw [hk]; intro hm
        obtain ⟨k, hkm, rfl⟩ := List.mem_map.1 hm
        exact hj.2 (mem_idsL_of_mem hkm)
      rw [vl3 j, if_neg hj.1, if_neg hjk, fv2 j hj.2, vl1]
    · intro j hj
      simp only [Rose.ids, List.mem_cons, not_or] at hj
      have hjk : j ∉ kidsOf i := by
        rw [hk]; intro hm
        obtain ⟨k, hkm, rfl⟩ := List.mem_map.1 hm
        exact hj.2 (mem_idsL_of_mem hkm)
      rw [p3, fp2 j hj.2, p1 j, if_neg hjk, if_neg hj.1]

theorem gmainL (ks : List Rose) (hA : AgreesL kidsOf ks) (hD : (idsL ks).Nodup) :
    ∀ (v : traverse_dfs.V σ T K) (S : List (Int × Bool)) (cur : T) (F : Nat), CM kidsOf v →
      v.stack = S ++ ks.map (fun k => (k.id, true)) →
      (∀ k ∈ ks, Dict.get? v.params k.id = some (some cur)) →
      ∃ v', LOOP (2 * sizeL ks + F) v = LOOP F v' ∧ v'.stack = S ∧
        v'.cbs = (specRev enter leave ks cur v.cbs).1 ∧
        ks.map (fun k => Dict.get? v'.vals k.id) = (specRev enter leave ks cur v.cbs).2.map some ∧
        (∀ j, j ∉ idsL ks → Dict.get? v'.vals j = Dict.get? v.vals j) ∧
        (∀ j, j ∉ idsL ks → Dict.get? v'.params j = Dict.get? v.params j) ∧ Same v v' := by
  match ks, hA, hD with
  | [], _, _ =>
    intro v S cur F _ hs _
    exact ⟨v, by simp [sizeL], by simpa using hs, by simp [specRev], by simp [specRev], fun _ _ => rfl, fun _ _ => rfl,
      Same.refl v⟩
  | r :: rs, hA, hD =>
    intro v S cur F hcm hs hp
    simp only [AgreesL] at hA
    obtain ⟨hAr, hArs⟩ := hA
    simp only [idsL, List.nodup_append] at hD
    obtain ⟨hDr, hDrs, hdisj⟩ := hD
    -- the later siblings are on top of the stack: they run first
    have hs' : v.stack = (S ++ [(r.id, true)]) ++ rs.map (fun k => (k.id, true)) := by rw [hs]; simp
    obtain ⟨v1, e1, s1, c1, vl1, fv1, fp1, sm1⟩ := gmainL rs hArs hDrs v (S ++ [(r.id, true)]) cur (2 * r.size + F) hcm hs'
      (fun k hk => hp k (List.mem_cons_of_mem _ hk))
    have sz : 2 * sizeL (r :: rs) + F = 2 * sizeL rs + (2 * r.size + F) := by simp [sizeL]; omega
    rw [sz, e1]
    have hrid : r.id ∉ idsL rs := fun hm => hdisj r.id (ids_head r) r.id hm rfl
    have hp1 : Dict.get? v1.params r.id = some (some cur) := by
      rw [fp1 r.id hrid]; exact hp r List.mem_cons_self
    obtain ⟨v2, e2, s2, c2, vl2, fv2, fp2, sm2⟩ := gmain r hAr hDr v1 S (some cur) F (hcm.of_same sm1) s1 hp1
    refine ⟨v2, e2, s2, ?_, ?_, ?_, ?_, sm1.trans sm2⟩
    · rw [c2, c1]; simp [specRev]
    · simp only [List.map_cons, specRev]
      rw [vl2, c1]
      congr 1
      rw [← vl1]
      apply List.map_congr_left
      intro k hk
      apply fv2
      intro hm
      exact hdisj k.id hm k.id (mem_idsL_of_mem hk) rfl
    · intro j hj
      simp only [idsL, List.mem_append, not_or] at hj
      rw [fv2 j hj.1, fv1 j hj.2]
    · intro j hj
      simp only [idsL, List.mem_append, not_or] at hj
      rw [fp2 j hj.1, fp1 j hj.2]
end
end main

/-! ### the children map -/

theorem for1_loop : ∀ (ids pids : List Int) (v : traverse_dfs.V σ T K) (L : Int → List Int),
    (∀ k, Dict.getD v.children_map k [] = L k) →
    ∃ v', forEach (traverse_dfs.for1 enter leave) (Py.zip ids pids) v = .next v' ∧
      (∀ k, Dict.getD v'.children_map k [] = L k ++ tableKids ids pids k) ∧
      v'.stack = v.stack ∧ v'.params = v.params ∧ v'.vals = v.vals ∧ v'.cbs = v.cbs ∧ v'.root = v.root := by
  intro ids
  induction ids with
  | nil => intro pids v L h; exact ⟨v, by simp [Py.zip, forEach], by simpa [tableKids] using h, rfl, rfl, rfl, rfl, rfl⟩
  | cons i is ih =>
    intro pids v L h
    cases pids with
    | nil => exact ⟨v, by simp [Py.zip, forEach], by simpa [tableKids] using h, rfl, rfl, rfl, rfl, rfl⟩
    | cons p ps =>
      have hg : Dict.get? (Dict.setdefault v.children_map p []) p = some (L p) := by
        rw [Dict.get?_setdefault]
        have := h p
        rw [Dict.getD_eq] at this
        cases hq : Dict.get? v.children_map p with
        | none => simp [hq] at this ⊢; exact this
        | some x => simp [hq] at this ⊢; exact this
      obtain ⟨v', e, h1, h2, h3, h4, h5, h6⟩ := ih ps
        { v with idx := i, pid := p,
                 children_map := Dict.set (Dict.setdefault v.children_map p []) p (L p ++ [i]) }
        (fun k => if k = p then L p ++ [i] else L k) (by
          intro k
          simp only [Dict.getD_eq, Dict.get?_set]
          by_cases hk : k = p
          · simp [hk]
          · simp only [hk, if_false, Dict.get?_setdefault]
            have := h k
            rw [Dict.getD_eq] at this
            cases hq : Dict.get? v.children_map k with
            | none => simp [hq] at this ⊢; exact this
            | some x => simp [hq] at this ⊢; exact this)
      refine ⟨v', ?_, ?_, h2, h3, h4, h5, h6⟩
      · simp only [Py.zip, List.zip_cons_cons, forEach, traverse_dfs.for1, seq, Py.bind, hg]
        exact e
      · intro k
        rw [h1 k]
        by_cases hk : k = p
        · subst hk; simp [tableKids]
        · have : ¬ p = k := fun c => hk c.symm
          simp [tableKids, hk, this]

/-- **`_traverse_dfs` as translated on this run is structural recursion**: for every table that represents a tree
`r` (any shape, any numbering, any depth), every pair of (stateful) callbacks and every sufficient fuel, the generated
function returns exactly `Trav.spec` at the root: each node entered once after its parent with the parent's value,
left once after all its children with exactly their values; no exception is raised. -/
theorem traverse_refines (ids pids : List Int) (r : Rose) (hR : Represents r ids pids) (s : σ) (F : Nat) :
    traverse_dfs enter leave (2 * r.size + F + 1) (ids, pids) r.id s = some (spec enter leave r none s) := by
  obtain ⟨hA, hD⟩ := hR
  obtain ⟨v1, e1, cm1, s1, p1, vl1, c1, r1⟩ := for1_loop enter leave ids pids
    { (default : traverse_dfs.V σ T K) with topology := (ids, pids), root := r.id, cbs := s, children_map := [] }
    (fun _ => []) (by intro k; simp [Dict.getD_eq])
  have hcm : CM (tableKids ids pids) v1 := by intro k; simpa using cm1 k
  let v2 : traverse_dfs.V σ T K :=
    { v1 with stack := [(v1.root, true)], params := Dict.set ([] : Py.Dict Int (Option T)) v1.root none, vals := [] }
  have hcm2 : CM (tableKids ids pids) v2 := hcm
  obtain ⟨v3, e3, s3, c3, vl3, _, _, sm3⟩ := gmain enter leave (tableKids ids pids) r hA hD v2 [] none (F + 1) hcm2
    (by simp [v2, r1]) (by simp [v2, r1, Dict.get?_set])
  have hdone : whileF (traverse_dfs.while4_cond enter leave) (traverse_dfs.while4_body enter leave) (F + 1) v3 = .next v3 :=
    whileF_done _ _ F v3 (by simp [cond_eq, s3])
  have hroot : v3.root = r.id := by rw [sm3.2]; exact r1
  have e3' : whileF (traverse_dfs.while4_cond enter leave) (traverse_dfs.while4_body enter leave) (2 * r.size + F + 1) v2 = .next v3 := by
    have : 2 * r.size + F + 1 = 2 * r.size + (F + 1) := by omega
    rw [this, e3, hdone]
  have hc : v2.cbs = s := by simp [v2, c1]
  simp only [traverse_dfs, traverse_dfs.body, seq]
  rw [e1]
  simp only [seq, v2] at e3' ⊢
  rw [e3']
  simp only [Py.bind, hroot, vl3, finish, Option.map, hc, c3]

end RefineTrav
