import SwcVerif.Gen.AlgoNormalizer
import SwcVerif.Refine.PyLemmas
import SwcVerif.Model.Dsu
/-! Refinement for C18 / C01: the definitions GENERATED from `swc_utils/normalizer.py::reset_index_` and
`mark_roots_as_somas_` (DataFrame columns as variables, `np.where` with broadcast scalars, `df.loc[row, col]`) compute the
models' columns on every table that has a root. -/
namespace RefineNorm
open Gen.Algo Dsu Py

theorem where_map3 {α : Type} (l : List α) (c : α → Bool) (f g : α → Int) :
    where_ (l.map c) (l.map f) (l.map g) = l.map (fun x => if c x then f x else g x) := by
  induction l with
  | nil => simp [where_]
  | cons x xs ih =>
    simp only [where_] at ih ⊢
    simp [ih]

theorem argmax_firstRoot : ∀ (pids : List Int), (-1 : Int) ∈ pids →
    (eqMask pids (-1)).idxOf true = firstRootLoc pids ∧ firstRootLoc pids < pids.length := by
  intro pids
  induction pids with
  | nil => intro h; simp at h
  | cons p ps ih =>
    intro h
    by_cases hp : p = -1
    · simp [eqMask, firstRootLoc, hp]
    · have hps : (-1 : Int) ∈ ps := by
        simp only [List.mem_cons] at h
        rcases h with h | h
        · exact absurd h.symm hp
        · exact h
      obtain ⟨e, hl⟩ := ih hps
      simp only [eqMask] at e ⊢
      simp [firstRootLoc, hp, List.idxOf_cons, e]
      omega

theorem argmaxMask_root (pids : List Int) (h : (-1 : Int) ∈ pids) :
    argmaxMask (eqMask pids (-1)) = some ((firstRootLoc pids : Nat) : Int) := by
  obtain ⟨e, hl⟩ := argmax_firstRoot pids h
  have hne : (eqMask pids (-1)).isEmpty = false := by
    cases pids with
    | nil => simp at h
    | cons a l => simp [eqMask]
  have hlen : (eqMask pids (-1)).length = pids.length := by simp [eqMask]
  simp only [argmaxMask, hne, Bool.false_eq_true, if_false, e, hlen]
  rw [Nat.mod_eq_of_lt hl]

theorem where_zip (t : Int) : ∀ (q types : List Int),
    where_ (neMask q (-1)) types ((neMask q (-1)).map (fun _ => t)) =
      (List.zip q types).map (fun pt => if pt.1 ≠ -1 then pt.2 else t) := by
  intro q
  induction q with
  | nil => intro types; simp [where_, neMask]
  | cons a q ih =>
    intro types
    cases types with
    | nil => simp [where_, neMask]
    | cons b ts =>
      have h := ih ts
      unfold where_ neMask at h ⊢
      simp only [List.map_cons, List.zip_cons_cons, List.cons.injEq]
      refine ⟨?_, h⟩
      by_cases ha : a = -1 <;> simp [ha]

/-- **`mark_roots_as_somas_` as translated equals the model** on every table with a root (equally long columns) -/
theorem markRoots_refines (ids pids types : List Int) (ut : Option Int) (h1 : ids.length = pids.length)
    (hr : (-1 : Int) ∈ pids) :
    mark_roots_as_somas_ ids pids types ut =
      some ((markRootsAsSomas ids pids types ut).1, (markRootsAsSomas ids pids types ut).2, ()) := by
  obtain ⟨_, hl⟩ := argmax_firstRoot pids hr
  have hidx : idx ids ((firstRootLoc pids : Nat) : Int) = some (ids.getD (firstRootLoc pids) 0) := by
    rw [idx_nat _ _ (by omega)]; simp [List.getD, h1, hl]
  have hp1 : where_ (neMask pids (-1)) pids ((neMask pids (-1)).map (fun _ => ids.getD (firstRootLoc pids) 0)) =
      pids.map (fun p => if p ≠ -1 then p else ids.getD (firstRootLoc pids) 0) := by
    have := where_map3 pids (fun p => decide (p ≠ -1)) (fun p => p) (fun _ => ids.getD (firstRootLoc pids) 0)
    simpa [neMask, List.map_map, Function.comp_def] using this
  have hset : setIdx (pids.map (fun p => if p ≠ -1 then p else ids.getD (firstRootLoc pids) 0)) ((firstRootLoc pids : Nat) : Int) (-1) =
      some ((pids.map (fun p => if p ≠ -1 then p else ids.getD (firstRootLoc pids) 0)).set (firstRootLoc pids) (-1)) :=
    setIdx_nat _ _ _ (by simpa using hl)
  simp only [mark_roots_as_somas_, mark_roots_as_somas_.body, seq, Py.bind, argmaxMask_root pids hr, hidx, hp1]
  cases ut with
  | none =>
    simp only [Option.isSome_none, Bool.false_eq_true, if_false, skip, hset, finish, Option.map, markRootsAsSomas]
  | some t =>
    simp only [Option.isSome_some, if_true, Option.getD_some, where_zip, hset, finish, Option.map, markRootsAsSomas]

/-- **`reset_index_` as translated**: every id is shifted by the first root's id, every parent too except the `-1` markers -/
theorem resetIndex_refines (ids pids : List Int) (h1 : ids.length = pids.length) (hr : (-1 : Int) ∈ pids) :
    reset_index_ ids pids =
      some (ids.map (fun i => i - ids.getD (firstRootLoc pids) 0),
            pids.map (fun p => if p = -1 then -1 else p - ids.getD (firstRootLoc pids) 0), ()) := by
  obtain ⟨_, hl⟩ := argmax_firstRoot pids hr
  have hidx : idx ids ((firstRootLoc pids : Nat) : Int) = some (ids.getD (firstRootLoc pids) 0) := by
    rw [idx_nat _ _ (by omega)]; simp [List.getD, h1, hl]
  have hw := where_map3 pids (fun p => decide (p = -1)) (fun _ => (-1 : Int)) (fun p => p + -(ids.getD (firstRootLoc pids) 0))
  simp only [reset_index_, reset_index_.body, seq, Py.bind, argmaxMask_root pids hr, hidx, finish, Option.map]
  simp only [eqMask, List.map_map, Function.comp_def] at hw ⊢
  rw [hw]
  simp [Int.sub_eq_add_neg]

end RefineNorm
