import SwcVerif.Refine.PyLemmas
import Mathlib.Order.Basic
import Mathlib.Order.Defs.LinearOrder
/-! Specification lemmas for the numeric / 2-d / masked array part of `Model/Py.lean` (`full`, `full2`, `idx2`, `setIdx2`, `setRowConst`,
`setRow`, `setColConst`, `bcastCol`, `maArray`, `maArgmin`, `unravelIndex`). -/
namespace Py
variable {α β γ : Type}

theorem mapOpt_total (f : α → Option β) (g : α → β) : ∀ (l : List α), (∀ x ∈ l, f x = some (g x)) → mapOpt f l = some (l.map g) := by
  intro l
  induction l with
  | nil => intro _; rfl
  | cons x xs ih =>
    intro h
    simp only [mapOpt, h x (List.mem_cons_self), ih (fun y hy => h y (List.mem_cons_of_mem _ hy)), List.map_cons]

theorem full_nat (n : Nat) (c : α) : full (n : Int) c = some (List.replicate n c) := by
  simp [full]

theorem full_neg (n : Int) (c : α) (h : n < 0) : full n c = none := by
  simp [full, h]

theorem full2_nat (r k : Nat) (c : α) : full2 (r : Int) (k : Int) c = some (List.replicate r (List.replicate k c)) := by
  have h1 : ¬ ((r : Int) < 0) := by omega
  have h2 : ¬ ((k : Int) < 0) := by omega
  simp [full2, h1, h2]

theorem idx_nat_getD (l : List α) (k : Nat) (d : α) (h : k < l.length) : idx l (k : Int) = some (l.getD k d) := by
  rw [idx_nat l k h]; simp [List.getD_eq_getElem?_getD, List.getElem?_eq_getElem h]

theorem idx2_nat (m : List (List α)) (i j : Nat) (d : α) (hi : i < m.length) (hj : j < (m.getD i []).length) :
    idx2 m (i : Int) (j : Int) = some ((m.getD i []).getD j d) := by
  simp only [idx2, idx_nat_getD m i [] hi, Option.bind_some, idx_nat_getD _ j d hj]

theorem setIdx2_nat (m : List (List α)) (i j : Nat) (x : α) (hi : i < m.length) (hj : j < (m.getD i []).length) :
    setIdx2 m (i : Int) (j : Int) x = some (m.set i ((m.getD i []).set j x)) := by
  simp only [setIdx2, idx_nat_getD m i [] hi, Option.bind_some, setIdx_nat _ j x hj, setIdx_nat m i _ hi]

theorem setRowConst_nat (m : List (List α)) (i : Nat) (c : α) (hi : i < m.length) :
    setRowConst m (i : Int) c = some (m.set i (List.replicate (m.getD i []).length c)) := by
  simp only [setRowConst, idx_nat_getD m i [] hi, Option.bind_some, setIdx_nat m i _ hi]
  congr 2
  exact List.map_const'

theorem broadcastTo_same (r : List α) : broadcastTo r r.length = some r := by
  simp [broadcastTo]

theorem setRow_nat (m : List (List α)) (i : Nat) (r : List α) (hi : i < m.length) (hr : r.length = (m.getD i []).length) :
    setRow m (i : Int) r = some (m.set i r) := by
  simp only [setRow, idx_nat_getD m i [] hi, Option.bind_some, ← hr, broadcastTo_same, setIdx_nat m i _ hi]

theorem setColConst_nat (m : List (List α)) (j : Nat) (c : α) (h : ∀ r ∈ m, j < r.length) :
    setColConst m (j : Int) c = some (m.map fun row => row.set j c) :=
  mapOpt_total _ _ m (fun r hr => setIdx_nat r j c (h r hr))

theorem bcastCol_same (f : α → β → γ) (m : List (List α)) (c : List β) (h : m.length = c.length) :
    bcastCol f m c = some (List.zipWith (fun row x => row.map (f · x)) m c) := by
  simp [bcastCol, h]

theorem unravelIndex_nat (i j n : Nat) (hi : i < n) (hj : j < n) :
    unravelIndex ((i * n + j : Nat) : Int) ((n : Int), (n : Int)) = some ((i : Int), (j : Int)) := by
  have h1 : i * n + j < n * n := by
    have : (i + 1) * n ≤ n * n := Nat.mul_le_mul_right n hi
    have : (i + 1) * n = i * n + n := Nat.succ_mul i n
    omega
  have h2 : ((i * n + j : Nat) : Int) < (n : Int) * (n : Int) := by exact_mod_cast h1
  have h0 : (0 : Int) ≤ ((i * n + j : Nat) : Int) := Int.natCast_nonneg _
  simp only [unravelIndex, h0, h2, and_self, if_true, Int.toNat_natCast]
  have hn : 0 < n := by omega
  have e1 : (i * n + j) / n = i := by
    rw [Nat.mul_comm, Nat.mul_add_div hn, Nat.div_eq_of_lt hj]; rfl
  have e2 : (i * n + j) % n = j := by
    rw [Nat.mul_comm, Nat.mul_add_mod, Nat.mod_eq_of_lt hj]
  rw [e1, e2]

/-! ### `maArgmin`: the FIRST least unmasked cell in row-major order -/
section argmin
variable {K : Type} [LinearOrder K]

/-- `b` describes the first least unmasked cell of `l` (`none`: every cell of `l` is masked) -/
def Best (l : List (K × Bool)) : Option (K × Nat) → Prop
  | none => ∀ (p : Nat) (y : K) (m : Bool), l[p]? = some (y, m) → m = true
  | some (c, k) => l[k]? = some (c, false) ∧ ∀ (p : Nat) (y : K), l[p]? = some (y, false) → c ≤ y ∧ (p < k → c < y)

theorem best_step (pre : List (K × Bool)) (x : K × Bool) (b : Option (K × Nat)) (h : Best pre b) :
    Best (pre ++ [x]) (argminStep b x pre.length) := by
  obtain ⟨xv, xm⟩ := x
  have hget : ∀ p, (pre ++ [(xv, xm)])[p]? = if p < pre.length then pre[p]? else if p = pre.length then some (xv, xm) else none := by
    intro p
    rw [List.getElem?_append]
    split
    · rfl
    · rename_i hp
      by_cases e : p = pre.length
      · subst e; simp
      · rw [if_neg e]
        have : p - pre.length ≠ 0 := by omega
        obtain ⟨q, hq⟩ := Nat.exists_eq_succ_of_ne_zero this
        rw [hq]; rfl
  cases xm with
  | true =>
    simp only [argminStep, if_true]
    match b, h with
    | none, h =>
      simp only [Best] at h ⊢
      intro p y m hp
      rw [hget] at hp
      split at hp
      · exact h p y m hp
      · split at hp
        · cases hp; rfl
        · cases hp
    | some (c, k), h =>
      simp only [Best] at h ⊢
      obtain ⟨h1, h2⟩ := h
      have hk : k < pre.length := by
        by_contra hc
        rw [List.getElem?_eq_none (by omega)] at h1; cases h1
      refine ⟨by rw [hget, if_pos hk]; exact h1, ?_⟩
      intro p y hp
      rw [hget] at hp
      split at hp
      · exact h2 p y hp
      · split at hp
        · cases hp
        · cases hp
  | false =>
    simp only [argminStep, Bool.false_eq_true, if_false]
    match b, h with
    | none, h =>
      simp only [Best] at h ⊢
      refine ⟨by rw [hget]; simp, ?_⟩
      intro p y hp
      rw [hget] at hp
      split at hp
      · have := h p y false hp; cases this
      · rename_i hlt
        split at hp
        · cases hp; exact ⟨le_refl _, fun hc => absurd hc (by omega)⟩
        · cases hp
    | some (c, k), h =>
      simp only [Best] at h ⊢
      obtain ⟨h1, h2⟩ := h
      have hk : k < pre.length := by
        by_contra hc
        rw [List.getElem?_eq_none (by omega)] at h1; cases h1
      by_cases hlt : xv < c
      · simp only [hlt, if_true]
        refine ⟨by rw [hget]; simp, ?_⟩
        intro p y hp
        rw [hget] at hp
        split at hp
        · rename_i hpl
          have := (h2 p y hp).1
          exact ⟨le_of_lt (lt_of_lt_of_le hlt this), fun _ => lt_of_lt_of_le hlt this⟩
        · split at hp
          · cases hp; exact ⟨le_refl _, fun hc => absurd hc (by omega)⟩
          · cases hp
      · simp only [hlt, if_false]
        refine ⟨by rw [hget, if_pos hk]; exact h1, ?_⟩
        intro p y hp
        rw [hget] at hp
        split at hp
        · exact h2 p y hp
        · rename_i hpl
          split at hp
          · cases hp; exact ⟨not_lt.mp hlt, fun hc => absurd hc (by omega)⟩
          · cases hp

theorem best_from : ∀ (xs pre : List (K × Bool)) (b : Option (K × Nat)), Best pre b →
    Best (pre ++ xs) (argminFrom xs pre.length b) := by
  intro xs
  induction xs with
  | nil => intro pre b h; simpa [argminFrom] using h
  | cons x xs ih =>
    intro pre b h
    have := ih (pre ++ [x]) _ (best_step pre x b h)
    simpa [argminFrom] using this

/-- **specification of `a.argmin()` on a masked array** (row-major cells `maCells a`): an empty array raises; otherwise the result is a
valid flat index `k`; if some cell is unmasked, cell `k` is unmasked, no unmasked cell is smaller, and every unmasked cell before it is
strictly larger (the FIRST minimum); if every cell is masked the result is `0` -/
theorem maArgmin_spec (a : Masked2 K) :
    (maCells a = [] → maArgmin a = none) ∧
    (maCells a ≠ [] → ∃ k : Nat, maArgmin a = some (k : Int) ∧ k < (maCells a).length ∧
      ((∀ (p : Nat) (y : K) (m : Bool), (maCells a)[p]? = some (y, m) → m = true) → k = 0) ∧
      ((∃ (p : Nat) (y : K), (maCells a)[p]? = some (y, false)) →
        ∃ c, (maCells a)[k]? = some (c, false) ∧ ∀ (p : Nat) (y : K), (maCells a)[p]? = some (y, false) → c ≤ y ∧ (p < k → c < y))) := by
  constructor
  · intro h; simp [maArgmin, h]
  · intro hne
    have hb := best_from (maCells a) [] none (by simp [Best])
    simp only [List.nil_append, List.length_nil] at hb
    have hpos : 0 < (maCells a).length := List.length_pos_iff.mpr hne
    have hemp : (maCells a).isEmpty = false := by simpa using hne
    match hr : argminFrom (maCells a) 0 none, hb with
    | none, hb =>
      simp only [Best] at hb
      refine ⟨0, by simp [maArgmin, hemp, hr], hpos, fun _ => rfl, ?_⟩
      rintro ⟨p, y, hp⟩
      have := hb p y false hp; cases this
    | some (c, k), hb =>
      simp only [Best] at hb
      obtain ⟨h1, h2⟩ := hb
      have hk : k < (maCells a).length := by
        by_contra hc
        rw [List.getElem?_eq_none (by omega)] at h1; cases h1
      refine ⟨k, by simp [maArgmin, hemp, hr], hk, ?_, fun _ => ⟨c, h1, h2⟩⟩
      intro hall
      have := hall k c false h1; cases this
end argmin

end Py
