import SwcVerif.Gen.AlgoViews
import SwcVerif.Refine.PyLemmas
/-! # Refinement: the view classes of C09, as translated (`Gen/AlgoViews.lean`), against their specification

Every statement is about the definitions GENERATED from the current sources of `node.py`, `path.py`, `tree.py`, `branch.py`,
`compartment.py`, `swc.py` (harness/algo_specs/70_views.py), for EVERY column content and EVERY index array (no bound on sizes).
`T` is a tree / DictSWC (a record of columns), `P = ⟨T, idx, nm⟩` a Path / Branch over it. -/
namespace RefineViews
open Gen.Algo

/-! ## gathering (`col[idx]`) -/

/-- every entry of `idx` is a valid non-negative row of a column of length `n` -/
def InRange (idx : List Int) (n : Nat) : Prop := ∀ i ∈ idx, 0 ≤ i ∧ i.toNat < n

/-- the rows `idx` of `col`, in order -/
def gather (col idx : List Int) : List Int := idx.map fun i => col.getD i.toNat 0

theorem idx_inrange (col : List Int) (i : Int) (h : 0 ≤ i ∧ i.toNat < col.length) : Py.idx col i = some (col.getD i.toNat 0) := by
  have e : i = ((i.toNat : Nat) : Int) := by omega
  have h0 : Py.idx col ((i.toNat : Nat) : Int) = col[i.toNat]? := Py.idx_nat _ _ h.2
  rw [← e] at h0
  rw [h0]; simp [List.getD, h.2]

theorem take_gather (col : List Int) : ∀ (idx : List Int), InRange idx col.length → Py.take col idx = some (gather col idx) := by
  intro idx
  induction idx with
  | nil => intro _; rfl
  | cons i is ih =>
    intro h
    have h1 := idx_inrange col i (h i List.mem_cons_self)
    have := ih (fun j hj => h j (List.mem_cons_of_mem _ hj))
    simp only [Py.take, gather] at this ⊢
    simp [List.mapM_cons, h1, this]

theorem take_length (col : List Int) : ∀ (idx g : List Int), Py.take col idx = some g → g.length = idx.length := by
  intro idx
  induction idx with
  | nil => intro g h; simp [Py.take] at h; simp [h]
  | cons i is ih =>
    intro g h
    simp only [Py.take, List.mapM_cons] at h ih
    cases h1 : Py.idx col i with
    | none => simp [h1] at h
    | some x =>
      cases h2 : List.mapM (Py.idx col) is with
      | none => simp [h1, h2] at h
      | some r =>
        simp [h1, h2] at h
        subst h
        simp [ih r h2]

@[simp] theorem gather_length (col idx : List Int) : (gather col idx).length = idx.length := by simp [gather]

/-! ## reads -/

theorem swc_get_ndata_eq (T : DictSWC) (key : String) : swc_get_ndata T key = Py.Dict.get? T.ndata key := by
  cases h : Py.Dict.get? T.ndata key <;> simp [swc_get_ndata, swc_get_ndata.body, Py.finish, Py.bind, h]

/-- `Path.get_ndata(key)` = `attach.get_ndata(key)[self.idx]`: the owner's column gathered by `idx` (KeyError / IndexError alike) -/
theorem path_get_ndata_eq (T : DictSWC) (idx : List Int) (nm : SWCNames) (key : String) :
    path_get_ndata ⟨T, idx, nm⟩ key = (Py.Dict.get? T.ndata key).bind fun col => Py.take col idx := by
  simp only [path_get_ndata, path_get_ndata.body, swc_get_ndata_eq]
  cases h : Py.Dict.get? T.ndata key with
  | none => simp [Py.finish, Py.bind]
  | some col => cases h2 : Py.take col idx <;> simp [Py.finish, Py.bind, h2]

/-- … for an index array with entries in range: exactly the rows `idx` of the column, in order -/
theorem path_get_ndata_spec (T : DictSWC) (idx : List Int) (nm : SWCNames) (key : String) (col : List Int)
    (hk : Py.Dict.get? T.ndata key = some col) (hr : InRange idx col.length) :
    path_get_ndata ⟨T, idx, nm⟩ key = some (gather col idx) := by
  rw [path_get_ndata_eq, hk]; exact take_gather col idx hr

theorem path_getitem_str_eq (P : Path) (key : String) : path_getitem_str P key = path_get_ndata P key := by
  cases h : path_get_ndata P key <;>
    simp [path_getitem_str, path_getitem_str.body, Py.seq, Py.skip, Py.finish, Py.bind, h]

theorem tree_getitem_str_eq (T : DictSWC) (key : String) : tree_getitem_str T key = Py.Dict.get? T.ndata key := by
  cases h : Py.Dict.get? T.ndata key <;>
    simp [tree_getitem_str, tree_getitem_str.body, Py.seq, Py.skip, Py.finish, Py.bind, swc_get_ndata_eq, h]

theorem path_origin_id_eq (P : Path) : path_origin_id P = path_get_ndata P P.names.id := by
  cases h : path_get_ndata P P.names.id <;> simp [path_origin_id, path_origin_id.body, Py.finish, Py.bind, h]

/-- `len(path)` = the length of `idx` whenever the id column can be gathered -/
theorem path_len_eq (P : Path) (g : List Int) (h : path_get_ndata P P.names.id = some g) : path_len P = some (g.length : Int) := by
  simp [path_len, path_len.body, path_id, path_id.body, path_origin_id_eq, h, Py.finish, Py.bind, Py.arange, Py.range, Py.len]

theorem path_id_eq (P : Path) (g : List Int) (h : path_get_ndata P P.names.id = some g) :
    path_id P = some ((List.range g.length).map fun (k : Nat) => (k : Int)) := by
  simp [path_id, path_id.body, path_origin_id_eq, h, Py.finish, Py.bind, Py.arange, Py.range, Py.len]

theorem path_pid_eq (P : Path) (g : List Int) (h : path_get_ndata P P.names.id = some g) :
    path_pid P = some ((List.range g.length).map fun (k : Nat) => (k : Int) - 1) := by
  simp only [path_pid, path_pid.body, path_origin_id_eq, h, Py.finish, Py.bind, Py.range2, Py.len]
  have : ((g.length : Int) - 1 - -1).toNat = g.length := by omega
  simp [this]
  intro a _; omega


/-! ## integer keys: range check, negative normalisation, the node handle -/

/-- the position a Python index `k` designates in a sequence of length `n` (`-n ≤ k < n`) -/
def normKey (k : Int) (n : Nat) : Int := if k < 0 then k + n else k

theorem path_node_eq (P : Path) (i : Int) : path_node P i = some ⟨P, i, P.names⟩ := by
  simp [path_node, path_node.body, pnode_init, pnode_init.body, Py.seq, Py.finish, Py.bind]

theorem tree_node_eq (T : DictSWC) (i : Int) : tree_node T i = some ⟨T, i, T.names⟩ := by
  simp [tree_node, tree_node.body, tnode_init, tnode_init.body, Py.seq, Py.finish, Py.bind]

/-- `path[k]` for an `int` key: IndexError outside `-n ≤ k < n`, otherwise the handle of position `k mod n` (a handle is (path, position):
it dereferences on every access) -/
theorem path_getitem_int_eq (P : Path) (g : List Int) (h : path_get_ndata P P.names.id = some g) (k : Int) :
    path_getitem_int P k =
      if k < -(g.length : Int) ∨ k ≥ g.length then none else some ⟨P, normKey k g.length, P.names⟩ := by
  simp only [path_getitem_int, path_getitem_int.body, Py.seq, Py.skip, path_len_eq P g h, Py.bind, path_node_eq, normKey]
  by_cases h1 : k < -(g.length : Int) ∨ k ≥ g.length
  · simp [h1, Py.finish]
  · by_cases h2 : k < 0 <;> simp [h1, h2, Py.finish]

theorem swc_len_eq (T : DictSWC) (idc : List Int) (h : Py.Dict.get? T.ndata T.names.id = some idc) : swc_len T = some (idc.length : Int) := by
  simp [swc_len, swc_len.body, swc_number_of_nodes, swc_number_of_nodes.body, swc_id, swc_id.body, swc_get_ndata_eq, h, Py.finish, Py.bind, Py.len]

/-- `tree[k]` for an `int` key (the same text as `Path.__getitem__`) -/
theorem tree_getitem_int_eq (T : DictSWC) (idc : List Int) (h : Py.Dict.get? T.ndata T.names.id = some idc) (k : Int) :
    tree_getitem_int T k =
      if k < -(idc.length : Int) ∨ k ≥ idc.length then none else some ⟨T, normKey k idc.length, T.names⟩ := by
  simp only [tree_getitem_int, tree_getitem_int.body, Py.seq, Py.skip, swc_len_eq T idc h, Py.bind, tree_node_eq, normKey]
  by_cases h1 : k < -(idc.length : Int) ∨ k ≥ idc.length
  · simp [h1, Py.finish]
  · by_cases h2 : k < 0 <;> simp [h1, h2, Py.finish]

/-- `Node.__getitem__` on a node of a tree: the owner's column at the node's row, on every access -/
theorem tnode_getitem_eq (T : DictSWC) (i : Int) (nm : SWCNames) (key : String) :
    tnode_getitem ⟨T, i, nm⟩ key = (Py.Dict.get? T.ndata key).bind fun col => Py.idx col i := by
  simp only [tnode_getitem, tnode_getitem.body, swc_get_ndata_eq]
  cases h : Py.Dict.get? T.ndata key with
  | none => simp [Py.finish, Py.bind]
  | some col => cases h2 : Py.idx col i <;> simp [Py.finish, Py.bind, h2]

/-- `Node.__getitem__` on a node of a path: the path's (gathered) column at the node's position -/
theorem pnode_getitem_eq (P : Path) (i : Int) (nm : SWCNames) (key : String) :
    pnode_getitem ⟨P, i, nm⟩ key = (path_get_ndata P key).bind fun g => Py.idx g i := by
  simp only [pnode_getitem, pnode_getitem.body]
  cases h : path_get_ndata P key with
  | none => simp [Py.finish, Py.bind]
  | some g => cases h2 : Py.idx g i <;> simp [Py.finish, Py.bind, h2]

theorem normKey_range (k : Int) (n : Nat) (h : ¬ (k < -(n : Int) ∨ k ≥ n)) : 0 ≤ normKey k n ∧ (normKey k n).toNat < n := by
  unfold normKey; split <;> omega

/-- **`path[k][key]`** for `-n ≤ k < n` is the owner's column at row `idx[k mod n]` (every column content, every in-range idx) -/
theorem path_int_read (T : DictSWC) (idx : List Int) (nm : SWCNames) (key : String) (col idc : List Int)
    (hid : Py.Dict.get? T.ndata nm.id = some idc) (hri : InRange idx idc.length)
    (hk : Py.Dict.get? T.ndata key = some col) (hr : InRange idx col.length) (k : Int) :
    (path_getitem_int ⟨T, idx, nm⟩ k).bind (fun n => pnode_getitem n key) =
      if k < -(idx.length : Int) ∨ k ≥ idx.length then none
      else some (col.getD (idx.getD (normKey k idx.length).toNat 0).toNat 0) := by
  have hg := path_get_ndata_spec T idx nm nm.id idc hid hri
  rw [path_getitem_int_eq ⟨T, idx, nm⟩ _ hg k]
  simp only [gather_length]
  by_cases h1 : k < -(idx.length : Int) ∨ k ≥ idx.length
  · simp [h1]
  · simp only [h1, if_false, Option.bind_some, pnode_getitem_eq, path_get_ndata_spec T idx nm key col hk hr]
    have hn := normKey_range k idx.length h1
    rw [idx_inrange (gather col idx) _ (by simpa using hn)]
    simp [gather, List.getD, hn.2]

/-! ## writes through node handles -/

/-- `Node.__setitem__` on a node of a tree / DictSWC: exactly cell `i` of column `k` of the OWNER changes (returned as the node's `attach`);
KeyError / IndexError otherwise -/
theorem tnode_setitem_eq (T : DictSWC) (i : Int) (nm : SWCNames) (k : String) (x : Int) :
    tnode_setitem ⟨T, i, nm⟩ k x =
      (Py.Dict.get? T.ndata k).bind fun col => (Py.setIdx col i x).map fun col' =>
        (⟨{ T with ndata := Py.Dict.set T.ndata k col' }, i, nm⟩, ()) := by
  simp only [tnode_setitem, tnode_setitem.body]
  cases h : Py.Dict.get? T.ndata k with
  | none => simp [Py.finish, Py.bind]
  | some col => cases h2 : Py.setIdx col i x <;> simp [Py.finish, Py.bind, h2]

/-- the owner after `tree[i][k] = x` (`j` the normalised row) -/
def written (T : DictSWC) (k : String) (col : List Int) (j : Nat) (x : Int) : DictSWC :=
  { T with ndata := Py.Dict.set T.ndata k (col.set j x) }

theorem setIdx_inrange (col : List Int) (i : Int) (x : Int) (h : 0 ≤ i ∧ i.toNat < col.length) :
    Py.setIdx col i x = some (col.set i.toNat x) := by
  have e : i = ((i.toNat : Nat) : Int) := by omega
  have h0 := Py.setIdx_nat col i.toNat x h.2
  rw [← e] at h0; exact h0

/-- **write-through**: assigning through the handle `tree[i]` (`-n ≤ i < n`) succeeds and the owner becomes `written …`: -/
theorem node_write_through (T : DictSWC) (k : String) (col idc : List Int) (x i : Int)
    (hid : Py.Dict.get? T.ndata T.names.id = some idc) (hk : Py.Dict.get? T.ndata k = some col) (hl : col.length = idc.length)
    (hi : ¬ (i < -(idc.length : Int) ∨ i ≥ idc.length)) :
    (tree_getitem_int T i).bind (fun n => tnode_setitem n k x) =
      some (⟨written T k col (normKey i idc.length).toNat x, normKey i idc.length, T.names⟩, ()) := by
  rw [tree_getitem_int_eq T idc hid i]
  have hn := normKey_range i idc.length hi
  simp only [hi, if_false, Option.bind_some, tnode_setitem_eq, hk]
  rw [setIdx_inrange col _ x (by rw [hl]; exact hn)]
  simp [written]

/-- … the written column holds `x` at that row and is otherwise unchanged; every other column is untouched -/
theorem written_get (T : DictSWC) (k k' : String) (col : List Int) (j : Nat) (x : Int) :
    Py.Dict.get? (written T k col j x).ndata k' = if k' = k then some (col.set j x) else Py.Dict.get? T.ndata k' := by
  simp [written, Py.Dict.get?_set]

/-- **write, then read through any view**: after `tree[i][k] = x`, a path over the same owner reports `x` at every position that refers to
row `i` and the old value elsewhere — for every idx array in range (a path holds no copy: it gathers on every access) -/
theorem write_then_view_read (T : DictSWC) (k : String) (col : List Int) (j : Nat) (x : Int) (idx : List Int) (nm : SWCNames)
    (hr : InRange idx col.length) :
    path_get_ndata ⟨written T k col j x, idx, nm⟩ k = some (idx.map fun i => if i.toNat = j then x else col.getD i.toNat 0) := by
  rw [path_get_ndata_spec (written T k col j x) idx nm k (col.set j x) (by simp [written_get]) (by simpa using hr)]
  simp only [gather]
  congr 1
  apply List.map_congr_left
  intro i hi
  have := hr i hi
  by_cases e : i.toNat = j
  · subst e; simp [List.getD, this.2]
  · simp [List.getD, e, List.getElem?_set, Ne.symm e]

/-- … and a column that was not written is read unchanged through every view -/
theorem write_frame (T : DictSWC) (k k' : String) (col : List Int) (j : Nat) (x : Int) (idx : List Int) (nm : SWCNames) (hne : k' ≠ k) :
    path_get_ndata ⟨written T k col j x, idx, nm⟩ k' = path_get_ndata ⟨T, idx, nm⟩ k' := by
  simp [path_get_ndata_eq, written_get, hne]

/-- a store through a node handle of a PATH never changes anything (`Path.get_ndata` gathers into a NEW array; the store goes there):
whenever it does not raise, the handle - with its path and the path's owner - is returned as it was -/
theorem pnode_setitem_lost (n : PNode) (k : String) (x : Int) (r : PNode × Unit) (h : pnode_setitem n k x = some r) : r.1 = n := by
  simp only [pnode_setitem, pnode_setitem.body] at h
  cases h1 : path_get_ndata n.attach k with
  | none => simp [h1, Py.finish, Py.bind] at h
  | some g =>
    cases h2 : Py.setIdx g n.idx x with
    | none => simp [h1, h2, Py.finish, Py.bind] at h
    | some g' => simp [h1, h2, Py.finish, Py.bind] at h; rw [← h]


/-! ## slice keys -/

/-- the positions Python's slice `s` designates in a sequence of length `n`, in order: `range(*s.indices(n))` (`none` = ValueError, step 0) -/
def slicePositions (s : Py.Slice) (n : Int) : Option (List Int) :=
  (Py.sliceIndices s n).bind fun t => Py.range3 t.1 t.2.1 t.2.2

theorem path_slice_loop (P : Path) : ∀ (xs : List Int) (v : path_getitem_slice.V), v.self = P →
    ∃ v', Py.forEach path_getitem_slice.for1 xs v = .next v' ∧ v'.self = P ∧ v'.c0_ = v.c0_ ++ xs.map (fun i => ⟨P, i, P.names⟩) := by
  intro xs
  induction xs with
  | nil => intro v h; exact ⟨v, rfl, h, by simp⟩
  | cons x xs ih =>
    intro v h
    subst h
    obtain ⟨v', h1, h2, h3⟩ := ih { v with i := x, c0_ := v.c0_ ++ [⟨v.self, x, v.self.names⟩] } rfl
    refine ⟨v', ?_, h2, ?_⟩
    · simp only [Py.forEach, path_getitem_slice.for1, path_node_eq, Py.bind]
      exact h1
    · simp [h3]

/-- **`path[a:b:c]`** = the node handles at the positions Python's slice designates, in order (ValueError for a zero step) -/
theorem path_getitem_slice_eq (P : Path) (g : List Int) (h : path_get_ndata P P.names.id = some g) (s : Py.Slice) :
    path_getitem_slice P s = (slicePositions s g.length).map fun l => l.map fun i => (⟨P, i, P.names⟩ : PNode) := by
  simp only [path_getitem_slice, path_getitem_slice.body, Py.seq, Py.skip, path_len_eq P g h, Py.bind, slicePositions]
  cases h1 : Py.sliceIndices s g.length with
  | none => simp [Py.bindS, Py.finish]
  | some t =>
    cases h2 : Py.range3 t.1 t.2.1 t.2.2 with
    | none => simp [Py.bindS, Py.finish, h2]
    | some l =>
      obtain ⟨v', e1, _, e3⟩ := path_slice_loop P l ⟨P, s, (default : path_getitem_slice.V).i, []⟩ rfl
      simp [Py.bindS, Py.finish, h2, e1, e3]

theorem tree_slice_loop (T : DictSWC) : ∀ (xs : List Int) (v : tree_getitem_slice.V), v.self = T →
    ∃ v', Py.forEach tree_getitem_slice.for1 xs v = .next v' ∧ v'.self = T ∧ v'.c0_ = v.c0_ ++ xs.map (fun i => ⟨T, i, T.names⟩) := by
  intro xs
  induction xs with
  | nil => intro v h; exact ⟨v, rfl, h, by simp⟩
  | cons x xs ih =>
    intro v h
    subst h
    obtain ⟨v', h1, h2, h3⟩ := ih { v with i := x, c0_ := v.c0_ ++ [⟨v.self, x, v.self.names⟩] } rfl
    refine ⟨v', ?_, h2, ?_⟩
    · simp only [Py.forEach, tree_getitem_slice.for1, tree_node_eq, Py.bind]
      exact h1
    · simp [h3]

/-- **`tree[a:b:c]`** (the same text as `Path.__getitem__`) -/
theorem tree_getitem_slice_eq (T : DictSWC) (idc : List Int) (h : Py.Dict.get? T.ndata T.names.id = some idc) (s : Py.Slice) :
    tree_getitem_slice T s = (slicePositions s idc.length).map fun l => l.map fun i => (⟨T, i, T.names⟩ : TNode) := by
  simp only [tree_getitem_slice, tree_getitem_slice.body, Py.seq, Py.skip, swc_len_eq T idc h, Py.bind, slicePositions]
  cases h1 : Py.sliceIndices s idc.length with
  | none => simp [Py.bindS, Py.finish]
  | some t =>
    cases h2 : Py.range3 t.1 t.2.1 t.2.2 with
    | none => simp [Py.bindS, Py.finish, h2]
    | some l =>
      obtain ⟨v', e1, _, e3⟩ := tree_slice_loop T l ⟨T, s, (default : tree_getitem_slice.V).i, []⟩ rfl
      simp [Py.bindS, Py.finish, h2, e1, e3]


/-! ## compartments -/

theorem bcomp_init_eq (P : Path) (a b : Int) : bcomp_init default P a b = some (⟨P, [a, b], P.names⟩, ()) := by
  simp [bcomp_init, bcomp_init.body, ppath_init, ppath_init.body, Py.seq, Py.finish, Py.bind]

theorem tcomp_init_eq (T : DictSWC) (a b : Int) : tcomp_init default T a b = some (⟨T, [a, b], T.names⟩, ()) := by
  simp [tcomp_init, tcomp_init.body, path_init, path_init.body, Py.seq, Py.finish, Py.bind]

theorem branch_comp_loop (P : Path) : ∀ (xs : List Int) (v : branch_get_compartments.V), v.self = P →
    ∃ v', Py.forEach branch_get_compartments.for1 xs v = .next v' ∧ v'.self = P ∧
      v'.c0_ = v.c0_ ++ xs.map (fun i => ⟨P, [i - 1, i], P.names⟩) := by
  intro xs
  induction xs with
  | nil => intro v h; exact ⟨v, rfl, h, by simp⟩
  | cons x xs ih =>
    intro v h
    subst h
    obtain ⟨v', h1, h2, h3⟩ := ih { v with i := x, c0_ := v.c0_ ++ [⟨v.self, [x - 1, x], v.self.names⟩] } rfl
    refine ⟨v', ?_, h2, ?_⟩
    · simp only [Py.forEach, branch_get_compartments.for1, bcomp_init_eq, Py.bind]
      exact h1
    · simp [h3]

/-- `Branch.get_compartments()`: one compartment per position `i = 1 .. n-1`, over the BRANCH, with index array `[i - 1, i]` -/
theorem branch_get_compartments_eq (P : Path) (g : List Int) (h : path_get_ndata P P.names.id = some g) :
    branch_get_compartments P = some ((Py.range2 1 g.length).map fun i => (⟨P, [i - 1, i], P.names⟩ : PPath)) := by
  obtain ⟨v', e1, _, e3⟩ := branch_comp_loop P (Py.range2 1 g.length) ⟨P, (default : branch_get_compartments.V).i, []⟩ rfl
  simp [branch_get_compartments, branch_get_compartments.body, Py.seq, path_len_eq P g h, Py.bind, Py.bindS, Py.finish, e1, e3]

theorem ppath_get_ndata_eq (P : Path) (ix : List Int) (nm : SWCNames) (key : String) :
    ppath_get_ndata ⟨P, ix, nm⟩ key = (path_get_ndata P key).bind fun g => Py.take g ix := by
  simp only [ppath_get_ndata, ppath_get_ndata.body]
  cases h : path_get_ndata P key with
  | none => simp [Py.finish, Py.bind]
  | some g => cases h2 : Py.take g ix <;> simp [Py.finish, Py.bind, h2]

/-- a compartment of a branch reports, for every column, the values of the branch's nodes `i - 1` and `i` -/
theorem branch_compartment_read (P : Path) (key : String) (gk : List Int) (hk : path_get_ndata P key = some gk) (nm : SWCNames)
    (i : Int) (hi : 1 ≤ i ∧ i.toNat < gk.length) :
    ppath_get_ndata ⟨P, [i - 1, i], nm⟩ key = some [gk.getD (i - 1).toNat 0, gk.getD i.toNat 0] := by
  rw [ppath_get_ndata_eq, hk]
  exact take_gather gk [i - 1, i] (by intro j hj; simp at hj; rcases hj with rfl | rfl <;> omega)

/-- the pairs (value at `i - 1`, value at `i`) for `i = 1 .. n-1` are the CONSECUTIVE pairs of the sequence -/
theorem consecutive_pairs (g : List Int) :
    (Py.range2 1 g.length).map (fun i => (g.getD (i - 1).toNat 0, g.getD i.toNat 0)) = g.zip (g.drop 1) := by
  apply List.ext_getElem
  · simp [Py.range2] <;> omega
  · intro k h1 h2
    simp [Py.range2] at h1 h2 ⊢
    have e1 : (1 + (k : Int) - 1).toNat = k := by omega
    have e2 : (1 + (k : Int)).toNat = k + 1 := by omega
    have e3 : 1 + k = k + 1 := by omega
    have hk : k < g.length := by omega
    have hk1 : k + 1 < g.length := by omega
    simp [e1, e2, e3, List.getD, hk, hk1]

/-! ### of a tree: the (parent, child) pairs of rows 1 .. n-1 -/

theorem slicePositions_from1 (L : Nat) :
    slicePositions ((some 1, none, none) : Py.Slice) L = some ((List.range (L - 1)).map fun (k : Nat) => (k : Int) + 1) := by
  rcases Nat.lt_or_ge 1 L with h | h
  · have e : ((L : Int) - 1 + 1 - 1) / 1 = ((L - 1 : Nat) : Int) := by simp; omega
    simp [slicePositions, Py.sliceIndices, Py.sliceClamp, Py.range3, Py.rangeLen, h, e, show ¬ ((1 : Int) > L) by omega,
      show (1 : Int) < L by omega, show ¬ ((L : Int) < 0) by omega]
    intro a _; omega
  · rcases Nat.eq_zero_or_pos L with h0 | h0
    · subst h0; simp [slicePositions, Py.sliceIndices, Py.sliceClamp, Py.range3, Py.rangeLen]
    · have : L = 1 := by omega
      subst this; simp [slicePositions, Py.sliceIndices, Py.sliceClamp, Py.range3, Py.rangeLen]

theorem tree_comp_loop (T : DictSWC) (pidc idc : List Int) (hp : Py.Dict.get? T.ndata T.names.pid = some pidc)
    (hi : Py.Dict.get? T.ndata T.names.id = some idc) :
    ∀ (is : List Int) (v : tree_get_compartments.V), v.self = T → InRange is pidc.length → InRange is idc.length →
    ∃ v', Py.forEach tree_get_compartments.for1 (is.map fun i => (⟨T, i, T.names⟩ : TNode)) v = .next v' ∧ v'.self = T ∧
      v'.c0_ = v.c0_ ++ is.map (fun i => ⟨T, [pidc.getD i.toNat 0, idc.getD i.toNat 0], T.names⟩) := by
  intro is
  induction is with
  | nil => intro v h _ _; exact ⟨v, rfl, h, by simp⟩
  | cons x xs ih =>
    intro v h r1 r2
    subst h
    obtain ⟨v', h1, h2, h3⟩ := ih ⟨v.self, ⟨v.self, x, v.self.names⟩,
        v.c0_ ++ [⟨v.self, [pidc.getD x.toNat 0, idc.getD x.toNat 0], v.self.names⟩]⟩ rfl
      (fun j hj => r1 j (List.mem_cons_of_mem _ hj)) (fun j hj => r2 j (List.mem_cons_of_mem _ hj))
    refine ⟨v', ?_, h2, ?_⟩
    · simp only [List.map_cons, Py.forEach, tree_get_compartments.for1, tnode_getitem_eq, hp, hi, Option.bind_some,
        idx_inrange pidc x (r1 x List.mem_cons_self), idx_inrange idc x (r2 x List.mem_cons_self), Py.bind, tcomp_init_eq]
      exact h1
    · simp [h3]

/-- **`Tree.get_compartments()`**: for the rows `i = 1 .. n-1` of the tree, in order, the compartment over the TREE with index array
`[pid[i], id[i]]` (the values of the two topology columns at row `i`: (parent, child)) -/
theorem tree_get_compartments_eq (T : DictSWC) (pidc idc : List Int) (hp : Py.Dict.get? T.ndata T.names.pid = some pidc)
    (hi : Py.Dict.get? T.ndata T.names.id = some idc) (hl : pidc.length = idc.length) :
    tree_get_compartments T =
      some ((List.range (idc.length - 1)).map fun (k : Nat) => (⟨T, [pidc.getD (k + 1) 0, idc.getD (k + 1) 0], T.names⟩ : Path)) := by
  have hs := tree_getitem_slice_eq T idc hi (some 1, none, none)
  rw [slicePositions_from1] at hs
  have hr : InRange ((List.range (idc.length - 1)).map fun (k : Nat) => (k : Int) + 1) idc.length := by
    intro j hj; simp at hj; obtain ⟨a, ha, rfl⟩ := hj; omega
  obtain ⟨v', e1, _, e3⟩ := tree_comp_loop T pidc idc hp hi _ ⟨T, (default : tree_get_compartments.V).n, []⟩ rfl (hl ▸ hr) hr
  simp only [Option.map_some] at hs
  simp only [tree_get_compartments, tree_get_compartments.body, Py.seq, hs, Py.bind, Py.bindS, e1, Py.finish, Option.map_some, e3]
  have e : ∀ a : Nat, ((a : Int) + 1).toNat = a + 1 := by intro a; omega
  simp [e]


/-! ## `detach()` and `copy()` -/

theorem dictswc_init_eq (D : Py.Dict String (List Int)) (nm : SWCNames) : dictswc_init default D nm = some (⟨D, nm⟩, ()) := by
  simp [dictswc_init, dictswc_init.body, Py.seq, Py.finish]

theorem path_init_eq (T : DictSWC) (idx : List Int) : path_init default T idx = some (⟨T, idx, T.names⟩, ()) := by
  simp [path_init, path_init.body, Py.seq, Py.finish]

theorem path_keys_eq (P : Path) : path_keys P = some (Py.Dict.keys P.attach.ndata) := by
  simp [path_keys, path_keys.body, swc_keys, swc_keys.body, Py.finish, Py.bind]

/-- `0, 1, …, n-1` -/
def arangeL (n : Nat) : List Int := (List.range n).map fun (k : Nat) => (k : Int)
/-- `-1, 0, …, n-2` -/
def pidL (n : Nat) : List Int := (List.range n).map fun (k : Nat) => (k : Int) - 1

theorem detach_loop (P : Path) : ∀ (ks : List String) (v : path_detach.V), v.self = P → (∀ k ∈ ks, (path_get_ndata P k).isSome) →
    ∃ v', Py.forEach path_detach.for1 ks v = .next v' ∧ v'.self = P ∧
      ∀ k', Py.Dict.get? v'.c0_ k' = if k' ∈ ks then path_get_ndata P k' else Py.Dict.get? v.c0_ k' := by
  intro ks
  induction ks with
  | nil => intro v h _; exact ⟨v, rfl, h, by simp⟩
  | cons k ks ih =>
    intro v h hall
    subst h
    obtain ⟨g, hg⟩ := Option.isSome_iff_exists.1 (hall k List.mem_cons_self)
    obtain ⟨v', h1, h2, h3⟩ := ih ⟨v.self, v.attact, k, Py.Dict.set v.c0_ k g⟩ rfl (fun j hj => hall j (List.mem_cons_of_mem _ hj))
    refine ⟨v', ?_, h2, ?_⟩
    · simp only [Py.forEach, path_detach.for1, hg, Py.bind]
      exact h1
    · intro k'
      rw [h3 k']
      by_cases m : k' ∈ ks
      · simp [m]
      · by_cases e : k' = k
        · subst e; simp [m, Py.Dict.get?_set, hg]
        · simp [m, e, Py.Dict.get?_set]

/-- **`Path.detach()`**: a new Path over a new DictSWC whose columns are the path's columns (every key of the owner, gathered by `idx`),
with `id` replaced by `0 .. n-1` and `pid` by `-1 .. n-2`, indexed by `0 .. n-1`.  (`hall`: every column of the owner can be gathered, e.g.
all columns as long as the id column and `idx` in range.) -/
theorem path_detach_eq (P : Path) (g : List Int) (h : path_get_ndata P P.names.id = some g)
    (hall : ∀ k ∈ Py.Dict.keys P.attach.ndata, (path_get_ndata P k).isSome) :
    ∃ D, path_detach P = some ⟨⟨D, P.names⟩, arangeL g.length, P.names⟩ ∧
      ∀ k', Py.Dict.get? D k' =
        if k' = P.names.pid then some (pidL g.length) else if k' = P.names.id then some (arangeL g.length)
        else if k' ∈ Py.Dict.keys P.attach.ndata then path_get_ndata P k' else none := by
  obtain ⟨v', e1, e2, e3⟩ := detach_loop P (Py.Dict.keys P.attach.ndata)
    ⟨P, (default : path_detach.V).attact, (default : path_detach.V).k, []⟩ rfl hall
  refine ⟨Py.Dict.set (Py.Dict.set v'.c0_ P.names.id (arangeL g.length)) P.names.pid (pidL g.length), ?_, ?_⟩
  · simp [path_detach, path_detach.body, Py.seq, Py.bind, Py.bindS, path_keys_eq, e1, dictswc_init_eq, e2, path_id_eq P g h,
      path_pid_eq P g h, path_init_eq, Py.finish, arangeL, pidL]
  · intro k'
    simp only [Py.Dict.get?_set, e3 k']
    by_cases a : k' = P.names.pid
    · simp [a]
    · by_cases b : k' = P.names.id <;> simp [a, b]

theorem take_arange (l : List Int) : Py.take l (arangeL l.length) = some l := by
  rw [take_gather l (arangeL l.length) (by intro j hj; simp [arangeL] at hj; obtain ⟨a, ha, rfl⟩ := hj; omega)]
  congr 1
  apply List.ext_getElem
  · simp [gather, arangeL]
  · intro k h1 h2
    simp [gather, arangeL] at h1 ⊢
    simp [List.getD, h1]

theorem path_get_ndata_length (P : Path) (key : String) (gk : List Int) (h : path_get_ndata P key = some gk) : gk.length = P.idx.length := by
  obtain ⟨T, idx, nm⟩ := P
  rw [path_get_ndata_eq] at h
  cases hc : Py.Dict.get? T.ndata key with
  | none => simp [hc] at h
  | some col => simp [hc] at h; exact take_length col idx gk h

/-- **equal content**: the detached path reports, for every column other than id / pid, exactly what the path reported -/
theorem detach_equal_content (P P' : Path) (D : Py.Dict String (List Int)) (n : Nat) (hP' : P' = ⟨⟨D, P.names⟩, arangeL n, P.names⟩)
    (hn : n = P.idx.length) (key : String) (gk : List Int) (hD : Py.Dict.get? D key = path_get_ndata P key)
    (hk : path_get_ndata P key = some gk) : path_get_ndata P' key = some gk := by
  subst hP'
  rw [path_get_ndata_eq, hD, hk]
  have := path_get_ndata_length P key gk hk
  simp only [Option.bind_some]
  rw [hn, ← this]; exact take_arange gk

/-- `DictSWC.copy()` / `Tree.copy()`: the same content (as a VALUE; that the storage is fresh is the aliasing assumption of
`harness/algo_specs/70_views.py`, observed with `np.shares_memory` by the c09.history suite) -/
theorem swc_copy_eq (T : DictSWC) : swc_copy T = some T := by
  simp [swc_copy, swc_copy.body, Py.finish]


/-! ## the positions a slice designates are valid positions -/

theorem range3_mem_pos (start stop step : Int) (hs : 0 < step) (l : List Int) (h : Py.range3 start stop step = some l) :
    ∀ i ∈ l, start ≤ i ∧ i < stop := by
  intro i hi
  simp only [Py.range3, show step ≠ 0 by omega, if_false, Option.some.injEq] at h
  subst h
  simp only [List.mem_map, List.mem_range] at hi
  obtain ⟨k, hk, rfl⟩ := hi
  unfold Py.rangeLen at hk
  simp only [gt_iff_lt, hs, if_true] at hk
  split at hk
  · have q1 := Int.ediv_mul_le (stop - start + step - 1) (show step ≠ 0 by omega)
    have hkq : (k : Int) + 1 ≤ (stop - start + step - 1) / step := by omega
    have h2 := Int.mul_le_mul_of_nonneg_right hkq (show 0 ≤ step by omega)
    have h3 := Int.mul_nonneg (show (0 : Int) ≤ k by omega) (show 0 ≤ step by omega)
    rw [Int.add_mul, Int.one_mul] at h2
    constructor <;> omega
  · omega

theorem range3_mem_neg (start stop step : Int) (hs : step < 0) (l : List Int) (h : Py.range3 start stop step = some l) :
    ∀ i ∈ l, stop < i ∧ i ≤ start := by
  intro i hi
  simp only [Py.range3, show step ≠ 0 by omega, if_false, Option.some.injEq] at h
  subst h
  simp only [List.mem_map, List.mem_range] at hi
  obtain ⟨k, hk, rfl⟩ := hi
  unfold Py.rangeLen at hk
  simp only [gt_iff_lt, show ¬ (0 < step) by omega, if_false] at hk
  split at hk
  · have q1 := Int.ediv_mul_le (start - stop - step - 1) (show -step ≠ 0 by omega)
    have hkq : (k : Int) + 1 ≤ (start - stop - step - 1) / (-step) := by omega
    have h2 := Int.mul_le_mul_of_nonneg_right hkq (show 0 ≤ -step by omega)
    have h3 := Int.mul_nonneg (show (0 : Int) ≤ k by omega) (show 0 ≤ -step by omega)
    rw [Int.add_mul, Int.one_mul] at h2
    simp only [Int.mul_neg] at h2 h3 q1
    constructor <;> omega
  · omega

/-- **every position `range(*s.indices(n))` yields lies in `0 .. n-1`**: the node handles of `path[a:b:c]` / `tree[a:b:c]` are all valid,
for every slice (negative / missing / out-of-range bounds, any non-zero step) and every length -/
theorem slicePositions_inbounds (s : Py.Slice) (n : Nat) (l : List Int) (h : slicePositions s n = some l) : InRange l n := by
  obtain ⟨a, b, c⟩ := s
  simp only [slicePositions, Py.sliceIndices] at h
  by_cases h0 : c.getD 1 = 0 ∨ (n : Int) < 0
  · simp [h0] at h
  · simp only [h0, if_false, Option.bind_some] at h
    have hc : c.getD 1 ≠ 0 := fun e => h0 (Or.inl e)
    intro i hi
    rcases Int.lt_or_gt_of_ne hc with hneg | hpos
    · have := range3_mem_neg _ _ _ hneg l h i hi
      simp only [hneg, if_true] at this
      have b1 : -1 ≤ Py.sliceClamp b n (-1) (n - 1) (-1) := by
        unfold Py.sliceClamp; split <;> (try split) <;> (try split) <;> omega
      have b2 : Py.sliceClamp a n (-1) (n - 1) (n - 1) ≤ n - 1 := by
        unfold Py.sliceClamp; split <;> (try split) <;> (try split) <;> omega
      omega
    · have := range3_mem_pos _ _ _ hpos l h i hi
      simp only [show ¬ (c.getD 1 < 0) by omega, if_false] at this
      have b1 : 0 ≤ Py.sliceClamp a n 0 n 0 := by
        unfold Py.sliceClamp; split <;> (try split) <;> (try split) <;> omega
      have b2 : Py.sliceClamp b n 0 n n ≤ n := by
        unfold Py.sliceClamp; split <;> (try split) <;> (try split) <;> omega
      omega

end RefineViews
