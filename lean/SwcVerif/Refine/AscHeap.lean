import SwcVerif.Refine.Asc
import SwcVerif.Refine.AscParse
/-! Refinement for C15, part 3a: the HEAP INVARIANT that relates the AST heap the translated parser builds to the rows the hand-written
model (`Model/Asc.lean`) emits.  Pure heap / tree reasoning, no translated code here.

The model does not materialise the AST.  The relation is stated in CONTINUATION style (it follows the recursion of `Asc.parseSubtree`,
whose recursive call is "the rest of the loop"): running the rest of a `_parse_subtree` loop from the heap `nodes` with `current = γ`,
`root = ρ` ends in a heap `nodes'` in which

* every old record keeps its type and value, γ has gained the children `js`, ρ the children `ks` (complete subtrees whose records are all
  NEW, i.e. at indices ≥ `nodes.length`), nothing else changed (`Step`),
* `js`, `ks` unfold in `nodes'` (`RefineAsc.AgreesL`), and their pre-order tables (`RefineAsc.rowsL`, ids from `next`) are exactly the rows
  the model has emitted meanwhile, in the model's order (`Built`).  -/
namespace RefineAscHeap
open Gen.Algo Py RefineAsc

def refsL (ts : List AT) : List Int := ts.map (fun k => (k.ref : Int))

@[simp] theorem refsL_nil : refsL [] = [] := rfl
@[simp] theorem refsL_cons (t : AT) (ts : List AT) : refsL (t :: ts) = (t.ref : Int) :: refsL ts := rfl
@[simp] theorem refsL_append (a b : List AT) : refsL (a ++ b) = refsL a ++ refsL b := by simp [refsL]

/-- `nodes'` extends `nodes`: every old record keeps its type and value, its children grow by `δ` (the `parent` field is not looked at
by the walk) -/
def Step (nodes nodes' : List ASTNode) (δ : Nat → List Int) : Prop :=
  nodes.length ≤ nodes'.length ∧
  ∀ i o, nodes[i]? = some o → ∃ o', nodes'[i]? = some o' ∧ o'.type = o.type ∧ o'.value = o.value ∧ o'.children = o.children ++ δ i

theorem Step.refl (nodes : List ASTNode) : Step nodes nodes (fun _ => []) :=
  ⟨Nat.le_refl _, fun i o h => ⟨o, h, rfl, rfl, by simp⟩⟩

theorem Step.trans {a b c : List ASTNode} {δ1 δ2 : Nat → List Int} (h1 : Step a b δ1) (h2 : Step b c δ2) :
    Step a c (fun i => δ1 i ++ δ2 i) := by
  refine ⟨Nat.le_trans h1.1 h2.1, fun i o h => ?_⟩
  obtain ⟨o1, g1, t1, v1, c1⟩ := h1.2 i o h
  obtain ⟨o2, g2, t2, v2, c2⟩ := h2.2 i o1 g1
  exact ⟨o2, g2, by rw [t2, t1], by rw [v2, v1], by rw [c2, c1, List.append_assoc]⟩

theorem Step.congr {a b : List ASTNode} {δ δ' : Nat → List Int} (h : Step a b δ) (hd : ∀ i, i < a.length → δ i = δ' i) : Step a b δ' := by
  refine ⟨h.1, fun i o hi => ?_⟩
  have hlt : i < a.length := by
    rcases Nat.lt_or_ge i a.length with h' | h'
    · exact h'
    · simp [List.getElem?_eq_none h'] at hi
  obtain ⟨o', g, t, v, c⟩ := h.2 i o hi
  exact ⟨o', g, t, v, by rw [c, hd i hlt]⟩

theorem Step.append (nodes tail : List ASTNode) : Step nodes (nodes ++ tail) (fun _ => []) := by
  refine ⟨by simp, fun i o h => ⟨o, ?_, rfl, rfl, by simp⟩⟩
  have hlt : i < nodes.length := by
    rcases Nat.lt_or_ge i nodes.length with h' | h'
    · exact h'
    · simp [List.getElem?_eq_none h'] at h
  rw [List.getElem?_append_left hlt]; exact h

mutual
/-- every reference of the unfolding is at least `n` (the records are new w.r.t. a heap of length `n`) -/
def Above (n : Nat) : AT → Prop
  | .mk r kids => n ≤ r ∧ AboveL n kids
def AboveL (n : Nat) : List AT → Prop
  | [] => True
  | t :: ts => Above n t ∧ AboveL n ts
end

mutual
theorem Above.mono {m n : Nat} (h : m ≤ n) : ∀ t : AT, Above n t → Above m t
  | .mk r kids, ha => by
    unfold Above at ha ⊢
    exact ⟨Nat.le_trans h ha.1, AboveL.mono h kids ha.2⟩
theorem AboveL.mono {m n : Nat} (h : m ≤ n) : ∀ ts : List AT, AboveL n ts → AboveL m ts
  | [], _ => by unfold AboveL; trivial
  | t :: ts, ha => by
    unfold AboveL at ha ⊢
    exact ⟨Above.mono h t ha.1, AboveL.mono h ts ha.2⟩
end

theorem AboveL_append (n : Nat) : ∀ a b : List AT, AboveL n (a ++ b) ↔ AboveL n a ∧ AboveL n b
  | [], b => by simp [AboveL]
  | t :: a, b => by simp [AboveL, AboveL_append n a b, and_assoc]

theorem AgreesL_append (nodes : List ASTNode) : ∀ a b : List AT, RefineAsc.AgreesL nodes (a ++ b) ↔ RefineAsc.AgreesL nodes a ∧ RefineAsc.AgreesL nodes b
  | [], b => by simp [RefineAsc.AgreesL]
  | t :: a, b => by simp [RefineAsc.AgreesL, AgreesL_append nodes a b, and_assoc]

theorem rowsL_append (nodes : List ASTNode) : ∀ (a b : List AT) (pid ty : Int) (next : Nat),
    rowsL nodes (a ++ b) pid ty next = rowsL nodes a pid ty next ++ rowsL nodes b pid ty (next + (rowsL nodes a pid ty next).length)
  | [], b, pid, ty, next => by simp [rowsL]
  | t :: a, b, pid, ty, next => by
    simp [rowsL, rowsL_append nodes a b, Nat.add_assoc]

theorem costL_append (nodes : List ASTNode) : ∀ a b : List AT, costL nodes (a ++ b) = costL nodes a + costL nodes b
  | [], b => by simp [costL]
  | t :: a, b => by simp [costL, costL_append nodes a b, Nat.add_assoc]

-- FRAME: subtrees made of records at indices ≥ `m` are not affected by a step that only touches children below `m`
mutual
theorem frame {n1 n2 : List ASTNode} {δ : Nat → List Int} {m : Nat} (hS : Step n1 n2 δ) (hδ : ∀ i, m ≤ i → δ i = []) :
    ∀ t : AT, Above m t → RefineAsc.Agrees n1 t →
      RefineAsc.Agrees n2 t ∧ (∀ (pid ty : Int) (next : Nat), rows n2 t pid ty next = rows n1 t pid ty next) ∧ cost n2 t = cost n1 t
  | .mk r kids, ha, hA => by
    unfold Above at ha
    unfold RefineAsc.Agrees at hA
    obtain ⟨o, ho, hch, hlab, hval, hK⟩ := hA
    obtain ⟨o', ho', ht, hv, hc⟩ := hS.2 r o ho
    rw [hδ r ha.1, List.append_nil] at hc
    obtain ⟨k1, k2, k3⟩ := frameL hS hδ kids ha.2 hK
    refine ⟨?_, ?_, ?_⟩
    · unfold RefineAsc.Agrees
      exact ⟨o', ho', by rw [hc, hch], by rw [ht, hv]; exact hlab, by rw [ht, hv]; exact hval, k1⟩
    · intro pid ty next
      simp only [rows, ho, ho', ht, hv, k2]
    · simp only [cost, ho, ho', ht, k3]
theorem frameL {n1 n2 : List ASTNode} {δ : Nat → List Int} {m : Nat} (hS : Step n1 n2 δ) (hδ : ∀ i, m ≤ i → δ i = []) :
    ∀ ts : List AT, AboveL m ts → RefineAsc.AgreesL n1 ts →
      RefineAsc.AgreesL n2 ts ∧ (∀ (pid ty : Int) (next : Nat), rowsL n2 ts pid ty next = rowsL n1 ts pid ty next) ∧ costL n2 ts = costL n1 ts
  | [], _, _ => by simp [RefineAsc.AgreesL, rowsL, costL]
  | t :: ts, ha, hA => by
    unfold AboveL at ha
    unfold RefineAsc.AgreesL at hA
    obtain ⟨a1, a2, a3⟩ := frame hS hδ t ha.1 hA.1
    obtain ⟨b1, b2, b3⟩ := frameL hS hδ ts ha.2 hA.2
    refine ⟨?_, ?_, ?_⟩
    · unfold RefineAsc.AgreesL; exact ⟨a1, b1⟩
    · intro pid ty next; simp only [rowsL, a2, b2]
    · simp only [costL, a3, b3]
end

/-! ### the model's rows as rows of the walk -/
section
variable (encF : SwcText.Sci → Int)

def encRow (k : Nat) (r : Asc.Row) : RefineAsc.Row :=
  ⟨(k : Int), r.type, .flt (encF r.x), .flt (encF r.y), .flt (encF r.z), .flt (encF r.r), r.pid⟩

/-- the model's rows with their ids (positions, counted from `k`) and the numbers encoded as the generated code carries them -/
def encRows : Nat → List Asc.Row → List RefineAsc.Row
  | _, [] => []
  | k, r :: rs => encRow encF k r :: encRows (k + 1) rs

@[simp] theorem encRows_length : ∀ (k : Nat) (rs : List Asc.Row), (encRows encF k rs).length = rs.length
  | _, [] => rfl
  | k, r :: rs => by simp [encRows, encRows_length (k + 1) rs]

theorem encRows_append : ∀ (k : Nat) (a b : List Asc.Row), encRows encF k (a ++ b) = encRows encF k a ++ encRows encF (k + a.length) b
  | _, [], b => by simp [encRows]
  | k, r :: a, b => by
    simp [encRows, encRows_append (k + 1) a b]
    congr 1; omega

/-- **the heap invariant** (continuation style, see the header): from `nodes` to `nodes'`, γ gained the complete new subtrees `js`, ρ
gained `ks`; their tables are the model's new rows `new` (ids from `next`); the walk's cost of the new subtrees is at most twice the
number of new records. -/
def Built (ty : Int) (nodes nodes' : List ASTNode) (γ ρ : Nat) (γid ρid : Int) (next : Nat) (new : List Asc.Row) : Prop :=
  ∃ js ks, Step nodes nodes' (fun i => (if i = γ then refsL js else []) ++ (if i = ρ then refsL ks else [])) ∧
    RefineAsc.AgreesL nodes' js ∧ RefineAsc.AgreesL nodes' ks ∧ AboveL nodes.length js ∧ AboveL nodes.length ks ∧
    rowsL nodes' js γid ty next ++ rowsL nodes' ks ρid ty (next + (rowsL nodes' js γid ty next).length) = encRows encF next new ∧
    costL nodes' js + costL nodes' ks + 2 * nodes.length ≤ 2 * nodes'.length

theorem Built.nil (ty : Int) (nodes : List ASTNode) (γ ρ : Nat) (γid ρid : Int) (next : Nat) :
    Built encF ty nodes nodes γ ρ γid ρid next [] := by
  refine ⟨[], [], (Step.refl nodes).congr (by intro i _; simp), ?_, ?_, ?_, ?_, ?_, ?_⟩ <;> simp [RefineAsc.AgreesL, AboveL, rowsL, costL, encRows]

theorem Built.len {ty : Int} {nodes nodes' : List ASTNode} {γ ρ : Nat} {γid ρid : Int} {next : Nat} {new : List Asc.Row}
    (h : Built encF ty nodes nodes' γ ρ γid ρid next new) : nodes.length ≤ nodes'.length := by
  obtain ⟨js, ks, hS, _⟩ := h
  exact hS.1

/-- the record at the new index after an allocation followed by steps -/
theorem new_record {nodes n1 : List ASTNode} {rec : ASTNode} {δ : Nat → List Int}
    (h1 : Step (nodes ++ [rec]) n1 δ) : ∃ o, n1[nodes.length]? = some o ∧ o.type = rec.type ∧ o.value = rec.value ∧
      o.children = rec.children ++ δ nodes.length :=
  h1.2 nodes.length rec (by simp)

/-- a COLOR / COMMENT leaf attached to `current` -/
theorem Built.leaf {ty : Int} {nodes n1 n2 : List ASTNode} {γ ρ : Nat} {γid ρid : Int} {next : Nat} {new : List Asc.Row} (rec : ASTNode)
    (hγ : γ < nodes.length) (hρ : ρ < nodes.length) (hty : rec.type = 4 ∨ rec.type = 5) (hch : rec.children = [])
    (h1 : Step (nodes ++ [rec]) n1 (fun i => if i = γ then [(nodes.length : Int)] else [])) (hl : n1.length = nodes.length + 1)
    (h : Built encF ty n1 n2 γ ρ γid ρid next new) : Built encF ty nodes n2 γ ρ γid ρid next new := by
  obtain ⟨js, ks, hS, aj, ak, bj, bk, hr, hc⟩ := h
  obtain ⟨o1, g1, t1, v1, c1⟩ := new_record h1
  obtain ⟨o2, g2, t2, v2, c2⟩ := hS.2 _ _ g1
  have hne1 : nodes.length ≠ γ := by omega
  have hne2 : nodes.length ≠ ρ := by omega
  simp only [hne1, hne2, if_false, List.append_nil, hch] at c1 c2
  have hleafA : RefineAsc.Agrees n2 (.mk nodes.length []) := by
    unfold RefineAsc.Agrees
    refine ⟨o2, g2, by rw [c2, c1]; rfl, ?_, ?_, by unfold RefineAsc.AgreesL; trivial⟩
    · rw [t2, t1]; intro h; omega
    · rw [t2, t1]; intro h; omega
  have hleafR : ∀ pid next, rows n2 (.mk nodes.length []) pid ty next = [] := by
    intro pid next
    simp only [rows, g2, t2, t1]
    rcases hty with h | h <;> simp [h, rowsL]
  have hleafC : cost n2 (.mk nodes.length []) = 1 := by
    simp only [cost, g2, t2, t1]
    rcases hty with h | h <;> simp [h]
  refine ⟨.mk nodes.length [] :: js, ks, ?_, ?_, ak, ?_, ?_, ?_, ?_⟩
  · refine (((Step.append nodes [rec]).trans h1).trans hS).congr ?_
    intro i hi
    by_cases hg : i = γ <;> simp [hg, AT.ref]
  · unfold RefineAsc.AgreesL; exact ⟨hleafA, aj⟩
  · unfold AboveL; refine ⟨by unfold Above; exact ⟨Nat.le_refl _, by unfold AboveL; trivial⟩, AboveL.mono (by omega) _ bj⟩
  · exact AboveL.mono (by omega) _ bk
  · simp only [rowsL, hleafR, List.nil_append, List.length_nil, Nat.add_zero]
    exact hr
  · simp only [costL, hleafC]; omega

/-- a point: the NODE record attached to `current`, which becomes the new `current` -/
theorem Built.node {ty : Int} {nodes n1 n2 : List ASTNode} {γ ρ : Nat} {γid ρid : Int} {next : Nat} {new : List Asc.Row}
    (a b c d : SwcText.Sci)
    (hγ : γ < nodes.length) (hρ : ρ < nodes.length)
    (h1 : Step (nodes ++ [RefineAscParse.nodeRec encF a b c d]) n1 (fun i => if i = γ then [(nodes.length : Int)] else []))
    (hl : n1.length = nodes.length + 1)
    (h : Built encF ty n1 n2 nodes.length ρ (next : Int) ρid (next + 1) new) :
    Built encF ty nodes n2 γ ρ γid ρid next (⟨ty, a, b, c, d, γid⟩ :: new) := by
  obtain ⟨js, ks, hS, aj, ak, bj, bk, hr, hc⟩ := h
  obtain ⟨o1, g1, t1, v1, c1⟩ := new_record h1
  obtain ⟨o2, g2, t2, v2, c2⟩ := hS.2 _ _ g1
  have hne1 : nodes.length ≠ γ := by omega
  have hne2 : nodes.length ≠ ρ := by omega
  simp only [hne1, hne2, if_false, if_true, List.append_nil, RefineAscParse.nodeRec, List.nil_append] at c1 c2 t1 v1
  have hA : RefineAsc.Agrees n2 (.mk nodes.length js) := by
    unfold RefineAsc.Agrees
    refine ⟨o2, g2, by rw [c2, c1]; rfl, ?_, ?_, aj⟩
    · rw [t2, t1]; intro h; omega
    · rw [v2, v1]; intro _; simp [Val.unpack]
  have hR : rows n2 (.mk nodes.length js) γid ty next =
      encRow encF next ⟨ty, a, b, c, d, γid⟩ :: rowsL n2 js (next : Int) ty (next + 1) := by
    simp only [rows, g2, t2, t1, v2, v1]
    simp [coord, Val.unpack, encRow]
  have hC : cost n2 (.mk nodes.length js) = 1 + costL n2 js := by
    simp only [cost, g2, t2, t1]; simp
  refine ⟨[.mk nodes.length js], ks, ?_, ?_, ak, ?_, ?_, ?_, ?_⟩
  · refine (((Step.append nodes [_]).trans h1).trans hS).congr ?_
    intro i hi
    have : i ≠ nodes.length := by omega
    have : γ ≠ nodes.length := by omega
    by_cases hg : i = γ <;> simp [hg, AT.ref, *]
  · unfold RefineAsc.AgreesL; exact ⟨hA, by unfold RefineAsc.AgreesL; trivial⟩
  · unfold AboveL; refine ⟨by unfold Above; exact ⟨Nat.le_refl _, AboveL.mono (by omega) _ bj⟩, by unfold AboveL; trivial⟩
  · exact AboveL.mono (by omega) _ bk
  · simp only [rowsL, hR, List.append_nil, encRows, List.cons_append, List.length_cons]
    rw [← hr]
    congr 2
    congr 1
    omega
  · simp only [costL, hC]; omega

/-- `|` at the top of a branch: `current = root` -/
theorem Built.bar {ty : Int} {nodes n2 : List ASTNode} {γ ρ : Nat} {γid ρid : Int} {next : Nat} {new : List Asc.Row}
    (h : Built encF ty nodes n2 ρ ρ ρid ρid next new) : Built encF ty nodes n2 γ ρ γid ρid next new := by
  obtain ⟨js, ks, hS, aj, ak, bj, bk, hr, hc⟩ := h
  refine ⟨[], js ++ ks, ?_, by unfold RefineAsc.AgreesL; trivial, (AgreesL_append _ _ _).2 ⟨aj, ak⟩, by unfold AboveL; trivial,
    (AboveL_append _ _ _).2 ⟨bj, bk⟩, ?_, ?_⟩
  · refine hS.congr ?_
    intro i _
    by_cases hg : i = ρ <;> simp [hg]
  · simp only [rowsL, List.nil_append, List.length_nil, Nat.add_zero, rowsL_append]
    exact hr
  · simp only [costL, costL_append]; omega

/-- a split: a complete nested `_parse_subtree` under `current`, then the rest of the loop -/
theorem Built.split {ty : Int} {nodes n1 n2 : List ASTNode} {γ ρ : Nat} {γid ρid : Int} {next : Nat} {new1 new2 : List Asc.Row}
    (hγ : γ < nodes.length) (hρ : ρ < nodes.length)
    (h1 : Built encF ty nodes n1 γ γ γid γid next new1)
    (h2 : Built encF ty n1 n2 γ ρ γid ρid (next + new1.length) new2) :
    Built encF ty nodes n2 γ ρ γid ρid next (new1 ++ new2) := by
  obtain ⟨js1, ks1, hS1, aj1, ak1, bj1, bk1, hr1, hc1⟩ := h1
  obtain ⟨js2, ks2, hS2, aj2, ak2, bj2, bk2, hr2, hc2⟩ := h2
  have hδ : ∀ i, nodes.length ≤ i → (fun i => (if i = γ then refsL js2 else []) ++ (if i = ρ then refsL ks2 else [])) i = [] := by
    intro i hi
    have : i ≠ γ := by omega
    have : i ≠ ρ := by omega
    simp [*]
  obtain ⟨fa, fr, fc⟩ := frameL hS2 hδ (js1 ++ ks1) ((AboveL_append _ _ _).2 ⟨bj1, bk1⟩) ((AgreesL_append _ _ _).2 ⟨aj1, ak1⟩)
  have hlen : (rowsL n1 (js1 ++ ks1) γid ty next).length = new1.length := by
    rw [rowsL_append, hr1, encRows_length]
  refine ⟨(js1 ++ ks1) ++ js2, ks2, ?_, (AgreesL_append _ _ _).2 ⟨fa, aj2⟩, ak2,
    (AboveL_append _ _ _).2 ⟨(AboveL_append _ _ _).2 ⟨bj1, bk1⟩, AboveL.mono hS1.1 _ bj2⟩, AboveL.mono hS1.1 _ bk2, ?_, ?_⟩
  · refine (hS1.trans hS2).congr ?_
    intro i _
    by_cases hg : i = γ <;> simp [hg]
  · rw [rowsL_append n2 (js1 ++ ks1) js2]
    rw [fr, encRows_append, List.append_assoc]
    have e1 : rowsL n1 (js1 ++ ks1) γid ty next = encRows encF next new1 := by rw [rowsL_append]; exact hr1
    rw [e1, encRows_length, List.length_append, encRows_length, ← hr2]
    congr 2
    congr 1
    omega
  · rw [costL_append, fc, costL_append]
    have := hS1.1
    omega

/-- a tree `( label … )` under the ROOT: the TREE record is allocated, its subtree built below it, and only then attached -/
theorem Built.tree {U ty : Int} {nodes n2 n3 n4 : List ASTNode} {ρ : Nat} {next : Nat} {new1 new2 : List Asc.Row} (rec : ASTNode)
    (hρ : ρ < nodes.length) (hty : rec.type = 2) (hlab : labelCode rec.value = some ty) (hch : rec.children = [])
    (h1 : Built encF ty (nodes ++ [rec]) n2 nodes.length nodes.length (-1) (-1) next new1)
    (h2 : Step n2 n3 (fun i => if i = ρ then [(nodes.length : Int)] else [])) (hl : n3.length = n2.length)
    (h3 : Built encF U n3 n4 ρ ρ (-1) (-1) (next + new1.length) new2) :
    Built encF U nodes n4 ρ ρ (-1) (-1) next (new1 ++ new2) := by
  obtain ⟨js1, ks1, hS1, aj1, ak1, bj1, bk1, hr1, hc1⟩ := h1
  obtain ⟨js2, ks2, hS2, aj2, ak2, bj2, bk2, hr2, hc2⟩ := h3
  have hS24 := h2.trans hS2
  have hδ : ∀ i, (nodes ++ [rec]).length ≤ i →
      (fun i => (if i = ρ then [(nodes.length : Int)] else []) ++ ((if i = ρ then refsL js2 else []) ++ (if i = ρ then refsL ks2 else []))) i = [] := by
    intro i hi
    simp at hi
    have : i ≠ ρ := by omega
    simp [*]
  obtain ⟨fa, fr, fc⟩ := frameL hS24 hδ (js1 ++ ks1) ((AboveL_append _ _ _).2 ⟨bj1, bk1⟩) ((AgreesL_append _ _ _).2 ⟨aj1, ak1⟩)
  obtain ⟨o1, g1, t1, v1, c1⟩ := new_record hS1
  obtain ⟨o2, g2, t2, v2, c2⟩ := hS24.2 _ _ g1
  have hne : nodes.length ≠ ρ := by omega
  simp only [hne, if_false, if_true, List.append_nil, hch, List.nil_append] at c1 c2
  have hA : RefineAsc.Agrees n4 (.mk nodes.length (js1 ++ ks1)) := by
    unfold RefineAsc.Agrees
    refine ⟨o2, g2, by rw [c2, c1]; simp [refsL], ?_, ?_, fa⟩
    · rw [v2, v1, hlab]; intro _; rfl
    · rw [t2, t1, hty]; intro h; omega
  have hR : ∀ next, rows n4 (.mk nodes.length (js1 ++ ks1)) (-1) U next = rowsL n2 (js1 ++ ks1) (-1) ty next := by
    intro next
    simp only [rows, g2, t2, t1, v2, v1, hty, hlab]
    simp [fr]
  have hC : cost n4 (.mk nodes.length (js1 ++ ks1)) = 2 + costL n2 (js1 ++ ks1) := by
    simp only [cost, g2, t2, t1, hty]; simp [fc]
  have e1 : rowsL n2 (js1 ++ ks1) (-1) ty next = encRows encF next new1 := by rw [rowsL_append]; exact hr1
  have hlen1 : nodes.length ≤ n3.length := by
    have := hS1.1; simp at this; omega
  refine ⟨.mk nodes.length (js1 ++ ks1) :: js2, ks2, ?_, ?_, ak2, ?_, AboveL.mono hlen1 _ bk2, ?_, ?_⟩
  · refine (((Step.append nodes [rec]).trans hS1).trans hS24).congr ?_
    intro i hi
    have : i ≠ nodes.length := by omega
    have : ρ ≠ nodes.length := by omega
    by_cases hg : i = ρ <;> simp [hg, AT.ref, *]
  · unfold RefineAsc.AgreesL; exact ⟨hA, aj2⟩
  · unfold AboveL
    refine ⟨by unfold Above; exact ⟨Nat.le_refl _, AboveL.mono (by simp) _ ((AboveL_append _ _ _).2 ⟨bj1, bk1⟩)⟩, AboveL.mono hlen1 _ bj2⟩
  · simp only [rowsL, hR, e1, encRows_length, encRows_append, List.append_assoc]
    rw [← hr2]
    simp only [List.length_append, encRows_length, Nat.add_assoc]
  · simp only [costL, hC, costL_append]
    simp at hc1
    omega
end

end RefineAscHeap
