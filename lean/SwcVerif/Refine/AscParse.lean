import SwcVerif.Gen.AlgoAsc
import SwcVerif.Refine.PyLemmas
import SwcVerif.Model.Asc
/-! Refinement for C15, part 2 (PARTIAL): the token protocol of the parser AS TRANSLATED (`_read_token`, `_consume`, `_assert`,
`_assert_and_cunsume`, `_parse_node`) against the hand-written model `Model/Asc.lean` (`adv`, `expectRp` / `expectLp`, `parseNode`).

Token lists of the model are encoded as the generated parser's state: `next_token` = the head, `lexer` = the tail.  Floats are an
opaque payload (`encF` is arbitrary).  The model's `.bad` token (the lexer raising inside `float()`) is outside: the lexer is not part
of the translated code, so the statements are about `.bad`-free token lists. -/
namespace RefineAscParse
open Gen.Algo Py Asc

variable (encF : SwcText.Sci → Int)

/-- a model token as a `Token` of the source: `TokenType` members are `auto()` = 1 … 6 -/
def enc : Tok → Token
  | .lp => ⟨1, .str "("⟩
  | .rp => ⟨2, .str ")"⟩
  | .comment t => ⟨3, .str (String.ofList t)⟩
  | .bar => ⟨4, .str "|"⟩
  | .float v => ⟨5, .flt (encF v)⟩
  | .literal w => ⟨6, .str (String.ofList w)⟩
  | .bad => ⟨0, .none⟩

/-- the parser object that has `toks` still to read (`next_token` = the head) and the AST heap `nodes` -/
def st (toks : List Tok) (nodes : List ASTNode) : Parser :=
  { next_token := toks.head?.map (enc encF), lexer := toks.tail.map (enc encF), nodes := nodes }

def NoBad (toks : List Tok) : Prop := ∀ t ∈ toks, t ≠ Tok.bad

theorem NoBad.tail {t : Tok} {toks : List Tok} (h : NoBad (t :: toks)) : NoBad toks :=
  fun x hx => h x (List.mem_cons_of_mem _ hx)

/-- `_read_token` as translated: drops the current token -/
theorem read_token_st (toks : List Tok) (nodes : List ASTNode) :
    parser_read_token (st encF toks nodes) = some (st encF toks.tail nodes, ()) := by
  cases toks with
  | nil => simp [parser_read_token, parser_read_token.body, Py.seq, Py.bind, Py.finish, st]
  | cons t rest =>
    cases rest with
    | nil => simp [parser_read_token, parser_read_token.body, Py.seq, Py.bind, Py.finish, st]
    | cons u rest' =>
      have h0 : ¬ ((rest'.length : Int) + 1 = 0) := by omega
      simp [parser_read_token, parser_read_token.body, Py.seq, Py.bind, Py.finish, st, Py.idx, Py.normIdx, h0]

/-- the model's `adv` on a `.bad`-free stream drops the current token too -/
theorem adv_noBad (t : Tok) (toks : List Tok) (h : NoBad (t :: toks)) : adv (t :: toks) = .ok toks := by
  cases toks with
  | nil => rfl
  | cons u rest =>
    have : u ≠ Tok.bad := h u (by simp)
    cases u <;> simp_all [adv]

/-- `_consume` as translated -/
theorem consume_st (toks : List Tok) (nodes : List ASTNode) :
    parser_consume (st encF toks nodes) = some (st encF toks.tail nodes, toks.head?.map (enc encF)) := by
  simp [parser_consume, parser_consume.body, Py.seq, Py.bind, Py.finish, read_token_st]
  simp [st]

/-- `_assert` as translated -/
theorem assert_eq (p : Parser) (tok : Option Token) (ty : Int) :
    parser_assert p tok ty = match tok with | none => none | some t => if t.type = ty then some t else none := by
  cases tok with
  | none => simp [parser_assert, parser_assert.body, Py.seq, Py.bind, Py.finish]
  | some t =>
    by_cases h : t.type = ty <;> simp [parser_assert, parser_assert.body, Py.seq, Py.bind, Py.finish, Py.skip, h]

/-- `_assert_and_cunsume` as translated: EOF and a token of another type are errors, else the token is consumed -/
theorem assert_and_cunsume_st (toks : List Tok) (nodes : List ASTNode) (ty : Int) :
    parser_assert_and_cunsume (st encF toks nodes) ty =
      match toks with
      | [] => none
      | t :: rest => if (enc encF t).type = ty then some (st encF rest nodes, enc encF t) else none := by
  cases toks with
  | nil => simp [parser_assert_and_cunsume, parser_assert_and_cunsume.body, Py.seq, Py.bind, Py.finish, consume_st, assert_eq]
  | cons t rest =>
    by_cases h : (enc encF t).type = ty <;>
      simp [parser_assert_and_cunsume, parser_assert_and_cunsume.body, Py.seq, Py.bind, Py.finish, consume_st, assert_eq, h]

/-- `_assert_and_cunsume(BRACKET_RIGHT)` as translated = the model's `expectRp` (success and failure alike) -/
theorem expectRp_refines (toks : List Tok) (nodes : List ASTNode) (h : NoBad toks) :
    parser_assert_and_cunsume (st encF toks nodes) 2 =
      match expectRp toks with | .ok rest => some (st encF rest nodes, enc encF .rp) | .error _ => none := by
  rw [assert_and_cunsume_st]
  cases toks with
  | nil => simp [expectRp]
  | cons t rest => cases t <;> simp [expectRp, enc, adv_noBad _ _ h]

/-- `_assert_and_cunsume(BRACKET_LEFT)` as translated = the model's `expectLp` -/
theorem expectLp_refines (toks : List Tok) (nodes : List ASTNode) (h : NoBad toks) :
    parser_assert_and_cunsume (st encF toks nodes) 1 =
      match expectLp toks with | .ok rest => some (st encF rest nodes, enc encF .lp) | .error _ => none := by
  rw [assert_and_cunsume_st]
  cases toks with
  | nil => simp [expectLp]
  | cons t rest => cases t <;> simp [expectLp, enc, adv_noBad _ _ h]

@[simp] theorem st_next_token (toks : List Tok) (nodes : List ASTNode) : (st encF toks nodes).next_token = toks.head?.map (enc encF) := rfl
@[simp] theorem st_nodes (toks : List Tok) (nodes : List ASTNode) : (st encF toks nodes).nodes = nodes := rfl
@[simp] theorem st_set_nodes (toks : List Tok) (nodes n' : List ASTNode) :
    ({ lexer := (st encF toks nodes).lexer, next_token := (st encF toks nodes).next_token, nodes := n' } : Parser) = st encF toks n' := rfl

/-- the NODE record `_parse_node` allocates -/
def nodeRec (a b c d : SwcText.Sci) : ASTNode :=
  { type := 3, value := .tup [.flt (encF a), .flt (encF b), .flt (encF c), .flt (encF d)], children := [], parent := none }

/-- **`_parse_node` as translated = the model's `parseNode`**, success and every failure alike (a premature end, a word or a bracket
among the four numbers, a missing closing bracket): on success the remaining tokens are the model's, and the heap has gained one NODE
record carrying the four numbers, attached (by the translated `add_child`) to `root`. -/
theorem parse_node_refines (toks : List Tok) (nodes : List ASTNode) (root : Int) (h : NoBad toks) :
    parser_parse_node (st encF toks nodes) root =
      match parseNode toks with
      | .error _ => none
      | .ok ((a, b, c, d), rest) =>
        (ast_add_child (nodes ++ [nodeRec encF a b c d]) root (nodes.length : Int)).map fun r => (st encF rest r.1, (nodes.length : Int)) := by
  rcases toks with _ | ⟨t1, r1⟩
  · simp [parser_parse_node, parser_parse_node.body, Py.seq, Py.bind, Py.finish, Bind.bind, Except.bind, Pure.pure, Except.pure, Functor.map, Except.map, assert_and_cunsume_st, parseNode]
  have h1 := h.tail
  cases t1 <;> try (simp [parser_parse_node, parser_parse_node.body, Py.seq, Py.bind, Py.finish, Bind.bind, Except.bind, Pure.pure, Except.pure, Functor.map, Except.map, assert_and_cunsume_st, parseNode, enc]; done)
  rename_i a
  rcases r1 with _ | ⟨t2, r2⟩
  · simp [parser_parse_node, parser_parse_node.body, Py.seq, Py.bind, Py.finish, Bind.bind, Except.bind, Pure.pure, Except.pure, Functor.map, Except.map, assert_and_cunsume_st, assert_eq, parseNode, enc, adv]
  have h2 := h1.tail
  cases t2 <;> try (simp [parser_parse_node, parser_parse_node.body, Py.seq, Py.bind, Py.finish, Bind.bind, Except.bind, Pure.pure, Except.pure, Functor.map, Except.map, assert_and_cunsume_st, assert_eq, parseNode, enc,
    adv_noBad _ _ h]; done)
  rename_i b
  rcases r2 with _ | ⟨t3, r3⟩
  · simp [parser_parse_node, parser_parse_node.body, Py.seq, Py.bind, Py.finish, Bind.bind, Except.bind, Pure.pure, Except.pure, Functor.map, Except.map, assert_and_cunsume_st, assert_eq, parseNode, enc, adv_noBad _ _ h,
      read_token_st, adv]
  have h3 := h2.tail
  cases t3 <;> try (simp [parser_parse_node, parser_parse_node.body, Py.seq, Py.bind, Py.finish, Bind.bind, Except.bind, Pure.pure, Except.pure, Functor.map, Except.map, assert_and_cunsume_st, assert_eq, parseNode, enc,
    adv_noBad _ _ h, adv_noBad _ _ h1, read_token_st]; done)
  rename_i c
  rcases r3 with _ | ⟨t4, r4⟩
  · simp [parser_parse_node, parser_parse_node.body, Py.seq, Py.bind, Py.finish, Bind.bind, Except.bind, Pure.pure, Except.pure, Functor.map, Except.map, assert_and_cunsume_st, assert_eq, parseNode, enc, adv_noBad _ _ h,
      adv_noBad _ _ h1, read_token_st, adv]
  have h4 := h3.tail
  cases t4 <;> try (simp [parser_parse_node, parser_parse_node.body, Py.seq, Py.bind, Py.finish, Bind.bind, Except.bind, Pure.pure, Except.pure, Functor.map, Except.map, assert_and_cunsume_st, assert_eq, parseNode, enc,
    adv_noBad _ _ h, adv_noBad _ _ h1, adv_noBad _ _ h2, read_token_st]; done)
  rename_i d
  rcases r4 with _ | ⟨t5, r5⟩
  · simp [parser_parse_node, parser_parse_node.body, Py.seq, Py.bind, Py.finish, Bind.bind, Except.bind, Pure.pure, Except.pure, Functor.map, Except.map, assert_and_cunsume_st, assert_eq, parseNode, enc, adv_noBad _ _ h,
      adv_noBad _ _ h1, adv_noBad _ _ h2, read_token_st, adv, expectRp]
  cases t5 <;> try (simp [parser_parse_node, parser_parse_node.body, Py.seq, Py.bind, Py.finish, Bind.bind, Except.bind, Pure.pure, Except.pure, Functor.map, Except.map, assert_and_cunsume_st, assert_eq, parseNode, enc,
    adv_noBad _ _ h, adv_noBad _ _ h1, adv_noBad _ _ h2, adv_noBad _ _ h3, adv_noBad _ _ h4, read_token_st, expectRp]; done)
  simp [parser_parse_node, parser_parse_node.body, Py.seq, Py.bind, Py.finish, Bind.bind, Except.bind, Pure.pure, Except.pure, Functor.map, Except.map, assert_and_cunsume_st, assert_eq, parseNode, enc,
    adv_noBad _ _ h, adv_noBad _ _ h1, adv_noBad _ _ h2, adv_noBad _ _ h3, adv_noBad _ _ h4, read_token_st, expectRp, Py.alloc, nodeRec]
  have e1 : (default : ASTNode).children = [] := rfl
  have e2 : (default : ASTNode).parent = none := rfl
  rw [e1, e2]
  generalize ast_add_child _ root _ = res
  cases res <;> simp [st]

end RefineAscParse
