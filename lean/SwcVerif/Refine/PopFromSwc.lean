import SwcVerif.Gen.AlgoPopFront
import SwcVerif.Refine.PopFront
import SwcVerif.Props.C19
import SwcVerif.Refine.PyLemmas
/-! Refinement for `Populations.from_swc` as translated (`Gen.Algo.pops_from_swc`, Gen/AlgoPopFront.lean): the file matching and the
construction of one `Population(LazyLoadingTrees([join(d, p) …]), root=d)` per root, for EVERY list of roots and EVERY directory listing
(`find_swcs`, `join` arbitrary functions). -/
namespace RefineFromSwc
open Gen.Algo Pop Py RefinePop RefinePopFront

/-! ## the constructors on a FRESH container with arbitrary file identifiers -/

theorem lazy_init_for1_loop : ∀ (xs : List Int) (v : lazy_init.V),
    ∃ u, forEach lazy_init.for1 xs v = .next { v with c0_ := v.c0_ ++ xs.map (fun _ => none), underscore_ := u } := by
  intro xs
  induction xs with
  | nil => intro v; exact ⟨v.underscore_, by simp [forEach]⟩
  | cons a xs ih =>
    intro v
    obtain ⟨u, e⟩ := ih { v with underscore_ := a, c0_ := v.c0_ ++ [none] }
    refine ⟨u, ?_⟩
    simp only [forEach, lazy_init.for1]
    rw [e]; simp

/-- `LazyLoadingTrees(swcs)`: the files, no tree loaded -/
theorem lazy_init_eq (g0 : LazyLoadingTrees) (swcs : List Int) :
    lazy_init g0 swcs = some (⟨swcs, swcs.map (fun _ => none)⟩, ()) := by
  obtain ⟨u, e⟩ := lazy_init_for1_loop swcs { (default : lazy_init.V) with self := { g0 with swcs := swcs }, swcs := swcs, c0_ := [] }
  simp only [lazy_init, lazy_init.body, seq, bindS, e]
  simp [finish]

/-- the container after the constructor's probe `swcs[0]`: the first file (if any) is loaded -/
def probed (swcs : List Int) : LazyLoadingTrees :=
  ⟨swcs, (swcs.map (fun _ => (none : Option Int))).set 0 (some (swcs.headD 0))⟩

/-- **`Population(LazyLoadingTrees(swcs), root=d)` on a fresh container**, arbitrary file identifiers: the only read is the probe of the
first file, and only when there is one -/
theorem pop_init_fresh (p0 : Population) (swcs : List Int) (root : String) (log : List Int) :
    pop_init readLog p0 ⟨swcs, swcs.map (fun _ => none)⟩ root log =
      some (⟨probed swcs, root⟩, log ++ swcs.take 1, ()) := by
  cases swcs with
  | nil =>
    simp [pop_init, pop_init.body, seq, skip, Py.bind, lazy_len, lazy_len.body, finish, Py.len, probed]
  | cons a rest =>
    simp only [List.map_cons]
    have hlen : lazy_len ⟨a :: rest, none :: rest.map (fun _ => none)⟩ = some ((rest.length : Int) + 1) := by
      simp [lazy_len, lazy_len.body, finish, Py.len]
    have hidx : pop_get_idx 0 ((rest.length : Int) + 1) = some 0 := by
      have := getIdx_refines 0 (rest.length + 1)
      have hg : getIdx 0 (rest.length + 1) = some 0 := by
        have := (C19.getIdx_spec 0 (rest.length + 1)).1 (by omega) (by omega)
        simpa using this
      rw [hg] at this; simpa using this
    have hload : lazy_load readLog ⟨a :: rest, none :: rest.map (fun _ => none)⟩ 0 log =
        some (⟨a :: rest, some a :: rest.map (fun _ => none)⟩, log ++ [a], ()) := by
      simp [lazy_load, lazy_load.body, Py.bind, Py.idx, Py.normIdx, Py.setIdx, finish, readLog]
    have hget : lazy_getitem readLog ⟨a :: rest, none :: rest.map (fun _ => none)⟩ 0 log =
        some (⟨a :: rest, some a :: rest.map (fun _ => none)⟩, log ++ [a], some a) := by
      simp [lazy_getitem, lazy_getitem.body, seq, Py.bind, hlen, hidx, hload, Py.idx, Py.normIdx, finish]
    have hlen' : lazy_len ⟨a :: rest, some a :: rest.map (fun _ => none)⟩ = some ((rest.length : Int) + 1) := by
      simp [lazy_len, lazy_len.body, finish, Py.len]
    have hpos : (0 : Int) < (rest.length : Int) + 1 := by omega
    have hne : ¬ ((rest.length : Int) + 1 = 0) := by omega
    simp [pop_init, pop_init.body, seq, skip, Py.bind, hlen, hget, hlen', hpos, hne, finish, probed]

/-! ## `Populations.__init__` -/

theorem pop_len_eq (p : Population) : pop_len p = some (p.trees.swcs.length : Int) := by
  simp [pop_len, pop_len.body, Py.bind, lazy_len, lazy_len.body, finish, Py.len]

theorem pops_init_for1_loop : ∀ (ps : List Population) (v : pops_init.V),
    ∃ p', forEach pops_init.for1 ps v =
      .next { v with c0_ := v.c0_ ++ ps.map (fun p => (p.trees.swcs.length : Int)), p := p' } := by
  intro ps
  induction ps with
  | nil => intro v; exact ⟨v.p, by simp [forEach]⟩
  | cons a ps ih =>
    intro v
    obtain ⟨p', e⟩ := ih { v with p := a, c0_ := v.c0_ ++ [(a.trees.swcs.length : Int)] }
    refine ⟨p', ?_⟩
    simp only [forEach, pops_init.for1, Py.bind, pop_len_eq]
    rw [e]; simp

theorem pops_init_for2_loop : ∀ (ps : List Population) (v : pops_init.V),
    ∃ i', forEach pops_init.for2 ps v = .next { v with c4_ := v.c4_ ++ ps.map (fun _ => ""), i := i' } := by
  intro ps
  induction ps with
  | nil => intro v; exact ⟨v.i, by simp [forEach]⟩
  | cons a ps ih =>
    intro v
    obtain ⟨i', e⟩ := ih { v with i := a, c4_ := v.c4_ ++ [""] }
    refine ⟨i', ?_⟩
    simp only [forEach, pops_init.for2]
    rw [e]; simp

/-- **`Populations(populations)` (`labels=None`) as translated**: `len` = the least population length (`ValueError` from `min` on no population),
the populations as given, empty labels -/
theorem pops_init_eq (s0 : Populations) (ps : List Population) :
    pops_init s0 ps = (Py.minInt (ps.map (fun p => (p.trees.swcs.length : Int)))).map fun m => (⟨m, ps, ps.map (fun _ => "")⟩, ()) := by
  obtain ⟨p', e1⟩ := pops_init_for1_loop ps { (default : pops_init.V) with self := s0, populations := ps, c0_ := [] }
  simp only [pops_init, pops_init.body, seq, bindS, Py.bind, e1, List.nil_append]
  cases hm : Py.minInt (ps.map (fun p => (p.trees.swcs.length : Int))) with
  | none => simp [finish]
  | some m =>
    obtain ⟨i', e2⟩ := pops_init_for2_loop ps
      { (default : pops_init.V) with self := { { s0 with len := m } with populations := ps }, populations := ps, c0_ := ps.map (fun p => (p.trees.swcs.length : Int)), p := p', c4_ := [] }
    simp only [e2]
    simp [finish, Py.len]

/-! ## `Populations.from_swc` -/

section
variable (find : String → List Int) (join : String → Int → Int)
local notation "V" => pops_from_swc.V (List Int)

theorem fs_for1_loop : ∀ (ds : List String) (v : V),
    ∃ d', forEach (pops_from_swc.for1 readLog find join) ds v = .next { v with c0_ := v.c0_ ++ ds.map find, d := d' } := by
  intro ds
  induction ds with
  | nil => intro v; exact ⟨v.d, by simp [forEach]⟩
  | cons a ds ih =>
    intro v
    obtain ⟨d', e⟩ := ih { v with d := a, c0_ := v.c0_ ++ [find a] }
    refine ⟨d', ?_⟩
    simp only [forEach, pops_from_swc.for1]
    rw [e]; simp

theorem fs_for2_loop : ∀ (ds : List String) (v : V),
    ∃ u', forEach (pops_from_swc.for2 readLog find join) ds v =
      .next { v with c3_ := v.c3_ ++ ds.map (fun _ => v.inter), underscore_ := u' } := by
  intro ds
  induction ds with
  | nil => intro v; exact ⟨v.underscore_, by simp [forEach]⟩
  | cons a ds ih =>
    intro v
    obtain ⟨u', e⟩ := ih { v with underscore_ := a, c3_ := v.c3_ ++ [v.inter] }
    refine ⟨u', ?_⟩
    simp only [forEach, pops_from_swc.for2]
    rw [e]; simp

theorem fs_for3_loop (hd : List Int) : ∀ (as : List (List Int)) (v : V), Py.idx v.fs 0 = some hd →
    ∃ a', forEach (pops_from_swc.for3 readLog find join) as v =
      .next { v with c5_ := v.c5_ ++ as.map (fun a => decide (hd = a)), a := a' } := by
  intro as
  induction as with
  | nil => intro v _; exact ⟨v.a, by simp [forEach]⟩
  | cons x as ih =>
    intro v hv
    obtain ⟨a', e⟩ := ih { v with a := x, c5_ := v.c5_ ++ [decide (hd = x)] } hv
    refine ⟨a', ?_⟩
    simp only [forEach, pops_from_swc.for3, Py.bind, hv]
    rw [e]; simp

theorem fs_for4_loop : ∀ (ps : List Int) (v : V),
    ∃ p', forEach (pops_from_swc.for4 readLog find join) ps v = .next { v with c9_ := v.c9_ ++ ps.map (join v.d), p := p' } := by
  intro ps
  induction ps with
  | nil => intro v; exact ⟨v.p, by simp [forEach]⟩
  | cons a ps ih =>
    intro v
    obtain ⟨p', e⟩ := ih { v with p := a, c9_ := v.c9_ ++ [join v.d a] }
    refine ⟨p', ?_⟩
    simp only [forEach, pops_from_swc.for4]
    rw [e]; simp

/-- the population built for root `d` from the matched names: files `join d p`, the first one probed -/
def build1 (d : String) (names : List Int) : Population := ⟨probed (names.map (join d)), d⟩
/-- the file read while building it -/
def reads1 (d : String) (names : List Int) : List Int := (names.map (join d)).take 1

theorem fs_for5_loop : ∀ (ds : List String) (k : Nat) (v : V), k + ds.length ≤ v.fs.length →
    ∃ c9' i' d' p', forEach (pops_from_swc.for5 readLog find join) (Py.enumFrom (k : Int) ds) v =
      .next { v with c8_ := v.c8_ ++ List.zipWith (build1 join) ds (v.fs.drop k),
                     cbs := v.cbs ++ (List.zipWith (reads1 join) ds (v.fs.drop k)).flatten,
                     c9_ := c9', i := i', d := d', p := p' } := by
  intro ds
  induction ds with
  | nil => intro k v _; exact ⟨v.c9_, v.i, v.d, v.p, by simp [forEach, Py.enumFrom]⟩
  | cons a ds ih =>
    intro k v hk
    simp only [List.length_cons] at hk
    have hlt : k < v.fs.length := by omega
    have hdrop : v.fs.drop k = v.fs[k] :: v.fs.drop (k + 1) := by simp
    have hidx : Py.idx v.fs (k : Int) = some v.fs[k] := by
      rw [Py.idx_nat _ _ hlt]; simp
    obtain ⟨p1, e4⟩ := fs_for4_loop find join v.fs[k] { v with i := (k : Int), d := a, c9_ := [] }
    have hpi := pop_init_fresh default (v.fs[k].map (join a)) a v.cbs
    obtain ⟨c9', i', d', p', e⟩ := ih (k + 1)
      { v with i := (k : Int), d := a, c9_ := [] ++ v.fs[k].map (join a), p := p1,
               cbs := v.cbs ++ (v.fs[k].map (join a)).take 1, c8_ := v.c8_ ++ [build1 join a v.fs[k]] } (by simp only []; omega)
    refine ⟨c9', i', d', p', ?_⟩
    have hk1 : ((k : Int) + 1) = ((k + 1 : Nat) : Int) := by omega
    simp only [Py.enumFrom, forEach, pops_from_swc.for5, seq, bindS, Py.bind, hidx, e4, lazy_init_eq, List.nil_append, hpi, hk1]
    simp only [List.nil_append, build1] at e
    rw [e, hdrop]
    simp only [List.zipWith_cons_cons, List.flatten_cons, build1, reads1, List.append_assoc, List.singleton_append]
end

end RefineFromSwc
