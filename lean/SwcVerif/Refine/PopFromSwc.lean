import SwcVerif.Gen.AlgoPopFront
import SwcVerif.Refine.PopFront
import SwcVerif.Props.C19
import SwcVerif.Refine.PyLemmas
import SwcVerif.Refine.Cut
/-! Refinement for `Populations.from_swc` as translated (`Gen.Algo.pops_from_swc`, Gen/AlgoPopFront.lean): the file matching and the
construction of one `Population(LazyLoadingTrees([join(d, p) …]), root=d)` per root, for EVERY list of roots and EVERY directory listing
(`find_swcs`, `join` arbitrary functions). -/
namespace RefineFromSwc
open Gen.Algo Pop Py RefinePop RefinePopFront

/-! ## the constructors on a FRESH container with arbitrary file identifiers -/

theorem lazy_init_for1_loop : ∀ (xs : List Int) (v : lazy_init.V),
    ∃ u, forEach lazy_init.for1 xs v = .next { v with c0_ := v.c0_ ++ xs.map (fun _ => none), underscore_ := u } := by
  intro xs
  induction xs with
  | nil => intro v; exact ⟨v.underscore_, by simp [forEach]⟩
  | cons a xs ih =>
    intro v
    obtain ⟨u, e⟩ := ih { v with underscore_ := a, c0_ := v.c0_ ++ [none] }
    refine ⟨u, ?_⟩
    simp only [forEach, lazy_init.for1]
    rw [e]; simp

/-- `LazyLoadingTrees(swcs)`: the files, no tree loaded -/
theorem lazy_init_eq (g0 : LazyLoadingTrees) (swcs : List Int) :
    lazy_init g0 swcs = some (⟨swcs, swcs.map (fun _ => none)⟩, ()) := by
  obtain ⟨u, e⟩ := lazy_init_for1_loop swcs { (default : lazy_init.V) with self := { g0 with swcs := swcs }, swcs := swcs, c0_ := [] }
  simp only [lazy_init, lazy_init.body, seq, bindS, e]
  simp [finish]

/-- the container after the constructor's probe `swcs[0]`: the first file (if any) is loaded -/
def probed (swcs : List Int) : LazyLoadingTrees :=
  ⟨swcs, (swcs.map (fun _ => (none : Option Int))).set 0 (some (swcs.headD 0))⟩

/-- **`Population(LazyLoadingTrees(swcs), root=d)` on a fresh container**, arbitrary file identifiers: the only read is the probe of the
first file, and only when there is one -/
theorem pop_init_fresh (p0 : Population) (swcs : List Int) (root : String) (log : List Int) :
    pop_init readLog p0 ⟨swcs, swcs.map (fun _ => none)⟩ root log =
      some (⟨probed swcs, root⟩, log ++ swcs.take 1, ()) := by
  cases swcs with
  | nil =>
    simp [pop_init, pop_init.body, seq, skip, Py.bind, lazy_len, lazy_len.body, finish, Py.len, probed]
  | cons a rest =>
    simp only [List.map_cons]
    have hlen : lazy_len ⟨a :: rest, none :: rest.map (fun _ => none)⟩ = some ((rest.length : Int) + 1) := by
      simp [lazy_len, lazy_len.body, finish, Py.len]
    have hidx : pop_get_idx 0 ((rest.length : Int) + 1) = some 0 := by
      have := getIdx_refines 0 (rest.length + 1)
      have hg : getIdx 0 (rest.length + 1) = some 0 := by
        have := (C19.getIdx_spec 0 (rest.length + 1)).1 (by omega) (by omega)
        simpa using this
      rw [hg] at this; simpa using this
    have hload : lazy_load readLog ⟨a :: rest, none :: rest.map (fun _ => none)⟩ 0 log =
        some (⟨a :: rest, some a :: rest.map (fun _ => none)⟩, log ++ [a], ()) := by
      simp [lazy_load, lazy_load.body, Py.bind, Py.idx, Py.normIdx, Py.setIdx, finish, readLog]
    have hget : lazy_getitem readLog ⟨a :: rest, none :: rest.map (fun _ => none)⟩ 0 log =
        some (⟨a :: rest, some a :: rest.map (fun _ => none)⟩, log ++ [a], some a) := by
      simp [lazy_getitem, lazy_getitem.body, seq, Py.bind, hlen, hidx, hload, Py.idx, Py.normIdx, finish]
    have hlen' : lazy_len ⟨a :: rest, some a :: rest.map (fun _ => none)⟩ = some ((rest.length : Int) + 1) := by
      simp [lazy_len, lazy_len.body, finish, Py.len]
    have hpos : (0 : Int) < (rest.length : Int) + 1 := by omega
    have hne : ¬ ((rest.length : Int) + 1 = 0) := by omega
    simp [pop_init, pop_init.body, seq, skip, Py.bind, hlen, hget, hlen', hpos, hne, finish, probed]

/-! ## `Populations.__init__` -/

theorem pop_len_eq (p : Population) : pop_len p = some (p.trees.swcs.length : Int) := by
  simp [pop_len, pop_len.body, Py.bind, lazy_len, lazy_len.body, finish, Py.len]

theorem pops_init_for1_loop : ∀ (ps : List Population) (v : pops_init.V),
    ∃ p', forEach pops_init.for1 ps v =
      .next { v with c0_ := v.c0_ ++ ps.map (fun p => (p.trees.swcs.length : Int)), p := p' } := by
  intro ps
  induction ps with
  | nil => intro v; exact ⟨v.p, by simp [forEach]⟩
  | cons a ps ih =>
    intro v
    obtain ⟨p', e⟩ := ih { v with p := a, c0_ := v.c0_ ++ [(a.trees.swcs.length : Int)] }
    refine ⟨p', ?_⟩
    simp only [forEach, pops_init.for1, Py.bind, pop_len_eq]
    rw [e]; simp

theorem pops_init_for2_loop : ∀ (ps : List Population) (v : pops_init.V),
    ∃ i', forEach pops_init.for2 ps v = .next { v with c4_ := v.c4_ ++ ps.map (fun _ => ""), i := i' } := by
  intro ps
  induction ps with
  | nil => intro v; exact ⟨v.i, by simp [forEach]⟩
  | cons a ps ih =>
    intro v
    obtain ⟨i', e⟩ := ih { v with i := a, c4_ := v.c4_ ++ [""] }
    refine ⟨i', ?_⟩
    simp only [forEach, pops_init.for2]
    rw [e]; simp

/-- **`Populations(populations)` (`labels=None`) as translated**: `len` = the least population length (`ValueError` from `min` on no population),
the populations as given, empty labels -/
theorem pops_init_eq (s0 : Populations) (ps : List Population) :
    pops_init s0 ps = (Py.minInt (ps.map (fun p => (p.trees.swcs.length : Int)))).map fun m => (⟨m, ps, ps.map (fun _ => "")⟩, ()) := by
  obtain ⟨p', e1⟩ := pops_init_for1_loop ps { (default : pops_init.V) with self := s0, populations := ps, c0_ := [] }
  simp only [pops_init, pops_init.body, seq, bindS, Py.bind, e1, List.nil_append]
  cases hm : Py.minInt (ps.map (fun p => (p.trees.swcs.length : Int))) with
  | none => simp [finish]
  | some m =>
    obtain ⟨i', e2⟩ := pops_init_for2_loop ps
      { (default : pops_init.V) with self := { { s0 with len := m } with populations := ps }, populations := ps, c0_ := ps.map (fun p => (p.trees.swcs.length : Int)), p := p', c4_ := [] }
    simp only [e2]
    simp [finish, Py.len]

/-! ## `Populations.from_swc` -/

section
variable (find : String → List Int) (join : String → Int → Int)
local notation "V" => pops_from_swc.V (List Int)

theorem fs_for1_loop : ∀ (ds : List String) (v : V),
    ∃ d', forEach (pops_from_swc.for1 readLog find join) ds v = .next { v with c0_ := v.c0_ ++ ds.map find, d := d' } := by
  intro ds
  induction ds with
  | nil => intro v; exact ⟨v.d, by simp [forEach]⟩
  | cons a ds ih =>
    intro v
    obtain ⟨d', e⟩ := ih { v with d := a, c0_ := v.c0_ ++ [find a] }
    refine ⟨d', ?_⟩
    simp only [forEach, pops_from_swc.for1]
    rw [e]; simp

theorem fs_for2_loop : ∀ (ds : List String) (v : V),
    ∃ u', forEach (pops_from_swc.for2 readLog find join) ds v =
      .next { v with c3_ := v.c3_ ++ ds.map (fun _ => v.inter), underscore_ := u' } := by
  intro ds
  induction ds with
  | nil => intro v; exact ⟨v.underscore_, by simp [forEach]⟩
  | cons a ds ih =>
    intro v
    obtain ⟨u', e⟩ := ih { v with underscore_ := a, c3_ := v.c3_ ++ [v.inter] }
    refine ⟨u', ?_⟩
    simp only [forEach, pops_from_swc.for2]
    rw [e]; simp

theorem fs_for3_loop (hd : List Int) : ∀ (as : List (List Int)) (v : V), Py.idx v.fs 0 = some hd →
    ∃ a', forEach (pops_from_swc.for3 readLog find join) as v =
      .next { v with c5_ := v.c5_ ++ as.map (fun a => decide (hd = a)), a := a' } := by
  intro as
  induction as with
  | nil => intro v _; exact ⟨v.a, by simp [forEach]⟩
  | cons x as ih =>
    intro v hv
    obtain ⟨a', e⟩ := ih { v with a := x, c5_ := v.c5_ ++ [decide (hd = x)] } hv
    refine ⟨a', ?_⟩
    simp only [forEach, pops_from_swc.for3, Py.bind, hv]
    rw [e]; simp

theorem fs_for4_loop : ∀ (ps : List Int) (v : V),
    ∃ p', forEach (pops_from_swc.for4 readLog find join) ps v = .next { v with c9_ := v.c9_ ++ ps.map (join v.d), p := p' } := by
  intro ps
  induction ps with
  | nil => intro v; exact ⟨v.p, by simp [forEach]⟩
  | cons a ps ih =>
    intro v
    obtain ⟨p', e⟩ := ih { v with p := a, c9_ := v.c9_ ++ [join v.d a] }
    refine ⟨p', ?_⟩
    simp only [forEach, pops_from_swc.for4]
    rw [e]; simp

/-- the population built for root `d` from the matched names: files `join d p`, the first one probed -/
def build1 (d : String) (names : List Int) : Population := ⟨probed (names.map (join d)), d⟩
/-- the file read while building it -/
def reads1 (d : String) (names : List Int) : List Int := (names.map (join d)).take 1

theorem fs_for5_loop : ∀ (ds : List String) (k : Nat) (v : V), k + ds.length ≤ v.fs.length →
    ∃ c9' i' d' p', forEach (pops_from_swc.for5 readLog find join) (Py.enumFrom (k : Int) ds) v =
      .next { v with c8_ := v.c8_ ++ List.zipWith (build1 join) ds (v.fs.drop k),
                     cbs := v.cbs ++ (List.zipWith (reads1 join) ds (v.fs.drop k)).flatten,
                     c9_ := c9', i := i', d := d', p := p' } := by
  intro ds
  induction ds with
  | nil => intro k v _; exact ⟨v.c9_, v.i, v.d, v.p, by simp [forEach, Py.enumFrom]⟩
  | cons a ds ih =>
    intro k v hk
    simp only [List.length_cons] at hk
    have hlt : k < v.fs.length := by omega
    have hdrop : v.fs.drop k = v.fs[k] :: v.fs.drop (k + 1) := by simp
    have hidx : Py.idx v.fs (k : Int) = some v.fs[k] := by
      rw [Py.idx_nat _ _ hlt]; simp
    obtain ⟨p1, e4⟩ := fs_for4_loop find join v.fs[k] { v with i := (k : Int), d := a, c9_ := [] }
    have hpi := pop_init_fresh default (v.fs[k].map (join a)) a v.cbs
    obtain ⟨c9', i', d', p', e⟩ := ih (k + 1)
      { v with i := (k : Int), d := a, c9_ := [] ++ v.fs[k].map (join a), p := p1,
               cbs := v.cbs ++ (v.fs[k].map (join a)).take 1, c8_ := v.c8_ ++ [build1 join a v.fs[k]] } (by simp only []; omega)
    refine ⟨c9', i', d', p', ?_⟩
    have hk1 : ((k : Int) + 1) = ((k + 1 : Nat) : Int) := by omega
    simp only [Py.enumFrom, forEach, pops_from_swc.for5, seq, bindS, Py.bind, hidx, e4, lazy_init_eq, List.nil_append, hpi, hk1]
    simp only [List.nil_append, build1] at e
    rw [e, hdrop]
    simp only [List.zipWith_cons_cons, List.flatten_cons, build1, reads1, List.append_assoc, List.singleton_append]
end

/-- `reduce(lambda a, b: set(a).intersection(set(b)), fs)`: TypeError (`none`) on no list, the first list ITSELF on one list -/
def interAll (fs0 : List (List Int)) : Option (List Int) :=
  Py.reduce1 (fun a b => Py.Set.inter (Py.Set.ofList a) (Py.Set.ofList b)) fs0

/-- the names each population is built from: with `intersect` every root gets the common names; otherwise its own listing — after the
assertion that all listings EQUAL the first (same names in the same order) when `check_same` -/
def matched (fs0 : List (List Int)) (inter check : Bool) : Option (List (List Int)) :=
  if inter then (interAll fs0).map (fun I => fs0.map (fun _ => I))
  else if check then (if Py.allB ((fs0.drop 1).map (fun a => decide (fs0.headD [] = a))) then some fs0 else none)
  else some fs0

theorem matched_length (fs0 : List (List Int)) (inter check : Bool) (fs : List (List Int)) (h : matched fs0 inter check = some fs) :
    fs.length = fs0.length := by
  unfold matched at h
  split at h
  · cases hi : interAll fs0 with
    | none => simp [hi] at h
    | some I => simp [hi] at h; subst h; simp
  · split at h
    · split at h
      · cases h; rfl
      · cases h
    · cases h; rfl

/-- the last two statements of `from_swc` (the constructor loop and `return cls(populations, labels=labels)`), as they occur in the generated body
(`body_split` checks by `rfl` that the generated body ends with exactly this) -/
def tailK (find : String → List Int) (join : String → Int → Int) : pops_from_swc.V (List Int) → Py.Res (pops_from_swc.V (List Int)) Populations :=
  (Py.seq (fun (v : pops_from_swc.V (List Int)) =>
      Py.bindS (((Py.seq (fun (v : pops_from_swc.V (List Int)) => .next { v with c8_ := ([] : List Population) })
        (fun (v : pops_from_swc.V (List Int)) => Py.forEach (pops_from_swc.for5 readLog find join) (Py.enumerate v.roots) v))) v)
        fun (v : pops_from_swc.V (List Int)) => .next { v with populations := v.c8_ })
      (fun (v : pops_from_swc.V (List Int)) => Py.bind (pops_init default v.populations) fun t15 => .ret v t15.1))

/-- the generated body of `Populations.from_swc` is: the listing statement, the matching statement, then `tailK` -/
theorem body_split (find : String → List Int) (join : String → Int → Int) :
    ∃ A B, pops_from_swc.body readLog find join = Py.seq A (Py.seq B (tailK find join)) := ⟨_, _, rfl⟩

/-- **the construction part of `Populations.from_swc` as translated** (the generated body is `listing; matching; tailK`,
`body_split`): `tailK` from ANY state in which the matched names `fs` have one entry per root: one
`Population(LazyLoadingTrees([join(d, p) for p in fs[i]]), root=d)` per root IN ORDER, each constructor reading only its first file (if any),
then `Populations(...)` with `len` = the least length (ValueError when there is no root) and empty labels. -/
theorem pops_from_swc_tail (find : String → List Int) (join : String → Int → Int) (v : pops_from_swc.V (List Int)) (h : v.fs.length = v.roots.length) :
    (Py.finish default (tailK find join v)).map (fun r => (r.1.cbs, r.2)) =
    (Py.minInt ((List.zipWith (build1 join) v.roots v.fs).map (fun p => (p.trees.swcs.length : Int)))).map fun m =>
      (v.cbs ++ (List.zipWith (reads1 join) v.roots v.fs).flatten,
        (⟨m, List.zipWith (build1 join) v.roots v.fs, (List.zipWith (build1 join) v.roots v.fs).map (fun _ => "")⟩ : Populations)) := by
  obtain ⟨c9', i', d', p', e⟩ := fs_for5_loop find join v.roots 0 { v with c8_ := [] } (by simp [h])
  simp only [tailK, Py.enumerate, seq, bindS, Py.bind]
  have e' : forEach (pops_from_swc.for5 readLog find join) (Py.enumFrom 0 v.roots) { v with c8_ := [] } = _ := e
  rw [e']
  simp only [pops_init_eq, List.drop_zero, List.nil_append]
  cases Py.minInt ((List.zipWith (build1 join) v.roots v.fs).map (fun p => (p.trees.swcs.length : Int))) <;> simp [finish]

/-- non-vacuity (kernel-evaluated): two roots with the matched names [5, 7] — files 105, 107 / 205, 207, the first of each probed -/
example : (Py.finish default (tailK (fun _ => []) (fun d p => (if d = "a" then 100 else 200) + p)
      { (default : pops_from_swc.V (List Int)) with roots := ["a", "b"], fs := [[5, 7], [5, 7]], cbs := [] })).map (fun r => (r.1.cbs, r.2.len, r.2.populations.map (·.trees.swcs))) =
    some ([105, 205], 2, [[105, 107], [205, 207]]) := by decide +kernel

/-- the result of `from_swc` for matched names `fs` -/
def fromSwcResult (join : String → Int → Int) (roots : List String) (log : List Int) (fs : List (List Int)) : Option (List Int × Populations) :=
  (Py.minInt ((List.zipWith (build1 join) roots fs).map (fun p => (p.trees.swcs.length : Int)))).map fun m =>
    (log ++ (List.zipWith (reads1 join) roots fs).flatten,
      (⟨m, List.zipWith (build1 join) roots fs, (List.zipWith (build1 join) roots fs).map (fun _ => "")⟩ : Populations))

/-- **`Populations.from_swc` as translated, without `intersect` and without `check_same`** (every list of roots, every listing function, every
`join`): population `i` holds the files `join(roots[i], p)` for `p` in ITS OWN listing, in listing order -/
theorem pops_from_swc_plain (find : String → List Int) (join : String → Int → Int) (roots : List String) (log : List Int) :
    pops_from_swc readLog find join roots false false log = fromSwcResult join roots log (roots.map find) := by
  have hb : pops_from_swc.body readLog find join = Py.seq _ (Py.seq _ (tailK find join)) := rfl
  obtain ⟨d1, e1⟩ := fs_for1_loop find join roots
    { (default : pops_from_swc.V (List Int)) with roots := roots, intersect := false, check_same := false, cbs := log, c0_ := [] }
  unfold pops_from_swc
  rw [hb]
  simp only [seq, bindS, e1, List.nil_append]
  simp only [Bool.false_eq_true, if_false, skip]
  have := pops_from_swc_tail find join
    { (default : pops_from_swc.V (List Int)) with roots := roots, intersect := false, check_same := false, cbs := log, c0_ := roots.map find, d := d1, fs := roots.map find } (by simp)
  simpa [fromSwcResult] using this

/-- **`Populations.from_swc(…, intersect=False, check_same=True)` as translated**: AssertionError (`none`) unless every listing EQUALS the first
(same names, same order); then as without the check -/
theorem pops_from_swc_check (find : String → List Int) (join : String → Int → Int) (roots : List String) (log : List Int) :
    pops_from_swc readLog find join roots false true log =
      if Py.allB (((roots.map find).drop 1).map (fun a => decide ((roots.map find).headD [] = a))) then fromSwcResult join roots log (roots.map find)
      else none := by
  have hb : pops_from_swc.body readLog find join = Py.seq _ (Py.seq _ (tailK find join)) := rfl
  obtain ⟨d1, e1⟩ := fs_for1_loop find join roots
    { (default : pops_from_swc.V (List Int)) with roots := roots, intersect := false, check_same := true, cbs := log, c0_ := [] }
  unfold pops_from_swc
  rw [hb]
  simp only [seq, bindS, e1, List.nil_append]
  simp only [Bool.false_eq_true, if_false, if_true]
  cases roots with
  | nil =>
    have := pops_from_swc_tail find join { (default : pops_from_swc.V (List Int)) with roots := [], intersect := false, check_same := true, cbs := log, c0_ := [], d := d1, fs := [], c5_ := [] } (by simp)
    simp only [List.map_nil, List.drop_nil, forEach, Py.allB, List.all_nil, if_true]
    simpa [fromSwcResult] using this
  | cons r rs =>
    obtain ⟨a1, e3⟩ := fs_for3_loop find join (find r) (rs.map find) { (default : pops_from_swc.V (List Int)) with roots := r :: rs, intersect := false, check_same := true, cbs := log, c0_ := find r :: rs.map find, d := d1, fs := find r :: rs.map find, c5_ := [] } (by simp [Py.idx, Py.normIdx])
    simp only [List.map_cons, List.drop_succ_cons, List.drop_zero, e3, List.nil_append, List.headD_cons]
    by_cases hall : Py.allB ((rs.map find).map (fun a => decide (find r = a))) = true
    · have := pops_from_swc_tail find join { (default : pops_from_swc.V (List Int)) with roots := r :: rs, intersect := false, check_same := true, cbs := log, c0_ := find r :: rs.map find, d := d1, fs := find r :: rs.map find, c5_ := (rs.map find).map (fun a => decide (find r = a)), a := a1 } (by simp)
      simp only [hall, if_true]
      simpa [fromSwcResult] using this
    · rw [if_neg hall, if_neg hall]; simp [finish]

/-- **`Populations.from_swc(…, intersect=True)` as translated** (`check_same` is then not looked at): TypeError (`none`) on no root; otherwise EVERY
population is built from the SAME names `interAll` (the listing itself for one root, the running set intersection for more), in the same order -/
theorem pops_from_swc_intersect (find : String → List Int) (join : String → Int → Int) (roots : List String) (check : Bool) (log : List Int) :
    pops_from_swc readLog find join roots true check log =
      (interAll (roots.map find)).bind fun I => fromSwcResult join roots log (roots.map (fun _ => I)) := by
  have hb : pops_from_swc.body readLog find join = Py.seq _ (Py.seq _ (tailK find join)) := rfl
  obtain ⟨d1, e1⟩ := fs_for1_loop find join roots
    { (default : pops_from_swc.V (List Int)) with roots := roots, intersect := true, check_same := check, cbs := log, c0_ := [] }
  obtain ⟨U2, h2⟩ := Classical.axiomOfChoice (fs_for2_loop find join roots)
  have hr : ∀ (w : pops_from_swc.V (List Int)) (l : List (List Int)),
      Py.reduce1 (fun a_ b_ => let v := { w with a := a_, b := b_ }; Py.Set.inter (Py.Set.ofList v.a) (Py.Set.ofList v.b)) l = interAll l :=
    fun _ _ => rfl
  unfold pops_from_swc
  rw [hb]
  simp only [seq, bindS, e1, List.nil_append]
  simp only [if_true, Py.bind]
  have hr' := hr { (default : pops_from_swc.V (List Int)) with roots := roots, intersect := true, check_same := check, cbs := log, c0_ := roots.map find, d := d1, fs := roots.map find } (roots.map find)
  simp only [] at hr'
  rw [hr']
  cases hI : interAll (roots.map find) with
  | none => simp [finish]
  | some I =>
    simp only [h2, Option.bind_some]
    by_cases hz : Py.len I = 0
    · simp only [hz, decide_true, if_true, ite_true, h2]
      rw [pops_from_swc_tail find join] <;> simp [fromSwcResult]
    · simp only [hz, decide_false, Bool.false_eq_true, if_false, ite_false, skip, h2]
      rw [pops_from_swc_tail find join] <;> simp [fromSwcResult]

/-- **`Populations.from_swc` (`labels=None`) as translated — what the matching returns for EVERY list of roots, every listing function, every
`join`, both flags**: the listings `fs0 = [find_swcs(d) for d in roots]` are matched by `matched` (`intersect`: every root gets `interAll fs0`,
TypeError on no root; else `check_same`: AssertionError unless all listings equal the first; else each its own), then one
`Population(LazyLoadingTrees([join(d, p) for p in fs[i]]), root=d)` per root in order — each constructor reads only its first file —
and `Populations(...)` (`len` = the least length, ValueError on no root, empty labels) -/
theorem pops_from_swc_refines (find : String → List Int) (join : String → Int → Int) (roots : List String) (inter check : Bool) (log : List Int) :
    pops_from_swc readLog find join roots inter check log =
      (matched (roots.map find) inter check).bind (fromSwcResult join roots log) := by
  cases inter with
  | true =>
    rw [pops_from_swc_intersect]
    cases hI : interAll (roots.map find) <;> simp [matched, hI, List.map_map, Function.comp_def]
  | false =>
    cases check with
    | true => rw [pops_from_swc_check]; simp only [matched, Bool.false_eq_true, if_false, if_true]; split <;> simp
    | false => rw [pops_from_swc_plain]; simp [matched]

/-- the common names: for at least one listing, `m` is kept iff it is in EVERY listing (and the result has the order of the running intersection) -/
theorem mem_interAll (x : List Int) (xs : List (List Int)) (hx : xs ≠ []) (m : Int) :
    (∃ I, interAll (x :: xs) = some I ∧ (m ∈ I ↔ m ∈ x ∧ ∀ f ∈ xs, m ∈ f)) := by
  refine ⟨_, rfl, ?_⟩
  have key : ∀ (ys : List (List Int)) (acc : List Int),
      (m ∈ ys.foldl (fun a b => Py.Set.inter (Py.Set.ofList a) (Py.Set.ofList b)) acc ↔ m ∈ acc ∧ ∀ f ∈ ys, m ∈ f) := by
    intro ys
    induction ys with
    | nil => intro acc; simp
    | cons y ys ih =>
      intro acc
      rw [List.foldl_cons, ih]
      simp only [Py.Set.inter, List.mem_filter, List.contains_iff_mem, RefineCut.mem_ofList, List.mem_cons, forall_eq_or_imp]
      exact and_assoc
  exact key xs x

/-- **matching several directories yields rows of same-named files** (`intersect=True`, the default): every population is built from the SAME
list of names `I`, so row `j` consists of `join(d, I[j])` for each root `d` in order -/
theorem from_swc_rows (join : String → Int → Int) (roots : List String) (I : List Int) :
    List.zipWith (build1 join) roots (roots.map (fun _ => I)) = roots.map (fun d => build1 join d I) ∧
    ∀ d, (build1 join d I).trees.swcs = I.map (join d) := by
  constructor
  · induction roots with
    | nil => rfl
    | cons a rs ih => simp [ih]
  · intro d; rfl

/-- non-vacuity (kernel-evaluated): two roots, listings [1, 2, 3] and [3, 1]: common names [1, 3] (order of the first listing), files `100·root + name` -/
example : (pops_from_swc readLog (fun d => if d = "a" then [1, 2, 3] else [3, 1]) (fun d p => (if d = "a" then 100 else 200) + p) ["a", "b"] true false []).map
      (fun r => (r.1, r.2.len, r.2.populations.map (·.trees.swcs))) = some ([101, 201], 2, [[101, 103], [201, 203]]) := by decide +kernel
example : pops_from_swc readLog (fun d => if d = "a" then [1, 2, 3] else [3, 1]) (fun _ p => p) ["a", "b"] false true [] = none := by decide +kernel

end RefineFromSwc
