import SwcVerif.Gen.AlgoShortTip
import SwcVerif.Refine.Cut
import SwcVerif.Refine.Node
import SwcVerif.Refine.Subtree
/-! Refinement for C06 (T23 `shorttip`): the definitions GENERATED from `swcgeom/transforms/tree.py::CutShortTipBranch._leave` and
`__call__` (with the recording `lambda` it puts on the callback list) equal the model `Sub.cutShortTip` on every tree table, for every
threshold and every list of (total, stateful) user callbacks; the user callbacks are called once per removed branch, in traversal order,
with the branch `[furcation, child, …, tip]`. -/
namespace RefineShortTip
open Gen.Algo Sub Py Trav C06

/-- the path the `while` loop of `_leave` walks from a node: the node, its FIRST child, and so on down to a tip -/
def firstPath : Rose → List Int
  | .node a [] => [a]
  | .node a (k :: _) => a :: firstPath k

section walk
variable {S : Type} [Inhabited S] (cbsL : List (S → List Int → Option S)) (dist : Int → Int → Int)

theorem while_walk (N : Nat) (pids : List Int) : ∀ (fuel : Nat) (k : Rose) (v : tip_leave.V S Int),
    Agrees (tableKids (rangeI N) pids) k → (∀ j ∈ k.ids, 0 ≤ j ∧ j < (N : Int)) → k.size < fuel →
    v.ids = rangeI N → v.pids = pids → v.child = some k.id →
    ∃ cc, whileF (tip_leave.while1_cond cbsL dist) (tip_leave.while1_body cbsL dist) fuel v
      = .next { v with path := v.path ++ firstPath k, child := none, cc := cc }
  | 0, k, v, _, _, hs, _, _, _ => by omega
  | fuel + 1, .node a ks, v, hA, hin, hs, hi, hp, hc => by
    have ha := hin a (by simp [Rose.ids])
    have hkids : node_children v.ids v.pids a = some (ks.map Rose.id) := by
      rw [hi, hp, RefineNode.node_children_spec N pids a ha.1 ha.2]
      simp only [Agrees] at hA
      rw [hA.1]
    have hia : Py.idx v.ids a = some a := by rw [hi]; exact RefineNode.idx_rangeI N a ha.1 ha.2
    simp only [Rose.id] at hc
    cases ks with
    | nil =>
      cases fuel with
      | zero => simp [Rose.size, sizeL] at hs
      | succ f =>
        refine ⟨[], ?_⟩
        simp [whileF, tip_leave.while1_cond, tip_leave.while1_body, Py.seq, Py.bind, hc, hia, hkids, firstPath, Py.len]
    | cons k' rest =>
      simp only [Agrees, AgreesL] at hA
      have hs' : k'.size < fuel := by simp only [Rose.size, sizeL] at hs; omega
      have hin' : ∀ j ∈ k'.ids, 0 ≤ j ∧ j < (N : Int) := fun j hj => hin j (by simp [Rose.ids, idsL, hj])
      obtain ⟨cc, e⟩ := while_walk N pids fuel k'
        { v with path := v.path ++ [a], cc := (k' :: rest).map Rose.id, child := some k'.id } hA.2.1 hin' hs' hi hp rfl
      refine ⟨cc, ?_⟩
      have hpos : (((rest.map Rose.id).length + 1 : Nat) : Int) > 0 := by omega
      have hidx0 : Py.idx (k'.id :: rest.map Rose.id) 0 = some k'.id := by
        have := idx_nat (k'.id :: rest.map Rose.id) 0 (by simp)
        simpa using this
      have hcond : tip_leave.while1_cond cbsL dist v = some true := by simp [tip_leave.while1_cond, hc]
      have hb : tip_leave.while1_body cbsL dist v = .next
          { v with path := v.path ++ [a], cc := (k' :: rest).map Rose.id, child := some k'.id } := by
        simp only [tip_leave.while1_body, Py.seq, Py.bind, hc, hia, hkids, List.map_cons, Py.len, List.length_cons, hpos, decide_true,
          if_true, hidx0, Option.bind_some]
      simp only [whileF, hcond, hb]
      rw [e]
      simp [firstPath]
end walk

/-- the value `_leave` returns for a subtree: `(length of the unbranched chain below it, its id)` or `None` -/
def val (elen : Int → Int) (k : Rose) : Option (Int × Int) := (chainLen? elen k).map (·, k.id)

/-- the branch `_leave` at node `i` reports for its child `k`: `[i, k, first child of k, …, tip]` when the chain below `k` is unbranched
and, measured from `i`, not longer than the threshold -/
def brOf (elen : Int → Int) (thre : Int) (i : Int) (k : Rose) : Option (List Int) :=
  match chainLen? elen k with
  | some L => if L + elen k.id > thre then none else some (i :: firstPath k)
  | none => none

theorem firstPath_head : ∀ k : Rose, ∃ rest, firstPath k = k.id :: rest
  | .node a [] => ⟨[], rfl⟩
  | .node a (k :: _) => ⟨firstPath k, rfl⟩

-- the branches reported in the whole subtree, in the order the traversal leaves the nodes (mirrors `C06.tipRemoved`)
mutual
def tipBranches (elen : Int → Int) (thre : Int) : Rose → List (List Int)
  | .node i ks => tipBranchesRev elen thre ks ++ (if ks.length ≥ 2 then ks.filterMap (brOf elen thre i) else [])
def tipBranchesRev (elen : Int → Int) (thre : Int) : List Rose → List (List Int)
  | [] => []
  | r :: rs => tipBranchesRev elen thre rs ++ tipBranches elen thre r
end

section leave
variable {S : Type} [Inhabited S] (cbsL : List (S → List Int → Option S)) (eff : S → List Int → S) (Pst : S → Prop)
  (N : Nat) (pids : List Int) (elen : Int → Int) (thre : Int)

def effO (s : S) : Option (List Int) → S
  | none => s
  | some br => eff s br

/-- what the per-node lemmas need to know about the callback list: on a branch whose second node is a row of the table every callable
succeeds and together they compute `eff`, preserving the state invariant -/
def CbOk : Prop := ∀ (s : S) (a x : Int) (rest : List Int), Pst s → 0 ≤ x → x < (N : Int) →
  callAll cbsL s (a :: x :: rest) = some (eff s (a :: x :: rest)) ∧ Pst (eff s (a :: x :: rest))

theorem for2_step (hcb : CbOk cbsL eff Pst N) (i : Int) (hi : 0 ≤ i ∧ i < (N : Int)) (G : Nat) (k : Rose) (v : tip_leave.V S Int)
    (hA : Agrees (tableKids (rangeI N) pids) k) (hin : ∀ j ∈ k.ids, 0 ≤ j ∧ j < (N : Int)) (hs : k.size < G)
    (h1 : v.ids = rangeI N) (h2 : v.pids = pids) (h3 : v.n = i) (h4 : v.thre = thre) (hP : Pst v.cbs) :
    ∃ v', (tip_leave.for2 cbsL (fun _ c => elen c) G (val elen k) v = .next v' ∨
           tip_leave.for2 cbsL (fun _ c => elen c) G (val elen k) v = .cont v') ∧
      v'.ids = rangeI N ∧ v'.pids = pids ∧ v'.n = i ∧ v'.thre = thre ∧ v'.cbs = effO eff v.cbs (brOf elen thre i k) ∧ Pst v'.cbs := by
  cases hcl : chainLen? elen k with
  | none =>
    refine ⟨{ v with c := none }, Or.inr ?_, h1, h2, h3, h4, by simp [brOf, hcl, effO], hP⟩
    simp [tip_leave.for2, val, hcl, Py.seq]
  | some L =>
    by_cases hgt : L + elen k.id > thre
    · refine ⟨{ v with c := some (L, k.id), dis := L, child := some k.id }, Or.inr ?_, h1, h2, h3, h4, by simp [brOf, hcl, hgt, effO], hP⟩
      simp [tip_leave.for2, val, hcl, Py.seq, Py.bind, Py.skip, hgt, h4]
    · have hidx : Py.idx v.ids v.n = some i := by rw [h1, h3]; exact RefineNode.idx_rangeI N i hi.1 hi.2
      obtain ⟨cc, e⟩ := while_walk cbsL (fun _ c => elen c) N pids G k
        { v with c := some (L, k.id), dis := L, child := some k.id, path := [i] } hA hin hs h1 h2 rfl
      obtain ⟨rest, hr⟩ := firstPath_head k
      have hk := hin k.id (by cases k; simp [Rose.ids, Rose.id])
      obtain ⟨c1, c2⟩ := hcb v.cbs i k.id rest hP hk.1 hk.2
      refine ⟨{ v with c := some (L, k.id), dis := L, child := none, path := (i :: firstPath k), cc := cc, br := (i :: firstPath k), cbs := eff v.cbs (i :: firstPath k) }, Or.inl ?_, h1, h2, h3, h4, by simp [brOf, hcl, hgt, effO], by rw [hr]; exact c2⟩
      simp only [tip_leave.for2, val, hcl, Py.seq, Py.bind, Py.skip, Option.map_some, Option.isNone_some, Bool.false_eq_true, if_false,
        h4, hgt, decide_false, hidx] at e ⊢
      rw [e]
      simp only [List.singleton_append, hr] at c1 ⊢
      simp only [c1]
theorem sizeL_mem : ∀ (ks : List Rose) (k : Rose), k ∈ ks → k.size ≤ sizeL ks
  | [], _, h => by simp at h
  | r :: rs, k, h => by
    simp only [sizeL]
    rcases List.mem_cons.1 h with rfl | h'
    · omega
    · have := sizeL_mem rs k h'; omega

theorem for2_loop (hcb : CbOk cbsL eff Pst N) (i : Int) (hi : 0 ≤ i ∧ i < (N : Int)) (G : Nat) : ∀ (ks : List Rose) (v : tip_leave.V S Int),
    AgreesL (tableKids (rangeI N) pids) ks → (∀ j ∈ idsL ks, 0 ≤ j ∧ j < (N : Int)) → sizeL ks < G →
    v.ids = rangeI N → v.pids = pids → v.n = i → v.thre = thre → Pst v.cbs →
    ∃ v', forEach (tip_leave.for2 cbsL (fun _ c => elen c) G) (ks.map (val elen)) v = .next v' ∧
      v'.cbs = (ks.filterMap (brOf elen thre i)).foldl eff v.cbs ∧ Pst v'.cbs
  | [], v, _, _, _, _, _, _, _, hP => ⟨v, by simp [forEach], by simp, hP⟩
  | k :: ks, v, hA, hin, hs, h1, h2, h3, h4, hP => by
    simp only [AgreesL] at hA
    simp only [sizeL] at hs
    have hk1 : 1 ≤ k.size := by cases k; simp [Rose.size]
    obtain ⟨v1, hor, f1, f2, f3, f4, fc, fp⟩ := for2_step cbsL eff Pst N pids elen thre hcb i hi G k v hA.1
      (fun j hj => hin j (by simp [idsL, hj])) (by omega) h1 h2 h3 h4 hP
    obtain ⟨v', e, hc, hp⟩ := for2_loop hcb i hi G ks v1 hA.2 (fun j hj => hin j (by simp [idsL, hj])) (by omega) f1 f2 f3 f4 fp
    refine ⟨v', ?_, ?_, hp⟩
    · rcases hor with h | h <;> simp only [List.map_cons, forEach, h, e]
    · rw [hc, fc]
      cases hb : brOf elen thre i k <;> simp [List.filterMap_cons, hb, effO]

/-- **`_leave` at one node of the tree**: with the values of the children's subtrees, the generated `_leave` returns the value of the
node's subtree, and calls the callback list once for every short terminal chain hanging from the node (when it has ≥ 2 children) -/
theorem tipLeave_node (hcb : CbOk cbsL eff Pst N) (i : Int) (G : Nat) (ks : List Rose) (s : S)
    (hA : Agrees (tableKids (rangeI N) pids) (.node i ks)) (hin : ∀ j ∈ (Rose.node i ks).ids, 0 ≤ j ∧ j < (N : Int))
    (hs : (Rose.node i ks).size ≤ G) (hP : Pst s) :
    tip_leave cbsL (fun _ c => elen c) G (rangeI N) pids thre i (ks.map (val elen)) s
      = some ((if ks.length ≥ 2 then ks.filterMap (brOf elen thre i) else []).foldl eff s, val elen (.node i ks)) ∧
    Pst ((if ks.length ≥ 2 then ks.filterMap (brOf elen thre i) else []).foldl eff s) := by
  have hi := hin i (by simp [Rose.ids])
  simp only [Agrees] at hA
  simp only [Rose.size] at hs
  obtain ⟨v', e, hc, hp⟩ := for2_loop cbsL eff Pst N pids elen thre hcb i hi G ks
    { (default : tip_leave.V S Int) with ids := rangeI N, pids := pids, thre := thre, n := i, children := ks.map (val elen), cbs := s }
    hA.2 (fun j hj => hin j (by simp [Rose.ids, hj])) (by omega) rfl rfl rfl rfl hP
  match ks, hA, hin, hs, e, hc, hp with
  | [], _, _, _, _, _, _ =>
    refine ⟨?_, by simpa using hP⟩
    simp [tip_leave, tip_leave.body, Py.seq, Py.len, Py.finish, val, chainLen?, Rose.id]
  | [k], hA, hin, _, e, hc, hp =>
    have h0 : Py.idx [val elen k] 0 = some (val elen k) := by simpa using idx_nat [val elen k] 0 (by simp)
    refine ⟨?_, by simpa using hP⟩
    cases hv : chainLen? elen k with
    | some L =>
      have hv' : val elen k = some (L, k.id) := by simp [val, hv]
      have hvn : val elen (.node i [k]) = some (L + elen k.id, i) := by simp [val, chainLen?, hv, Rose.id]
      rw [hvn]
      rw [hv'] at h0
      simp only [tip_leave, tip_leave.body, Py.seq, Py.bind, Py.skip, Py.len, List.map_cons, List.map_nil, List.length_cons, List.length_nil, hv', h0]
      simp [Py.finish, h0]
    | none =>
      have hv' : val elen k = none := by simp [val, hv]
      have hb : brOf elen thre i k = none := by simp [brOf, hv]
      have hvn : val elen (.node i [k]) = none := by simp [val, chainLen?, hv]
      rw [hvn]
      rw [hv'] at h0
      simp only [List.map_cons, List.map_nil, List.filterMap_cons, hb, List.filterMap_nil, List.foldl_nil, hv'] at e hc
      simp only [tip_leave, tip_leave.body, Py.seq, Py.bind, Py.skip, Py.len, List.map_cons, List.map_nil, List.length_cons, List.length_nil, hv', h0]
      simp [e, Py.finish, hc, h0]
  | k1 :: k2 :: rest, _, _, _, e, hc, hp =>
    refine ⟨?_, by have := hp; rw [hc] at this; simpa using this⟩
    have hl0 : ¬ (((rest.length + 1 + 1 : Nat) : Int) = 0) := by omega
    have hl1 : ¬ (((rest.length + 1 + 1 : Nat) : Int) = 1) := by omega
    have hvn : val elen (.node i (k1 :: k2 :: rest)) = none := by simp [val, chainLen?]
    rw [hvn]
    simp only [tip_leave, tip_leave.body, Py.seq, Py.bind, Py.skip, Py.len, List.map_cons, List.length_cons, List.length_map, hl0, hl1,
      decide_false, Bool.false_eq_true, if_false] at e ⊢
    rw [e]
    simp [Py.finish, hc]
/-- the closure the generated `__call__` hands to the traversal -/
def leaveFn (G : Nat) : S → Int → List (Option (Int × Int)) → Option (S × Option (Int × Int)) :=
  fun s n ch => tip_leave cbsL (fun _ c => elen c) G (rangeI N) pids thre n ch s

mutual
theorem spec_tipLeave (hcb : CbOk cbsL eff Pst N) (G : Nat) : ∀ (r : Rose) (pv : Option Unit) (s : S),
    Agrees (tableKids (rangeI N) pids) r → (∀ j ∈ r.ids, 0 ≤ j ∧ j < (N : Int)) → r.size ≤ G → Pst s →
    spec (wrapE Py.noEnter) (wrapL (leaveFn cbsL N pids elen thre G)) r pv (some s)
      = (some ((tipBranches elen thre r).foldl eff s), val elen r) ∧ Pst ((tipBranches elen thre r).foldl eff s)
  | .node i ks, pv, s, hA, hin, hs, hP => by
    have hA' := hA
    simp only [Agrees] at hA'
    have hs' : sizeL ks ≤ G := by simp only [Rose.size] at hs; omega
    obtain ⟨e1, p1⟩ := specRev_tipLeave hcb G ks () s hA'.2 (fun j hj => hin j (by simp [Rose.ids, hj])) hs' hP
    obtain ⟨e2, p2⟩ := tipLeave_node cbsL eff Pst N pids elen thre hcb i G ks _ hA hin hs p1
    refine ⟨?_, by simpa [tipBranches] using p2⟩
    simp only [spec, wrapE, Py.noEnter, e1, wrapL, leaveFn, e2, tipBranches, List.foldl_append]
theorem specRev_tipLeave (hcb : CbOk cbsL eff Pst N) (G : Nat) : ∀ (ks : List Rose) (cur : Unit) (s : S),
    AgreesL (tableKids (rangeI N) pids) ks → (∀ j ∈ idsL ks, 0 ≤ j ∧ j < (N : Int)) → sizeL ks ≤ G → Pst s →
    specRev (wrapE Py.noEnter) (wrapL (leaveFn cbsL N pids elen thre G)) ks cur (some s)
      = (some ((tipBranchesRev elen thre ks).foldl eff s), ks.map (val elen)) ∧ Pst ((tipBranchesRev elen thre ks).foldl eff s)
  | [], _, s, _, _, _, hP => by simp [specRev, tipBranchesRev, hP]
  | r :: rs, cur, s, hA, hin, hs, hP => by
    simp only [AgreesL] at hA
    simp only [sizeL] at hs
    obtain ⟨e1, p1⟩ := specRev_tipLeave hcb G rs cur s hA.2 (fun j hj => hin j (by simp [idsL, hj])) (by omega) hP
    obtain ⟨e2, p2⟩ := spec_tipLeave hcb G r (some cur) _ hA.1 (fun j hj => hin j (by simp [idsL, hj])) (by omega) p1
    refine ⟨?_, by simpa [tipBranchesRev] using p2⟩
    simp only [specRev, e1, e2, tipBranchesRev, List.foldl_append, List.map_cons]
end
end leave
/-! ## the callback list of `__call__`: the user's callbacks, then the recording `lambda` -/
section top
variable {σ : Type} [Inhabited σ]

/-- total user callbacks as callables that never raise -/
def tot (ucbs : List (σ → List Int → σ)) : List (σ → List Int → Option σ) := ucbs.map fun cb s br => some (cb s br)
/-- `for cb in callbacks: cb(br)` on the user's callbacks -/
def callUser (ucbs : List (σ → List Int → σ)) (c : σ) (br : List Int) : σ := ucbs.foldl (fun c cb => cb c br) c
/-- effect of one reported branch on (user state, (removals, id column)) -/
def effTop (ucbs : List (σ → List Int → σ)) : σ × (List Int × List Int) → List Int → σ × (List Int × List Int) :=
  fun s br => (callUser ucbs s.1 br, (s.2.1 ++ [br.getD 1 0], s.2.2))
def PstTop (N : Nat) (s : σ × (List Int × List Int)) : Prop := s.2.2 = rangeI N ∧ ∀ i ∈ s.2.1, 0 ≤ i ∧ i.toNat < N

theorem callAll_append {S A : Type} : ∀ (l1 l2 : List (S → A → Option S)) (s : S) (a : A),
    callAll (l1 ++ l2) s a = (callAll l1 s a).bind fun s' => callAll l2 s' a
  | [], l2, s, a => by simp [callAll]
  | cb :: l1, l2, s, a => by
    simp only [List.cons_append, callAll]
    cases cb s a with
    | none => simp
    | some s' => simpa using callAll_append l1 l2 s' a

theorem callAll_lift {C : Type} : ∀ (ucbs : List (σ → List Int → σ)) (s : σ × C) (br : List Int),
    callAll (liftCbs (tot ucbs)) s br = some (callUser ucbs s.1 br, s.2)
  | [], s, br => by simp [tot, liftCbs, callAll, callUser]
  | cb :: ucbs, s, br => by
    have := callAll_lift ucbs (cb s.1 br, s.2) br
    simp only [tot, liftCbs, List.map_cons, callAll, Option.map_some, Option.bind_some, callUser, List.foldl_cons] at this ⊢
    exact this

theorem tip_record_eq (rem : List Int) (N : Nat) (a x : Int) (rest : List Int) (h0 : 0 ≤ x) (h1 : x < (N : Int)) :
    tip_record (rem, rangeI N) (a :: x :: rest) = some ((rem ++ [x], rangeI N), ()) := by
  have hb : Py.idx (a :: x :: rest) 1 = some x := by simpa using idx_nat (a :: x :: rest) 1 (by simp)
  simp [tip_record, tip_record.body, Py.bind, hb, RefineNode.idx_rangeI N x h0 h1, Py.finish]

theorem cbOk_top (ucbs : List (σ → List Int → σ)) (N : Nat) :
    CbOk (liftCbs (tot ucbs) ++ [closureCb tip_record]) (effTop ucbs) (PstTop N) N := by
  intro s a x rest hP h0 h1
  obtain ⟨c, rem, ids⟩ := s
  obtain ⟨hi, hr⟩ := hP
  change ids = rangeI N at hi
  change ∀ i ∈ rem, 0 ≤ i ∧ i.toNat < N at hr
  subst hi
  refine ⟨?_, rfl, ?_⟩
  · rw [callAll_append, callAll_lift]
    simp [callAll, closureCb, tip_record_eq rem N a x rest h0 h1, effTop]
  · intro i hi
    simp only [effTop, List.mem_append, List.mem_singleton] at hi
    rcases hi with hi | hi
    · exact hr i hi
    · simp only [List.getD_eq_getElem?_getD, List.getElem?_cons_succ, List.getElem?_cons_zero, Option.getD_some] at hi
      subst hi; omega

theorem foldl_effTop (ucbs : List (σ → List Int → σ)) : ∀ (brs : List (List Int)) (c : σ) (rem ids : List Int),
    brs.foldl (effTop ucbs) (c, (rem, ids)) = (brs.foldl (callUser ucbs) c, (rem ++ brs.map (fun b => b.getD 1 0), ids))
  | [], c, rem, ids => by simp
  | b :: brs, c, rem, ids => by
    rw [List.foldl_cons]
    show brs.foldl (effTop ucbs) (callUser ucbs c b, (rem ++ [b.getD 1 0], ids)) = _
    rw [foldl_effTop ucbs brs]
    simp
end top

/-! ## the removed nodes are the second nodes of the reported branches -/
theorem brOf_second (elen : Int → Int) (thre : Int) (i : Int) (ks : List Rose) :
    (ks.filterMap (brOf elen thre i)).map (fun b => b.getD 1 0)
      = ks.filterMap (fun k => match chainLen? elen k with
          | some L => if L + elen k.id > thre then none else some k.id
          | none => none) := by
  rw [List.map_filterMap]
  congr 1
  funext k
  obtain ⟨rest, hr⟩ := firstPath_head k
  simp only [brOf]
  cases chainLen? elen k with
  | none => simp
  | some L => by_cases hg : L + elen k.id > thre <;> simp [hg, hr]

mutual
theorem tipRemoved_eq (elen : Int → Int) (thre : Int) : ∀ r : Rose,
    tipRemoved elen thre r = (tipBranches elen thre r).map (fun b => b.getD 1 0)
  | .node i ks => by
    simp only [tipRemoved, tipBranches, List.map_append]
    rw [tipRemovedRev_eq elen thre ks]
    by_cases h2 : ks.length ≥ 2
    · simp only [h2, if_true, brOf_second]
      rfl
    · simp [h2]
theorem tipRemovedRev_eq (elen : Int → Int) (thre : Int) : ∀ ks : List Rose,
    tipRemovedRev elen thre ks = (tipBranchesRev elen thre ks).map (fun b => b.getD 1 0)
  | [] => by simp [tipRemovedRev, tipBranchesRev]
  | r :: rs => by
    simp only [tipRemovedRev, tipBranchesRev, List.map_append]
    rw [tipRemovedRev_eq elen thre rs, tipRemoved_eq elen thre r]
end

/-- **`CutShortTipBranch.__call__` as translated IS the model `Sub.cutShortTip`** (with `_leave` handed to the generated traversal, the
recording `lambda` on the callback list and the generated `to_subtree`): on every tree table, for every threshold, every edge-length
function and every list of total stateful user callbacks (what `__init__` put on `self.callbacks`), nothing raises, the result is the model's
table — `C06.cutShortTip_removed` characterises the removed nodes as `tipRemoved` — and the user callbacks have been called, every one in
list order, exactly once per reported branch `[furcation, child, …, tip]`, in the order the traversal leaves the furcations
(`tipBranches`; `tipRemoved_eq`: the removed seeds are exactly the second nodes of these branches).  Fuel `2·|tree| + 1` suffices. -/
theorem cutShortTip_refines {σ : Type} [Inhabited σ] (pids : List Int) (r : Rose) (h : IsTree r pids) (elen : Int → Int) (thre : Int)
    (ucbs : List (σ → List Int → σ)) (s0 : σ) (F : Nat) :
    cut_short_tip (tot ucbs) (fun _ c => elen c) (2 * r.size + F + 1) (rangeI pids.length) pids thre s0 =
      (cutShortTip pids elen thre).map (fun t =>
        ((tipBranches elen thre r).foldl (callUser ucbs) s0, ((Py.range (t.mapping.length : Int), t.newPid), t.mapping))) := by
  have hin : ∀ j ∈ r.ids, 0 ≤ j ∧ j < (pids.length : Int) := fun j hj => by
    have := (isTree_mem h j).1 hj; omega
  have hP0 : PstTop pids.length (s0, (([] : List Int), rangeI pids.length)) := ⟨rfl, by simp⟩
  obtain ⟨e1, p1⟩ := spec_tipLeave (liftCbs (tot ucbs) ++ [closureCb tip_record]) (effTop ucbs) (PstTop pids.length) pids.length pids elen thre
    (cbOk_top ucbs pids.length) (2 * r.size + F + 1) r none (s0, ([], rangeI pids.length)) h.1.1 hin (by omega) hP0
  have hcall := RefineTrav.traverse_refines (wrapE Py.noEnter)
    (wrapL (leaveFn (liftCbs (tot ucbs) ++ [closureCb tip_record]) pids.length pids elen thre (2 * r.size + F + 1)))
    (rangeI pids.length) pids r h.1 (some (s0, (([] : List Int), rangeI pids.length))) F
  rw [e1, h.2.2.1, foldl_effTop] at hcall
  rw [foldl_effTop] at p1
  simp only [List.nil_append, ← tipRemoved_eq] at hcall p1
  have hsub := RefineCut.toSubtree_refines pids r h (tipRemoved elen thre r) p1.2 F
  rw [cutShortTip_removed pids r h]
  unfold leaveFn at hcall
  simp only [cut_short_tip, cut_short_tip.body, Py.seq, Py.bind, Py.skip, hcall, unwrapCb, hsub]
  cases toSubtree pids (tipRemoved elen thre r) <;> simp [Py.finish]

/-! ## `to_subtree_impl`: every column gathered by the kept rows -/
section impl
variable {A Src Nm : Type} [Inhabited A] [Inhabited Src] [Inhabited Nm]

/-- **`to_subtree_impl` as translated, on EVERY input** (failures included): it is `to_sub_topology` followed by the gather of every column
through the returned mapping (a mapping entry outside a column raises); the `id` / `pid` columns of the result are the new ids / new
parents, `source` and `names` are handed on, `out_mapping` (a list) is cleared and filled with the mapping, the input columns are returned
as they were -/
theorem toSubtreeImpl_eq (ids pids types : List Int) (xs : List A) (src : Src) (nm : Nm) (sub : List Int × List Int) (out0 : List Int) :
    to_subtree_impl ids pids types xs src nm sub out0 =
      (to_sub_topology sub).bind fun r => (Py.take ids r.2).bind fun _ => (Py.take pids r.2).bind fun _ =>
        (Py.take types r.2).bind fun ty => (Py.take xs r.2).map fun x =>
          (r.2, ids, pids, types, xs, (Py.len r.1.1, (r.1.1, r.1.2, ty, x), src, nm)) := by
  simp only [to_subtree_impl, to_subtree_impl.body, Py.seq, Py.bind]
  cases to_sub_topology sub with
  | none => simp [Py.finish]
  | some r =>
    simp only [Option.bind_some]
    cases Py.take ids r.2 <;> simp only [Option.bind_none, Option.bind_some, Py.finish, Option.map_none]
    cases Py.take pids r.2 <;> simp only [Option.bind_none, Option.bind_some, Py.finish, Option.map_none]
    cases Py.take types r.2 <;> simp only [Option.bind_none, Option.bind_some, Py.finish, Option.map_none]
    cases Py.take xs r.2 <;> simp [Py.finish]

/-- numpy fancy indexing `col[mapping]` with every index inside the column is the model's `takeRows` -/
theorem take_inrange {α : Type} [Inhabited α] (col : List α) : ∀ (m : List Int), (∀ i ∈ m, 0 ≤ i ∧ i.toNat < col.length) →
    Py.take col m = some (takeRows col m)
  | [], _ => by simp [Py.take, takeRows]
  | i :: m, h => by
    have hi := h i List.mem_cons_self
    have ih := take_inrange col m (fun j hj => h j (List.mem_cons_of_mem _ hj))
    have e : Py.idx col i = some (col.getD i.toNat default) := by
      obtain ⟨k, rfl⟩ := Int.eq_ofNat_of_zero_le hi.1
      have hk : k < col.length := by simpa using hi.2
      rw [idx_nat _ _ hk]
      simp [List.getD_eq_getElem?_getD, List.getElem?_eq_getElem hk]
    simp only [Py.take, takeRows, List.mapM_cons, e, List.map_cons] at ih ⊢
    simp [ih]

/-- **`to_subtree_impl` as translated IS compaction + attribute gather of the model**: for a marked topology `(subId, subPid)` over a tree
whose columns all have `N` rows (kept ids distinct and inside the table), the result is the model's `toSubTopology` (`KeyError` exactly
when the model fails): ids `0..k−1`, the model's new parents, EVERY further column the input column gathered at the kept rows in order
(`takeRows`, characterised by `C06.attrs_preserved`), `out_mapping` = the new→old mapping, `source` / `names` handed on, and the input
columns are unchanged -/
theorem toSubtreeImpl_refines (N : Nat) (ids pids types : List Int) (xs : List A) (src : Src) (nm : Nm) (subId subPid out0 : List Int)
    (h1 : ids.length = N) (h2 : pids.length = N) (h3 : types.length = N) (h4 : xs.length = N)
    (hl : subId.length = subPid.length)
    (hnd : (((List.zip subId subPid).filter (fun ip => !decide (ip.1 = -2))).map (·.1)).Nodup)
    (hin : ∀ i ∈ subId, i ≠ REMOVAL → 0 ≤ i ∧ i.toNat < N) :
    to_subtree_impl ids pids types xs src nm (subId, subPid) out0 =
      (toSubTopology subId subPid).map fun r =>
        (r.mapping, ids, pids, types, xs,
          ((r.mapping.length : Int), (Py.range (r.mapping.length : Int), r.newPid, takeRows types r.mapping, takeRows xs r.mapping), src, nm)) := by
  rw [toSubtreeImpl_eq, RefineSub.toSubTopology_refines subId subPid hl hnd]
  cases hr : toSubTopology subId subPid with
  | none => simp
  | some r =>
    have hm := (C06.toSubTopology_spec subId subPid hl r hr).1
    have hmem : ∀ i ∈ r.mapping, 0 ≤ i ∧ i.toNat < N := by
      intro i hi
      rw [hm, List.mem_filter] at hi
      exact hin i hi.1 (by simpa using hi.2)
    simp only [Option.map_some, Option.bind_some]
    rw [take_inrange ids r.mapping (by rw [h1]; exact hmem), take_inrange pids r.mapping (by rw [h2]; exact hmem),
      take_inrange types r.mapping (by rw [h3]; exact hmem), take_inrange xs r.mapping (by rw [h4]; exact hmem)]
    simp [Py.len, Py.range]
end impl

/-! ## `get_subtree_impl` / `get_subtree` on all columns -/
section getsub
variable {A Src Nm : Type} [Inhabited A] [Inhabited Src] [Inhabited Nm]

/-- the gather of every column through a topology-level result `((new ids, new parents), mapping)` -/
def gatherBy (ids pids types : List Int) (xs : List A) (src : Src) (nm : Nm) (r : (List Int × List Int) × List Int) :
    Option (List Int × List Int × List Int × List Int × List A × (Int × ((List Int × List Int × List Int × List A) × (Src × Nm)))) :=
  (Py.take ids r.2).bind fun _ => (Py.take pids r.2).bind fun _ =>
    (Py.take types r.2).bind fun ty => (Py.take xs r.2).map fun x =>
      (r.2, ids, pids, types, xs, (Py.len r.1.1, (r.1.1, r.1.2, ty, x), src, nm))

/-- **`get_subtree_impl` on all columns factors through the topology-level translation** (the one `C06.generated_getSubtree_eq_model` is
about), on EVERY input: the same traversal / gather of parents / root reset, then the gather of every column through the mapping -/
theorem getSubtreeImplTree_eq (fuel : Nat) (ids pids types : List Int) (xs : List A) (src : Src) (nm : Nm) (n : Int) (out0 : List Int) :
    get_subtree_impl_tree fuel ids pids types xs src nm n out0 =
      (get_subtree_impl fuel ids pids n).bind (gatherBy ids pids types xs src nm) := by
  simp only [get_subtree_impl_tree, get_subtree_impl_tree.body, get_subtree_impl, get_subtree_impl.body, Py.seq, Py.bind, toSubtreeImpl_eq, gatherBy]
  cases Py.unwrapCb (traverse_dfs (Py.wrapE subtree_collect) (Py.wrapL Py.noLeave) fuel (ids, pids) n (some [])) with
  | none => simp [Py.finish]
  | some t0 =>
    simp only
    cases Py.take pids t0.1 with
    | none => simp [Py.finish]
    | some t1 =>
      simp only
      cases Py.setIdx t1 0 (-1) with
      | none => simp [Py.finish]
      | some t2 =>
        simp only
        cases to_sub_topology (t0.1, t2) with
        | none => simp [Py.finish]
        | some r =>
          cases h1 : Py.take ids r.2 <;> cases h2 : Py.take pids r.2 <;> cases h3 : Py.take types r.2 <;> cases h4 : Py.take xs r.2 <;>
            simp [Py.finish, gatherBy, h1, h2, h3, h4]

/-- `get_subtree` is `get_subtree_impl` handed to the `Tree` constructor: the same value, on every input -/
theorem getSubtreeTree_eq (fuel : Nat) (ids pids types : List Int) (xs : List A) (src : Src) (nm : Nm) (n : Int) (out0 : List Int) :
    get_subtree_tree fuel ids pids types xs src nm n out0 = get_subtree_impl_tree fuel ids pids types xs src nm n out0 := by
  simp only [get_subtree_tree, get_subtree_tree.body, Py.seq, Py.bind]
  cases get_subtree_impl_tree fuel ids pids types xs src nm n out0 with
  | none => simp [Py.finish]
  | some r => simp [Py.finish]

/-- **`get_subtree` as translated, on all columns, IS the model**: on a tree object whose columns all have `|pids|` rows, at the root of any
subtree `s` of the table, the result is the model's `getSubtree` (characterised by `C06.subtree_nodes`: precisely that node and its
descendants, in enter order): ids `0..k−1`, the model's parents, every further column gathered at the kept rows in order, `out_mapping` =
the new→old mapping, `source` / `names` handed on, input columns unchanged -/
theorem getSubtreeTree_refines (pids types : List Int) (xs : List A) (src : Src) (nm : Nm) (s : Rose)
    (h : Represents s (rangeI pids.length) pids) (hin : ∀ i ∈ s.ids, 0 ≤ i ∧ i.toNat < pids.length)
    (h3 : types.length = pids.length) (h4 : xs.length = pids.length) (out0 : List Int) (F : Nat) :
    get_subtree_tree (2 * s.size + F + 1) (rangeI pids.length) pids types xs src nm s.id out0 =
      (getSubtree pids s.id).map fun r =>
        (r.mapping, rangeI pids.length, pids, types, xs,
          ((r.mapping.length : Int), (Py.range (r.mapping.length : Int), r.newPid, takeRows types r.mapping, takeRows xs r.mapping), src, nm)) := by
  rw [getSubtreeTree_eq, getSubtreeImplTree_eq, C06.generated_getSubtree_eq_model pids s h hin F]
  obtain ⟨res, hr, hm, hperm, _⟩ := C06.subtree_nodes pids s h hin
  have hmem : ∀ i ∈ res.mapping, 0 ≤ i ∧ i.toNat < pids.length := fun i hi => hin i (hperm.mem_iff.1 hi)
  rw [hr]
  simp only [Option.map_some, Option.bind_some, gatherBy]
  rw [take_inrange (rangeI pids.length) res.mapping (by simpa [rangeI] using hmem), take_inrange pids res.mapping hmem,
    take_inrange types res.mapping (by rw [h3]; exact hmem), take_inrange xs res.mapping (by rw [h4]; exact hmem)]
  simp [Py.len, Py.range]
end getsub

/-! ## `to_subtree` on all columns -/
section tosub
variable {A Src Nm : Type} [Inhabited A] [Inhabited Src] [Inhabited Nm]

theorem for1T_loop : ∀ (rm : List Int) (v : to_subtree_tree.V A Src Nm),
    (match RefineCut.markAll v.new_ids rm with
     | some l => ∃ i', forEach to_subtree_tree.for1 rm v = .next { v with new_ids := l, i := i' }
     | none => forEach to_subtree_tree.for1 rm v = .err) := by
  intro rm
  induction rm with
  | nil => intro v; exact ⟨v.i, by simp [forEach]⟩
  | cons i is ih =>
    intro v
    simp only [RefineCut.markAll]
    cases hs : setIdx v.new_ids i (-2) with
    | none => simp [forEach, to_subtree_tree.for1, Py.bind, hs]
    | some l' =>
      have := ih { v with i := i, new_ids := l' }
      simp only [Option.bind_some]
      cases hm : RefineCut.markAll l' is with
      | none =>
        simp only [hm] at this
        simp only [forEach, to_subtree_tree.for1, Py.bind, hs]
        exact this
      | some l'' =>
        simp only [hm] at this
        obtain ⟨i', e⟩ := this
        refine ⟨i', ?_⟩
        simp only [forEach, to_subtree_tree.for1, Py.bind, hs]
        rw [e]

/-- **`to_subtree` on all columns factors through the topology-level translation** (the one `RefineCut.toSubtree_refines` is about), on
EVERY input: the same marking loop and `propagate_removal`, then `to_subtree_impl` = compaction + the gather of every column -/
theorem toSubtreeTree_eq (fuel : Nat) (ids pids types : List Int) (xs : List A) (src : Src) (nm : Nm) (rm out0 : List Int) :
    to_subtree_tree fuel ids pids types xs src nm rm out0 =
      (to_subtree fuel ids pids rm).bind (gatherBy ids pids types xs src nm) := by
  have hT := for1T_loop rm { (default : to_subtree_tree.V A Src Nm) with ids := ids, pids := pids, types := types, xs := xs, t_source := src, t_names := nm, removals := rm, out_mapping := out0, new_ids := ids }
  have hC := RefineCut.for1_loop rm { (default : to_subtree.V) with tids := ids, tpids := pids, removals := rm, new_ids := ids }
  simp only [to_subtree_tree, to_subtree_tree.body, to_subtree, to_subtree.body, Py.seq, Py.bind, toSubtreeImpl_eq]
  cases hm : RefineCut.markAll ids rm with
  | none =>
    simp only [hm] at hT hC
    simp [hT, hC, Py.finish]
  | some l =>
    simp only [hm] at hT hC
    obtain ⟨i1, e1⟩ := hT
    obtain ⟨i2, e2⟩ := hC
    simp only [e1, e2]
    cases propagate_removal fuel (l, pids) with
    | none => simp [Py.finish]
    | some sub =>
      simp only
      cases to_sub_topology sub with
      | none => simp [Py.finish]
      | some r =>
        cases h1 : Py.take ids r.2 <;> cases h2 : Py.take pids r.2 <;> cases h3 : Py.take types r.2 <;> cases h4 : Py.take xs r.2 <;>
          simp [Py.finish, gatherBy, h1, h2, h3, h4]

/-- **`to_subtree` as translated, on all columns, IS the model**: on every tree table whose columns all have `|pids|` rows and every list
of node ids, the result is the model's `toSubtree` (characterised by `C06.toSubtree_kept`: precisely the nodes neither removed nor below
a removed node): ids `0..k−1`, the model's parents, every further column gathered at the kept rows in order, `out_mapping` = the new→old
mapping, `source` / `names` handed on, input columns unchanged -/
theorem toSubtreeTree_refines (pids types : List Int) (xs : List A) (src : Src) (nm : Nm) (r : Rose) (h : IsTree r pids) (rm : List Int)
    (hrm : ∀ i ∈ rm, 0 ≤ i ∧ i.toNat < pids.length) (h3 : types.length = pids.length) (h4 : xs.length = pids.length) (out0 : List Int) (F : Nat) :
    to_subtree_tree (2 * r.size + F + 1) (rangeI pids.length) pids types xs src nm rm out0 =
      (toSubtree pids rm).map fun t =>
        (t.mapping, rangeI pids.length, pids, types, xs,
          ((t.mapping.length : Int), (Py.range (t.mapping.length : Int), t.newPid, takeRows types t.mapping, takeRows xs t.mapping), src, nm)) := by
  rw [toSubtreeTree_eq, RefineCut.toSubtree_refines pids r h rm hrm F]
  obtain ⟨res, hr, hmap, _, _⟩ := C06.toSubtree_kept pids r h rm
  have hmem : ∀ i ∈ res.mapping, 0 ≤ i ∧ i.toNat < pids.length := by
    intro i hi
    rw [hmap] at hi
    exact (C06.mem_rangeI pids.length i).1 (List.mem_filter.1 hi).1
  rw [hr]
  simp only [Option.map_some, Option.bind_some, gatherBy]
  rw [take_inrange (rangeI pids.length) res.mapping (by simpa [rangeI] using hmem), take_inrange pids res.mapping hmem,
    take_inrange types res.mapping (by rw [h3]; exact hmem), take_inrange xs res.mapping (by rw [h4]; exact hmem)]
  simp [Py.len, Py.range]
end tosub

/-! ## `to_sub_tree` (deprecated wrapper) on all columns -/
section dep
variable {A Src Nm : Type} [Inhabited A] [Inhabited Src] [Inhabited Nm]

/-- `id_map = {}; for i, idx in enumerate(id_map_arr): id_map[idx] = i`: the old→new dictionary of a new→old mapping -/
def idMapOf (m : List Int) : Py.Dict Int Int := (Py.enumerate m).foldl (fun d p => Py.Dict.set d p.2 p.1) []

theorem depFor1_loop : ∀ (l : List (Int × Int)) (v : to_sub_tree.V A Src Nm),
    ∃ i idx, forEach to_sub_tree.for1 l v = .next { v with id_map := l.foldl (fun d p => Py.Dict.set d p.2 p.1) v.id_map, i := i, idx := idx } := by
  intro l
  induction l with
  | nil => intro v; exact ⟨v.i, v.idx, by simp [forEach]⟩
  | cons p ps ih =>
    intro v
    obtain ⟨i, idx, e⟩ := ih { v with i := p.1, idx := p.2, id_map := Py.Dict.set v.id_map p.2 p.1 }
    refine ⟨i, idx, ?_⟩
    simp only [forEach, to_sub_tree.for1, List.foldl_cons]
    rw [e]

/-- **`to_sub_tree` as translated, on EVERY input**: `propagate_removal`, compaction, the gather of every column through the mapping (the
same as `to_subtree_impl`), the `Tree` of the result, and the old→new dictionary built from the mapping; the input columns are unchanged -/
theorem toSubTree_eq (fuel : Nat) (ids pids types : List Int) (xs : List A) (src : Src) (nm : Nm) (sub : List Int × List Int) :
    to_sub_tree fuel ids pids types xs src nm sub =
      (propagate_removal fuel sub).bind fun s => (to_sub_topology s).bind fun r =>
        (gatherBy ids pids types xs src nm r).map fun g => (ids, pids, types, xs, (g.2.2.2.2.2, idMapOf r.2)) := by
  simp only [to_sub_tree, to_sub_tree.body, Py.seq, Py.bind]
  cases propagate_removal fuel sub with
  | none => simp [Py.finish]
  | some s =>
    simp only [Option.bind_some]
    cases to_sub_topology s with
    | none => simp [Py.finish]
    | some r =>
      simp only [Option.bind_some]
      cases h1 : Py.take ids r.2 <;> cases h2 : Py.take pids r.2 <;> cases h3 : Py.take types r.2 <;> cases h4 : Py.take xs r.2 <;>
        simp only [Py.finish, gatherBy, h1, h2, h3, h4, Option.bind_none, Option.bind_some, Option.map_none, Option.map_some]
      rename_i a1 a2 a3 a4
      obtain ⟨i, idx, e⟩ := depFor1_loop (A := A) (Src := Src) (Nm := Nm) (Py.enumerate r.2)
        { (default : to_sub_tree.V A Src Nm) with ids := ids, pids := pids, types := types, xs := xs, t_source := src, t_names := nm, sub := s, u2_ := r.1, u3_ := r.2, new_id := r.1.1, new_pid := r.1.2, id_map_arr := r.2, n_nodes := Py.len r.1.1, nids := r.1.1, npids := r.1.2, ntypes := a3, nxs := a4, subtree := (Py.len r.1.1, (r.1.1, r.1.2, a3, a4), src, nm), id_map := [] }
      simp only at e
      simp only [e, idMapOf]
      rfl
/-- the topology-level `to_subtree` is: mark, propagate, compact -/
theorem toSubtree_unfold (fuel : Nat) (ids pids rm : List Int) :
    to_subtree fuel ids pids rm =
      (RefineCut.markAll ids rm).bind fun l => (propagate_removal fuel (l, pids)).bind to_sub_topology := by
  have hC := RefineCut.for1_loop rm { (default : to_subtree.V) with tids := ids, tpids := pids, removals := rm, new_ids := ids }
  simp only [to_subtree, to_subtree.body, Py.seq, Py.bind]
  cases hm : RefineCut.markAll ids rm with
  | none =>
    simp only [hm] at hC
    simp [hC, Py.finish]
  | some l =>
    simp only [hm] at hC
    obtain ⟨i2, e2⟩ := hC
    simp only [e2, Option.bind_some]
    cases propagate_removal fuel (l, pids) with
    | none => simp [Py.finish]
    | some sub =>
      simp only [Option.bind_some]
      cases to_sub_topology sub <;> simp [Py.finish]

/-- **`to_sub_tree` as translated IS the model** on a tree object and the id column marked at the node ids `rm` (not yet propagated: the
wrapper propagates itself): the model's `toSubtree` (precisely the nodes neither removed nor below a removed node), every further column
gathered at the kept rows, and the old→new dictionary of the mapping -/
theorem toSubTree_refines (pids types : List Int) (xs : List A) (src : Src) (nm : Nm) (r : Rose) (h : IsTree r pids) (rm l : List Int)
    (hrm : ∀ i ∈ rm, 0 ≤ i ∧ i.toNat < pids.length) (hl : RefineCut.markAll (rangeI pids.length) rm = some l)
    (h3 : types.length = pids.length) (h4 : xs.length = pids.length) (F : Nat) :
    to_sub_tree (2 * r.size + F + 1) (rangeI pids.length) pids types xs src nm (l, pids) =
      (toSubtree pids rm).map fun t =>
        (rangeI pids.length, pids, types, xs,
          (((t.mapping.length : Int), (Py.range (t.mapping.length : Int), t.newPid, takeRows types t.mapping, takeRows xs t.mapping), src, nm),
           idMapOf t.mapping)) := by
  have hsub := RefineCut.toSubtree_refines pids r h rm hrm F
  rw [toSubtree_unfold, hl, Option.bind_some] at hsub
  rw [toSubTree_eq, ← Option.bind_assoc, hsub]
  obtain ⟨res, hr, hmap, _, _⟩ := C06.toSubtree_kept pids r h rm
  have hmem : ∀ i ∈ res.mapping, 0 ≤ i ∧ i.toNat < pids.length := by
    intro i hi
    rw [hmap] at hi
    exact (C06.mem_rangeI pids.length i).1 (List.mem_filter.1 hi).1
  rw [hr]
  simp only [Option.map_some, Option.bind_some, gatherBy]
  rw [take_inrange (rangeI pids.length) res.mapping (by simpa [rangeI] using hmem), take_inrange pids res.mapping hmem,
    take_inrange types res.mapping (by rw [h3]; exact hmem), take_inrange xs res.mapping (by rw [h4]; exact hmem)]
  simp [Py.len, Py.range]
end dep

end RefineShortTip
