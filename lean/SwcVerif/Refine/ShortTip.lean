import SwcVerif.Gen.AlgoShortTip
import SwcVerif.Refine.Cut
import SwcVerif.Refine.Node
/-! Refinement for C06 (T23 `shorttip`): the definitions GENERATED from `swcgeom/transforms/tree.py::CutShortTipBranch._leave` and
`__call__` (with the recording `lambda` it puts on the callback list) equal the model `Sub.cutShortTip` on every tree table, for every
threshold and every list of (total, stateful) user callbacks; the user callbacks are called once per removed branch, in traversal order,
with the branch `[furcation, child, …, tip]`. -/
namespace RefineShortTip
open Gen.Algo Sub Py Trav C06

/-- the path the `while` loop of `_leave` walks from a node: the node, its FIRST child, and so on down to a tip -/
def firstPath : Rose → List Int
  | .node a [] => [a]
  | .node a (k :: _) => a :: firstPath k

section walk
variable {S : Type} [Inhabited S] (cbsL : List (S → List Int → Option S)) (dist : Int → Int → Int)

theorem while_walk (N : Nat) (pids : List Int) : ∀ (fuel : Nat) (k : Rose) (v : tip_leave.V S Int),
    Agrees (tableKids (rangeI N) pids) k → (∀ j ∈ k.ids, 0 ≤ j ∧ j < (N : Int)) → k.size < fuel →
    v.ids = rangeI N → v.pids = pids → v.child = some k.id →
    ∃ cc, whileF (tip_leave.while1_cond cbsL dist) (tip_leave.while1_body cbsL dist) fuel v
      = .next { v with path := v.path ++ firstPath k, child := none, cc := cc }
  | 0, k, v, _, _, hs, _, _, _ => by omega
  | fuel + 1, .node a ks, v, hA, hin, hs, hi, hp, hc => by
    have ha := hin a (by simp [Rose.ids])
    have hkids : node_children v.ids v.pids a = some (ks.map Rose.id) := by
      rw [hi, hp, RefineNode.node_children_spec N pids a ha.1 ha.2]
      simp only [Agrees] at hA
      rw [hA.1]
    have hia : Py.idx v.ids a = some a := by rw [hi]; exact RefineNode.idx_rangeI N a ha.1 ha.2
    simp only [Rose.id] at hc
    cases ks with
    | nil =>
      cases fuel with
      | zero => simp [Rose.size, sizeL] at hs
      | succ f =>
        refine ⟨[], ?_⟩
        simp [whileF, tip_leave.while1_cond, tip_leave.while1_body, Py.seq, Py.bind, hc, hia, hkids, firstPath, Py.len]
    | cons k' rest =>
      simp only [Agrees, AgreesL] at hA
      have hs' : k'.size < fuel := by simp only [Rose.size, sizeL] at hs; omega
      have hin' : ∀ j ∈ k'.ids, 0 ≤ j ∧ j < (N : Int) := fun j hj => hin j (by simp [Rose.ids, idsL, hj])
      obtain ⟨cc, e⟩ := while_walk N pids fuel k'
        { v with path := v.path ++ [a], cc := (k' :: rest).map Rose.id, child := some k'.id } hA.2.1 hin' hs' hi hp rfl
      refine ⟨cc, ?_⟩
      have hpos : (((rest.map Rose.id).length + 1 : Nat) : Int) > 0 := by omega
      have hidx0 : Py.idx (k'.id :: rest.map Rose.id) 0 = some k'.id := by
        have := idx_nat (k'.id :: rest.map Rose.id) 0 (by simp)
        simpa using this
      have hcond : tip_leave.while1_cond cbsL dist v = some true := by simp [tip_leave.while1_cond, hc]
      have hb : tip_leave.while1_body cbsL dist v = .next
          { v with path := v.path ++ [a], cc := (k' :: rest).map Rose.id, child := some k'.id } := by
        simp only [tip_leave.while1_body, Py.seq, Py.bind, hc, hia, hkids, List.map_cons, Py.len, List.length_cons, hpos, decide_true,
          if_true, hidx0, Option.bind_some]
      simp only [whileF, hcond, hb]
      rw [e]
      simp [firstPath]
end walk

/-- the value `_leave` returns for a subtree: `(length of the unbranched chain below it, its id)` or `None` -/
def val (elen : Int → Int) (k : Rose) : Option (Int × Int) := (chainLen? elen k).map (·, k.id)

/-- the branch `_leave` at node `i` reports for its child `k`: `[i, k, first child of k, …, tip]` when the chain below `k` is unbranched
and, measured from `i`, not longer than the threshold -/
def brOf (elen : Int → Int) (thre : Int) (i : Int) (k : Rose) : Option (List Int) :=
  match chainLen? elen k with
  | some L => if L + elen k.id > thre then none else some (i :: firstPath k)
  | none => none

theorem firstPath_head : ∀ k : Rose, ∃ rest, firstPath k = k.id :: rest
  | .node a [] => ⟨[], rfl⟩
  | .node a (k :: _) => ⟨firstPath k, rfl⟩

section leave
variable {S : Type} [Inhabited S] (cbsL : List (S → List Int → Option S)) (eff : S → List Int → S) (Pst : S → Prop)
  (N : Nat) (pids : List Int) (elen : Int → Int) (thre : Int)

def effO (s : S) : Option (List Int) → S
  | none => s
  | some br => eff s br

/-- what the per-node lemmas need to know about the callback list: on a branch whose second node is a row of the table every callable
succeeds and together they compute `eff`, preserving the state invariant -/
def CbOk : Prop := ∀ (s : S) (a x : Int) (rest : List Int), Pst s → 0 ≤ x → x < (N : Int) →
  callAll cbsL s (a :: x :: rest) = some (eff s (a :: x :: rest)) ∧ Pst (eff s (a :: x :: rest))

theorem for2_step (hcb : CbOk cbsL eff Pst N) (i : Int) (hi : 0 ≤ i ∧ i < (N : Int)) (G : Nat) (k : Rose) (v : tip_leave.V S Int)
    (hA : Agrees (tableKids (rangeI N) pids) k) (hin : ∀ j ∈ k.ids, 0 ≤ j ∧ j < (N : Int)) (hs : k.size < G)
    (h1 : v.ids = rangeI N) (h2 : v.pids = pids) (h3 : v.n = i) (h4 : v.thre = thre) (hP : Pst v.cbs) :
    ∃ v', (tip_leave.for2 cbsL (fun _ c => elen c) G (val elen k) v = .next v' ∨
           tip_leave.for2 cbsL (fun _ c => elen c) G (val elen k) v = .cont v') ∧
      v'.ids = rangeI N ∧ v'.pids = pids ∧ v'.n = i ∧ v'.thre = thre ∧ v'.cbs = effO eff v.cbs (brOf elen thre i k) ∧ Pst v'.cbs := by
  cases hcl : chainLen? elen k with
  | none =>
    refine ⟨{ v with c := none }, Or.inr ?_, h1, h2, h3, h4, by simp [brOf, hcl, effO], hP⟩
    simp [tip_leave.for2, val, hcl, Py.seq]
  | some L =>
    by_cases hgt : L + elen k.id > thre
    · refine ⟨{ v with c := some (L, k.id), dis := L, child := some k.id }, Or.inr ?_, h1, h2, h3, h4, by simp [brOf, hcl, hgt, effO], hP⟩
      simp [tip_leave.for2, val, hcl, Py.seq, Py.bind, Py.skip, hgt, h4]
    · have hidx : Py.idx v.ids v.n = some i := by rw [h1, h3]; exact RefineNode.idx_rangeI N i hi.1 hi.2
      obtain ⟨cc, e⟩ := while_walk cbsL (fun _ c => elen c) N pids G k
        { v with c := some (L, k.id), dis := L, child := some k.id, path := [i] } hA hin hs h1 h2 rfl
      obtain ⟨rest, hr⟩ := firstPath_head k
      have hk := hin k.id (by cases k; simp [Rose.ids, Rose.id])
      obtain ⟨c1, c2⟩ := hcb v.cbs i k.id rest hP hk.1 hk.2
      refine ⟨{ v with c := some (L, k.id), dis := L, child := none, path := (i :: firstPath k), cc := cc, br := (i :: firstPath k), cbs := eff v.cbs (i :: firstPath k) }, Or.inl ?_, h1, h2, h3, h4, by simp [brOf, hcl, hgt, effO], by rw [hr]; exact c2⟩
      simp only [tip_leave.for2, val, hcl, Py.seq, Py.bind, Py.skip, Option.map_some, Option.isNone_some, Bool.false_eq_true, if_false,
        h4, hgt, decide_false, hidx] at e ⊢
      rw [e]
      simp only [List.singleton_append, hr] at c1 ⊢
      simp only [c1]
theorem sizeL_mem : ∀ (ks : List Rose) (k : Rose), k ∈ ks → k.size ≤ sizeL ks
  | [], _, h => by simp at h
  | r :: rs, k, h => by
    simp only [sizeL]
    rcases List.mem_cons.1 h with rfl | h'
    · omega
    · have := sizeL_mem rs k h'; omega

theorem for2_loop (hcb : CbOk cbsL eff Pst N) (i : Int) (hi : 0 ≤ i ∧ i < (N : Int)) (G : Nat) : ∀ (ks : List Rose) (v : tip_leave.V S Int),
    AgreesL (tableKids (rangeI N) pids) ks → (∀ j ∈ idsL ks, 0 ≤ j ∧ j < (N : Int)) → sizeL ks < G →
    v.ids = rangeI N → v.pids = pids → v.n = i → v.thre = thre → Pst v.cbs →
    ∃ v', forEach (tip_leave.for2 cbsL (fun _ c => elen c) G) (ks.map (val elen)) v = .next v' ∧
      v'.cbs = (ks.filterMap (brOf elen thre i)).foldl eff v.cbs ∧ Pst v'.cbs
  | [], v, _, _, _, _, _, _, _, hP => ⟨v, by simp [forEach], by simp, hP⟩
  | k :: ks, v, hA, hin, hs, h1, h2, h3, h4, hP => by
    simp only [AgreesL] at hA
    simp only [sizeL] at hs
    have hk1 : 1 ≤ k.size := by cases k; simp [Rose.size]
    obtain ⟨v1, hor, f1, f2, f3, f4, fc, fp⟩ := for2_step cbsL eff Pst N pids elen thre hcb i hi G k v hA.1
      (fun j hj => hin j (by simp [idsL, hj])) (by omega) h1 h2 h3 h4 hP
    obtain ⟨v', e, hc, hp⟩ := for2_loop hcb i hi G ks v1 hA.2 (fun j hj => hin j (by simp [idsL, hj])) (by omega) f1 f2 f3 f4 fp
    refine ⟨v', ?_, ?_, hp⟩
    · rcases hor with h | h <;> simp only [List.map_cons, forEach, h, e]
    · rw [hc, fc]
      cases hb : brOf elen thre i k <;> simp [List.filterMap_cons, hb, effO]

/-- **`_leave` at one node of the tree**: with the values of the children's subtrees, the generated `_leave` returns the value of the
node's subtree, and calls the callback list once for every short terminal chain hanging from the node (when it has ≥ 2 children) -/
theorem tipLeave_node (hcb : CbOk cbsL eff Pst N) (i : Int) (G : Nat) (ks : List Rose) (s : S)
    (hA : Agrees (tableKids (rangeI N) pids) (.node i ks)) (hin : ∀ j ∈ (Rose.node i ks).ids, 0 ≤ j ∧ j < (N : Int))
    (hs : (Rose.node i ks).size ≤ G) (hP : Pst s) :
    tip_leave cbsL (fun _ c => elen c) G (rangeI N) pids thre i (ks.map (val elen)) s
      = some ((if ks.length ≥ 2 then ks.filterMap (brOf elen thre i) else []).foldl eff s, val elen (.node i ks)) ∧
    Pst ((if ks.length ≥ 2 then ks.filterMap (brOf elen thre i) else []).foldl eff s) := by
  have hi := hin i (by simp [Rose.ids])
  simp only [Agrees] at hA
  simp only [Rose.size] at hs
  obtain ⟨v', e, hc, hp⟩ := for2_loop cbsL eff Pst N pids elen thre hcb i hi G ks
    { (default : tip_leave.V S Int) with ids := rangeI N, pids := pids, thre := thre, n := i, children := ks.map (val elen), cbs := s }
    hA.2 (fun j hj => hin j (by simp [Rose.ids, hj])) (by omega) rfl rfl rfl rfl hP
  match ks, hA, hin, hs, e, hc, hp with
  | [], _, _, _, _, _, _ =>
    refine ⟨?_, by simpa using hP⟩
    simp [tip_leave, tip_leave.body, Py.seq, Py.len, Py.finish, val, chainLen?, Rose.id]
  | [k], hA, hin, _, e, hc, hp =>
    have h0 : Py.idx [val elen k] 0 = some (val elen k) := by simpa using idx_nat [val elen k] 0 (by simp)
    refine ⟨?_, by simpa using hP⟩
    cases hv : chainLen? elen k with
    | some L =>
      have hv' : val elen k = some (L, k.id) := by simp [val, hv]
      have hvn : val elen (.node i [k]) = some (L + elen k.id, i) := by simp [val, chainLen?, hv, Rose.id]
      rw [hvn]
      rw [hv'] at h0
      simp only [tip_leave, tip_leave.body, Py.seq, Py.bind, Py.skip, Py.len, List.map_cons, List.map_nil, List.length_cons, List.length_nil, hv', h0]
      simp [Py.finish, h0]
    | none =>
      have hv' : val elen k = none := by simp [val, hv]
      have hb : brOf elen thre i k = none := by simp [brOf, hv]
      have hvn : val elen (.node i [k]) = none := by simp [val, chainLen?, hv]
      rw [hvn]
      rw [hv'] at h0
      simp only [List.map_cons, List.map_nil, List.filterMap_cons, hb, List.filterMap_nil, List.foldl_nil, hv'] at e hc
      simp only [tip_leave, tip_leave.body, Py.seq, Py.bind, Py.skip, Py.len, List.map_cons, List.map_nil, List.length_cons, List.length_nil, hv', h0]
      simp [e, Py.finish, hc, h0]
  | k1 :: k2 :: rest, _, _, _, e, hc, hp =>
    refine ⟨?_, by have := hp; rw [hc] at this; simpa using this⟩
    have hl0 : ¬ (((rest.length + 1 + 1 : Nat) : Int) = 0) := by omega
    have hl1 : ¬ (((rest.length + 1 + 1 : Nat) : Int) = 1) := by omega
    have hvn : val elen (.node i (k1 :: k2 :: rest)) = none := by simp [val, chainLen?]
    rw [hvn]
    simp only [tip_leave, tip_leave.body, Py.seq, Py.bind, Py.skip, Py.len, List.map_cons, List.length_cons, List.length_map, hl0, hl1,
      decide_false, Bool.false_eq_true, if_false] at e ⊢
    rw [e]
    simp [Py.finish, hc]
end leave
end RefineShortTip
