import SwcVerif.Gen.AlgoTravFront
import SwcVerif.Refine.Traverse
import SwcVerif.Refine.Closures
/-! Refinement for C04, the three public entry points: the definitions GENERATED (on this run) from
`swcgeom/core/swc_utils/base.py::traverse` (the `match mode:` dispatcher forwarding `**kwargs`), `swcgeom/core/tree.py::Tree.traverse` (the
`wrap` closure factory around `Tree.__getitem__` / `SWCLike.__len__`) and `Tree.Node.traverse`, each specialised to the keyword set of its
call (`enter` / `leave` / both, `root` passed or left at its default), return exactly the structural recursion `Trav.spec` with the user's
callbacks (a callback that is not passed = the trivial callback `Py.absent2`) — for every tree, every start node and every stateful callback. -/
namespace RefineTravFront
open Gen.Algo Trav Py

/-! ## `swc_utils.traverse` -/
section base
variable {σ T K : Type} [Inhabited σ] [Inhabited T] [Inhabited K]
variable (enter : σ → Int → Option T → σ × T) (leave : σ → Int → List K → σ × K)

theorem traverse_el_r_refines (ids pids : List Int) (r : Rose) (hR : Represents r ids pids) (s : σ) (F : Nat) :
    traverse_el_r enter leave (2 * r.size + F + 1) (ids, pids) r.id s = some (spec enter leave r none s) := by
  simp [traverse_el_r, traverse_el_r.body, Py.seq, Py.bind, RefineTrav.traverse_refines enter leave ids pids r hR s F, Py.finish]

theorem traverse_e_r_refines (ids pids : List Int) (r : Rose) (hR : Represents r ids pids) (s : σ) (F : Nat) :
    traverse_e_r enter (2 * r.size + F + 1) (ids, pids) r.id s = some (spec enter Py.absent2 r none s) := by
  simp [traverse_e_r, traverse_e_r.body, Py.seq, Py.bind, RefineTrav.traverse_refines enter Py.absent2 ids pids r hR s F, Py.finish]

theorem traverse_l_r_refines (ids pids : List Int) (r : Rose) (hR : Represents r ids pids) (s : σ) (F : Nat) :
    traverse_l_r leave (2 * r.size + F + 1) (ids, pids) r.id s = some (spec Py.absent2 leave r none s) := by
  simp [traverse_l_r, traverse_l_r.body, Py.seq, Py.bind, RefineTrav.traverse_refines Py.absent2 leave ids pids r hR s F, Py.finish]

/-- `root` not passed: `_traverse_dfs`'s default (read from its source: node 0) -/
theorem traverse_el_refines (ids pids : List Int) (r : Rose) (hR : Represents r ids pids) (h0 : r.id = 0) (s : σ) (F : Nat) :
    traverse_el enter leave (2 * r.size + F + 1) (ids, pids) s = some (spec enter leave r none s) := by
  have := RefineTrav.traverse_refines enter leave ids pids r hR s F
  rw [h0] at this
  simp [traverse_el, traverse_el.body, Py.seq, Py.bind, this, Py.finish]

theorem traverse_e_refines (ids pids : List Int) (r : Rose) (hR : Represents r ids pids) (h0 : r.id = 0) (s : σ) (F : Nat) :
    traverse_e enter (2 * r.size + F + 1) (ids, pids) s = some (spec enter Py.absent2 r none s) := by
  have := RefineTrav.traverse_refines enter Py.absent2 ids pids r hR s F
  rw [h0] at this
  simp [traverse_e, traverse_e.body, Py.seq, Py.bind, this, Py.finish]

theorem traverse_l_refines (ids pids : List Int) (r : Rose) (hR : Represents r ids pids) (h0 : r.id = 0) (s : σ) (F : Nat) :
    traverse_l leave (2 * r.size + F + 1) (ids, pids) s = some (spec Py.absent2 leave r none s) := by
  have := RefineTrav.traverse_refines Py.absent2 leave ids pids r hR s F
  rw [h0] at this
  simp [traverse_l, traverse_l.body, Py.seq, Py.bind, this, Py.finish]
end base

/-! ## `SWCLike.__len__`, `Tree.__getitem__` -/

theorem swc_len_eq (ids : List Int) : tf_swc_len ids = some (ids.length : Int) := by
  simp [tf_swc_len, tf_swc_len.body, Py.finish, Py.len]

/-- **`Tree.__getitem__` on an integer key, as translated**: Python's index normalisation over the number of rows — the node handle is the row
`key` (or `key + n` for `-n ≤ key < 0`), and an IndexError outside `[-n, n)` -/
theorem tree_getitem_eq (ids : List Int) (key : Int) :
    tree_getitem ids key =
      if key < -(ids.length : Int) ∨ key ≥ ids.length then none else if key < 0 then some (key + ids.length) else some key := by
  simp only [tree_getitem, tree_getitem.body, Py.seq, Py.skip, Py.bind, swc_len_eq]
  by_cases h1 : key < -(ids.length : Int)
  · simp [h1, Py.finish]
  · by_cases h2 : key ≥ (ids.length : Int)
    · simp [h2, Py.finish]
    · by_cases h3 : key < 0 <;> simp [h1, h2, h3, Py.finish]

theorem tree_getitem_row (ids : List Int) (key : Int) (h0 : 0 ≤ key) (h1 : key < ids.length) : tree_getitem ids key = some key := by
  rw [tree_getitem_eq]
  have a : ¬ (key < -(ids.length : Int) ∨ key ≥ ids.length) := by omega
  have b : ¬ key < 0 := by omega
  simp [a, b]

/-! ## the closure `fn_wrapped` of `wrap(fn)` -/
section closures
variable {σ T K : Type} [Inhabited σ] [Inhabited T] [Inhabited K]

/-- what `fn_wrapped` computes on a valid row: the user's callback on the node handle (= the row index); the captured tree is unchanged -/
def liftE (enter : σ → Int → Option T → σ × T) : (List Int × σ) → Int → Option T → (List Int × σ) × T :=
  fun st n pv => ((st.1, (enter st.2 n pv).1), (enter st.2 n pv).2)
def liftL (leave : σ → Int → List K → σ × K) : (List Int × σ) → Int → List K → (List Int × σ) × K :=
  fun st n ks => ((st.1, (leave st.2 n ks).1), (leave st.2 n ks).2)

theorem wrapped_enter_eq (enter : σ → Int → Option T → σ × T) (st : List Int × σ) (n : Int) (pv : Option T)
    (h0 : 0 ≤ n) (h1 : n < st.1.length) : tree_wrapped_enter enter st n pv = some (liftE enter st n pv) := by
  simp [tree_wrapped_enter, tree_wrapped_enter.body, Py.bind, tree_getitem_row st.1 n h0 h1, Py.finish, liftE]

theorem wrapped_leave_eq (leave : σ → Int → List K → σ × K) (st : List Int × σ) (n : Int) (ks : List K)
    (h0 : 0 ≤ n) (h1 : n < st.1.length) : tree_wrapped_leave leave st n ks = some (liftL leave st n ks) := by
  simp [tree_wrapped_leave, tree_wrapped_leave.body, Py.bind, tree_getitem_row st.1 n h0 h1, Py.finish, liftL]

/-- outside the rows of the tree the wrapped callback raises (IndexError of `Tree.__getitem__`) before the user's callback is called -/
theorem wrapped_enter_outside (enter : σ → Int → Option T → σ × T) (st : List Int × σ) (n : Int) (pv : Option T)
    (h : n < -(st.1.length : Int) ∨ n ≥ st.1.length) : tree_wrapped_enter enter st n pv = none := by
  simp [tree_wrapped_enter, tree_wrapped_enter.body, Py.bind, tree_getitem_eq, h, Py.finish]

theorem wrap2_eq_wrapE {S : Type} (f : S → Int → Option T → Option (S × T)) : Py.wrap2 f = Py.wrapE f := rfl
theorem wrap2_eq_wrapL {S : Type} (f : S → Int → List K → Option (S × K)) : Py.wrap2 f = Py.wrapL f := rfl

/-- a callback that is not passed, over the closure state `Option S`: the (never raising) trivial closure, wrapped -/
theorem absent2_eq_wrapL {S : Type} : (Py.absent2 : Option S → Int → List Unit → Option S × Unit) = Py.wrapL (fun st n ks => some (Py.absent2 st n ks)) := by
  funext st n ks
  cases st <;> rfl
theorem absent2_eq_wrapE {S : Type} : (Py.absent2 : Option S → Int → Option Unit → Option S × Unit) = Py.wrapE (fun st n pv => some (Py.absent2 st n pv)) := by
  funext st n pv
  cases st <;> rfl

/-- closures over the state (tree, user state) that compute, on the rows of the tree, what the user's callbacks compute: the traversal
with the wrapped closures = the traversal with the user's callbacks -/
theorem spec_lifted (fe : (List Int × σ) → Int → Option T → Option ((List Int × σ) × T)) (fl : (List Int × σ) → Int → List K → Option ((List Int × σ) × K))
    (enter : σ → Int → Option T → σ × T) (leave : σ → Int → List K → σ × K) (ids : List Int) (r : Rose)
    (he : ∀ st (n : Int) pv, st.1 = ids → (0 ≤ n ∧ n < ids.length) → fe st n pv = some (liftE enter st n pv))
    (hl : ∀ st (n : Int) ks, st.1 = ids → (0 ≤ n ∧ n < ids.length) → fl st n ks = some (liftL leave st n ks))
    (hok : ∀ j ∈ r.ids, 0 ≤ j ∧ j < ids.length) (s : σ) :
    spec (Py.wrapE fe) (Py.wrapL fl) r none (some (ids, s))
      = (some (ids, (spec enter leave r none s).1), (spec enter leave r none s).2) := by
  have h1 := (RefineClosures.spec_wrap_on (fun st : List Int × σ => st.1 = ids) (fun j => 0 ≤ j ∧ j < ids.length)
    fe fl (liftE enter) (liftL leave)
    (fun st n pv hP hn => ⟨he st n pv hP hn, hP⟩)
    (fun st n ks hP hn => ⟨hl st n ks hP hn, hP⟩)
    r none (ids, s) rfl hok)
  have h2 := (RefineClosures.spec_abs (Prod.snd : List Int × σ → σ) (fun st : List Int × σ => st.1 = ids) (fun _ => True)
    (liftE enter) (liftL leave) enter leave
    (fun st n pv hP _ => ⟨rfl, hP⟩) (fun st n ks hP _ => ⟨rfl, hP⟩) r none (ids, s) rfl (fun _ _ => trivial))
  rw [h1.1]
  have e1 : (spec (liftE enter) (liftL leave) r none (ids, s)).1 = (ids, (spec enter leave r none s).1) := by
    have := h2.1
    simp only at this
    rw [this]
    exact Prod.ext h1.2 rfl
  have e2 : (spec (liftE enter) (liftL leave) r none (ids, s)).2 = (spec enter leave r none s).2 := by
    have := h2.1
    simp only at this
    rw [this]
  rw [e1, e2]

variable (enter : σ → Int → Option T → σ × T) (leave : σ → Int → List K → σ × K)

theorem spec_wrapped_el (ids : List Int) (r : Rose) (hok : ∀ j ∈ r.ids, 0 ≤ j ∧ j < ids.length) (s : σ) :
    spec (Py.wrap2 (tree_wrapped_enter enter)) (Py.wrap2 (tree_wrapped_leave leave)) r none (some (ids, s))
      = (some (ids, (spec enter leave r none s).1), (spec enter leave r none s).2) :=
  spec_lifted _ _ enter leave ids r
    (fun st n pv hP hn => wrapped_enter_eq enter st n pv hn.1 (by rw [hP]; exact hn.2))
    (fun st n ks hP hn => wrapped_leave_eq leave st n ks hn.1 (by rw [hP]; exact hn.2)) hok s

theorem spec_wrapped_e (ids : List Int) (r : Rose) (hok : ∀ j ∈ r.ids, 0 ≤ j ∧ j < ids.length) (s : σ) :
    spec (Py.wrap2 (tree_wrapped_enter enter)) Py.absent2 r none (some (ids, s))
      = (some (ids, (spec enter Py.absent2 r none s).1), (spec enter Py.absent2 r none s).2) := by
  rw [absent2_eq_wrapL]
  exact spec_lifted _ _ enter Py.absent2 ids r
    (fun st n pv hP hn => wrapped_enter_eq enter st n pv hn.1 (by rw [hP]; exact hn.2))
    (fun st n ks _ _ => rfl) hok s

theorem spec_wrapped_l (ids : List Int) (r : Rose) (hok : ∀ j ∈ r.ids, 0 ≤ j ∧ j < ids.length) (s : σ) :
    spec Py.absent2 (Py.wrap2 (tree_wrapped_leave leave)) r none (some (ids, s))
      = (some (ids, (spec Py.absent2 leave r none s).1), (spec Py.absent2 leave r none s).2) := by
  rw [absent2_eq_wrapE]
  exact spec_lifted _ _ Py.absent2 leave ids r
    (fun st n pv _ _ => rfl)
    (fun st n ks hP hn => wrapped_leave_eq leave st n ks hn.1 (by rw [hP]; exact hn.2)) hok s
end closures

/-! ## `Tree.traverse`, `Tree.Node.traverse` -/
section tree
variable {σ T K : Type} [Inhabited σ] [Inhabited T] [Inhabited K]
variable (enter : σ → Int → Option T → σ × T) (leave : σ → Int → List K → σ × K)

/-- the rows of the subtree are rows of the tree: `self[idx]` never raises during the traversal -/
def Rows (r : Rose) (ids : List Int) : Prop := ∀ j ∈ r.ids, 0 ≤ j ∧ j < ids.length

theorem tree_traverse_el_r_refines (ids pids : List Int) (r : Rose) (hR : Represents r ids pids) (hok : Rows r ids) (s : σ) (F : Nat) :
    tree_traverse_el_r enter leave (2 * r.size + F + 1) ids pids r.id s = some (spec enter leave r none s) := by
  simp [tree_traverse_el_r, tree_traverse_el_r.body, Py.seq, Py.skip, Py.bind, traverse_el_r_refines _ _ ids pids r hR _ F,
    spec_wrapped_el enter leave ids r hok s, Py.unwrapCb, Py.finish]

theorem tree_traverse_e_r_refines (ids pids : List Int) (r : Rose) (hR : Represents r ids pids) (hok : Rows r ids) (s : σ) (F : Nat) :
    tree_traverse_e_r enter (2 * r.size + F + 1) ids pids r.id s = some (spec enter Py.absent2 r none s) := by
  simp [tree_traverse_e_r, tree_traverse_e_r.body, Py.seq, Py.skip, Py.bind, traverse_e_r_refines _ ids pids r hR _ F,
    spec_wrapped_e enter ids r hok s, Py.unwrapCb, Py.finish]

theorem tree_traverse_l_r_refines (ids pids : List Int) (r : Rose) (hR : Represents r ids pids) (hok : Rows r ids) (s : σ) (F : Nat) :
    tree_traverse_l_r leave (2 * r.size + F + 1) ids pids r.id s = some (spec Py.absent2 leave r none s) := by
  simp [tree_traverse_l_r, tree_traverse_l_r.body, Py.seq, Py.skip, Py.bind, traverse_l_r_refines _ ids pids r hR _ F,
    spec_wrapped_l leave ids r hok s, Py.unwrapCb, Py.finish]

theorem tree_traverse_el_refines (ids pids : List Int) (r : Rose) (hR : Represents r ids pids) (h0 : r.id = 0) (hok : Rows r ids) (s : σ) (F : Nat) :
    tree_traverse_el enter leave (2 * r.size + F + 1) ids pids s = some (spec enter leave r none s) := by
  simp [tree_traverse_el, tree_traverse_el.body, Py.seq, Py.skip, Py.bind, traverse_el_refines _ _ ids pids r hR h0 _ F,
    spec_wrapped_el enter leave ids r hok s, Py.unwrapCb, Py.finish]

theorem tree_traverse_e_refines (ids pids : List Int) (r : Rose) (hR : Represents r ids pids) (h0 : r.id = 0) (hok : Rows r ids) (s : σ) (F : Nat) :
    tree_traverse_e enter (2 * r.size + F + 1) ids pids s = some (spec enter Py.absent2 r none s) := by
  simp [tree_traverse_e, tree_traverse_e.body, Py.seq, Py.skip, Py.bind, traverse_e_refines _ ids pids r hR h0 _ F,
    spec_wrapped_e enter ids r hok s, Py.unwrapCb, Py.finish]

theorem tree_traverse_l_refines (ids pids : List Int) (r : Rose) (hR : Represents r ids pids) (h0 : r.id = 0) (hok : Rows r ids) (s : σ) (F : Nat) :
    tree_traverse_l leave (2 * r.size + F + 1) ids pids s = some (spec Py.absent2 leave r none s) := by
  simp [tree_traverse_l, tree_traverse_l.body, Py.seq, Py.skip, Py.bind, traverse_l_refines _ ids pids r hR h0 _ F,
    spec_wrapped_l leave ids r hok s, Py.unwrapCb, Py.finish]

/-- `Tree.Node.traverse`: the node handle is the row index `r.id` -/
theorem node_traverse_el_refines (ids pids : List Int) (r : Rose) (hR : Represents r ids pids) (hok : Rows r ids) (s : σ) (F : Nat) :
    node_traverse_el enter leave (2 * r.size + F + 1) ids pids r.id s = some (spec enter leave r none s) := by
  simp [node_traverse_el, node_traverse_el.body, Py.bind, tree_traverse_el_r_refines enter leave ids pids r hR hok s F, Py.finish]

theorem node_traverse_e_refines (ids pids : List Int) (r : Rose) (hR : Represents r ids pids) (hok : Rows r ids) (s : σ) (F : Nat) :
    node_traverse_e enter (2 * r.size + F + 1) ids pids r.id s = some (spec enter Py.absent2 r none s) := by
  simp [node_traverse_e, node_traverse_e.body, Py.bind, tree_traverse_e_r_refines enter ids pids r hR hok s F, Py.finish]

theorem node_traverse_l_refines (ids pids : List Int) (r : Rose) (hR : Represents r ids pids) (hok : Rows r ids) (s : σ) (F : Nat) :
    node_traverse_l leave (2 * r.size + F + 1) ids pids r.id s = some (spec Py.absent2 leave r none s) := by
  simp [node_traverse_l, node_traverse_l.body, Py.bind, tree_traverse_l_r_refines leave ids pids r hR hok s F, Py.finish]

end tree

end RefineTravFront
