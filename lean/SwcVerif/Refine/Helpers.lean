import SwcVerif.Gen.AlgoHelpers
import SwcVerif.Refine.Views
/-! # C09 (T41): the remaining object helpers, GENERATED from the current sources (`Gen/AlgoHelpers.lean`), against the Views model

`Path.get_node`, `Path.__iter__`, `Branch.detach`, `Compartment.detach`.  Same data and conventions as `Refine/Views.lean`: a handle is
(path, position) and dereferences on every access; a record holds its owner by value, Python's reference is the caller's store.
No fuel anywhere (no `while`), no bound on sizes. -/
namespace RefineHelpers
open Gen.Algo RefineViews

/-- `path.get_node(i)` = `path.node(i)`: the handle (path, i), no range check -/
theorem path_get_node_eq (P : Path) (i : Int) : path_get_node P i = some ⟨P, i, P.names⟩ := by
  simp [path_get_node, path_get_node.body, path_node_eq, Py.bind, Py.finish]

theorem path_get_node_eq_node (P : Path) (i : Int) : path_get_node P i = path_node P i := by
  rw [path_get_node_eq, path_node_eq]

theorem path_iter_loop (P : Path) : ∀ (xs : List Int) (v : path_iter.V), v.self = P →
    ∃ v', Py.forEach path_iter.for1 xs v = .next v' ∧ v'.self = P ∧ v'.c0_ = v.c0_ ++ xs.map (fun i => ⟨P, i, P.names⟩) := by
  intro xs
  induction xs with
  | nil => intro v h; exact ⟨v, rfl, h, by simp⟩
  | cons x xs ih =>
    intro v h
    subst h
    obtain ⟨v', h1, h2, h3⟩ := ih { v with i := x, c0_ := v.c0_ ++ [⟨v.self, x, v.self.names⟩] } rfl
    refine ⟨v', ?_, h2, ?_⟩
    · simp only [Py.forEach, path_iter.for1, path_node_eq, Py.bind]
      exact h1
    · simp [h3]

/-- **`iter(path)`** yields exactly the handles (path, 0), (path, 1), …, (path, n-1), in this order (n = `len(path)`) -/
theorem path_iter_eq (P : Path) (g : List Int) (h : path_get_ndata P P.names.id = some g) :
    path_iter P = some ((arangeL g.length).map fun i => (⟨P, i, P.names⟩ : PNode)) := by
  obtain ⟨v', e1, _, e3⟩ := path_iter_loop P (arangeL g.length) ⟨P, (default : path_iter.V).i, []⟩ rfl
  simp only [arangeL] at e1
  simp [path_iter, path_iter.body, Py.seq, Py.bind, Py.bindS, path_len_eq P g h, Py.finish, e1, e3]

/-- … which are the handles `path[0]`, …, `path[n-1]` of `Path.__getitem__` (same owner, same position) -/
theorem path_iter_getitem (P : Path) (g : List Int) (h : path_get_ndata P P.names.id = some g) :
    ∃ hs, path_iter P = some hs ∧ hs.length = g.length ∧ ∀ k : Nat, k < g.length → path_getitem_int P (k : Int) = hs[k]? := by
  refine ⟨_, path_iter_eq P g h, by simp [arangeL], ?_⟩
  intro k hk
  rw [path_getitem_int_eq P g h]
  have h1 : ¬ ((k : Int) < -(g.length : Int) ∨ (k : Int) ≥ g.length) := by omega
  simp [h1, normKey, arangeL, hk]
  omega

/-- the handles (path, 0), …, (path, n-1) read, column by column, exactly what the path reports: `[n[key] for n in path] = path[key]` -/
theorem handles_read (P : Path) (key : String) (gk : List Int) (hk : path_get_ndata P key = some gk) (n : Nat) (hn : n = gk.length) :
    ((arangeL n).map fun i => (⟨P, i, P.names⟩ : PNode)).mapM (fun n => pnode_getitem n key) = some gk := by
  rw [hn]
  simp only [List.mapM_map, arangeL]
  have : ∀ (l : List Int) (pre : List Int), pre ++ l = gk →
      ((List.range l.length).mapM fun (k : Nat) => pnode_getitem ⟨P, ((pre.length + k : Nat) : Int), P.names⟩ key) = some l := by
    intro l
    induction l with
    | nil => intro pre _; simp
    | cons a l ih =>
      intro pre e
      have e2 := ih (pre ++ [a]) (by simpa using e)
      rw [List.length_cons, List.range_succ_eq_map, List.mapM_cons]
      have ha : pnode_getitem ⟨P, ((pre.length + 0 : Nat) : Int), P.names⟩ key = some a := by
        rw [pnode_getitem_eq, hk]
        simp only [Option.bind_some]
        rw [idx_inrange gk _ (by subst e; simp)]
        subst e; simp
      rw [ha]
      simp only [List.mapM_map]
      have e3 : (List.range l.length).mapM (fun k => pnode_getitem ⟨P, ((pre.length + (k + 1) : Nat) : Int), P.names⟩ key) = some l := by
        rw [← e2]; congr 1; funext k; simp [Nat.add_assoc, Nat.add_comm 1 k]
      push_cast at e3
      simp [e3, Function.comp_def]
  simp only [Function.comp_def]
  simpa using this gk [] rfl

theorem path_iter_read (P : Path) (g : List Int) (h : path_get_ndata P P.names.id = some g) (key : String) (gk : List Int)
    (hk : path_get_ndata P key = some gk) :
    (path_iter P).bind (fun hs => hs.mapM fun n => pnode_getitem n key) = some gk := by
  rw [path_iter_eq P g h, Option.bind_some]
  exact handles_read P key gk hk g.length (by rw [path_get_ndata_length P key gk hk, path_get_ndata_length P _ g h])

/-! ## `Tree.__iter__` -/

theorem tree_iter_loop (T : DictSWC) (idc : List Int) (h : Py.Dict.get? T.ndata T.names.id = some idc) :
    ∀ (xs : List Int) (v : tree_iter.V), v.self = T → (∀ x ∈ xs, 0 ≤ x ∧ x < idc.length) →
    ∃ v', Py.forEach tree_iter.for1 xs v = .next v' ∧ v'.self = T ∧ v'.c0_ = v.c0_ ++ xs.map (fun i => ⟨T, i, T.names⟩) := by
  intro xs
  induction xs with
  | nil => intro v hv _; exact ⟨v, rfl, hv, by simp⟩
  | cons x xs ih =>
    intro v hv hx
    subst hv
    have hx0 := hx x List.mem_cons_self
    obtain ⟨v', h1, h2, h3⟩ := ih { v with i := x, c0_ := v.c0_ ++ [⟨v.self, x, v.self.names⟩] } rfl
      (fun y hy => hx y (List.mem_cons_of_mem _ hy))
    refine ⟨v', ?_, h2, ?_⟩
    · have h1' : ¬ (x < -(idc.length : Int) ∨ x ≥ idc.length) := by omega
      have h2' : ¬ x < 0 := by omega
      simp only [Py.forEach, tree_iter.for1, tree_getitem_int_eq v.self idc h, h1', if_false, normKey, h2', Py.bind]
      exact h1
    · simp [h3]

/-- **`iter(tree)`** yields exactly the handles (tree, 0), …, (tree, n-1) = `tree[0]`, …, `tree[n-1]`, in this order -/
theorem tree_iter_eq (T : DictSWC) (idc : List Int) (h : Py.Dict.get? T.ndata T.names.id = some idc) :
    tree_iter T = some ((arangeL idc.length).map fun i => (⟨T, i, T.names⟩ : TNode)) := by
  obtain ⟨v', e1, _, e3⟩ := tree_iter_loop T idc h (arangeL idc.length) ⟨T, (default : tree_iter.V).i, []⟩ rfl
    (by intro x hx; simp [arangeL] at hx; obtain ⟨a, ha, rfl⟩ := hx; omega)
  simp only [arangeL] at e1
  simp [tree_iter, tree_iter.body, Py.seq, Py.bind, Py.bindS, swc_len_eq T idc h, Py.finish, e1, e3]

/-- the handles (T, 0), …, (T, n-1) (whatever `names` they carry) read a column of length n as it stands in `T` -/
theorem tree_handles_read (T : DictSWC) (nm : SWCNames) (key : String) (col : List Int) (hk : Py.Dict.get? T.ndata key = some col) :
    ((arangeL col.length).map fun i => (⟨T, i, nm⟩ : TNode)).mapM (fun n => tnode_getitem n key) = some col := by
  simp only [List.mapM_map, arangeL, Function.comp_def]
  have : ∀ (l : List Int) (pre : List Int), pre ++ l = col →
      ((List.range l.length).mapM fun (k : Nat) => tnode_getitem ⟨T, ((pre.length + k : Nat) : Int), nm⟩ key) = some l := by
    intro l
    induction l with
    | nil => intro pre _; simp
    | cons a l ih =>
      intro pre e
      have e2 := ih (pre ++ [a]) (by simpa using e)
      rw [List.length_cons, List.range_succ_eq_map, List.mapM_cons]
      have ha : tnode_getitem ⟨T, ((pre.length + 0 : Nat) : Int), nm⟩ key = some a := by
        rw [tnode_getitem_eq, hk]
        simp only [Option.bind_some]
        rw [idx_inrange col _ (by subst e; simp)]
        subst e; simp
      rw [ha]
      simp only [List.mapM_map]
      have e3 : (List.range l.length).mapM (fun k => tnode_getitem ⟨T, ((pre.length + (k + 1) : Nat) : Int), nm⟩ key) = some l := by
        rw [← e2]; congr 1; funext k; simp [Nat.add_assoc, Nat.add_comm 1 k]
      push_cast at e3
      simp [e3, Function.comp_def]
  simpa using this col [] rfl

/-! ## `Branch.detach` / `Compartment.detach` -/

theorem branch_detach_loop (P : Path) : ∀ (ks : List String) (v : branch_detach.V), v.self = P → (∀ k ∈ ks, (path_get_ndata P k).isSome) →
    ∃ v', Py.forEach branch_detach.for1 ks v = .next v' ∧ v'.self = P ∧
      ∀ k', Py.Dict.get? v'.c0_ k' = if k' ∈ ks then path_get_ndata P k' else Py.Dict.get? v.c0_ k' := by
  intro ks
  induction ks with
  | nil => intro v h _; exact ⟨v, rfl, h, by simp⟩
  | cons k ks ih =>
    intro v h hall
    subst h
    obtain ⟨g, hg⟩ := Option.isSome_iff_exists.1 (hall k List.mem_cons_self)
    obtain ⟨v', h1, h2, h3⟩ := ih ⟨v.self, v.attact, k, Py.Dict.set v.c0_ k g⟩ rfl (fun j hj => hall j (List.mem_cons_of_mem _ hj))
    refine ⟨v', ?_, h2, ?_⟩
    · simp only [Py.forEach, branch_detach.for1, path_getitem_str_eq, hg, Py.bind]
      exact h1
    · intro k'
      rw [h3 k']
      by_cases m : k' ∈ ks
      · simp [m]
      · by_cases e : k' = k
        · subst e; simp [m, Py.Dict.get?_set, hg]
        · simp [m, e, Py.Dict.get?_set]

/-- the content of a detached object: every key of the owner gathered by the window, `id` ↦ `0..n-1`, `pid` ↦ `-1..n-2` -/
def DetachedContent (P : Path) (n : Nat) (D : Py.Dict String (List Int)) : Prop :=
  ∀ k', Py.Dict.get? D k' =
    if k' = P.names.pid then some (pidL n) else if k' = P.names.id then some (arangeL n)
    else if k' ∈ Py.Dict.keys P.attach.ndata then path_get_ndata P k' else none

/-- **`Branch.detach()`**: exactly the specification of `Path.detach()` (`RefineViews.path_detach_eq`): a new Branch over a new DictSWC with
the branch's columns in window order, `id` = `0..n-1`, `pid` = `-1..n-2`, indexed by `0..n-1` -/
theorem branch_detach_eq (P : Path) (g : List Int) (h : path_get_ndata P P.names.id = some g)
    (hall : ∀ k ∈ Py.Dict.keys P.attach.ndata, (path_get_ndata P k).isSome) :
    ∃ D, branch_detach P = some ⟨⟨D, P.names⟩, arangeL g.length, P.names⟩ ∧ DetachedContent P g.length D := by
  obtain ⟨v', e1, e2, e3⟩ := branch_detach_loop P (Py.Dict.keys P.attach.ndata)
    ⟨P, (default : branch_detach.V).attact, (default : branch_detach.V).k, []⟩ rfl hall
  refine ⟨Py.Dict.set (Py.Dict.set v'.c0_ P.names.id (arangeL g.length)) P.names.pid (pidL g.length), ?_, ?_⟩
  · simp [branch_detach, branch_detach.body, Py.seq, Py.bind, Py.bindS, path_keys_eq, e1, dictswc_init_eq, e2, path_id_eq P g h,
      path_pid_eq P g h, path_init_eq, Py.finish, arangeL, pidL]
  · intro k'
    simp only [Py.Dict.get?_set, e3 k']
    by_cases a : k' = P.names.pid
    · simp [a]
    · by_cases b : k' = P.names.id <;> simp [a, b]

theorem tcomp_detach_loop (P : Path) : ∀ (ks : List String) (v : tcomp_detach.V), v.self = P → (∀ k ∈ ks, (path_get_ndata P k).isSome) →
    ∃ v', Py.forEach tcomp_detach.for1 ks v = .next v' ∧ v'.self = P ∧
      ∀ k', Py.Dict.get? v'.c0_ k' = if k' ∈ ks then path_get_ndata P k' else Py.Dict.get? v.c0_ k' := by
  intro ks
  induction ks with
  | nil => intro v h _; exact ⟨v, rfl, h, by simp⟩
  | cons k ks ih =>
    intro v h hall
    subst h
    obtain ⟨g, hg⟩ := Option.isSome_iff_exists.1 (hall k List.mem_cons_self)
    obtain ⟨v', h1, h2, h3⟩ := ih ⟨v.self, v.attact, k, Py.Dict.set v.c0_ k g⟩ rfl (fun j hj => hall j (List.mem_cons_of_mem _ hj))
    refine ⟨v', ?_, h2, ?_⟩
    · simp only [Py.forEach, tcomp_detach.for1, path_getitem_str_eq, hg, Py.bind]
      exact h1
    · intro k'
      rw [h3 k']
      by_cases m : k' ∈ ks
      · simp [m]
      · by_cases e : k' = k
        · subst e; simp [m, Py.Dict.get?_set, hg]
        · simp [m, e, Py.Dict.get?_set]

/-- **`Compartment.detach()`** (a compartment of a tree: a window `P` of any length n; n = 2 for a compartment made by the library): a new
Compartment over a new DictSWC with the window's columns in window order, `id` = `0..n-1`, `pid` = `-1..n-2`, indexed by `[0, 1]` -/
theorem tcomp_detach_eq (P : Path) (g : List Int) (h : path_get_ndata P P.names.id = some g)
    (hall : ∀ k ∈ Py.Dict.keys P.attach.ndata, (path_get_ndata P k).isSome) :
    ∃ D, tcomp_detach P = some ⟨⟨D, P.names⟩, [0, 1], P.names⟩ ∧ DetachedContent P g.length D := by
  obtain ⟨v', e1, e2, e3⟩ := tcomp_detach_loop P (Py.Dict.keys P.attach.ndata)
    ⟨P, (default : tcomp_detach.V).attact, (default : tcomp_detach.V).k, []⟩ rfl hall
  refine ⟨Py.Dict.set (Py.Dict.set v'.c0_ P.names.id (arangeL g.length)) P.names.pid (pidL g.length), ?_, ?_⟩
  · simp [tcomp_detach, tcomp_detach.body, Py.seq, Py.bind, Py.bindS, path_keys_eq, e1, dictswc_init_eq, e2, path_id_eq P g h,
      path_pid_eq P g h, tcomp_init_eq, Py.finish, arangeL, pidL]
  · intro k'
    simp only [Py.Dict.get?_set, e3 k']
    by_cases a : k' = P.names.pid
    · simp [a]
    · by_cases b : k' = P.names.id <;> simp [a, b]

end RefineHelpers
