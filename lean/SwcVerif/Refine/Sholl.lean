import SwcVerif.Gen.AlgoSholl
import SwcVerif.Gen.AlgoFeatFront
import SwcVerif.Refine.PyLemmas
/-! Refinement for C10 (T16 `sholl`): the definitions GENERATED from `swcgeom/analysis/sholl.py` (`Sholl.__init__`, `intersect`, `get`,
`get_rs`, `_get_rs`), from the segment construction they rest on (`Tree.get_segments` / `get_compartments`, `Compartments.get_ndata`,
`Compartment.get_ndata`) and from the padding front end of `feature_extractor.py`, for EVERY table / radius / value vectors (no bound on
sizes), over any numeric type `K`. -/
namespace RefineSholl
open Py Gen.Algo

variable {K : Type} [Inhabited K] [Add K] [Sub K] [Mul K] [OfNat K 0] [OfNat K 1] [LT K] [DecidableLT K] [LE K] [DecidableLE K]

theorem idx_ok {α : Type} (l : List α) (i : Int) (d : α) (h0 : 0 ≤ i) (h1 : i.toNat < l.length) :
    Py.idx l i = some (l.getD i.toNat d) := by
  obtain ⟨k, rfl⟩ := Int.eq_ofNat_of_zero_le h0
  simp only [Int.toNat_natCast] at h1 ⊢
  rw [Py.idx_nat _ _ h1]; simp [h1]

/-! ## the segments of a tree -/

/-- the (parent, child) index pair of row `i` -/
def segOf (ids pids : List Int) (i : Int) : List Int := [pids.getD i.toNat 0, ids.getD i.toNat 0]

theorem seg_loop (ids pids : List Int) : ∀ (is : List Int) (v : sholl_segments.V), v.ids = ids → v.pids = pids →
    (∀ i ∈ is, 0 ≤ i ∧ i.toNat < ids.length ∧ i.toNat < pids.length) →
    ∃ n', Py.forEach sholl_segments.for1 is v = .next { v with n := n', c0_ := v.c0_ ++ is.map (segOf ids pids) } := by
  intro is
  induction is with
  | nil => intro v _ _ _; exact ⟨v.n, by simp [Py.forEach]⟩
  | cons x xs ih =>
    intro v h1 h2 hr
    obtain ⟨hx0, hx1, hx2⟩ := hr x List.mem_cons_self
    obtain ⟨n', hn⟩ := ih { v with n := x, c0_ := v.c0_ ++ [segOf ids pids x] } h1 h2 (fun i hi => hr i (List.mem_cons_of_mem _ hi))
    refine ⟨n', ?_⟩
    simp only [Py.forEach, sholl_segments.for1, h1, h2, idx_ok pids x 0 hx0 hx2, idx_ok ids x 0 hx0 hx1, Py.bind]
    simp only [segOf, h1, h2] at hn ⊢
    rw [hn]; simp [segOf]

theorem nodesFrom_one (n : Nat) : Py.Sh.nodesFrom (n : Int) 1 = (List.range (n - 1)).map fun (k : Nat) => ((k + 1 : Nat) : Int) := by
  simp only [Py.Sh.nodesFrom, Py.range, Int.toNat_natCast]
  cases n with
  | zero => simp
  | succ m =>
    rw [List.range_succ_eq_map]; simp [Function.comp_def]

/-- **`Tree.get_compartments()` as translated**: for the rows `1 .. n-1`, in order, the index pair `[pid[i], id[i]]` — (parent, child) -/
theorem segments_refines (ids pids : List Int) (hl : pids.length = ids.length) :
    sholl_segments ids pids = some ((List.range (ids.length - 1)).map fun (k : Nat) => segOf ids pids ((k + 1 : Nat) : Int)) := by
  obtain ⟨n', hn⟩ := seg_loop ids pids (Py.Sh.nodesFrom (Py.len ids) 1) ⟨ids, pids, (default : sholl_segments.V).n, []⟩ rfl rfl (by
    intro i hi
    rw [Py.len, nodesFrom_one] at hi
    simp only [List.mem_map, List.mem_range] at hi
    obtain ⟨k, hk, rfl⟩ := hi
    refine ⟨by omega, ?_, ?_⟩ <;> simp <;> omega)
  simp only [sholl_segments, sholl_segments.body, Py.seq, Py.bindS, hn, Py.finish, Option.map_some]
  simp [Py.len, nodesFrom_one, List.map_map, Function.comp_def]

theorem tree_get_segments_eq (ids pids : List Int) : tree_get_segments ids pids = sholl_segments ids pids := by
  simp only [tree_get_segments, tree_get_segments.body, Py.bind, Py.finish]
  cases sholl_segments ids pids <;> rfl

/-! ## gathering a column over the segments -/

theorem take_ok (col : List K) : ∀ (idx : List Int), (∀ i ∈ idx, 0 ≤ i ∧ i.toNat < col.length) →
    Py.take col idx = some (idx.map fun i => col.getD i.toNat default) := by
  intro idx
  induction idx with
  | nil => intro _; simp [Py.take]
  | cons x xs ih =>
    intro h
    have hx := h x List.mem_cons_self
    have := ih (fun i hi => h i (List.mem_cons_of_mem _ hi))
    simp only [Py.take] at this ⊢
    simp [List.mapM_cons, idx_ok col x default hx.1 hx.2, this]

theorem compartment_get_ndata_eq (col : List K) (idx : List Int) : compartment_get_ndata col idx = Py.take col idx := by
  simp only [compartment_get_ndata, compartment_get_ndata.body, Py.bind, Py.finish]
  cases Py.take col idx <;> rfl

theorem ndata_loop (col : List K) : ∀ (segs : List (List Int)) (v : compartments_get_ndata.V K), v.col = col →
    (∀ s ∈ segs, ∀ i ∈ s, 0 ≤ i ∧ i.toNat < col.length) →
    ∃ s', Py.forEach compartments_get_ndata.for1 segs v =
      .next { v with s := s', c0_ := v.c0_ ++ segs.map fun s => s.map fun i => col.getD i.toNat default } := by
  intro segs
  induction segs with
  | nil => intro v _ _; exact ⟨v.s, by simp [Py.forEach]⟩
  | cons x xs ih =>
    intro v h1 hr
    obtain ⟨s', hs⟩ := ih { v with s := x, c0_ := v.c0_ ++ [x.map fun i => col.getD i.toNat default] } h1
      (fun s hs => hr s (List.mem_cons_of_mem _ hs))
    refine ⟨s', ?_⟩
    simp only [Py.forEach, compartments_get_ndata.for1, compartment_get_ndata_eq, h1, take_ok col x (hr x List.mem_cons_self), Py.bind]
    simp only [h1] at hs
    rw [hs]; simp

/-- **`Compartments.get_ndata` as translated**: one row per segment, the column's values at the segment's index array -/
theorem compartments_get_ndata_refines (col : List K) (segs : List (List Int)) (hr : ∀ s ∈ segs, ∀ i ∈ s, 0 ≤ i ∧ i.toNat < col.length) :
    compartments_get_ndata segs col = some (segs.map fun s => s.map fun i => col.getD i.toNat default) := by
  obtain ⟨s', hs⟩ := ndata_loop col segs ⟨segs, col, (default : compartments_get_ndata.V K).s, []⟩ rfl hr
  simp [compartments_get_ndata, compartments_get_ndata.body, Py.seq, Py.bindS, hs, Py.finish]

/-! ## `Sholl.__init__` -/

/-- the radii of the two ends of every segment about the root: row `k` is `[rad[pid[k+1]], rad[k+1]]` — (parent, child) -/
def segRadii (pids : List Int) (rad : List K) : List (List K) :=
  (List.range (pids.length - 1)).map fun (k : Nat) => [rad.getD (pids.getD (k + 1) 0).toNat default, rad.getD (k + 1) default]

/-- a tree table with ids = positions: every row but the first has its parent among the rows -/
def ParentsInRange (pids : List Int) : Prop := ∀ k, 1 ≤ k → k < pids.length → 0 ≤ pids.getD k 0 ∧ (pids.getD k 0).toNat < pids.length

theorem range_getD (n k : Nat) (h : k < n) : (Py.range (n : Int)).getD k 0 = (k : Int) := by
  simp [Py.range, List.getD, h]

theorem init_rs (pids : List Int) (rad : List K) (hp : ParentsInRange pids) (hl : rad.length = pids.length) :
    (tree_get_segments (Py.range pids.length) pids).bind (fun s => compartments_get_ndata s rad) = some (segRadii pids rad) := by
  have hlen : (Py.range (pids.length : Int)).length = pids.length := by simp [Py.range]
  rw [tree_get_segments_eq, segments_refines _ _ (by rw [hlen]), hlen, Option.bind_some, compartments_get_ndata_refines]
  · simp only [segRadii, List.map_map]
    congr 1
    apply List.map_congr_left
    intro k hk
    have hk' : k + 1 < pids.length := by have := List.mem_range.1 hk; omega
    simp only [Function.comp_apply, segOf, List.map_cons, List.map_nil, Int.toNat_natCast, range_getD _ _ hk']
  · intro s hs i hi
    simp only [List.mem_map, List.mem_range] at hs
    obtain ⟨k, hk, rfl⟩ := hs
    have hk' : k + 1 < pids.length := by omega
    simp only [segOf, List.mem_cons, List.not_mem_nil, or_false] at hi
    rcases hi with rfl | rfl
    · have := hp (k + 1) (by omega) hk'
      simpa [hl] using this
    · rw [Int.toNat_natCast, range_getD _ _ hk', hl]
      exact ⟨by omega, by simpa using hk'⟩

/-- the warning `Sholl(x, step=…)` logs -/
def stepWarning : Py.Exc := ⟨"DeprecationWarning", "`Sholl(x, step=...)` has been replaced by `Sholl(x).get(steps=...)` since v0.6.0 because it has been change to dynamic calculate, and will be removed in next version", []⟩

/-- **`Sholl.__init__` as translated, on a tree with at least one segment**: `rs` holds, per segment `(pid[i], i)`, `i = 1 .. n-1`, the
root distances `[rad[pid[i]], rad[i]]` of its two ends, `rmax` is their largest entry, nothing raises; a `step` is stored and warned about -/
theorem init_refines (pids : List Int) (rad : List K) (step : Option K) (hp : ParentsInRange pids) (hl : rad.length = pids.length)
    (hn : 2 ≤ pids.length) :
    ∃ m, Py.Sh.max2 (segRadii pids rad) = some m ∧
      sholl_init (Py.range pids.length) pids rad step
        = some (segRadii pids rad, m, step, (if step.isSome then [stepWarning] else []), .ok ()) := by
  have h1 := init_rs pids rad hp hl
  have hne : (segRadii pids rad).flatten ≠ [] := by
    obtain ⟨n, hn2⟩ : ∃ n, pids.length = n + 2 := ⟨pids.length - 2, by omega⟩
    simp [segRadii, hn2, List.range_succ_eq_map]
  obtain ⟨m, hm⟩ : ∃ m, Py.Sh.max2 (segRadii pids rad) = some m := by
    unfold Py.Sh.max2
    cases hf : (segRadii pids rad).flatten with
    | nil => exact absurd hf hne
    | cons x xs => exact ⟨_, rfl⟩
  refine ⟨m, hm, ?_⟩
  generalize Py.range (pids.length : Int) = ids at h1 ⊢
  cases hs : tree_get_segments ids pids with
  | none => simp [hs] at h1
  | some segs =>
    rw [hs, Option.bind_some] at h1
    cases step with
    | none => simp [sholl_init, sholl_init.body, Py.seq, Py.Sh.tryAnyRaise, hs, h1, hm, Py.bind, Py.finishX, Py.skip]; exact ⟨rfl, rfl⟩
    | some st => simp [sholl_init, sholl_init.body, Py.seq, Py.Sh.tryAnyRaise, hs, h1, hm, Py.bind, Py.finishX, stepWarning]; rfl

/-- **a tree without a segment (a single node) is refused**: `ValueError("invalid tree: …")` (numpy cannot take the maximum of no radii) -/
theorem init_single (p : Int) (r0 : K) (step : Option K) :
    (sholl_init (Py.range 1) [p] [r0] step).map (fun r => r.2.2.2.2)
      = some (.error ⟨"ValueError", "invalid tree: {tree.source or ''}", []⟩) := by
  have h : tree_get_segments (Py.range 1) [p] = some [] := by
    rw [tree_get_segments_eq]; exact segments_refines (Py.range 1) [p] (by simp [Py.range])
  have h2 : compartments_get_ndata (K := K) [] [r0] = some [] := compartments_get_ndata_refines [r0] [] (by simp)
  simp [sholl_init, sholl_init.body, Py.seq, Py.Sh.tryAnyRaise, h, h2, Py.bind, Py.finishX, Py.Sh.max2]

/-! ## `Sholl.intersect` -/

/-- the source's test on one segment with end radii `a` (parent) and `b` (child): `(a ≤ r ∧ b > r) ∨ (b ≤ r ∧ a > r)` -/
def straddle (a b r : K) : Bool := (decide (a ≤ r) && decide (b > r)) || (decide (b ≤ r) && decide (a > r))

/-- the rows of `rs` as pairs -/
def rows (pairs : List (K × K)) : List (List K) := pairs.map fun p => [p.1, p.2]

theorem col0 (pairs : List (K × K)) : Py.col (rows pairs) 0 = some (pairs.map (·.1)) := by
  unfold Py.col rows
  induction pairs with
  | nil => rfl
  | cons p ps ih =>
    have e : Py.idx [p.1, p.2] (0 : Int) = some p.1 := rfl
    simp only [List.map_cons, Py.mapOpt, ih, e]

theorem col1 (pairs : List (K × K)) : Py.col (rows pairs) 1 = some (pairs.map (·.2)) := by
  unfold Py.col rows
  induction pairs with
  | nil => rfl
  | cons p ps ih =>
    have e : Py.idx [p.1, p.2] (1 : Int) = some p.2 := rfl
    simp only [List.map_cons, Py.mapOpt, ih, e]

/-- the boolean array the source builds for one radius -/
theorem mask_eq (pairs : List (K × K)) (r : K) :
    (Py.Sh.logicalAnd (Py.Sh.leMask (pairs.map (·.1)) r) (Py.Sh.gtMask (pairs.map (·.2)) r)).bind (fun a =>
      (Py.Sh.logicalAnd (Py.Sh.leMask (pairs.map (·.2)) r) (Py.Sh.gtMask (pairs.map (·.1)) r)).bind fun b => Py.Sh.logicalOr a b)
    = some (pairs.map fun p => straddle p.1 p.2 r) := by
  simp only [Py.Sh.logicalAnd, Py.Sh.logicalOr, Py.Sh.leMask, Py.Sh.gtMask, List.length_map, if_true, Option.bind_some,
    List.length_zipWith, Nat.min_self]
  congr 1
  induction pairs with
  | nil => rfl
  | cons p ps ih => simp [straddle, ih]

theorem countNonzero_map {α : Type} (l : List α) (f : α → Bool) : Py.countNonzero (l.map f) = ((l.filter f).length : Int) := by
  simp only [Py.countNonzero]
  congr 1
  induction l with
  | nil => rfl
  | cons x xs ih => by_cases h : f x <;> simp [h, ih]

/-- **`Sholl.intersect(r)` as translated is the number of segments whose end radii straddle `r`** (half-open: one end `≤ r`, the other
`> r`), for every array of end radii and every radius -/
theorem intersect_refines (pairs : List (K × K)) (r : K) :
    sholl_intersect (rows pairs) r = some (((pairs.filter fun p => straddle p.1 p.2 r).length : Nat) : Int) := by
  have hm := mask_eq pairs r
  simp only [sholl_intersect, sholl_intersect.body, Py.seq, col0, col1, Py.bind, Py.finish]
  cases h1 : Py.Sh.logicalAnd (Py.Sh.leMask (pairs.map (·.1)) r) (Py.Sh.gtMask (pairs.map (·.2)) r) with
  | none => simp [h1] at hm
  | some a =>
    cases h2 : Py.Sh.logicalAnd (Py.Sh.leMask (pairs.map (·.2)) r) (Py.Sh.gtMask (pairs.map (·.1)) r) with
    | none => simp [h1, h2] at hm
    | some b =>
      simp only [h1, h2, Option.bind_some] at hm
      simp [hm, countNonzero_map]

/-! ## `Sholl.get` -/

/-- the number of segments straddling `r` -/
def count (pairs : List (K × K)) (r : K) : Int := (((pairs.filter fun p => straddle p.1 p.2 r).length : Nat) : Int)

theorem mask_parts (pairs : List (K × K)) (r : K) :
    ∃ a b, Py.Sh.logicalAnd (Py.Sh.leMask (pairs.map (·.1)) r) (Py.Sh.gtMask (pairs.map (·.2)) r) = some a ∧
      Py.Sh.logicalAnd (Py.Sh.leMask (pairs.map (·.2)) r) (Py.Sh.gtMask (pairs.map (·.1)) r) = some b ∧
      Py.Sh.logicalOr a b = some (pairs.map fun p => straddle p.1 p.2 r) := by
  have hm := mask_eq pairs r
  cases h1 : Py.Sh.logicalAnd (Py.Sh.leMask (pairs.map (·.1)) r) (Py.Sh.gtMask (pairs.map (·.2)) r) with
  | none => simp [h1] at hm
  | some a =>
    cases h2 : Py.Sh.logicalAnd (Py.Sh.leMask (pairs.map (·.2)) r) (Py.Sh.gtMask (pairs.map (·.1)) r) with
    | none => simp [h1, h2] at hm
    | some b =>
      simp only [h1, h2, Option.bind_some] at hm
      exact ⟨a, b, rfl, rfl, hm⟩

theorem countRows (pairs : List (K × K)) (radii : List K) (hne : radii ≠ []) :
    Py.Sh.countNonzeroRows (radii.map fun r => pairs.map fun p => straddle p.1 p.2 r) = some (radii.map (count pairs)) := by
  cases radii with
  | nil => exact absurd rfl hne
  | cons x xs =>
    simp only [Py.Sh.countNonzeroRows, List.map_cons]
    rw [if_pos (by simp)]
    simp [countNonzero_map, count]

theorem get_arr_loop (F : Py.Fld K) (pairs : List (K × K)) : ∀ (radii : List K) (v : sholl_get_arr.V K), v.rs = rows pairs →
    ∃ r', Py.forEach (sholl_get_arr.for1 F) radii v =
      .next { v with r := r', c0_ := v.c0_ ++ radii.map fun r => pairs.map fun p => straddle p.1 p.2 r } := by
  intro radii
  induction radii with
  | nil => intro v _; exact ⟨v.r, by simp [Py.forEach]⟩
  | cons x xs ih =>
    intro v h
    obtain ⟨a, b, ha, hb, hc⟩ := mask_parts pairs x
    obtain ⟨r', hr⟩ := ih { v with r := x, c0_ := v.c0_ ++ [pairs.map fun p => straddle p.1 p.2 x] } h
    refine ⟨r', ?_⟩
    simp only [Py.forEach, sholl_get_arr.for1, h, col0, col1, Py.bind, ha, hb, hc]
    simp only [h] at hr
    rw [hr]; simp

theorem get_int_loop (F : Py.Fld K) (pairs : List (K × K)) : ∀ (radii : List K) (v : sholl_get_int.V K), v.rs = rows pairs →
    ∃ r', Py.forEach (sholl_get_int.for1 F) radii v =
      .next { v with r := r', c0_ := v.c0_ ++ radii.map fun r => pairs.map fun p => straddle p.1 p.2 r } := by
  intro radii
  induction radii with
  | nil => intro v _; exact ⟨v.r, by simp [Py.forEach]⟩
  | cons x xs ih =>
    intro v h
    obtain ⟨a, b, ha, hb, hc⟩ := mask_parts pairs x
    obtain ⟨r', hr⟩ := ih { v with r := x, c0_ := v.c0_ ++ [pairs.map fun p => straddle p.1 p.2 x] } h
    refine ⟨r', ?_⟩
    simp only [Py.forEach, sholl_get_int.for1, h, col0, col1, Py.bind, ha, hb, hc]
    simp only [h] at hr
    rw [hr]; simp

theorem get_rs_self_arr_none (F : Py.Fld K) (rmax : K) (steps : List K) : sholl_get_rs_self_arr F rmax none steps = some steps := by
  simp [sholl_get_rs_self_arr, sholl_get_rs_self_arr.body, sholl_get_rs_arr, sholl_get_rs_arr.body, Py.seq, Py.skip, Py.bind, Py.finish]

/-- **`Sholl.get(steps=[r₀, r₁, …])` as translated is the list of the straddle counts at the given radii, in the given order**; an empty list
of radii raises (numpy's `AxisError`: `np.count_nonzero([], axis=1)`) -/
theorem get_arr_refines (F : Py.Fld K) (pairs : List (K × K)) (rmax : K) (steps : List K) :
    sholl_get_arr F (rows pairs) rmax none steps = if steps = [] then none else some (steps.map (count pairs)) := by
  obtain ⟨r', hr⟩ := get_arr_loop F pairs steps
    ⟨rows pairs, rmax, none, steps, (default : sholl_get_arr.V K).intersections, (default : sholl_get_arr.V K).r, []⟩ rfl
  simp only [sholl_get_arr, sholl_get_arr.body, Py.seq, Py.bindS, get_rs_self_arr_none, Py.bind, hr, List.nil_append]
  by_cases hs : steps = []
  · subst hs; simp [Py.Sh.countNonzeroRows, Py.finish]
  · simp [countRows pairs steps hs, hs, Py.finish]

/-- `get(steps)` is `intersect` at every radius -/
theorem get_arr_eq_intersect (F : Py.Fld K) (pairs : List (K × K)) (rmax : K) (steps : List K) (hs : steps ≠ []) :
    sholl_get_arr F (rows pairs) rmax none steps = steps.mapM (sholl_intersect (rows pairs)) := by
  rw [get_arr_refines, if_neg hs]
  have : ∀ l : List K, l.mapM (sholl_intersect (rows pairs)) = some (l.map (count pairs)) := by
    intro l
    induction l with
    | nil => rfl
    | cons x xs ih => simp [List.mapM_cons, ih, intersect_refines, count]
  rw [this]

/-- **`Sholl.get(steps=k)` (an integer, or the legacy `step`) as translated is `get` at the radii `_get_rs` computes** -/
theorem get_int_refines (F : Py.Fld K) (pairs : List (K × K)) (rmax : K) (sstep : Option K) (k : Int) :
    sholl_get_int F (rows pairs) rmax sstep k =
      (sholl_get_rs_self_int F rmax sstep k).bind fun radii => if radii = [] then none else some (radii.map (count pairs)) := by
  cases hrs : sholl_get_rs_self_int F rmax sstep k with
  | none => simp [sholl_get_int, sholl_get_int.body, Py.seq, Py.bindS, hrs, Py.bind, Py.finish]
  | some radii =>
    obtain ⟨r', hr⟩ := get_int_loop F pairs radii
      ⟨rows pairs, rmax, sstep, k, (default : sholl_get_int.V K).intersections, (default : sholl_get_int.V K).r, []⟩ rfl
    simp only [sholl_get_int, sholl_get_int.body, Py.seq, Py.bindS, hrs, Py.bind, hr, List.nil_append, Option.bind_some]
    by_cases hs : radii = []
    · subst hs; simp [Py.Sh.countNonzeroRows, Py.finish]
    · simp [countRows pairs radii hs, hs, Py.finish]

/-- the radii of an integer step count: `s = rmax / (k + 1)`, then `np.arange(s, rmax, s)`; of the legacy `step`: `np.arange(step, ceil(rmax), step)` -/
theorem get_rs_self_int_eq (F : Py.Fld K) (rmax : K) (sstep : Option K) (k : Int) :
    sholl_get_rs_self_int F rmax sstep k = match sstep with
      | some st => Py.Sh.arange st (Py.Fld.ofInt (Py.Fld.ceil rmax)) st
      | none => (Py.fdiv rmax (Py.Fld.ofInt (k + 1))).bind fun s => Py.Sh.arange s rmax s := by
  cases sstep with
  | some st =>
    simp only [sholl_get_rs_self_int, sholl_get_rs_self_int.body, Py.seq, Option.isSome_some, if_true, Py.bind, Py.finish]
    cases Py.Sh.arange st (Py.Fld.ofInt (Py.Fld.ceil rmax)) st <;> rfl
  | none =>
    cases h1 : Py.fdiv rmax (Py.Fld.ofInt (k + 1) : K) with
    | none => simp [sholl_get_rs_self_int, sholl_get_rs_self_int.body, sholl_get_rs_int, sholl_get_rs_int.body, Py.seq, Py.skip, Py.bind, Py.finish, h1]
    | some s =>
      cases h : Py.Sh.arange s rmax s <;>
        simp [sholl_get_rs_self_int, sholl_get_rs_self_int.body, sholl_get_rs_int, sholl_get_rs_int.body, Py.seq, Py.skip, Py.bind, Py.finish, h1, h]

/-! ## the front end: `PopulationFeatureExtractor._get_impl` -/

/-- the longest value vector -/
def maxLen {α : Type} (vals : List (List α)) : Nat := vals.foldl (fun a v => max a v.length) 0

theorem foldl_max_int {α : Type} : ∀ (l : List (List α)) (n : Nat),
    (l.map fun v => (v.length : Int)).foldl (fun a b => if a < b then b else a) (n : Int) = ((l.foldl (fun a v => max a v.length) n : Nat) : Int) := by
  intro l
  induction l with
  | nil => intro n; rfl
  | cons x xs ih =>
    intro n
    simp only [List.map_cons, List.foldl_cons]
    by_cases h : (n : Int) < (x.length : Int)
    · rw [if_pos h, ih, show max n x.length = x.length by omega]
    · rw [if_neg h, ih, show max n x.length = n by omega]

theorem maxInts_lens {α : Type} (vals : List (List α)) (hne : vals ≠ []) :
    Py.Sh.maxInts (vals.map fun v => (v.length : Int)) = some ((maxLen vals : Nat) : Int) := by
  cases vals with
  | nil => exact absurd rfl hne
  | cons x xs =>
    simp only [List.map_cons, Py.Sh.maxInts, maxLen, List.foldl_cons]
    rw [foldl_max_int, show max 0 x.length = x.length by omega]

theorem foldl_max_ge {α : Type} : ∀ (l : List (List α)) (n : Nat),
    n ≤ l.foldl (fun a v => max a v.length) n ∧ ∀ v ∈ l, v.length ≤ l.foldl (fun a v => max a v.length) n := by
  intro l
  induction l with
  | nil => intro n; simp
  | cons x xs ih =>
    intro n
    obtain ⟨h1, h2⟩ := ih (max n x.length)
    simp only [List.foldl_cons, List.mem_cons]
    refine ⟨by omega, ?_⟩
    rintro v (rfl | hv)
    · omega
    · exact h2 v hv

theorem maxLen_ge {α : Type} (vals : List (List α)) : ∀ v ∈ vals, v.length ≤ maxLen vals := (foldl_max_ge vals 0).2

/-- `padding1d(m, v)` for `len(v) ≤ m`: `v` followed by zeros up to length `m` -/
theorem padding1d_eq (m : Nat) (v : List K) (h : v.length ≤ m) :
    Py.Sh.padding1d (m : Int) v = v ++ List.replicate (m - v.length) (0 : K) := by
  unfold Py.Sh.padding1d
  by_cases hge : (v.length : Int) ≥ (m : Int)
  · have e : v.length = m := by omega
    rw [if_pos hge]
    subst e
    have hneg : ¬ ((v.length : Int) < 0) := by omega
    simp [Py.slice, Py.sliceBound, hneg]
  · rw [if_neg hge]; simp

theorem pop_loop1 : ∀ (xs : List (List K)) (v : population_get_impl.V K),
    ∃ w, Py.forEach population_get_impl.for1 xs v = .next { v with v_c0 := w, c1_ := v.c1_ ++ xs.map fun x => (x.length : Int) } := by
  intro xs
  induction xs with
  | nil => intro v; exact ⟨v.v_c0, by simp [Py.forEach]⟩
  | cons x xs ih =>
    intro v
    obtain ⟨w, hw⟩ := ih { v with v_c0 := x, c1_ := v.c1_ ++ [(x.length : Int)] }
    exact ⟨w, by simp only [Py.forEach, population_get_impl.for1, Py.len]; rw [hw]; simp⟩

theorem pop_loop2 : ∀ (xs : List (List K)) (v : population_get_impl.V K),
    ∃ w, Py.forEach population_get_impl.for2 xs v =
      .next { v with v_c4 := w, c5_ := v.c5_ ++ xs.map fun x => Py.Sh.padding1d v.len_max x } := by
  intro xs
  induction xs with
  | nil => intro v; exact ⟨v.v_c4, by simp [Py.forEach]⟩
  | cons x xs ih =>
    intro v
    obtain ⟨w, hw⟩ := ih { v with v_c4 := x, c5_ := v.c5_ ++ [Py.Sh.padding1d v.len_max x] }
    exact ⟨w, by simp only [Py.forEach, population_get_impl.for2]; rw [hw]; simp⟩

/-- the rows the front end returns for a population: every tree's vector followed by zeros up to the longest vector -/
def padRows (vals : List (List K)) : List (List K) := vals.map fun v => v ++ List.replicate (maxLen vals - v.length) (0 : K)

/-- **`PopulationFeatureExtractor._get_impl` as translated**: for EVERY non-empty list of value vectors (vectors of any lengths, empty
ones included) nothing raises and the result has one row per tree, row `i` = tree `i`'s vector followed by zeros up to the longest
vector (width 0 when every vector is empty); with no tree at all it raises (`max()` of an empty sequence) -/
theorem population_refines (vals : List (List K)) :
    population_get_impl vals = if vals = [] then none else some (padRows vals) := by
  obtain ⟨w1, h1⟩ := pop_loop1 vals ⟨vals, (default : population_get_impl.V K).len_max, (default : population_get_impl.V K).v, (default : population_get_impl.V K).v_c0, (default : population_get_impl.V K).v_c4, [], (default : population_get_impl.V K).c5_⟩
  dsimp only at h1
  by_cases hne : vals = []
  · subst hne
    simp [population_get_impl, population_get_impl.body, Py.seq, Py.bindS, Py.forEach, Py.Sh.maxInts, Py.bind, Py.finish]
  · rw [if_neg hne]
    obtain ⟨w2, h2⟩ := pop_loop2 vals ⟨vals, ((maxLen vals : Nat) : Int), (default : population_get_impl.V K).v, w1, (default : population_get_impl.V K).v_c4, vals.map (fun x => (x.length : Int)), []⟩
    dsimp only at h2
    have hrows : (vals.map fun x => Py.Sh.padding1d ((maxLen vals : Nat) : Int) x) = padRows vals :=
      List.map_congr_left fun v hv => padding1d_eq _ _ (maxLen_ge vals v hv)
    have hstack : Py.Sh.stackRows (padRows vals) = some (padRows vals) := by
      cases hv : vals with
      | nil => exact absurd hv hne
      | cons x xs =>
        have hlen : ∀ r ∈ padRows (x :: xs), r.length = maxLen (x :: xs) := by
          intro r hr
          simp only [padRows, List.mem_map] at hr
          obtain ⟨v, hv', rfl⟩ := hr
          have := maxLen_ge (x :: xs) v hv'
          simp; omega
        have hx := hlen _ (List.mem_map_of_mem (f := fun v => v ++ List.replicate (maxLen (x :: xs) - v.length) (0 : K)) List.mem_cons_self)
        simp only [padRows, List.map_cons, Py.Sh.stackRows] at hx ⊢
        rw [if_pos]
        simp only [List.all_eq_true, decide_eq_true_eq]
        intro r hr
        rw [hx]
        exact hlen r (by simp only [padRows, List.map_cons]; exact List.mem_cons_of_mem _ hr)
    simp only [population_get_impl, population_get_impl.body, Py.seq, Py.bindS, h1, List.nil_append, maxInts_lens vals hne, Py.bind,
      h2, hrows, hstack, Py.finish, Option.map_some]

/-! ## the front end: `PopulationsFeatureExtractor._get_impl` -/

section populations
variable (T F : Nat)

/-- a tree's vector followed by zeros up to width `F` -/
def padF (vv : List K) : List K := vv ++ List.replicate (F - vv.length) (0 : K)
/-- the block of one population: its trees' padded vectors, then zero rows up to `T` rows -/
def blockOf (pop : List (List K)) : List (List K) :=
  pop.map (padF F) ++ List.replicate (T - pop.length) (List.replicate F (0 : K))

theorem setRow_step (out : List (List (List K))) (i j : Nat) (blk : List (List K)) (vv : List K)
    (hi : out[i]? = some blk) (hj : blk[j]? = some (List.replicate F (0 : K))) (hv : vv.length ≤ F) :
    Py.Sh.setRowPrefix3 out (i : Int) (j : Int) (Py.len vv) vv = some (out.set i (blk.set j (padF F vv))) := by
  have hi' : i < out.length := by
    rcases Nat.lt_or_ge i out.length with h | h
    · exact h
    · rw [List.getElem?_eq_none h] at hi; cases hi
  have hj' : j < blk.length := by
    rcases Nat.lt_or_ge j blk.length with h | h
    · exact h
    · rw [List.getElem?_eq_none h] at hj; cases hj
  have hneg : ¬ ((vv.length : Int) < 0) := by omega
  have hw : (Py.slice (List.replicate F (0 : K)) none (some (Py.len vv))).length = vv.length := by
    simp [Py.slice, Py.sliceBound, Py.len, hneg]; omega
  unfold Py.Sh.setRowPrefix3
  rw [Py.idx_nat _ _ hi', hi, Option.bind_some, Py.idx_nat _ _ hj', hj, Option.bind_some]
  simp only [hw, if_true, Option.bind_some, Py.setIdx_nat _ _ _ hj', Py.setIdx_nat _ _ _ hi', List.drop_replicate, padF]

theorem block_get (done : List (List K)) (h : done.length < T) :
    (done.map (padF F) ++ List.replicate (T - done.length) (List.replicate F (0 : K)))[done.length]? = some (List.replicate F (0 : K)) := by
  rw [List.getElem?_append_right (by simp)]
  have e : T - done.length = (T - done.length - 1) + 1 := by omega
  rw [List.length_map, Nat.sub_self, e, List.replicate_succ]; rfl

theorem block_set (done : List (List K)) (vv : List K) (h : done.length < T) :
    (done.map (padF F) ++ List.replicate (T - done.length) (List.replicate F (0 : K))).set done.length (padF F vv)
      = (done ++ [vv]).map (padF F) ++ List.replicate (T - (done ++ [vv]).length) (List.replicate F (0 : K)) := by
  rw [List.set_append_right _ _ (by simp)]
  obtain ⟨m, hm⟩ : ∃ m, T - done.length = m + 1 := ⟨T - done.length - 1, by omega⟩
  have hm' : T - (done ++ [vv]).length = m := by simp; omega
  simp [hm, hm', List.replicate_succ]
  omega

theorem inner_loop (i : Nat) : ∀ (rest done : List (List K)) (v : populations_get_impl.V K), v.i = (i : Int) → i < v.out.length →
    v.out[i]? = some (done.map (padF F) ++ List.replicate (T - done.length) (List.replicate F (0 : K))) →
    done.length + rest.length ≤ T → (∀ vv ∈ rest, vv.length ≤ F) →
    ∃ j' vv', Py.forEach populations_get_impl.for5 (Py.enumFrom (done.length : Int) rest) v =
      .next { v with j := j', vv := vv', out := v.out.set i (blockOf T F (done ++ rest)) } := by
  intro rest
  induction rest with
  | nil =>
    intro done v _ hi ho _ _
    refine ⟨v.j, v.vv, ?_⟩
    simp only [Py.enumFrom, Py.forEach, List.append_nil, blockOf]
    obtain ⟨_, hget⟩ := List.getElem?_eq_some_iff.1 ho
    have e : v.out.set i (done.map (padF F) ++ List.replicate (T - done.length) (List.replicate F (0 : K))) = v.out := by
      rw [← hget]; exact List.set_getElem_self _
    rw [e]
  | cons x xs ih =>
    intro done v hvi hi ho hlen hF
    have hd : done.length < T := by simp at hlen; omega
    have hx : x.length ≤ F := hF x List.mem_cons_self
    have hstep := setRow_step F v.out i done.length _ x ho (block_get T F done hd) hx
    rw [block_set T F done x hd] at hstep
    obtain ⟨j', vv', hr⟩ := ih (done ++ [x])
      { v with j := (done.length : Int), vv := x, out := v.out.set i ((done ++ [x]).map (padF F) ++ List.replicate (T - (done ++ [x]).length) (List.replicate F (0 : K))) }
      hvi (by simpa using hi) (by simp [hi]) (by simp at hlen ⊢; omega) (fun vv h => hF vv (List.mem_cons_of_mem _ h))
    refine ⟨j', vv', ?_⟩
    have e : ((done ++ [x]).length : Int) = (done.length : Int) + 1 := by simp
    rw [e] at hr
    simp only [Py.enumFrom, Py.forEach, populations_get_impl.for5, hvi, hstep, Py.bind]
    simp only [hvi] at hr
    rw [hr]
    simp [List.append_assoc]
theorem out_set (doneP : List (List (List K))) (pop : List (List K)) (n : Nat) :
    (doneP.map (blockOf T F) ++ List.replicate (n + 1) (List.replicate T (List.replicate F (0 : K)))).set doneP.length (blockOf T F pop)
      = (doneP ++ [pop]).map (blockOf T F) ++ List.replicate n (List.replicate T (List.replicate F (0 : K))) := by
  rw [List.set_append_right _ _ (by simp)]
  simp [List.replicate_succ]

theorem outer_loop : ∀ (restP doneP : List (List (List K))) (v : populations_get_impl.V K),
    v.out = doneP.map (blockOf T F) ++ List.replicate restP.length (List.replicate T (List.replicate F (0 : K))) →
    (∀ pop ∈ restP, pop.length ≤ T ∧ ∀ vv ∈ pop, vv.length ≤ F) →
    ∃ i' j' w' vv', Py.forEach populations_get_impl.for6 (Py.enumFrom (doneP.length : Int) restP) v =
      .next { v with i := i', j := j', v := w', vv := vv', out := (doneP ++ restP).map (blockOf T F) } := by
  intro restP
  induction restP with
  | nil =>
    intro doneP v ho _
    have ho' : v.out = doneP.map (blockOf T F) := by simpa using ho
    exact ⟨v.i, v.j, v.v, v.vv, by simp [Py.enumFrom, Py.forEach, ← ho']⟩
  | cons pop rest ih =>
    intro doneP v ho hb
    obtain ⟨hpT, hpF⟩ := hb pop List.mem_cons_self
    have hlen : doneP.length < v.out.length := by rw [ho]; simp
    have hget : v.out[doneP.length]? = some (([] : List (List K)).map (padF F) ++
        List.replicate (T - ([] : List (List K)).length) (List.replicate F (0 : K))) := by
      rw [ho, List.getElem?_append_right (by simp)]
      simp [List.replicate_succ]
    obtain ⟨j', vv', hin⟩ := inner_loop T F doneP.length pop [] { v with i := (doneP.length : Int), v := pop } rfl hlen hget
      (by simpa using hpT) hpF
    have hset : v.out.set doneP.length (blockOf T F pop)
        = (doneP ++ [pop]).map (blockOf T F) ++ List.replicate rest.length (List.replicate T (List.replicate F (0 : K))) := by
      rw [ho]; exact out_set T F doneP pop rest.length
    obtain ⟨i2, j2, w2, vv2, hr⟩ := ih (doneP ++ [pop])
      { v with i := (doneP.length : Int), v := pop, j := j', vv := vv', out := v.out.set doneP.length (blockOf T F pop) } hset
      (fun p hp => hb p (List.mem_cons_of_mem _ hp))
    refine ⟨i2, j2, w2, vv2, ?_⟩
    have e : ((doneP ++ [pop]).length : Int) = (doneP.length : Int) + 1 := by simp
    rw [e] at hr
    dsimp only at hr
    simp only [List.length_nil, List.nil_append] at hin
    rw [show (((0 : Nat) : Int)) = (0 : Int) from rfl] at hin
    simp only [Py.enumFrom, Py.forEach, populations_get_impl.for6, Py.enumerate]
    rw [hin]
    dsimp only
    rw [hr]
    simp [List.append_assoc]
end populations

theorem pops_loop1 : ∀ (xs : List (List (List K))) (v : populations_get_impl.V K),
    ∃ w, Py.forEach populations_get_impl.for1 xs v = .next { v with v := w, c0_ := v.c0_ ++ xs.map fun x => (x.length : Int) } := by
  intro xs
  induction xs with
  | nil => intro v; exact ⟨v.v, by simp [Py.forEach]⟩
  | cons x xs ih =>
    intro v
    obtain ⟨w, hw⟩ := ih { v with v := x, c0_ := v.c0_ ++ [(x.length : Int)] }
    exact ⟨w, by simp only [Py.forEach, populations_get_impl.for1, Py.len]; rw [hw]; simp⟩

theorem pops_loop3 : ∀ (xs : List (List K)) (v : populations_get_impl.V K),
    ∃ w, Py.forEach populations_get_impl.for3 xs v = .next { v with vv := w, c4_ := v.c4_ ++ xs.map fun x => (x.length : Int) } := by
  intro xs
  induction xs with
  | nil => intro v; exact ⟨v.vv, by simp [Py.forEach]⟩
  | cons x xs ih =>
    intro v
    obtain ⟨w, hw⟩ := ih { v with vv := x, c4_ := v.c4_ ++ [(x.length : Int)] }
    exact ⟨w, by simp only [Py.forEach, populations_get_impl.for3, Py.len]; rw [hw]; simp⟩

theorem pops_loop4 : ∀ (xs : List (List (List K))) (v : populations_get_impl.V K),
    ∃ w vv' c4', Py.forEach populations_get_impl.for4 xs v =
      .next { v with v := w, vv := vv', c4_ := c4', c3_ := v.c3_ ++ xs.map fun x => x.map fun y => (y.length : Int) } := by
  intro xs
  induction xs with
  | nil => intro v; exact ⟨v.v, v.vv, v.c4_, by simp [Py.forEach]⟩
  | cons x xs ih =>
    intro v
    obtain ⟨w3, h3⟩ := pops_loop3 x { v with v := x, c4_ := [] }
    dsimp only at h3
    obtain ⟨w, vv', c4', hw⟩ := ih ⟨v.vals, v.len_max1, v.len_max2, v.out, v.i, v.j, x, w3, v.c0_,
      v.c3_ ++ [x.map fun y => (y.length : Int)], x.map (fun y => (y.length : Int))⟩
    dsimp only at hw
    refine ⟨w, vv', c4', ?_⟩
    simp only [Py.forEach, populations_get_impl.for4, Py.seq, Py.bindS, h3, List.nil_append]
    rw [hw]; simp

/-- **`PopulationsFeatureExtractor._get_impl` as translated**: for EVERY collection of populations with at least one tree in total (populations
of any sizes, empty ones included; value vectors of any lengths, empty ones included) nothing raises — this is where `max(*xs)` with a single
tree raised (D31) — and the answer has one block per population, every block with as many rows as the largest population: the trees' vectors
followed by zeros up to the longest vector of the whole collection, then zero rows.  With no tree at all it raises (`max()` of nothing). -/
theorem populations_refines (vals : List (List (List K))) :
    populations_get_impl vals =
      if vals.flatten = [] then none else some (vals.map (blockOf (maxLen vals) (maxLen vals.flatten))) := by
  obtain ⟨w1, h1⟩ := pops_loop1 vals ⟨vals, (default : populations_get_impl.V K).len_max1, (default : populations_get_impl.V K).len_max2, (default : populations_get_impl.V K).out, (default : populations_get_impl.V K).i, (default : populations_get_impl.V K).j, (default : populations_get_impl.V K).v, (default : populations_get_impl.V K).vv, [], (default : populations_get_impl.V K).c3_, (default : populations_get_impl.V K).c4_⟩
  by_cases hv : vals = []
  · subst hv
    simp [populations_get_impl, populations_get_impl.body, Py.seq, Py.bindS, Py.forEach, Py.Sh.maxInts, Py.bind, Py.finish]
  · have hm1 := maxInts_lens vals hv
    dsimp only at h1
    obtain ⟨w4, vv4, c44, h4⟩ := pops_loop4 vals ⟨vals, ((maxLen vals : Nat) : Int), (default : populations_get_impl.V K).len_max2, (default : populations_get_impl.V K).out, (default : populations_get_impl.V K).i, (default : populations_get_impl.V K).j, w1, (default : populations_get_impl.V K).vv,
      vals.map (fun x => (x.length : Int)), [], (default : populations_get_impl.V K).c4_⟩
    dsimp only at h4
    simp only [List.nil_append] at h1 h4
    have hfl : (vals.map fun x => x.map fun y => (y.length : Int)).flatten = vals.flatten.map fun y => (y.length : Int) := by
      rw [List.map_flatten]
    by_cases hf : vals.flatten = []
    · rw [if_pos hf]
      have hnone : Py.Sh.maxInts ([] : List Int) = none := rfl
      simp only [populations_get_impl, populations_get_impl.body, Py.seq, Py.bindS, h1, List.nil_append, hm1, Py.bind, h4, hfl, hf,
        List.map_nil, hnone, Py.finish, Option.map_none]
    · rw [if_neg hf]
      have hm2 := maxInts_lens vals.flatten hf
      have hz : Py.Sh.zeros3 (K := K) (Py.len vals) ((maxLen vals : Nat) : Int) ((maxLen vals.flatten : Nat) : Int)
          = some (List.replicate vals.length (List.replicate (maxLen vals) (List.replicate (maxLen vals.flatten) (0 : K)))) := by
        unfold Py.Sh.zeros3
        split
        · next h => exfalso; simp only [Py.len] at h; omega
        · simp [Py.len]
      obtain ⟨i', j', w', vv', h6⟩ := outer_loop (maxLen vals) (maxLen vals.flatten) vals []
        ⟨vals, ((maxLen vals : Nat) : Int), ((maxLen vals.flatten : Nat) : Int),
          List.replicate vals.length (List.replicate (maxLen vals) (List.replicate (maxLen vals.flatten) (0 : K))),
          (default : populations_get_impl.V K).i, (default : populations_get_impl.V K).j, w4, vv4, vals.map (fun x => (x.length : Int)), vals.map (fun x => x.map fun y => (y.length : Int)), c44⟩
        (by simp)
        (fun pop hp => ⟨maxLen_ge vals pop hp, fun vv hvv => maxLen_ge vals.flatten vv (List.mem_flatten.2 ⟨pop, hp, hvv⟩)⟩)
      simp only [List.length_nil, List.nil_append] at h6
      rw [show (((0 : Nat) : Int)) = (0 : Int) from rfl] at h6
      simp only [populations_get_impl, populations_get_impl.body, Py.seq, Py.bindS, h1, List.nil_append, hm1, Py.bind, h4, hfl, hm2, hz,
        Py.enumerate, h6, Py.finish, Option.map_some]

end RefineSholl
