import SwcVerif.Refine.AscLoop
/-! Refinement for C15, part 3c: `_skip_comments`, `_parse_tree`, `_parse` AS TRANSLATED against `Asc.skipComments` / `Asc.parseTop`, and the
composition generated parser ∘ generated walk = `Asc.convertTokens` (explicit fuel: `C15.convertWith`). -/
namespace RefineAscTop
open Gen.Algo Py Asc RefineAsc RefineAscParse RefineAscHeap RefineAscLoop
open C15 (ok_bind error_bind)
variable {encF : SwcText.Sci → Int}

theorem skip_loop : ∀ (f : Nat) (toks : List Tok) (nodes : List ASTNode), NoBad toks → skipComments f toks ≠ .error .fuel →
    ∀ n, f ≤ n → ∃ t', skipComments f toks = .ok t' ∧ NoBad t' ∧
      whileF parser_skip_comments.while1_cond parser_skip_comments.while1_body n ⟨st encF toks nodes⟩ = .next ⟨st encF t' nodes⟩
  | 0, _, _, _, hne, _, _ => absurd rfl hne
  | f + 1, toks, nodes, hnb, hne, n, hn => by
    obtain ⟨n', rfl⟩ : ∃ n', n = n' + 1 := ⟨n - 1, by omega⟩
    cases toks with
    | nil => exact ⟨[], rfl, hnb, by simp [whileF, parser_skip_comments.while1_cond, st]⟩
    | cons tk t =>
      cases tk with
      | comment c =>
        have e : skipComments (f + 1) (.comment c :: t) = skipComments f t := by
          simp only [skipComments, adv_noBad _ _ hnb, ok_bind]
        rw [e] at hne ⊢
        obtain ⟨t', h1, h2, h3⟩ := skip_loop f t nodes hnb.tail hne n' (by omega)
        refine ⟨t', h1, h2, ?_⟩
        rw [← h3]
        simp [whileF, parser_skip_comments.while1_cond, parser_skip_comments.while1_body, Py.bind, read_token_st, enc]
      | _ =>
        refine ⟨_, rfl, hnb, ?_⟩
        simp [whileF, parser_skip_comments.while1_cond, enc]

theorem skip_comments_sim (f : Nat) (toks : List Tok) (nodes : List ASTNode) (hnb : NoBad toks) (hne : skipComments f toks ≠ .error .fuel)
    (n : Nat) (hn : f ≤ n) : ∃ t', skipComments f toks = .ok t' ∧ NoBad t' ∧
      parser_skip_comments n (st encF toks nodes) = some (st encF t' nodes, ()) := by
  obtain ⟨t', h1, h2, h3⟩ := skip_loop (encF := encF) f toks nodes hnb hne n hn
  refine ⟨t', h1, h2, ?_⟩
  simp only [parser_skip_comments, parser_skip_comments.body]
  show (Py.finish default (whileF parser_skip_comments.while1_cond parser_skip_comments.while1_body n ⟨st encF toks nodes⟩)).map _ = _
  rw [h3]
  rfl

/-- the TREE record `_parse_tree` allocates -/
def treeRec (w : SwcText.Str) : ASTNode :=
  { type := 2, value := .at (.str (Py.strUpper (String.ofList w))), children := [], parent := none }

/-- result of `_parse_tree(root)` / of a top-level `_parse_color(root)`: the heap `nodes` became `n3`, and whatever is built under the
ROOT afterwards (`n3` to `n4`, rows `new2`) extends to a `Built` from `nodes` with `new1` in front -/
def TreePost (encF : SwcText.Sci → Int) (U : Int) (rows : List Asc.Row) (nodes : List ASTNode) (ρ : Nat) (out : Option (Parser × Unit)) :
    Except Err (List Tok × List Asc.Row) → Prop
  | .error _ => out = none
  | .ok (tr, rowsr) => ∃ n3 new1, out = some (st encF tr n3, ()) ∧ rowsr = rows ++ new1 ∧ NoBad tr ∧ nodes.length ≤ n3.length ∧
      ∀ n4 new2, Built encF U n3 n4 ρ ρ (-1) (-1) (rows.length + new1.length) new2 →
        Built encF U nodes n4 ρ ρ (-1) (-1) rows.length (new1 ++ new2)

theorem labelCode_tree (w : SwcText.Str) (h : upper w = "AXON".toList ∨ upper w = "DENDRITE".toList) :
    labelCode (treeRec w).value =
      some (if upper w = "AXON".toList then Gen.Consts.type_axon else Gen.Consts.type_basal_dendrite) := by
  have e1 : Val.eqStr (treeRec w).value "AXON" = decide (upper w = "AXON".toList) := by
    simp only [treeRec, Val.eqStr, Val.at.injEq, Atom.str.injEq]
    rw [upper_decide]
  have e2 : Val.eqStr (treeRec w).value "DENDRITE" = decide (upper w = "DENDRITE".toList) := by
    simp only [treeRec, Val.eqStr, Val.at.injEq, Atom.str.injEq]
    rw [upper_decide]
  unfold labelCode
  rw [e1, e2]
  rcases h with h | h
  · simp [h]
  · have : ¬ upper w = "AXON".toList := by rw [h]; decide
    simp [h]

/-- `_parse_tree` as translated, as the sequence of its five calls -/
theorem tree_unfold (G : Nat) (w : SwcText.Str) (t' : List Tok) (nodes : List ASTNode) (root : Int) :
    parser_parse_tree G (st encF (.literal w :: t') nodes) root =
      match parser_assert_and_cunsume (st encF t' (nodes ++ [treeRec w])) 2 with
      | none => none
      | some a => match parser_skip_comments G a.1 with
        | none => none
        | some b => match parser_assert_and_cunsume b.1 1 with
          | none => none
          | some c => match parser_parse_subtree G c.1 (nodes.length : Int) false with
            | none => none
            | some d => match ast_add_child d.1.nodes root (nodes.length : Int) with
              | none => none
              | some e => some ({ d.1 with nodes := e.1 }, ()) := by
  have hst : ({ lexer := (st encF t' nodes).lexer, next_token := (st encF t' nodes).next_token, nodes := nodes ++ [treeRec w] } : Parser)
      = st encF t' (nodes ++ [treeRec w]) := rfl
  have hd : ({ type := 2, value := Val.at (Atom.str (strUpper (String.ofList w))), children := (default : ASTNode).children, parent := (default : ASTNode).parent } : ASTNode) = treeRec w := rfl
  have h0 : parser_assert_and_cunsume (st encF (.literal w :: t') nodes) 6 = some (st encF t' nodes, enc encF (.literal w)) := by
    rw [assert_and_cunsume_st]; simp [enc]
  simp only [parser_parse_tree, parser_parse_tree.body, Py.seq, Py.bind, Py.finish, h0, enc, Py.Atom.str?, Py.alloc, hd, hst, st_nodes]
  cases parser_assert_and_cunsume (st encF t' (nodes ++ [treeRec w])) 2 with
  | none => rfl
  | some a =>
    simp only
    cases parser_skip_comments G a.1 with
    | none => rfl
    | some b =>
      simp only
      cases parser_assert_and_cunsume b.1 1 with
      | none => rfl
      | some c =>
        simp only
        cases parser_parse_subtree G c.1 (nodes.length : Int) false with
        | none => rfl
        | some d =>
          simp only
          cases ast_add_child d.1.nodes root (nodes.length : Int) with
          | none => rfl
          | some e => rfl

/-- **`_parse_tree` as translated**: label, `)`, comments, `(`, the subtree, attached to the ROOT at the end -/
theorem parse_tree_refines (U ty : Int) (f : Nat) (w : SwcText.Str) (t' : List Tok) (rows : List Asc.Row) (nodes : List ASTNode) (ρ G : Nat)
    (hnb : NoBad (.literal w :: t')) (hlab : labelCode (treeRec w).value = some ty) (hG : 2 * f + 1 ≤ G) (hρ : ρ < nodes.length)
    (hne : (expectRp t' >>= fun t3 => skipComments f t3 >>= fun t4 => expectLp t4 >>= fun t5 =>
      parseSubtree ty f t5 false (-1) (-1) rows) ≠ .error .fuel) :
    TreePost encF U rows nodes ρ (parser_parse_tree G (st encF (.literal w :: t') nodes) (ρ : Int))
      (expectRp t' >>= fun t3 => skipComments f t3 >>= fun t4 => expectLp t4 >>= fun t5 => parseSubtree ty f t5 false (-1) (-1) rows) := by
  have hnt := hnb.tail
  rw [tree_unfold, expectRp_refines encF t' _ hnt]
  revert hne
  cases h1 : expectRp t' with
  | error e => intro _; simp only [error_bind, TreePost]
  | ok t3 =>
    have hn3 : NoBad t3 := noBad_drop hnt [.rp] t3 (by simpa using expectRp_ok t' t3 hnt h1)
    simp only [ok_bind]
    intro hne
    have hne2 : skipComments f t3 ≠ .error .fuel := by
      intro h; rw [h] at hne; exact hne rfl
    obtain ⟨t4, h2, hn4, hs4⟩ := skip_comments_sim (encF := encF) f t3 (nodes ++ [treeRec w]) hn3 hne2 G (by omega)
    rw [h2] at hne ⊢
    simp only [ok_bind, hs4] at hne ⊢
    rw [expectLp_refines encF t4 _ hn4]
    revert hne
    cases h3 : expectLp t4 with
    | error e => intro _; simp only [error_bind, TreePost]
    | ok t5 =>
      have hn5 : NoBad t5 := noBad_drop hn4 [.lp] t5 (by simpa using expectLp_ok t4 t5 hn4 h3)
      simp only [ok_bind]
      intro hne
      have hsub := subtree_of_loop (loop_sim (encF := encF) ty f) t5 false (-1) rows hn5 hne G hG (nodes ++ [treeRec w]) nodes.length (by simp)
      revert hsub
      cases parseSubtree ty f t5 false (-1) (-1) rows with
      | error e => intro hsub; simp only [SubPost] at hsub; simp only [hsub, TreePost]
      | ok r =>
        obtain ⟨tr, rowsr⟩ := r
        intro hsub
        obtain ⟨n2, new1, g1, g2, g3, g4⟩ := hsub
        have hlen := g4.len
        simp only [List.length_append, List.length_singleton] at hlen
        obtain ⟨n3, a1, a2, a3⟩ := add_child_step n2 ρ nodes.length (by omega) (by omega)
        simp only [g1, st_nodes, a1]
        refine ⟨n3, new1, rfl, g2, g3, by omega, ?_⟩
        intro n4 new2 h4
        exact Built.tree encF (treeRec w) hρ rfl hlab rfl g4 a3 a2 h4

end RefineAscTop
