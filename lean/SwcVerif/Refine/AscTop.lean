import SwcVerif.Refine.AscLoop
/-! Refinement for C15, part 3c: `_skip_comments`, `_parse_tree`, `_parse` AS TRANSLATED against `Asc.skipComments` / `Asc.parseTop`, and the
composition generated parser ∘ generated walk = `Asc.convertTokens` (explicit fuel: `C15.convertWith`). -/
namespace RefineAscTop
open Gen.Algo Py Asc RefineAsc RefineAscParse RefineAscHeap RefineAscLoop
open C15 (ok_bind error_bind)
variable {encF : SwcText.Sci → Int}

theorem skip_loop : ∀ (f : Nat) (toks : List Tok) (nodes : List ASTNode), NoBad toks → skipComments f toks ≠ .error .fuel →
    ∀ n, f ≤ n → ∃ t', skipComments f toks = .ok t' ∧ NoBad t' ∧
      whileF parser_skip_comments.while1_cond parser_skip_comments.while1_body n ⟨st encF toks nodes⟩ = .next ⟨st encF t' nodes⟩
  | 0, _, _, _, hne, _, _ => absurd rfl hne
  | f + 1, toks, nodes, hnb, hne, n, hn => by
    obtain ⟨n', rfl⟩ : ∃ n', n = n' + 1 := ⟨n - 1, by omega⟩
    cases toks with
    | nil => exact ⟨[], rfl, hnb, by simp [whileF, parser_skip_comments.while1_cond, st]⟩
    | cons tk t =>
      cases tk with
      | comment c =>
        have e : skipComments (f + 1) (.comment c :: t) = skipComments f t := by
          simp only [skipComments, adv_noBad _ _ hnb, ok_bind]
        rw [e] at hne ⊢
        obtain ⟨t', h1, h2, h3⟩ := skip_loop f t nodes hnb.tail hne n' (by omega)
        refine ⟨t', h1, h2, ?_⟩
        rw [← h3]
        simp [whileF, parser_skip_comments.while1_cond, parser_skip_comments.while1_body, Py.bind, read_token_st, enc]
      | _ =>
        refine ⟨_, rfl, hnb, ?_⟩
        simp [whileF, parser_skip_comments.while1_cond, enc]

theorem skip_comments_sim (f : Nat) (toks : List Tok) (nodes : List ASTNode) (hnb : NoBad toks) (hne : skipComments f toks ≠ .error .fuel)
    (n : Nat) (hn : f ≤ n) : ∃ t', skipComments f toks = .ok t' ∧ NoBad t' ∧
      parser_skip_comments n (st encF toks nodes) = some (st encF t' nodes, ()) := by
  obtain ⟨t', h1, h2, h3⟩ := skip_loop (encF := encF) f toks nodes hnb hne n hn
  refine ⟨t', h1, h2, ?_⟩
  simp only [parser_skip_comments, parser_skip_comments.body]
  show (Py.finish default (whileF parser_skip_comments.while1_cond parser_skip_comments.while1_body n ⟨st encF toks nodes⟩)).map _ = _
  rw [h3]
  rfl

/-- the TREE record `_parse_tree` allocates -/
def treeRec (w : SwcText.Str) : ASTNode :=
  { type := 2, value := .at (.str (Py.strUpper (String.ofList w))), children := [], parent := none }

/-- result of `_parse_tree(root)` / of a top-level `_parse_color(root)`: the heap `nodes` became `n3`, and whatever is built under the
ROOT afterwards (`n3` to `n4`, rows `new2`) extends to a `Built` from `nodes` with `new1` in front -/
def TreePost (encF : SwcText.Sci → Int) (U : Int) (rows : List Asc.Row) (nodes : List ASTNode) (ρ : Nat) (out : Option (Parser × Unit)) :
    Except Err (List Tok × List Asc.Row) → Prop
  | .error _ => out = none
  | .ok (tr, rowsr) => ∃ n3 new1, out = some (st encF tr n3, ()) ∧ rowsr = rows ++ new1 ∧ NoBad tr ∧ nodes.length ≤ n3.length ∧
      ∀ n4 new2, Built encF U n3 n4 ρ ρ (-1) (-1) (rows.length + new1.length) new2 →
        Built encF U nodes n4 ρ ρ (-1) (-1) rows.length (new1 ++ new2)

theorem labelCode_tree (w : SwcText.Str) (h : upper w = "AXON".toList ∨ upper w = "DENDRITE".toList) :
    labelCode (treeRec w).value =
      some (if upper w = "AXON".toList then Gen.Consts.type_axon else Gen.Consts.type_basal_dendrite) := by
  have e1 : Val.eqStr (treeRec w).value "AXON" = decide (upper w = "AXON".toList) := by
    simp only [treeRec, Val.eqStr, Val.at.injEq, Atom.str.injEq]
    rw [upper_decide]
  have e2 : Val.eqStr (treeRec w).value "DENDRITE" = decide (upper w = "DENDRITE".toList) := by
    simp only [treeRec, Val.eqStr, Val.at.injEq, Atom.str.injEq]
    rw [upper_decide]
  unfold labelCode
  rw [e1, e2]
  rcases h with h | h
  · simp [h]
  · have : ¬ upper w = "AXON".toList := by rw [h]; decide
    simp [h]

/-- `_parse_tree` as translated, as the sequence of its five calls -/
theorem tree_unfold (G : Nat) (w : SwcText.Str) (t' : List Tok) (nodes : List ASTNode) (root : Int) :
    parser_parse_tree G (st encF (.literal w :: t') nodes) root =
      match parser_assert_and_cunsume (st encF t' (nodes ++ [treeRec w])) 2 with
      | none => none
      | some a => match parser_skip_comments G a.1 with
        | none => none
        | some b => match parser_assert_and_cunsume b.1 1 with
          | none => none
          | some c => match parser_parse_subtree G c.1 (nodes.length : Int) false with
            | none => none
            | some d => match ast_add_child d.1.nodes root (nodes.length : Int) with
              | none => none
              | some e => some ({ d.1 with nodes := e.1 }, ()) := by
  have hst : ({ lexer := (st encF t' nodes).lexer, next_token := (st encF t' nodes).next_token, nodes := nodes ++ [treeRec w] } : Parser)
      = st encF t' (nodes ++ [treeRec w]) := rfl
  have hd : ({ type := 2, value := Val.at (Atom.str (strUpper (String.ofList w))), children := (default : ASTNode).children, parent := (default : ASTNode).parent } : ASTNode) = treeRec w := rfl
  have h0 : parser_assert_and_cunsume (st encF (.literal w :: t') nodes) 6 = some (st encF t' nodes, enc encF (.literal w)) := by
    rw [assert_and_cunsume_st]; simp [enc]
  simp only [parser_parse_tree, parser_parse_tree.body, Py.seq, Py.bind, Py.finish, h0, enc, Py.Atom.str?, Py.alloc, hd, hst, st_nodes]
  cases parser_assert_and_cunsume (st encF t' (nodes ++ [treeRec w])) 2 with
  | none => rfl
  | some a =>
    simp only
    cases parser_skip_comments G a.1 with
    | none => rfl
    | some b =>
      simp only
      cases parser_assert_and_cunsume b.1 1 with
      | none => rfl
      | some c =>
        simp only
        cases parser_parse_subtree G c.1 (nodes.length : Int) false with
        | none => rfl
        | some d =>
          simp only
          cases ast_add_child d.1.nodes root (nodes.length : Int) with
          | none => rfl
          | some e => rfl

/-- **`_parse_tree` as translated**: label, `)`, comments, `(`, the subtree, attached to the ROOT at the end -/
theorem parse_tree_refines (U ty : Int) (f : Nat) (w : SwcText.Str) (t' : List Tok) (rows : List Asc.Row) (nodes : List ASTNode) (ρ G : Nat)
    (hnb : NoBad (.literal w :: t')) (hlab : labelCode (treeRec w).value = some ty) (hG : 2 * f + 1 ≤ G) (hρ : ρ < nodes.length)
    (hne : (expectRp t' >>= fun t3 => skipComments f t3 >>= fun t4 => expectLp t4 >>= fun t5 =>
      parseSubtree ty f t5 false (-1) (-1) rows) ≠ .error .fuel) :
    TreePost encF U rows nodes ρ (parser_parse_tree G (st encF (.literal w :: t') nodes) (ρ : Int))
      (expectRp t' >>= fun t3 => skipComments f t3 >>= fun t4 => expectLp t4 >>= fun t5 => parseSubtree ty f t5 false (-1) (-1) rows) := by
  have hnt := hnb.tail
  rw [tree_unfold, expectRp_refines encF t' _ hnt]
  revert hne
  cases h1 : expectRp t' with
  | error e => intro _; simp only [error_bind, TreePost]
  | ok t3 =>
    have hn3 : NoBad t3 := noBad_drop hnt [.rp] t3 (by simpa using expectRp_ok t' t3 hnt h1)
    simp only [ok_bind]
    intro hne
    have hne2 : skipComments f t3 ≠ .error .fuel := by
      intro h; rw [h] at hne; exact hne rfl
    obtain ⟨t4, h2, hn4, hs4⟩ := skip_comments_sim (encF := encF) f t3 (nodes ++ [treeRec w]) hn3 hne2 G (by omega)
    rw [h2] at hne ⊢
    simp only [ok_bind, hs4] at hne ⊢
    rw [expectLp_refines encF t4 _ hn4]
    revert hne
    cases h3 : expectLp t4 with
    | error e => intro _; simp only [error_bind, TreePost]
    | ok t5 =>
      have hn5 : NoBad t5 := noBad_drop hn4 [.lp] t5 (by simpa using expectLp_ok t4 t5 hn4 h3)
      simp only [ok_bind]
      intro hne
      have hsub := subtree_of_loop (loop_sim (encF := encF) ty f) t5 false (-1) rows hn5 hne G hG (nodes ++ [treeRec w]) nodes.length (by simp)
      revert hsub
      cases parseSubtree ty f t5 false (-1) (-1) rows with
      | error e => intro hsub; simp only [SubPost] at hsub; simp only [hsub, TreePost]
      | ok r =>
        obtain ⟨tr, rowsr⟩ := r
        intro hsub
        obtain ⟨n2, new1, g1, g2, g3, g4⟩ := hsub
        have hlen := g4.len
        simp only [List.length_append, List.length_singleton] at hlen
        obtain ⟨n3, a1, a2, a3⟩ := add_child_step n2 ρ nodes.length (by omega) (by omega)
        simp only [g1, st_nodes, a1]
        refine ⟨n3, new1, rfl, g2, g3, by omega, ?_⟩
        intro n4 new2 h4
        exact Built.tree encF (treeRec w) hρ rfl hlab rfl g4 a3 a2 h4

abbrev TV := parser_parse.V
/-- the `while` loop of `_parse` -/
abbrev TW (G n : Nat) (v : TV) : Res TV Int := whileF parser_parse.while1_cond (parser_parse.while1_body G) n v

theorem W_next (G n : Nat) (v v' : TV) (h : parser_parse.while1_body G v = .next v') : TW G (n + 1) v = TW G n v' := by
  simp only [TW, whileF, parser_parse.while1_cond, h]
theorem W_cont (G n : Nat) (v v' : TV) (h : parser_parse.while1_body G v = .cont v') : TW G (n + 1) v = TW G n v' := by
  simp only [TW, whileF, parser_parse.while1_cond, h]
theorem W_brk (G n : Nat) (v v' : TV) (h : parser_parse.while1_body G v = .brk v') : TW G (n + 1) v = .next v' := by
  simp only [TW, whileF, parser_parse.while1_cond, h]
theorem W_err (G n : Nat) (v : TV) (h : parser_parse.while1_body G v = .err) : TW G (n + 1) v = .err := by
  simp only [TW, whileF, parser_parse.while1_cond, h]

theorem top_nil (G : Nat) (v : TV) (nodes : List ASTNode) (hs : v.self = st encF [] nodes) :
    parser_parse.while1_body G v = .brk { v with token := none } := by
  simp [parser_parse.while1_body, Py.seq, hs]

theorem top_comment (G : Nat) (v : TV) (c : SwcText.Str) (t : List Tok) (nodes : List ASTNode) (hs : v.self = st encF (.comment c :: t) nodes) :
    parser_parse.while1_body G v = .cont { v with token := some (enc encF (.comment c)), self := st encF t nodes } := by
  simp [parser_parse.while1_body, Py.seq, Py.bind, Py.skip, hs, enc, read_token_st]

theorem top_rp (G : Nat) (v : TV) (t : List Tok) (nodes : List ASTNode) (hs : v.self = st encF (.rp :: t) nodes) :
    parser_parse.while1_body G v = .brk { v with token := some (enc encF .rp) } := by
  simp [parser_parse.while1_body, Py.seq, Py.bind, Py.skip, hs, enc]

theorem top_other (G : Nat) (v : TV) (x : Tok) (t : List Tok) (nodes : List ASTNode) (hs : v.self = st encF (x :: t) nodes)
    (h1 : x ≠ .lp) (h2 : x ≠ .rp) (h3 : ∀ c, x ≠ .comment c) : parser_parse.while1_body G v = .err := by
  cases x <;> simp_all [parser_parse.while1_body, Py.seq, Py.bind, Py.skip, enc]

theorem top_lp_nil (G : Nat) (v : TV) (nodes : List ASTNode) (hs : v.self = st encF [.lp] nodes) :
    parser_parse.while1_body G v = .err := by
  simp [parser_parse.while1_body, Py.seq, Py.bind, Py.skip, hs, enc, consume_st, assert_eq]

theorem top_lp_other (G : Nat) (v : TV) (x : Tok) (t : List Tok) (nodes : List ASTNode) (hs : v.self = st encF (.lp :: x :: t) nodes)
    (h : ∀ w, x ≠ .literal w) : parser_parse.while1_body G v = .err := by
  cases x <;> simp_all [parser_parse.while1_body, Py.seq, Py.bind, Py.skip, enc, consume_st, assert_eq]

theorem top_lp_tree (G : Nat) (v : TV) (w : SwcText.Str) (t : List Tok) (nodes : List ASTNode)
    (hs : v.self = st encF (.lp :: .literal w :: t) nodes) (hw : upper w = "AXON".toList ∨ upper w = "DENDRITE".toList) :
    parser_parse.while1_body G v = match parser_parse_tree G (st encF (.literal w :: t) nodes) v.root with
      | none => .err
      | some r => .next { v with token := some (enc encF (.literal w)), self := r.1 } := by
  have hcond : (decide (Py.strUpper (String.ofList w) = "AXON") || decide (Py.strUpper (String.ofList w) = "DENDRITE")) = true := by
    rw [upper_decide, upper_decide]
    rcases hw with h | h <;> simp [h]
  cases h : parser_parse_tree G (st encF (.literal w :: t) nodes) v.root <;>
    simp [parser_parse.while1_body, Py.seq, Py.bind, Py.skip, hs, enc, consume_st, assert_eq, Py.Atom.str?, hcond, h]

theorem top_lp_color (G : Nat) (v : TV) (w : SwcText.Str) (t : List Tok) (nodes : List ASTNode)
    (hs : v.self = st encF (.lp :: .literal w :: t) nodes) (hw : upper w = "COLOR".toList) :
    parser_parse.while1_body G v = match parser_parse_color (st encF (.literal w :: t) nodes) v.root with
      | none => .err
      | some r => .next { v with token := some (enc encF (.literal w)), self := r.1 } := by
  have hw' : upper w = ['C', 'O', 'L', 'O', 'R'] := hw
  cases h : parser_parse_color (st encF (.literal w :: t) nodes) v.root <;>
    simp [parser_parse.while1_body, Py.seq, Py.bind, Py.skip, hs, enc, consume_st, assert_eq, Py.Atom.str?, upper_decide, hw', h]

theorem top_lp_lit_other (G : Nat) (v : TV) (w : SwcText.Str) (t : List Tok) (nodes : List ASTNode)
    (hs : v.self = st encF (.lp :: .literal w :: t) nodes) (h1 : upper w ≠ "AXON".toList) (h2 : upper w ≠ "DENDRITE".toList)
    (h3 : upper w ≠ "COLOR".toList) : parser_parse.while1_body G v = .err := by
  have h1' : ¬ upper w = ['A', 'X', 'O', 'N'] := h1
  have h2' : ¬ upper w = ['D', 'E', 'N', 'D', 'R', 'I', 'T', 'E'] := h2
  have h3' : ¬ upper w = ['C', 'O', 'L', 'O', 'R'] := h3
  simp [parser_parse.while1_body, Py.seq, Py.bind, Py.skip, hs, enc, consume_st, assert_eq, Py.Atom.str?, upper_decide, h1', h2', h3']

/-! ### the simulation of the `_parse` loop against `Asc.parseTop` -/

def U : Int := Gen.Consts.type_undefined

def TopPost (encF : SwcText.Sci → Int) (rows : List Asc.Row) (nodes : List ASTNode) (ρ : Nat) (out : Res TV Int) :
    Except Err (List Tok × List Asc.Row) → Prop
  | .error _ => out = .err
  | .ok (t', rows') => ∃ v' nodes' new, out = .next v' ∧ v'.self = st encF t' nodes' ∧ v'.root = (ρ : Int) ∧ rows' = rows ++ new ∧ NoBad t' ∧
      Built encF U nodes nodes' ρ ρ (-1) (-1) rows.length new

def TopSpec (encF : SwcText.Sci → Int) (f : Nat) : Prop :=
  ∀ (toks : List Tok) (rows : List Asc.Row), NoBad toks → parseTop f toks rows ≠ .error .fuel →
    ∀ (G n : Nat) (v : TV) (nodes : List ASTNode) (ρ : Nat), f ≤ n → 2 * f ≤ G → v.self = st encF toks nodes → v.root = (ρ : Int) →
      ρ < nodes.length → TopPost encF rows nodes ρ (TW G n v) (parseTop f toks rows)

theorem TopPost.cont {rows new1 : List Asc.Row} {nodes n3 : List ASTNode} {ρ : Nat} {out : Res TV Int}
    {res : Except Err (List Tok × List Asc.Row)}
    (cap : ∀ n4 new2, Built encF U n3 n4 ρ ρ (-1) (-1) (rows.length + new1.length) new2 →
      Built encF U nodes n4 ρ ρ (-1) (-1) rows.length (new1 ++ new2))
    (h : TopPost encF (rows ++ new1) n3 ρ out res) : TopPost encF rows nodes ρ out res := by
  cases res with
  | error e => exact h
  | ok r =>
    obtain ⟨v', nodes', new, g1, g2, g3, g4, g5, g6⟩ := h
    refine ⟨v', nodes', new1 ++ new, g1, g2, g3, by rw [g4]; simp, g5, cap _ _ ?_⟩
    simpa using g6

theorem parseTop_lp_other (f : Nat) (x : Tok) (t' : List Tok) (rows : List Asc.Row) (hnb : NoBad (.lp :: x :: t'))
    (h : ∀ w, x ≠ .literal w) : parseTop (f + 1) (.lp :: x :: t') rows = .error .tokenType := by
  cases x with
  | literal w => exact absurd rfl (h w)
  | _ => simp only [parseTop, adv_noBad _ _ hnb, ok_bind]

theorem parseTop_other (f : Nat) (x : Tok) (t' : List Tok) (rows : List Asc.Row)
    (h1 : x ≠ .lp) (h2 : x ≠ .rp) (h3 : ∀ c, x ≠ .comment c) : parseTop (f + 1) (x :: t') rows = .error .tokenType := by
  cases x with
  | lp => exact absurd rfl h1
  | rp => exact absurd rfl h2
  | comment c => exact absurd rfl (h3 c)
  | _ => simp only [parseTop]

theorem top_step {f : Nat} (hP : TopSpec encF f) : TopSpec encF (f + 1) := by
  intro toks rows hnb hne G n v nodes ρ hn hG hs hr hρ
  obtain ⟨n', rfl⟩ : ∃ n', n = n' + 1 := ⟨n - 1, by omega⟩
  cases toks with
  | nil =>
    have e : parseTop (f + 1) [] rows = .ok ([], rows) := by simp only [parseTop]
    rw [e, W_brk _ _ _ _ (top_nil G v nodes hs)]
    exact ⟨_, nodes, [], rfl, hs, hr, by simp, hnb, Built.nil encF U nodes ρ ρ _ _ _⟩
  | cons tk t =>
    have hnt := hnb.tail
    by_cases hlp : tk = .lp
    · subst hlp
      cases t with
      | nil =>
        have e : parseTop (f + 1) [.lp] rows = .error .eof := by simp only [parseTop, adv, ok_bind]
        rw [e]
        exact W_err _ _ _ (top_lp_nil G v nodes hs)
      | cons x t' =>
        by_cases hx : ∃ w, x = .literal w
        · obtain ⟨w, rfl⟩ := hx
          by_cases hw : upper w = "AXON".toList ∨ upper w = "DENDRITE".toList
          · have hc : (upper w = "AXON".toList || upper w = "DENDRITE".toList) = true := by
              rcases hw with h | h <;> simp [h]
            have e : parseTop (f + 1) (.lp :: .literal w :: t') rows =
                ((expectRp t' >>= fun t3 => skipComments f t3 >>= fun t4 => expectLp t4 >>= fun t5 =>
                  parseSubtree (if upper w = "AXON".toList then Gen.Consts.type_axon else Gen.Consts.type_basal_dendrite) f t5 false (-1) (-1) rows)
                  >>= fun r => parseTop f r.1 r.2) := by
              simp only [parseTop, adv_noBad _ _ hnb, adv_noBad _ _ hnt, ok_bind, hc, if_true, bind_assoc]
            rw [e] at hne ⊢
            have hb := top_lp_tree G v w t' nodes hs hw
            rw [hr] at hb
            have hne1 : (expectRp t' >>= fun t3 => skipComments f t3 >>= fun t4 => expectLp t4 >>= fun t5 =>
                parseSubtree (if upper w = "AXON".toList then Gen.Consts.type_axon else Gen.Consts.type_basal_dendrite) f t5 false (-1) (-1) rows)
                ≠ .error .fuel := by
              intro h; rw [h] at hne; exact hne rfl
            have htree := parse_tree_refines (encF := encF) U _ f w t' rows nodes ρ G hnt (labelCode_tree w hw) (by omega) hρ hne1
            revert htree hne
            cases (expectRp t' >>= fun t3 => skipComments f t3 >>= fun t4 => expectLp t4 >>= fun t5 =>
                parseSubtree (if upper w = "AXON".toList then Gen.Consts.type_axon else Gen.Consts.type_basal_dendrite) f t5 false (-1) (-1) rows) with
            | error er =>
              intro hne htree
              simp only [TreePost] at htree
              rw [htree] at hb
              exact W_err _ _ _ hb
            | ok r =>
              obtain ⟨tr, rowsr⟩ := r
              intro hne htree
              simp only [ok_bind] at hne ⊢
              obtain ⟨n3, new1, g1, g2, g3, g4, cap⟩ := htree
              rw [g1] at hb
              rw [W_next _ _ _ _ hb]
              subst g2
              exact TopPost.cont cap (hP tr _ g3 hne G n' _ n3 ρ (by omega) (by omega) rfl rfl (by omega))
          · have h1 : upper w ≠ "AXON".toList := fun h => hw (Or.inl h)
            have h2 : upper w ≠ "DENDRITE".toList := fun h => hw (Or.inr h)
            have hc : (decide (upper w = "AXON".toList) || decide (upper w = "DENDRITE".toList)) = false := by
              rw [decide_eq_false h1, decide_eq_false h2]; rfl
            by_cases h3 : upper w = "COLOR".toList
            · have e : parseTop (f + 1) (.lp :: .literal w :: t') rows = (parseColor (.literal w :: t') >>= fun t2 => parseTop f t2 rows) := by
                simp only [parseTop, adv_noBad _ _ hnb, ok_bind]
                rw [hc]
                simp only [Bool.false_eq_true, if_false, if_pos h3]
              rw [e] at hne ⊢
              have hb := top_lp_color G v w t' nodes hs h3
              rw [hr, parse_color_refines encF _ _ _ hnt] at hb
              revert hb hne
              cases hpc : parseColor (.literal w :: t') with
              | error er =>
                intro hne hb
                exact W_err _ _ _ hb
              | ok rest =>
                intro hne hb
                simp only [ok_bind] at hne ⊢
                obtain ⟨n1, a1, a2, a3⟩ := attach nodes (colorRec encF (.literal w :: t')) ρ hρ
                simp only [a1, Option.map_some] at hb
                rw [W_next _ _ _ _ hb]
                have cap : ∀ n4 new2, Built encF U n1 n4 ρ ρ (-1) (-1) (rows.length + ([] : List Asc.Row).length) new2 →
                    Built encF U nodes n4 ρ ρ (-1) (-1) rows.length ([] ++ new2) := by
                  intro n4 new2 h4
                  exact Built.leaf encF (colorRec encF (.literal w :: t')) hρ hρ (Or.inl rfl) rfl a3 a2 (by simpa using h4)
                refine TopPost.cont cap ?_
                rw [List.append_nil]
                exact hP rest rows (parseColor_noBad _ hnt _ hpc) hne G n' _ n1 ρ (by omega) (by omega) rfl rfl (by omega)
            · have e : parseTop (f + 1) (.lp :: .literal w :: t') rows = .error .literal := by
                simp only [parseTop, adv_noBad _ _ hnb, ok_bind]
                rw [hc]
                simp only [Bool.false_eq_true, if_false, if_neg h3]
              rw [e]
              exact W_err _ _ _ (top_lp_lit_other G v w t' nodes hs h1 h2 h3)
        · have hx' : ∀ w, x ≠ .literal w := fun w h => hx ⟨w, h⟩
          rw [parseTop_lp_other f x t' rows hnb hx']
          exact W_err _ _ _ (top_lp_other G v x t' nodes hs hx')
    · by_cases hrp : tk = .rp
      · subst hrp
        have e : parseTop (f + 1) (.rp :: t) rows = .ok (.rp :: t, rows) := by simp only [parseTop]
        rw [e, W_brk _ _ _ _ (top_rp G v t nodes hs)]
        exact ⟨_, nodes, [], rfl, hs, hr, by simp, hnb, Built.nil encF U nodes ρ ρ _ _ _⟩
      · by_cases hcm : ∃ c, tk = .comment c
        · obtain ⟨c, rfl⟩ := hcm
          have e : parseTop (f + 1) (.comment c :: t) rows = parseTop f t rows := by
            simp only [parseTop, adv_noBad _ _ hnb, ok_bind]
          rw [e] at hne ⊢
          rw [W_cont _ _ _ _ (top_comment G v c t nodes hs)]
          exact hP t rows hnt hne G n' _ nodes ρ (by omega) (by omega) rfl hr hρ
        · have hcm' : ∀ c, tk ≠ .comment c := fun c h => hcm ⟨c, h⟩
          rw [parseTop_other f tk t rows hlp hrp hcm']
          exact W_err _ _ _ (top_other G v tk t nodes hs hlp hrp hcm')

/-- **the `while` loop of `_parse` as translated does what `Asc.parseTop` does** -/
theorem top_sim : ∀ f : Nat, TopSpec encF f
  | 0 => by intro toks rows _ hne; exact absurd rfl hne
  | f + 1 => top_step (top_sim f)

def rootRec : ASTNode := { type := 1, value := default, children := [], parent := none }

theorem parse_unfold (G : Nat) (toks : List Tok) (nodes0 : List ASTNode) :
    parser_parse G (st encF toks nodes0) =
      match parser_skip_comments G (st encF toks (nodes0 ++ [rootRec])) with
      | none => none
      | some a => match parser_assert_and_cunsume a.1 1 with
        | none => none
        | some b => match TW G G { self := b.1, root := (nodes0.length : Int), token := some b.2 } with
          | .next v => (match parser_assert v.self v.self.next_token 2 with
            | none => none
            | some _ => match parser_assert_and_cunsume v.self 2 with
              | none => none
              | some c => some (c.1, v.root))
          | .ret v r => some (v.self, r)
          | _ => none := by
  have hst : ({ lexer := (st encF toks nodes0).lexer, next_token := (st encF toks nodes0).next_token, nodes := nodes0 ++ [rootRec] } : Parser)
      = st encF toks (nodes0 ++ [rootRec]) := rfl
  have hd : ({ type := 1, value := (default : ASTNode).value, children := (default : ASTNode).children, parent := (default : ASTNode).parent } : ASTNode) = rootRec := rfl
  simp only [parser_parse, parser_parse.body, Py.seq, Py.bind, Py.finish, Py.alloc, hd, hst, st_nodes]
  cases parser_skip_comments G (st encF toks (nodes0 ++ [rootRec])) with
  | none => rfl
  | some a =>
    simp only
    cases parser_assert_and_cunsume a.1 1 with
    | none => rfl
    | some b =>
      simp only
      generalize hw : whileF parser_parse.while1_cond (parser_parse.while1_body G) G _ = res
      have hw' : TW G G { self := b.1, root := (nodes0.length : Int), token := some b.2 } = res := hw
      rw [hw']
      cases res with
      | next v =>
        simp only
        cases parser_assert v.self v.self.next_token 2 with
        | none => rfl
        | some x =>
          simp only
          cases parser_assert_and_cunsume v.self 2 with
          | none => rfl
          | some c => rfl
      | _ => rfl

/-- **`Parser._parse` as translated = the model's conversion up to the table**, with the model's fuel `N` explicit (`C15.convertWith`;
`Asc.convertTokens` is `convertWith (length + 2)`) and any fuel `G ≥ 2 N` for the translated loops / recursion: an error of the model
(other than its own fuel running out) ↦ an exception; rows ↦ the AST heap has grown from `nodes0 ++ [ROOT]` by subtrees of the ROOT whose
table is exactly these rows (`Built`) -/
theorem parse_refines (N G : Nat) (toks : List Tok) (nodes0 : List ASTNode) (hnb : NoBad toks) (hG : 2 * N ≤ G)
    (hne : C15.convertWith N toks ≠ .error .fuel) :
    match C15.convertWith N toks with
    | .error _ => parser_parse G (st encF toks nodes0) = none
    | .ok rows => ∃ t' nodes', parser_parse G (st encF toks nodes0) = some (st encF t' nodes', (nodes0.length : Int)) ∧
        Built encF U (nodes0 ++ [rootRec]) nodes' nodes0.length nodes0.length (-1) (-1) 0 rows := by
  rw [parse_unfold]
  unfold C15.convertWith at hne ⊢
  have hne0 : skipComments N toks ≠ .error .fuel := by
    intro h; rw [h] at hne; exact hne rfl
  obtain ⟨t0, h0, hn0, hs0⟩ := skip_comments_sim (encF := encF) N toks (nodes0 ++ [rootRec]) hnb hne0 G (by omega)
  rw [h0] at hne ⊢
  simp only [ok_bind, hs0] at hne ⊢
  rw [expectLp_refines encF t0 _ hn0]
  revert hne
  cases h1 : expectLp t0 with
  | error e => intro _; simp only [error_bind]
  | ok t1 =>
    have hn1 : NoBad t1 := noBad_drop hn0 [.lp] t1 (by simpa using expectLp_ok t0 t1 hn0 h1)
    simp only [ok_bind]
    intro hne
    have hneT : parseTop N t1 [] ≠ .error .fuel := by
      intro h; rw [h] at hne; exact hne rfl
    have htop := top_sim (encF := encF) N t1 [] hn1 hneT G G
      { self := st encF t1 (nodes0 ++ [rootRec]), root := (nodes0.length : Int), token := some (enc encF .lp) }
      (nodes0 ++ [rootRec]) nodes0.length (by omega) hG rfl rfl (by simp)
    revert htop hne
    cases parseTop N t1 [] with
    | error e =>
      intro _ htop
      simp only [TopPost] at htop
      simp only [error_bind, htop]
    | ok r =>
      obtain ⟨tr, rows⟩ := r
      intro hne htop
      obtain ⟨v', nodes', new, g1, g2, g3, g4, g5, g6⟩ := htop
      simp only [List.nil_append] at g4
      subst g4
      simp only [ok_bind, g1, g2, g3, st_next_token, assert_eq]
      cases tr with
      | nil => simp
      | cons x rest =>
        cases x with
        | rp =>
          simp only [adv_noBad _ _ g5, ok_bind]
          refine ⟨rest, nodes', ?_, by simpa using g6⟩
          simp [enc, assert_and_cunsume_st]
        | _ => simp [enc]

/-- the walk on the heap `_parse` has built: `from_ast` as translated returns exactly the model's rows -/
theorem built_root (nodes0 nodes' : List ASTNode) (rows : List Asc.Row)
    (h : Built encF U (nodes0 ++ [rootRec]) nodes' nodes0.length nodes0.length (-1) (-1) 0 rows) (F : Nat) (hF : 2 * nodes'.length ≤ F) :
    from_ast F nodes' (nodes0.length : Int) = some ((rows.length : Int), colsOf (encRows encF 0 rows)) := by
  obtain ⟨js, ks, hS, aj, ak, bj, bk, hr, hc⟩ := h
  obtain ⟨o, g, t, v, c⟩ := new_record hS
  simp only [if_true, rootRec, List.nil_append] at c t
  have hA : RefineAsc.Agrees nodes' (.mk nodes0.length (js ++ ks)) := by
    unfold RefineAsc.Agrees
    refine ⟨o, g, by rw [c]; simp [refsL], ?_, ?_, (AgreesL_append _ _ _).2 ⟨aj, ak⟩⟩
    · rw [t]; intro h; omega
    · rw [t]; intro h; omega
  have hrows : RefineAsc.rows nodes' (.mk nodes0.length (js ++ ks)) (-1) Gen.Consts.type_undefined 0 = encRows encF 0 rows := by
    simp only [RefineAsc.rows, g, t, if_true]
    rw [rowsL_append]
    simpa [U] using hr
  have hcost : cost nodes' (.mk nodes0.length (js ++ ks)) + 1 ≤ F := by
    simp only [cost, g, t, if_true, costL_append]
    simp only [List.length_append, List.length_singleton] at hc
    omega
  have := from_ast_refines nodes' (.mk nodes0.length (js ++ ks)) hA F hcost
  rw [hrows] at this
  simpa [AT.ref] using this

/-- the parser object right after `Parser.__init__`: `next_token = None`, then `_read_token()` -/
theorem init_st (toks : List Tok) :
    parser_read_token { lexer := toks.map (enc encF), next_token := none, nodes := [] } = some (st encF toks [], ()) := by
  cases toks with
  | nil => simp [parser_read_token, parser_read_token.body, Py.seq, Py.bind, Py.finish, st]
  | cons t rest =>
    have h0 : ¬ ((rest.length : Int) + 1 = 0) := by omega
    simp [parser_read_token, parser_read_token.body, Py.seq, Py.bind, Py.finish, st, Py.idx, Py.normIdx, h0]

/-- **generated parser ∘ generated walk = the model**, explicit fuels: for every token list without a lexer failure, every fuel `N` of the
model with which the model does not run out of fuel, every fuel `G ≥ 2 N` of the translated parser and every fuel `F ≥ 2·#heap` of the
translated walk: `Parser(...)`, `_parse()`, `from_ast(ast)` as translated return the model's rows (count, ids 0…m−1, types, the four
numbers, parents), or raise exactly when the model has an error -/
theorem convert_refines (N G : Nat) (toks : List Tok) (hnb : NoBad toks) (hG : 2 * N ≤ G)
    (hne : C15.convertWith N toks ≠ .error .fuel) :
    match C15.convertWith N toks with
    | .error _ => parser_parse G (st encF toks []) = none
    | .ok rows => ∃ p, parser_parse G (st encF toks []) = some (p, 0) ∧
        ∀ F, 2 * p.nodes.length ≤ F → from_ast F p.nodes 0 = some ((rows.length : Int), colsOf (encRows encF 0 rows)) := by
  have h := parse_refines (encF := encF) N G toks [] hnb hG hne
  revert h
  cases C15.convertWith N toks with
  | error e => intro h; exact h
  | ok rows =>
    intro h
    obtain ⟨t', nodes', h1, h2⟩ := h
    refine ⟨st encF t' nodes', by simpa using h1, ?_⟩
    intro F hF
    simpa using built_root [] nodes' rows h2 F hF

end RefineAscTop
