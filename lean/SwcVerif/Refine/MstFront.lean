import SwcVerif.Gen.AlgoMstFront
import SwcVerif.Refine.Mst
/-! Refinement for C17, front end: the definition GENERATED from the whole body of `swcgeom/transforms/mst.py::PointsToCuntzMST.__call__`
up to the construction of the tree (`Gen.Algo.mst_call`, run at `K = Rat`) returns, for EVERY cloud of `(N, 3)` points with an optional soma
(a triple), every vector norm `norm`, every `bf`, `furcations`, `exclude_soma`: one row per point of `soma :: points` in input order, with that
point's coordinates, ids `0 … n-1`, the type column `[soma type, glia, glia, …]`, radius 1 and the parents `Mst.run … (Mst.init n)` of the
model of the greedy loop on the matrix `dis[i][j] = norm (p[i] - p[j])`. -/
namespace RefineMstFront
open Py Gen.Algo Mst RefineMst

/-- the variables of `__call__` the greedy loop does not touch -/
structure Frame where
  points : List (List Rat)
  soma : Option (List Rat)
  tg : Int
  ts : Int
  ids : List Int
  types : List Int
  xs : List Rat
  ys : List Rat
  zs : List Rat
  rs : Int

/-- the record of the generated function's variables that represents the model state `s` (scratch variables arbitrary) -/
def toV' (fr : Frame) (n : Nat) (dis : List (List Rat)) (bf : Rat) (k : Int) (ex : Bool) (s : St) (cost : Py.Masked2 Rat) (i j u : Int) :
    mst_call.V Rat :=
  { points := fr.points, soma := fr.soma, t_glia := fr.tg, t_soma := fr.ts, ids := fr.ids, types := fr.types, xs := fr.xs, ys := fr.ys,
    zs := fr.zs, rs := fr.rs,
    n := n, dis := dis, bf := bf, limit := k, exclude_soma := ex, pid := s.pid, acc := s.acc,
    furcations := s.furc.map (fun (x : Nat) => (x : Int)), conn := s.conn, mask := s.mask, cost := cost, i := i, j := j, underscore_ := u }

/-- one iteration of the loop inside the generated `__call__` is one `Mst.step` (the proof of `RefineMst.for1_step`, on the larger record) -/
theorem for1_step' (norm : List Rat → Rat) (fr : Frame) (n : Nat) (hn : 0 < n) (dis : List (List Rat)) (hd : SquareQ n dis) (bf : Rat) (k : Int) (ex : Bool)
    (x : Int) (s : St) (hs : Shape n s) (c : Py.Masked2 Rat) (i j u : Int) :
    ∃ c' i' j', mst_call.for1 norm x (toV' fr n dis bf k ex s c i j u) =
      .next (toV' fr n dis bf k ex (step dis bf (limitOf k) ex n s) c' i' j' x) := by
  obtain ⟨hA, hi, hj⟩ := maArgmin_eq dis bf s n hn hd hs
  rw [step_eq]
  generalize (argmin dis bf s n).1 = a at hA hi ⊢
  generalize (argmin dis bf s n).2 = b at hA hj ⊢
  obtain ⟨hpid, hacc, hfurc, hconn, hmask⟩ := hs
  have hcl := costM_lengths dis bf s.acc n hd hacc
  have hB : Py.bcastCol (fun x y => x + y) dis (s.acc.map (fun x => bf * x)) = some (costM dis bf s.acc) :=
    Py.bcastCol_same _ _ _ (by simp [hd.1, hacc])
  have hC : Py.maArray (costM dis bf s.acc) s.mask = some (costM dis bf s.acc, s.mask) := by
    simp [Py.maArray, lengths_eq_replicate hcl, lengths_eq_replicate hmask]
  have hS : Py.shape2 (costM dis bf s.acc) = ((n : Int), (n : Int)) := by
    obtain ⟨h1, h2⟩ := hcl
    cases hcm : costM dis bf s.acc with
    | nil => rw [hcm] at h1; simp at h1; omega
    | cons r rs =>
      rw [hcm] at h1 h2
      have := h2 r (List.mem_cons_self)
      simp only [Py.shape2, List.headD_cons, this, h1]
  have hU := Py.unravelIndex_nat a b n hi hj
  refine ⟨(costM dis bf s.acc, s.mask), (a : Int), (b : Int), ?_⟩
  -- the child count
  have hF1 : Py.idx (s.furc.map (fun (x : Nat) => (x : Int))) (a : Int) = some ((s.furc.getD a 0 : Nat) : Int) :=
    idx_map_cast _ _ (by omega)
  have hF2 : Py.setIdx (s.furc.map (fun (x : Nat) => (x : Int))) (a : Int) (((s.furc.getD a 0 : Nat) : Int) + 1) =
      some ((s.furc.set a (s.furc.getD a 0 + 1)).map (fun (x : Nat) => (x : Int))) := by
    rw [Py.setIdx_nat _ a _ (by simp; omega), List.map_set]; rfl
  have hF3 : Py.idx ((s.furc.set a (s.furc.getD a 0 + 1)).map (fun (x : Nat) => (x : Int))) (a : Int) =
      some (((s.furc.set a (s.furc.getD a 0 + 1)).getD a 0 : Nat) : Int) :=
    idx_map_cast _ _ (by simp; omega)
  -- the saturation test
  have hT : (if decide (k ≠ -1) = true then
        (some (((s.furc.set a (s.furc.getD a 0 + 1)).getD a 0 : Nat) : Int)).bind fun t14 =>
          if decide (t14 ≥ k) = true then some (!ex || decide ((a : Int) ≠ 0)) else some false
      else some false) = some (satFlag (limitOf k) ex ((s.furc.set a (s.furc.getD a 0 + 1)).getD a 0) a) := by
    generalize (s.furc.set a (s.furc.getD a 0 + 1)).getD a 0 = f
    unfold limitOf satFlag
    by_cases hk : k = -1
    · simp [hk]
    · have h1 : ((f : Int) ≥ k) ↔ f ≥ k.toNat := by omega
      have h2 : ((a : Int) ≠ 0) ↔ a ≠ 0 := by omega
      by_cases h3 : f ≥ k.toNat <;> by_cases h4 : a = 0 <;> cases ex <;> simp [hk, h1, h3, h4]
  -- the masks
  have hM1 : Py.setRowConst s.mask (a : Int) true = some (s.mask.set a (List.replicate n true)) := by
    rw [Py.setRowConst_nat _ a _ (by have := hmask.1; omega), getD_row_length hmask a hi]
  have hM2 : Py.setColConst (s.mask.set a (List.replicate n true)) (a : Int) true = some (cross s.mask a (List.replicate n true)) := by
    rw [Py.setColConst_nat]; rfl
    intro r hr
    rcases List.mem_or_eq_of_mem_set hr with h | h
    · rw [hmask.2 r h]; exact hi
    · rw [h]; simpa using hi
  have hP : Py.setIdx s.pid (b : Int) (a : Int) = some (s.pid.set b (a : Int)) := Py.setIdx_nat _ _ _ (by omega)
  have hA1 : Py.idx s.acc (a : Int) = some (s.acc.getD a 0) := Py.idx_nat_getD _ _ _ (by omega)
  have hA2 : Py.idx2 dis (a : Int) (b : Int) = some ((dis.getD a []).getD b 0) :=
    Py.idx2_nat _ _ _ _ (by have := hd.1; omega) (by rw [getD_row_length hd a hi]; exact hj)
  have hA3 : ∀ y, Py.setIdx s.acc (b : Int) y = some (s.acc.set b y) := fun y => Py.setIdx_nat _ _ _ (by omega)
  have hC1 : Py.setIdx s.conn (b : Int) true = some (s.conn.set b true) := Py.setIdx_nat _ _ _ (by omega)
  have hR : ∀ m1, Square n m1 → Py.setRow m1 (b : Int) (s.conn.set b true) = some (m1.set b (s.conn.set b true)) := by
    intro m1 hm1
    exact Py.setRow_nat _ _ _ (by have := hm1.1; omega) (by rw [getD_row_length hm1 b hj]; simp [hconn])
  have hR2 : ∀ m1, Square n m1 → Py.setColConst (m1.set b (s.conn.set b true)) (b : Int) true = some (cross m1 b (s.conn.set b true)) := by
    intro m1 hm1
    rw [Py.setColConst_nat]; rfl
    intro r hr
    rcases List.mem_or_eq_of_mem_set hr with h | h
    · rw [hm1.2 r h]; exact hj
    · rw [h]; simpa [hconn] using hj
  have hsq1 : Square n (cross s.mask a (List.replicate n true)) := cross_square a hmask (by simp)
  simp only [mst_call.for1, toV', Py.seq, Py.bind, hB, hC, hA, hS, hU, hF1, hF2, hF3, hT]
  by_cases hsat : satFlag (limitOf k) ex ((s.furc.set a (s.furc.getD a 0 + 1)).getD a 0) a = true
  · simp only [hsat, if_true, hM1, hM2, hP, hA1, hA2, hA3, hC1, hR _ hsq1, hR2 _ hsq1, stepAt]
  · simp only [hsat, if_false, Py.skip, hP, hA1, hA2, hA3, hC1, hR _ hmask, hR2 _ hmask, stepAt, Bool.false_eq_true]


theorem for1_loop' (norm : List Rat → Rat) (fr : Frame) (n : Nat) (hn : 0 < n) (dis : List (List Rat)) (hd : SquareQ n dis) (bf : Rat) (k : Int) (ex : Bool) :
    ∀ (xs : List Int) (s : St), Shape n s → ∀ (c : Py.Masked2 Rat) (i j u : Int),
      ∃ c' i' j' u', Py.forEach (mst_call.for1 norm) xs (toV' fr n dis bf k ex s c i j u) =
        .next (toV' fr n dis bf k ex (run dis bf (limitOf k) ex n xs.length s) c' i' j' u') := by
  intro xs
  induction xs with
  | nil => intro s _ c i j u; exact ⟨c, i, j, u, rfl⟩
  | cons x xs ih =>
    intro s hs c i j u
    obtain ⟨c1, i1, j1, e1⟩ := for1_step' norm fr n hn dis hd bf k ex x s hs c i j u
    obtain ⟨c2, i2, j2, u2, e2⟩ := ih _ (step_shape dis bf (limitOf k) ex n s hs) c1 i1 j1 x
    refine ⟨c2, i2, j2, u2, ?_⟩
    simp only [Py.forEach, e1, e2, List.length_cons, run]


/-! ## the front end and the assembly of the table -/

/-- every point is a triple (the documented shape `(N, 3)`) -/
def Rows3 (l : List (List Rat)) : Prop := ∀ r ∈ l, r.length = 3

/-- the array the code works on: the soma (when given) first, then the cloud — `np.concatenate([[soma], points])` -/
def allPts (soma : Option (List Rat)) (pts : List (List Rat)) : List (List Rat) :=
  match soma with
  | some s => s :: pts
  | none => pts

/-- the distance matrix the code computes: `dis[i][j] = norm (p[i] - p[j])`, for the vector norm `norm` -/
def disOf (norm : List Rat → Rat) (p : List (List Rat)) : List (List Rat) :=
  p.map fun a => p.map fun b => norm (List.zipWith (fun x y => x - y) a b)

theorem rowsOf_true (p : List (List Rat)) (h : Rows3 p) : Py.rowsOf 3 p = true := by
  simp only [Py.rowsOf, List.all_eq_true, beq_iff_eq]
  exact h

theorem pairwise_eq (norm : List Rat → Rat) (p : List (List Rat)) (h : Rows3 p) :
    Py.pairwiseNorm norm 3 p = some (disOf norm p) := by
  simp [Py.pairwiseNorm, rowsOf_true p h, disOf]

theorem disOf_square (norm : List Rat → Rat) (p : List (List Rat)) : SquareQ p.length (disOf norm p) := by
  refine ⟨by simp [disOf], ?_⟩
  intro r hr
  simp only [disOf, List.mem_map] at hr
  obtain ⟨a, _, rfl⟩ := hr
  simp

theorem column_eq (p : List (List Rat)) (h : Rows3 p) (k : Nat) (hk : k < 3) :
    Py.column p (k : Int) = some (p.map (fun r => r.getD k 0)) := by
  induction p with
  | nil => simp [Py.column]
  | cons r rs ih =>
    have hr : r.length = 3 := h r List.mem_cons_self
    have ih' := ih (fun q hq => h q (List.mem_cons_of_mem _ hq))
    simp only [Py.column] at ih' ⊢
    simp only [List.mapM_cons, ih', Py.idx_nat_getD r k 0 (by omega)]
    rfl

theorem concat_eq (s : List Rat) (p : List (List Rat)) (hs : s.length = 3) (h : Rows3 p) :
    Py.concatRows [s] p = some (s :: p) := by
  have : Py.rowsOf 3 (s :: p) = true := rowsOf_true (s :: p) (by
    intro r hr
    rcases List.mem_cons.mp hr with rfl | hr
    · exact hs
    · exact h r hr)
  simp [Py.concatRows, hs, this]

theorem allPts_rows (soma : Option (List Rat)) (p : List (List Rat)) (hs : ∀ s, soma = some s → s.length = 3) (h : Rows3 p) :
    Rows3 (allPts soma p) := by
  cases soma with
  | none => exact h
  | some s =>
    intro r hr
    rcases List.mem_cons.mp hr with rfl | hr
    · exact hs _ rfl
    · exact h r hr

/-- what the generated `__call__` returns for the array of points `all`: `(ids, types, xs, ys, zs, r, pid, points, dis, None)` -/
def tableOf (norm : List Rat → Rat) (all : List (List Rat)) (bf : Rat) (k : Int) (ex : Bool) (tg ts : Int) :
    List Int × List Int × List Rat × List Rat × List Rat × Int × List Int × List (List Rat) × List (List Rat) × Unit :=
  ((List.range all.length).map (fun (i : Nat) => (i : Int)), (List.replicate all.length tg).set 0 ts,
   all.map (fun r => r.getD 0 0), all.map (fun r => r.getD 1 0), all.map (fun r => r.getD 2 0), 1,
   (run (disOf norm all) bf (limitOf k) ex all.length (all.length - 1) (init all.length)).pid, all, disOf norm all, ())

theorem mst_call_refines (norm : List Rat → Rat) (pts : List (List Rat)) (soma : Option (List Rat))
    (hp : Rows3 pts) (hs : ∀ s, soma = some s → s.length = 3) (hn : 0 < (allPts soma pts).length)
    (bf : Rat) (k : Int) (ex : Bool) (tg ts : Int) :
    mst_call (K := Rat) norm pts soma bf k ex tg ts = some (tableOf norm (allPts soma pts) bf k ex tg ts) := by
  have hall := allPts_rows soma pts hs hp
  generalize hA : allPts soma pts = all at hall hn
  generalize hN : all.length = n at hn
  have hd : SquareQ n (disOf norm all) := hN ▸ disOf_square norm all
  have hr : Py.range ((n : Int) - 1) = (List.range (n - 1)).map (fun (k : Nat) => (k : Int)) := by
    have : ((n : Int) - 1) = ((n - 1 : Nat) : Int) := by omega
    rw [this, Py.range_natCast]
  have hc : Py.setIdx (List.replicate n false) (0 : Int) true = some ((List.replicate n false).set 0 true) :=
    Py.setIdx_nat _ 0 _ (by simpa using hn)
  have hm1 : Py.setRowConst (List.replicate n (List.replicate n true)) (0 : Int) false =
      some ((List.replicate n (List.replicate n true)).set 0 (List.replicate n false)) := by
    have := Py.setRowConst_nat (List.replicate n (List.replicate n true)) 0 false (by simpa using hn)
    simpa [List.getD_eq_getElem?_getD, hn] using this
  have hm2 := Py.setIdx2_nat ((List.replicate n (List.replicate n true)).set 0 (List.replicate n false)) 0 0 true
    (by simpa using hn) (by simp [List.getD_eq_getElem?_getD, hn])
  have hm2' : Py.setIdx2 ((List.replicate n (List.replicate n true)).set 0 (List.replicate n false)) (0 : Int) (0 : Int) true = _ := hm2
  have hty : Py.setIdx (List.replicate n tg) (0 : Int) ts = some ((List.replicate n tg).set 0 ts) :=
    Py.setIdx_nat _ 0 _ (by simpa using hn)
  have hpw := pairwise_eq norm all hall
  have hx : Py.column all (0 : Int) = some (all.map (fun r => r.getD 0 0)) := column_eq all hall 0 (by omega)
  have hy : Py.column all (1 : Int) = some (all.map (fun r => r.getD 1 0)) := column_eq all hall 1 (by omega)
  have hz : Py.column all (2 : Int) = some (all.map (fun r => r.getD 2 0)) := column_eq all hall 2 (by omega)
  cases soma with
  | none =>
    simp only [allPts] at hA
    subst hA
    simp only [mst_call, mst_call.body, Py.seq, Py.bind, Py.skip, Option.isSome, Bool.false_eq_true, if_false, Py.len_eq, hN, hpw,
      Py.full_nat, Py.full2_nat, hc, hm1, hm2']
    obtain ⟨c', i', j', u', e⟩ := for1_loop' norm
      { points := pts, soma := none, tg := tg, ts := ts, ids := (default : mst_call.V Rat).ids, types := (default : mst_call.V Rat).types,
        xs := (default : mst_call.V Rat).xs, ys := (default : mst_call.V Rat).ys, zs := (default : mst_call.V Rat).zs,
        rs := (default : mst_call.V Rat).rs }
      n hn (disOf norm pts) hd bf k ex ((List.range (n - 1)).map (fun (k : Nat) => (k : Int))) (init n)
      (init_shape n) (default : mst_call.V Rat).cost (default : mst_call.V Rat).i (default : mst_call.V Rat).j
      (default : mst_call.V Rat).underscore_
    simp only [List.length_map, List.length_range, toV', init, List.map_replicate, Nat.cast_zero] at e
    simp only [init_conn_eq, init_mask_eq n hn]
    rw [hr, e]
    simp only [Py.full_nat, hx, hy, hz, hty, Py.arange, Py.range_natCast, Py.finish, Option.map, tableOf, hN, Nat.cast_ofNat, Nat.cast_one,
      Nat.cast_zero]
    rfl
  | some s =>
    simp only [allPts] at hA
    subst hA
    have hs3 : s.length = 3 := hs s rfl
    have hs3' : ((s.length : Nat) : Int) = 3 := by omega
    simp only [mst_call, mst_call.body, Py.seq, Py.bind, Py.skip, Option.isSome, if_true, Py.len_eq, hs3', decide_true,
      concat_eq s pts hs3 hp, hN, hpw, Py.full_nat, Py.full2_nat, hc, hm1, hm2']
    obtain ⟨c', i', j', u', e⟩ := for1_loop' norm
      { points := s :: pts, soma := (some s), tg := tg, ts := ts, ids := (default : mst_call.V Rat).ids, types := (default : mst_call.V Rat).types,
        xs := (default : mst_call.V Rat).xs, ys := (default : mst_call.V Rat).ys, zs := (default : mst_call.V Rat).zs,
        rs := (default : mst_call.V Rat).rs }
      n hn (disOf norm (s :: pts)) hd bf k ex ((List.range (n - 1)).map (fun (k : Nat) => (k : Int))) (init n)
      (init_shape n) (default : mst_call.V Rat).cost (default : mst_call.V Rat).i (default : mst_call.V Rat).j
      (default : mst_call.V Rat).underscore_
    simp only [List.length_map, List.length_range, toV', init, List.map_replicate, Nat.cast_zero] at e
    simp only [init_conn_eq, init_mask_eq n hn]
    rw [hr, e]
    simp only [Py.full_nat, hx, hy, hz, hty, Py.arange, Py.range_natCast, Py.finish, Option.map, tableOf, hN, Nat.cast_ofNat, Nat.cast_one,
      Nat.cast_zero]
    rfl

end RefineMstFront
