import SwcVerif.Gen.AlgoPopFront
import SwcVerif.Refine.Population
/-! Refinement for the FRONT END of C19: the definitions GENERATED from `swcgeom/core/population.py` for `Population.__init__ /
__getitem__ / __len__` (over a `LazyLoadingTrees`), `NestTrees.__init__ / __getitem__ / __len__` over a lazy container (what a slice
of a population is) compute what the state machine `Pop.Lazy` of `Model/Population.lean` computes; file reads are the state-passing
callback `Pop.readLog`, the generated object represents a model state through `RefinePop.LRep`. -/
namespace RefinePopFront
open Gen.Algo Pop Py RefinePop

theorem lazy_len_rep {g : LazyLoadingTrees} {l : Lazy} (h : LRep g l) : lazy_len g = some ((l.cache.length : Nat) : Int) := by
  simp [lazy_len, lazy_len.body, finish, h.hs]

/-- `len(population)` -/
theorem pop_len_refines {g : LazyLoadingTrees} {l : Lazy} (h : LRep g l) (root : String) :
    pop_len ⟨g, root⟩ = some ((l.len : Nat) : Int) := by
  simp [pop_len, pop_len.body, Py.bind, lazy_len_rep h, finish, Lazy.len]

/-- **`Population.__getitem__(int)` as translated** is the container's `__getitem__`: exactly `Lazy.get` -/
theorem pop_getitem_int_refines {g : LazyLoadingTrees} {l : Lazy} (h : LRep g l) (root : String) (key : Int) :
    (match l.get key with
     | none => pop_getitem_int readLog ⟨g, root⟩ key (castL l.log) = none
     | some (l', k) => ∃ g', pop_getitem_int readLog ⟨g, root⟩ key (castL l.log) = some (⟨g', root⟩, castL l'.log, some (k : Int)) ∧ LRep g' l') := by
  have hr := getitem_refines h key
  cases hk : l.get key with
  | none =>
    simp only [hk] at hr
    simp [pop_getitem_int, pop_getitem_int.body, seq, skip, Py.bind, hr, finish]
  | some r =>
    obtain ⟨l', k⟩ := r
    simp only [hk] at hr
    obtain ⟨g', e, r'⟩ := hr
    exact ⟨g', by simp [pop_getitem_int, pop_getitem_int.body, seq, skip, Py.bind, e, finish], r'⟩

/-- **`Population(trees, root=…)` as translated**, for a lazy container: the only read is the probe of file 0 (the test
`isinstance(swcs[0], str)`), and only when there is a file; the population then holds the (probed) container -/
theorem pop_init_refines {g : LazyLoadingTrees} {l : Lazy} (h : LRep g l) (p0 : Population) (root : String) :
    ∃ g', pop_init readLog p0 g root (castL l.log) =
        some (⟨g', root⟩, castL (if l.len > 0 then l.load 0 else l).log, ()) ∧
      LRep g' (if l.len > 0 then l.load 0 else l) := by
  have hlen := lazy_len_rep h
  by_cases hn : l.len > 0
  · have hn' : 0 < l.cache.length := by simpa [Lazy.len] using hn
    have hr := getitem_refines h 0
    have hg : l.get 0 = some (l.load 0, 0) := by
      have hb : ((0 : Int) < -(l.len : Int) || (0 : Int) ≥ (l.len : Int)) = false := by
        rw [Bool.or_eq_false_iff]; constructor <;> simp <;> omega
      have hz : ¬ l.len = 0 := by omega
      simp [Lazy.get, getIdx, hb, hz]
    simp only [hg] at hr
    obtain ⟨g', e, r'⟩ := hr
    have hl' : lazy_len g' = some (((l.load 0).cache.length : Nat) : Int) := lazy_len_rep r'
    have hc : (l.load 0).cache.length = l.cache.length := by rw [load_eq]; split <;> simp
    have hne : ¬ l.cache.length = 0 := by omega
    have hne' : ¬ l.cache = [] := fun c => hne (by simp [c])
    refine ⟨g', ?_, by simpa [hn] using r'⟩
    simp [pop_init, pop_init.body, seq, skip, Py.bind, hlen, hn', e, hl', hc, hne, hne', finish, hn]
  · have h0 : l.cache.length = 0 := by simp only [Lazy.len] at hn; omega
    refine ⟨g, ?_, by simpa [hn] using h⟩
    simp [pop_init, pop_init.body, seq, skip, Py.bind, hlen, h0, finish, hn]

/-- `NestTrees(trees, idx)` as translated -/
theorem nestl_init_eq (n0 : NestLazy) (g : LazyLoadingTrees) (idx : List Int) : nestl_init n0 g idx = some (⟨g, idx⟩, ()) := by
  simp [nestl_init, nestl_init.body, seq, finish]

theorem nestl_len_eq (g : LazyLoadingTrees) (idx : List Int) : nestl_len ⟨g, idx⟩ = some (idx.length : Int) := by
  simp [nestl_len, nestl_len.body, finish]

/-- **`NestTrees.__getitem__` over a lazy container as translated**: `idx[key]` by Python list indexing (IndexError outside
`-len(idx) ≤ key < len(idx)`), then the CONTAINER's `__getitem__` on that entry — exactly `Lazy.get` of the entry -/
theorem nestl_getitem_refines {g : LazyLoadingTrees} {l : Lazy} (h : LRep g l) (idx : List Int) (key : Int) :
    (match Py.idx idx key with
     | none => nestl_getitem readLog ⟨g, idx⟩ key (castL l.log) = none
     | some j => match l.get j with
       | none => nestl_getitem readLog ⟨g, idx⟩ key (castL l.log) = none
       | some (l', k) => ∃ g', nestl_getitem readLog ⟨g, idx⟩ key (castL l.log) = some (⟨g', idx⟩, castL l'.log, some (k : Int)) ∧ LRep g' l') := by
  cases hj : Py.idx idx key with
  | none => simp [nestl_getitem, nestl_getitem.body, Py.bind, hj, finish]
  | some j =>
    have hr := getitem_refines h j
    cases hk : l.get j with
    | none =>
      simp only [hk] at hr
      simp only [hk]
      simp [nestl_getitem, nestl_getitem.body, Py.bind, hj, hr, finish]
    | some r =>
      obtain ⟨l', k⟩ := r
      simp only [hk] at hr
      obtain ⟨g', e, r'⟩ := hr
      simp only [hk]
      exact ⟨g', by simp [nestl_getitem, nestl_getitem.body, Py.bind, hj, e, finish], r'⟩

/-- **`Population.__getitem__(slice)` as translated**: the `NestTrees` over THE container of the population and the index list
`range(*key.indices(len(self)))`; ValueError (step 0) is the only failure -/
theorem pop_getitem_slice_refines {g : LazyLoadingTrees} {l : Lazy} (h : LRep g l) (root : String) (s : Py.PF.Slice) :
    pop_getitem_slice ⟨g, root⟩ s = ((Py.PF.sliceIndices s (l.len : Int)).bind Py.PF.range3).map (fun idx => ⟨g, idx⟩) := by
  have hlen := pop_len_refines h root
  cases hs : Py.PF.sliceIndices s (l.len : Int) with
  | none => simp [pop_getitem_slice, pop_getitem_slice.body, seq, skip, Py.bind, hlen, hs, finish]
  | some t =>
    cases hr : Py.PF.range3 t with
    | none => simp [pop_getitem_slice, pop_getitem_slice.body, seq, skip, Py.bind, hlen, hs, hr, finish]
    | some idx => simp [pop_getitem_slice, pop_getitem_slice.body, seq, skip, Py.bind, hlen, hs, hr, nestl_init_eq, finish]

end RefinePopFront
