import SwcVerif.Refine.AscHeap
import SwcVerif.Props.C15
/-! Refinement for C15, part 3b: the loops and the mutual recursion of the parser AS TRANSLATED (`_parse_subtree` ↔ `_parse_split`,
`_parse_color`, `_parse_comment`, `_skip_comments`, `_parse_tree`, `_parse`) against the hand-written model `Model/Asc.lean`
(`parseSubtree`, `parseColor`, `skipComments`, `parseTop`), with the heap invariant of `Refine/AscHeap.lean`. -/
namespace RefineAscLoop
open Gen.Algo Py Asc RefineAsc RefineAscParse RefineAscHeap

variable (encF : SwcText.Sci → Int)

abbrev LV := parser_parse_subtree.V

/-- the body of the `while` loop of `_parse_subtree` as translated (`fuel` = the fuel handed to the nested `_parse_split`): a COPY of the
generated term; `parse_subtree_unfold` below checks (by `rfl`) that it IS the generated term, so a change of the source breaks here -/
def loopBody (fuel : Nat) : LV → Res LV Unit :=
  (Py.seq (fun (v : parser_parse_subtree.V) =>
    .next { v with token := v.self.next_token })
  (Py.seq (fun (v : parser_parse_subtree.V) =>
    if (!(v.token).isSome) then (fun (v : parser_parse_subtree.V) => .brk v) v else Py.skip v)
  (fun (v : parser_parse_subtree.V) =>
    Py.bind (v.token) fun t0 =>
    let t1 := (t0).type;
    if (decide (t1 = (1 : Int))) then (Py.seq (fun (v : parser_parse_subtree.V) =>
      Py.bind (parser_read_token v.self) fun t11 => let v := { v with self := t11.1 };
      .next v)
    (fun (v : parser_parse_subtree.V) =>
      if v.flag then (fun (v : parser_parse_subtree.V) =>
        .next { v with flag := false }) v else (Py.seq (fun (v : parser_parse_subtree.V) =>
        Py.bind (parser_parse_split fuel v.self v.current false) fun t12 => let v := { v with self := t12.1 };
        .next v)
      (fun (v : parser_parse_subtree.V) =>
        .next { v with flag := true })) v)) v else if (decide (t1 = (2 : Int))) then (Py.seq (fun (v : parser_parse_subtree.V) =>
      if v.flag then (fun (v : parser_parse_subtree.V) => .brk v) v else Py.skip v)
    (Py.seq (fun (v : parser_parse_subtree.V) =>
      Py.bind (parser_read_token v.self) fun t10 => let v := { v with self := t10.1 };
      .next v)
    (fun (v : parser_parse_subtree.V) =>
      .next { v with flag := true }))) v else if (decide (t1 = (5 : Int))) then (Py.seq (fun (v : parser_parse_subtree.V) =>
      if v.flag then (fun (v : parser_parse_subtree.V) => .err) v else Py.skip v)
    (Py.seq (fun (v : parser_parse_subtree.V) =>
      Py.bind (parser_parse_node v.self v.current) fun t9 => let v := { v with self := t9.1 };
      .next { v with current := t9.2 })
    (fun (v : parser_parse_subtree.V) =>
      .next { v with flag := true }))) v else if (decide (t1 = (6 : Int))) then (Py.seq (fun (v : parser_parse_subtree.V) =>
      Py.bind (v.token) fun t5 =>
      Py.bind (Py.Atom.str? (t5).value) fun t6 =>
      let t7 := (Py.strUpper t6);
      if (decide (t7 = "COLOR")) then (fun (v : parser_parse_subtree.V) =>
        Py.bind (parser_parse_color v.self v.current) fun t8 => let v := { v with self := t8.1 };
        .next v) v else (fun (v : parser_parse_subtree.V) => .err) v)
    (fun (v : parser_parse_subtree.V) =>
      .next { v with flag := true })) v else if (decide (t1 = (4 : Int))) then (Py.seq (fun (v : parser_parse_subtree.V) =>
      if v.flag then (Py.seq (fun (v : parser_parse_subtree.V) =>
        .next { v with current := v.root })
      (fun (v : parser_parse_subtree.V) =>
        Py.bind (parser_read_token v.self) fun t3 => let v := { v with self := t3.1 };
        .next v)) v else (fun (v : parser_parse_subtree.V) =>
        Py.bind (parser_parse_split fuel v.self v.current true) fun t4 => let v := { v with self := t4.1 };
        .next v) v)
    (fun (v : parser_parse_subtree.V) =>
      .next { v with flag := true })) v else if (decide (t1 = (3 : Int))) then (fun (v : parser_parse_subtree.V) =>
      Py.bind (parser_parse_comment v.self v.current) fun t2 => let v := { v with self := t2.1 };
      .next v) v else (Py.seq (fun (v : parser_parse_subtree.V) =>
      .next { v with excepted := "BRACKET_LEFT, BRACKET_RIGHT, LITERAL, FLOAT, OR, COMMENT" })
    (fun (v : parser_parse_subtree.V) => .err)) v)))

/-- the `while` loop of `_parse_subtree` -/
abbrev L (G n : Nat) (v : LV) : Res LV Unit := whileF (fun (_ : LV) => some true) (loopBody G) n v

theorem parse_subtree_unfold (G : Nat) (self : Parser) (root : Int) (flag : Bool) :
    parser_parse_subtree (G + 1) self root flag =
      (Py.finish default (L G G { (default : LV) with self := self, root := root, flag := flag, current := root })).map
        fun r => (r.1.self, r.2) := by
  rw [parser_parse_subtree]
  rfl

theorem parse_split_unfold (G : Nat) (self : Parser) (root : Int) (flag : Bool) :
    parser_parse_split (G + 1) self root flag =
      match parser_parse_subtree G self root flag with
      | none => none
      | some r => (parser_assert_and_cunsume r.1 2).map fun q => (q.1, ()) := by
  rw [parser_parse_split]
  simp only [Py.seq, Py.bind, Py.finish]
  cases parser_parse_subtree G self root flag with
  | none => rfl
  | some r =>
    simp only
    cases parser_assert_and_cunsume r.1 2 <;> rfl

/-- `ASTNode.add_child` as translated, on references in range: the heap keeps its length, `self` gains the child (the child's `parent`
field is set, which nothing reads) -/
theorem add_child_step (n : List ASTNode) (ρ τ : Nat) (hρ : ρ < n.length) (hτ : τ < n.length) :
    ∃ n', ast_add_child n (ρ : Int) (τ : Int) = some (n', ()) ∧ n'.length = n.length ∧
      Step n n' (fun i => if i = ρ then [(τ : Int)] else []) := by
  simp only [ast_add_child, ast_add_child.body, Py.seq, Py.bind, Py.finish]
  rw [idx_nat _ _ hρ, List.getElem?_eq_getElem hρ]
  simp only
  rw [setIdx_nat _ _ _ hρ]
  simp only
  have hτ' : τ < (n.set ρ { n[ρ] with children := n[ρ].children ++ [(τ : Int)] }).length := by simpa using hτ
  rw [idx_nat _ _ hτ', List.getElem?_eq_getElem hτ']
  simp only
  rw [setIdx_nat _ _ _ hτ']
  refine ⟨_, rfl, by simp, by simp, ?_⟩
  intro i o hi
  have hlt : i < n.length := by
    rcases Nat.lt_or_ge i n.length with h' | h'
    · exact h'
    · simp [List.getElem?_eq_none h'] at hi
  rw [List.getElem?_eq_getElem hlt] at hi
  cases hi
  by_cases h1 : i = τ <;> by_cases h2 : i = ρ <;> simp [List.getElem?_set, List.getElem_set, h1, h2, hlt, hτ, hρ] <;> grind

/-- allocation of a record followed by `add_child` under `ρ` -/
theorem attach (nodes : List ASTNode) (rec : ASTNode) (ρ : Nat) (hρ : ρ < nodes.length) :
    ∃ n1, ast_add_child (nodes ++ [rec]) (ρ : Int) (nodes.length : Int) = some (n1, ()) ∧ n1.length = nodes.length + 1 ∧
      Step (nodes ++ [rec]) n1 (fun i => if i = ρ then [(nodes.length : Int)] else []) := by
  obtain ⟨n1, h1, h2, h3⟩ := add_child_step (nodes ++ [rec]) ρ nodes.length (by simp; omega) (by simp)
  exact ⟨n1, h1, by simpa using h2, h3⟩

theorem ofList_eq_iff (l : List Char) (s : String) : String.ofList l = s ↔ l = s.toList := by
  constructor
  · intro h; rw [← h]; simp
  · intro h; rw [h]; simp

/-- `str.upper` of the translation on an encoded word = the model's `upper` -/
theorem strUpper_ofList (w : SwcText.Str) : Py.strUpper (String.ofList w) = String.ofList (upper w) := by
  simp [Py.strUpper, upper]

theorem upper_decide (w : SwcText.Str) (s : String) : decide (Py.strUpper (String.ofList w) = s) = decide (upper w = s.toList) := by
  rw [strUpper_ofList, decide_eq_decide, ofList_eq_iff]

theorem noBad_head {t : Tok} {toks : List Tok} (h : NoBad (t :: toks)) : t ≠ .bad := h t (by simp)

/-! ### shape of the token lists the model's leaf parsers accept -/

theorem parseNode_ok (toks : List Tok) (h : NoBad toks) (q : SwcText.Sci × SwcText.Sci × SwcText.Sci × SwcText.Sci) (rest : List Tok)
    (hp : parseNode toks = .ok (q, rest)) :
    ∃ a b c d, toks = .float a :: .float b :: .float c :: .float d :: .rp :: rest ∧ q = (a, b, c, d) := by
  rcases toks with _ | ⟨t1, r1⟩
  · simp [parseNode] at hp
  have h1 := h.tail
  cases t1 <;> try (simp [parseNode] at hp; done)
  rename_i a
  rcases r1 with _ | ⟨t2, r2⟩
  · simp [parseNode, adv, Bind.bind, Except.bind] at hp
  have h2 := h1.tail
  cases t2 <;> try (simp [parseNode, adv_noBad _ _ h, Bind.bind, Except.bind] at hp; done)
  rename_i b
  rcases r2 with _ | ⟨t3, r3⟩
  · simp [parseNode, adv, adv_noBad _ _ h, Bind.bind, Except.bind] at hp
  have h3 := h2.tail
  cases t3 <;> try (simp [parseNode, adv_noBad _ _ h, adv_noBad _ _ h1, Bind.bind, Except.bind] at hp; done)
  rename_i c
  rcases r3 with _ | ⟨t4, r4⟩
  · simp [parseNode, adv, adv_noBad _ _ h, adv_noBad _ _ h1, Bind.bind, Except.bind] at hp
  have h4 := h3.tail
  cases t4 <;> try (simp [parseNode, adv_noBad _ _ h, adv_noBad _ _ h1, adv_noBad _ _ h2, Bind.bind, Except.bind] at hp; done)
  rename_i d
  rcases r4 with _ | ⟨t5, r5⟩
  · simp [parseNode, adv, adv_noBad _ _ h, adv_noBad _ _ h1, adv_noBad _ _ h2, Bind.bind, Except.bind, expectRp] at hp
  cases t5 <;> try (simp [parseNode, adv_noBad _ _ h, adv_noBad _ _ h1, adv_noBad _ _ h2, adv_noBad _ _ h3, Bind.bind, Except.bind, expectRp] at hp; done)
  simp [parseNode, adv_noBad _ _ h, adv_noBad _ _ h1, adv_noBad _ _ h2, adv_noBad _ _ h3, adv_noBad _ _ h4, Bind.bind, Except.bind, expectRp,
    Pure.pure, Except.pure] at hp
  obtain ⟨rfl, rfl⟩ := hp
  exact ⟨a, b, c, d, rfl, rfl⟩

theorem noBad_drop {toks : List Tok} (h : NoBad toks) (pre rest : List Tok) (e : toks = pre ++ rest) : NoBad rest := by
  subst e
  exact fun x hx => h x (List.mem_append_right _ hx)

theorem parseNode_noBad (toks : List Tok) (h : NoBad toks) (q : SwcText.Sci × SwcText.Sci × SwcText.Sci × SwcText.Sci) (rest : List Tok)
    (hp : parseNode toks = .ok (q, rest)) : NoBad rest := by
  obtain ⟨a, b, c, d, e, _⟩ := parseNode_ok toks h q rest hp
  exact noBad_drop h [.float a, .float b, .float c, .float d, .rp] rest (by simpa using e)

theorem parseColor_ok (toks : List Tok) (h : NoBad toks) (rest : List Tok) (hp : parseColor toks = .ok rest) :
    ∃ w1 w2, toks = .literal w1 :: .literal w2 :: .rp :: rest := by
  rcases toks with _ | ⟨t1, r1⟩
  · simp [parseColor] at hp
  have h1 := h.tail
  cases t1 <;> try (simp [parseColor] at hp; done)
  rename_i a
  rcases r1 with _ | ⟨t2, r2⟩
  · simp [parseColor, adv, Bind.bind, Except.bind] at hp
  have h2 := h1.tail
  cases t2 <;> try (simp [parseColor, adv_noBad _ _ h, Bind.bind, Except.bind] at hp; done)
  rename_i b
  rcases r2 with _ | ⟨t3, r3⟩
  · simp [parseColor, adv, adv_noBad _ _ h, Bind.bind, Except.bind, expectRp] at hp
  cases t3 <;> try (simp [parseColor, adv_noBad _ _ h, adv_noBad _ _ h1, Bind.bind, Except.bind, expectRp] at hp; done)
  simp [parseColor, adv_noBad _ _ h, adv_noBad _ _ h1, adv_noBad _ _ h2, Bind.bind, Except.bind, expectRp] at hp
  subst hp
  exact ⟨a, b, rfl⟩

theorem parseColor_noBad (toks : List Tok) (h : NoBad toks) (rest : List Tok) (hp : parseColor toks = .ok rest) : NoBad rest := by
  obtain ⟨a, b, e⟩ := parseColor_ok toks h rest hp
  exact noBad_drop h [.literal a, .literal b, .rp] rest (by simpa using e)

/-! ### `_parse_color`, `_parse_comment` as translated -/

/-- the COLOR record `_parse_color` allocates (its value is the second word) -/
def colorRec (toks : List Tok) : ASTNode :=
  { type := 4, value := .tup [match toks with | _ :: t :: _ => (enc encF t).value | _ => .none], children := [], parent := none }

/-- **`_parse_color` as translated = the model's `parseColor`**, success and every failure alike; on success the heap has gained one COLOR
record attached to `root` -/
theorem parse_color_refines (toks : List Tok) (nodes : List ASTNode) (root : Int) (h : NoBad toks) :
    parser_parse_color (st encF toks nodes) root =
      match parseColor toks with
      | .error _ => none
      | .ok rest =>
        (ast_add_child (nodes ++ [colorRec encF toks]) root (nodes.length : Int)).map fun r => (st encF rest r.1, (nodes.length : Int)) := by
  rcases toks with _ | ⟨t1, r1⟩
  · simp [parser_parse_color, parser_parse_color.body, Py.seq, Py.bind, Py.finish, assert_and_cunsume_st, parseColor]
  have h1 := h.tail
  cases t1 <;> try (simp [parser_parse_color, parser_parse_color.body, Py.seq, Py.bind, Py.finish, assert_and_cunsume_st, parseColor, enc]; done)
  rename_i a
  rcases r1 with _ | ⟨t2, r2⟩
  · simp [parser_parse_color, parser_parse_color.body, Py.seq, Py.bind, Py.finish, assert_and_cunsume_st, parseColor, enc, adv, Bind.bind, Except.bind]
  have h2 := h1.tail
  cases t2 <;> try (simp [parser_parse_color, parser_parse_color.body, Py.seq, Py.bind, Py.finish, assert_and_cunsume_st, parseColor, enc,
    adv_noBad _ _ h, Bind.bind, Except.bind]; done)
  rename_i b
  rcases r2 with _ | ⟨t3, r3⟩
  · simp [parser_parse_color, parser_parse_color.body, Py.seq, Py.bind, Py.finish, assert_and_cunsume_st, parseColor, enc, adv, adv_noBad _ _ h,
      Bind.bind, Except.bind, expectRp]
  cases t3 <;> try (simp [parser_parse_color, parser_parse_color.body, Py.seq, Py.bind, Py.finish, assert_and_cunsume_st, parseColor, enc,
    adv_noBad _ _ h, adv_noBad _ _ h1, Bind.bind, Except.bind, expectRp]; done)
  simp [parser_parse_color, parser_parse_color.body, Py.seq, Py.bind, Py.finish, assert_and_cunsume_st, parseColor, enc,
    adv_noBad _ _ h, adv_noBad _ _ h1, adv_noBad _ _ h2, Bind.bind, Except.bind, expectRp, Py.alloc, colorRec]
  have e1 : (default : ASTNode).children = [] := rfl
  have e2 : (default : ASTNode).parent = none := rfl
  rw [e1, e2]
  generalize ast_add_child _ root _ = res
  cases res <;> simp [st]

/-- the COMMENT record `_parse_comment` allocates -/
def commentRec (c : SwcText.Str) : ASTNode :=
  { type := 5, value := .tup [.str (String.ofList c)], children := [], parent := none }

/-- **`_parse_comment` as translated**: the comment token is consumed, a COMMENT record is attached to `root` -/
theorem parse_comment_refines (c : SwcText.Str) (t : List Tok) (nodes : List ASTNode) (root : Int) :
    parser_parse_comment (st encF (.comment c :: t) nodes) root =
      (ast_add_child (nodes ++ [commentRec c]) root (nodes.length : Int)).map fun r => (st encF t r.1, (nodes.length : Int)) := by
  simp [parser_parse_comment, parser_parse_comment.body, Py.seq, Py.bind, Py.finish, assert_and_cunsume_st, enc, Py.alloc, commentRec]
  have e1 : (default : ASTNode).children = [] := rfl
  have e2 : (default : ASTNode).parent = none := rfl
  rw [e1, e2]
  generalize ast_add_child _ root _ = res
  cases res <;> simp [st]

/-! ### one iteration of the `_parse_subtree` loop as translated, per token kind -/

theorem L_next (G n : Nat) (v v' : LV) (h : loopBody G v = .next v') : L G (n + 1) v = L G n v' := by
  simp only [L, whileF, h]
theorem L_brk (G n : Nat) (v v' : LV) (h : loopBody G v = .brk v') : L G (n + 1) v = .next v' := by
  simp only [L, whileF, h]
theorem L_err (G n : Nat) (v : LV) (h : loopBody G v = .err) : L G (n + 1) v = .err := by
  simp only [L, whileF, h]

theorem step_nil (G : Nat) (v : LV) (nodes : List ASTNode) (hs : v.self = st encF [] nodes) :
    loopBody G v = .brk { v with token := none } := by
  simp [loopBody, Py.seq, hs]

theorem step_lp_flag (G : Nat) (v : LV) (t : List Tok) (nodes : List ASTNode) (hs : v.self = st encF (.lp :: t) nodes) (hf : v.flag = true) :
    loopBody G v = .next { v with token := some (enc encF .lp), self := st encF t nodes, flag := false } := by
  simp [loopBody, Py.seq, Py.bind, Py.skip, hs, hf, enc, read_token_st]

theorem step_lp_noflag (G : Nat) (v : LV) (t : List Tok) (nodes : List ASTNode) (hs : v.self = st encF (.lp :: t) nodes) (hf : v.flag = false) :
    loopBody G v = match parser_parse_split G (st encF t nodes) v.current false with
      | none => .err
      | some r => .next { v with token := some (enc encF .lp), self := r.1, flag := true } := by
  cases h : parser_parse_split G (st encF t nodes) v.current false <;>
    simp [loopBody, Py.seq, Py.bind, Py.skip, hs, hf, enc, read_token_st, h]

theorem step_rp_flag (G : Nat) (v : LV) (t : List Tok) (nodes : List ASTNode) (hs : v.self = st encF (.rp :: t) nodes) (hf : v.flag = true) :
    loopBody G v = .brk { v with token := some (enc encF .rp) } := by
  simp [loopBody, Py.seq, Py.bind, Py.skip, hs, hf, enc]

theorem step_rp_noflag (G : Nat) (v : LV) (t : List Tok) (nodes : List ASTNode) (hs : v.self = st encF (.rp :: t) nodes) (hf : v.flag = false) :
    loopBody G v = .next { v with token := some (enc encF .rp), self := st encF t nodes, flag := true } := by
  simp [loopBody, Py.seq, Py.bind, Py.skip, hs, hf, enc, read_token_st]

theorem step_float_flag (G : Nat) (v : LV) (a : SwcText.Sci) (t : List Tok) (nodes : List ASTNode)
    (hs : v.self = st encF (.float a :: t) nodes) (hf : v.flag = true) : loopBody G v = .err := by
  simp [loopBody, Py.seq, Py.bind, Py.skip, hs, hf, enc]

theorem step_float_noflag (G : Nat) (v : LV) (a : SwcText.Sci) (t : List Tok) (nodes : List ASTNode)
    (hs : v.self = st encF (.float a :: t) nodes) (hf : v.flag = false) :
    loopBody G v = match parser_parse_node (st encF (.float a :: t) nodes) v.current with
      | none => .err
      | some r => .next { v with token := some (enc encF (.float a)), self := r.1, current := r.2, flag := true } := by
  cases h : parser_parse_node (st encF (.float a :: t) nodes) v.current <;>
    simp [loopBody, Py.seq, Py.bind, Py.skip, hs, hf, enc, h]

theorem step_lit_color (G : Nat) (v : LV) (w : SwcText.Str) (t : List Tok) (nodes : List ASTNode)
    (hs : v.self = st encF (.literal w :: t) nodes) (hw : upper w = "COLOR".toList) :
    loopBody G v = match parser_parse_color (st encF (.literal w :: t) nodes) v.current with
      | none => .err
      | some r => .next { v with token := some (enc encF (.literal w)), self := r.1, flag := true } := by
  cases h : parser_parse_color (st encF (.literal w :: t) nodes) v.current <;>
    simp [loopBody, Py.seq, Py.bind, Py.skip, hs, enc, h, Py.Atom.str?, upper_decide, hw]

theorem step_lit_other (G : Nat) (v : LV) (w : SwcText.Str) (t : List Tok) (nodes : List ASTNode)
    (hs : v.self = st encF (.literal w :: t) nodes) (hw : upper w ≠ "COLOR".toList) : loopBody G v = .err := by
  have hw' : ¬ upper w = ['C', 'O', 'L', 'O', 'R'] := hw
  simp [loopBody, Py.seq, Py.bind, Py.skip, hs, enc, Py.Atom.str?, upper_decide, hw']

theorem step_bar_flag (G : Nat) (v : LV) (t : List Tok) (nodes : List ASTNode) (hs : v.self = st encF (.bar :: t) nodes) (hf : v.flag = true) :
    loopBody G v = .next { v with token := some (enc encF .bar), current := v.root, self := st encF t nodes, flag := true } := by
  simp [loopBody, Py.seq, Py.bind, Py.skip, hs, hf, enc, read_token_st]

theorem step_bar_noflag (G : Nat) (v : LV) (t : List Tok) (nodes : List ASTNode) (hs : v.self = st encF (.bar :: t) nodes) (hf : v.flag = false) :
    loopBody G v = match parser_parse_split G (st encF (.bar :: t) nodes) v.current true with
      | none => .err
      | some r => .next { v with token := some (enc encF .bar), self := r.1, flag := true } := by
  cases h : parser_parse_split G (st encF (.bar :: t) nodes) v.current true <;>
    simp [loopBody, Py.seq, Py.bind, Py.skip, hs, hf, enc, h]

theorem step_comment (G : Nat) (v : LV) (c : SwcText.Str) (t : List Tok) (nodes : List ASTNode)
    (hs : v.self = st encF (.comment c :: t) nodes) :
    loopBody G v = match parser_parse_comment (st encF (.comment c :: t) nodes) v.current with
      | none => .err
      | some r => .next { v with token := some (enc encF (.comment c)), self := r.1 } := by
  cases h : parser_parse_comment (st encF (.comment c :: t) nodes) v.current <;>
    simp [loopBody, Py.seq, Py.bind, Py.skip, hs, enc, h]

end RefineAscLoop
