import SwcVerif.Refine.AscHeap
import SwcVerif.Props.C15
/-! Refinement for C15, part 3b: the loops and the mutual recursion of the parser AS TRANSLATED (`_parse_subtree` ↔ `_parse_split`,
`_parse_color`, `_parse_comment`, `_skip_comments`, `_parse_tree`, `_parse`) against the hand-written model `Model/Asc.lean`
(`parseSubtree`, `parseColor`, `skipComments`, `parseTop`), with the heap invariant of `Refine/AscHeap.lean`. -/
namespace RefineAscLoop
open Gen.Algo Py Asc RefineAsc RefineAscParse RefineAscHeap

variable (encF : SwcText.Sci → Int)

abbrev LV := parser_parse_subtree.V

/-- the body of the `while` loop of `_parse_subtree` as translated (`fuel` = the fuel handed to the nested `_parse_split`): a COPY of the
generated term; `parse_subtree_unfold` below checks (by `rfl`) that it IS the generated term, so a change of the source breaks here -/
def loopBody (fuel : Nat) : LV → Res LV Unit :=
  (Py.seq (fun (v : parser_parse_subtree.V) =>
    .next { v with token := v.self.next_token })
  (Py.seq (fun (v : parser_parse_subtree.V) =>
    if (!(v.token).isSome) then (fun (v : parser_parse_subtree.V) => .brk v) v else Py.skip v)
  (fun (v : parser_parse_subtree.V) =>
    Py.bind (v.token) fun t0 =>
    let t1 := (t0).type;
    if (decide (t1 = (1 : Int))) then (Py.seq (fun (v : parser_parse_subtree.V) =>
      Py.bind (parser_read_token v.self) fun t11 => let v := { v with self := t11.1 };
      .next v)
    (fun (v : parser_parse_subtree.V) =>
      if v.flag then (fun (v : parser_parse_subtree.V) =>
        .next { v with flag := false }) v else (Py.seq (fun (v : parser_parse_subtree.V) =>
        Py.bind (parser_parse_split fuel v.self v.current false) fun t12 => let v := { v with self := t12.1 };
        .next v)
      (fun (v : parser_parse_subtree.V) =>
        .next { v with flag := true })) v)) v else if (decide (t1 = (2 : Int))) then (Py.seq (fun (v : parser_parse_subtree.V) =>
      if v.flag then (fun (v : parser_parse_subtree.V) => .brk v) v else Py.skip v)
    (Py.seq (fun (v : parser_parse_subtree.V) =>
      Py.bind (parser_read_token v.self) fun t10 => let v := { v with self := t10.1 };
      .next v)
    (fun (v : parser_parse_subtree.V) =>
      .next { v with flag := true }))) v else if (decide (t1 = (5 : Int))) then (Py.seq (fun (v : parser_parse_subtree.V) =>
      if v.flag then (fun (v : parser_parse_subtree.V) => .err) v else Py.skip v)
    (Py.seq (fun (v : parser_parse_subtree.V) =>
      Py.bind (parser_parse_node v.self v.current) fun t9 => let v := { v with self := t9.1 };
      .next { v with current := t9.2 })
    (fun (v : parser_parse_subtree.V) =>
      .next { v with flag := true }))) v else if (decide (t1 = (6 : Int))) then (Py.seq (fun (v : parser_parse_subtree.V) =>
      Py.bind (v.token) fun t5 =>
      Py.bind (Py.Atom.str? (t5).value) fun t6 =>
      let t7 := (Py.strUpper t6);
      if (decide (t7 = "COLOR")) then (fun (v : parser_parse_subtree.V) =>
        Py.bind (parser_parse_color v.self v.current) fun t8 => let v := { v with self := t8.1 };
        .next v) v else (fun (v : parser_parse_subtree.V) => .err) v)
    (fun (v : parser_parse_subtree.V) =>
      .next { v with flag := true })) v else if (decide (t1 = (4 : Int))) then (Py.seq (fun (v : parser_parse_subtree.V) =>
      if v.flag then (Py.seq (fun (v : parser_parse_subtree.V) =>
        .next { v with current := v.root })
      (fun (v : parser_parse_subtree.V) =>
        Py.bind (parser_read_token v.self) fun t3 => let v := { v with self := t3.1 };
        .next v)) v else (fun (v : parser_parse_subtree.V) =>
        Py.bind (parser_parse_split fuel v.self v.current true) fun t4 => let v := { v with self := t4.1 };
        .next v) v)
    (fun (v : parser_parse_subtree.V) =>
      .next { v with flag := true })) v else if (decide (t1 = (3 : Int))) then (fun (v : parser_parse_subtree.V) =>
      Py.bind (parser_parse_comment v.self v.current) fun t2 => let v := { v with self := t2.1 };
      .next v) v else (Py.seq (fun (v : parser_parse_subtree.V) =>
      .next { v with excepted := "BRACKET_LEFT, BRACKET_RIGHT, LITERAL, FLOAT, OR, COMMENT" })
    (fun (v : parser_parse_subtree.V) => .err)) v)))

/-- the `while` loop of `_parse_subtree` -/
abbrev L (G n : Nat) (v : LV) : Res LV Unit := whileF (fun (_ : LV) => some true) (loopBody G) n v

theorem parse_subtree_unfold (G : Nat) (self : Parser) (root : Int) (flag : Bool) :
    parser_parse_subtree (G + 1) self root flag =
      (Py.finish default (L G G { (default : LV) with self := self, root := root, flag := flag, current := root })).map
        fun r => (r.1.self, r.2) := by
  rw [parser_parse_subtree]
  rfl

theorem parse_split_unfold (G : Nat) (self : Parser) (root : Int) (flag : Bool) :
    parser_parse_split (G + 1) self root flag =
      match parser_parse_subtree G self root flag with
      | none => none
      | some r => (parser_assert_and_cunsume r.1 2).map fun q => (q.1, ()) := by
  rw [parser_parse_split]
  simp only [Py.seq, Py.bind, Py.finish]
  cases parser_parse_subtree G self root flag with
  | none => rfl
  | some r =>
    simp only
    cases parser_assert_and_cunsume r.1 2 <;> rfl

/-- `ASTNode.add_child` as translated, on references in range: the heap keeps its length, `self` gains the child (the child's `parent`
field is set, which nothing reads) -/
theorem add_child_step (n : List ASTNode) (ρ τ : Nat) (hρ : ρ < n.length) (hτ : τ < n.length) :
    ∃ n', ast_add_child n (ρ : Int) (τ : Int) = some (n', ()) ∧ n'.length = n.length ∧
      Step n n' (fun i => if i = ρ then [(τ : Int)] else []) := by
  simp only [ast_add_child, ast_add_child.body, Py.seq, Py.bind, Py.finish]
  rw [idx_nat _ _ hρ, List.getElem?_eq_getElem hρ]
  simp only
  rw [setIdx_nat _ _ _ hρ]
  simp only
  have hτ' : τ < (n.set ρ { n[ρ] with children := n[ρ].children ++ [(τ : Int)] }).length := by simpa using hτ
  rw [idx_nat _ _ hτ', List.getElem?_eq_getElem hτ']
  simp only
  rw [setIdx_nat _ _ _ hτ']
  refine ⟨_, rfl, by simp, by simp, ?_⟩
  intro i o hi
  have hlt : i < n.length := by
    rcases Nat.lt_or_ge i n.length with h' | h'
    · exact h'
    · simp [List.getElem?_eq_none h'] at hi
  rw [List.getElem?_eq_getElem hlt] at hi
  cases hi
  by_cases h1 : i = τ <;> by_cases h2 : i = ρ <;> simp [List.getElem?_set, List.getElem_set, h1, h2, hlt, hτ, hρ] <;> grind

/-- allocation of a record followed by `add_child` under `ρ` -/
theorem attach (nodes : List ASTNode) (rec : ASTNode) (ρ : Nat) (hρ : ρ < nodes.length) :
    ∃ n1, ast_add_child (nodes ++ [rec]) (ρ : Int) (nodes.length : Int) = some (n1, ()) ∧ n1.length = nodes.length + 1 ∧
      Step (nodes ++ [rec]) n1 (fun i => if i = ρ then [(nodes.length : Int)] else []) := by
  obtain ⟨n1, h1, h2, h3⟩ := add_child_step (nodes ++ [rec]) ρ nodes.length (by simp; omega) (by simp)
  exact ⟨n1, h1, by simpa using h2, h3⟩

theorem ofList_eq_iff (l : List Char) (s : String) : String.ofList l = s ↔ l = s.toList := by
  constructor
  · intro h; rw [← h]; simp
  · intro h; rw [h]; simp

/-- `str.upper` of the translation on an encoded word = the model's `upper` -/
theorem strUpper_ofList (w : SwcText.Str) : Py.strUpper (String.ofList w) = String.ofList (upper w) := by
  simp [Py.strUpper, upper]

theorem upper_decide (w : SwcText.Str) (s : String) : decide (Py.strUpper (String.ofList w) = s) = decide (upper w = s.toList) := by
  rw [strUpper_ofList, decide_eq_decide, ofList_eq_iff]

theorem noBad_head {t : Tok} {toks : List Tok} (h : NoBad (t :: toks)) : t ≠ .bad := h t (by simp)

/-! ### shape of the token lists the model's leaf parsers accept -/

theorem parseNode_ok (toks : List Tok) (h : NoBad toks) (q : SwcText.Sci × SwcText.Sci × SwcText.Sci × SwcText.Sci) (rest : List Tok)
    (hp : parseNode toks = .ok (q, rest)) :
    ∃ a b c d, toks = .float a :: .float b :: .float c :: .float d :: .rp :: rest ∧ q = (a, b, c, d) := by
  rcases toks with _ | ⟨t1, r1⟩
  · simp [parseNode] at hp
  have h1 := h.tail
  cases t1 <;> try (simp [parseNode] at hp; done)
  rename_i a
  rcases r1 with _ | ⟨t2, r2⟩
  · simp [parseNode, adv, Bind.bind, Except.bind] at hp
  have h2 := h1.tail
  cases t2 <;> try (simp [parseNode, adv_noBad _ _ h, Bind.bind, Except.bind] at hp; done)
  rename_i b
  rcases r2 with _ | ⟨t3, r3⟩
  · simp [parseNode, adv, adv_noBad _ _ h, Bind.bind, Except.bind] at hp
  have h3 := h2.tail
  cases t3 <;> try (simp [parseNode, adv_noBad _ _ h, adv_noBad _ _ h1, Bind.bind, Except.bind] at hp; done)
  rename_i c
  rcases r3 with _ | ⟨t4, r4⟩
  · simp [parseNode, adv, adv_noBad _ _ h, adv_noBad _ _ h1, Bind.bind, Except.bind] at hp
  have h4 := h3.tail
  cases t4 <;> try (simp [parseNode, adv_noBad _ _ h, adv_noBad _ _ h1, adv_noBad _ _ h2, Bind.bind, Except.bind] at hp; done)
  rename_i d
  rcases r4 with _ | ⟨t5, r5⟩
  · simp [parseNode, adv, adv_noBad _ _ h, adv_noBad _ _ h1, adv_noBad _ _ h2, Bind.bind, Except.bind, expectRp] at hp
  cases t5 <;> try (simp [parseNode, adv_noBad _ _ h, adv_noBad _ _ h1, adv_noBad _ _ h2, adv_noBad _ _ h3, Bind.bind, Except.bind, expectRp] at hp; done)
  simp [parseNode, adv_noBad _ _ h, adv_noBad _ _ h1, adv_noBad _ _ h2, adv_noBad _ _ h3, adv_noBad _ _ h4, Bind.bind, Except.bind, expectRp,
    Pure.pure, Except.pure] at hp
  obtain ⟨rfl, rfl⟩ := hp
  exact ⟨a, b, c, d, rfl, rfl⟩

theorem noBad_drop {toks : List Tok} (h : NoBad toks) (pre rest : List Tok) (e : toks = pre ++ rest) : NoBad rest := by
  subst e
  exact fun x hx => h x (List.mem_append_right _ hx)

theorem parseNode_noBad (toks : List Tok) (h : NoBad toks) (q : SwcText.Sci × SwcText.Sci × SwcText.Sci × SwcText.Sci) (rest : List Tok)
    (hp : parseNode toks = .ok (q, rest)) : NoBad rest := by
  obtain ⟨a, b, c, d, e, _⟩ := parseNode_ok toks h q rest hp
  exact noBad_drop h [.float a, .float b, .float c, .float d, .rp] rest (by simpa using e)

theorem parseColor_ok (toks : List Tok) (h : NoBad toks) (rest : List Tok) (hp : parseColor toks = .ok rest) :
    ∃ w1 w2, toks = .literal w1 :: .literal w2 :: .rp :: rest := by
  rcases toks with _ | ⟨t1, r1⟩
  · simp [parseColor] at hp
  have h1 := h.tail
  cases t1 <;> try (simp [parseColor] at hp; done)
  rename_i a
  rcases r1 with _ | ⟨t2, r2⟩
  · simp [parseColor, adv, Bind.bind, Except.bind] at hp
  have h2 := h1.tail
  cases t2 <;> try (simp [parseColor, adv_noBad _ _ h, Bind.bind, Except.bind] at hp; done)
  rename_i b
  rcases r2 with _ | ⟨t3, r3⟩
  · simp [parseColor, adv, adv_noBad _ _ h, Bind.bind, Except.bind, expectRp] at hp
  cases t3 <;> try (simp [parseColor, adv_noBad _ _ h, adv_noBad _ _ h1, Bind.bind, Except.bind, expectRp] at hp; done)
  simp [parseColor, adv_noBad _ _ h, adv_noBad _ _ h1, adv_noBad _ _ h2, Bind.bind, Except.bind, expectRp] at hp
  subst hp
  exact ⟨a, b, rfl⟩

theorem parseColor_noBad (toks : List Tok) (h : NoBad toks) (rest : List Tok) (hp : parseColor toks = .ok rest) : NoBad rest := by
  obtain ⟨a, b, e⟩ := parseColor_ok toks h rest hp
  exact noBad_drop h [.literal a, .literal b, .rp] rest (by simpa using e)

/-! ### `_parse_color`, `_parse_comment` as translated -/

/-- the COLOR record `_parse_color` allocates (its value is the second word) -/
def colorRec (toks : List Tok) : ASTNode :=
  { type := 4, value := .tup [match toks with | _ :: t :: _ => (enc encF t).value | _ => .none], children := [], parent := none }

/-- **`_parse_color` as translated = the model's `parseColor`**, success and every failure alike; on success the heap has gained one COLOR
record attached to `root` -/
theorem parse_color_refines (toks : List Tok) (nodes : List ASTNode) (root : Int) (h : NoBad toks) :
    parser_parse_color (st encF toks nodes) root =
      match parseColor toks with
      | .error _ => none
      | .ok rest =>
        (ast_add_child (nodes ++ [colorRec encF toks]) root (nodes.length : Int)).map fun r => (st encF rest r.1, (nodes.length : Int)) := by
  rcases toks with _ | ⟨t1, r1⟩
  · simp [parser_parse_color, parser_parse_color.body, Py.seq, Py.bind, Py.finish, assert_and_cunsume_st, parseColor]
  have h1 := h.tail
  cases t1 <;> try (simp [parser_parse_color, parser_parse_color.body, Py.seq, Py.bind, Py.finish, assert_and_cunsume_st, parseColor, enc]; done)
  rename_i a
  rcases r1 with _ | ⟨t2, r2⟩
  · simp [parser_parse_color, parser_parse_color.body, Py.seq, Py.bind, Py.finish, assert_and_cunsume_st, parseColor, enc, adv, Bind.bind, Except.bind]
  have h2 := h1.tail
  cases t2 <;> try (simp [parser_parse_color, parser_parse_color.body, Py.seq, Py.bind, Py.finish, assert_and_cunsume_st, parseColor, enc,
    adv_noBad _ _ h, Bind.bind, Except.bind]; done)
  rename_i b
  rcases r2 with _ | ⟨t3, r3⟩
  · simp [parser_parse_color, parser_parse_color.body, Py.seq, Py.bind, Py.finish, assert_and_cunsume_st, parseColor, enc, adv, adv_noBad _ _ h,
      Bind.bind, Except.bind, expectRp]
  cases t3 <;> try (simp [parser_parse_color, parser_parse_color.body, Py.seq, Py.bind, Py.finish, assert_and_cunsume_st, parseColor, enc,
    adv_noBad _ _ h, adv_noBad _ _ h1, Bind.bind, Except.bind, expectRp]; done)
  simp [parser_parse_color, parser_parse_color.body, Py.seq, Py.bind, Py.finish, assert_and_cunsume_st, parseColor, enc,
    adv_noBad _ _ h, adv_noBad _ _ h1, adv_noBad _ _ h2, Bind.bind, Except.bind, expectRp, Py.alloc, colorRec]
  have e1 : (default : ASTNode).children = [] := rfl
  have e2 : (default : ASTNode).parent = none := rfl
  rw [e1, e2]
  generalize ast_add_child _ root _ = res
  cases res <;> simp [st]

/-- the COMMENT record `_parse_comment` allocates -/
def commentRec (c : SwcText.Str) : ASTNode :=
  { type := 5, value := .tup [.str (String.ofList c)], children := [], parent := none }

/-- **`_parse_comment` as translated**: the comment token is consumed, a COMMENT record is attached to `root` -/
theorem parse_comment_refines (c : SwcText.Str) (t : List Tok) (nodes : List ASTNode) (root : Int) :
    parser_parse_comment (st encF (.comment c :: t) nodes) root =
      (ast_add_child (nodes ++ [commentRec c]) root (nodes.length : Int)).map fun r => (st encF t r.1, (nodes.length : Int)) := by
  simp [parser_parse_comment, parser_parse_comment.body, Py.seq, Py.bind, Py.finish, assert_and_cunsume_st, enc, Py.alloc, commentRec]
  have e1 : (default : ASTNode).children = [] := rfl
  have e2 : (default : ASTNode).parent = none := rfl
  rw [e1, e2]
  generalize ast_add_child _ root _ = res
  cases res <;> simp [st]

/-! ### one iteration of the `_parse_subtree` loop as translated, per token kind -/

theorem L_next (G n : Nat) (v v' : LV) (h : loopBody G v = .next v') : L G (n + 1) v = L G n v' := by
  simp only [L, whileF, h]
theorem L_brk (G n : Nat) (v v' : LV) (h : loopBody G v = .brk v') : L G (n + 1) v = .next v' := by
  simp only [L, whileF, h]
theorem L_err (G n : Nat) (v : LV) (h : loopBody G v = .err) : L G (n + 1) v = .err := by
  simp only [L, whileF, h]

theorem step_nil (G : Nat) (v : LV) (nodes : List ASTNode) (hs : v.self = st encF [] nodes) :
    loopBody G v = .brk { v with token := none } := by
  simp [loopBody, Py.seq, hs]

theorem step_lp_flag (G : Nat) (v : LV) (t : List Tok) (nodes : List ASTNode) (hs : v.self = st encF (.lp :: t) nodes) (hf : v.flag = true) :
    loopBody G v = .next { v with token := some (enc encF .lp), self := st encF t nodes, flag := false } := by
  simp [loopBody, Py.seq, Py.bind, Py.skip, hs, hf, enc, read_token_st]

theorem step_lp_noflag (G : Nat) (v : LV) (t : List Tok) (nodes : List ASTNode) (hs : v.self = st encF (.lp :: t) nodes) (hf : v.flag = false) :
    loopBody G v = match parser_parse_split G (st encF t nodes) v.current false with
      | none => .err
      | some r => .next { v with token := some (enc encF .lp), self := r.1, flag := true } := by
  cases h : parser_parse_split G (st encF t nodes) v.current false <;>
    simp [loopBody, Py.seq, Py.bind, Py.skip, hs, hf, enc, read_token_st, h]

theorem step_rp_flag (G : Nat) (v : LV) (t : List Tok) (nodes : List ASTNode) (hs : v.self = st encF (.rp :: t) nodes) (hf : v.flag = true) :
    loopBody G v = .brk { v with token := some (enc encF .rp) } := by
  simp [loopBody, Py.seq, Py.bind, Py.skip, hs, hf, enc]

theorem step_rp_noflag (G : Nat) (v : LV) (t : List Tok) (nodes : List ASTNode) (hs : v.self = st encF (.rp :: t) nodes) (hf : v.flag = false) :
    loopBody G v = .next { v with token := some (enc encF .rp), self := st encF t nodes, flag := true } := by
  simp [loopBody, Py.seq, Py.bind, Py.skip, hs, hf, enc, read_token_st]

theorem step_float_flag (G : Nat) (v : LV) (a : SwcText.Sci) (t : List Tok) (nodes : List ASTNode)
    (hs : v.self = st encF (.float a :: t) nodes) (hf : v.flag = true) : loopBody G v = .err := by
  simp [loopBody, Py.seq, Py.bind, Py.skip, hs, hf, enc]

theorem step_float_noflag (G : Nat) (v : LV) (a : SwcText.Sci) (t : List Tok) (nodes : List ASTNode)
    (hs : v.self = st encF (.float a :: t) nodes) (hf : v.flag = false) :
    loopBody G v = match parser_parse_node (st encF (.float a :: t) nodes) v.current with
      | none => .err
      | some r => .next { v with token := some (enc encF (.float a)), self := r.1, current := r.2, flag := true } := by
  cases h : parser_parse_node (st encF (.float a :: t) nodes) v.current <;>
    simp [loopBody, Py.seq, Py.bind, Py.skip, hs, hf, enc, h]

theorem step_lit_color (G : Nat) (v : LV) (w : SwcText.Str) (t : List Tok) (nodes : List ASTNode)
    (hs : v.self = st encF (.literal w :: t) nodes) (hw : upper w = "COLOR".toList) :
    loopBody G v = match parser_parse_color (st encF (.literal w :: t) nodes) v.current with
      | none => .err
      | some r => .next { v with token := some (enc encF (.literal w)), self := r.1, flag := true } := by
  cases h : parser_parse_color (st encF (.literal w :: t) nodes) v.current <;>
    simp [loopBody, Py.seq, Py.bind, Py.skip, hs, enc, h, Py.Atom.str?, upper_decide, hw]

theorem step_lit_other (G : Nat) (v : LV) (w : SwcText.Str) (t : List Tok) (nodes : List ASTNode)
    (hs : v.self = st encF (.literal w :: t) nodes) (hw : upper w ≠ "COLOR".toList) : loopBody G v = .err := by
  have hw' : ¬ upper w = ['C', 'O', 'L', 'O', 'R'] := hw
  simp [loopBody, Py.seq, Py.bind, Py.skip, hs, enc, Py.Atom.str?, upper_decide, hw']

theorem step_bar_flag (G : Nat) (v : LV) (t : List Tok) (nodes : List ASTNode) (hs : v.self = st encF (.bar :: t) nodes) (hf : v.flag = true) :
    loopBody G v = .next { v with token := some (enc encF .bar), current := v.root, self := st encF t nodes, flag := true } := by
  simp [loopBody, Py.seq, Py.bind, Py.skip, hs, hf, enc, read_token_st]

theorem step_bar_noflag (G : Nat) (v : LV) (t : List Tok) (nodes : List ASTNode) (hs : v.self = st encF (.bar :: t) nodes) (hf : v.flag = false) :
    loopBody G v = match parser_parse_split G (st encF (.bar :: t) nodes) v.current true with
      | none => .err
      | some r => .next { v with token := some (enc encF .bar), self := r.1, flag := true } := by
  cases h : parser_parse_split G (st encF (.bar :: t) nodes) v.current true <;>
    simp [loopBody, Py.seq, Py.bind, Py.skip, hs, hf, enc, h]

theorem step_comment (G : Nat) (v : LV) (c : SwcText.Str) (t : List Tok) (nodes : List ASTNode)
    (hs : v.self = st encF (.comment c :: t) nodes) :
    loopBody G v = match parser_parse_comment (st encF (.comment c :: t) nodes) v.current with
      | none => .err
      | some r => .next { v with token := some (enc encF (.comment c)), self := r.1 } := by
  cases h : parser_parse_comment (st encF (.comment c :: t) nodes) v.current <;>
    simp [loopBody, Py.seq, Py.bind, Py.skip, hs, enc, h]

/-! ### the simulation: `_parse_subtree` ↔ `_parse_split` as translated against `Asc.parseSubtree` -/
open C15 (ok_bind error_bind)

/-- what the rest of the loop (result `out`) must be, given the model's result: an error ↦ an exception; the model's remaining tokens and
rows ↦ the same remaining tokens in the parser object, and a heap related to the rows by `Built` -/
def Post (ty : Int) (rows : List Asc.Row) (nodes : List ASTNode) (γ ρ : Nat) (γid ρid : Int) (out : Res LV Unit) :
    Except Err (List Tok × List Asc.Row) → Prop
  | .error _ => out = .err
  | .ok (t', rows') => ∃ v' nodes' new, out = .next v' ∧ v'.self = st encF t' nodes' ∧ rows' = rows ++ new ∧ NoBad t' ∧
      Built encF ty nodes nodes' γ ρ γid ρid rows.length new

/-- the statement proved by induction on the model's fuel `f`: the translated loop with at least `f` iterations of its own fuel, calling
`_parse_split` with fuel `G ≥ 2 f` (two levels of the translated recursion per level of the model's), does what the model does -/
def LoopSpec (ty : Int) (f : Nat) : Prop :=
  ∀ (toks : List Tok) (flag : Bool) (ρid γid : Int) (rows : List Asc.Row), NoBad toks →
    parseSubtree ty f toks flag ρid γid rows ≠ .error .fuel →
    ∀ (G n : Nat) (v : LV) (nodes : List ASTNode) (ρ γ : Nat), f ≤ n → 2 * f ≤ G → v.self = st encF toks nodes → v.root = (ρ : Int) →
      v.current = (γ : Int) → v.flag = flag → ρ < nodes.length → γ < nodes.length →
      Post encF ty rows nodes γ ρ γid ρid (L G n v) (parseSubtree ty f toks flag ρid γid rows)

variable {encF}

theorem Post.bar {ty : Int} {rows : List Asc.Row} {nodes : List ASTNode} {γ ρ : Nat} {γid ρid : Int} {out : Res LV Unit}
    {res : Except Err (List Tok × List Asc.Row)} (h : Post encF ty rows nodes ρ ρ ρid ρid out res) : Post encF ty rows nodes γ ρ γid ρid out res := by
  cases res with
  | error e => exact h
  | ok r =>
    obtain ⟨v', nodes', new, h1, h2, h3, h4, h5⟩ := h
    exact ⟨v', nodes', new, h1, h2, h3, h4, h5.bar⟩

theorem Post.leaf {ty : Int} {rows : List Asc.Row} {nodes n1 : List ASTNode} {γ ρ : Nat} {γid ρid : Int} {out : Res LV Unit}
    {res : Except Err (List Tok × List Asc.Row)} (rec : ASTNode)
    (hγ : γ < nodes.length) (hρ : ρ < nodes.length) (hty : rec.type = 4 ∨ rec.type = 5) (hch : rec.children = [])
    (h1 : Step (nodes ++ [rec]) n1 (fun i => if i = γ then [(nodes.length : Int)] else [])) (hl : n1.length = nodes.length + 1)
    (h : Post encF ty rows n1 γ ρ γid ρid out res) : Post encF ty rows nodes γ ρ γid ρid out res := by
  cases res with
  | error e => exact h
  | ok r =>
    obtain ⟨v', nodes', new, g1, g2, g3, g4, g5⟩ := h
    exact ⟨v', nodes', new, g1, g2, g3, g4, Built.leaf encF rec hγ hρ hty hch h1 hl g5⟩

theorem Post.node {ty : Int} {rows : List Asc.Row} {nodes n1 : List ASTNode} {γ ρ : Nat} {γid ρid : Int} {out : Res LV Unit}
    {res : Except Err (List Tok × List Asc.Row)} (a b c d : SwcText.Sci)
    (hγ : γ < nodes.length) (hρ : ρ < nodes.length)
    (h1 : Step (nodes ++ [nodeRec encF a b c d]) n1 (fun i => if i = γ then [(nodes.length : Int)] else []))
    (hl : n1.length = nodes.length + 1)
    (h : Post encF ty (rows ++ [⟨ty, a, b, c, d, γid⟩]) n1 nodes.length ρ (rows.length : Int) ρid out res) :
    Post encF ty rows nodes γ ρ γid ρid out res := by
  cases res with
  | error e => exact h
  | ok r =>
    obtain ⟨v', nodes', new, g1, g2, g3, g4, g5⟩ := h
    refine ⟨v', nodes', _ :: new, g1, g2, by rw [g3]; simp, g4, Built.node encF a b c d hγ hρ h1 hl ?_⟩
    simpa using g5

theorem Post.split {ty : Int} {rows new1 : List Asc.Row} {nodes n1 : List ASTNode} {γ ρ : Nat} {γid ρid : Int} {out : Res LV Unit}
    {res : Except Err (List Tok × List Asc.Row)} (hγ : γ < nodes.length) (hρ : ρ < nodes.length)
    (h1 : Built encF ty nodes n1 γ γ γid γid rows.length new1)
    (h : Post encF ty (rows ++ new1) n1 γ ρ γid ρid out res) : Post encF ty rows nodes γ ρ γid ρid out res := by
  cases res with
  | error e => exact h
  | ok r =>
    obtain ⟨v', nodes', new, g1, g2, g3, g4, g5⟩ := h
    refine ⟨v', nodes', new1 ++ new, g1, g2, by rw [g3]; simp, g4, Built.split encF hγ hρ h1 ?_⟩
    simpa using g5

/-- result of a whole `_parse_subtree(root, flag)` call -/
def SubPost (encF : SwcText.Sci → Int) (ty : Int) (rows : List Asc.Row) (nodes : List ASTNode) (ρ : Nat) (ρid : Int) (out : Option (Parser × Unit)) :
    Except Err (List Tok × List Asc.Row) → Prop
  | .error _ => out = none
  | .ok (t', rows') => ∃ nodes' new, out = some (st encF t' nodes', ()) ∧ rows' = rows ++ new ∧ NoBad t' ∧
      Built encF ty nodes nodes' ρ ρ ρid ρid rows.length new

theorem subtree_of_loop {ty : Int} {f : Nat} (hP : LoopSpec encF ty f) (toks : List Tok) (flag : Bool) (ρid : Int) (rows : List Asc.Row)
    (hnb : NoBad toks) (hne : parseSubtree ty f toks flag ρid ρid rows ≠ .error .fuel) (G : Nat) (hG : 2 * f + 1 ≤ G)
    (nodes : List ASTNode) (ρ : Nat) (hρ : ρ < nodes.length) :
    SubPost encF ty rows nodes ρ ρid (parser_parse_subtree G (st encF toks nodes) (ρ : Int) flag) (parseSubtree ty f toks flag ρid ρid rows) := by
  obtain ⟨G', rfl⟩ : ∃ G', G = G' + 1 := ⟨G - 1, by omega⟩
  rw [parse_subtree_unfold]
  have h := hP toks flag ρid ρid rows hnb hne G' G'
    { (default : LV) with self := st encF toks nodes, root := (ρ : Int), flag := flag, current := (ρ : Int) } nodes ρ ρ (by omega) (by omega)
    rfl rfl rfl rfl hρ hρ
  revert h
  cases parseSubtree ty f toks flag ρid ρid rows with
  | error e => intro h; simp only [Post] at h; simp [SubPost, h, Py.finish]
  | ok r =>
    intro h
    obtain ⟨v', nodes', new, g1, g2, g3, g4, g5⟩ := h
    exact ⟨nodes', new, by simp [g1, Py.finish, g2], g3, g4, g5⟩

theorem expectRp_ok (tr t2 : List Tok) (h : NoBad tr) (he : expectRp tr = .ok t2) : tr = .rp :: t2 := by
  cases tr with
  | nil => simp [expectRp] at he
  | cons x t =>
    cases x <;> simp [expectRp, adv_noBad _ _ h] at he
    rw [he]

theorem expectLp_ok (tr t2 : List Tok) (h : NoBad tr) (he : expectLp tr = .ok t2) : tr = .lp :: t2 := by
  cases tr with
  | nil => simp [expectLp] at he
  | cons x t =>
    cases x <;> simp [expectLp, adv_noBad _ _ h] at he
    rw [he]

/-- result of a whole `_parse_split(root, flag)` call: the nested `_parse_subtree`, then the closing bracket -/
def SplitPost (encF : SwcText.Sci → Int) (ty : Int) (rows : List Asc.Row) (nodes : List ASTNode) (γ : Nat) (γid : Int) (out : Option (Parser × Unit)) :
    Except Err (List Tok × List Asc.Row) → Prop
  | .error _ => out = none
  | .ok (tr, rowsr) =>
    match expectRp tr with
    | .error _ => out = none
    | .ok t2 => ∃ n1 new1, out = some (st encF t2 n1, ()) ∧ rowsr = rows ++ new1 ∧ NoBad t2 ∧ Built encF ty nodes n1 γ γ γid γid rows.length new1

theorem split_of_loop {ty : Int} {f : Nat} (hP : LoopSpec encF ty f) (toks : List Tok) (flag : Bool) (γid : Int) (rows : List Asc.Row)
    (hnb : NoBad toks) (hne : parseSubtree ty f toks flag γid γid rows ≠ .error .fuel) (G : Nat) (hG : 2 * f + 2 ≤ G)
    (nodes : List ASTNode) (γ : Nat) (hγ : γ < nodes.length) :
    SplitPost encF ty rows nodes γ γid (parser_parse_split G (st encF toks nodes) (γ : Int) flag) (parseSubtree ty f toks flag γid γid rows) := by
  obtain ⟨G', rfl⟩ : ∃ G', G = G' + 1 := ⟨G - 1, by omega⟩
  rw [parse_split_unfold]
  have h := subtree_of_loop hP toks flag γid rows hnb hne G' (by omega) nodes γ hγ
  revert h
  cases parseSubtree ty f toks flag γid γid rows with
  | error e => intro h; simp only [SubPost] at h; simp [SplitPost, h]
  | ok r =>
    obtain ⟨tr, rowsr⟩ := r
    intro h
    obtain ⟨n1, new1, g1, g2, g3, g4⟩ := h
    simp only [SplitPost, g1]
    rw [expectRp_refines encF tr n1 g3]
    cases he : expectRp tr with
    | error e => simp
    | ok t2 =>
      have := expectRp_ok tr t2 g3 he
      exact ⟨n1, new1, by simp, g2, noBad_drop g3 [.rp] t2 (by simpa using this), g4⟩

/-- an iteration that calls `_parse_split` (`( (` and `( |`), then the rest of the loop -/
theorem split_case {ty : Int} {f : Nat} (hP : LoopSpec encF ty f) (toksN : List Tok) (flagN : Bool) (ρid γid : Int) (rows : List Asc.Row)
    (hnb : NoBad toksN) (G n' : Nat) (v : LV) (nodes : List ASTNode) (ρ γ : Nat) (hn : f ≤ n') (hG : 2 * f + 2 ≤ G)
    (hρ : ρ < nodes.length) (hγ : γ < nodes.length) (mk : Parser × Unit → LV)
    (hmk : ∀ r, (mk r).self = r.1 ∧ (mk r).root = (ρ : Int) ∧ (mk r).current = (γ : Int) ∧ (mk r).flag = true)
    (hbody : loopBody G v = match parser_parse_split G (st encF toksN nodes) (γ : Int) flagN with | none => .err | some r => .next (mk r))
    (hne : (parseSubtree ty f toksN flagN γid γid rows >>= fun r => expectRp r.1 >>= fun t2 => parseSubtree ty f t2 true ρid γid r.2) ≠ .error .fuel) :
    Post encF ty rows nodes γ ρ γid ρid (L G (n' + 1) v)
      (parseSubtree ty f toksN flagN γid γid rows >>= fun r => expectRp r.1 >>= fun t2 => parseSubtree ty f t2 true ρid γid r.2) := by
  have hne1 : parseSubtree ty f toksN flagN γid γid rows ≠ .error .fuel := by
    intro h; rw [h] at hne; exact hne rfl
  have hsp := split_of_loop hP toksN flagN γid rows hnb hne1 G hG nodes γ hγ
  revert hsp hne
  cases parseSubtree ty f toksN flagN γid γid rows with
  | error e =>
    intro hne hsp
    simp only [SplitPost] at hsp
    rw [hsp] at hbody
    simp only [error_bind, Post]
    exact L_err _ _ _ hbody
  | ok r =>
    obtain ⟨tr, rowsr⟩ := r
    simp only [ok_bind, SplitPost]
    cases expectRp tr with
    | error e =>
      intro hne hsp
      simp only at hsp
      rw [hsp] at hbody
      simp only [error_bind, Post]
      exact L_err _ _ _ hbody
    | ok t2 =>
      intro hne hsp
      simp only [ok_bind] at hne ⊢
      obtain ⟨n1, new1, g1, g2, g3, g4⟩ := hsp
      rw [g1] at hbody
      rw [L_next _ _ _ _ hbody]
      obtain ⟨m1, m2, m3, m4⟩ := hmk (st encF t2 n1, ())
      have hlen := g4.len
      subst g2
      exact Post.split hγ hρ g4 (hP t2 true ρid γid _ g3 hne G n' _ n1 ρ γ hn (by omega) m1 m2 m3 m4 (by omega) (by omega))

theorem loop_zero (ty : Int) : LoopSpec encF ty 0 := by
  intro toks flag ρid γid rows _ hne
  exact absurd rfl hne

theorem loop_step {ty : Int} {f : Nat} (hP : LoopSpec encF ty f) : LoopSpec encF ty (f + 1) := by
  intro toks flag ρid γid rows hnb hne G n v nodes ρ γ hn hG hs hr hc hf hρ hγ
  obtain ⟨n', rfl⟩ : ∃ n', n = n' + 1 := ⟨n - 1, by omega⟩
  cases toks with
  | nil =>
    have e : parseSubtree ty (f + 1) [] flag ρid γid rows = .ok ([], rows) := by simp only [parseSubtree]
    rw [e, L_brk _ _ _ _ (step_nil encF G v nodes hs)]
    exact ⟨_, nodes, [], rfl, hs, by simp, by intro x hx; simp at hx, Built.nil encF ty nodes γ ρ γid ρid _⟩
  | cons tk t =>
    have hnt := hnb.tail
    cases tk with
    | lp =>
      cases flag with
      | true =>
        have e : parseSubtree ty (f + 1) (.lp :: t) true ρid γid rows = parseSubtree ty f t false ρid γid rows := by
          simp only [parseSubtree, adv_noBad _ _ hnb, ok_bind]; rfl
        rw [e] at hne ⊢
        rw [L_next _ _ _ _ (step_lp_flag encF G v t nodes hs hf)]
        exact hP t false ρid γid rows hnt hne G n' _ nodes ρ γ (by omega) (by omega) rfl hr hc rfl hρ hγ
      | false =>
        have e : parseSubtree ty (f + 1) (.lp :: t) false ρid γid rows =
            (parseSubtree ty f t false γid γid rows >>= fun r => expectRp r.1 >>= fun t2 => parseSubtree ty f t2 true ρid γid r.2) := by
          simp only [parseSubtree, adv_noBad _ _ hnb, ok_bind]; rfl
        rw [e] at hne ⊢
        have hb := step_lp_noflag encF G v t nodes hs hf
        rw [hc] at hb
        exact split_case hP t false ρid γid rows hnt G n' v nodes ρ γ (by omega) (by omega) hρ hγ
          (fun r => { v with token := some (enc encF .lp), self := r.1, flag := true, current := (γ : Int) }) (fun r => ⟨rfl, hr, rfl, rfl⟩) hb hne
    | rp =>
      cases flag with
      | true =>
        have e : parseSubtree ty (f + 1) (.rp :: t) true ρid γid rows = .ok (.rp :: t, rows) := by simp only [parseSubtree]; rfl
        rw [e, L_brk _ _ _ _ (step_rp_flag encF G v t nodes hs hf)]
        exact ⟨_, nodes, [], rfl, hs, by simp, hnb, Built.nil encF ty nodes γ ρ γid ρid _⟩
      | false =>
        have e : parseSubtree ty (f + 1) (.rp :: t) false ρid γid rows = parseSubtree ty f t true ρid γid rows := by
          simp only [parseSubtree, adv_noBad _ _ hnb, ok_bind]; rfl
        rw [e] at hne ⊢
        rw [L_next _ _ _ _ (step_rp_noflag encF G v t nodes hs hf)]
        exact hP t true ρid γid rows hnt hne G n' _ nodes ρ γ (by omega) (by omega) rfl hr hc rfl hρ hγ
    | bar =>
      cases flag with
      | true =>
        have e : parseSubtree ty (f + 1) (.bar :: t) true ρid γid rows = parseSubtree ty f t true ρid ρid rows := by
          simp only [parseSubtree, adv_noBad _ _ hnb, ok_bind]; rfl
        rw [e] at hne ⊢
        rw [L_next _ _ _ _ (step_bar_flag encF G v t nodes hs hf)]
        exact Post.bar (hP t true ρid ρid rows hnt hne G n' _ nodes ρ ρ (by omega) (by omega) rfl hr hr rfl hρ hρ)
      | false =>
        have e : parseSubtree ty (f + 1) (.bar :: t) false ρid γid rows =
            (parseSubtree ty f (.bar :: t) true γid γid rows >>= fun r => expectRp r.1 >>= fun t2 => parseSubtree ty f t2 true ρid γid r.2) := by
          simp only [parseSubtree, ok_bind]; rfl
        rw [e] at hne ⊢
        have hb := step_bar_noflag encF G v t nodes hs hf
        rw [hc] at hb
        exact split_case hP (.bar :: t) true ρid γid rows hnb G n' v nodes ρ γ (by omega) (by omega) hρ hγ
          (fun r => { v with token := some (enc encF .bar), self := r.1, flag := true, current := (γ : Int) }) (fun r => ⟨rfl, hr, rfl, rfl⟩) hb hne
    | comment c =>
      have e : parseSubtree ty (f + 1) (.comment c :: t) flag ρid γid rows = parseSubtree ty f t flag ρid γid rows := by
        simp only [parseSubtree, adv_noBad _ _ hnb, ok_bind]
      rw [e] at hne ⊢
      have hb := step_comment encF G v c t nodes hs
      rw [hc, parse_comment_refines] at hb
      obtain ⟨n1, a1, a2, a3⟩ := attach nodes (commentRec c) γ hγ
      rw [a1] at hb
      rw [L_next _ _ _ _ hb]
      exact Post.leaf (commentRec c) hγ hρ (Or.inr rfl) rfl a3 a2
        (hP t flag ρid γid rows hnt hne G n' _ n1 ρ γ (by omega) (by omega) rfl hr rfl hf (by omega) (by omega))
    | float a =>
      cases flag with
      | true =>
        have e : parseSubtree ty (f + 1) (.float a :: t) true ρid γid rows = .error .tokenType := by simp only [parseSubtree]; rfl
        rw [e]
        exact L_err _ _ _ (step_float_flag encF G v a t nodes hs hf)
      | false =>
        have e : parseSubtree ty (f + 1) (.float a :: t) false ρid γid rows =
            (parseNode (.float a :: t) >>= fun nr => parseSubtree ty f nr.2 true ρid (rows.length : Int)
              (rows ++ [⟨ty, nr.1.1, nr.1.2.1, nr.1.2.2.1, nr.1.2.2.2, γid⟩])) := by
          simp only [parseSubtree, ok_bind]; rfl
        rw [e] at hne ⊢
        have hb := step_float_noflag encF G v a t nodes hs hf
        rw [hc, parse_node_refines encF _ _ _ hnb] at hb
        revert hb hne
        cases hpn : parseNode (.float a :: t) with
        | error er =>
          intro hne hb
          exact L_err _ _ _ hb
        | ok nr =>
          obtain ⟨⟨x, y, z, r⟩, rest⟩ := nr
          intro hne hb
          simp only [ok_bind] at hne ⊢
          obtain ⟨n1, a1, a2, a3⟩ := attach nodes (nodeRec encF x y z r) γ hγ
          simp only [a1, Option.map_some] at hb
          rw [L_next _ _ _ _ hb]
          exact Post.node x y z r hγ hρ a3 a2
            (hP rest true ρid _ _ (parseNode_noBad _ hnb _ _ hpn) hne G n' _ n1 ρ nodes.length (by omega) (by omega) rfl hr rfl rfl
              (by omega) (by omega))
    | literal w =>
      by_cases hw : upper w = "COLOR".toList
      · have e : parseSubtree ty (f + 1) (.literal w :: t) flag ρid γid rows =
            (parseColor (.literal w :: t) >>= fun t1 => parseSubtree ty f t1 true ρid γid rows) := by
          simp only [parseSubtree, hw, if_true]
        rw [e] at hne ⊢
        have hb := step_lit_color encF G v w t nodes hs hw
        rw [hc, parse_color_refines encF _ _ _ hnb] at hb
        revert hb hne
        cases hpc : parseColor (.literal w :: t) with
        | error er =>
          intro hne hb
          exact L_err _ _ _ hb
        | ok rest =>
          intro hne hb
          simp only [ok_bind] at hne ⊢
          obtain ⟨n1, a1, a2, a3⟩ := attach nodes (colorRec encF (.literal w :: t)) γ hγ
          simp only [a1, Option.map_some] at hb
          rw [L_next _ _ _ _ hb]
          exact Post.leaf (colorRec encF (.literal w :: t)) hγ hρ (Or.inl rfl) rfl a3 a2
            (hP rest true ρid γid rows (parseColor_noBad _ hnb _ hpc) hne G n' _ n1 ρ γ (by omega) (by omega) rfl hr rfl rfl (by omega) (by omega))
      · have e : parseSubtree ty (f + 1) (.literal w :: t) flag ρid γid rows = .error .literal := by
          simp only [parseSubtree, hw, if_false]
        rw [e]
        exact L_err _ _ _ (step_lit_other encF G v w t nodes hs hw)
    | bad => exact absurd rfl (noBad_head hnb)

/-- **`_parse_subtree` ↔ `_parse_split` as translated do what `Asc.parseSubtree` does**, for every fuel of the model (induction), every
token list without a lexer failure, every state of the `flag` protocol and every heap: see `LoopSpec` -/
theorem loop_sim (ty : Int) : ∀ f : Nat, LoopSpec encF ty f
  | 0 => loop_zero ty
  | f + 1 => loop_step (loop_sim ty f)

end RefineAscLoop
