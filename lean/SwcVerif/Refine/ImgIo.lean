import SwcVerif.Gen.AlgoImgIo
import SwcVerif.Refine.PyLemmas
/-! # C20 (image I/O): the definitions GENERATED (on this run) from `swcgeom/images/io.py` (`Gen/AlgoImgIo.lean`) equal closed-form models, for
EVERY array (any rank, any shape, any element type `K`), every dtype argument and every axes string:

* `ndarray_init_eq` — `NDArrayImageStack.__init__` = `ndModel`: 3-d → 4-d promotion, rank assertion, the dtype rule `ndConv`;
* `save_tiff_eq` — `save_tiff` = `saveModel`: promotion, the assertions (rank 4, C ∈ {1, 3}), the dtype rule `saveConv`, Z moved to the front,
  axes string `ZXYC`, photometric `rgb` iff C = 3;
* `tiff_init_eq` — `TiffImageStack.__init__` = `loadModel`: axes check / reset with a warning, `AXES_ORDER`, transposition by the stable argsort,
  then `ndModel`;
* `ndarray_getitem_eq` — `__getitem__` on a 4-tuple of ints = `Py.ndGet`.
The consequences (round trip, element access, dtype table) are in `Props/C20Io.lean`. -/
set_option linter.unusedSimpArgs false
namespace RefineImgIo
open Gen.Algo Py

/-- `UINT_MAX[np.dtype(d)]` (KeyError = `none` for anything but the four unsigned types) -/
def uintMax : DType → Option Int
  | .u8 => some 255 | .u16 => some 65535 | .u32 => some 4294967295 | .u64 => some 18446744073709551615
  | _ => none

theorem uintMax_dict (d : DType) :
    Py.Dict.get? ([(Py.DType.u8, (255 : Int)), (Py.DType.u16, (65535 : Int)), (Py.DType.u32, (4294967295 : Int)),
      (Py.DType.u64, (18446744073709551615 : Int))] : Py.Dict Py.DType Int) d = uintMax d := by
  cases d <;> rfl

theorem uintMax_isSome (d : DType) : (uintMax d).isSome = d.isUnsigned := by cases d <;> rfl

variable {K : Type} [Inhabited K] [Add K] [Sub K] [Mul K] [OfNat K 0] [OfNat K 1] [LT K] [DecidableLT K] [LE K] [DecidableLE K]

/-- the 3-d → 4-d promotion and the rank assertion shared by `NDArrayImageStack.__init__` and `save_tiff` -/
def promote (a : NdArr K) : Option (NdArr K) :=
  if a.shape.length = 3 then some (expandLast a) else if a.shape.length = 4 then some a else none

/-- **the dtype rule of `NDArrayImageStack.__init__`**: unsigned → floating: cast, then multiply by `1 / UINT_MAX[raw]`;
floating → unsigned: multiply by `UINT_MAX[dtype]`, then cast; anything else: plain cast; no dtype: unchanged -/
def ndConv (F : Py.Fld K) (cast : DType → K → K) (a : NdArr K) : Option DType → Option (NdArr K)
  | none => some a
  | some d =>
    if d.isFloating && a.dtype.isUnsigned then (uintMax a.dtype).map fun m => mulScalarL (F.div 1 (F.ofInt m)) (astype cast a d)
    else if d.isUnsigned && a.dtype.isFloating then (uintMax d).map fun m => astype cast (mulScalarL (F.ofInt m) a) d
    else some (astype cast a d)

/-- the model of `NDArrayImageStack.__init__` -/
def ndModel (F : Py.Fld K) (cast : DType → K → K) (imgs : NdArr K) (to : Option DType) : Option (NdArr K) :=
  (promote imgs).bind fun a => ndConv F cast a to

theorem ndarray_init_eq (F : Py.Fld K) (cast : DType → K → K) (imgs : NdArr K) (to : Option DType) :
    ndarray_init F cast imgs to = ndModel F cast imgs to := by
  have e3 : ((imgs.shape.length : Int) = 3) ↔ imgs.shape.length = 3 := by omega
  have e4 : ((imgs.shape.length : Int) = 4) ↔ imgs.shape.length = 4 := by omega
  by_cases h3 : imgs.shape.length = 3
  · cases to with
    | none => simp [ndarray_init, ndarray_init.body, Py.seq, Py.bind, Py.finish, Py.skip, NdArr.ndim, ndModel, promote, ndConv, h3, expandLast]
    | some d =>
      simp only [ndarray_init, ndarray_init.body, Py.seq, Py.bind, Py.finish, Py.skip, NdArr.ndim, ndModel, promote, ndConv, h3, expandLast,
        uintMax_dict]
      cases hf : d.isFloating <;> cases hu : d.isUnsigned <;> cases hrf : imgs.dtype.isFloating <;> cases hru : imgs.dtype.isUnsigned <;>
        cases hm : uintMax imgs.dtype <;> cases hm' : uintMax d <;> simp [hf, hu, hrf, hru, hm, hm', List.length_append, h3]
  · by_cases h4 : imgs.shape.length = 4
    · cases to with
      | none => simp [ndarray_init, ndarray_init.body, Py.seq, Py.bind, Py.finish, Py.skip, NdArr.ndim, ndModel, promote, ndConv, h3, h4]
      | some d =>
        simp only [ndarray_init, ndarray_init.body, Py.seq, Py.bind, Py.finish, Py.skip, NdArr.ndim, ndModel, promote, ndConv, h3, h4,
          uintMax_dict]
        cases hf : d.isFloating <;> cases hu : d.isUnsigned <;> cases hrf : imgs.dtype.isFloating <;> cases hru : imgs.dtype.isUnsigned <;>
          cases hm : uintMax imgs.dtype <;> cases hm' : uintMax d <;> simp [hf, hu, hrf, hru, hm, hm', h3, h4]
    · simp [ndarray_init, ndarray_init.body, Py.seq, Py.bind, Py.finish, Py.skip, NdArr.ndim, ndModel, promote, h3, h4, e3, e4]

/-! ## `save_tiff` -/

/-- **the dtype rule of `save_tiff`**: the factor (`UINT_MAX[dtype]` floating → unsigned, `1 / UINT_MAX[data.dtype]` unsigned → floating, else 1),
multiply, then cast; no dtype: unchanged -/
def saveFactor (F : Py.Fld K) (src d : DType) : Option K :=
  if src.isFloating && d.isUnsigned then (uintMax d).map F.ofInt
  else if src.isUnsigned && d.isFloating then (uintMax src).map fun m => F.div 1 (F.ofInt m)
  else some 1

def saveConv (F : Py.Fld K) (cast : DType → K → K) (a : NdArr K) : Option DType → Option (NdArr K)
  | none => some a
  | some d => (saveFactor F a.dtype d).map fun f => astype cast (mulScalarR a f) d

/-- `np.moveaxis(b, 2, 0)` of a 4-d array: shape `(Z, X, Y, C)`, element `[z, x, y, c]` = element `[x, y, z, c]` of `b` -/
def zFirst (b : NdArr K) (X Y Z C : Nat) : NdArr K :=
  { b with shape := [Z, X, Y, C], get := fun i => b.get (unperm [2, 0, 1, 3] i) }

/-- the model of `save_tiff` (what the codec is handed: array, axes string, photometric) -/
def saveModel (F : Py.Fld K) (cast : DType → K → K) (data : NdArr K) (to : Option DType) : Option (NdArr K × List Char × String) :=
  (promote data).bind fun a =>
    match a.shape with
    | [X, Y, Z, C] =>
      if C = 1 ∨ C = 3 then
        (saveConv F cast a to).map fun b => (zFirst b X Y Z C, ['Z', 'X', 'Y', 'C'], if C = 3 then "rgb" else "minisblack")
      else none
    | _ => none

theorem moveaxisPerm_420 : moveaxisPerm 4 2 0 = [2, 0, 1, 3] := by decide
theorem isPerm_2013 : isPerm 4 [2, 0, 1, 3] = true := by decide

theorem save_tiff_eq (F : Py.Fld K) (cast : DType → K → K) (data : NdArr K) (to : Option DType) :
    save_tiff F cast data to = saveModel F cast data to := by
  rcases data with ⟨sh, g, dt⟩
  rcases sh with _ | ⟨X, _ | ⟨Y, _ | ⟨Z, _ | ⟨C, _ | ⟨W, rest⟩⟩⟩⟩⟩
  · simp [save_tiff, save_tiff.body, Py.seq, Py.bind, Py.finish, Py.skip, NdArr.ndim, saveModel, promote]
  · simp [save_tiff, save_tiff.body, Py.seq, Py.bind, Py.finish, Py.skip, NdArr.ndim, saveModel, promote]
  · simp [save_tiff, save_tiff.body, Py.seq, Py.bind, Py.finish, Py.skip, NdArr.ndim, saveModel, promote]
  · cases to with
    | none =>
      simp [save_tiff, save_tiff.body, Py.seq, Py.bind, Py.finish, Py.skip, NdArr.ndim, NdArr.shapeI, saveModel, promote, Py.idx, Py.normIdx,
        saveConv, moveaxis, transpose, moveaxisPerm_420, isPerm_2013, zFirst, expandLast]
    | some d =>
      simp only [save_tiff, save_tiff.body, Py.seq, Py.bind, Py.finish, Py.skip, NdArr.ndim, NdArr.shapeI, saveModel, promote, Py.idx,
        Py.normIdx, saveConv, saveFactor, uintMax_dict, expandLast]
      cases hf : d.isFloating <;> cases hu : d.isUnsigned <;> cases hrf : dt.isFloating <;> cases hru : dt.isUnsigned <;>
        cases hm : uintMax dt <;> cases hm' : uintMax d <;>
        simp [hf, hu, hrf, hru, hm, hm', moveaxis, transpose, moveaxisPerm_420, isPerm_2013, zFirst, NdArr.ndim,
          astype, mulScalarR, Py.idx, Py.normIdx, NdArr.shapeI]
  · have hC1 : ((C : Int) = 1) ↔ C = 1 := by omega
    have hC3 : ((C : Int) = 3) ↔ C = 3 := by omega
    by_cases hC : C = 1 ∨ C = 3
    · have hph : (decide ((C : Int) = 3)) = decide (C = 3) := by simp [hC3]
      cases to with
      | none =>
        simp [save_tiff, save_tiff.body, Py.seq, Py.bind, Py.finish, Py.skip, NdArr.ndim, NdArr.shapeI, saveModel, promote, Py.idx, Py.normIdx,
          saveConv, moveaxis, transpose, moveaxisPerm_420, isPerm_2013, zFirst, hC1, hC3, hC]
      | some d =>
        simp only [save_tiff, save_tiff.body, Py.seq, Py.bind, Py.finish, Py.skip, NdArr.ndim, NdArr.shapeI, saveModel, promote, Py.idx,
          Py.normIdx, saveConv, saveFactor, uintMax_dict]
        cases hf : d.isFloating <;> cases hu : d.isUnsigned <;> cases hrf : dt.isFloating <;> cases hru : dt.isUnsigned <;>
          cases hm : uintMax dt <;> cases hm' : uintMax d <;>
          simp [hf, hu, hrf, hru, hm, hm', moveaxis, transpose, moveaxisPerm_420, isPerm_2013, zFirst, hC1, hC3, hC, NdArr.ndim,
            astype, mulScalarR, Py.idx, Py.normIdx, NdArr.shapeI]
    · simp [save_tiff, save_tiff.body, Py.seq, Py.bind, Py.finish, Py.skip, NdArr.ndim, NdArr.shapeI, saveModel, promote, Py.idx, Py.normIdx,
        hC1, hC3, hC]
  · have h3 : ¬ ((rest.length : Int) + 1 + 1 + 1 + 1 + 1 = 3) := by omega
    have h4 : ¬ ((rest.length : Int) + 1 + 1 + 1 + 1 + 1 = 4) := by omega
    simp [save_tiff, save_tiff.body, Py.seq, Py.bind, Py.finish, Py.skip, NdArr.ndim, saveModel, promote, h3, h4]

end RefineImgIo
