import SwcVerif.Gen.AlgoImgIo
import SwcVerif.Refine.PyLemmas
/-! # C20 (image I/O): the definitions GENERATED (on this run) from `swcgeom/images/io.py` (`Gen/AlgoImgIo.lean`) equal closed-form models, for
EVERY array (any rank, any shape, any element type `K`), every dtype argument and every axes string:

* `ndarray_init_eq` — `NDArrayImageStack.__init__` = `ndModel`: 3-d → 4-d promotion, rank assertion, the dtype rule `ndConv`;
* `save_tiff_eq` — `save_tiff` = `saveModel`: promotion, the assertions (rank 4, C ∈ {1, 3}), the dtype rule `saveConv`, Z moved to the front,
  axes string `ZXYC`, photometric `rgb` iff C = 3;
* `tiff_init_eq` — `TiffImageStack.__init__` = `loadModel`: axes check / reset with a warning, `AXES_ORDER`, transposition by the stable argsort,
  then `ndModel`;
* `ndarray_getitem_eq` — `__getitem__` on a 4-tuple of ints = `Py.ndGet`.
The consequences (round trip, element access, dtype table) are in `Props/C20Io.lean`. -/
set_option linter.unusedSimpArgs false
namespace RefineImgIo
open Gen.Algo Py

/-- `UINT_MAX[np.dtype(d)]` (KeyError = `none` for anything but the four unsigned types) -/
def uintMax : DType → Option Int
  | .u8 => some 255 | .u16 => some 65535 | .u32 => some 4294967295 | .u64 => some 18446744073709551615
  | _ => none

theorem uintMax_dict (d : DType) :
    Py.Dict.get? ([(Py.DType.u8, (255 : Int)), (Py.DType.u16, (65535 : Int)), (Py.DType.u32, (4294967295 : Int)),
      (Py.DType.u64, (18446744073709551615 : Int))] : Py.Dict Py.DType Int) d = uintMax d := by
  cases d <;> rfl

theorem uintMax_isSome (d : DType) : (uintMax d).isSome = d.isUnsigned := by cases d <;> rfl

variable {K : Type} [Inhabited K] [Add K] [Sub K] [Mul K] [OfNat K 0] [OfNat K 1] [LT K] [DecidableLT K] [LE K] [DecidableLE K]

/-- the 3-d → 4-d promotion and the rank assertion shared by `NDArrayImageStack.__init__` and `save_tiff` -/
def promote (a : NdArr K) : Option (NdArr K) :=
  if a.shape.length = 3 then some (expandLast a) else if a.shape.length = 4 then some a else none

/-- **the dtype rule of `NDArrayImageStack.__init__`**: unsigned → floating: cast, then multiply by `1 / UINT_MAX[raw]`;
floating → unsigned: multiply by `UINT_MAX[dtype]`, then cast; anything else: plain cast; no dtype: unchanged -/
def ndConv (F : Py.Fld K) (cast : DType → K → K) (a : NdArr K) : Option DType → Option (NdArr K)
  | none => some a
  | some d =>
    if d.isFloating && a.dtype.isUnsigned then (uintMax a.dtype).map fun m => mulScalarL (F.div 1 (F.ofInt m)) (astype cast a d)
    else if d.isUnsigned && a.dtype.isFloating then (uintMax d).map fun m => astype cast (mulScalarL (F.ofInt m) a) d
    else some (astype cast a d)

/-- the model of `NDArrayImageStack.__init__` -/
def ndModel (F : Py.Fld K) (cast : DType → K → K) (imgs : NdArr K) (to : Option DType) : Option (NdArr K) :=
  (promote imgs).bind fun a => ndConv F cast a to

theorem ndarray_init_eq (F : Py.Fld K) (cast : DType → K → K) (imgs : NdArr K) (to : Option DType) :
    ndarray_init F cast imgs to = ndModel F cast imgs to := by
  have e3 : ((imgs.shape.length : Int) = 3) ↔ imgs.shape.length = 3 := by omega
  have e4 : ((imgs.shape.length : Int) = 4) ↔ imgs.shape.length = 4 := by omega
  by_cases h3 : imgs.shape.length = 3
  · cases to with
    | none => simp [ndarray_init, ndarray_init.body, Py.seq, Py.bind, Py.finish, Py.skip, NdArr.ndim, ndModel, promote, ndConv, h3, expandLast]
    | some d =>
      simp only [ndarray_init, ndarray_init.body, Py.seq, Py.bind, Py.finish, Py.skip, NdArr.ndim, ndModel, promote, ndConv, h3, expandLast,
        uintMax_dict]
      cases hf : d.isFloating <;> cases hu : d.isUnsigned <;> cases hrf : imgs.dtype.isFloating <;> cases hru : imgs.dtype.isUnsigned <;>
        cases hm : uintMax imgs.dtype <;> cases hm' : uintMax d <;> simp [hf, hu, hrf, hru, hm, hm', List.length_append, h3]
  · by_cases h4 : imgs.shape.length = 4
    · cases to with
      | none => simp [ndarray_init, ndarray_init.body, Py.seq, Py.bind, Py.finish, Py.skip, NdArr.ndim, ndModel, promote, ndConv, h3, h4]
      | some d =>
        simp only [ndarray_init, ndarray_init.body, Py.seq, Py.bind, Py.finish, Py.skip, NdArr.ndim, ndModel, promote, ndConv, h3, h4,
          uintMax_dict]
        cases hf : d.isFloating <;> cases hu : d.isUnsigned <;> cases hrf : imgs.dtype.isFloating <;> cases hru : imgs.dtype.isUnsigned <;>
          cases hm : uintMax imgs.dtype <;> cases hm' : uintMax d <;> simp [hf, hu, hrf, hru, hm, hm', h3, h4]
    · simp [ndarray_init, ndarray_init.body, Py.seq, Py.bind, Py.finish, Py.skip, NdArr.ndim, ndModel, promote, h3, h4, e3, e4]

/-! ## `save_tiff` -/

/-- **the dtype rule of `save_tiff`**: the factor (`UINT_MAX[dtype]` floating → unsigned, `1 / UINT_MAX[data.dtype]` unsigned → floating, else 1),
multiply, then cast; no dtype: unchanged -/
def saveFactor (F : Py.Fld K) (src d : DType) : Option K :=
  if src.isFloating && d.isUnsigned then (uintMax d).map F.ofInt
  else if src.isUnsigned && d.isFloating then (uintMax src).map fun m => F.div 1 (F.ofInt m)
  else some 1

def saveConv (F : Py.Fld K) (cast : DType → K → K) (a : NdArr K) : Option DType → Option (NdArr K)
  | none => some a
  | some d => (saveFactor F a.dtype d).map fun f => astype cast (mulScalarR a f) d

/-- `np.moveaxis(b, 2, 0)` of a 4-d array: shape `(Z, X, Y, C)`, element `[z, x, y, c]` = element `[x, y, z, c]` of `b` -/
def zFirst (b : NdArr K) (X Y Z C : Nat) : NdArr K :=
  { b with shape := [Z, X, Y, C], get := fun i => b.get (unperm [2, 0, 1, 3] i) }

/-- the model of `save_tiff` (what the codec is handed: array, axes string, photometric) -/
def saveModel (F : Py.Fld K) (cast : DType → K → K) (data : NdArr K) (to : Option DType) : Option (NdArr K × List Char × String) :=
  (promote data).bind fun a =>
    match a.shape with
    | [X, Y, Z, C] =>
      if C = 1 ∨ C = 3 then
        (saveConv F cast a to).map fun b => (zFirst b X Y Z C, ['Z', 'X', 'Y', 'C'], if C = 3 then "rgb" else "minisblack")
      else none
    | _ => none

theorem moveaxisPerm_420 : moveaxisPerm 4 2 0 = [2, 0, 1, 3] := by decide
theorem isPerm_2013 : isPerm 4 [2, 0, 1, 3] = true := by decide

theorem save_tiff_eq (F : Py.Fld K) (cast : DType → K → K) (data : NdArr K) (to : Option DType) :
    save_tiff F cast data to = saveModel F cast data to := by
  rcases data with ⟨sh, g, dt⟩
  rcases sh with _ | ⟨X, _ | ⟨Y, _ | ⟨Z, _ | ⟨C, _ | ⟨W, rest⟩⟩⟩⟩⟩
  · simp [save_tiff, save_tiff.body, Py.seq, Py.bind, Py.finish, Py.skip, NdArr.ndim, saveModel, promote]
  · simp [save_tiff, save_tiff.body, Py.seq, Py.bind, Py.finish, Py.skip, NdArr.ndim, saveModel, promote]
  · simp [save_tiff, save_tiff.body, Py.seq, Py.bind, Py.finish, Py.skip, NdArr.ndim, saveModel, promote]
  · cases to with
    | none =>
      simp [save_tiff, save_tiff.body, Py.seq, Py.bind, Py.finish, Py.skip, NdArr.ndim, NdArr.shapeI, saveModel, promote, Py.idx, Py.normIdx,
        saveConv, moveaxis, transpose, moveaxisPerm_420, isPerm_2013, zFirst, expandLast]
    | some d =>
      simp only [save_tiff, save_tiff.body, Py.seq, Py.bind, Py.finish, Py.skip, NdArr.ndim, NdArr.shapeI, saveModel, promote, Py.idx,
        Py.normIdx, saveConv, saveFactor, uintMax_dict, expandLast]
      cases hf : d.isFloating <;> cases hu : d.isUnsigned <;> cases hrf : dt.isFloating <;> cases hru : dt.isUnsigned <;>
        cases hm : uintMax dt <;> cases hm' : uintMax d <;>
        simp [hf, hu, hrf, hru, hm, hm', moveaxis, transpose, moveaxisPerm_420, isPerm_2013, zFirst, NdArr.ndim,
          astype, mulScalarR, Py.idx, Py.normIdx, NdArr.shapeI]
  · have hC1 : ((C : Int) = 1) ↔ C = 1 := by omega
    have hC3 : ((C : Int) = 3) ↔ C = 3 := by omega
    by_cases hC : C = 1 ∨ C = 3
    · have hph : (decide ((C : Int) = 3)) = decide (C = 3) := by simp [hC3]
      cases to with
      | none =>
        simp [save_tiff, save_tiff.body, Py.seq, Py.bind, Py.finish, Py.skip, NdArr.ndim, NdArr.shapeI, saveModel, promote, Py.idx, Py.normIdx,
          saveConv, moveaxis, transpose, moveaxisPerm_420, isPerm_2013, zFirst, hC1, hC3, hC]
      | some d =>
        simp only [save_tiff, save_tiff.body, Py.seq, Py.bind, Py.finish, Py.skip, NdArr.ndim, NdArr.shapeI, saveModel, promote, Py.idx,
          Py.normIdx, saveConv, saveFactor, uintMax_dict]
        cases hf : d.isFloating <;> cases hu : d.isUnsigned <;> cases hrf : dt.isFloating <;> cases hru : dt.isUnsigned <;>
          cases hm : uintMax dt <;> cases hm' : uintMax d <;>
          simp [hf, hu, hrf, hru, hm, hm', moveaxis, transpose, moveaxisPerm_420, isPerm_2013, zFirst, hC1, hC3, hC, NdArr.ndim,
            astype, mulScalarR, Py.idx, Py.normIdx, NdArr.shapeI]
    · simp [save_tiff, save_tiff.body, Py.seq, Py.bind, Py.finish, Py.skip, NdArr.ndim, NdArr.shapeI, saveModel, promote, Py.idx, Py.normIdx,
        hC1, hC3, hC]
  · have h3 : ¬ ((rest.length : Int) + 1 + 1 + 1 + 1 + 1 = 3) := by omega
    have h4 : ¬ ((rest.length : Int) + 1 + 1 + 1 + 1 + 1 = 4) := by omega
    simp [save_tiff, save_tiff.body, Py.seq, Py.bind, Py.finish, Py.skip, NdArr.ndim, saveModel, promote, h3, h4]

/-! ## `TiffImageStack.__init__` -/

/-- `AXES_ORDER` -/
def axesOrder : Py.Dict Char Int := [('X', 0), ('Y', 1), ('Z', 2), ('C', 3), ('I', 2)]

/-- `[AXES_ORDER[c] for c in axes]` (KeyError = `none`) -/
def ordersOf : List Char → Option (List Int)
  | [] => some []
  | c :: cs => (Py.Dict.get? axesOrder c).bind fun o => (ordersOf cs).map (o :: ·)

/-- the axes string read from the file is usable: one known letter per axis -/
def axesValid (ndim : Nat) (axes : List Char) : Bool := axes.length == ndim && axes.all fun c => Py.Dict.contains axesOrder c

/-- the axes string used: the file's if usable, else `ZXYC` (4-d) / `ZXY` -/
def effAxes (ndim : Nat) (axes : List Char) : List Char :=
  if axesValid ndim axes then axes else if ndim = 4 then ['Z', 'X', 'Y', 'C'] else ['Z', 'X', 'Y']

/-- the model of `TiffImageStack.__init__`: (warning sites, the stack's array) -/
def loadModel (F : Py.Fld K) (cast : DType → K → K) (imgs : NdArr K) (axes : List Char) (to : Option DType) : Option (List Int × NdArr K) :=
  (ordersOf (effAxes imgs.shape.length axes)).bind fun orders =>
    (transpose imgs (argsort orders)).bind fun t =>
      (ndModel F cast t to).map fun r => (if axesValid imgs.shape.length axes then [] else [0], r)

theorem for1_loop (F : Py.Fld K) (cast : DType → K → K) : ∀ (l : List Char) (v : tiff_init.V K),
    ∃ c', Py.forEach (tiff_init.for1 F cast) l v =
      match ordersOf l with
      | some os => .next { v with c0_ := v.c0_ ++ os, c := c' }
      | none => .err := by
  intro l
  induction l with
  | nil => intro v; exact ⟨v.c, by simp [Py.forEach, ordersOf]⟩
  | cons a l ih =>
    intro v
    cases ha : Py.Dict.get? axesOrder a with
    | none =>
      refine ⟨v.c, ?_⟩
      have ha' := ha
      simp only [axesOrder] at ha'
      simp only [Py.forEach, tiff_init.for1, Py.bind, ordersOf, ha, ha']
      simp
    | some o =>
      obtain ⟨c', hc⟩ := ih { v with c := a, c0_ := v.c0_ ++ [o] }
      refine ⟨c', ?_⟩
      have ha' := ha
      simp only [axesOrder] at ha'
      simp only [Py.forEach, tiff_init.for1, Py.bind, ordersOf, ha, ha', hc]
      cases ordersOf l <;> simp

theorem tiff_init_eq (F : Py.Fld K) (cast : DType → K → K) (imgs : NdArr K) (axes : List Char) (to : Option DType) :
    tiff_init F cast imgs axes to = loadModel F cast imgs axes to := by
  have hcond : (decide ((Py.len axes) ≠ (Py.NdArr.ndim imgs)) || (axes.any fun x_ =>
      !(Py.Dict.contains ([('X', (0 : Int)), ('Y', (1 : Int)), ('Z', (2 : Int)), ('C', (3 : Int)), ('I', (2 : Int))] : Py.Dict Char Int) x_)))
      = !axesValid imgs.shape.length axes := by
    simp only [axesValid, Py.len, NdArr.ndim, axesOrder]
    by_cases hl : axes.length = imgs.shape.length
    · have : ¬ ((axes.length : Int) ≠ (imgs.shape.length : Int)) := by omega
      simp [hl, List.any_eq_not_all_not]
    · have : ((axes.length : Int) ≠ (imgs.shape.length : Int)) := by omega
      simp [hl, this]
  have e4 : decide (imgs.ndim = 4) = decide (imgs.shape.length = 4) := by
    simp only [NdArr.ndim]; congr 1; apply propext; omega
  simp only [tiff_init, tiff_init.body, Py.seq, Py.bindS, hcond, loadModel, effAxes, e4]
  have hz4 : "ZXYC".toList = ['Z', 'X', 'Y', 'C'] := by decide
  have hz3 : "ZXY".toList = ['Z', 'X', 'Y'] := by decide
  have hw : (default : tiff_init.V K).warnings_ = [] := rfl
  cases hv : axesValid imgs.shape.length axes
  · simp only [Bool.not_false, if_true, Bool.false_eq_true, if_false, hz4, hz3, decide_eq_true_eq, hw, List.nil_append]
    generalize (if imgs.shape.length = 4 then ['Z', 'X', 'Y', 'C'] else ['Z', 'X', 'Y']) = ax
    obtain ⟨c', hc⟩ := for1_loop F cast ax
      { imgs := imgs, axes := ax, dtype := to, axes_raw := axes, orders := (default : tiff_init.V K).orders, c := (default : tiff_init.V K).c,
        warnings_ := [0], c0_ := [] }
    simp only [hc]
    cases ordersOf ax with
    | none => simp [Py.finish]
    | some os =>
      simp only [List.nil_append, Py.bind, Option.bind_some]
      cases transpose imgs (argsort os) with
      | none => simp [Py.finish]
      | some t =>
        simp only [ndarray_init_eq, Option.bind_some]
        cases ndModel F cast t to <;> simp [Py.finish]
  · simp only [Bool.not_true, Bool.false_eq_true, if_false, if_true, Py.skip, hw]
    obtain ⟨c', hc⟩ := for1_loop F cast axes
      { imgs := imgs, axes := axes, dtype := to, axes_raw := (default : tiff_init.V K).axes_raw, orders := (default : tiff_init.V K).orders,
        c := (default : tiff_init.V K).c, warnings_ := [], c0_ := [] }
    simp only [hc]
    cases ordersOf axes with
    | none => simp [Py.finish]
    | some os =>
      simp only [List.nil_append, Py.bind, Option.bind_some]
      cases transpose imgs (argsort os) with
      | none => simp [Py.finish]
      | some t =>
        simp only [ndarray_init_eq, Option.bind_some]
        cases ndModel F cast t to <;> simp [Py.finish]

/-! ## element access -/

theorem ndarray_getitem_eq (imgs : NdArr K) (i j k l : Int) : ndarray_getitem imgs (i, j, k, l) = ndGet imgs [i, j, k, l] := by
  simp only [ndarray_getitem, ndarray_getitem.body, Py.bind, Py.finish]
  cases ndGet imgs [i, j, k, l] <;> rfl

theorem ndarray_get_full_eq (imgs : NdArr K) : ndarray_get_full imgs = some imgs := by
  simp [ndarray_get_full, ndarray_get_full.body, Py.finish]

/-! ## the index arithmetic of the two transpositions -/

theorem unperm_save (x y z c : Nat) : unperm [2, 0, 1, 3] [z, x, y, c] = [x, y, z, c] := rfl
theorem argsort_zxyc : argsort [2, 0, 1, 3] = [1, 2, 0, 3] := by decide
theorem argsort_zxy : argsort [2, 0, 1] = [1, 2, 0] := by decide
theorem unperm_load (x y z c : Nat) : unperm [1, 2, 0, 3] [x, y, z, c] = [z, x, y, c] := rfl
theorem unperm_load3 (x y z : Nat) : unperm [1, 2, 0] [x, y, z] = [z, x, y] := rfl

/-! ## `read_imgs`: the extension dispatch -/

/-- the reader class of a file extension -/
def readerOf (ext : String) : Option String :=
  if ext = ".tif" ∨ ext = ".tiff" then some "TiffImageStack"
  else if ext = ".nrrd" then some "NrrdImageStack"
  else if ext = ".v3dpbd" then some "V3dpbdImageStack"
  else if ext = ".v3draw" then some "V3drawImageStack"
  else if ext = ".npy" then some "NDArrayImageStack"
  else none

/-- the model of `read_imgs`: a missing file is a ValueError; the class is chosen by the extension, else TeraFly if the path is a TeraFly root, else
ValueError; the keyword arguments are forwarded with `dtype` defaulting to `np.float32` -/
def readModel (fname : String) (found isRoot : Bool) (kwargs : Py.Dict String DType) : Option (String × Py.Dict String DType) :=
  if !found then none
  else
    let kw := Py.Dict.setdefault kwargs "dtype" DType.f32
    match readerOf (splitExt fname) with
    | some c => some (c, kw)
    | none => if isRoot then some ("TeraflyImageStack", kw) else none

theorem read_imgs_eq (fname : String) (found isRoot : Bool) (kwargs : Py.Dict String DType) :
    read_imgs fname found isRoot kwargs = readModel fname found isRoot kwargs := by
  simp only [read_imgs, read_imgs.body, Py.seq, Py.finish, Py.skip, readModel, readerOf]
  obtain ⟨e, he⟩ : ∃ e, splitExt fname = e := ⟨_, rfl⟩
  by_cases h1 : e = ".tif" ∨ e = ".tiff" <;> by_cases h2 : e = ".nrrd" <;> by_cases h3 : e = ".v3dpbd" <;> by_cases h4 : e = ".v3draw" <;>
    by_cases h5 : e = ".npy" <;> cases found <;> cases isRoot <;> simp [he, h1, h2, h3, h4, h5]

end RefineImgIo
