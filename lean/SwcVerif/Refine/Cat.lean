import SwcVerif.Gen.AlgoCat
import SwcVerif.Refine.PyLemmas
import SwcVerif.Refine.Redirect
import SwcVerif.Refine.Node
import SwcVerif.Model.Redirect
import SwcVerif.Proofs.Redirect
/-! Refinement for C07 (concatenation): the definition GENERATED from `swcgeom/core/tree_utils.py::cat_tree` (with the generated
node-handle methods, the generated `redirect_tree` and the generated six-column `_sort_tree`; `Gen/AlgoCat.lean`, regenerated on
every run) rewrites the columns exactly as the hand-written model `Redir.catPre` says and then applies the generated `_sort_tree`
to exactly those columns; whenever the model's renumbering succeeds the result as a whole is `Redir.catTree`. -/
namespace RefineCat
open Gen.Algo Redir Py SortM RefineRedirect

/-! ### the numpy idioms -/

theorem idx_getD (l : List Int) (k : Nat) (h : k < l.length) : idx l (k : Int) = some (l.getD k 0) := by
  rw [idx_nat l k h]; simp [List.getD_eq_getElem?_getD, h]

theorem dropAt_single {α : Type} : ∀ (l : List α) (j k : Nat), j ≤ k →
    dropAt l j [k] = l.take (k - j) ++ l.drop (k - j + 1) := by
  intro l
  induction l with
  | nil => intro j k _; simp [dropAt]
  | cons x xs ih =>
    intro j k hjk
    by_cases e : k = j
    · subst e
      have : ∀ (m : Nat) (ys : List α), k < m → dropAt ys m [k] = ys := by
        intro m ys
        induction ys generalizing m with
        | nil => intro _; simp [dropAt]
        | cons y ys ih2 =>
          intro hm
          have hne : ¬ m = k := by omega
          simp [dropAt, hne, ih2 (m + 1) (by omega)]
      simp [dropAt, this (k + 1) xs (by omega)]
    · have hne : ¬ k = j := e
      have h1 : k - j = (k - (j + 1)) + 1 := by omega
      simp only [dropAt, List.contains_cons, List.contains_nil, Bool.or_false, beq_iff_eq]
      rw [if_neg (by omega), ih (j + 1) k (by omega), h1]
      simp

/-- `np.delete(a, [k])` for a row `k`: the array without that row -/
theorem delete_single {α : Type} (l : List α) (k : Nat) (h : k < l.length) : Py.delete l [(k : Int)] = some (eraseAt l k) := by
  simp [Py.delete, normIdx_nat _ _ h, dropAt_single l 0 k (by omega), eraseAt]

theorem mem_tableKids_ids : ∀ (ids ps : List Int) (q i : Int), i ∈ tableKids ids ps q → i ∈ ids
  | [], _, _, _ => by simp [tableKids]
  | _ :: _, [], _, _ => by simp [tableKids]
  | a :: as, p :: ps, q, i => by
    intro h
    simp only [tableKids] at h
    split at h
    · rcases List.mem_cons.1 h with h | h
      · simp [h]
      · exact List.mem_cons_of_mem _ (mem_tableKids_ids as ps q i h)
    · exact List.mem_cons_of_mem _ (mem_tableKids_ids as ps q i h)

/-! ### the loops -/

/-- `[n.id + ns for n in …children()]`: the ids of the listed rows, shifted -/
theorem for1_loop : ∀ (L : List Int) (v : cat_tree.V), (∀ k ∈ L, idx v.ids2 k = some k) →
    forEach cat_tree.for1 L v = .next { v with c16_ := v.c16_ ++ L.map (· + v.ns), n_c15 := L.getLast?.getD v.n_c15 } := by
  intro L
  induction L with
  | nil => intro v _; simp [forEach]
  | cons a L ih =>
    intro v h
    have ha := h a (by simp)
    have := ih { v with n_c15 := a, c16_ := v.c16_ ++ [a + v.ns] } (fun k hk => h k (List.mem_cons_of_mem _ hk))
    simp only [forEach, cat_tree.for1, Py.bind, ha]
    rw [this]
    simp [List.getLast?_cons]

/-- `for n in link_to_root: tree.node(n).pid = node1` -/
theorem for2_loop : ∀ (L : List Int) (v : cat_tree.V), (∀ k ∈ L, 0 ≤ k ∧ k < v.pids.length) →
    forEach cat_tree.for2 L v =
      .next { v with pids := L.foldl (fun ps n => setAt ps n v.node1) v.pids, n := L.getLast?.getD v.n } := by
  intro L
  induction L with
  | nil => intro v _; simp [forEach]
  | cons a L ih =>
    intro v h
    have ha := h a (by simp)
    have e := setIdx_nonneg v.pids a v.node1 ha.1 ha.2
    have := ih { v with n := a, pids := setAt v.pids a v.node1 }
      (fun k hk => by simpa [setAt_length] using h k (List.mem_cons_of_mem _ hk))
    simp only [forEach, cat_tree.for2, Py.bind, e]
    rw [this]
    simp [List.getLast?_cons]

/-! ### `_sort_tree` on six columns -/

/-- **`_sort_tree` as translated for a tree with the columns id, pid, type, x, y, z**: whenever the model's renumbering succeeds on a
table with distinct ids, every column is gathered by the row permutation and the two topology columns are replaced -/
theorem sortTree6_refines (ids pids types xs ys zs : List Int) (hnd : ids.Nodup) (hlp : pids.length = ids.length)
    (hlt : types.length = ids.length) (hlx : xs.length = ids.length) (hly : ys.length = ids.length) (hlz : zs.length = ids.length)
    (r : Result) (h : sortNodesImpl ids pids = .ok r) (F : Nat) :
    sort_tree6_ (ids.length + 1 + F) ids pids types xs ys zs =
      some (range (ids.length : Int), r.newPids, permute types r.indices, permute xs r.indices, permute ys r.indices,
        permute zs r.indices, ()) := by
  have hs := RefineSort.sort_refines ids pids hnd r h F
  have hlt' := indices_lt ids pids r h
  have t1 := take_of_lt ids r.indices hlt'
  have t2 := take_of_lt pids r.indices (by rw [hlp]; exact hlt')
  have t3 := take_of_lt types r.indices (by rw [hlt]; exact hlt')
  have t4 := take_of_lt xs r.indices (by rw [hlx]; exact hlt')
  have t5 := take_of_lt ys r.indices (by rw [hly]; exact hlt')
  have t6 := take_of_lt zs r.indices (by rw [hlz]; exact hlt')
  simp only [sort_tree6_, sort_tree6_.body, seq, Py.bind, hs, t1, t2, t3, t4, t5, t6, finish]
  simp

/-! ### the whole function -/

theorem close_sort6 {fuel : Nat} {A B C D E G A' B' C' D' E' G' : List Int}
    {lhs : Option ((List Int) × (List Int) × (List Int) × (List Int) × (List Int) × (List Int) × Unit)}
    (h : lhs = sort_tree6_ fuel A B C D E G) (hA : A = A') (hB : B = B') (hC : C = C') (hD : D = D') (hE : E = E') (hG : G = G') :
    lhs = sort_tree6_ fuel A' B' C' D' E' G' := by
  subst hA hB hC hD hE hG; exact h

/-- a `Tree` object's id column: ids = positions -/
abbrev rng (n : Nat) : List Int := (List.range n).map (fun (j : Nat) => (j : Int))

theorem rng_idx (n k : Nat) (h : k < n) : idx (rng n) (k : Int) = some (k : Int) := by
  rw [idx_nat _ _ (by simpa using h)]; simp [h]

section core
variable (p1 t1 x1 y1 z1 p2 t2 x2 y2 z2 : List Int) (node1 node2 : Nat) (translate : Bool)

theorem rng_eq (n : Nat) : (List.range n).map Int.ofNat = rng n := rfl

theorem rng_shift (n : Nat) (d : Int) : (List.range n).map (fun k => Int.ofNat k + d) = (rng n).map (fun x => x + d) := by
  simp [rng, List.map_map, Function.comp_def]

theorem map_sub_zero (l : List Int) : l.map (fun x => x - 0) = l := by simp

theorem getD_map_sub' (a : List Int) (d : Int) (i : Nat) (h : i < a.length) :
    (a.map (fun x => x - d)).getD i 0 = a.getD i 0 - d := by
  simp [List.getD_eq_getElem?_getD, h]

/-- the model when `node2` already is the root of the second tree and no translation is requested, in the form the generated code computes it -/
theorem catPre_false (hr : p2.getD node2 (-1) = -1) :
    catPre p1 t1 x1 y1 z1 p2 t2 x2 y2 z2 (node1 : Int) (node2 : Int) false =
      if (x2.getD node2 0 - x1.getD node1 0) * (x2.getD node2 0 - x1.getD node1 0) +
          (y2.getD node2 0 - y1.getD node1 0) * (y2.getD node2 0 - y1.getD node1 0) +
          (z2.getD node2 0 - z1.getD node1 0) * (z2.getD node2 0 - z1.getD node1 0) = 0 then
        ⟨eraseAt (rng p1.length ++ (rng p2.length).map (fun x => x + (p1.length : Int))) (node2 + p1.length),
         eraseAt (((tableKids (rng p2.length) p2 (node2 : Int)).map (fun x => x + (p1.length : Int))).foldl
            (fun ps n => setAt ps n (node1 : Int)) (p1 ++ p2.map (fun x => x + (p1.length : Int)))) (node2 + p1.length),
         eraseAt (x1 ++ x2) (node2 + p1.length), eraseAt (y1 ++ y2) (node2 + p1.length), eraseAt (z1 ++ z2) (node2 + p1.length),
         eraseAt (t1 ++ t2) (node2 + p1.length)⟩
      else
        ⟨rng p1.length ++ (rng p2.length).map (fun x => x + (p1.length : Int)),
         setAt (p1 ++ p2.map (fun x => x + (p1.length : Int))) ((node2 : Int) + (p1.length : Int)) (node1 : Int),
         x1 ++ x2, y1 ++ y2, z1 ++ z2, t1 ++ t2⟩ := by
  have hk : ((node2 : Int) + (p1.length : Int)).toNat = node2 + p1.length := by omega
  simp only [catPre, Int.toNat_natCast, hr, if_true, hk, Bool.false_eq_true, if_false, map_sub_zero, rng_eq, rng_shift]
  split <;> simp

theorem map_sub_neg (l : List Int) (d : Int) : l.map (fun x => x - d) = l.map (fun x => x + -d) := by
  apply List.map_congr_left; intro x _; omega

/-- the model when `node2` already is the root of the second tree and translation is requested (the junction nodes then coincide), in
the form the generated code computes it -/
theorem catPre_true (hr : p2.getD node2 (-1) = -1) (hx : node2 < x2.length) (hy : node2 < y2.length) (hz : node2 < z2.length) :
    catPre p1 t1 x1 y1 z1 p2 t2 x2 y2 z2 (node1 : Int) (node2 : Int) true =
        ⟨eraseAt (rng p1.length ++ (rng p2.length).map (fun x => x + (p1.length : Int))) (node2 + p1.length),
         eraseAt (((tableKids (rng p2.length) p2 (node2 : Int)).map (fun x => x + (p1.length : Int))).foldl
            (fun ps n => setAt ps n (node1 : Int)) (p1 ++ p2.map (fun x => x + (p1.length : Int)))) (node2 + p1.length),
         eraseAt (x1 ++ x2.map (fun x => x + -(x2.getD node2 0 - x1.getD node1 0))) (node2 + p1.length),
         eraseAt (y1 ++ y2.map (fun x => x + -(y2.getD node2 0 - y1.getD node1 0))) (node2 + p1.length),
         eraseAt (z1 ++ z2.map (fun x => x + -(z2.getD node2 0 - z1.getD node1 0))) (node2 + p1.length),
         eraseAt (t1 ++ t2) (node2 + p1.length)⟩ := by
  have hk : ((node2 : Int) + (p1.length : Int)).toNat = node2 + p1.length := by omega
  have e : ∀ a b : Int, a - (a - b) - b = 0 := by intros; omega
  simp only [catPre, Int.toNat_natCast, hr, if_true, hk, rng_eq, rng_shift, getD_map_sub' _ _ _ hx, getD_map_sub' _ _ _ hy,
    getD_map_sub' _ _ _ hz, e, Int.mul_zero, Int.add_zero]
  simp only [map_sub_neg]

theorem cat_core_root (h1 : t1.length = p1.length ∧ x1.length = p1.length ∧ y1.length = p1.length ∧ z1.length = p1.length)
    (h2 : t2.length = p2.length ∧ x2.length = p2.length ∧ y2.length = p2.length ∧ z2.length = p2.length)
    (hn1 : node1 < p1.length) (hn2 : node2 < p2.length) (hr : p2.getD node2 (-1) = -1) (fuel : Nat) :
    cat_tree fuel (rng p1.length) p1 t1 x1 y1 z1 (rng p2.length) p2 t2 x2 y2 z2 node1 node2 translate =
      sort_tree6_ fuel (catPre p1 t1 x1 y1 z1 p2 t2 x2 y2 z2 node1 node2 translate).ids
        (catPre p1 t1 x1 y1 z1 p2 t2 x2 y2 z2 node1 node2 translate).pids
        (catPre p1 t1 x1 y1 z1 p2 t2 x2 y2 z2 node1 node2 translate).types
        (catPre p1 t1 x1 y1 z1 p2 t2 x2 y2 z2 node1 node2 translate).x
        (catPre p1 t1 x1 y1 z1 p2 t2 x2 y2 z2 node1 node2 translate).y
        (catPre p1 t1 x1 y1 z1 p2 t2 x2 y2 z2 node1 node2 translate).z := by
  obtain ⟨ht1, hx1, hy1, hz1⟩ := h1
  obtain ⟨ht2, hx2, hy2, hz2⟩ := h2
  have hroot : node_is_root p2 (node2 : Int) = some true := by
    rw [RefineNode.node_is_root_eq, idx_getD p2 node2 hn2]
    have : p2.getD node2 0 = -1 := by
      rw [List.getD_eq_getElem?_getD] at hr ⊢; simpa [hn2] using hr
    rw [this]; rfl
  have ex1 := idx_getD x1 node1 (by omega)
  have ey1 := idx_getD y1 node1 (by omega)
  have ez1 := idx_getD z1 node1 (by omega)
  have ex2 := idx_getD x2 node2 (by omega)
  have ey2 := idx_getD y2 node2 (by omega)
  have ez2 := idx_getD z2 node2 (by omega)
  have emap : ∀ (l : List Int) (d : Int), node2 < l.length → idx (l.map (fun x => x + d)) (node2 : Int) = some (l.getD node2 0 + d) := by
    intro l d h; rw [idx_getD _ node2 (by simpa using h)]
    simp [List.getD_eq_getElem?_getD, h]
  have hkids : node_children (rng p2.length) p2 (node2 : Int) = some (tableKids (rng p2.length) p2 (node2 : Int)) := by
    rw [RefineNode.node_children_eq, rng_idx _ _ hn2]; rfl
  have hkm : ∀ k ∈ tableKids (rng p2.length) p2 (node2 : Int), idx (rng p2.length) k = some k ∧ 0 ≤ k ∧ k < (p2.length : Int) := by
    intro k hk
    have := mem_tableKids_ids _ _ _ _ hk
    simp only [rng, List.mem_map, List.mem_range] at this
    obtain ⟨j, hj, rfl⟩ := this
    exact ⟨rng_idx _ _ hj, by omega, by omega⟩
  have hlen1 : (rng p1.length).length = p1.length := by simp
  have hcast : (node2 : Int) + (p1.length : Int) = ((node2 + p1.length : Nat) : Int) := by omega
  cases translate
  · simp only [cat_tree, cat_tree.body, seq, Py.bind, hroot, skip, Py.len, ex1, ey1, ez1, ex2, ey2, ez2, Bool.not_true, Bool.false_eq_true, if_false, if_true, hlen1]
    by_cases hc : (x2.getD node2 0 - x1.getD node1 0) * (x2.getD node2 0 - x1.getD node1 0) +
                        (y2.getD node2 0 - y1.getD node1 0) * (y2.getD node2 0 - y1.getD node1 0) +
                      (z2.getD node2 0 - z1.getD node1 0) * (z2.getD node2 0 - z1.getD node1 0) = 0
    · simp only [hc, decide_true, if_true, hkids]
      rw [for1_loop _ _ (fun k hk => (hkm k hk).1)]
      simp only [bindS, List.nil_append]
      rw [for2_loop]
      rotate_left
      · intro k hk
        simp only [List.mem_map] at hk
        obtain ⟨j, hj, rfl⟩ := hk
        have := hkm j hj
        simp only [List.length_append, List.length_map]
        omega
      dsimp only
      simp only [Option.isSome_some, if_true, hcast]
      iterate 6
        rw [delete_single]
        rotate_left
        · simp [foldl_setAt_length]; omega
        dsimp only
      apply close_sort6
      · generalize sort_tree6_ fuel _ _ _ _ _ _ = o
        cases o <;> rfl
      all_goals rw [catPre_false _ _ _ _ _ _ _ _ _ _ _ _ hr, if_pos hc]
    · simp only [hc, decide_false, Bool.false_eq_true, if_false, List.nil_append]
      rw [for2_loop]
      rotate_left
      · intro k hk
        simp only [List.mem_singleton] at hk
        subst hk
        simp only [List.length_append, List.length_map]
        omega
      dsimp only
      simp only [Option.isSome_none, Bool.false_eq_true, if_false, List.foldl_cons, List.foldl_nil]
      apply close_sort6
      · generalize sort_tree6_ fuel _ _ _ _ _ _ = o
        cases o <;> rfl
      all_goals rw [catPre_false _ _ _ _ _ _ _ _ _ _ _ _ hr, if_neg hc]
  · have ex2' : ∀ d : Int, idx (x2.map (fun x => x + d)) (node2 : Int) = some (x2.getD node2 0 + d) := fun d => emap x2 d (by omega)
    have ey2' : ∀ d : Int, idx (y2.map (fun x => x + d)) (node2 : Int) = some (y2.getD node2 0 + d) := fun d => emap y2 d (by omega)
    have ez2' : ∀ d : Int, idx (z2.map (fun x => x + d)) (node2 : Int) = some (z2.getD node2 0 + d) := fun d => emap z2 d (by omega)
    have e : ∀ a b : Int, a + -(a - b) - b = 0 := by intros; omega
    simp only [cat_tree, cat_tree.body, seq, Py.bind, hroot, skip, Py.len, ex1, ey1, ez1, ex2, ey2, ez2, ex2', ey2', ez2', Bool.not_true,
      Bool.false_eq_true, if_false, if_true, hlen1, e, Int.mul_zero, Int.add_zero, decide_true, hkids]
    rw [for1_loop _ _ (fun k hk => (hkm k hk).1)]
    simp only [bindS, List.nil_append]
    rw [for2_loop]
    rotate_left
    · intro k hk
      simp only [List.mem_map] at hk
      obtain ⟨j, hj, rfl⟩ := hk
      have := hkm j hj
      simp only [List.length_append, List.length_map]
      omega
    dsimp only
    simp only [Option.isSome_some, if_true, hcast]
    iterate 6
      rw [delete_single]
      rotate_left
      · simp [foldl_setAt_length]; omega
      dsimp only
    apply close_sort6
    · generalize sort_tree6_ fuel _ _ _ _ _ _ = o
      cases o <;> rfl
    all_goals rw [catPre_true _ _ _ _ _ _ _ _ _ _ _ _ hr (by omega) (by omega) (by omega)]

theorem redirect_lengths (pids types : List Int) (k : Int) :
    (redirect pids types k).pids.length = pids.length ∧ (redirect pids types k).types.length = types.length := by
  simp [redirect, reversePath_length, setAt_length]

/-- the model does not distinguish "re-root the second tree at `node2`" from "start from the re-rooted second tree" -/
theorem catPre_redirected (hnr : ¬ p2.getD node2 (-1) = -1)
    (hq : (redirect p2 t2 (node2 : Int)).pids.getD node2 (-1) = -1) :
    catPre p1 t1 x1 y1 z1 p2 t2 x2 y2 z2 (node1 : Int) (node2 : Int) translate =
      catPre p1 t1 x1 y1 z1 (redirect p2 t2 (node2 : Int)).pids (redirect p2 t2 (node2 : Int)).types x2 y2 z2 (node1 : Int) (node2 : Int)
        translate := by
  have hl := (redirect_lengths p2 t2 (node2 : Int)).1
  simp only [catPre, Int.toNat_natCast, if_neg hnr, hq, if_true, hl]

/-- when `node2` is not the root of the second tree, the generated function first re-roots it (the generated `redirect_tree`, which
is the model `Redir.redirect`) and then does what it does on the re-rooted tree -/
theorem cat_redirected (ht2 : t2.length = p2.length) (hn2 : node2 < p2.length) (hnr : ¬ p2.getD node2 (-1) = -1)
    (hval : ∀ w ∈ rootPath p2 p2.length (node2 : Int), 0 ≤ w ∧ w < p2.length)
    (hlast : ∀ z, (rootPath p2 p2.length (node2 : Int)).getLast? = some z → p2.getD z.toNat (-1) = -1)
    (hq : (redirect p2 t2 (node2 : Int)).pids.getD node2 (-1) = -1) (F : Nat) :
    cat_tree (p2.length + 1 + F) (rng p1.length) p1 t1 x1 y1 z1 (rng p2.length) p2 t2 x2 y2 z2 node1 node2 translate =
      cat_tree (p2.length + 1 + F) (rng p1.length) p1 t1 x1 y1 z1 (rng (redirect p2 t2 (node2 : Int)).pids.length)
        (redirect p2 t2 (node2 : Int)).pids (redirect p2 t2 (node2 : Int)).types x2 y2 z2 node1 node2 translate := by
  have hl := (redirect_lengths p2 t2 (node2 : Int)).1
  have hred := redirect_nosort p2 t2 (node2 : Int) ht2 hval hlast F
  have hroot : node_is_root p2 (node2 : Int) = some false := by
    rw [RefineNode.node_is_root_eq, idx_getD p2 node2 hn2]
    have : ¬ p2.getD node2 0 = -1 := by
      rw [List.getD_eq_getElem?_getD] at hnr ⊢; simpa [hn2] using hnr
    rw [Option.map_some]; simp only [this, decide_false]
  have hroot' : node_is_root (redirect p2 t2 (node2 : Int)).pids (node2 : Int) = some true := by
    rw [RefineNode.node_is_root_eq, idx_getD _ node2 (by omega)]
    have : (redirect p2 t2 (node2 : Int)).pids.getD node2 0 = -1 := by
      rw [List.getD_eq_getElem?_getD] at hq ⊢; simpa [hn2, hl] using hq
    rw [this]; rfl
  rw [hl]
  simp only [cat_tree, cat_tree.body, seq, Py.bind, hroot, hroot', hred, skip, Bool.not_true, Bool.not_false, Bool.false_eq_true,
    if_false, if_true]

/-- **`cat_tree` as translated, up to the final `_sort_tree`, IS the model `Redir.catPre`**: on two tree objects (ids = positions) with
equally long columns, a node of each, and a second tree whose walk from `node2` to its root behaves (it does in every well-formed
tree), nothing raises before the final sort, and the generated `_sort_tree` (six columns) is applied to exactly the columns of
`catPre` — tree 1's rows, tree 2's rows re-rooted, shifted and translated, the junction link or the merge -/
theorem cat_core (h1 : t1.length = p1.length ∧ x1.length = p1.length ∧ y1.length = p1.length ∧ z1.length = p1.length)
    (h2 : t2.length = p2.length ∧ x2.length = p2.length ∧ y2.length = p2.length ∧ z2.length = p2.length)
    (hn1 : node1 < p1.length) (hn2 : node2 < p2.length)
    (hval : ∀ w ∈ rootPath p2 p2.length (node2 : Int), 0 ≤ w ∧ w < p2.length)
    (hlast : ∀ z, (rootPath p2 p2.length (node2 : Int)).getLast? = some z → p2.getD z.toNat (-1) = -1)
    (hq : (redirect p2 t2 (node2 : Int)).pids.getD node2 (-1) = -1) (F : Nat) :
    cat_tree (p2.length + 1 + F) (rng p1.length) p1 t1 x1 y1 z1 (rng p2.length) p2 t2 x2 y2 z2 node1 node2 translate =
      sort_tree6_ (p2.length + 1 + F) (catPre p1 t1 x1 y1 z1 p2 t2 x2 y2 z2 node1 node2 translate).ids
        (catPre p1 t1 x1 y1 z1 p2 t2 x2 y2 z2 node1 node2 translate).pids
        (catPre p1 t1 x1 y1 z1 p2 t2 x2 y2 z2 node1 node2 translate).types
        (catPre p1 t1 x1 y1 z1 p2 t2 x2 y2 z2 node1 node2 translate).x
        (catPre p1 t1 x1 y1 z1 p2 t2 x2 y2 z2 node1 node2 translate).y
        (catPre p1 t1 x1 y1 z1 p2 t2 x2 y2 z2 node1 node2 translate).z := by
  by_cases hr : p2.getD node2 (-1) = -1
  · exact cat_core_root p1 t1 x1 y1 z1 p2 t2 x2 y2 z2 node1 node2 translate h1 h2 hn1 hn2 hr _
  · obtain ⟨hl, hlt⟩ := redirect_lengths p2 t2 (node2 : Int)
    rw [cat_redirected p1 t1 x1 y1 z1 p2 t2 x2 y2 z2 node1 node2 translate h2.1 hn2 hr hval hlast hq F,
      catPre_redirected p1 t1 x1 y1 z1 p2 t2 x2 y2 z2 node1 node2 translate hr hq]
    exact cat_core_root p1 t1 x1 y1 z1 _ _ x2 y2 z2 node1 node2 translate h1
      ⟨by rw [hlt, hl]; exact h2.1, by rw [hl]; exact h2.2.1, by rw [hl]; exact h2.2.2.1, by rw [hl]; exact h2.2.2.2⟩ hn1
      (by rw [hl]; exact hn2) hq _

/-- **`cat_tree` as translated, as a whole, IS the model `Redir.catTree`** whenever the model's final renumbering succeeds on the
concatenated table (it does for well-formed trees: `C07.cat_separate_sorted`, `C07.cat_merged_sorted`): ids `arange`, the new
parents, and the type / x / y / z columns carried along by the row permutation -/
theorem cat_refines (h1 : t1.length = p1.length ∧ x1.length = p1.length ∧ y1.length = p1.length ∧ z1.length = p1.length)
    (h2 : t2.length = p2.length ∧ x2.length = p2.length ∧ y2.length = p2.length ∧ z2.length = p2.length)
    (hn1 : node1 < p1.length) (hn2 : node2 < p2.length)
    (hval : ∀ w ∈ rootPath p2 p2.length (node2 : Int), 0 ≤ w ∧ w < p2.length)
    (hlast : ∀ z, (rootPath p2 p2.length (node2 : Int)).getLast? = some z → p2.getD z.toNat (-1) = -1)
    (hq : (redirect p2 t2 (node2 : Int)).pids.getD node2 (-1) = -1)
    (c : Cat) (hc : c = catPre p1 t1 x1 y1 z1 p2 t2 x2 y2 z2 node1 node2 translate)
    (hnd : c.ids.Nodup) (hle : c.ids.length ≤ p1.length + p2.length)
    (hl : c.pids.length = c.ids.length ∧ c.types.length = c.ids.length ∧ c.x.length = c.ids.length ∧ c.y.length = c.ids.length ∧
      c.z.length = c.ids.length)
    (r : Result) (h : sortNodesImpl c.ids c.pids = .ok r) (F : Nat) :
    cat_tree (p1.length + p2.length + 1 + F) (rng p1.length) p1 t1 x1 y1 z1 (rng p2.length) p2 t2 x2 y2 z2 node1 node2 translate =
        some (range (c.ids.length : Int), r.newPids, permute c.types r.indices, permute c.x r.indices, permute c.y r.indices,
          permute c.z r.indices, ()) ∧
      catTree p1 t1 x1 y1 z1 p2 t2 x2 y2 z2 node1 node2 translate =
        some (r.newPids, r.idMap, ⟨r.idMap, r.newPids, permute c.x r.indices, permute c.y r.indices, permute c.z r.indices,
          permute c.types r.indices⟩) := by
  constructor
  · have e1 : p1.length + p2.length + 1 + F = p2.length + 1 + (p1.length + F) := by omega
    rw [e1, cat_core p1 t1 x1 y1 z1 p2 t2 x2 y2 z2 node1 node2 translate h1 h2 hn1 hn2 hval hlast hq, ← hc]
    have e2 : p2.length + 1 + (p1.length + F) = c.ids.length + 1 + (p1.length + p2.length - c.ids.length + F) := by omega
    rw [e2]
    exact sortTree6_refines c.ids c.pids c.types c.x c.y c.z hnd hl.1 hl.2.1 hl.2.2.1 hl.2.2.2.1 hl.2.2.2.2 r h _
  · simp only [catTree, ← hc, h]

end core

end RefineCat
