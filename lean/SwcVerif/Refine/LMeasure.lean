import SwcVerif.Gen.AlgoLMeasure
import SwcVerif.Refine.PyLemmas
import SwcVerif.Proofs.Features
import SwcVerif.Props.C06Gen
import SwcVerif.Props.C08Gen
/-! Refinement for C10: the definitions GENERATED from the topological L-Measure functions of `swcgeom/analysis/lmeasure.py`
(`Gen/AlgoLMeasure.lean`: `LMeasure.branch_order`, `n_stems`, `n_tips`, `n_bifs`, `n_branch`, `terminal_degree`, `partition_asymmetry`,
`fragmentation`, with `Tree.soma`, `Tree.get_tips`, `Tree.Node.subtree`, `SWCLike.number_of_edges` and the node-handle methods of
`Gen/AlgoNode.lean`) compute the hand-written models of `Model/Features.lean` / the quantities of their definitions, on every well-formed
tree object (ids = positions, `C07.WF pids` / `C06.IsTree r pids`), for every fuel above a stated bound. -/
namespace RefineLm
open Gen.Algo Py Feat

/-! ## node handles on a tree object (local copies of the specifications of `Gen/AlgoNode.lean`) -/

theorem rangeI_length (n : Nat) : (Sub.rangeI n).length = n := by simp [Sub.rangeI]

theorem idx_rangeI (n k : Nat) (h : k < n) : Py.idx (Sub.rangeI n) (k : Int) = some (k : Int) := by
  rw [Py.idx_nat _ _ (by simpa [rangeI_length] using h)]
  simp [Sub.rangeI, h]

theorem idx_pids (pids : List Int) (k : Nat) (h : k < pids.length) : Py.idx pids (k : Int) = some (pids.getD k (-1)) := by
  rw [Py.idx_nat _ _ h]; simp [h]

theorem countNonzero_eqMask (pids : List Int) (q : Int) :
    Py.countNonzero (Py.eqMask pids q) = ((pids.filter (· = q)).length : Int) := by
  unfold Py.countNonzero Py.eqMask
  congr 1
  induction pids with
  | nil => rfl
  | cons p ps ih => by_cases h : p = q <;> simp [h, ih]

/-- `Node.is_furcation()` on a tree object is the model's `isFurcation` -/
theorem node_is_furcation_eq (pids : List Int) (k : Nat) (h : k < pids.length) :
    node_is_furcation (Sub.rangeI pids.length) pids (k : Int) = some (Sub.isFurcation pids (k : Int)) := by
  simp only [node_is_furcation, node_is_furcation.body, Py.bind, idx_rangeI _ _ h, Py.finish, Option.map, countNonzero_eqMask,
    Sub.isFurcation]
  congr 1
  simp

/-- `Tree.Node.parent()` on a tree object: `None` at a root, otherwise the node whose index is the parent entry -/
theorem node_parent_eq (pids : List Int) (k : Nat) (h : k < pids.length) :
    node_parent pids (k : Int) = some (if pids.getD k (-1) = -1 then none else some (pids.getD k (-1))) := by
  simp only [node_parent, node_parent.body, Py.bind, idx_pids _ _ h, Py.finish, Option.map]
  generalize pids.getD k (-1) = p
  by_cases hp : p = -1 <;> simp [hp]

/-! ## `LMeasure.branch_order` -/

/-- one iteration of the loop body at node `k` -/
theorem bo_body (pids : List Int) (nd : Int) (k : Nat) (hk : k < pids.length) (o : Int) :
    lm_branch_order.while1_body { ids := Sub.rangeI pids.length, pids := pids, node := nd, n := some (k : Int), order := o } =
      .next { ids := Sub.rangeI pids.length, pids := pids, node := nd,
              n := (if pids.getD k (-1) = -1 then none else some (pids.getD k (-1))),
              order := o + (if Sub.isFurcation pids (k : Int) then 1 else 0) } := by
  simp only [lm_branch_order.while1_body, Py.seq, Py.bind, node_is_furcation_eq pids k hk]
  cases hfu : Sub.isFurcation pids (k : Int) <;> simp [node_parent_eq pids k hk, Py.skip]

/-- the `while n is not None` loop: from node `v` with `order = o` it stops with `n = None`, `order = o + branchOrder` -/
theorem bo_loop {pids : List Int} (hw : C07.WF pids) (nd : Int) : ∀ (f : Nat) (v : Int) (o : Int), 0 ≤ v → v < pids.length →
    (Redir.rootPath pids pids.length v).length ≤ f → ∀ F : Nat,
    Py.whileF lm_branch_order.while1_cond lm_branch_order.while1_body (f + 1 + F)
        { ids := Sub.rangeI pids.length, pids := pids, node := nd, n := some v, order := o } =
      .next { ids := Sub.rangeI pids.length, pids := pids, node := nd, n := none, order := o + (branchOrder pids f v : Int) } := by
  intro f
  induction f with
  | zero =>
    intro v _ _ _ hl
    have := Redir.rp_ne_nil pids pids.length v
    cases hp : Redir.rootPath pids pids.length v with
    | nil => exact absurd hp this
    | cons a l => rw [hp] at hl; simp at hl
  | succ f ih =>
    intro v o h0 hv hl F
    obtain ⟨k, rfl⟩ : ∃ k : Nat, v = (k : Int) := ⟨v.toNat, by omega⟩
    have hk : k < pids.length := by omega
    have hfuel : f + 1 + 1 + F = (f + 1 + F) + 1 := by omega
    rw [hfuel, Py.whileF]
    simp only [lm_branch_order.while1_cond, Option.isSome_some]
    rw [bo_body pids nd k hk o]
    simp only []
    rw [FeatP.bo_succ]
    simp only [Int.toNat_natCast]
    by_cases hpar : pids.getD k (-1) = -1
    · simp only [hpar, if_true]
      have hf2 : f + 1 + F = (f + F) + 1 := by omega
      rw [hf2]
      cases hfu : Sub.isFurcation pids (k : Int) <;> simp [Py.whileF, lm_branch_order.while1_cond]
    · have hk0 : k ≠ 0 := by
        intro h; subst h; exact hpar (by simpa using hw.par_root)
      have hpos : (0 : Int) < (k : Int) := by omega
      have hpv := hw.par_valid' (k : Int) hpos hv
      simp only [Int.toNat_natCast] at hpv
      have hc := hw.path_cons (k : Int) hpos hv
      simp only [Int.toNat_natCast] at hc
      rw [hc] at hl
      simp only [if_neg hpar]
      rw [ih _ _ hpv.1 hpv.2 (by simpa using hl) F]
      cases hfu : Sub.isFurcation pids (k : Int) <;> simp
      omega

/-- **`LMeasure.branch_order` as translated equals the model** on every well-formed tree object, at every node, for every fuel
`≥ pids.length + 2` (in particular the loop terminates and nothing raises) -/
theorem branchOrder_refines (pids : List Int) (hw : C07.WF pids) (k : Nat) (hk : k < pids.length) (F : Nat) :
    lm_branch_order (pids.length + 2 + F) (Sub.rangeI pids.length) pids (k : Int)
      = some ((branchOrder pids (pids.length + 1) (k : Int) : Nat) : Int) := by
  have hl := FeatP.rootPath_len hw (k : Int) (by omega) (by omega)
  have := bo_loop hw (k : Int) (pids.length + 1) (k : Int) 0 (by omega) (by omega) (by omega) F
  simp only [lm_branch_order, lm_branch_order.body, Py.seq]
  rw [show pids.length + 2 + F = pids.length + 1 + 1 + F by omega]
  simp only [this, Py.finish, Option.map]
  simp

/-! ## `LMeasure.n_stems` -/

/-- `ids[pids == q]` is the model's `tableKids` -/
theorem select_eqMask : ∀ (ids pids : List Int) (q : Int), Py.select ids (Py.eqMask pids q) = tableKids ids pids q := by
  intro ids
  induction ids with
  | nil => intro pids q; simp [Py.select, tableKids]
  | cons i is ih =>
    intro pids q
    cases pids with
    | nil => simp [Py.select, Py.eqMask, tableKids]
    | cons p ps =>
      have := ih ps q
      simp only [Py.select, Py.eqMask] at this
      by_cases h : p = q <;> simp [Py.select, Py.eqMask, tableKids, h, this]

/-- the copying comprehension `[Tree.Node(self.attach, idx) for idx in children]` -/
theorem children_loop : ∀ (xs : List Int) (v : node_children.V),
    ∃ i', Py.forEach node_children.for1 xs v = .next { v with c1_ := v.c1_ ++ xs, idx := i' } := by
  intro xs
  induction xs with
  | nil => intro v; exact ⟨v.idx, by simp [Py.forEach]⟩
  | cons x xs ih =>
    intro v
    obtain ⟨i', e⟩ := ih { v with idx := x, c1_ := v.c1_ ++ [x] }
    refine ⟨i', ?_⟩
    simp only [Py.forEach, node_children.for1]
    rw [e]
    simp

/-- `Tree.Node.children()` on a tree object: the rows whose parent entry is the node, in table order -/
theorem node_children_eq (pids : List Int) (k : Nat) (h : k < pids.length) :
    node_children (Sub.rangeI pids.length) pids (k : Int) = some (tableKids (Sub.rangeI pids.length) pids (k : Int)) := by
  simp only [node_children, node_children.body, Py.seq, Py.bind, idx_rangeI _ _ h, Py.bindS, select_eqMask]
  obtain ⟨i', e⟩ := children_loop (tableKids (Sub.rangeI pids.length) pids (k : Int))
    { ids := Sub.rangeI pids.length, pids := pids, self := (k : Int), children := tableKids (Sub.rangeI pids.length) pids (k : Int),
      idx := (default : node_children.V).idx, c1_ := [] }
  simp only [] at e
  rw [e]
  simp [Py.finish]

/-- `Tree.soma()`: node 0 when the first row is typed as soma, `ValueError` otherwise (`IndexError` on an empty table) -/
theorem tree_soma_eq (ids pids types : List Int) :
    tree_soma ids pids types true = if types.head? = some Gen.Consts.type_soma then some 0 else none := by
  cases types with
  | nil => simp [tree_soma, tree_soma.body, Py.seq, Py.bind, Py.idx, Py.normIdx, Py.finish]
  | cons t ts =>
    by_cases h : t = Gen.Consts.type_soma <;>
      simp [tree_soma, tree_soma.body, Py.seq, Py.bind, Py.idx, Py.normIdx, Py.finish, Py.skip, h]

/-- **`LMeasure.n_stems` as translated**: on a non-empty tree object whose first row is typed as soma it returns the number of children of
node 0 (= the model's `nStems`); when the first row has another type it raises (the `ValueError` of `Tree.soma`) -/
theorem nStems_refines (pids types : List Int) (hn : 0 < pids.length) :
    lm_n_stems (Sub.rangeI pids.length) pids types =
      if types.head? = some Gen.Consts.type_soma then some ((nStems pids : Nat) : Int) else none := by
  simp only [lm_n_stems, lm_n_stems.body, Py.bind, tree_soma_eq]
  by_cases h : types.head? = some Gen.Consts.type_soma
  · have := node_children_eq pids 0 hn
    simp only [Nat.cast_zero] at this
    simp [h, this, Py.finish, FeatP.nStems_eq, Feat.rangeI]
  · simp [h, Py.finish]

/-! ## `LMeasure.n_tips` -/

theorem distinct_iff : ∀ l : List Int, Py.distinct l = true ↔ l.Nodup := by
  intro l
  induction l with
  | nil => simp [Py.distinct]
  | cons x xs ih => simp [Py.distinct, ih]

theorem tips_loop : ∀ (xs : List Int) (v : tree_get_tips.V),
    ∃ i', Py.forEach tree_get_tips.for1 xs v = .next { v with c1_ := v.c1_ ++ xs, i := i' } := by
  intro xs
  induction xs with
  | nil => intro v; exact ⟨v.i, by simp [Py.forEach]⟩
  | cons x xs ih =>
    intro v
    obtain ⟨i', e⟩ := ih { v with i := x, c1_ := v.c1_ ++ [x] }
    refine ⟨i', ?_⟩
    simp only [Py.forEach, tree_get_tips.for1]
    rw [e]
    simp

/-- `Tree.get_tips()` as translated, on ANY table with distinct ids: the ids that no row names as its parent, in table order
(= the model's `getTips`) -/
theorem getTips_refines (ids pids : List Int) (hd : ids.Nodup) :
    tree_get_tips ids pids = some (Branches.getTips ids pids) := by
  simp only [tree_get_tips, tree_get_tips.body, Py.seq, Py.bind, Py.bindS, Py.setdiff1dUnique, (distinct_iff ids).2 hd, if_true]
  obtain ⟨i', e⟩ := tips_loop (ids.filter fun x => !pids.contains x)
    { ids := ids, pids := pids, tip_ids := ids.filter fun x => !pids.contains x, i := (default : tree_get_tips.V).i, c1_ := [] }
  simp only [] at e
  rw [e]
  simp [Py.finish, Branches.getTips]

/-- **`LMeasure.n_tips` as translated** returns the number of childless nodes (ids no row names as parent) of any table with distinct ids -/
theorem nTips_refines (ids pids types : List Int) (hd : ids.Nodup) :
    lm_n_tips ids pids types = some (((Branches.getTips ids pids).length : Nat) : Int) := by
  simp [lm_n_tips, lm_n_tips.body, Py.bind, getTips_refines ids pids hd, Py.finish]

/-! ## `LMeasure.n_bifs`, `n_branch`, `fragmentation` (built on the translated `get_furcations` / `get_branches`) -/

mutual
theorem furcsOf_sublist : ∀ r : Rose, (C08.furcsOf r).Sublist r.ids
  | .node i ks => by
    simp only [C08.furcsOf, Rose.ids]
    by_cases h : ks.length > 1
    · simp only [h, if_true, List.singleton_append]
      exact (furcsOfL_sublist ks).cons_cons _
    · simp only [h, if_false, List.nil_append]
      exact (furcsOfL_sublist ks).trans (List.sublist_cons_self _ _)
theorem furcsOfL_sublist : ∀ ks : List Rose, (C08.furcsOfL ks).Sublist (idsL ks)
  | [] => by simp [C08.furcsOfL, idsL]
  | r :: rs => by
    simp only [C08.furcsOfL, idsL]
    exact (furcsOf_sublist r).append (furcsOfL_sublist rs)
end

/-- the furcations of the rose are the rows with two or more children -/
theorem furcs_perm {r : Rose} {pids : List Int} (h : C06.IsTree r pids) :
    (C08.furcsOf r).Perm ((Sub.rangeI pids.length).filter (Sub.isFurcation pids)) := by
  have hd1 : (C08.furcsOf r).Nodup := (furcsOf_sublist r).nodup h.1.2
  have hd2 : ((Sub.rangeI pids.length).filter (Sub.isFurcation pids)).Nodup := (FeatP.rangeI_nodup _).filter _
  rw [List.perm_ext_iff_of_nodup hd1 hd2]
  intro j
  rw [C08.furcsOf_ge2 _ r h.1.1 h.1.2 j, List.mem_filter, C06.isFurcation_iff, h.2.1.mem_iff]

/-- **`LMeasure.n_bifs` as translated** returns the number of nodes with two or more children, on every tree object, for every fuel
`≥ 2·n + 1` -/
theorem nBifs_refines (pids types : List Int) (r : Rose) (h : C06.IsTree r pids) (F : Nat) :
    lm_n_bifs (2 * pids.length + F + 1) (Sub.rangeI pids.length) pids types
      = some ((((Sub.rangeI pids.length).filter (Sub.isFurcation pids)).length : Nat) : Int) := by
  obtain ⟨l, hl, hp⟩ := C08.generated_furcations_eq (Sub.rangeI pids.length) pids r h.1 h.2.2.1 F
  rw [C06.isTree_size h] at hl
  simp only [lm_n_bifs, lm_n_bifs.body, Py.bind, hl, Py.finish, Option.map, Py.len_eq]
  rw [(hp.trans (furcs_perm h)).length_eq]

/-- **`LMeasure.n_branch` as translated** returns the number of branches (`C08.branchesOf`, the partition of the edges of C08) -/
theorem nBranch_refines (pids types : List Int) (r : Rose) (h : C06.IsTree r pids) (F : Nat) :
    lm_n_branch (2 * pids.length + F + 1) (Sub.rangeI pids.length) pids types
      = some (((C08.branchesOf r).length : Nat) : Int) := by
  have hl := C08.generated_getBranches_eq (Sub.rangeI pids.length) pids r h.1 h.2.2.1 F
  rw [C06.isTree_size h] at hl
  simp only [lm_n_branch, lm_n_branch.body, Py.bind, hl, Py.finish, Option.map, Py.len_eq]

/-- **`LMeasure.fragmentation` as translated** (through `SWCLike.number_of_edges`): the number of nodes of the branch minus one, which is
the model's `fragmentation` (= its number of compartments, `C10.fragmentation_eq`) on every non-empty branch -/
theorem fragmentation_refines (b : List Int) :
    lm_fragmentation b = some ((b.length : Int) - 1) ∧ (b ≠ [] → lm_fragmentation b = some ((fragmentation b : Nat) : Int)) := by
  have e : lm_fragmentation b = some ((b.length : Int) - 1) := by
    simp [lm_fragmentation, lm_fragmentation.body, swc_number_of_edges, swc_number_of_edges.body, Py.bind, Py.finish]
  refine ⟨e, fun hb => ?_⟩
  rw [e, fragmentation]
  have : 0 < b.length := List.length_pos_iff.2 hb
  congr 1; omega

/-! ## `LMeasure.terminal_degree` (built on the translated `Tree.Node.subtree` = `get_subtree_impl`, then `Tree.get_tips` on the new table) -/

theorem range_nodup (m : Nat) : (Py.range (m : Int)).Nodup := by
  rw [Py.range_natCast]
  exact List.Pairwise.map _ (fun a b hab h => hab (by exact_mod_cast h)) List.nodup_range

/-- `Tree.Node.subtree()` as translated returns the (id, pid) columns of the model's `getSubtree` -/
theorem node_subtree_eq (pids : List Int) (s : Rose) (h : Represents s (Sub.rangeI pids.length) pids)
    (hin : ∀ i ∈ s.ids, 0 ≤ i ∧ i.toNat < pids.length) (F : Nat) :
    node_subtree (2 * s.size + F + 1) (Sub.rangeI pids.length) pids s.id =
      (Sub.getSubtree pids s.id).map (fun r => (Py.range (r.mapping.length : Int), r.newPid)) := by
  have hs : s.id ∈ s.ids := by cases s; simp [Rose.id, Rose.ids]
  obtain ⟨k, hk⟩ : ∃ k : Nat, s.id = (k : Int) := ⟨s.id.toNat, by have := (hin _ hs).1; omega⟩
  have hkn : k < pids.length := by have := (hin _ hs).2; omega
  have hg := C06.generated_getSubtree_eq_model pids s h hin F
  rw [hk] at hg ⊢
  simp only [node_subtree, node_subtree.body, Py.seq, Py.bind, idx_rangeI _ _ hkn, hg]
  cases Sub.getSubtree pids (k : Int) <;> simp [Py.finish]

/-- **`LMeasure.terminal_degree` as translated, reduced to the model's subtree table**: for the subtree `s` at any node of a tree object and
every fuel `≥ 2·|s| + 1`, the model's `getSubtree` succeeds and the generated function returns the number of rows of the new table that no
row of the new table names as its parent. (`terminalDegree_refines` below identifies that number with the tips at or below the node.) -/
theorem terminalDegree_reduces (pids : List Int) (s : Rose) (h : Represents s (Sub.rangeI pids.length) pids)
    (hin : ∀ i ∈ s.ids, 0 ≤ i ∧ i.toNat < pids.length) (F : Nat) :
    ∃ res, Sub.getSubtree pids s.id = some res ∧
      lm_terminal_degree (2 * s.size + F + 1) (Sub.rangeI pids.length) pids s.id =
        some ((((Py.range (res.mapping.length : Int)).filter fun j => !res.newPid.contains j).length : Nat) : Int) := by
  obtain ⟨res, hres, _⟩ := C06.subtree_nodes pids s h hin
  refine ⟨res, hres, ?_⟩
  simp only [lm_terminal_degree, lm_terminal_degree.body, Py.bind, node_subtree_eq pids s h hin F, hres, Option.map,
    getTips_refines _ _ (range_nodup _), Py.finish, Py.len_eq, Branches.getTips]

/-! ### the last step: the childless rows of the new table are the tips at or below the node -/

/-- new parents of the model's subtree table are `-1` or valid rows, and the two columns are equally long -/
theorem subtree_bound (pids : List Int) (n : Int) (res : Sub.SubTopo) (h : Sub.getSubtree pids n = some res) :
    res.newPid.length = res.mapping.length ∧
    ∀ k (hk : k < res.newPid.length), res.newPid[k] ≠ -1 → res.newPid[k].toNat < res.mapping.length := by
  unfold Sub.getSubtree at h
  simp only at h
  unfold Sub.toSubTopology at h
  simp only [Option.map_eq_some_iff] at h
  obtain ⟨np, hnp, rfl⟩ := h
  rw [C06.mapM_some_iff] at hnp
  obtain ⟨hlen, hk⟩ := hnp
  refine ⟨by simp [hlen], ?_⟩
  intro k hkn hne
  simp only at hkn hne ⊢
  have := hk k (by omega) hkn
  split at this
  · simp only [Option.some.injEq] at this
    exact absurd this.symm hne
  · obtain ⟨_, hj, _⟩ := C06.pos?_some _ _ _ this
    exact hj

theorem id_mem_ids (r : Rose) : r.id ∈ r.ids := by cases r; simp [Rose.id, Rose.ids]

theorem kids_ids_sub (r : Rose) : ∀ w ∈ idsL r.kids, w ∈ r.ids := by
  cases r; intro w hw; simp only [Rose.kids] at hw; simp [Rose.ids, hw]

/-- the children (in the table) of a node of the rose lie strictly below the rose's root -/
theorem kids_closed (kf : Int → List Int) : ∀ r : Rose, Agrees kf r → ∀ p ∈ r.ids, ∀ w ∈ kf p, w ∈ idsL r.kids := by
  intro r
  induction r using C08.rose_ind with
  | h i ks ih =>
    intro hA p hp w hw
    simp only [Agrees] at hA
    obtain ⟨hk, hAL⟩ := hA
    rw [C08.agreesL_iff] at hAL
    simp only [Rose.ids, List.mem_cons] at hp
    simp only [Rose.kids]
    rw [C08.idsL_eq, List.mem_flatMap]
    rcases hp with rfl | hp
    · rw [hk, List.mem_map] at hw
      obtain ⟨k, hkm, rfl⟩ := hw
      exact ⟨k, hkm, id_mem_ids k⟩
    · rw [C08.idsL_eq, List.mem_flatMap] at hp
      obtain ⟨k, hkm, hpk⟩ := hp
      exact ⟨k, hkm, kids_ids_sub k w (ih k hkm (hAL k hkm) p hpk w hw)⟩

theorem map_getD_range (E : List Int) : (Py.range (E.length : Int)).map (fun j => E.getD j.toNat 0) = E := by
  rw [Py.range_natCast]
  apply List.ext_getElem
  · simp
  · intro k h1 h2
    simp at h1
    simp [h1]

/-- **`LMeasure.terminal_degree` as translated is the number of tips at or below the node**: for the subtree `s` hanging at any node of a
tree object (ids = positions) and every fuel `≥ 2·|s| + 1`, the generated function returns the number of nodes of `s` that no row names as
its parent — which is the model's `terminalDegree` (`C10.terminal_degree_eq_tips_below`) -/
theorem terminalDegree_refines (pids : List Int) (s : Rose) (h : Represents s (Sub.rangeI pids.length) pids)
    (hin : ∀ i ∈ s.ids, 0 ≤ i ∧ i.toNat < pids.length) (F : Nat) :
    lm_terminal_degree (2 * s.size + F + 1) (Sub.rangeI pids.length) pids s.id =
      some (((s.ids.filter fun v => !pids.contains v).length : Nat) : Int) := by
  obtain ⟨res, hres, hmap, hperm, hhead, hpar⟩ := C06.subtree_nodes pids s h hin
  obtain ⟨res2, hres2, hred⟩ := terminalDegree_reduces pids s h hin F
  have e2 : res = res2 := by rw [hres] at hres2; exact Option.some.inj hres2
  subst e2
  obtain ⟨hlen, hbound⟩ := subtree_bound pids s.id res hres
  rw [hred]
  congr 2
  rw [← (hperm.filter _).length_eq]
  generalize hE : res.mapping = E at *
  generalize hN : res.newPid = NP at *
  have hnd : E.Nodup := hperm.nodup_iff.2 h.2
  have hEin : ∀ v ∈ E, 0 ≤ v ∧ v.toNat < pids.length := fun v hv => hin v (hperm.mem_iff.1 hv)
  have hE0 : E.head? = some s.id := by rw [hmap]; cases s; simp [C04.enterOrder, Rose.id]
  have hroot : s.id ∉ idsL s.kids := by
    have := h.2
    cases s
    simp only [Rose.ids, List.nodup_cons] at this
    simpa [Rose.id, Rose.kids] using this.1
  conv_rhs => rw [← map_getD_range E, List.filter_map, List.length_map]
  congr 1
  apply List.filter_congr
  intro j hj
  rw [Py.range_natCast, List.mem_map] at hj
  obtain ⟨j', hj', rfl⟩ := hj
  rw [List.mem_range] at hj'
  simp only [Function.comp, Int.toNat_natCast]
  congr 1
  rw [Bool.eq_iff_iff, List.contains_iff_mem, List.contains_iff_mem]
  have hEj : E.getD j' 0 = E[j'] := by simp [hj']
  constructor
  · intro hmem
    obtain ⟨c, hc, hcj⟩ := List.mem_iff_getElem.1 hmem
    have hc0 : 0 < c := by
      rcases Nat.eq_zero_or_pos c with rfl | h0
      · exfalso
        rw [List.head?_eq_getElem?, List.getElem?_eq_getElem hc] at hhead
        have := Option.some.inj hhead
        omega
      · exact h0
    have hp := (hpar c hc hc0).2
    rw [hcj] at hp
    simp only [Int.toNat_natCast] at hp
    rw [hp]
    have hcE : c < E.length := by omega
    have hEc : E.getD c 0 = E[c] := by simp [hcE]
    have hv := hEin E[c] (List.getElem_mem hcE)
    rw [hEc, C06.getD_eq_getElem _ _ hv.2]
    exact List.getElem_mem _
  · intro hmem
    obtain ⟨u, hu, hpu⟩ := List.mem_iff_getElem.1 hmem
    have hjE : E[j'] ∈ s.ids := hperm.mem_iff.1 (List.getElem_mem hj')
    have hkid : (u : Int) ∈ tableKids (Sub.rangeI pids.length) pids (E.getD j' 0) := by
      rw [C06.mem_tableKids]
      exact ⟨by omega, by simpa using hu, by simpa using hpu⟩
    rw [hEj] at hkid
    have hcl := kids_closed _ s h.1 _ hjE _ hkid
    have hus : (u : Int) ∈ E := hperm.mem_iff.2 (kids_ids_sub s _ hcl)
    obtain ⟨c, hc, hcu⟩ := List.mem_iff_getElem.1 hus
    have hc0 : 0 < c := by
      rcases Nat.eq_zero_or_pos c with rfl | h0
      · exfalso
        rw [List.head?_eq_getElem?, List.getElem?_eq_getElem hc] at hE0
        have := Option.some.inj hE0
        rw [hcu] at this
        exact hroot (this ▸ hcl)
      · exact h0
    have hcN : c < NP.length := by omega
    obtain ⟨hnn, hp⟩ := hpar c hcN hc0
    have hEc : E.getD c 0 = (u : Int) := by simp [hc, hcu]
    rw [hEc] at hp
    simp only [Int.toNat_natCast] at hp
    rw [C06.getD_eq_getElem _ _ hu, hpu, hEj] at hp
    have hb := hbound c hcN (by omega)
    rw [C06.getD_eq_getElem _ _ hb] at hp
    have hidx : NP[c].toNat = j' := by
      have hpw := List.pairwise_iff_getElem.1 hnd
      rcases Nat.lt_trichotomy NP[c].toNat j' with hlt | heq | hgt
      · exact absurd hp (hpw _ _ hb hj' hlt)
      · exact heq
      · exact absurd hp.symm (hpw _ _ hj' hb hgt)
    have : NP[c] = (j' : Int) := by omega
    rw [← this]
    exact List.getElem_mem _

end RefineLm
