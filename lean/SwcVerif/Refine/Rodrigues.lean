import SwcVerif.Gen.AlgoRodrigues
import SwcVerif.Refine.Affine
/-! # Refinement: the GENERATED `rotate3d` (Rodrigues), `_to_homogeneous`, `model_view_transformation`,
`orthographic_projection_simple` (`Gen/AlgoRodrigues.lean`, translated from `swcgeom/utils/transforms.py` on every run) -/
namespace RefineRodrigues
open Gen.Algo Gen.Mat Gen.Affine RefineAffine

variable {K : Type} [Field K] [LinearOrder K] [Inhabited K]

theorem slice3 (nx ny nz : K) (rest : List K) :
    Py.slice (nx :: ny :: nz :: rest) (some (0 : Int)) (some (3 : Int)) = [nx, ny, nz] := by
  simp [Py.slice, Py.sliceBound]

theorem identity4 : Py.identity (K := K) (4 : Int) = some [[1, 0, 0, 0], [0, 1, 0, 0], [0, 0, 1, 0], [0, 0, 0, 1]] := by
  simp [Py.identity, List.range_succ]

theorem identity3 : Py.identity (K := K) (3 : Int) = some [[1, 0, 0], [0, 1, 0], [0, 0, 1]] := by
  simp [Py.identity, List.range_succ]

/-- **the generated `rotate3d` is the Rodrigues matrix of `Gen/Matrices.lean`** for every axis array with at least three entries
(the source reads `n[0:3]`; further entries are ignored), every `c`, `s` -/
theorem rotate3d_refines (nx ny nz c s : K) (rest : List K) :
    rd_rotate3d (nx :: ny :: nz :: rest) c s = some (rotate3d nx ny nz c s) := by
  simp only [rd_rotate3d, rd_rotate3d.body, Py.seq, Py.bind, Py.finish, slice3, identity4, identity3, Option.map]
  simp [Py.add2, Py.smul2, Py.smul1, Py.mulCol, Py.setBlock, rotate3d, rodrigues, fneg_eq]
  refine ⟨⟨?_, ?_, ?_⟩, ⟨?_, ?_, ?_⟩, ⟨?_, ?_, ?_⟩⟩ <;> ring

/-- an axis array with fewer than three entries: the unpacking `nx, ny, nz = n` raises -/
theorem rotate3d_short (n : List K) (c s : K) (h : n.length < 3) : rd_rotate3d n c s = none := by
  match n, h with
  | [], _ => simp [rd_rotate3d, rd_rotate3d.body, Py.seq, Py.bind, Py.finish, Py.slice, Py.sliceBound]
  | [_], _ => simp [rd_rotate3d, rd_rotate3d.body, Py.seq, Py.bind, Py.finish, Py.slice, Py.sliceBound]
  | [_, _], _ => simp [rd_rotate3d, rd_rotate3d.body, Py.seq, Py.bind, Py.finish, Py.slice, Py.sliceBound]

/-! ### `orthographic_projection_simple`, `_to_homogeneous` -/

theorem ortho_simple_refines :
    rd_ortho_simple (K := K) = some [[1, 0, 0, 0], [0, 1, 0, 0], [0, 0, 0, 0], [0, 0, 0, 0]] := rfl

theorem zipWith_append_replicate (rows : List (List K)) (w : K) :
    List.zipWith (· ++ ·) rows (List.replicate rows.length [w]) = rows.map (· ++ [w]) := by
  induction rows with
  | nil => rfl
  | cons r rs ih => simp [List.replicate_succ, ih]

/-- `_to_homogeneous` on an `(N, 3)` array, `N ≥ 1` (the column count is read from the first row): `w` is appended to every row —
`w = 1` for points, `w = 0` for vectors.  Any number of rows. -/
theorem to_homogeneous2_fill (r : List K) (rows : List (List K)) (w : K) (h : r.length = 3) :
    rd_to_homogeneous2 (r :: rows) w = some ((r :: rows).map (· ++ [w])) := by
  have := zipWith_append_replicate (r :: rows) w
  simp only [List.length_cons] at this
  have hn : ¬ ((rows.length : Int) + 1 < 0) := by omega
  simp [rd_to_homogeneous2, rd_to_homogeneous2.body, Py.seq, Py.bind, Py.finish, Py.ncols, Py.skip, h, Py.full2, Py.concatCols, hn]
  simpa using this

/-- an array that is already homogeneous (first row has 4 entries) is returned as it is -/
theorem to_homogeneous2_pass (r : List K) (rows : List (List K)) (w : K) (h : r.length = 4) :
    rd_to_homogeneous2 (r :: rows) w = some (r :: rows) := by
  simp [rd_to_homogeneous2, rd_to_homogeneous2.body, Py.seq, Py.bind, Py.finish, Py.ncols, h]

/-- any other column count: the `assert` fails; an array without rows has no column count here -/
theorem to_homogeneous2_error (xyz : List (List K)) (w : K) (h : ∀ r rows, xyz = r :: rows → r.length ≠ 3 ∧ r.length ≠ 4) :
    rd_to_homogeneous2 xyz w = none := by
  match xyz, h with
  | [], _ => simp [rd_to_homogeneous2, rd_to_homogeneous2.body, Py.seq, Py.bind, Py.finish, Py.ncols]
  | r :: rows, h =>
    obtain ⟨h3, h4⟩ := h r rows rfl
    have h3' : ¬ ((r.length : Int) = 3) := by exact_mod_cast h3
    have h4' : ¬ ((r.length : Int) = 4) := by exact_mod_cast h4
    simp [rd_to_homogeneous2, rd_to_homogeneous2.body, Py.seq, Py.bind, Py.finish, Py.ncols, Py.skip, h3', h4']

/-! ### `model_view_transformation` -/

/-- the rotation block the source builds from the normalised look-at `g` and up `t`: rows `g × t`, `t`, `−g` -/
def viewRot (g t : Pt K) : List (List K) :=
  [[g.2.1 * t.2.2 - g.2.2 * t.2.1, g.2.2 * t.1 - g.1 * t.2.2, g.1 * t.2.1 - g.2.1 * t.1, 0],
   [t.1, t.2.1, t.2.2, 0], [-g.1, -g.2.1, -g.2.2, 0], [0, 0, 0, 1]]

theorem divS3 (F : Py.Fld K) (hF : ∀ a b : K, F.div a b = a / b) (x y z r : K) (hr : r ≠ 0) :
    Py.divS [x, y, z] r = some [x / r, y / r, z / r] := by
  have : r < 0 ∨ 0 < r := lt_or_gt_of_ne hr
  simp [Py.divS, Py.mapOpt, Py.fdiv, this, hF]

/-- **the generated `model_view_transformation`** on three 3-vectors, `ng`, `nt` (the two `np.linalg.norm` values) non-zero:
the product `viewRot(g/ng, t/nt) · translate3d(−e)` -/
theorem model_view_refines (F : Py.Fld K) (hF : ∀ a b : K, F.div a b = a / b) (ex ey ez gx gy gz ux uy uz ng nt : K)
    (hg : ng ≠ 0) (ht : nt ≠ 0) :
    rd_model_view F [ex, ey, ez] [gx, gy, gz] [ux, uy, uz] ng nt
      = some (mmul (viewRot (gx / ng, gy / ng, gz / ng) (ux / nt, uy / nt, uz / nt)) (translate3d (-ex) (-ey) (-ez))) := by
  simp only [rd_model_view, rd_model_view.body, Py.seq, Py.bind, Py.finish, divS3 F hF _ _ _ _ hg, divS3 F hF _ _ _ _ ht]
  simp [Py.smul1, fneg_eq, translate3d_refines, Py.cross3, Py.array2, Py.dot2, Py.transpose2, Py.dotRow, mmul, dotK, colK, viewRot,
    translate3d, List.range_succ]

end RefineRodrigues
