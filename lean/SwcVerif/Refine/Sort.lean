import SwcVerif.Gen.AlgoSort
import SwcVerif.Refine.PyLemmas
import SwcVerif.Proofs.Sort
/-! Refinement for C05: the definition GENERATED from `swcgeom/core/swc_utils/normalizer.py::sort_nodes_impl`
(`Gen.Algo.sort_nodes_impl`, regenerated from the current source on every run: `np.full_like` fillers, the list used as a
stack with `pop` / `extend` at the END, `old_ids[old_pids == old_id]`, the `dict(zip(...))` index and the final list
comprehension) returns exactly what the hand-written model `SortM.sortNodesImpl` returns whenever the model succeeds. -/
namespace RefineSort
open Gen.Algo SortM Py

/-- `old_ids[old_pids == q]` is the children list of the model -/
theorem select_eqMask : ∀ (ids pids : List Int) (q : Int), select ids (eqMask pids q) = tableKids ids pids q := by
  intro ids
  induction ids with
  | nil => intro pids q; simp [select, tableKids]
  | cons i is ih =>
    intro pids q
    cases pids with
    | nil => simp [select, eqMask, tableKids]
    | cons p ps =>
      have := ih ps q
      simp only [select, eqMask] at this ⊢
      by_cases h : p = q
      · simp [tableKids, h, this]
      · simp [tableKids, h, this]

theorem mem_tableKids : ∀ (ids pids : List Int) (q x : Int), x ∈ tableKids ids pids q → x ∈ ids := by
  intro ids
  induction ids with
  | nil => intro pids q x h; simp [tableKids] at h
  | cons i is ih =>
    intro pids q x h
    cases pids with
    | nil => simp [tableKids] at h
    | cons p ps =>
      simp only [tableKids] at h
      split at h
      · simp only [List.mem_cons] at h ⊢
        rcases h with h | h
        · exact Or.inl h
        · exact Or.inr (ih ps q x h)
      · exact List.mem_cons_of_mem _ (ih ps q x h)

theorem for1_loop : ∀ (cs : List Int) (v : sort_nodes_impl.V),
    ∃ j', forEach sort_nodes_impl.for1 cs v = .next { v with c5_ := v.c5_ ++ cs.map (fun c => (c, v.new_id)), j := j' } := by
  intro cs
  induction cs with
  | nil => intro v; exact ⟨v.j, by simp [forEach]⟩
  | cons c cs ih =>
    intro v
    obtain ⟨j', e⟩ := ih { v with j := c, c5_ := v.c5_ ++ [(c, v.new_id)] }
    refine ⟨j', ?_⟩
    simp only [forEach, sort_nodes_impl.for1]
    rw [e]
    simp

/-- loop invariant: the generated variables represent the machine state `st` on a table of `n` rows -/
structure Inv (ids pids : List Int) (v : sort_nodes_impl.V) (st : St) : Prop where
  hs   : v.s = st.stack.reverse
  hmap : v.id_map = st.out.map (·.1) ++ List.replicate (ids.length - st.out.length) (-3)
  hpid : v.new_pids = st.out.map (·.2) ++ List.replicate (ids.length - st.out.length) (-3)
  hid  : v.new_id = (st.out.length : Int)
  hi   : v.old_ids = ids
  hp   : v.old_pids = pids

theorem set_append_replicate (a : List Int) (m : Nat) (y : Int) (hm : 0 < m) :
    (a ++ List.replicate m (-3 : Int)).set a.length y = (a ++ [y]) ++ List.replicate (m - 1) (-3) := by
  cases m with
  | zero => omega
  | succ m =>
    simp [List.replicate_succ, List.set_append]

/-- one iteration while there is room in the output arrays -/
theorem body_step (ids pids : List Int) (v : sort_nodes_impl.V) (st : St) (h : Inv ids pids v st) (o p : Int)
    (rest : List (Int × Int)) (hst : st.stack = (o, p) :: rest) (hlt : st.out.length < ids.length) :
    ∃ v', sort_nodes_impl.while2_body v = .next v' ∧
      Inv ids pids v' ⟨((tableKids ids pids o).map (·, (st.out.length : Int))).reverse ++ rest, st.out ++ [(o, p)]⟩ := by
  have hs : v.s = rest.reverse ++ [(o, p)] := by rw [h.hs, hst]; simp
  have hl1 : st.out.length < v.id_map.length := by rw [h.hmap]; simp; omega
  have hl2 : st.out.length < v.new_pids.length := by rw [h.hpid]; simp; omega
  have e1 : setIdx v.id_map (st.out.length : Int) o = some (v.id_map.set st.out.length o) := setIdx_nat _ _ _ hl1
  have e2 : setIdx v.new_pids (st.out.length : Int) p = some (v.new_pids.set st.out.length p) := setIdx_nat _ _ _ hl2
  obtain ⟨j', ej⟩ := for1_loop (tableKids ids pids o)
    { v with s := rest.reverse, old_id := o, new_pid := p, id_map := v.id_map.set st.out.length o,
             new_pids := v.new_pids.set st.out.length p, c5_ := [] }
  refine ⟨{ v with s := rest.reverse ++ (tableKids ids pids o).map (fun c => (c, (st.out.length : Int))), old_id := o, new_pid := p,
                   id_map := v.id_map.set st.out.length o, new_pids := v.new_pids.set st.out.length p,
                   c5_ := (tableKids ids pids o).map (fun c => (c, (st.out.length : Int))), j := j',
                   new_id := (st.out.length : Int) + 1 }, ?_, ?_⟩
  · simp only [sort_nodes_impl.while2_body, seq, Py.bind, bindS, hs, pop_append, h.hid, e1, e2, h.hi, h.hp,
      select_eqMask]
    simp only [h.hid, List.nil_append, h.hi, h.hp] at ej
    rw [ej]
  · have hm1 : (st.out.map (·.1)).length = st.out.length := by simp
    have hm2 : (st.out.map (·.2)).length = st.out.length := by simp
    constructor
    · simp [List.map_reverse]
    · simp only [h.hmap]
      have := set_append_replicate (st.out.map (·.1)) (ids.length - st.out.length) o (by omega)
      rw [hm1] at this
      rw [this]
      simp
      omega
    · simp only [h.hpid]
      have := set_append_replicate (st.out.map (·.2)) (ids.length - st.out.length) p (by omega)
      rw [hm2] at this
      rw [this]
      simp
      omega
    · simp
    · exact h.hi
    · exact h.hp

theorem cond_eq (v : sort_nodes_impl.V) : sort_nodes_impl.while2_cond v = some (decide (v.s ≠ [])) := by
  simp only [sort_nodes_impl.while2_cond, len_eq]
  generalize v.s = st
  cases st with
  | nil => simp
  | cons a l =>
    have h0 : (0 : Int) ≤ (l.length : Int) := Int.natCast_nonneg _
    simp
    refine decide_eq_true ?_
    omega

/-- `m` iterations, as long as the machine's stack is not empty and there is room -/
theorem loop_steps (ids pids : List Int) : ∀ (m : Nat) (st : St) (v : sort_nodes_impl.V) (F : Nat), Inv ids pids v st →
    (∀ j, j < m → (run (tableKids ids pids) j st).stack ≠ []) → st.out.length + m ≤ ids.length →
    ∃ v', whileF sort_nodes_impl.while2_cond sort_nodes_impl.while2_body (m + F) v =
            whileF sort_nodes_impl.while2_cond sort_nodes_impl.while2_body F v' ∧
          Inv ids pids v' (run (tableKids ids pids) m st) := by
  intro m
  induction m with
  | zero => intro st v F h _ _; exact ⟨v, by simp, by simpa [run] using h⟩
  | succ m ih =>
    intro st v F h hne hle
    have h0 := hne 0 (by omega)
    simp only [run] at h0
    cases hst : st.stack with
    | nil => exact absurd hst h0
    | cons op rest =>
      obtain ⟨o, p⟩ := op
      obtain ⟨v1, e1, i1⟩ := body_step ids pids v st h o p rest hst (by omega)
      have hstep : step (tableKids ids pids) st =
          some ⟨((tableKids ids pids o).map (·, (st.out.length : Int))).reverse ++ rest, st.out ++ [(o, p)]⟩ := by
        simp [step, hst]
      have hc : sort_nodes_impl.while2_cond v = some true := by
        rw [cond_eq, h.hs, hst]; simp
      obtain ⟨v', e2, i2⟩ := ih _ v1 F i1 (by
          intro j hj
          have := hne (j + 1) (by omega)
          rwa [run_succ_some j hstep] at this) (by simp; omega)
      refine ⟨v', ?_, ?_⟩
      · have : m + 1 + F = (m + F) + 1 := by omega
        rw [this, whileF_next _ _ _ v v1 hc e1, e2]
      · rw [run_succ_some m hstep]; exact i2

/-! ### facts about the machine -/

theorem out_le (kidsOf : Int → List Int) : ∀ (j : Nat) (st : St), (run kidsOf j st).out.length ≤ st.out.length + j := by
  intro j
  induction j with
  | zero => intro st; simp [run]
  | succ j ih =>
    intro st
    cases hs : step kidsOf st with
    | none => rw [run_none hs]; omega
    | some st' =>
      rw [run_succ_some j hs]
      have := ih st'
      have e : st'.out.length = st.out.length + 1 := by
        simp only [step] at hs
        split at hs
        · simp at hs
        · simp only [Option.some.injEq] at hs; rw [← hs]; simp
      omega

theorem out_eq (kidsOf : Int → List Int) : ∀ (m : Nat) (st : St), (∀ j, j < m → (run kidsOf j st).stack ≠ []) →
    (run kidsOf m st).out.length = st.out.length + m := by
  intro m
  induction m with
  | zero => intro st _; simp [run]
  | succ m ih =>
    intro st hne
    have h0 := hne 0 (by omega)
    simp only [run] at h0
    cases hst : st.stack with
    | nil => exact absurd hst h0
    | cons op rest =>
      have hstep : step kidsOf st = some ⟨((kidsOf op.1).map (·, (st.out.length : Int))).reverse ++ rest, st.out ++ [op]⟩ := by
        simp [step, hst]
      rw [run_succ_some m hstep, ih _ (by
        intro j hj
        have := hne (j + 1) (by omega)
        rwa [run_succ_some j hstep] at this)]
      simp; omega

theorem stuck (kidsOf : Int → List Int) (j : Nat) (st : St) (h : (run kidsOf j st).stack = []) (k : Nat) :
    run kidsOf (j + k) st = run kidsOf j st := by
  rw [run_add]
  exact run_none (by simp [step, h]) k

theorem mem_ids (ids pids : List Int) : ∀ (m : Nat) (st : St), (∀ x ∈ st.stack, x.1 ∈ ids) → (∀ x ∈ st.out, x.1 ∈ ids) →
    ∀ x ∈ (run (tableKids ids pids) m st).out, x.1 ∈ ids := by
  intro m
  induction m with
  | zero => intro st _ h2; simpa [run] using h2
  | succ m ih =>
    intro st h1 h2
    cases hst : st.stack with
    | nil => rw [run_none (by simp [step, hst])]; exact h2
    | cons op rest =>
      have hstep : step (tableKids ids pids) st =
          some ⟨((tableKids ids pids op.1).map (·, (st.out.length : Int))).reverse ++ rest, st.out ++ [op]⟩ := by
        simp [step, hst]
      rw [run_succ_some m hstep]
      apply ih
      · intro x hx
        simp only [List.mem_append, List.mem_reverse, List.mem_map] at hx
        rcases hx with ⟨c, hc, rfl⟩ | hx
        · exact mem_tableKids ids pids _ _ hc
        · exact h1 x (by rw [hst]; exact List.mem_cons_of_mem _ hx)
      · intro x hx
        simp only [List.mem_append, List.mem_singleton] at hx
        rcases hx with hx | rfl
        · exact h2 x hx
        · exact h1 x (by rw [hst]; exact List.mem_cons_self)

theorem firstRoot_mem : ∀ (ids pids : List Int) (root : Int), firstRoot ids pids = some root → root ∈ ids := by
  intro ids
  induction ids with
  | nil => intro pids root h; simp [firstRoot] at h
  | cons i is ih =>
    intro pids root h
    cases pids with
    | nil => simp [firstRoot] at h
    | cons p ps =>
      simp only [firstRoot] at h
      split at h
      · simp only [Option.some.injEq] at h; simp [h]
      · exact List.mem_cons_of_mem _ (ih ps root h)

/-! ### the `dict(zip(old_ids, range(n)))` index -/

theorem get?_ofZip_range (ids : List Int) (hnd : ids.Nodup) (x : Int) (hx : x ∈ ids) :
    Dict.get? (Dict.ofZip ids (range (len ids))) x = some ((indexOf ids x : Nat) : Int) := by
  unfold Dict.ofZip
  rw [Dict.get?_foldl_set_zip ids _ [] hnd (by simp) x hx]
  have hlt : ids.idxOf x < ids.length := List.idxOf_lt_length_of_mem hx
  simp [indexOf, hlt]

theorem for3_loop (f : Int → Int) : ∀ (xs : List Int) (v : sort_nodes_impl.V), (∀ x ∈ xs, Dict.get? v.id2idx x = some (f x)) →
    ∃ i', forEach sort_nodes_impl.for3 xs v = .next { v with c7_ := v.c7_ ++ xs.map f, i := i' } := by
  intro xs
  induction xs with
  | nil => intro v _; exact ⟨v.i, by simp [forEach]⟩
  | cons x xs ih =>
    intro v h
    obtain ⟨i', e⟩ := ih { v with i := x, c7_ := v.c7_ ++ [f x] } (fun y hy => h y (List.mem_cons_of_mem _ hy))
    refine ⟨i', ?_⟩
    simp only [forEach, sort_nodes_impl.for3, Py.bind, h x List.mem_cons_self]
    rw [e]
    simp

/-! ### before the loop -/

theorem countNonzero_eqMask (pids : List Int) (q : Int) : countNonzero (eqMask pids q) = ((pids.filter (· = q)).length : Int) := by
  induction pids with
  | nil => simp [countNonzero, eqMask]
  | cons p ps ih =>
    simp only [countNonzero, eqMask] at ih ⊢
    by_cases h : p = q <;> simp [h, List.filter_cons] <;> simpa using ih

theorem firstRoot_argmax : ∀ (ids pids : List Int) (root : Int), firstRoot ids pids = some root →
    ∃ k : Nat, (eqMask pids (-1)).idxOf true = k ∧ k < pids.length ∧ ids[k]? = some root := by
  intro ids
  induction ids with
  | nil => intro pids root h; simp [firstRoot] at h
  | cons i is ih =>
    intro pids root h
    cases pids with
    | nil => simp [firstRoot] at h
    | cons p ps =>
      simp only [firstRoot] at h
      by_cases hp : p = -1
      · simp only [hp, if_true, Option.some.injEq] at h
        exact ⟨0, by simp [eqMask, hp], by simp, by simp [h]⟩
      · simp only [hp, if_false] at h
        obtain ⟨k, e, hk, hr⟩ := ih ps root h
        refine ⟨k + 1, ?_, by simp; omega, by simpa using hr⟩
        simp only [eqMask] at e ⊢
        simp [List.idxOf_cons, hp, e]

/-! ### the whole function -/

/-- **`sort_nodes_impl` as translated on this run returns what the model returns**: whenever the model succeeds on a
table with distinct ids (in particular on every tree table, `C05.sort_ok`), the generated function — run with any fuel
beyond the number of rows — returns `(np.arange(n), new_pids)` and the row indices of the model, and raises nothing. -/
theorem sort_refines (ids pids : List Int) (hnd : ids.Nodup) (r : Result) (h : sortNodesImpl ids pids = .ok r) (F : Nat) :
    sort_nodes_impl (ids.length + 1 + F) (ids, pids) =
      some ((range (ids.length : Int), r.newPids), r.indices.map (fun (k : Nat) => (k : Int))) := by
  -- unpack the model's run
  unfold sortNodesImpl at h
  by_cases hc : countRoots pids ≠ 1
  · simp [hc] at h
  rw [if_neg hc] at h
  have hc1 : countRoots pids = 1 := by simpa using hc
  cases hroot : firstRoot ids pids with
  | none => simp [hroot] at h
  | some root =>
    simp only [hroot] at h
    let n := ids.length
    generalize hfin : run (tableKids ids pids) (ids.length + 1) ⟨[(root, -1)], []⟩ = fin at h
    have hcond : ¬ ((fin.out.length ≠ ids.length || !fin.stack.isEmpty) = true) := by
      intro hb
      rw [if_pos hb] at h
      cases h
    rw [if_neg hcond] at h
    have hlen : fin.out.length = ids.length := by
      by_cases c : fin.out.length = ids.length
      · exact c
      · exact absurd (by simp [c]) hcond
    have hemp : fin.stack = [] := by
      cases hs : fin.stack with
      | nil => rfl
      | cons a l => exact absurd (by simp [hs]) hcond
    simp only [Except.ok.injEq] at h
    -- the machine's stack is non-empty during the first n steps
    obtain ⟨st0, hst0⟩ : ∃ s : St, s = ⟨[(root, -1)], []⟩ := ⟨_, rfl⟩
    rw [← hst0] at hfin
    have hst0s : st0.stack = [(root, -1)] := by rw [hst0]
    have hst0o : st0.out = [] := by rw [hst0]
    have hne : ∀ j, j < ids.length → (run (tableKids ids pids) j st0).stack ≠ [] := by
      intro j hj hs
      have hstk := stuck (tableKids ids pids) j st0 hs (ids.length + 1 - j)
      have e : j + (ids.length + 1 - j) = ids.length + 1 := by omega
      rw [e] at hstk
      have : fin = run (tableKids ids pids) j st0 := by rw [← hfin]; exact hstk
      have hle := out_le (tableKids ids pids) j st0
      rw [← this, hlen] at hle
      simp [hst0o] at hle
      omega
    have hout : (run (tableKids ids pids) ids.length st0).out.length = ids.length := by
      rw [out_eq _ _ st0 hne]; simp [hst0o]
    have hfin' : fin = run (tableKids ids pids) ids.length st0 := by
      rw [← hfin, run_add]
      cases hs : (run (tableKids ids pids) ids.length st0).stack with
      | nil => exact run_none (by simp [step, hs]) 1
      | cons a l =>
        exfalso
        have := out_eq (tableKids ids pids) (ids.length + 1) st0 (by
          intro j hj
          by_cases hj' : j < ids.length
          · exact hne j hj'
          · have : j = ids.length := by omega
            rw [this, hs]; simp)
        rw [hfin, hlen] at this
        simp [hst0o] at this
    -- the generated code, piece by piece
    obtain ⟨k, ek, hk, hrk⟩ := firstRoot_argmax ids pids root hroot
    have hmask : argmaxMask (eqMask pids (-1)) = some (k : Int) := by
      have hl : (eqMask pids (-1)).length = pids.length := by simp [eqMask]
      have hne' : (eqMask pids (-1)).isEmpty = false := by
        cases hp : pids with
        | nil => rw [hp] at hk; simp at hk
        | cons a l => simp [eqMask]
      simp only [argmaxMask, hne', ek, hl, Bool.false_eq_true, if_false]
      rw [Nat.mod_eq_of_lt hk]
    have hklt : k < ids.length := by
      by_cases c : k < ids.length
      · exact c
      · have : ids[k]? = none := by simp; omega
        rw [this] at hrk; simp at hrk
    have hidx : idx ids (k : Int) = some root := by rw [idx_nat _ _ hklt]; exact hrk
    obtain ⟨v0, hv0⟩ : ∃ v : sort_nodes_impl.V, v = { (default : sort_nodes_impl.V) with topology := (ids, pids), old_ids := ids, old_pids := pids, id_map := fullLike ids (-3), new_pids := fullLike ids (-3), new_id := 0, first_root := root, s := [(root, -1)] } := ⟨_, rfl⟩
    have inv0 : Inv ids pids v0 st0 := by
      refine ⟨by simp [hv0, hst0s], ?_, ?_, by simp [hv0, hst0o], by simp [hv0], by simp [hv0]⟩
      · simp [hv0, hst0o, fullLike, List.map_const']
      · simp [hv0, hst0o, fullLike, List.map_const']
    obtain ⟨v1, e1, i1⟩ := loop_steps ids pids ids.length st0 v0 (F + 1) inv0 hne (by simp [hst0o])
    rw [← hfin'] at i1
    have hdone : whileF sort_nodes_impl.while2_cond sort_nodes_impl.while2_body (F + 1) v1 = .next v1 :=
      whileF_done _ _ F v1 (by rw [cond_eq, i1.hs, hemp]; simp)
    have hloop : whileF sort_nodes_impl.while2_cond sort_nodes_impl.while2_body (ids.length + 1 + F) v0 = .next v1 := by
      have : ids.length + 1 + F = ids.length + (F + 1) := by omega
      rw [this, e1, hdone]
    have hmap1 : v1.id_map = fin.out.map (·.1) := by rw [i1.hmap, hlen]; simp
    have hpid1 : v1.new_pids = fin.out.map (·.2) := by rw [i1.hpid, hlen]; simp
    have hmem : ∀ x ∈ fin.out, x.1 ∈ ids := by
      rw [hfin']
      exact mem_ids ids pids ids.length st0 (by simp [hst0s]; exact firstRoot_mem ids pids root hroot) (by simp [hst0o])
    obtain ⟨i', e3⟩ := for3_loop (fun x => ((indexOf ids x : Nat) : Int)) (fin.out.map (·.1))
      { v1 with id2idx := Dict.ofZip ids (range (len ids)), c7_ := [] } (by
        intro x hx
        obtain ⟨y, hy, rfl⟩ := List.mem_map.1 hx
        exact get?_ofZip_range ids hnd _ (hmem y hy))
    have hcnt : countNonzero (eqMask pids (-1)) = 1 := by
      rw [countNonzero_eqMask]
      simp only [countRoots] at hc1
      have : (List.filter (fun x => decide (x = -1)) pids).length = 1 := by simpa using hc1
      simp [this]
    simp only [sort_nodes_impl, sort_nodes_impl.body, seq, hcnt, Py.bind, hmask, hidx, decide_true, if_true]
    simp only [← hv0, hloop, bindS, seq, i1.hi, hmap1]
    simp only [i1.hi, hmap1] at e3
    rw [e3]
    simp only [finish, Option.map, hpid1, len_eq, List.length_map, hlen, arange, List.nil_append, ← h]
    simp [List.map_map, Function.comp_def]

end RefineSort
