import SwcVerif.Gen.AlgoBranchTree
import SwcVerif.Refine.PyLemmas
import SwcVerif.Refine.Subtree
import SwcVerif.Refine.Node
import SwcVerif.Model.BranchTree
/-! Refinement for C08: the definition GENERATED from `swcgeom/core/branch_tree.py::BranchTree.from_tree` (on the generated
`Tree.get_branches` and `to_sub_topology`) equals the model `Branches.branchTree` of `Model/BranchTree.lean`. -/
namespace RefineBranchTree
open Gen.Algo Branches Sub Py

theorem idx_neg_one_last {α : Type} (l : List α) (h : l ≠ []) (d : α) : Py.idx l (-1) = some (l.getLastD d) := by
  obtain ⟨t, x, rfl⟩ : ∃ t x, l = t ++ [x] := ⟨l.dropLast, l.getLast h, (List.dropLast_concat_getLast h).symm⟩
  have : (-(1 : Int)) = -1 := rfl
  simp [Py.idx, Py.normIdx, List.getLastD_eq_getLast?]

theorem idx_zero_head {α : Type} (l : List α) (h : l ≠ []) (d : α) : Py.idx l 0 = some (l.headD d) := by
  cases l with
  | nil => exact absurd rfl h
  | cons a t => simp [Py.idx, Py.normIdx]

/-- the branches handed to the loops: non-empty lists of valid rows whose id is the row number (a `Tree` object) -/
def GoodBrs (ids : List Int) (brs : List (List Int)) : Prop := ∀ b ∈ brs, b ≠ [] ∧ ∀ x ∈ b, Py.idx ids x = some x

theorem for1_loop (root : Int) : ∀ (brs : List (List Int)) (v : bt_from_tree.V), GoodBrs v.ids brs →
    forEach bt_from_tree.for1 brs v =
      .next { v with c1_ := v.c1_ ++ brs.map (fun b => b.getLastD root), br := brs.getLast?.getD v.br } := by
  intro brs
  induction brs with
  | nil => intro v _; simp [forEach]
  | cons b brs ih =>
    intro v hg
    have hb := hg b (List.mem_cons_self ..)
    have hl : b.getLastD root ∈ b := by
      rw [List.getLastD_eq_getLast?, List.getLast?_eq_some_getLast hb.1]; exact List.getLast_mem _
    have e := ih { v with br := b, c1_ := v.c1_ ++ [b.getLastD root] } (fun b' hb' => hg b' (List.mem_cons_of_mem _ hb'))
    simp only [forEach, bt_from_tree.for1, Py.bind, idx_neg_one_last b hb.1 root, hb.2 _ hl]
    rw [e]
    simp [List.getLast?_cons]

theorem for2_loop (root : Int) : ∀ (brs : List (List Int)) (v : bt_from_tree.V), GoodBrs v.ids brs →
    forEach bt_from_tree.for2 brs v =
      .next { v with c5_ := v.c5_ ++ brs.map (fun b => b.headD root), br := brs.getLast?.getD v.br } := by
  intro brs
  induction brs with
  | nil => intro v _; simp [forEach]
  | cons b brs ih =>
    intro v hg
    have hb := hg b (List.mem_cons_self ..)
    have hl : b.headD root ∈ b := by
      cases b with
      | nil => exact absurd rfl hb.1
      | cons a t => simp
    have e := ih { v with br := b, c5_ := v.c5_ ++ [b.headD root] } (fun b' hb' => hg b' (List.mem_cons_of_mem _ hb'))
    simp only [forEach, bt_from_tree.for2, Py.bind, idx_zero_head b hb.1 root, hb.2 _ hl]
    rw [e]
    simp [List.getLast?_cons]

/-! ### `np.nonzero(id_map == x)[0][0]` is the first position of `x` -/

theorem nonzeroFrom_eqMask : ∀ (l : List Int) (x k : Int),
    Py.idx (nonzeroFrom k (eqMask l x)) 0 = (pos? l x).map (fun p => k + p) := by
  intro l
  induction l with
  | nil => intro x k; simp [eqMask, nonzeroFrom, pos?, Py.idx, Py.normIdx]
  | cons a l ih =>
    intro x k
    by_cases h : a = x
    · subst h
      simp [eqMask, nonzeroFrom, pos?, Py.idx, Py.normIdx]
    · have hax : (a == x) = false := by simpa using h
      have := ih x (k + 1)
      simp only [eqMask] at this
      simp only [eqMask, List.map_cons, h, decide_false, nonzeroFrom, Bool.false_eq_true, if_false, this]
      simp only [pos?, List.idxOf_cons, hax, cond_false, List.length_cons]
      by_cases hl : l.idxOf x < l.length
      · have : l.idxOf x + 1 < l.length + 1 := by omega
        simp [hl, this]; omega
      · have : ¬ l.idxOf x + 1 < l.length + 1 := by omega
        simp [hl, this]

theorem nonzero_eqMask (l : List Int) (x : Int) : Py.idx (nonzero (eqMask l x)) 0 = pos? l x := by
  rw [nonzero, nonzeroFrom_eqMask]
  cases pos? l x <;> simp

/-! ### the dictionary loop -/

theorem glookup_eq (d : Groups) (k : Int) : glookup d k = Dict.get? d k := rfl

theorem map_id_of_get?_none (d : Groups) (k : Int) (f : (Int × List (List Int)) → (Int × List (List Int))) (h : Dict.get? d k = none) :
    d.map (fun p => if p.1 = k then f p else p) = d := by
  induction d with
  | nil => rfl
  | cons p d ih =>
    rw [Dict.get?_cons] at h
    by_cases hp : p.1 = k
    · simp [hp] at h
    · simp only [hp, if_false] at h
      simp [hp, ih h]

/-- `d.setdefault(k, []); d[k].append(b)` as translated is the model's `addBranch` -/
theorem step_eq (d : Groups) (k : Int) (b : List Int) :
    ∃ x, Dict.get? (Dict.setdefault d k []) k = some x ∧ Dict.set (Dict.setdefault d k []) k (x ++ [b]) = addBranch d k b := by
  cases h : Dict.get? d k with
  | some x =>
    have hs : Dict.setdefault d k ([] : List (List Int)) = d := by simp [Dict.setdefault, Dict.contains, h]
    refine ⟨x, by rw [hs, h], ?_⟩
    rw [hs]
    simp [Dict.set, Dict.contains, h, addBranch, glookup_eq]
  | none =>
    have hs : Dict.setdefault d k ([] : List (List Int)) = d ++ [(k, [])] := by simp [Dict.setdefault, Dict.contains, h]
    refine ⟨[], by rw [hs, Dict.get?_append_singleton, h]; simp, ?_⟩
    rw [hs]
    have hc : Dict.contains (d ++ [(k, ([] : List (List Int)))]) k = true := by
      simp [Dict.contains, Dict.get?_append_singleton, h]
    simp only [Dict.set, hc, if_true, addBranch, glookup_eq, h, List.map_append, List.map_cons, List.map_nil, List.nil_append]
    rw [map_id_of_get?_none d k _ h]

/-- the value the variable `idx` is left with -/
def lastIdx (root : Int) (m : List Int) (brs : List (List Int)) (i0 : Int) : Int :=
  brs.foldl (fun i b => (pos? m (b.headD root)).getD i) i0

theorem for3_loop (root : Int) : ∀ (brs : List (List Int)) (v : bt_from_tree.V), GoodBrs v.ids brs →
    forEach bt_from_tree.for3 brs v =
      (match fileBranches root v.id_map brs v.branch_tree.branches with
       | some d => .next { v with branch_tree := { v.branch_tree with branches := d }, br := brs.getLast?.getD v.br,
                                  idx := lastIdx root v.id_map brs v.idx }
       | none => .err) := by
  intro brs
  induction brs with
  | nil => intro v _; simp [forEach, fileBranches, lastIdx]
  | cons b brs ih =>
    intro v hg
    have hb := hg b (List.mem_cons_self ..)
    have hl : b.headD root ∈ b := by
      cases b with
      | nil => exact absurd rfl hb.1
      | cons a t => simp
    simp only [fileBranches]
    cases hp : pos? v.id_map (b.headD root) with
    | none =>
      simp only [forEach, bt_from_tree.for3, seq, Py.bind, idx_zero_head b hb.1 root, hb.2 _ hl, nonzero_eqMask, hp]
    | some k =>
      obtain ⟨x, hx, hset⟩ := step_eq v.branch_tree.branches k b
      have e := ih { v with br := b, idx := k, branch_tree := { v.branch_tree with branches := addBranch v.branch_tree.branches k b } }
        (fun b' hb' => hg b' (List.mem_cons_of_mem _ hb'))
      simp only [forEach, bt_from_tree.for3, seq, Py.bind, idx_zero_head b hb.1 root, hb.2 _ hl, nonzero_eqMask, hp, hx, hset]
      rw [e]
      cases fileBranches root v.id_map brs (addBranch v.branch_tree.branches k b) with
      | none => rfl
      | some d => simp only [lastIdx, List.foldl_cons, hp, Option.getD_some, List.getLast?_cons]

/-! ### what the model computes (facts about `Model/BranchTree.lean`, `Model/Subtree.lean`) -/

theorem glookup_addBranch (d : Groups) (k k' : Int) (b : List Int) :
    glookup (addBranch d k b) k' = if k' = k then some ((glookup d k).getD [] ++ [b]) else glookup d k' := by
  obtain ⟨x, hx, hset⟩ := step_eq d k b
  rw [← hset, glookup_eq, Dict.get?_set]
  by_cases hk : k' = k
  · subst hk
    rw [Dict.get?_setdefault] at hx
    simp only [if_true, glookup_eq]
    cases hd : Dict.get? d k' with
    | none => simp [hd] at hx; simp [← hx]
    | some y => simp [hd] at hx; simp [← hx]
  · simp only [hk, if_false, glookup_eq, Dict.get?_setdefault]
    cases Dict.get? d k' <;> simp [hk]

theorem pos?_mem (l : List Int) (x : Int) (h : x ∈ l) : pos? l x = some ((l.idxOf x : Nat) : Int) := by
  have : l.idxOf x < l.length := List.idxOf_lt_length_of_mem h
  simp [pos?, this]

/-- **the `branches` dictionary**: when the first node of every branch is a node of the branch tree, the loop succeeds, and under the key
`k` it files exactly the branches whose first node has the new index `k`, in the order of `get_branches` (no entry when there is none) -/
theorem fileBranches_spec (root : Int) (m : List Int) : ∀ (brs : List (List Int)) (d : Groups), (∀ b ∈ brs, b.headD root ∈ m) →
    ∃ d', fileBranches root m brs d = some d' ∧ ∀ k,
      glookup d' k = (match glookup d k with
        | some x => some (x ++ brs.filter (fun b => decide (((m.idxOf (b.headD root) : Nat) : Int) = k)))
        | none => if brs.filter (fun b => decide (((m.idxOf (b.headD root) : Nat) : Int) = k)) = [] then none
                  else some (brs.filter (fun b => decide (((m.idxOf (b.headD root) : Nat) : Int) = k)))) := by
  intro brs
  induction brs with
  | nil => intro d _; exact ⟨d, rfl, fun k => by cases glookup d k <;> simp⟩
  | cons b brs ih =>
    intro d hm
    have hb := hm b (List.mem_cons_self ..)
    obtain ⟨d', hd', hsp⟩ := ih (addBranch d ((m.idxOf (b.headD root) : Nat) : Int) b) (fun b' hb' => hm b' (List.mem_cons_of_mem _ hb'))
    refine ⟨d', by simp only [fileBranches, pos?_mem m _ hb, hd'], fun k => ?_⟩
    rw [hsp k, glookup_addBranch]
    simp only [List.filter_cons]
    generalize ((m.idxOf (b.headD root) : Nat) : Int) = kb
    by_cases hk : k = kb
    · subst hk
      cases glookup d k <;> simp
    · have hk' : ¬ kb = k := fun c => hk c.symm
      simp only [hk, hk', if_false, decide_false, Bool.false_eq_true]

theorem mapM_some_map {α β : Type} (f : α → Option β) (g : α → β) : ∀ (l : List α), (∀ x ∈ l, f x = some (g x)) →
    l.mapM f = some (l.map g) := by
  intro l
  induction l with
  | nil => intro _; rfl
  | cons a l ih =>
    intro h
    simp [List.mapM_cons, h a (List.mem_cons_self ..), ih (fun x hx => h x (List.mem_cons_of_mem _ hx))]

/-- `to_sub_topology` on a table none of whose rows is marked for removal and every parent of which is `-1` or a listed id: nothing is
dropped, the id map is the id column itself, every parent becomes the position of its id -/
theorem toSubTopology_total (a b : List Int) (hl : a.length = b.length) (hk : ∀ x ∈ a, x ≠ -2) (hp : ∀ y ∈ b, y = -1 ∨ y ∈ a) :
    toSubTopology a b = some ⟨b.map (fun y => if y = -1 then -1 else ((a.idxOf y : Nat) : Int)), a⟩ := by
  have hf : (List.zip a b).filter (fun ip => !decide (ip.1 = -2)) = List.zip a b := by
    rw [List.filter_eq_self]
    intro ip hip
    have := hk ip.1 (List.of_mem_zip hip).1
    simpa using this
  have h1 : (List.zip a b).map (·.1) = a := List.map_fst_zip (by omega)
  have h2 : (List.zip a b).map (·.2) = b := List.map_snd_zip (by omega)
  simp only [toSubTopology, RefineSub.removal_eq, ne_eq, decide_not, hf, h1]
  rw [mapM_some_map _ (fun ip => if ip.2 = -1 then -1 else ((a.idxOf ip.2 : Nat) : Int))]
  · simp only [Option.map_some]
    congr 2
    rw [← h2, List.map_map]
    simp [Function.comp_def, h2]
  · intro ip hip
    rcases hp ip.2 (List.of_mem_zip hip).2 with h | h
    · simp [h]
    · by_cases hn : ip.2 = -1
      · simp [hn]
      · simp [hn, pos?_mem a _ h]

/-- the object the model describes -/
def toObj (m : BranchTreeM) : BranchTreeObj :=
  ⟨(m.mapping.length : Int), range (m.mapping.length : Int), m.newPid, m.mapping, m.branches⟩

theorem kept_sublist (a b : List Int) (hl : a.length = b.length) (p : Int × Int → Bool) :
    (((List.zip a b).filter p).map (·.1)).Sublist a := by
  have h1 : (((List.zip a b).filter p).map (·.1)).Sublist ((List.zip a b).map (·.1)) := List.Sublist.map _ List.filter_sublist
  rwa [List.map_fst_zip (by omega)] at h1

/-- **`BranchTree.from_tree` as translated IS the model**, given what the translated `get_branches` returned: for branches that are
non-empty lists of valid rows of a `Tree` object (`ids[x] = x`) whose end points are distinct and distinct from the root -/
theorem fromTree_refines_on (ids pids : List Int) (brs : List (List Int)) (fuel : Nat)
    (hgb : get_branches fuel ids pids = some brs) (hg : GoodBrs ids brs)
    (hnd : ((0 : Int) :: brs.map (fun b => b.getLastD 0)).Nodup) :
    bt_from_tree fuel ids pids = (branchTree 0 brs).map toObj := by
  have hlen : ((0 : Int) :: brs.map (fun b => b.getLastD 0)).length = ((-1 : Int) :: brs.map (fun b => b.headD 0)).length := by simp
  have hsub := RefineSub.toSubTopology_refines _ _ hlen ((kept_sublist _ _ hlen _).nodup hnd)
  simp only [bt_from_tree, bt_from_tree.body, seq, Py.bind, hgb, bindS]
  rw [for1_loop 0 brs _ hg]
  simp only []
  rw [for2_loop 0 brs _ hg]
  simp only [List.nil_append, List.singleton_append, List.cons_append]
  have hneg : (-(1 : Int)) = -1 := rfl
  rw [hsub]
  simp only [branchTree, branchTreeTable]
  cases hs : toSubTopology ((0 : Int) :: brs.map (fun b => b.getLastD 0)) ((-1 : Int) :: brs.map (fun b => b.headD 0)) with
  | none => simp [Py.finish]
  | some s =>
    simp only [Option.map_some]
    rw [for3_loop 0 brs _ hg]
    simp only []
    cases fileBranches 0 s.mapping brs [] with
    | none => simp [Py.finish]
    | some d => simp [Py.finish, toObj]

end RefineBranchTree
