import SwcVerif.Gen.AlgoDsu
import SwcVerif.Model.AlgoRunDsu
import SwcVerif.Refine.PyLemmas
import SwcVerif.Proofs.Dsu
/-! Refinement: the definitions GENERATED from `swcgeom/utils/dsu.py` (`Gen.Algo.dsu_*`, regenerated from the
current source on every run) compute what the hand-written model `Dsu` (functions with point updates, the model
all C18 theorems are about) computes.  `Rep g d`: the two Python lists of `g` hold the tables of `d`. -/
namespace RefineDsu
open Gen.Algo Dsu AlgoRun

theorem normIdx_nat (n k : Nat) (h : k < n) : Py.normIdx n (k : Int) = some k := by
  simp [Py.normIdx, h]

theorem idx_nat {α} (l : List α) (k : Nat) (h : k < l.length) : Py.idx l (k : Int) = l[k]? := by
  simp [Py.idx, normIdx_nat _ _ h]

theorem setIdx_nat {α} (l : List α) (k : Nat) (v : α) (h : k < l.length) :
    Py.setIdx l (k : Int) v = some (l.set k v) := by
  simp [Py.setIdx, normIdx_nat _ _ h]

/-- the generated object `g` represents the tables `par`, `rank` on `n` nodes -/
structure Rep (g : DisjointSetUnion) (n : Nat) (par rank : Nat → Nat) : Prop where
  lp : g.element_parent.length = n
  lr : g.rank.length = n
  hp : ∀ i, i < n → g.element_parent[i]? = some ((par i : Nat) : Int)
  hr : ∀ i, i < n → g.rank[i]? = some ((rank i : Nat) : Int)

def Closed (n : Nat) (par : Nat → Nat) : Prop := ∀ i, i < n → par i < n

theorem rep_set_par {g : DisjointSetUnion} {n : Nat} {par rank : Nat → Nat} (h : Rep g n par rank) (x r : Nat)
    (hx : x < n) :
    Rep { g with element_parent := g.element_parent.set x (r : Int) } n (updN par x r) rank := by
  refine ⟨by simp [h.lp], h.lr, ?_, h.hr⟩
  intro i hi
  by_cases e : i = x
  · subst e; simp [updN, h.lp, hi]
  · have e' : x ≠ i := fun c => e c.symm
    simp [updN, e, List.getElem?_set_ne e', h.hp i hi]

theorem rep_set_rank {g : DisjointSetUnion} {n : Nat} {par rank : Nat → Nat} (h : Rep g n par rank) (x r : Nat)
    (hx : x < n) :
    Rep { g with rank := g.rank.set x (r : Int) } n par (updN rank x r) := by
  refine ⟨h.lp, by simp [h.lr], h.hp, ?_⟩
  intro i hi
  by_cases e : i = x
  · subst e; simp [updN, h.lr, hi]
  · have e' : x ≠ i := fun c => e c.symm
    simp [updN, e, List.getElem?_set_ne e', h.hr i hi]

/-- `find_parent`: with the model's fuel the generated recursion returns the model's root and leaves the
model's (path-compressed) table; the table stays closed and the root is a node -/
theorem find_refines {n : Nat} {rank : Nat → Nat} {B : Nat} :
    ∀ (f : Nat) (g : DisjointSetUnion) (par : Nat → Nat) (x : Nat),
      Rep g n par rank → Closed n par → DInv par rank B → x < n → B - rank x < f →
      ∃ g', dsu_find_parent f g (x : Int) = some (g', (((find f par x).2 : Nat) : Int)) ∧
        Rep g' n (find f par x).1 rank ∧ Closed n (find f par x).1 ∧ (find f par x).2 < n := by
  intro f
  induction f with
  | zero => intro g par x _ _ _ _ hf; omega
  | succ f ih =>
    intro g par x hrep hcl hinv hx hf
    have hxl : x < g.element_parent.length := by rw [hrep.lp]; exact hx
    have hget : Py.idx g.element_parent (x : Int) = some ((par x : Nat) : Int) := by
      rw [idx_nat _ _ hxl]; exact hrep.hp x hx
    by_cases hroot : par x = x
    · refine ⟨g, ?_, ?_, ?_, ?_⟩
      · simp [dsu_find_parent, Py.seq, Py.bind, Py.skip, Py.finish, hget, hroot, find]
      · simpa [find, hroot] using hrep
      · simpa [find, hroot] using hcl
      · simpa [find, hroot] using hx
    · have hpx : par x < n := hcl x hx
      have hf' : B - rank (par x) < f := by
        have := hinv.incr x hroot
        have := hinv.bnd (par x)
        omega
      obtain ⟨g1, e1, r1, c1, lt1⟩ := ih g par (par x) hrep hcl hinv hpx hf'
      have hxl1 : x < g1.element_parent.length := by rw [r1.lp]; exact hx
      have hne : ((x : Nat) : Int) ≠ ((par x : Nat) : Int) := by
        intro c; exact hroot (Int.ofNat.inj c).symm
      let r := (find f par (par x)).2
      refine ⟨{ g1 with element_parent := g1.element_parent.set x (r : Int) }, ?_, ?_, ?_, ?_⟩
      · simp only [dsu_find_parent, Py.seq, Py.bind, Py.skip, Py.finish, hget, find, hroot, if_false]
        simp [hne, e1, setIdx_nat _ _ _ hxl1, idx_nat, hxl1, r]
      · simpa [find, hroot] using rep_set_par r1 x r hx
      · simp only [find, hroot, if_false]
        intro i hi
        by_cases e : i = x
        · subst e; simpa [updN] using lt1
        · simpa [updN, e] using c1 i hi
      · simpa [find, hroot] using lt1

/-- enough fuel: the model's `find` does not depend on the amount -/
theorem find_fuel {par rank : Nat → Nat} {B : Nat} (h : DInv par rank B) :
    ∀ (f g x : Nat), B - rank x < f → B - rank x < g → find f par x = find g par x := by
  intro f
  induction f with
  | zero => intro g x hx; omega
  | succ f ih =>
    intro g x hf hg
    cases g with
    | zero => omega
    | succ g =>
      simp only [find]
      split
      · rfl
      · rename_i hne
        have := h.incr x hne
        have := h.bnd (par x)
        rw [ih g (par x) (by omega) (by omega)]

theorem validate_true {g : DisjointSetUnion} {n : Nat} {par rank : Nat → Nat} (h : Rep g n par rank) (a : Nat) :
    dsu_validate_node g (a : Int) = some (decide (a < n)) := by
  simp [dsu_validate_node, dsu_validate_node.body, Py.finish, Py.len, h.lp]

theorem validate_neg (g : DisjointSetUnion) (a : Int) (h : a < 0) : dsu_validate_node g a = some false := by
  have : ¬ (0 ≤ a) := by omega
  simp [dsu_validate_node, dsu_validate_node.body, Py.finish, this]

/-- `is_same_set(a, b)` refines `Dsu.same` -/
theorem same_refines {g : DisjointSetUnion} {d : D} (hrep : Rep g d.n d.par d.rank) (hcl : Closed d.n d.par)
    (hinv : DInv d.par d.rank d.b) (a b : Nat) (ha : a < d.n) (hb : b < d.n) (F : Nat) (hF : d.b < F) :
    ∃ g', dsu_is_same_set F g (a : Int) (b : Int) = some (g', (same d a b).1) ∧
      Rep g' d.n (same d a b).2.par (same d a b).2.rank ∧ Closed d.n (same d a b).2.par := by
  obtain ⟨g1, e1, r1, c1, l1⟩ := find_refines F g d.par a hrep hcl hinv ha (by omega)
  rw [find_fuel hinv F (d.b + 1) a (by omega) (by omega)] at e1 r1 c1 l1
  have i1 := find_inv hinv (d.b + 1) a (by omega)
  obtain ⟨g2, e2, r2, c2, l2⟩ := find_refines F g1 _ b r1 c1 i1 hb (by omega)
  rw [find_fuel i1 F (d.b + 1) b (by omega) (by omega)] at e2 r2 c2 l2
  refine ⟨g2, ?_, by simpa [same] using r2, by simpa [same] using c2⟩
  simp [dsu_is_same_set, dsu_is_same_set.body, Py.bind, Py.finish, e1, e2, same]
  rw [Bool.eq_iff_iff]; simp; omega

/-- `union_sets(a, b)` refines `Dsu.union` -/
theorem union_refines {g : DisjointSetUnion} {d : D} (hrep : Rep g d.n d.par d.rank) (hcl : Closed d.n d.par)
    (hinv : DInv d.par d.rank d.b) (a b : Nat) (ha : a < d.n) (hb : b < d.n) (F : Nat) (hF : d.b < F) :
    ∃ g', dsu_union_sets F g (a : Int) (b : Int) = some (g', ()) ∧
      Rep g' d.n (union d a b).par (union d a b).rank ∧ Closed d.n (union d a b).par := by
  obtain ⟨g1, e1, r1, c1, l1⟩ := find_refines F g d.par a hrep hcl hinv ha (by omega)
  rw [find_fuel hinv F (d.b + 1) a (by omega) (by omega)] at e1 r1 c1 l1
  have i1 := find_inv hinv (d.b + 1) a (by omega)
  obtain ⟨g2, e2, r2, c2, l2⟩ := find_refines F g1 _ b r1 c1 i1 hb (by omega)
  rw [find_fuel i1 F (d.b + 1) b (by omega) (by omega)] at e2 r2 c2 l2
  generalize hra : (find (d.b + 1) d.par a).2 = ra at *
  generalize hrb : (find (d.b + 1) (find (d.b + 1) d.par a).1 b).2 = rb at *
  generalize hpar : (find (d.b + 1) (find (d.b + 1) d.par a).1 b).1 = par2 at *
  have hla : ra < g2.rank.length := by rw [r2.lr]; exact l1
  have hlb : rb < g2.rank.length := by rw [r2.lr]; exact l2
  have hpa : ra < g2.element_parent.length := by rw [r2.lp]; exact l1
  have hpb : rb < g2.element_parent.length := by rw [r2.lp]; exact l2
  have ga : Py.idx g2.rank (ra : Int) = some ((d.rank ra : Nat) : Int) := by rw [idx_nat _ _ hla]; exact r2.hr ra l1
  have gb : Py.idx g2.rank (rb : Int) = some ((d.rank rb : Nat) : Int) := by rw [idx_nat _ _ hlb]; exact r2.hr rb l2
  have closedUpd : ∀ (k v : Nat), v < d.n → Closed d.n (updN par2 k v) := by
    intro k v hv i hi
    by_cases e : i = k
    · subst e; simpa [updN] using hv
    · simpa [updN, e] using c2 i hi
  by_cases hsame : ra = rb
  · refine ⟨g2, ?_, ?_, ?_⟩
    · simp [dsu_union_sets, dsu_union_sets.body, Py.seq, Py.bind, Py.skip, Py.finish, validate_true hrep, ha, hb, e1, e2,
        hsame]
    · simpa [union, hra, hrb, hpar, hsame] using r2
    · simpa [union, hra, hrb, hpar, hsame] using c2
  · have hsameZ : ((ra : Nat) : Int) ≠ ((rb : Nat) : Int) := fun c => hsame (Int.ofNat.inj c)
    by_cases hlt : d.rank ra < d.rank rb
    · refine ⟨{ g2 with element_parent := g2.element_parent.set ra (rb : Int) }, ?_, ?_, ?_⟩
      · simp [dsu_union_sets, dsu_union_sets.body, Py.seq, Py.bind, Py.skip, Py.finish, validate_true hrep, ha, hb, e1, e2,
          hsameZ, ga, gb, hlt, setIdx_nat _ _ _ hpa]
      · simpa [union, hra, hrb, hpar, hsame, hlt] using rep_set_par r2 ra rb l1
      · simpa [union, hra, hrb, hpar, hsame, hlt] using closedUpd ra rb l2
    · by_cases hgt : d.rank ra > d.rank rb
      · have hgt' : d.rank rb < d.rank ra := hgt
        refine ⟨{ g2 with element_parent := g2.element_parent.set rb (ra : Int) }, ?_, ?_, ?_⟩
        · simp [dsu_union_sets, dsu_union_sets.body, Py.seq, Py.bind, Py.skip, Py.finish, validate_true hrep, ha, hb, e1, e2,
            hsameZ, ga, gb, hlt, hgt', setIdx_nat _ _ _ hpb]
        · simpa [union, hra, hrb, hpar, hsame, hlt, hgt'] using rep_set_par r2 rb ra l2
        · simpa [union, hra, hrb, hpar, hsame, hlt, hgt'] using closedUpd rb ra l1
      · have hgt' : ¬ d.rank rb < d.rank ra := hgt
        have rq := rep_set_rank (rep_set_par r2 rb ra l2) ra (d.rank ra + 1) l1
        refine ⟨{ g2 with element_parent := g2.element_parent.set rb (ra : Int),
                           rank := g2.rank.set ra ((d.rank ra + 1 : Nat) : Int) }, ?_, ?_, ?_⟩
        · simp [dsu_union_sets, dsu_union_sets.body, Py.seq, Py.bind, Py.skip, Py.finish, validate_true hrep, ha, hb, e1, e2,
            hsameZ, ga, gb, hlt, hgt', setIdx_nat _ _ _ hpb, setIdx_nat _ _ _ hla]
        · simpa [union, hra, hrb, hpar, hsame, hlt, hgt'] using rq
        · simpa [union, hra, hrb, hpar, hsame, hlt, hgt'] using closedUpd rb ra l1

/-- an invalid node is rejected by the generated `union_sets` (the `assert`) -/
theorem union_invalid {g : DisjointSetUnion} {n : Nat} {par rank : Nat → Nat} (hrep : Rep g n par rank) (f a b : Nat)
    (h : ¬ (a < n ∧ b < n)) : dsu_union_sets f g (a : Int) (b : Int) = none := by
  by_cases ha : a < n
  · have hb : ¬ b < n := fun c => h ⟨ha, c⟩
    simp [dsu_union_sets, dsu_union_sets.body, Py.seq, Py.bind, Py.finish, validate_true hrep, ha, hb]
  · simp [dsu_union_sets, dsu_union_sets.body, Py.seq, Py.bind, Py.finish, validate_true hrep, ha]

/-- `DisjointSetUnion(node_number=n)` refines `Dsu.init n` -/
theorem init_refines (g0 : DisjointSetUnion) (n : Nat) :
    ∃ g, dsu_init g0 (n : Int) = some (g, ()) ∧ Rep g n (init n).par (init n).rank := by
  have h1 : ∀ (xs : List Int) (v : dsu_init.V), Py.forEach dsu_init.for1 xs v
        = .next (xs.foldl (fun v x => { v with c0_ := v.c0_ ++ [x], i := x }) v) :=
    Py.forEach_pure _ _ (fun _ _ => rfl)
  have h2 : ∀ (xs : List Int) (v : dsu_init.V), Py.forEach dsu_init.for2 xs v
        = .next (xs.foldl (fun v x => { v with c2_ := v.c2_ ++ [(0 : Int)], underscore_ := x }) v) :=
    Py.forEach_pure _ _ (fun _ _ => rfl)
  have f1 : ∀ (xs : List Int) (v : dsu_init.V),
      (xs.foldl (fun (v : dsu_init.V) x => { v with c0_ := v.c0_ ++ [x], i := x }) v).c0_ = v.c0_ ++ xs ∧
      (xs.foldl (fun (v : dsu_init.V) x => { v with c0_ := v.c0_ ++ [x], i := x }) v).self = v.self ∧
      (xs.foldl (fun (v : dsu_init.V) x => { v with c0_ := v.c0_ ++ [x], i := x }) v).node_number = v.node_number := by
    intro xs
    induction xs with
    | nil => intro v; simp
    | cons x xs ih => intro v; simp [ih]
  have f2 : ∀ (xs : List Int) (v : dsu_init.V),
      (xs.foldl (fun (v : dsu_init.V) x => { v with c2_ := v.c2_ ++ [(0 : Int)], underscore_ := x }) v).c2_ = v.c2_ ++ xs.map (fun _ => (0 : Int)) ∧
      (xs.foldl (fun (v : dsu_init.V) x => { v with c2_ := v.c2_ ++ [(0 : Int)], underscore_ := x }) v).self = v.self := by
    intro xs
    induction xs with
    | nil => intro v; simp
    | cons x xs ih => intro v; simp [ih]
  refine ⟨{ element_parent := (List.range n).map (fun (k : Nat) => (k : Int)), rank := (List.range n).map (fun _ => (0 : Int)) }, ?_, ?_⟩
  · simp only [dsu_init, dsu_init.body, Py.seq, Py.bindS, h1, h2, Py.finish, Option.map]
    simp [f1, f2]
  · refine ⟨by simp, by simp, ?_, ?_⟩
    · intro i hi; simp [init, hi]
    · intro i hi; simp [init, hi]

/-! ### whole scripts -/

/-- full invariant carried along a script -/
structure Good (g : DisjointSetUnion) (d : D) : Prop where
  rep : Rep g d.n d.par d.rank
  cl  : Closed d.n d.par
  inv : DInv d.par d.rank d.b

theorem union_b_le (d : D) (a b : Nat) : (union d a b).b ≤ d.b + 1 ∧ (union d a b).n = d.n := by
  simp only [union]; split
  · simp
  · split
    · simp
    · split <;> simp

theorem find_invalid (f : Nat) (g : DisjointSetUnion) (a : Nat) (h : ¬ a < g.element_parent.length) :
    dsu_find_parent f g (a : Int) = none := by
  cases f with
  | zero => rfl
  | succ f => simp [dsu_find_parent, Py.seq, Py.bind, Py.finish, Py.idx_nat_none _ _ h]

/-- `is_same_set` on a node that does not exist raises (IndexError) -/
theorem same_invalid {g : DisjointSetUnion} {d : D} (h : Good g d) (F a b : Nat) (hF : d.b < F) (hv : ¬ (a < d.n ∧ b < d.n)) :
    dsu_is_same_set F g (a : Int) (b : Int) = none := by
  by_cases ha : a < d.n
  · have hb : ¬ b < d.n := fun c => hv ⟨ha, c⟩
    obtain ⟨g1, e1, r1, _, _⟩ := find_refines F g d.par a h.rep h.cl h.inv ha (by omega)
    have : ¬ b < g1.element_parent.length := by rw [r1.lp]; exact hb
    simp [dsu_is_same_set, dsu_is_same_set.body, Py.bind, Py.finish, e1, find_invalid _ _ _ this]
  · have : ¬ a < g.element_parent.length := by rw [h.rep.lp]; exact ha
    simp [dsu_is_same_set, dsu_is_same_set.body, Py.bind, Py.finish, find_invalid _ _ _ this]

theorem good_union {g : DisjointSetUnion} {d : D} (h : Good g d) (a b : Nat) (ha : a < d.n) (hb : b < d.n)
    (F : Nat) (hF : d.b < F) :
    ∃ g', dsu_union_sets F g (a : Int) (b : Int) = some (g', ()) ∧ Good g' (union d a b) := by
  obtain ⟨g', e, r, c⟩ := union_refines h.rep h.cl h.inv a b ha hb F hF
  have hn := (union_b_le d a b).2
  have di : DsuInv d d.n (fun x y => root d x = root d y) := ⟨h.inv, rfl, fun _ _ _ _ => Iff.rfl⟩
  exact ⟨g', e, ⟨by rw [hn]; exact r, by rw [hn]; exact c, (union_inv di a b ha hb).inv⟩⟩

theorem good_same {g : DisjointSetUnion} {d : D} (h : Good g d) (a b : Nat) (ha : a < d.n) (hb : b < d.n)
    (F : Nat) (hF : d.b < F) :
    ∃ g', dsu_is_same_set F g (a : Int) (b : Int) = some (g', (same d a b).1) ∧ Good g' (same d a b).2 := by
  obtain ⟨g', e, r, c⟩ := same_refines h.rep h.cl h.inv a b ha hb F hF
  have di : DsuInv d d.n (fun x y => root d x = root d y) := ⟨h.inv, rfl, fun _ _ _ _ => Iff.rfl⟩
  exact ⟨g', e, ⟨by simpa [same] using r, by simpa [same] using c, (same_inv di a b).inv⟩⟩

/-- **every script**: running the methods GENERATED from the current `dsu.py` answers every query exactly as the
model `Dsu.runOps` does (including the point at which an invalid node raises), for any fuel beyond the number of
operations (the rank bound) -/
theorem script_refines : ∀ (ops : List Op) (g : DisjointSetUnion) (d : D) (F : Nat), Good g d → d.b + ops.length < F →
    genRun F g ops = runOps d ops := by
  intro ops
  induction ops with
  | nil => intro g d F _ _; rfl
  | cons op ops ih =>
    intro g d F h hF
    simp only [List.length_cons] at hF
    cases op with
    | union a b =>
      by_cases hv : a < d.n ∧ b < d.n
      · obtain ⟨g', e, h'⟩ := good_union h a b hv.1 hv.2 F (by omega)
        have hb' := (union_b_le d a b).1
        have := ih g' (union d a b) F h' (by omega)
        simp [genRun, runOps, stepOp, valid, hv.1, hv.2, e, this]
      · have e := union_invalid h.rep F a b hv
        have : (valid d a && valid d b) = false := by
          simp only [valid, Bool.and_eq_false_iff, decide_eq_false_iff_not]; omega
        simp [genRun, runOps, stepOp, this, e]
    | same a b =>
      by_cases hv : a < d.n ∧ b < d.n
      · obtain ⟨g', e, h'⟩ := good_same h a b hv.1 hv.2 F (by omega)
        have hb' : (same d a b).2.b = d.b := by simp [same]
        have := ih g' (same d a b).2 F h' (by omega)
        simp [genRun, runOps, stepOp, valid, hv.1, hv.2, e, this]
      · have e := same_invalid h F a b (by omega) hv
        have : (valid d a && valid d b) = false := by
          simp only [valid, Bool.and_eq_false_iff, decide_eq_false_iff_not]; omega
        simp [genRun, runOps, stepOp, this, e]

/-- from the generated constructor on -/
theorem script_refines_init (n : Nat) (ops : List Op) (g0 : DisjointSetUnion) :
    ∃ g, dsu_init g0 (n : Int) = some (g, ()) ∧ genRun (ops.length + 1) g ops = runOps (init n) ops := by
  obtain ⟨g, e, r⟩ := init_refines g0 n
  refine ⟨g, e, script_refines ops g (init n) _ ⟨r, ?_, ?_⟩ (by simp [init])⟩
  · intro i hi; simpa [init] using hi
  · exact ⟨fun x hx => absurd rfl hx, fun x => Nat.le_refl _⟩

end RefineDsu
