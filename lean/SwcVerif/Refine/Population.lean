import SwcVerif.Gen.AlgoPopulation
import SwcVerif.Refine.PyLemmas
import SwcVerif.Model.Population
/-! Refinement for C19: the definitions GENERATED from `swcgeom/core/population.py` (`_get_idx`,
`ChainTrees.__len__ / __getitem__` with its binary search, `NestTrees.__getitem__`, `LazyLoadingTrees.load /
__getitem__` with the file reads as a state-passing callback) compute what the models of `Model/Population.lean`
compute. -/
namespace RefinePop
open Gen.Algo Pop Py

def castL (l : List Nat) : List Int := l.map (fun (k : Nat) => (k : Int))
@[simp] theorem castL_length (l : List Nat) : (castL l).length = l.length := by simp [castL]
theorem castL_getElem? (l : List Nat) (i : Nat) : (castL l)[i]? = (l[i]?).map (fun (k : Nat) => (k : Int)) := by
  simp [castL]

/-- `_get_idx(key, length)` -/
theorem getIdx_refines (key : Int) (n : Nat) :
    pop_get_idx key (n : Int) = (getIdx key n).map (fun (k : Nat) => (k : Int)) := by
  unfold getIdx
  by_cases h1 : key < -(n : Int)
  · simp [pop_get_idx, pop_get_idx.body, seq, finish, h1]
  · by_cases h2 : key ≥ (n : Int)
    · simp [pop_get_idx, pop_get_idx.body, seq, finish, h1, h2]
    · by_cases h3 : key < 0
      · have : ((key + n).toNat : Int) = key + n := by omega
        simp [pop_get_idx, pop_get_idx.body, seq, finish, skip, h1, h2, h3, this]
      · have : (key.toNat : Int) = key := by omega
        simp [pop_get_idx, pop_get_idx.body, seq, finish, skip, h1, h2, h3, this]

/-- `NestTrees(trees, idx)[key]` on a valid key reads `trees[idx[key]]` (plain Python list indexing, negative keys wrap) -/
theorem nest_refines (trees idx : List Int) (key : Int) (k : Nat) (h : getIdx key idx.length = some k) :
    nest_getitem ⟨trees, idx⟩ key = (idx[k]?).bind (fun j => Py.idx trees j) := by
  have hk : normIdx idx.length key = some k := by
    unfold getIdx at h
    unfold normIdx
    by_cases hb : (key < -(idx.length : Int) || key ≥ (idx.length : Int)) = true
    · simp [hb] at h
    · rw [if_neg hb] at h
      simp only [Option.some.injEq] at h
      have hc : ¬ key < -(idx.length : Int) ∧ ¬ (idx.length : Int) ≤ key := by
        simpa [Bool.or_eq_true, decide_eq_true_eq, not_or] using hb
      by_cases h0 : 0 ≤ key
      · have hn : ¬ key < 0 := by omega
        simp only [hn, if_false] at h
        have hlt : key.toNat < idx.length := by omega
        simp [h0, hlt, h]
        omega
      · have hneg : key < 0 := by omega
        simp only [hneg, if_true] at h
        have h1 : (-key).toNat ≤ idx.length := by omega
        have h2 : idx.length - (-key).toNat = k := by omega
        simp [h0, h1, h2]
  simp only [nest_getitem, nest_getitem.body, Py.bind, Py.idx, hk, finish]
  cases hj : idx[k]? with
  | none => simp
  | some j =>
    simp only [Option.bind_some]
    cases hn : normIdx trees.length j with
    | none => simp
    | some m =>
      cases ht : trees[m]? with
      | none => simp [ht]
      | some a => simp [ht]

/-! ### ChainTrees -/

/-- the binary search loop, with the invariant `1 ≤ i ≤ j ≤ m`, `cum[i-1] ≤ idx` -/
theorem bsearch_refines (trees : List (List Int)) (cum : List Nat) (m : Nat) (hm : cum.length = m + 1) (idx : Nat) :
    ∀ (F i j : Nat) (v : chain_getitem.V), 1 ≤ i → i ≤ j → j ≤ m → j - i < F → cum.getD (i - 1) 0 ≤ idx →
      v.self = ⟨trees, castL cum⟩ → v.i = (i : Int) → v.j = (j : Int) → v.idx = (idx : Int) →
      ∃ v', whileF chain_getitem.while1_cond chain_getitem.while1_body F v = .next v' ∧
        v'.i = ((bsearch cum idx F i j : Nat) : Int) ∧ v'.idx = v.idx ∧ v'.self = v.self ∧
        1 ≤ bsearch cum idx F i j ∧ bsearch cum idx F i j ≤ m ∧ cum.getD (bsearch cum idx F i j - 1) 0 ≤ idx := by
  intro F
  induction F with
  | zero => intro i j v _ _ _ hF; omega
  | succ F ih =>
    intro i j v h1 hij hjm hF hinv hs hi hj hidx
    by_cases hlt : i < j
    · have hc : chain_getitem.while1_cond v = some true := by
        simp [chain_getitem.while1_cond, hi, hj]; omega
      have hmid : Int.fdiv ((i : Int) + (j : Int)) 2 = (((i + j) / 2 : Nat) : Int) := by
        rw [Int.fdiv_eq_ediv_of_nonneg _ (by omega)]; omega
      have hml : (i + j) / 2 < cum.length := by rw [hm]; omega
      have hget : Py.idx (castL cum) (((i + j) / 2 : Nat) : Int) = some ((cum.getD ((i + j) / 2) 0 : Nat) : Int) := by
        rw [idx_nat _ _ (by simpa using hml), castL_getElem?]
        simp [List.getD, hml]
      have hcast : (((i + j) / 2 : Nat) : Int) = ((i : Int) + (j : Int)) / 2 := by omega
      have hget' := hget
      rw [hcast] at hget'
      by_cases hle : cum.getD ((i + j) / 2) 0 ≤ idx
      · obtain ⟨v', e, r1, r2, r3, r4⟩ := ih ((i + j) / 2 + 1) j
          { v with mid := (((i + j) / 2 : Nat) : Int), i := (((i + j) / 2 : Nat) : Int) + 1 } (by omega) (by omega) hjm (by omega)
          (by simpa using hle) hs (by simp) hj hidx
        have hb : bsearch cum idx (F + 1) i j = bsearch cum idx F ((i + j) / 2 + 1) j := by
          simp only [bsearch, hlt, if_true, hle]
        refine ⟨v', ?_, ?_, r2, r3, ?_⟩
        · rw [whileF_next _ _ F v _ hc ?_]
          · exact e
          · have hleZ : ((cum.getD ((i + j) / 2) 0 : Nat) : Int) ≤ (idx : Int) := by omega
            simp only [chain_getitem.while1_body, seq, Py.bind, hi, hj, hmid, hs, hget, hidx, hleZ, decide_true, if_true]
        · rw [hb]; exact r1
        · rw [hb]; exact r4
      · obtain ⟨v', e, r1, r2, r3, r4⟩ := ih i ((i + j) / 2)
          { v with mid := (((i + j) / 2 : Nat) : Int), j := (((i + j) / 2 : Nat) : Int) } h1 (by omega) (by omega) (by omega)
          hinv hs hi (by simp) hidx
        have hb : bsearch cum idx (F + 1) i j = bsearch cum idx F i ((i + j) / 2) := by
          simp only [bsearch, hlt, if_true, hle, if_false]
        refine ⟨v', ?_, ?_, r2, r3, ?_⟩
        · rw [whileF_next _ _ F v _ hc ?_]
          · exact e
          · have hleZ : ¬ ((cum.getD ((i + j) / 2) 0 : Nat) : Int) ≤ (idx : Int) := by omega
            simp only [chain_getitem.while1_body, seq, Py.bind, hi, hj, hmid, hs, hget, hidx, hleZ, decide_false, Bool.false_eq_true, if_false]
        · rw [hb]; exact r1
        · rw [hb]; exact r4
    · have hc : chain_getitem.while1_cond v = some false := by
        simp [chain_getitem.while1_cond, hi, hj]; omega
      refine ⟨v, whileF_done _ _ F v hc, ?_, rfl, rfl, ?_⟩
      · simp [bsearch, hlt, hi]
      · simp only [bsearch, hlt, if_false]
        exact ⟨h1, by omega, hinv⟩

/-! ### LazyLoadingTrees: the file reads are a state-passing callback whose state is the read log -/

/-- the generated object represents the model state: file `i` is `swcs[i]`, slot `i` holds its tree iff it is cached -/
structure LRep (g : LazyLoadingTrees) (l : Lazy) : Prop where
  hs : g.swcs = castL (List.range l.cache.length)
  ht : g.trees.length = l.cache.length
  hc : ∀ i, i < l.cache.length → g.trees[i]? = some (if l.cache[i]?.getD true = true then some (i : Int) else none)

theorem load_eq (l : Lazy) (k : Nat) :
    l.load k = if l.cache[k]?.getD true = true then l else ⟨l.cache.set k true, l.log ++ [k]⟩ := by
  simp [Lazy.load]

theorem load_refines {g : LazyLoadingTrees} {l : Lazy} (h : LRep g l) (k : Nat) (hk : k < l.cache.length) :
    ∃ g', lazy_load readLog g (k : Int) (castL l.log) = some (g', castL (l.load k).log, ()) ∧ LRep g' (l.load k) := by
  have hkt : k < g.trees.length := by rw [h.ht]; exact hk
  have hget : Py.idx g.trees (k : Int) = some (if l.cache[k]?.getD true = true then some (k : Int) else none) := by
    rw [idx_nat _ _ hkt]; exact h.hc k hk
  rw [load_eq]
  by_cases hcached : l.cache[k]?.getD true = true
  · refine ⟨g, ?_, ?_⟩
    · simp only [lazy_load, lazy_load.body, Py.bind, hget, hcached, if_true, Option.isNone_some, Bool.false_eq_true, if_false, skip,
        finish, Option.map_some]
    · rw [if_pos hcached]; exact h
  · have hks : k < g.swcs.length := by rw [h.hs]; simpa using hk
    have hsw : Py.idx g.swcs (k : Int) = some (k : Int) := by
      rw [idx_nat _ _ hks, h.hs, castL_getElem?]; simp [hk]
    refine ⟨{ g with trees := g.trees.set k (some (k : Int)) }, ?_, ?_⟩
    · simp only [lazy_load, lazy_load.body, Py.bind, hget, hcached, if_false, Option.isNone_none, if_true, hsw, readLog,
        setIdx_nat _ _ _ hkt, finish, Option.map_some]
      simp [castL]
    · rw [if_neg hcached]
      refine ⟨by simpa using h.hs, by simpa using h.ht, ?_⟩
      intro i hi
      simp only [List.length_set] at hi
      by_cases e : i = k
      · subst e; simp [hkt, hi]
      · have e' : k ≠ i := fun c => e c.symm
        simp only [List.getElem?_set_ne e']
        exact h.hc i hi

/-- **`LazyLoadingTrees.__getitem__` as translated**: it normalises the key, reads the file ONLY if the slot is empty
(the read log grows by exactly that file), and returns the tree of that file — exactly `Lazy.get` -/
theorem getitem_refines {g : LazyLoadingTrees} {l : Lazy} (h : LRep g l) (key : Int) :
    (match l.get key with
     | none => lazy_getitem readLog g key (castL l.log) = none
     | some (l', k) => ∃ g', lazy_getitem readLog g key (castL l.log) = some (g', castL l'.log, some (k : Int)) ∧ LRep g' l') := by
  have hlen : lazy_len g = some ((l.cache.length : Nat) : Int) := by
    simp [lazy_len, lazy_len.body, finish, h.hs]
  have hg := getIdx_refines key l.cache.length
  simp only [Lazy.get, Lazy.len]
  cases hk : getIdx key l.cache.length with
  | none =>
    rw [hk] at hg
    simp [lazy_getitem, lazy_getitem.body, seq, Py.bind, hlen, hg, finish]
  | some k =>
    rw [hk] at hg
    have hklt : k < l.cache.length := by
      unfold getIdx at hk
      split at hk
      · simp at hk
      · rename_i hb
        simp only [Option.some.injEq] at hk
        have hc : ¬ key < -(l.cache.length : Int) ∧ ¬ (l.cache.length : Int) ≤ key := by
          simpa [Bool.or_eq_true, decide_eq_true_eq, not_or] using hb
        split at hk <;> omega
    obtain ⟨g', e, r⟩ := load_refines h k hklt
    have hlk : (l.load k).cache.length = l.cache.length := by
      rw [load_eq]; split <;> simp
    have hkt : k < g'.trees.length := by rw [r.ht, hlk]; exact hklt
    have hcached : (l.load k).cache[k]?.getD true = true := by
      rw [load_eq]
      split
      · assumption
      · simp [hklt]
    have hread : Py.idx g'.trees (k : Int) = some (some (k : Int)) := by
      rw [idx_nat _ _ hkt, r.hc k (by rw [hlk]; exact hklt), hcached]; simp
    refine ⟨g', ?_, r⟩
    simp [lazy_getitem, lazy_getitem.body, seq, Py.bind, hlen, hg, e, hread, finish]

end RefinePop
