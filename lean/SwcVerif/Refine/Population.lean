import SwcVerif.Gen.AlgoPopulation
import SwcVerif.Refine.PyLemmas
import SwcVerif.Model.Population
/-! Refinement for C19: the definitions GENERATED from `swcgeom/core/population.py` (`_get_idx`,
`ChainTrees.__len__ / __getitem__` with its binary search, `NestTrees.__getitem__`, `LazyLoadingTrees.load /
__getitem__` with the file reads as a state-passing callback) compute what the models of `Model/Population.lean`
compute. -/
namespace RefinePop
open Gen.Algo Pop Py

def castL (l : List Nat) : List Int := l.map (fun (k : Nat) => (k : Int))
@[simp] theorem castL_length (l : List Nat) : (castL l).length = l.length := by simp [castL]
theorem castL_getElem? (l : List Nat) (i : Nat) : (castL l)[i]? = (l[i]?).map (fun (k : Nat) => (k : Int)) := by
  simp [castL]

/-- `_get_idx(key, length)` -/
theorem getIdx_refines (key : Int) (n : Nat) :
    pop_get_idx key (n : Int) = (getIdx key n).map (fun (k : Nat) => (k : Int)) := by
  unfold getIdx
  by_cases h1 : key < -(n : Int)
  · simp [pop_get_idx, pop_get_idx.body, seq, finish, h1]
  · by_cases h2 : key ≥ (n : Int)
    · simp [pop_get_idx, pop_get_idx.body, seq, finish, h1, h2]
    · by_cases h3 : key < 0
      · have : ((key + n).toNat : Int) = key + n := by omega
        simp [pop_get_idx, pop_get_idx.body, seq, finish, skip, h1, h2, h3, this]
      · have : (key.toNat : Int) = key := by omega
        simp [pop_get_idx, pop_get_idx.body, seq, finish, skip, h1, h2, h3, this]

/-- `NestTrees(trees, idx)[key]` on a valid key reads `trees[idx[key]]` (plain Python list indexing, negative keys wrap) -/
theorem nest_refines (trees idx : List Int) (key : Int) (k : Nat) (h : getIdx key idx.length = some k) :
    nest_getitem ⟨trees, idx⟩ key = (idx[k]?).bind (fun j => Py.idx trees j) := by
  have hk : normIdx idx.length key = some k := by
    unfold getIdx at h
    unfold normIdx
    split at h
    · simp at h
    · simp only [Option.some.injEq] at h
      rename_i hc
      simp only [Bool.or_eq_true, decide_eq_true_eq, not_or, not_lt, ge_iff_le, not_le] at hc
      by_cases h0 : 0 ≤ key
      · have : ¬ key < 0 := by omega
        simp only [this, if_false] at h
        have : key.toNat < idx.length := by omega
        simp [h0, this, h]
      · have hneg : key < 0 := by omega
        simp only [hneg, if_true] at h
        have h1 : (-key).toNat ≤ idx.length := by omega
        have h2 : idx.length - (-key).toNat = k := by omega
        simp [h0, h1, h2]
  simp only [nest_getitem, nest_getitem.body, Py.bind, Py.idx, hk, finish]
  cases hj : idx[k]? with
  | none => simp
  | some j =>
    simp only [Option.bind_some]
    cases hn : normIdx trees.length j with
    | none => simp
    | some m => cases trees[m]? <;> simp

/-! ### ChainTrees -/

/-- the binary search loop, with the invariant `1 ≤ i ≤ j ≤ m`, `cum[i-1] ≤ idx` -/
theorem bsearch_refines (trees : List (List Int)) (cum : List Nat) (m : Nat) (hm : cum.length = m + 1) (idx : Nat) :
    ∀ (F i j : Nat) (v : chain_getitem.V), 1 ≤ i → i ≤ j → j ≤ m → j - i < F → cum.getD (i - 1) 0 ≤ idx →
      v.self = ⟨trees, castL cum⟩ → v.i = (i : Int) → v.j = (j : Int) → v.idx = (idx : Int) →
      ∃ v', whileF chain_getitem.while1_cond chain_getitem.while1_body F v = .next v' ∧
        v'.i = ((bsearch cum idx F i j : Nat) : Int) ∧ v'.idx = v.idx ∧ v'.self = v.self ∧
        1 ≤ bsearch cum idx F i j ∧ bsearch cum idx F i j ≤ m ∧ cum.getD (bsearch cum idx F i j - 1) 0 ≤ idx := by
  intro F
  induction F with
  | zero => intro i j v _ _ _ hF; omega
  | succ F ih =>
    intro i j v h1 hij hjm hF hinv hs hi hj hidx
    by_cases hlt : i < j
    · have hc : chain_getitem.while1_cond v = some true := by
        simp [chain_getitem.while1_cond, hi, hj]; omega
      have hmid : Int.fdiv ((i : Int) + (j : Int)) 2 = (((i + j) / 2 : Nat) : Int) := by
        rw [Int.fdiv_eq_ediv_of_nonneg _ (by omega)]; omega
      have hml : (i + j) / 2 < cum.length := by rw [hm]; omega
      have hget : Py.idx (castL cum) (((i + j) / 2 : Nat) : Int) = some ((cum.getD ((i + j) / 2) 0 : Nat) : Int) := by
        rw [idx_nat _ _ (by simpa using hml), castL_getElem?]
        simp [List.getD, hml]
      by_cases hle : cum.getD ((i + j) / 2) 0 ≤ idx
      · obtain ⟨v', e, r1, r2, r3, r4⟩ := ih ((i + j) / 2 + 1) j
          { v with mid := (((i + j) / 2 : Nat) : Int), i := (((i + j) / 2 : Nat) : Int) + 1 } (by omega) (by omega) hjm (by omega)
          (by simpa using hle) hs (by simp) hj hidx
        refine ⟨v', ?_, ?_, r2, r3, ?_⟩
        · rw [whileF_next _ _ F v _ hc ?_]
          · exact e
          · have hleZ : ((cum.getD ((i + j) / 2) 0 : Nat) : Int) ≤ (idx : Int) := by omega
            simp [chain_getitem.while1_body, seq, Py.bind, hi, hj, hmid, hs, hget, hidx, hleZ]
        · simpa [bsearch, hlt, hle] using r1
        · simpa [bsearch, hlt, hle] using r4
      · obtain ⟨v', e, r1, r2, r3, r4⟩ := ih i ((i + j) / 2)
          { v with mid := (((i + j) / 2 : Nat) : Int), j := (((i + j) / 2 : Nat) : Int) } h1 (by omega) (by omega) (by omega)
          hinv hs hi (by simp) hidx
        refine ⟨v', ?_, ?_, r2, r3, ?_⟩
        · rw [whileF_next _ _ F v _ hc ?_]
          · exact e
          · have hleZ : ¬ ((cum.getD ((i + j) / 2) 0 : Nat) : Int) ≤ (idx : Int) := by omega
            simp [chain_getitem.while1_body, seq, Py.bind, hi, hj, hmid, hs, hget, hidx, hleZ]
        · simpa [bsearch, hlt, hle] using r1
        · simpa [bsearch, hlt, hle] using r4
    · have hc : chain_getitem.while1_cond v = some false := by
        simp [chain_getitem.while1_cond, hi, hj]; omega
      refine ⟨v, whileF_done _ _ F v hc, ?_, rfl, rfl, ?_⟩
      · simp [bsearch, hlt, hi]
      · simp only [bsearch, hlt, if_false]
        exact ⟨h1, by omega, hinv⟩

end RefinePop
