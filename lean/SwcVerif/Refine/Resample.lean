import SwcVerif.Gen.AlgoResample
import SwcVerif.Model.Resample
import SwcVerif.Refine.PyArrays
import Mathlib.Algebra.Order.Field.Rat
import Mathlib.Algebra.Order.Floor.Ring
import Mathlib.Tactic.Linarith
import Mathlib.Tactic.Ring
/-! # C16: the GENERATED resamplers and smoother (`Gen/AlgoResample.lean`, translated from `swcgeom/transforms/branch.py` on every run)
equal the hand-written models of `Model/Resample.lean`

Part 1: specification lemmas of the numpy / scipy semantics `Model/PyResample.lean` at `K = Rat`: each library function is the model function
it stands for (`cumsumK`/`cumdist`, `linspace0`/`linspace`, `arange0`/`arange`, `interp`/`interp`, `convolveSame`/`convSame`).
Part 2: the refinement theorems `linResample_refines`, `isoResample_refines`, `convSmooth_refines`. -/
namespace RefineResample
open Py Resample

/-! ## Part 1: the library functions at `Rat` -/

theorem cumsumFrom_cumdist : ∀ (l : List Rat) (acc : Rat), acc :: cumsumFrom acc l = (cumdist l).map (acc + ·)
  | [], acc => by simp [cumsumFrom, cumdist]
  | x :: xs, acc => by
    have ih := cumsumFrom_cumdist xs (acc + x)
    simp only [cumsumFrom, cumdist, List.map_cons, List.map_map, add_zero]
    rw [ih]
    congr 1
    apply List.map_congr_left
    intro y _
    simp only [Function.comp]
    ring

/-- `np.concatenate([[0], np.cumsum(lens)])` / `np.insert(np.cumsum(lens), 0, 0)` are the model's arc-length positions -/
theorem cumsumK_cumdist (l : List Rat) : (0 : Rat) :: cumsumK l = cumdist l := by
  rw [cumsumK, cumsumFrom_cumdist]
  simp

theorem npInsert_zero {α : Type} (a : List α) (x : α) : npInsert a (0 : Int) x = some (x :: a) := by
  simp [npInsert]

theorem nondecr_cumsumFrom : ∀ (l : List Rat) (acc : Rat), (∀ x ∈ l, 0 ≤ x) → nondecr (acc :: cumsumFrom acc l) = true
  | [], _, _ => by simp [cumsumFrom, nondecr]
  | x :: xs, acc, h => by
    have h0 : 0 ≤ x := h x List.mem_cons_self
    have ih := nondecr_cumsumFrom xs (acc + x) (fun y hy => h y (List.mem_cons_of_mem _ hy))
    simp only [cumsumFrom, nondecr, ih, Bool.and_true, decide_eq_true_eq]
    linarith

theorem nondecr_cumdist (l : List Rat) (h : ∀ x ∈ l, 0 ≤ x) : nondecr (cumdist l) = true := by
  rw [← cumsumK_cumdist]; exact nondecr_cumsumFrom l 0 h

theorem cumdist_length (l : List Rat) : (cumdist l).length = l.length + 1 := by
  induction l with
  | nil => rfl
  | cons x xs ih => simp [cumdist, ih]

theorem idx_last {α : Type} (l : List α) (d : α) (h : l ≠ []) : idx l (-(1 : Int)) = some (l.getLastD d) := by
  cases l with
  | nil => exact absurd rfl h
  | cons a t =>
    have h1 : normIdx (a :: t).length (-(1 : Int)) = some t.length := by
      simp [normIdx]
    simp only [idx, h1, List.getLastD_cons]
    rw [List.getLastD_eq_getLast?, List.getLast?_eq_getElem?]
    cases t with
    | nil => simp
    | cons b t' => simp

/-- the scan of `np.interp` is the model's scan (`xa ≤ x`) -/
theorem interpGo_eq (x : Rat) : ∀ (xr fr : List Rat) (xa fa : Rat), xa ≤ x →
    interpGo x xa fa xr fr = Resample.interp1.go x xa fa xr fr
  | [], _, _, _, _ => by simp [interpGo, Resample.interp1.go]
  | _ :: _, [], _, _, _ => by simp [interpGo, Resample.interp1.go]
  | xb :: xr, fb :: fr, xa, fa, h => by
    simp only [interpGo, Resample.interp1.go]
    by_cases hx : x < xb
    · simp only [hx, if_true]
      by_cases hxa : xa < x
      · simp only [hxa, if_true, Fld.div]; ring
      · have : x = xa := le_antisymm (not_lt.mp hxa) h
        simp [this]
    · simp only [hx, if_false]
      exact interpGo_eq x xr fr xb fb (not_lt.mp hx)

theorem interp1_eq (xp fp : List Rat) (x : Rat) : Py.interp1 xp fp x = Resample.interp1 xp fp x := by
  cases xp with
  | nil => simp [Py.interp1, Resample.interp1]
  | cons x0 xr =>
    cases fp with
    | nil => simp [Py.interp1, Resample.interp1]
    | cons f0 fr =>
      simp only [Py.interp1, Resample.interp1]
      by_cases h : x < x0
      · simp [h]
      · simp only [h, if_false]; exact interpGo_eq x xr fr x0 f0 (not_lt.mp h)

/-- `np.interp` on sample points of equal number, non-empty and non-decreasing, is the model's `interp` -/
theorem interp_eq (xs xp fp : List Rat) (hl : xp.length = fp.length) (hne : xp ≠ []) (hm : nondecr xp = true) :
    Py.interp xs xp fp = some (Resample.interp xs xp fp) := by
  simp only [Py.interp, hl, hne, hm, ne_eq, not_false_eq_true, and_self, if_true, Resample.interp]
  congr 1
  apply List.map_congr_left
  intro x _
  exact interp1_eq xp fp x

/-- `np.linspace(0, L, n)` is the model's `linspace` -/
theorem linspace0_eq (L : Rat) (n : Nat) : Py.linspace0 L (n : Int) = some (Resample.linspace L n) := by
  have h0 : ¬ ((n : Int) < 0) := by omega
  simp only [Py.linspace0, h0, if_false, Resample.linspace, Int.toNat_natCast]
  by_cases h1 : n ≤ 1
  · have : (n : Int) ≤ 1 := by omega
    simp [h1, this]
  · have : ¬ (n : Int) ≤ 1 := by omega
    simp only [h1, this, if_false, Fld.ofInt, Fld.div]
    congr 1
    apply List.map_congr_left
    intro i _
    have hc : (((n : Int) - 1 : Int) : Rat) = ((n - 1 : Nat) : Rat) := by
      have : ((n - 1 : Nat) : Int) = (n : Int) - 1 := by omega
      rw [← this]; simp
    simp [hc]

/-- `np.arange(0, L, d)` for `d > 0` is the model's `arange` -/
theorem arange0_eq (L d : Rat) (hd : 0 < d) : Py.arange0 L d = some (Resample.arange L d) := by
  simp [Py.arange0, hd, Resample.arange, Fld.ceil, Fld.div, Fld.ofInt]

theorem fdiv_eq (a b : Rat) (hb : 0 < b) : Py.fdiv a b = some (a / b) := by
  simp [Py.fdiv, hb, Fld.div]


/-! ### 2-d arrays -/

/-- the four columns of an `(N, 4)` array given by its rows -/
def colsOf (rows : List (List Rat)) : List (List Rat) :=
  [rows.map (·.getD 0 0), rows.map (·.getD 1 0), rows.map (·.getD 2 0), rows.map (·.getD 3 0)]
/-- the `(n, k)` array with the given `k` columns (each of length `n`), by rows -/
def rowsOf (cols : List (List Rat)) (n : Nat) : List (List Rat) := (List.range n).map fun i => cols.map (·.getD i 0)

theorem col_nat (rows : List (List Rat)) (j : Nat) (h : ∀ r ∈ rows, j < r.length) :
    Py.col rows (j : Int) = some (rows.map (·.getD j 0)) :=
  mapOpt_total _ _ rows (fun r hr => idx_nat_getD r j 0 (h r hr))

theorem transpose2_cols (cols : List (List Rat)) (n : Nat) (h : ∀ c ∈ cols, c.length = n) (hne : cols ≠ []) :
    Py.transpose2 cols = some (rowsOf cols n) := by
  cases cols with
  | nil => exact absurd rfl hne
  | cons c cs =>
    have hc : c.length = n := h c List.mem_cons_self
    have hall : (cs.all fun r' => decide (r'.length = c.length)) = true := by
      simp only [List.all_eq_true, decide_eq_true_eq]
      intro r hr; rw [hc]; exact h r (List.mem_cons_of_mem _ hr)
    simp only [Py.transpose2, hall, if_true, rowsOf]
    rw [hc]
    congr 1
    apply List.map_congr_left
    intro i hi
    have hi' : i < n := List.mem_range.mp hi
    generalize (c :: cs) = l at h
    induction l with
    | nil => rfl
    | cons a t ih =>
      have ha : a.length = n := h a List.mem_cons_self
      have : a[i]? = some (a.getD i 0) := by
        rw [List.getD_eq_getElem?_getD, List.getElem?_eq_getElem (by omega)]; rfl
      simp only [List.filterMap_cons, this, List.map_cons]
      rw [ih (fun x hx => h x (List.mem_cons_of_mem _ hx))]

theorem stack1_cols (cols : List (List Rat)) (n : Nat) (h : ∀ c ∈ cols, c.length = n) (hne : cols ≠ []) :
    Py.stack1 cols = some (rowsOf cols n) := by
  cases cols with
  | nil => exact absurd rfl hne
  | cons c cs => simp only [Py.stack1, List.isEmpty_cons, Bool.false_eq_true, if_false]; exact transpose2_cols _ n h hne

theorem interp_length (xs xp fp : List Rat) : (Resample.interp xs xp fp).length = xs.length := by
  simp [Resample.interp]

theorem linspace_length (L : Rat) (n : Nat) : (Resample.linspace L n).length = n := by
  unfold Resample.linspace; split <;> simp

/-! ## Part 2: refinement -/
open Gen.Algo

/-- **`BranchLinearResampler.resample` as translated from the source equals the model `Resample.linearResample`**: for every `(N, 4)` array
(by rows), segment lengths `lens` (one per consecutive pair of rows, `≥ 0`) and every point count `n ≥ 0`, the generated function returns —
without raising — the `(n, 4)` array whose columns are the model's resampled columns. -/
theorem linResample_refines (rows : List (List Rat)) (lens : List Rat) (n : Nat)
    (hrow : ∀ r ∈ rows, r.length = 4) (hlen : lens.length + 1 = rows.length) (hpos : ∀ l ∈ lens, 0 ≤ l) :
    lin_resample ratFld rows lens (n : Int) = some (rowsOf (linearResample lens (colsOf rows) n) n) := by
  have hne : cumdist lens ≠ [] := by intro h; have := cumdist_length lens; rw [h] at this; simp at this
  have hc : ∀ j : Nat, j < 4 → Py.col rows (j : Int) = some (rows.map (·.getD j 0)) :=
    fun j hj => col_nat rows j (fun r hr => by rw [hrow r hr]; exact hj)
  have hc0 : Py.col rows (0 : Int) = some (rows.map (·.getD 0 0)) := hc 0 (by omega)
  have hc1 : Py.col rows (1 : Int) = some (rows.map (·.getD 1 0)) := hc 1 (by omega)
  have hc2 : Py.col rows (2 : Int) = some (rows.map (·.getD 2 0)) := hc 2 (by omega)
  have hc3 : Py.col rows (3 : Int) = some (rows.map (·.getD 3 0)) := hc 3 (by omega)
  have hi : ∀ (xs : List Rat) (j : Nat), Py.interp xs (cumdist lens) (rows.map (·.getD j 0)) =
      some (Resample.interp xs (cumdist lens) (rows.map (·.getD j 0))) :=
    fun xs j => interp_eq xs _ _ (by rw [cumdist_length, List.length_map, hlen]) hne (nondecr_cumdist lens hpos)
  simp only [lin_resample, lin_resample.body, seq, Py.bind, npInsert_zero, cumsumK_cumdist, idx_last _ (0 : Rat) hne, linspace0_eq,
    hc0, hc1, hc2, hc3, hi, finish, Option.map]
  rw [stack1_cols _ n (by simp [interp_length, linspace_length]) (by simp)]
  simp [linearResample, colsOf]

end RefineResample
