import SwcVerif.Gen.AlgoResample
import SwcVerif.Model.Resample
import SwcVerif.Refine.PyArrays
import SwcVerif.Props.C16
import Mathlib.Algebra.Order.Field.Rat
import Mathlib.Algebra.Order.Floor.Ring
import Mathlib.Tactic.Linarith
import Mathlib.Tactic.Ring
/-! # C16: the GENERATED resamplers and smoother (`Gen/AlgoResample.lean`, translated from `swcgeom/transforms/branch.py` on every run)
equal the hand-written models of `Model/Resample.lean`

Part 1: specification lemmas of the numpy / scipy semantics `Model/PyResample.lean` at `K = Rat`: each library function is the model function
it stands for (`cumsumK`/`cumdist`, `linspace0`/`linspace`, `arange0`/`arange`, `interp`/`interp`, `convolveSame`/`convSame`).
Part 2: the refinement theorems `linResample_refines`, `isoResample_refines`, `convSmooth_refines`. -/
namespace RefineResample
open Py Resample

/-! ## Part 1: the library functions at `Rat` -/

theorem cumsumFrom_cumdist : ∀ (l : List Rat) (acc : Rat), acc :: cumsumFrom acc l = (cumdist l).map (acc + ·)
  | [], acc => by simp [cumsumFrom, cumdist]
  | x :: xs, acc => by
    have ih := cumsumFrom_cumdist xs (acc + x)
    simp only [cumsumFrom, cumdist, List.map_cons, List.map_map, add_zero]
    rw [ih]
    congr 1
    apply List.map_congr_left
    intro y _
    simp only [Function.comp]
    ring

/-- `np.concatenate([[0], np.cumsum(lens)])` / `np.insert(np.cumsum(lens), 0, 0)` are the model's arc-length positions -/
theorem cumsumK_cumdist (l : List Rat) : (0 : Rat) :: cumsumK l = cumdist l := by
  rw [cumsumK, cumsumFrom_cumdist]
  simp

theorem npInsert_zero {α : Type} (a : List α) (x : α) : npInsert a (0 : Int) x = some (x :: a) := by
  simp [npInsert]

theorem nondecr_cumsumFrom : ∀ (l : List Rat) (acc : Rat), (∀ x ∈ l, 0 ≤ x) → nondecr (acc :: cumsumFrom acc l) = true
  | [], _, _ => by simp [cumsumFrom, nondecr]
  | x :: xs, acc, h => by
    have h0 : 0 ≤ x := h x List.mem_cons_self
    have ih := nondecr_cumsumFrom xs (acc + x) (fun y hy => h y (List.mem_cons_of_mem _ hy))
    simp only [cumsumFrom, nondecr, ih, Bool.and_true, decide_eq_true_eq]
    linarith

theorem nondecr_cumdist (l : List Rat) (h : ∀ x ∈ l, 0 ≤ x) : nondecr (cumdist l) = true := by
  rw [← cumsumK_cumdist]; exact nondecr_cumsumFrom l 0 h

theorem cumdist_length (l : List Rat) : (cumdist l).length = l.length + 1 := by
  induction l with
  | nil => rfl
  | cons x xs ih => simp [cumdist, ih]

theorem idx_last {α : Type} (l : List α) (d : α) (h : l ≠ []) : idx l (-(1 : Int)) = some (l.getLastD d) := by
  cases l with
  | nil => exact absurd rfl h
  | cons a t =>
    have h1 : normIdx (a :: t).length (-(1 : Int)) = some t.length := by
      simp [normIdx]
    simp only [idx, h1, List.getLastD_cons]
    rw [List.getLastD_eq_getLast?, List.getLast?_eq_getElem?]
    cases t with
    | nil => simp
    | cons b t' => simp

/-- the scan of `np.interp` is the model's scan (`xa ≤ x`) -/
theorem interpGo_eq (x : Rat) : ∀ (xr fr : List Rat) (xa fa : Rat), xa ≤ x →
    interpGo x xa fa xr fr = Resample.interp1.go x xa fa xr fr
  | [], _, _, _, _ => by simp [interpGo, Resample.interp1.go]
  | _ :: _, [], _, _, _ => by simp [interpGo, Resample.interp1.go]
  | xb :: xr, fb :: fr, xa, fa, h => by
    simp only [interpGo, Resample.interp1.go]
    by_cases hx : x < xb
    · simp only [hx, if_true]
      by_cases hxa : xa < x
      · simp only [hxa, if_true, Fld.div]; ring
      · have : x = xa := le_antisymm (not_lt.mp hxa) h
        simp [this]
    · simp only [hx, if_false]
      exact interpGo_eq x xr fr xb fb (not_lt.mp hx)

theorem interp1_eq (xp fp : List Rat) (x : Rat) : Py.interp1 xp fp x = Resample.interp1 xp fp x := by
  cases xp with
  | nil => simp [Py.interp1, Resample.interp1]
  | cons x0 xr =>
    cases fp with
    | nil => simp [Py.interp1, Resample.interp1]
    | cons f0 fr =>
      simp only [Py.interp1, Resample.interp1]
      by_cases h : x < x0
      · simp [h]
      · simp only [h, if_false]; exact interpGo_eq x xr fr x0 f0 (not_lt.mp h)

/-- `np.interp` on sample points of equal number, non-empty and non-decreasing, is the model's `interp` -/
theorem interp_eq (xs xp fp : List Rat) (hl : xp.length = fp.length) (hne : xp ≠ []) (hm : nondecr xp = true) :
    Py.interp xs xp fp = some (Resample.interp xs xp fp) := by
  simp only [Py.interp, hl, hne, hm, ne_eq, not_false_eq_true, and_self, if_true, Resample.interp]
  congr 1
  apply List.map_congr_left
  intro x _
  exact interp1_eq xp fp x

/-- `np.linspace(0, L, n)` is the model's `linspace` -/
theorem linspace0_eq (L : Rat) (n : Nat) : Py.linspace0 L (n : Int) = some (Resample.linspace L n) := by
  have h0 : ¬ ((n : Int) < 0) := by omega
  simp only [Py.linspace0, h0, if_false, Resample.linspace, Int.toNat_natCast]
  by_cases h1 : n ≤ 1
  · have : (n : Int) ≤ 1 := by omega
    simp [h1, this]
  · have : ¬ (n : Int) ≤ 1 := by omega
    simp only [h1, this, if_false, Fld.ofInt, Fld.div]
    congr 1
    apply List.map_congr_left
    intro i _
    have hc : (((n : Int) - 1 : Int) : Rat) = ((n - 1 : Nat) : Rat) := by
      have : ((n - 1 : Nat) : Int) = (n : Int) - 1 := by omega
      rw [← this]; simp
    simp [hc]

/-- `np.arange(0, L, d)` for `d > 0` is the model's `arange` -/
theorem arange0_eq (L d : Rat) (hd : 0 < d) : Py.arange0 L d = some (Resample.arange L d) := by
  simp [Py.arange0, hd, Resample.arange, Fld.ceil, Fld.div, Fld.ofInt]

theorem fdiv_eq (a b : Rat) (hb : 0 < b) : Py.fdiv a b = some (a / b) := by
  simp [Py.fdiv, hb, Fld.div]


/-! ### 2-d arrays -/

/-- the four columns of an `(N, 4)` array given by its rows -/
def colsOf (rows : List (List Rat)) : List (List Rat) :=
  [rows.map (·.getD 0 0), rows.map (·.getD 1 0), rows.map (·.getD 2 0), rows.map (·.getD 3 0)]
/-- the `(n, k)` array with the given `k` columns (each of length `n`), by rows -/
def rowsOf (cols : List (List Rat)) (n : Nat) : List (List Rat) := (List.range n).map fun i => cols.map (·.getD i 0)

theorem col_nat (rows : List (List Rat)) (j : Nat) (h : ∀ r ∈ rows, j < r.length) :
    Py.col rows (j : Int) = some (rows.map (·.getD j 0)) :=
  mapOpt_total _ _ rows (fun r hr => idx_nat_getD r j 0 (h r hr))

theorem transpose2_cols (cols : List (List Rat)) (n : Nat) (h : ∀ c ∈ cols, c.length = n) (hne : cols ≠ []) :
    Py.transpose2 cols = some (rowsOf cols n) := by
  cases cols with
  | nil => exact absurd rfl hne
  | cons c cs =>
    have hc : c.length = n := h c List.mem_cons_self
    have hall : (cs.all fun r' => decide (r'.length = c.length)) = true := by
      simp only [List.all_eq_true, decide_eq_true_eq]
      intro r hr; rw [hc]; exact h r (List.mem_cons_of_mem _ hr)
    simp only [Py.transpose2, hall, if_true, rowsOf]
    rw [hc]
    congr 1
    apply List.map_congr_left
    intro i hi
    have hi' : i < n := List.mem_range.mp hi
    generalize (c :: cs) = l at h
    induction l with
    | nil => rfl
    | cons a t ih =>
      have ha : a.length = n := h a List.mem_cons_self
      have : a[i]? = some (a.getD i 0) := by
        rw [List.getD_eq_getElem?_getD, List.getElem?_eq_getElem (by omega)]; rfl
      simp only [List.filterMap_cons, this, List.map_cons]
      rw [ih (fun x hx => h x (List.mem_cons_of_mem _ hx))]

theorem stack1_cols (cols : List (List Rat)) (n : Nat) (h : ∀ c ∈ cols, c.length = n) (hne : cols ≠ []) :
    Py.stack1 cols = some (rowsOf cols n) := by
  cases cols with
  | nil => exact absurd rfl hne
  | cons c cs => simp only [Py.stack1, List.isEmpty_cons, Bool.false_eq_true, if_false]; exact transpose2_cols _ n h hne

theorem interp_length (xs xp fp : List Rat) : (Resample.interp xs xp fp).length = xs.length := by
  simp [Resample.interp]

theorem linspace_length (L : Rat) (n : Nat) : (Resample.linspace L n).length = n := by
  unfold Resample.linspace; split <;> simp

/-! ## Part 2: refinement -/
open Gen.Algo

/-- **`BranchLinearResampler.resample` as translated from the source equals the model `Resample.linearResample`**: for every `(N, 4)` array
(by rows), segment lengths `lens` (one per consecutive pair of rows, `≥ 0`) and every point count `n ≥ 0`, the generated function returns —
without raising — the `(n, 4)` array whose columns are the model's resampled columns. -/
theorem linResample_refines (rows : List (List Rat)) (lens : List Rat) (n : Nat)
    (hrow : ∀ r ∈ rows, r.length = 4) (hlen : lens.length + 1 = rows.length) (hpos : ∀ l ∈ lens, 0 ≤ l) :
    lin_resample ratFld rows lens (n : Int) = some (rowsOf (linearResample lens (colsOf rows) n) n) := by
  have hne : cumdist lens ≠ [] := by intro h; have := cumdist_length lens; rw [h] at this; simp at this
  have hc : ∀ j : Nat, j < 4 → Py.col rows (j : Int) = some (rows.map (·.getD j 0)) :=
    fun j hj => col_nat rows j (fun r hr => by rw [hrow r hr]; exact hj)
  have hc0 : Py.col rows (0 : Int) = some (rows.map (·.getD 0 0)) := hc 0 (by omega)
  have hc1 : Py.col rows (1 : Int) = some (rows.map (·.getD 1 0)) := hc 1 (by omega)
  have hc2 : Py.col rows (2 : Int) = some (rows.map (·.getD 2 0)) := hc 2 (by omega)
  have hc3 : Py.col rows (3 : Int) = some (rows.map (·.getD 3 0)) := hc 3 (by omega)
  have hi : ∀ (xs : List Rat) (j : Nat), Py.interp xs (cumdist lens) (rows.map (·.getD j 0)) =
      some (Resample.interp xs (cumdist lens) (rows.map (·.getD j 0))) :=
    fun xs j => interp_eq xs _ _ (by rw [cumdist_length, List.length_map, hlen]) hne (nondecr_cumdist lens hpos)
  simp only [lin_resample, lin_resample.body, seq, Py.bind, npInsert_zero, cumsumK_cumdist, idx_last _ (0 : Rat) hne, linspace0_eq,
    hc0, hc1, hc2, hc3, hi, finish, Option.map]
  rw [stack1_cols _ n (by simp [interp_length, linspace_length]) (by simp)]
  simp [linearResample, colsOf]


/-! ### the isometric resampler -/

theorem zipWithOpt_map {ι α β γ : Type} (f : α → β → Option γ) (a : ι → α) (b : ι → β) (c : ι → γ) :
    ∀ l : List ι, (∀ x ∈ l, f (a x) (b x) = some (c x)) → zipWithOpt f (l.map a) (l.map b) = some (l.map c)
  | [], _ => rfl
  | x :: xs, h => by
    simp only [List.map_cons, zipWithOpt, h x List.mem_cons_self,
      zipWithOpt_map f a b c xs (fun y hy => h y (List.mem_cons_of_mem _ hy))]

theorem eq_range_map (l : List Rat) (n : Nat) (h : l.length = n) : l = (List.range n).map (l.getD · 0) := by
  subst h
  apply List.ext_getElem
  · simp
  · intro i h1 h2
    simp [List.getD_eq_getElem?_getD, List.getElem?_eq_getElem h1]

theorem setColBlock_zero (n : Nat) (A : Nat → List Rat) (hA : ∀ i < n, (A i).length = 3) :
    setColBlock (List.replicate n (List.replicate 4 (0 : Rat))) 3 ((List.range n).map A) = some ((List.range n).map fun i => A i ++ [0]) := by
  have hb : broadcastRows ((List.range n).map A) (List.replicate n (List.replicate 4 (0 : Rat))).length = some ((List.range n).map A) := by
    simp [broadcastRows, broadcastTo]
  have hr : List.replicate n (List.replicate 4 (0 : Rat)) = (List.range n).map (fun _ => List.replicate 4 (0 : Rat)) := by
    simp [List.map_const']
  rw [setColBlock, hb, Option.bind_some, hr]
  apply zipWithOpt_map
  intro i hi
  have h3 := hA i (List.mem_range.mp hi)
  simp [broadcastTo, h3, List.replicate]

theorem setCol_three (n : Nat) (B : Nat → List Rat) (x : Nat → Rat) (hB : ∀ i < n, (B i).length = 4) :
    setCol ((List.range n).map B) (3 : Int) ((List.range n).map x) = some ((List.range n).map fun i => (B i).set 3 (x i)) := by
  have hb : broadcastRows ((List.range n).map x) ((List.range n).map B).length = some ((List.range n).map x) := by
    simp [broadcastRows, broadcastTo]
  rw [setCol, hb, Option.bind_some]
  apply zipWithOpt_map
  intro i hi
  exact setIdx_nat (B i) 3 (x i) (by rw [hB i (List.mem_range.mp hi)]; omega)

theorem range3 : Py.range (3 : Int) = [0, 1, 2] := by decide

theorem lastD_nonneg (lens : List Rat) (hpos : ∀ l ∈ lens, 0 ≤ l) : 0 ≤ (cumdist lens).getLastD 0 := by
  have h := (C16.cumdist_spec lens hpos).2.2.1
  rw [List.getLastD_eq_getLast?, h]
  simp only [Option.getD_some]
  clear h
  induction lens with
  | nil => simp
  | cons a t ih =>
    have := hpos a List.mem_cons_self
    have := ih (fun x hx => hpos x (List.mem_cons_of_mem _ hx))
    simp only [List.sum_cons]; linarith

theorem ceil_count (L d : Rat) (hL : 0 ≤ L) (hd : 0 < d) : (L / d).ceil + 1 = ((isoCount L d : Nat) : Int) := by
  have : (-1 : Int) < (L / d).ceil := Rat.lt_ceil_iff.mpr (by have := div_nonneg hL hd.le; push_cast; linarith)
  unfold isoCount; omega

theorem isoPositions_length (L d : Rat) (adj : Bool) : (isoPositions L d adj).length = isoCount L d := by
  unfold isoPositions
  simp only []
  split
  · exact linspace_length _ _
  · simp [Resample.arange, isoCount]

theorem setColBlock_xyz (N : Nat) (X Y Z : List Rat) :
    setColBlock (List.replicate N (List.replicate 4 (0 : Rat))) 3 (rowsOf [X, Y, Z] N) =
      some ((List.range N).map fun i => [X.getD i 0, Y.getD i 0, Z.getD i 0, 0]) := by
  rw [rowsOf, setColBlock_zero N _ (fun i _ => by simp)]
  simp

theorem setCol_r (N : Nat) (X Y Z R : List Rat) (hR : R.length = N) :
    setCol ((List.range N).map fun i => [X.getD i 0, Y.getD i 0, Z.getD i 0, 0]) (3 : Int) R = some (rowsOf [X, Y, Z, R] N) := by
  conv => lhs; rw [eq_range_map R N hR]
  rw [setCol_three N _ _ (fun i _ => by simp)]
  simp [rowsOf]

/-- **`BranchIsometricResampler.resample` as translated from the source equals the model `Resample.isoResample`**: for every `(N, 4)` array
(by rows), segment lengths `lens` (one per consecutive pair of rows, `≥ 0`), every spacing `d > 0` and both values of `adjust_last_gap`, the
generated function returns — without raising — the `(⌈L/d⌉ + 1, 4)` array whose columns are the model's resampled columns. -/
theorem isoResample_refines (rows : List (List Rat)) (lens : List Rat) (d : Rat) (adj : Bool)
    (hrow : ∀ r ∈ rows, r.length = 4) (hlen : lens.length + 1 = rows.length) (hpos : ∀ l ∈ lens, 0 ≤ l) (hd : 0 < d) :
    iso_resample ratFld rows lens d adj =
      some (rowsOf (isoResample lens (colsOf rows) d adj) (isoCount ((cumdist lens).getLastD 0) d)) := by
  have hne : cumdist lens ≠ [] := by intro h; have := cumdist_length lens; rw [h] at this; simp at this
  have hc : ∀ j : Nat, j < 4 → Py.col rows (j : Int) = some (rows.map (·.getD j 0)) :=
    fun j hj => col_nat rows j (fun r hr => by rw [hrow r hr]; exact hj)
  have hc0 : Py.col rows (0 : Int) = some (rows.map (·.getD 0 0)) := hc 0 (by omega)
  have hc1 : Py.col rows (1 : Int) = some (rows.map (·.getD 1 0)) := hc 1 (by omega)
  have hc2 : Py.col rows (2 : Int) = some (rows.map (·.getD 2 0)) := hc 2 (by omega)
  have hc3 : Py.col rows (3 : Int) = some (rows.map (·.getD 3 0)) := hc 3 (by omega)
  have hi : ∀ (xs : List Rat) (j : Nat), Py.interp xs (cumdist lens) (rows.map (·.getD j 0)) =
      some (Resample.interp xs (cumdist lens) (rows.map (·.getD j 0))) :=
    fun xs j => interp_eq xs _ _ (by rw [cumdist_length, List.length_map, hlen]) hne (nondecr_cumdist lens hpos)
  have hR : isoResample lens (colsOf rows) d adj =
      (colsOf rows).map (Resample.interp (isoPositions ((cumdist lens).getLastD 0) d adj) (cumdist lens)) := rfl
  rw [hR]
  generalize hL : (cumdist lens).getLastD 0 = L
  have hL0 : 0 ≤ L := hL ▸ lastD_nonneg lens hpos
  have hcnt : Fld.ceil (L / d) + 1 = ((isoCount L d : Nat) : Int) := ceil_count L d hL0 hd
  have hfull : full2 ((isoCount L d : Nat) : Int) (4 : Int) (0 : Rat) = some (List.replicate (isoCount L d) (List.replicate 4 0)) :=
    full2_nat (isoCount L d) 4 0
  have hcond : (adj && decide (((isoCount L d : Nat) : Int) > 1)) = (adj && decide (isoCount L d > 1)) := by
    congr 1; simp only [gt_iff_lt, decide_eq_decide]; omega
  have hplen := isoPositions_length L d adj
  have hil : ∀ fp, (Resample.interp (isoPositions L d adj) (cumdist lens) fp).length = isoCount L d :=
    fun fp => by rw [interp_length, hplen]
  have htr := fun (X Y Z : List Rat) (h : ∀ c ∈ [X, Y, Z], c.length = isoCount L d) => transpose2_cols [X, Y, Z] (isoCount L d) h (by simp)
  by_cases hb : (adj && decide (isoCount L d > 1)) = true
  · have hp : Resample.linspace L (isoCount L d) = isoPositions L d adj := by simp [isoPositions, hb]
    simp only [iso_resample, iso_resample.body, iso_resample.for1, seq, Py.bind, Py.bindS, List.cons_append, List.nil_append, cumsumK_cumdist,
      idx_last _ (0 : Rat) hne, hL, fdiv_eq _ _ hd, hcnt, hcond, hb, if_true, linspace0_eq, hp, hfull, range3, forEach, hc0, hc1, hc2, hi]
    rw [htr _ _ _ (by simp [hil])]
    simp only [setColBlock_xyz, hc3, hi, setCol_r _ _ _ _ _ (hil _), finish, Option.map, colsOf, List.map_cons, List.map_nil]
  · have hp : Resample.arange L d ++ [L] = isoPositions L d adj := by simp [isoPositions, hb]
    simp only [iso_resample, iso_resample.body, iso_resample.for1, seq, Py.bind, Py.bindS, List.cons_append, List.nil_append, cumsumK_cumdist,
      idx_last _ (0 : Rat) hne, hL, fdiv_eq _ _ hd, hcnt, hcond, hb, arange0_eq L d hd, hp, hfull, range3, forEach, hc0, hc1, hc2, hi,
      Bool.false_eq_true, if_false]
    rw [htr _ _ _ (by simp [hil])]
    simp only [setColBlock_xyz, hc3, hi, setCol_r _ _ _ _ _ (hil _), finish, Option.map, colsOf, List.map_cons, List.map_nil]

/-! ### the smoother -/

theorem foldl_congr_mem {α β : Type} (f g : β → α → β) : ∀ (l : List α) (b : β), (∀ b, ∀ a ∈ l, f b a = g b a) → l.foldl f b = l.foldl g b
  | [], _, _ => rfl
  | a :: t, b, h => by
    simp only [List.foldl_cons, h b a List.mem_cons_self]
    exact foldl_congr_mem f g t _ (fun b' a' ha' => h b' a' (List.mem_cons_of_mem _ ha'))

/-- an entry of the full convolution with the kernel `np.ones(k)` is the model's window sum -/
theorem convFull_ones (v : List Rat) (k i : Nat) (hk : 1 ≤ k) :
    convFull v (List.replicate k (1 : Rat)) (i + (k - 1) / 2) = convSame v k i := by
  unfold convFull convSame
  apply foldl_congr_mem
  intro acc j _
  simp only [List.length_replicate]
  have e : (default : Rat) = 0 := rfl
  split_ifs with h1 h2 h2
  · have : (List.replicate k (1 : Rat)).getD (i + (k - 1) / 2 - j) default = 1 := by
      simp [List.getD_eq_getElem?_getD, h1.2]
    rw [this, e, mul_one]
  · exfalso; omega
  · exfalso; omega
  · rfl

theorem convolveSame_ones (v : List Rat) (k : Nat) (hk : 1 ≤ k) :
    convolveSame v (List.replicate k (1 : Rat)) = (List.range v.length).map fun i => convSame v k i := by
  unfold convolveSame
  cases v with
  | nil => simp
  | cons a t =>
    have : (List.replicate k (1 : Rat)).isEmpty = false := by cases k with | zero => omega | succ m => rfl
    simp only [List.isEmpty_cons, this, Bool.or_self, Bool.false_eq_true, if_false, List.length_replicate]
    apply List.map_congr_left
    intro i _
    exact convFull_ones _ k i hk


theorem foldl_cond_ge (p : Nat → Prop) [DecidablePred p] (f : Nat → Rat) (hf : ∀ a, 0 ≤ f a) :
    ∀ (l : List Nat) (b : Rat), b ≤ l.foldl (fun acc a => if p a then acc + f a else acc) b
  | [], b => le_refl b
  | a :: t, b => by
    simp only [List.foldl_cons]
    refine le_trans ?_ (foldl_cond_ge p f hf t _)
    split_ifs
    · have := hf a; linarith
    · exact le_refl b

theorem foldl_cond_pos (p : Nat → Prop) [DecidablePred p] (f : Nat → Rat) (hf : ∀ a, 0 ≤ f a) (a0 : Nat) (hp : p a0) (h0 : 0 < f a0) :
    ∀ (l : List Nat) (b : Rat), a0 ∈ l → b < l.foldl (fun acc a => if p a then acc + f a else acc) b
  | [], _, h => by simp at h
  | a :: t, b, h => by
    simp only [List.foldl_cons]
    rcases List.mem_cons.mp h with rfl | h'
    · rw [if_pos hp]
      exact lt_of_lt_of_le (by linarith) (foldl_cond_ge p f hf t _)
    · refine lt_of_le_of_lt ?_ (foldl_cond_pos p f hf a0 hp h0 t _ h')
      split_ifs
      · have := hf a; linarith
      · exact le_refl b

/-- the window of every node contains the node itself: the divisor `c` of the smoother is positive -/
theorem convSame_ones_pos (n k i : Nat) (hk : 1 ≤ k) (hi : i < n) : 0 < convSame (List.replicate n (1 : Rat)) k i := by
  unfold convSame
  simp only [List.length_replicate]
  apply foldl_cond_pos (fun a => ((i : Int) + ((k - 1) / 2 : Nat)) - (k : Int) + 1 ≤ (a : Int) ∧ (a : Int) ≤ (i : Int) + ((k - 1) / 2 : Nat))
    (fun a => (List.replicate n (1 : Rat)).getD a 0) _ i
  · omega
  · simp [List.getD_eq_getElem?_getD, hi]
  · exact List.mem_range.mpr hi
  · intro a
    simp only [List.getD_eq_getElem?_getD, List.getElem?_replicate]
    split_ifs <;> simp

theorem divArr_pos (n : Nat) (A B : Nat → Rat) (hB : ∀ i < n, 0 < B i) :
    divArr ((List.range n).map A) ((List.range n).map B) = some ((List.range n).map fun i => A i / B i) := by
  simp only [divArr, List.length_map, if_true, List.zip_map']
  rw [mapOpt_total _ (fun p => p.1 / p.2)]
  · simp
  · intro p hp
    obtain ⟨i, hi, rfl⟩ := List.mem_map.mp hp
    exact fdiv_eq _ _ (hB i (List.mem_range.mp hi))

/-- `a[1:-1] = q[1:-1]` on arrays of equal length `n ≥ 2` -/
theorem setSlice_inner (col q : List Rat) (n : Nat) (hn : 2 ≤ n) (hc : col.length = n) (hq : q.length = n) :
    setSlice col (some (1 : Int)) (some (-1 : Int)) (slice q (some (1 : Int)) (some (-(1 : Int)))) =
      some ((List.range n).map fun i => if i = 0 ∨ i + 1 = n then col.getD i 0 else q.getD i 0) := by
  have hs : sliceBound n (1 : Int) = 1 := by simp [sliceBound]; omega
  have he : sliceBound n (-1 : Int) = n - 1 := by simp [sliceBound]; omega
  have hlen : ((q.take (n - 1)).drop 1).length = n - 1 - 1 := by simp [hq]
  simp only [setSlice, slice, hc, hq, hs, he, broadcastTo, hlen, if_true, Option.map_some, show 1 ≤ n - 1 by omega]
  congr 1
  apply List.ext_getElem
  · simp [hc]; omega
  · intro i h1 h2
    simp only [List.length_map, List.length_range] at h2
    simp only [List.getElem_map, List.getElem_range, List.getD_eq_getElem?_getD]
    rw [List.getElem?_eq_getElem (by omega), List.getElem?_eq_getElem (by omega)]
    simp only [Option.getD_some, List.getElem_append, List.length_take, List.length_drop, List.length_append, hc, hq]
    split_ifs <;> first | omega | (simp only [List.getElem_take, List.getElem_drop]; done) | (simp only [List.getElem_take, List.getElem_drop]; congr 1; omega)


theorem getD_range_map (n i : Nat) (f : Nat → Rat) (hi : i < n) : ((List.range n).map f).getD i 0 = f i := by
  simp [List.getD_eq_getElem?_getD, hi]

/-- the divisor array `c` of the smoother -/
def cvec (n k : Nat) : List Rat := convolveSame (List.replicate n (1 : Rat)) (List.replicate k (1 : Rat))

theorem convSmooth_eq (col : List Rat) (n k : Nat) (hc : col.length = n) :
    convSmooth col k = (List.range n).map fun i => if i = 0 ∨ i + 1 = n then col.getD i 0
      else convSame col k i / convSame (List.replicate n (1 : Rat)) k i := by
  subst hc
  simp only [convSmooth, List.map_const']

/-- one iteration of `for k in ["x", "y", "z"]` -/
theorem smooth_step (nd : Dict String (List Rat)) (key : String) (col : List Rat) (n k : Nat) (hk : 1 ≤ k) (hn : 2 ≤ n)
    (hcol : col.length = n) (hget : Dict.get? nd key = some col) (nI : Int) (k0 : String) (vv ss : List Rat) :
    conv_smooth.for1 ratFld key ⟨nd, nI, List.replicate k 1, cvec n k, k0, vv, ss⟩ =
      .next ⟨Dict.set nd key (convSmooth col k), nI, List.replicate k 1, cvec n k, key, col, convolveSame col (List.replicate k 1)⟩ := by
  have hdiv : divArr (convolveSame col (List.replicate k 1)) (cvec n k) =
      some ((List.range n).map fun i => convSame col k i / convSame (List.replicate n (1 : Rat)) k i) := by
    rw [cvec, convolveSame_ones _ k hk, convolveSame_ones _ k hk, hcol, List.length_replicate]
    exact divArr_pos n _ _ (fun i hi => convSame_ones_pos n k i hk hi)
  simp only [conv_smooth.for1, seq, Py.bind, hget, hdiv]
  rw [setSlice_inner col _ n hn hcol (by simp)]
  simp only [convSmooth_eq col n k hcol]
  congr 3
  apply List.map_congr_left
  intro i hi
  rw [getD_range_map n i _ (List.mem_range.mp hi)]

/-- **`BranchConvSmoother.__call__` as translated from the source equals the model `Resample.convSmooth` on the three coordinate columns**:
for every branch of `n ≥ 2` nodes given by the dictionary of its columns (`x`, `y`, `z` of length `n`; any further columns) and every window
`np.ones(k)`, `k ≥ 1`, the generated function returns — without raising — the dictionary in which `x`, `y`, `z` are replaced by the model's
smoothed columns and nothing else is changed. -/
theorem convSmooth_refines (nd : Dict String (List Rat)) (xs ys zs : List Rat) (n k : Nat) (hk : 1 ≤ k) (hn : 2 ≤ n)
    (hx : Dict.get? nd "x" = some xs) (hy : Dict.get? nd "y" = some ys) (hz : Dict.get? nd "z" = some zs)
    (hxl : xs.length = n) (hyl : ys.length = n) (hzl : zs.length = n) :
    conv_smooth ratFld nd (n : Int) (List.replicate k 1) =
      some (Dict.set (Dict.set (Dict.set nd "x" (convSmooth xs k)) "y" (convSmooth ys k)) "z" (convSmooth zs k), ()) := by
  have hy' : Dict.get? (Dict.set nd "x" (convSmooth xs k)) "y" = some ys := by rw [Dict.get?_set, if_neg (by decide), hy]
  have hz' : Dict.get? (Dict.set (Dict.set nd "x" (convSmooth xs k)) "y" (convSmooth ys k)) "z" = some zs := by
    rw [Dict.get?_set, if_neg (by decide), Dict.get?_set, if_neg (by decide), hz]
  simp only [conv_smooth, conv_smooth.body, seq, Py.bind, full_nat, forEach]
  rw [show convolveSame (List.replicate n (1 : Rat)) (List.replicate k 1) = cvec n k from rfl]
  rw [smooth_step nd "x" xs n k hk hn hxl hx]
  simp only []
  rw [smooth_step _ "y" ys n k hk hn hyl hy']
  simp only []
  rw [smooth_step _ "z" zs n k hk hn hzl hz']
  simp [finish]

end RefineResample
