import SwcVerif.Refine.CtorInit
/-! Refinement for `Tree.from_data_frame` as translated (`Gen/AlgoCtorInit.lean`): the columns are gathered in the order "standard names, then the
frame's other columns" and handed to the translated constructor. -/
namespace RefineCtorInit
open Gen.Algo Py

/-- `{k: df[k].to_numpy() for k in cols}` (`none` = KeyError) -/
def gatherCols (df : Dict String Arr) : List String → Dict String Arr → Option (Dict String Arr)
  | [], acc => some acc
  | k :: ks, acc => (Dict.get? df k).bind fun a => gatherCols df ks (Dict.set acc k a)

/-- the column order of `from_data_frame` -/
def dfCols (df : Dict String Arr) : List String :=
  STD.map (·.1) ++ (df.map (·.1)).filter fun k => !(STD.map (·.1)).contains k

theorem for1_loop (df : Dict String Arr) : ∀ (ks : List String) (v : from_data_frame.V), v.df = df →
    (∃ D k', gatherCols df ks v.c0_ = some D ∧ Py.forEach from_data_frame.for1 ks v = .next { v with c0_ := D, k := k' }) ∨
    (gatherCols df ks v.c0_ = none ∧ Py.forEach from_data_frame.for1 ks v = .err) := by
  intro ks
  induction ks with
  | nil => intro v _; exact Or.inl ⟨v.c0_, v.k, rfl, rfl⟩
  | cons k ks ih =>
    intro v hv
    simp only [gatherCols, Py.forEach, from_data_frame.for1, Py.bind]
    cases hg : Dict.get? df k with
    | none =>
      have hg' : Dict.get? v.df k = none := hv ▸ hg
      right; simp [hg']
    | some a =>
      have hg' : Dict.get? v.df k = some a := hv ▸ hg
      simp only [hg', Option.bind_some]
      rcases ih { v with k := k, c0_ := Dict.set v.c0_ k a } hv with ⟨D, k', h1, h2⟩ | ⟨h1, h2⟩
      · exact Or.inl ⟨D, k', h1, by rw [h2]⟩
      · exact Or.inr ⟨h1, by rw [h2]⟩

/-- **`Tree.from_data_frame(df)` as translated** = the translated constructor on the gathered columns (row count `n`) -/
theorem from_data_frame_eq (h : Bufs) (df : Dict String Arr) (n : Int) :
    from_data_frame h df n = (gatherCols df (dfCols df) []).bind fun D => (tree_init h n D).map fun r => (r.1, r.2.1) := by
  have hc : (["id", "type", "x", "y", "z", "r", "pid"] ++
      List.filter (fun k_b => !(["id", "type", "x", "y", "z", "r", "pid"] : List String).contains k_b) (df.map (·.1))) = dfCols df := rfl
  simp only [from_data_frame, from_data_frame.body, Py.seq, Py.bindS, hc]
  rcases for1_loop df (dfCols df)
      { (default : from_data_frame.V) with heap := h, df := df, nrows := n, cols := dfCols df, c0_ := [] } rfl with ⟨D, k', h1, h2⟩ | ⟨h1, h2⟩
  · simp only at h1 h2
    rw [h1, h2]
    simp only [Option.bind_some, Py.bind]
    cases tree_init h n D <;> rfl
  · simp only at h1 h2
    rw [h1, h2]; rfl

/-- `tree_init_ok` when `id` and `pid` are handed in: about the caller's own heap and dict -/
theorem tree_init_given (h : Bufs) (n : Int) (kw : Dict String Arr) (hn : 0 ≤ n) (hv : AllValid h kw) (hnd : (kw.map (·.1)).Nodup)
    (h1 : Dict.contains kw "id" = true) (h2 : Dict.contains kw "pid" = true) :
    ∃ hF nd, tree_init h n kw = some (hF, nd, ()) ∧ (∃ ext, hF = h ++ ext) ∧
      (∀ s ∈ STD, ∃ r, Dict.get? nd s.1 = some r ∧ ColOk h hF n (Dict.get? kw s.1) s.2.1 s.2.2 r) ∧
      (∀ k, k ∉ STD.map (·.1) → Dict.get? nd k = Dict.get? kw k) := by
  have hd := defaults_given h n kw h1 h2
  obtain ⟨hF, nd, he, hfr, _, hc, hx⟩ := tree_init_ok h n kw hn (by rw [hd]; exact hv) (by rw [hd]; exact hnd)
  rw [hd] at hfr hc hx
  exact ⟨hF, nd, he, hfr, hc, hx⟩

/-- the value `df[k]` as a total function (the default is never used where it matters) -/
def colOf (df : Dict String Arr) (k : String) : Arr := (Dict.get? df k).getD default

theorem gatherCols_ok (df : Dict String Arr) : ∀ (ks : List String) (acc : Dict String Arr), ks.Nodup →
    (∀ k ∈ ks, k ∉ acc.map (·.1)) → (∀ k ∈ ks, ∃ a, Dict.get? df k = some a) →
    gatherCols df ks acc = some (acc ++ ks.map fun k => (k, colOf df k))
  | [], acc, _, _, _ => by simp [gatherCols]
  | k :: ks, acc, hnd, hdis, hall => by
    simp only [List.nodup_cons] at hnd
    obtain ⟨a, ha⟩ := hall k (by simp)
    have hk : k ∉ acc.map (·.1) := hdis k (by simp)
    have ih := gatherCols_ok df ks (Dict.set acc k a) hnd.2 (by
      intro k2 hk2
      rw [set_fresh acc k a hk]
      simp only [List.map_append, List.map_cons, List.map_nil, List.mem_append, List.mem_singleton, not_or]
      exact ⟨hdis k2 (by simp [hk2]), fun c => hnd.1 (c ▸ hk2)⟩) (fun k2 hk2 => hall k2 (by simp [hk2]))
    simp only [gatherCols, ha, Option.bind_some]
    rw [ih, set_fresh acc k a hk]
    simp [colOf, ha]

theorem dfCols_nodup (df : Dict String Arr) (hnd : (df.map (·.1)).Nodup) : (dfCols df).Nodup := by
  refine List.nodup_append.2 ⟨by decide, hnd.filter _, ?_⟩
  intro a ha b hb hab
  subst hab
  have := (List.mem_filter.1 hb).2
  simp only [Bool.not_eq_true', List.contains_eq_mem, decide_eq_false_iff_not] at this
  exact this ha

theorem get?_some_of_mem (d : Dict String Arr) (k : String) (hk : k ∈ d.map (·.1)) : ∃ a, Dict.get? d k = some a := by
  cases h : Dict.get? d k with
  | some a => exact ⟨a, rfl⟩
  | none =>
    have : Dict.contains d k = true := (Py.Dict.contains_iff d k).2 hk
    simp [Dict.contains, h] at this

/-- **`Tree.from_data_frame(df)` as translated**, for every heap, every frame with distinct column names whose column arrays are valid, containing the
seven standard columns, and every row count `n ≥ 0`: it succeeds, writes no existing buffer, and every standard column of the new tree has the
constructor's dtype, length `n`, the frame's values (cut / padded to `n`), and SHARES STORAGE with the frame's column array exactly when that
array already has the constructor's dtype (int32 / float32) and at least `n` elements — it is then the view `col[:n]`; every other column of the
frame is stored as the frame's own array object. -/
theorem from_data_frame_ok (h : Bufs) (df : Dict String Arr) (n : Int) (hn : 0 ≤ n) (hv : AllValid h df) (hnd : (df.map (·.1)).Nodup)
    (hstd : ∀ k ∈ STD.map (·.1), ∃ a, Dict.get? df k = some a) :
    ∃ hF nd, from_data_frame h df n = some (hF, nd) ∧ (∃ ext, hF = h ++ ext) ∧
      (∀ s ∈ STD, ∃ r, Dict.get? nd s.1 = some r ∧ ColOk h hF n (Dict.get? df s.1) s.2.1 s.2.2 r) ∧
      (∀ k, k ∉ STD.map (·.1) → Dict.get? nd k = Dict.get? df k) := by
  have hall : ∀ k ∈ dfCols df, ∃ a, Dict.get? df k = some a := by
    intro k hk
    rcases List.mem_append.1 hk with c | c
    · exact hstd k c
    · exact get?_some_of_mem df k (List.mem_filter.1 c).1
  have hD := gatherCols_ok df (dfCols df) [] (dfCols_nodup df hnd) (by simp) hall
  simp only [List.nil_append] at hD
  have hkeys : ((dfCols df).map fun k => (k, colOf df k)).map (·.1) = dfCols df := by simp [Function.comp_def]
  -- the gathered dict shows the frame's columns
  have hgetD : ∀ k, Dict.get? ((dfCols df).map fun k => (k, colOf df k)) k = Dict.get? df k := by
    intro k
    by_cases hk : k ∈ dfCols df
    · obtain ⟨a, ha⟩ := hall k hk
      rw [Py.Dict.get?_of_forall _ (colOf df) (by intro p hp; obtain ⟨q, _, rfl⟩ := List.mem_map.1 hp; rfl) k (by rw [hkeys]; exact hk)]
      simp [colOf, ha]
    · rw [Py.Dict.get?_none_of_not_mem _ k (by rw [hkeys]; exact hk)]
      symm
      apply Py.Dict.get?_none_of_not_mem
      intro c
      apply hk
      by_cases cs : k ∈ STD.map (·.1)
      · exact List.mem_append_left _ cs
      · exact List.mem_append_right _ (List.mem_filter.2 ⟨c, by simpa using cs⟩)
  have hvD : AllValid h ((dfCols df).map fun k => (k, colOf df k)) := by
    intro p hp
    obtain ⟨k, hk, rfl⟩ := List.mem_map.1 hp
    obtain ⟨a, ha⟩ := hall k hk
    have : colOf df k = a := by simp [colOf, ha]
    rw [this]
    exact hv (k, a) (get?_mem df k a ha)
  have hc : ∀ k ∈ STD.map (·.1), Dict.contains ((dfCols df).map fun k => (k, colOf df k)) k = true := by
    intro k hk
    obtain ⟨a, ha⟩ := hstd k hk
    simp [Dict.contains, hgetD, ha]
  obtain ⟨hF, nd, he, hfr, hcols, hx⟩ := tree_init_given h n _ hn hvD (by rw [hkeys]; exact dfCols_nodup df hnd) (hc "id" (by decide)) (hc "pid" (by decide))
  refine ⟨hF, nd, by rw [from_data_frame_eq, hD]; simp [he], hfr, ?_, ?_⟩
  · intro s hs
    obtain ⟨r, hr, c⟩ := hcols s hs
    exact ⟨r, hr, by rw [hgetD] at c; exact c⟩
  · intro k hk; rw [hx k hk, hgetD]

end RefineCtorInit
