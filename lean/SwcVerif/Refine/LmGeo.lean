import SwcVerif.Gen.AlgoLmGeo
import SwcVerif.Model.LmGeo
import SwcVerif.Refine.LMeasure
import SwcVerif.Refine.NodeBranch
/-! Refinement for C10 (T21 `lmgeo`): the definitions GENERATED from the geometric L-Measure functions of `swcgeom/analysis/lmeasure.py`
(`Gen/AlgoLmGeo.lean`) compute the quantities of `Model/LmGeo.lean`, over ANY numeric type `K` and ANY `norm`, on every well-formed tree object
(ids = positions, `C07.WF pids`, geometry columns as long as `pids`), at every node in the domain of the function; outside the domain (root,
non-bifurcation, no soma, zero path length) they are `none` (the source raises). -/
namespace RefineLmGeo
open Gen.Algo Py LmGeo
variable {K : Type} [Inhabited K] [Add K] [Sub K] [Mul K] [OfNat K 0] [OfNat K 1] [LT K] [DecidableLT K] [LE K] [DecidableLE K]

theorem idx_col (l : List K) (k : Nat) (h : k < l.length) : Py.idx l (k : Int) = some (l.getD k default) := by
  rw [Py.idx_nat _ _ h]; simp [h]

/-- geometry columns of a tree with `n` nodes -/
structure Cols (n : Nat) (xs ys zs : List K) : Prop where
  hx : xs.length = n
  hy : ys.length = n
  hz : zs.length = n

/-- `Node.xyz()` = the point of the node -/
theorem node_xyz_eq {n : Nat} {xs ys zs : List K} (hc : Cols n xs ys zs) (k : Nat) (hk : k < n) :
    node_xyz xs ys zs (k : Int) = some (pos xs ys zs (k : Int)) := by
  simp only [node_xyz, node_xyz.body, Py.bind, idx_col xs k (by rw [hc.hx]; exact hk), idx_col ys k (by rw [hc.hy]; exact hk),
    idx_col zs k (by rw [hc.hz]; exact hk), Py.finish, Option.map, pos, Int.toNat_natCast]

/-- outside the table `Node.xyz()` raises (IndexError) -/
theorem node_xyz_none {n : Nat} {xs ys zs : List K} (hc : Cols n xs ys zs) (k : Nat) (hk : ¬ k < n) :
    node_xyz xs ys zs (k : Int) = none := by
  simp [node_xyz, node_xyz.body, Py.bind, Py.idx_nat_none xs k (by rw [hc.hx]; exact hk), Py.finish]

theorem subArr_pos (xs ys zs : List K) (a b : Int) :
    Py.LG.subArr (pos xs ys zs a) (pos xs ys zs b) = some (vsub (pos xs ys zs a) (pos xs ys zs b)) := by
  simp [Py.LG.subArr, pos, vsub]

/-- **`Node.distance`** = norm of (own point − other point) -/
theorem node_distance_eq (norm : List K → K) {n : Nat} {xs ys zs : List K} (hc : Cols n xs ys zs) (a b : Nat) (ha : a < n) (hb : b < n) :
    node_distance norm xs ys zs (a : Int) (b : Int) = some (dist norm xs ys zs (a : Int) (b : Int)) := by
  simp only [node_distance, node_distance.body, Py.bind, node_xyz_eq hc a ha, node_xyz_eq hc b hb, subArr_pos, Py.finish, Option.map, dist]

/-! ## `LMeasure.path_distance` -/

/-- one iteration of the loop at a non-root node `k` with parent `p` -/
theorem pd_body (norm : List K → K) {n : Nat} {xs ys zs : List K} (hc : Cols n xs ys zs) (pids : List Int) (hn : pids.length = n)
    (nd : Int) (k : Nat) (hk : k < n) (par0 : Option Int) (acc : K) :
    lm_path_distance.while1_body norm { xs := xs, ys := ys, zs := zs, pids := pids, node := nd, n := (k : Int), parent := par0, length := acc } =
      if pids.getD k (-1) = -1 then
        .brk { xs := xs, ys := ys, zs := zs, pids := pids, node := nd, n := (k : Int), parent := none, length := acc }
      else if 0 ≤ pids.getD k (-1) ∧ pids.getD k (-1) < n then
        .next { xs := xs, ys := ys, zs := zs, pids := pids, node := nd, n := pids.getD k (-1), parent := some (pids.getD k (-1)),
                length := acc + dist norm xs ys zs (k : Int) (pids.getD k (-1)) }
      else lm_path_distance.while1_body norm { xs := xs, ys := ys, zs := zs, pids := pids, node := nd, n := (k : Int), parent := par0, length := acc } := by
  have hpe := RefineLm.node_parent_eq pids k (by omega)
  generalize pids.getD k (-1) = p at hpe ⊢
  by_cases hp : p = -1
  · subst hp
    simp [lm_path_distance.while1_body, Py.seq, Py.bind, hpe]
  · rw [if_neg hp]
    by_cases hv : 0 ≤ p ∧ p < n
    · rw [if_pos hv]
      obtain ⟨q, rfl⟩ : ∃ q : Nat, p = (q : Int) := ⟨p.toNat, by omega⟩
      simp [lm_path_distance.while1_body, Py.seq, Py.bind, hpe, hp, Py.skip, node_distance_eq norm hc k q hk (by omega)]
    · rw [if_neg hv]

/-- the loop: from node `v` with `length = acc` it stops having added the lengths of the compartments of the root path of `v`, in order -/
theorem pd_loop (norm : List K → K) {n : Nat} {xs ys zs : List K} (hc : Cols n xs ys zs) {pids : List Int} (hw : C07.WF pids)
    (hn : pids.length = n) (nd : Int) : ∀ (f : Nat) (v : Int) (par0 : Option Int) (acc : K), 0 ≤ v → v < pids.length →
    (Redir.rootPath pids pids.length v).length ≤ f → ∀ F : Nat, ∃ vn par,
    Py.whileF (lm_path_distance.while1_cond norm) (lm_path_distance.while1_body norm) (f + 1 + F)
        { xs := xs, ys := ys, zs := zs, pids := pids, node := nd, n := v, parent := par0, length := acc } =
      .next { xs := xs, ys := ys, zs := zs, pids := pids, node := nd, n := vn, parent := par,
              length := sumFrom acc ((steps (Redir.rootPath pids pids.length v)).map fun e => dist norm xs ys zs e.1 e.2) } := by
  intro f
  induction f with
  | zero =>
    intro v _ _ _ _ hl
    have := Redir.rp_ne_nil pids pids.length v
    cases hp : Redir.rootPath pids pids.length v with
    | nil => exact absurd hp this
    | cons a l => rw [hp] at hl; simp at hl
  | succ f ih =>
    intro v par0 acc h0 hv hl F
    obtain ⟨k, rfl⟩ : ∃ k : Nat, v = (k : Int) := ⟨v.toNat, by omega⟩
    have hk : k < n := by omega
    have hfuel : f + 1 + 1 + F = (f + 1 + F) + 1 := by omega
    rw [hfuel, Py.whileF]
    simp only [lm_path_distance.while1_cond]
    rw [pd_body norm hc pids hn nd k hk par0 acc]
    by_cases hpar : pids.getD k (-1) = -1
    · simp only [hpar, if_true]
      have hk0 : Redir.rootPath pids pids.length (k : Int) = [(k : Int)] := by
        obtain ⟨m, hm⟩ : ∃ m, pids.length = m + 1 := ⟨pids.length - 1, by omega⟩
        rw [hm, Redir.rp_succ, Int.toNat_natCast, if_pos hpar]
      exact ⟨(k : Int), none, by simp [hk0, steps, sumFrom]⟩
    · have hk0 : k ≠ 0 := by
        intro h; subst h; exact hpar (by simpa using hw.par_root)
      have hpos : (0 : Int) < (k : Int) := by omega
      have hpv := hw.par_valid' (k : Int) hpos hv
      simp only [Int.toNat_natCast] at hpv
      have hcons := hw.path_cons (k : Int) hpos hv
      simp only [Int.toNat_natCast] at hcons
      rw [hcons] at hl
      rw [if_neg hpar, if_pos ⟨hpv.1, by omega⟩]
      simp only []
      obtain ⟨vn, par, e⟩ := ih (pids.getD k (-1)) (some (pids.getD k (-1))) (acc + dist norm xs ys zs (k : Int) (pids.getD k (-1)))
        hpv.1 hpv.2 (by simpa using hl) F
      refine ⟨vn, par, ?_⟩
      rw [e, hcons]
      have hne := Redir.rp_ne_nil pids pids.length (pids.getD k (-1))
      cases hrp : Redir.rootPath pids pids.length (pids.getD k (-1)) with
      | nil => exact absurd hrp hne
      | cons a l =>
        have ha : a = pids.getD k (-1) := by
          have := Redir.rp_head pids pids.length (pids.getD k (-1)); rw [hrp] at this; simp only [List.head?_cons, Option.some.injEq] at this; exact this
        subst ha
        simp [steps, sumFrom]

/-- **`LMeasure.path_distance` as translated = PathDistance**: on every well-formed tree object, at every node, for every fuel
`≥ pids.length + 2`, the result is the sum of the lengths `norm (pos child − pos parent)` of the compartments on the node's root path, added
in order from the node upwards (the loop terminates; nothing raises) -/
theorem pathDistance_refines (norm : List K → K) {xs ys zs : List K} (pids : List Int) (hw : C07.WF pids) (hc : Cols pids.length xs ys zs)
    (k : Nat) (hk : k < pids.length) (F : Nat) :
    lm_path_distance norm (pids.length + 2 + F) pids xs ys zs (k : Int) = some (pathDistance norm pids xs ys zs (k : Int)) := by
  have hl := FeatP.rootPath_len hw (k : Int) (by omega) (by omega)
  obtain ⟨vn, par, e⟩ := pd_loop norm hc hw rfl (k : Int) (pids.length + 1) (k : Int) (default : lm_path_distance.V K).parent (0 : K)
    (by omega) (by omega) (by omega) F
  simp only [lm_path_distance, lm_path_distance.body, Py.seq]
  rw [show pids.length + 2 + F = pids.length + 1 + 1 + F by omega]
  simp only [e, Py.finish, Option.map, pathDistance]

/-! ## `LMeasure.euc_distance`, `diameter` -/

/-- **`LMeasure.euc_distance` as translated = EucDistance**: the norm of (point of the node − point of node 0) when the first row is typed as
soma; otherwise it raises (the `ValueError` of `Tree.soma`), at every node -/
theorem eucDistance_refines (norm : List K → K) {xs ys zs : List K} (ids pids types : List Int) (hc : Cols pids.length xs ys zs)
    (k : Nat) (hk : k < pids.length) :
    lm_euc_distance norm ids pids types xs ys zs (k : Int) =
      if types.head? = some Gen.Consts.type_soma then some (eucDistance norm xs ys zs (k : Int)) else none := by
  simp only [lm_euc_distance, lm_euc_distance.body, Py.seq, Py.bind, RefineLm.tree_soma_eq]
  by_cases h : types.head? = some Gen.Consts.type_soma
  · have := node_distance_eq norm hc k 0 hk (by omega)
    simp only [Int.natCast_zero] at this
    simp [h, this, Py.finish, eucDistance]
  · simp [h, Py.finish]

/-- **`LMeasure.diameter` as translated** = 2 · radius of the node (reads the radius column at the node's row) -/
theorem diameter_refines (F : Py.Fld K) (rs : List K) (k : Nat) (hk : k < rs.length) :
    lm_diameter F rs (k : Int) = some (diameter F rs (k : Int)) := by
  simp [lm_diameter, lm_diameter.body, Py.bind, idx_col rs k hk, Py.finish, diameter]

/-! ## bifurcation level: `_rall_power_d`, `pk_2`, `_bif_vector_local`, `bif_ampl_local` -/

/-- the children of a node of a tree object, in table order -/
abbrev kids (pids : List Int) (k : Int) : List Int := tableKids (Sub.rangeI pids.length) pids k

theorem kids_valid (pids : List Int) (k c : Int) (h : c ∈ kids pids k) : ∃ j : Nat, c = (j : Int) ∧ j < pids.length := by
  have : ∀ (ids ps : List Int), c ∈ tableKids ids ps k → c ∈ ids := by
    intro ids
    induction ids with
    | nil => intro ps h; simp [tableKids] at h
    | cons i is ih =>
      intro ps h
      cases ps with
      | nil => simp [tableKids] at h
      | cons p ps =>
        by_cases hp : p = k
        · simp only [tableKids, hp, if_true, List.mem_cons] at h
          rcases h with h | h
          · simp [h]
          · exact List.mem_cons_of_mem _ (ih ps h)
        · simp only [tableKids, hp, if_false] at h
          exact List.mem_cons_of_mem _ (ih ps h)
  have hm := this _ _ h
  simp only [Sub.rangeI, List.mem_map, List.mem_range] at hm
  obtain ⟨j, hj, rfl⟩ := hm
  exact ⟨j, rfl, hj⟩

theorem dec_len_pair (a b : Int) : decide (Py.len [a, b] = (2 : Int)) = true := by simp [Py.len]
theorem idx_pair0 (a b : Int) : Py.idx [a, b] (0 : Int) = some a := by simp [Py.idx, Py.normIdx]
theorem idx_pair1 (a b : Int) : Py.idx [a, b] (1 : Int) = some b := by simp [Py.idx, Py.normIdx]
theorem node_parent_some (pids : List Int) (k : Nat) (hk : k < pids.length) (p : Int) (hp : pids.getD k (-1) = p) (hne : p ≠ -1) :
    node_parent pids (k : Int) = some (some p) := by
  rw [RefineLm.node_parent_eq pids k hk, hp, if_neg hne]
theorem node_parent_none (pids : List Int) (k : Nat) (hk : k < pids.length) (hp : pids.getD k (-1) = -1) :
    node_parent pids (k : Int) = some none := by
  rw [RefineLm.node_parent_eq pids k hk, hp, if_pos rfl]

/-- **`LMeasure._rall_power_d` as translated**: at a node with exactly two children `a`, `b` (table order) that has a parent `p`, the diameters
`(2·r[p], 2·r[a], 2·r[b])` -/
theorem rallPowerD_refines (F : Py.Fld K) (pids : List Int) (rs : List K) (hr : rs.length = pids.length) (k : Nat) (hk : k < pids.length)
    (a b : Int) (hkids : kids pids (k : Int) = [a, b]) (p : Nat) (hp : pids.getD k (-1) = (p : Int)) (hpv : p < pids.length) :
    lm_rall_power_d F (Sub.rangeI pids.length) pids rs (k : Int) = some (rallDiameters F rs (p : Int) a b) := by
  obtain ⟨ja, rfl, hja⟩ := kids_valid pids (k : Int) a (by rw [hkids]; simp)
  obtain ⟨jb, rfl, hjb⟩ := kids_valid pids (k : Int) b (by rw [hkids]; simp)
  have hne : ((p : Int) ≠ -1) := by omega
  simp only [lm_rall_power_d, lm_rall_power_d.body, Py.seq, Py.bind, RefineLm.node_children_eq pids k hk, hkids, dec_len_pair, if_true,
    eq_self_iff_true, Option.isSome_some, node_parent_some pids k hk p hp hne, idx_col rs p (by omega), idx_col rs ja (by omega), idx_col rs jb (by omega), Py.finish,
    idx_pair0, idx_pair1]
  simp [rallDiameters, diameter]

/-- not a bifurcation (the number of children is not 2): the `assert` fails -/
theorem rallPowerD_not_bif (F : Py.Fld K) (pids : List Int) (rs : List K) (k : Nat) (hk : k < pids.length)
    (hkids : (kids pids (k : Int)).length ≠ 2) :
    lm_rall_power_d F (Sub.rangeI pids.length) pids rs (k : Int) = none := by
  have : ¬ (((kids pids (k : Int)).length : Int) = 2) := by omega
  simp [lm_rall_power_d, lm_rall_power_d.body, Py.seq, Py.bind, RefineLm.node_children_eq pids k hk, Py.len, this, Py.finish]

/-- at the root (no parent): the second `assert` fails -/
theorem rallPowerD_root (F : Py.Fld K) (pids : List Int) (rs : List K) (k : Nat) (hk : k < pids.length) (hp : pids.getD k (-1) = -1) :
    lm_rall_power_d F (Sub.rangeI pids.length) pids rs (k : Int) = none := by
  by_cases h2 : (((kids pids (k : Int)).length : Int) = 2)
  · simp [lm_rall_power_d, lm_rall_power_d.body, Py.seq, Py.bind, RefineLm.node_children_eq pids k hk, Py.len, h2,
      node_parent_none pids k hk hp, Py.finish]
  · simp [lm_rall_power_d, lm_rall_power_d.body, Py.seq, Py.bind, RefineLm.node_children_eq pids k hk, Py.len, h2, Py.finish]

theorem powInt_two (x : K) : Py.LG.powInt x 2 = some ((1 : K) * x * x) := by
  simp [Py.LG.powInt, List.replicate]

/-- **`LMeasure.pk_2` as translated** = (d_a² + d_b²) / d_p² on the diameters of `_rall_power_d` (`none` when that is undefined or d_p² = 0) -/
theorem pk2_refines (F : Py.Fld K) (pids : List Int) (rs : List K) (hr : rs.length = pids.length) (k : Nat) (hk : k < pids.length)
    (a b : Int) (hkids : kids pids (k : Int) = [a, b]) (p : Nat) (hp : pids.getD k (-1) = (p : Int)) (hpv : p < pids.length) :
    lm_pk_2 F (Sub.rangeI pids.length) pids rs (k : Int) = pk2 F rs (p : Int) a b := by
  simp only [lm_pk_2, lm_pk_2.body, Py.seq, Py.bind, rallPowerD_refines F pids rs hr k hk a b hkids p hp hpv, rallDiameters, powInt_two, pk2]
  cases h : Py.fdiv ((1 : K) * diameter F rs a * diameter F rs a + (1 : K) * diameter F rs b * diameter F rs b)
      ((1 : K) * diameter F rs (p : Int) * diameter F rs (p : Int)) <;> simp [h, Py.finish]

/-- **`LMeasure._bif_vector_local` as translated**: at a node with exactly two children `a`, `b` the vectors (point a − point of the node,
point b − point of the node) -/
theorem bifVectorLocal_refines {xs ys zs : List K} (pids : List Int) (hc : Cols pids.length xs ys zs) (k : Nat) (hk : k < pids.length)
    (a b : Int) (hkids : kids pids (k : Int) = [a, b]) :
    lm_bif_vector_local (Sub.rangeI pids.length) pids xs ys zs (k : Int) = some (bifVectorsLocal xs ys zs (k : Int) a b) := by
  obtain ⟨ja, rfl, hja⟩ := kids_valid pids (k : Int) a (by rw [hkids]; simp)
  obtain ⟨jb, rfl, hjb⟩ := kids_valid pids (k : Int) b (by rw [hkids]; simp)
  simp only [lm_bif_vector_local, lm_bif_vector_local.body, Py.seq, Py.bind, RefineLm.node_children_eq pids k hk, hkids, dec_len_pair, if_true,
    eq_self_iff_true, node_xyz_eq hc k hk, node_xyz_eq hc ja hja, node_xyz_eq hc jb hjb, subArr_pos, Py.finish, idx_pair0, idx_pair1]
  simp [bifVectorsLocal]

/-- not a bifurcation: the `assert` fails -/
theorem bifVectorLocal_not_bif {xs ys zs : List K} (pids : List Int) (k : Nat) (hk : k < pids.length)
    (hkids : (kids pids (k : Int)).length ≠ 2) :
    lm_bif_vector_local (Sub.rangeI pids.length) pids xs ys zs (k : Int) = none := by
  have : ¬ (((kids pids (k : Int)).length : Int) = 2) := by omega
  simp [lm_bif_vector_local, lm_bif_vector_local.body, Py.seq, Py.bind, RefineLm.node_children_eq pids k hk, Py.len, this, Py.finish]

/-- **`LMeasure.bif_ampl_local` as translated** = `degrees (angle (a − v) (b − v))` for the two children `a`, `b` of the bifurcation `v`
(`angle` raises on a zero vector: `none`) -/
theorem bifAmplLocal_refines (angle : List K → List K → Option K) (degrees : K → K) {xs ys zs : List K} (pids : List Int)
    (hc : Cols pids.length xs ys zs) (k : Nat) (hk : k < pids.length) (a b : Int) (hkids : kids pids (k : Int) = [a, b]) :
    lm_bif_ampl_local angle degrees (Sub.rangeI pids.length) pids xs ys zs (k : Int) =
      (angle (bifVectorsLocal xs ys zs (k : Int) a b).1 (bifVectorsLocal xs ys zs (k : Int) a b).2).map degrees := by
  simp only [lm_bif_ampl_local, lm_bif_ampl_local.body, Py.seq, Py.bind, bifVectorLocal_refines pids hc k hk a b hkids]
  cases h : angle (bifVectorsLocal xs ys zs (k : Int) a b).1 (bifVectorsLocal xs ys zs (k : Int) a b).2 <;> simp [h, Py.finish]

/-! ## branch level: `Path.length`, `branch_pathlength`, `contraction`, `taper_1`, `taper_2` -/

/-- a branch (list of node indices) of a tree with `n` nodes -/
def ValidBranch (n : Nat) (br : List Int) : Prop := ∀ i ∈ br, 0 ≤ i ∧ i < (n : Int)

theorem idx_head (l : List Int) : Py.idx l (0 : Int) = l.head? := by
  cases l <;> simp [Py.idx, Py.normIdx]

theorem idx_last (l : List Int) : Py.idx l (-1 : Int) = l.getLast? := by
  cases l with
  | nil => simp [Py.idx, Py.normIdx]
  | cons a t => simp [Py.idx, Py.normIdx, List.getLast?_eq_getElem?]

theorem row_eq {n : Nat} {xs ys zs : List K} (hc : Cols n xs ys zs) (j : Nat) (hj : j < n) :
    List.mapM (fun c => Py.idx c (j : Int)) [xs, ys, zs] = some (pos xs ys zs (j : Int)) := by
  simp [List.mapM_cons, idx_col xs j (by rw [hc.hx]; omega), idx_col ys j (by rw [hc.hy]; omega),
      idx_col zs j (by rw [hc.hz]; omega), pos]

theorem gatherRows_eq {n : Nat} {xs ys zs : List K} (hc : Cols n xs ys zs) : ∀ (br : List Int), ValidBranch n br →
    Py.LG.gatherRows [xs, ys, zs] br = some (br.map (pos xs ys zs))
  | [], _ => by simp [Py.LG.gatherRows]
  | i :: t, h => by
    have hi := h i (by simp)
    obtain ⟨j, rfl⟩ : ∃ j : Nat, i = (j : Int) := ⟨i.toNat, by omega⟩
    have ih := gatherRows_eq hc t (fun x hx => h x (by simp [hx]))
    simp only [Py.LG.gatherRows] at ih ⊢
    rw [List.mapM_cons, row_eq hc j (by omega), ih]
    rfl

theorem subRows_steps (P : Int → List K) (hP : ∀ a b, Py.LG.subArr (P a) (P b) = some (vsub (P a) (P b))) :
    ∀ l : List Int, Py.LG.subRows ((l.map P).drop 1) ((l.map P).dropLast) = some ((l.tail.zip l).map fun e => vsub (P e.1) (P e.2))
  | [] => by simp [Py.LG.subRows]
  | [a] => by simp [Py.LG.subRows]
  | a :: b :: t => by
    have ih := subRows_steps P hP (b :: t)
    simp only [List.map_cons, List.drop_one, List.tail_cons, List.dropLast_cons_cons] at ih ⊢
    simp [Py.LG.subRows, hP, ih]

/-- **`Path.length` as translated** = the sum, in order, of `norm (pos later − pos earlier)` over the consecutive nodes of the path -/
theorem pathLength_refines (norm : List K → K) {n : Nat} {xs ys zs : List K} (hc : Cols n xs ys zs) (br : List Int) (hb : ValidBranch n br) :
    path_length norm xs ys zs br = some (branchLength norm xs ys zs br) := by
  simp only [path_length, path_length.body, Py.seq, Py.bind, gatherRows_eq hc br hb,
    subRows_steps (pos xs ys zs) (fun a b => subArr_pos xs ys zs a b) br, Py.finish, Option.map, branchLength, Py.LG.sumK, sumFrom,
    List.map_map]
  rfl

/-- **`LMeasure.branch_pathlength` as translated = Branch_pathlength** -/
theorem branchPathlength_refines (norm : List K → K) {n : Nat} {xs ys zs : List K} (hc : Cols n xs ys zs) (br : List Int)
    (hb : ValidBranch n br) :
    lm_branch_pathlength norm xs ys zs br = some (branchLength norm xs ys zs br) := by
  simp only [lm_branch_pathlength, lm_branch_pathlength.body, Py.bind, pathLength_refines norm hc br hb, Py.finish, Option.map]

/-- **`LMeasure.contraction` as translated = Contraction**: distance(first node, last node) / path length of the branch; `none` (the source
raises) for an empty branch and when the path length is 0 -/
theorem contraction_refines (F : Py.Fld K) (norm : List K → K) {n : Nat} {xs ys zs : List K} (hc : Cols n xs ys zs) (br : List Int)
    (hb : ValidBranch n br) :
    lm_contraction F norm xs ys zs br = contraction F norm xs ys zs br := by
  cases br with
  | nil => simp [lm_contraction, lm_contraction.body, Py.seq, Py.bind, idx_head, Py.finish, contraction]
  | cons a t =>
    have ha := hb a (by simp)
    obtain ⟨b, hbl⟩ : ∃ b, (a :: t).getLast? = some b := ⟨(a :: t).getLast (by simp), List.getLast?_eq_some_getLast (by simp)⟩
    have hbm : b ∈ a :: t := List.mem_of_getLast? hbl
    have hbv := hb b hbm
    obtain ⟨ja, rfl⟩ : ∃ j : Nat, a = (j : Int) := ⟨a.toNat, by omega⟩
    obtain ⟨jb, rfl⟩ : ∃ j : Nat, b = (j : Int) := ⟨b.toNat, by omega⟩
    simp only [lm_contraction, lm_contraction.body, Py.seq, Py.bind, idx_head, idx_last, hbl, List.head?_cons,
      node_distance_eq norm hc ja jb (by omega) (by omega), pathLength_refines norm hc _ hb, contraction]
    cases h : Py.fdiv (dist norm xs ys zs (ja : Int) (jb : Int)) (branchLength norm xs ys zs ((ja : Int) :: t)) <;> simp [h, Py.finish]

/-- **`LMeasure.taper_1` as translated**: (2·r[first] − 2·r[last]) / path length of the branch -/
theorem taper1_refines (F : Py.Fld K) (norm : List K → K) {n : Nat} {xs ys zs rs : List K} (hc : Cols n xs ys zs) (hr : rs.length = n)
    (br : List Int) (hb : ValidBranch n br) :
    lm_taper_1 F norm xs ys zs rs br = taper1 F norm xs ys zs rs br := by
  cases br with
  | nil => simp [lm_taper_1, lm_taper_1.body, Py.seq, Py.bind, idx_head, Py.finish, taper1]
  | cons a t =>
    have ha := hb a (by simp)
    obtain ⟨b, hbl⟩ : ∃ b, (a :: t).getLast? = some b := ⟨(a :: t).getLast (by simp), List.getLast?_eq_some_getLast (by simp)⟩
    have hbm : b ∈ a :: t := List.mem_of_getLast? hbl
    have hbv := hb b hbm
    obtain ⟨ja, rfl⟩ : ∃ j : Nat, a = (j : Int) := ⟨a.toNat, by omega⟩
    obtain ⟨jb, rfl⟩ : ∃ j : Nat, b = (j : Int) := ⟨b.toNat, by omega⟩
    simp only [lm_taper_1, lm_taper_1.body, Py.seq, Py.bind, idx_head, idx_last, hbl, List.head?_cons,
      idx_col rs ja (by omega), idx_col rs jb (by omega), pathLength_refines norm hc _ hb, taper1, diameter, Int.toNat_natCast]
    cases h : Py.fdiv ((Py.Fld.ofInt 2 : K) * rs.getD ja default - (Py.Fld.ofInt 2 : K) * rs.getD jb default)
      (branchLength norm xs ys zs ((ja : Int) :: t)) <;> simp [h, Py.finish]

/-- **`LMeasure.taper_2` as translated**: (2·r[first] − 2·r[last]) / (2·r[first]) -/
theorem taper2_refines (F : Py.Fld K) {n : Nat} {rs : List K} (hr : rs.length = n) (br : List Int) (hb : ValidBranch n br) :
    lm_taper_2 F rs br = taper2 F rs br := by
  cases br with
  | nil => simp [lm_taper_2, lm_taper_2.body, Py.seq, Py.bind, idx_head, Py.finish, taper2]
  | cons a t =>
    have ha := hb a (by simp)
    obtain ⟨b, hbl⟩ : ∃ b, (a :: t).getLast? = some b := ⟨(a :: t).getLast (by simp), List.getLast?_eq_some_getLast (by simp)⟩
    have hbm : b ∈ a :: t := List.mem_of_getLast? hbl
    have hbv := hb b hbm
    obtain ⟨ja, rfl⟩ : ∃ j : Nat, a = (j : Int) := ⟨a.toNat, by omega⟩
    obtain ⟨jb, rfl⟩ : ∃ j : Nat, b = (j : Int) := ⟨b.toNat, by omega⟩
    simp only [lm_taper_2, lm_taper_2.body, Py.seq, Py.bind, idx_head, idx_last, hbl, List.head?_cons,
      idx_col rs ja (by omega), idx_col rs jb (by omega), taper2, diameter, Int.toNat_natCast]
    cases h : Py.fdiv ((Py.Fld.ofInt 2 : K) * rs.getD ja default - (Py.Fld.ofInt 2 : K) * rs.getD jb default)
      ((Py.Fld.ofInt 2 : K) * rs.getD ja default) <;> simp [h, Py.finish]

/-! ## `_bif_vector_remote`, `bif_ampl_remote` -/

/-- the last node of the branch `Tree.Node.branch` returns for node `c` (model `nodeBranch`): it exists and is a node of the tree -/
theorem branch_last {pids : List Int} (hw : C07.WF pids) (c : Int) (h0 : 0 ≤ c) (hc : c < pids.length) (Fu : Nat) (hF : pids.length + 1 ≤ Fu) :
    ∃ l : Nat, (RefineNodeBranch.nodeBranch pids Fu c).getLast? = some (l : Int) ∧ l < pids.length := by
  obtain ⟨up, down, e, h1, _, _⟩ := RefineNodeBranch.nodeBranch_shape hw c h0 hc Fu hF
  have hne : RefineNodeBranch.nodeBranch pids Fu c ≠ [] := by
    rw [e]; cases up with
    | nil => simp at h1
    | cons u t => simp
  have hl := List.getLast?_eq_some_getLast hne
  have hm : (RefineNodeBranch.nodeBranch pids Fu c).getLast hne ∈ RefineNodeBranch.nodeBranch pids Fu c := List.getLast_mem hne
  have hv : 0 ≤ (RefineNodeBranch.nodeBranch pids Fu c).getLast hne ∧ (RefineNodeBranch.nodeBranch pids Fu c).getLast hne < pids.length := by
    simp only [RefineNodeBranch.nodeBranch, List.mem_append, List.mem_reverse] at hm
    rcases hm with hm | hm
    · exact RefineNodeBranch.upC_valid hw Fu c h0 hc _ hm
    · exact RefineNodeBranch.downC_valid hw Fu c h0 _ hm
  refine ⟨((RefineNodeBranch.nodeBranch pids Fu c).getLast hne).toNat, ?_, by omega⟩
  rw [hl]; congr 1; omega

/-- **`LMeasure._bif_vector_remote` as translated**: at a node `v` with exactly two children `a`, `b` of a well-formed tree the vectors are
(point of the LAST node of the branch through `a` − point of `v`, the same for `b`), the branch being what `Tree.Node.branch` returns
(`nodeBranch`: from the child down through only-children to the next furcation or tip), for every fuel `≥ n + 1` -/
theorem bifVectorRemote_refines {xs ys zs : List K} (pids : List Int) (hw : C07.WF pids) (hc : Cols pids.length xs ys zs) (k : Nat)
    (hk : k < pids.length) (a b : Int) (hkids : kids pids (k : Int) = [a, b]) (Fu : Nat) (hF : pids.length + 1 ≤ Fu) :
    ∃ la lb : Nat, (RefineNodeBranch.nodeBranch pids Fu a).getLast? = some (la : Int) ∧ (RefineNodeBranch.nodeBranch pids Fu b).getLast? = some (lb : Int) ∧
      lm_bif_vector_remote Fu (Sub.rangeI pids.length) pids xs ys zs (k : Int) =
        some (vsub (pos xs ys zs (la : Int)) (pos xs ys zs (k : Int)), vsub (pos xs ys zs (lb : Int)) (pos xs ys zs (k : Int))) := by
  obtain ⟨ja, rfl, hja⟩ := kids_valid pids (k : Int) a (by rw [hkids]; simp)
  obtain ⟨jb, rfl, hjb⟩ := kids_valid pids (k : Int) b (by rw [hkids]; simp)
  obtain ⟨la, hla, hlav⟩ := branch_last hw (ja : Int) (by omega) (by omega) Fu hF
  obtain ⟨lb, hlb, hlbv⟩ := branch_last hw (jb : Int) (by omega) (by omega) Fu hF
  refine ⟨la, lb, hla, hlb, ?_⟩
  simp only [lm_bif_vector_remote, lm_bif_vector_remote.body, Py.seq, Py.bind, RefineLm.node_children_eq pids k hk, hkids, dec_len_pair, if_true,
    eq_self_iff_true, idx_pair0, idx_pair1, RefineNodeBranch.nodeBranch_refines hw (ja : Int) (by omega) (by omega) Fu hF,
    RefineNodeBranch.nodeBranch_refines hw (jb : Int) (by omega) (by omega) Fu hF, idx_last, hla, hlb,
    node_xyz_eq hc k hk, node_xyz_eq hc la hlav, node_xyz_eq hc lb hlbv, subArr_pos, Py.finish]
  simp

/-- **`LMeasure.bif_ampl_remote` as translated** = `degrees (angle …)` of exactly these two vectors -/
theorem bifAmplRemote_refines (angle : List K → List K → Option K) (degrees : K → K) {xs ys zs : List K} (pids : List Int) (hw : C07.WF pids)
    (hc : Cols pids.length xs ys zs) (k : Nat) (hk : k < pids.length) (a b : Int) (hkids : kids pids (k : Int) = [a, b]) (Fu : Nat)
    (hF : pids.length + 1 ≤ Fu) :
    ∃ la lb : Nat, (RefineNodeBranch.nodeBranch pids Fu a).getLast? = some (la : Int) ∧ (RefineNodeBranch.nodeBranch pids Fu b).getLast? = some (lb : Int) ∧
      lm_bif_ampl_remote angle degrees Fu (Sub.rangeI pids.length) pids xs ys zs (k : Int) =
        (angle (vsub (pos xs ys zs (la : Int)) (pos xs ys zs (k : Int))) (vsub (pos xs ys zs (lb : Int)) (pos xs ys zs (k : Int)))).map degrees := by
  obtain ⟨la, lb, hla, hlb, e⟩ := bifVectorRemote_refines pids hw hc k hk a b hkids Fu hF
  refine ⟨la, lb, hla, hlb, ?_⟩
  simp only [lm_bif_ampl_remote, lm_bif_ampl_remote.body, Py.seq, Py.bind, e]
  cases h : angle (vsub (pos xs ys zs (la : Int)) (pos xs ys zs (k : Int))) (vsub (pos xs ys zs (lb : Int)) (pos xs ys zs (k : Int))) <;>
    simp [h, Py.finish]

/-- not a bifurcation: the `assert` fails -/
theorem bifVectorRemote_not_bif {xs ys zs : List K} (pids : List Int) (k : Nat) (hk : k < pids.length)
    (hkids : (kids pids (k : Int)).length ≠ 2) (Fu : Nat) :
    lm_bif_vector_remote Fu (Sub.rangeI pids.length) pids xs ys zs (k : Int) = none := by
  have : ¬ (((kids pids (k : Int)).length : Int) = 2) := by omega
  simp [lm_bif_vector_remote, lm_bif_vector_remote.body, Py.seq, Py.bind, RefineLm.node_children_eq pids k hk, Py.len, this, Py.finish]

/-! ## compartment level: `length`, `section_area`, `volume`, `surface` -/

/-- **`LMeasure.length` as translated** = the length of the compartment (`Path.length` of its index list; for `[a, b]` it is `0 + norm (pos b − pos a)`) -/
theorem length_refines (norm : List K → K) {n : Nat} {xs ys zs : List K} (hc : Cols n xs ys zs) (c : List Int) (hb : ValidBranch n c) :
    lm_length norm xs ys zs c = some (branchLength norm xs ys zs c) := by
  simp only [lm_length, lm_length.body, Py.bind, pathLength_refines norm hc c hb, Py.finish, Option.map]

theorem circle_area_eq (pi r : K) : circle_area pi r = some (pi * ((1 : K) * r * r)) := by
  simp [circle_area, circle_area.body, Py.bind, powInt_two, Py.finish]

theorem cylinder_volume_eq (pi r h : K) : cylinder_volume pi r h = some (pi * ((1 : K) * r * r) * h) := by
  simp [cylinder_volume, cylinder_volume.body, Py.bind, powInt_two, Py.finish]

theorem cylinder_side_eq (F : Py.Fld K) (pi r h : K) : cylinder_side_surface_area F pi r h = some ((Py.Fld.ofInt 2 : K) * pi * r * h) := by
  simp [cylinder_side_surface_area, cylinder_side_surface_area.body, Py.finish]

/-- **`LMeasure.section_area` as translated** = π · r[k]² -/
theorem sectionArea_refines (pi : K) (rs : List K) (k : Nat) (hk : k < rs.length) :
    lm_section_area pi rs (k : Int) = some (sectionArea pi rs (k : Int)) := by
  simp [lm_section_area, lm_section_area.body, Py.bind, idx_col rs k hk, circle_area_eq, Py.finish, sectionArea]

/-- **`LMeasure.volume` as translated** = π · r[p]² · length, where `p = compartment[compartment_point]` is the node the option selects -/
theorem volume_refines (norm : List K → K) (pi : K) (cp : Int) {n : Nat} {xs ys zs rs : List K} (hc : Cols n xs ys zs) (hr : rs.length = n)
    (c : List Int) (hb : ValidBranch n c) (p : Int) (hp : Py.idx c cp = some p) :
    lm_volume norm pi cp xs ys zs rs c = some (volume norm pi xs ys zs rs c p) := by
  have hm : p ∈ c := by
    simp only [Py.idx] at hp
    cases hn : Py.normIdx c.length cp with
    | none => simp [hn] at hp
    | some j => rw [hn] at hp; exact List.mem_of_getElem? hp
  have hv := hb p hm
  obtain ⟨j, rfl⟩ : ∃ j : Nat, p = (j : Int) := ⟨p.toNat, by omega⟩
  simp only [lm_volume, lm_volume.body, Py.seq, Py.bind, hp, idx_col rs j (by omega), pathLength_refines norm hc c hb, cylinder_volume_eq,
    Py.finish, Option.map, volume, Int.toNat_natCast]

/-- **`LMeasure.surface` as translated** = 2 · π · r[p] · length, `p = compartment[compartment_point]` -/
theorem surface_refines (F : Py.Fld K) (norm : List K → K) (pi : K) (cp : Int) {n : Nat} {xs ys zs rs : List K} (hc : Cols n xs ys zs)
    (hr : rs.length = n) (c : List Int) (hb : ValidBranch n c) (p : Int) (hp : Py.idx c cp = some p) :
    lm_surface F norm pi cp xs ys zs rs c = some (surface F norm pi xs ys zs rs c p) := by
  have hm : p ∈ c := by
    simp only [Py.idx] at hp
    cases hn : Py.normIdx c.length cp with
    | none => simp [hn] at hp
    | some j => rw [hn] at hp; exact List.mem_of_getElem? hp
  have hv := hb p hm
  obtain ⟨j, rfl⟩ : ∃ j : Nat, p = (j : Int) := ⟨p.toNat, by omega⟩
  simp only [lm_surface, lm_surface.body, Py.seq, Py.bind, hp, idx_col rs j (by omega), pathLength_refines norm hc c hb, cylinder_side_eq,
    Py.finish, Option.map, surface, Int.toNat_natCast]

/-- which node the option selects on a compartment `[a, b]`: `0` the first (parent) node, `-1` the last (the node itself) -/
theorem comp_point (a b : Int) : Py.idx [a, b] (0 : Int) = some a ∧ Py.idx [a, b] (-1 : Int) = some b := by
  constructor <;> simp [Py.idx, Py.normIdx]

end RefineLmGeo
