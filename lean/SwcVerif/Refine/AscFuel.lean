import SwcVerif.Refine.AscTop
/-! C15: the hand-written model `Asc.parseSubtree` / `parseTop` / `C15.convertWith` NEVER RUNS OUT OF FUEL when the fuel is at least
`2·#tokens + 4` (every step consumes a token, except the one that enters a split whose first alternative is empty, which turns `flag`).
Needed to state "generated = model" without a side condition on the model's fuel. -/
namespace RefineAscFuel
open Asc RefineAscParse RefineAscLoop
open C15 (ok_bind error_bind bind_ok_iff)

def NF {α : Type} (r : Except Err α) : Prop := r ≠ .error .fuel

theorem NF_ok {α : Type} (a : α) : NF (Except.ok a : Except Err α) := by intro h; cases h
theorem NF_bind {α β : Type} (x : Except Err α) (k : α → Except Err β) (hx : NF x) (hk : ∀ a, x = .ok a → NF (k a)) : NF (x >>= k) := by
  cases x with
  | error e => intro h; exact hx (by simpa using h)
  | ok a => exact hk a rfl

theorem adv_NF (toks : List Tok) : NF (adv toks) := by
  unfold adv
  split
  · exact NF_ok _
  · split
    · intro h; cases h
    · exact NF_ok _

theorem expectRp_NF (toks : List Tok) : NF (expectRp toks) := by
  unfold expectRp
  split
  · intro h; cases h
  · exact adv_NF _
  · intro h; cases h

theorem expectLp_NF (toks : List Tok) : NF (expectLp toks) := by
  unfold expectLp
  split
  · intro h; cases h
  · exact adv_NF _
  · intro h; cases h

theorem parseNode_NF (toks : List Tok) : NF (parseNode toks) := by
  unfold parseNode
  split
  · refine NF_bind _ _ (adv_NF _) fun t1 _ => ?_
    split
    · refine NF_bind _ _ (adv_NF _) fun t2 _ => ?_
      split
      · refine NF_bind _ _ (adv_NF _) fun t3 _ => ?_
        split
        · refine NF_bind _ _ (adv_NF _) fun t4 _ => ?_
          refine NF_bind _ _ (expectRp_NF _) fun t5 _ => ?_
          exact NF_ok _
        · intro h; cases h
        · intro h; cases h
      · intro h; cases h
      · intro h; cases h
    · intro h; cases h
    · intro h; cases h
  · intro h; cases h
  · intro h; cases h

theorem parseColor_NF (toks : List Tok) : NF (parseColor toks) := by
  unfold parseColor
  split
  · refine NF_bind _ _ (adv_NF _) fun t1 _ => ?_
    split
    · refine NF_bind _ _ (adv_NF _) fun t2 _ => ?_
      exact expectRp_NF _
    · intro h; cases h
    · intro h; cases h
  · intro h; cases h
  · intro h; cases h

theorem noBad_suffix {a b : List Tok} (h : NoBad b) (hs : a <:+ b) : NoBad a := by
  obtain ⟨pre, rfl⟩ := hs
  exact noBad_drop h pre a rfl

theorem expectRp_suffix (tr t2 : List Tok) (h : NoBad tr) (he : expectRp tr = .ok t2) : t2 <:+ tr ∧ t2.length < tr.length := by
  have := expectRp_ok tr t2 h he
  subst this
  exact ⟨List.suffix_cons _ _, by simp⟩

/-- the model's remaining tokens are a suffix of its input -/
theorem sub_suffix (ty : Int) : ∀ (f : Nat) (toks : List Tok) (flag : Bool) (root cur : Int) (rows : List Asc.Row) (tr : List Tok)
    (rows' : List Asc.Row), NoBad toks → parseSubtree ty f toks flag root cur rows = .ok (tr, rows') → tr <:+ toks
  | 0, _, _, _, _, _, _, _, _, h => by simp [parseSubtree] at h
  | f + 1, toks, flag, ρid, γid, rows, tr, rows', hnb, h => by
    cases toks with
    | nil =>
      simp only [parseSubtree] at h
      cases h
      exact List.suffix_refl _
    | cons tk t =>
      have hnt := hnb.tail
      have nested : ∀ (toksN : List Tok) (flagN : Bool), NoBad toksN → toksN <:+ tk :: t →
          (parseSubtree ty f toksN flagN γid γid rows >>= fun r => expectRp r.1 >>= fun t2 => parseSubtree ty f t2 true ρid γid r.2) = .ok (tr, rows') →
          tr <:+ tk :: t := by
        intro toksN flagN hN hsN h
        rw [bind_ok_iff] at h
        obtain ⟨⟨r1, r2⟩, h1, h2⟩ := h
        rw [bind_ok_iff] at h2
        obtain ⟨t2, h3, h4⟩ := h2
        have s1 := sub_suffix ty f toksN flagN γid γid rows r1 r2 hN h1
        have n1 := noBad_suffix hN s1
        have s2 := (expectRp_suffix r1 t2 n1 h3).1
        have s3 := sub_suffix ty f t2 true ρid γid r2 tr rows' (noBad_suffix n1 s2) h4
        exact ((s3.trans s2).trans s1).trans hsN
      cases tk with
      | lp =>
        cases flag with
        | true =>
          have e : parseSubtree ty (f + 1) (.lp :: t) true ρid γid rows = parseSubtree ty f t false ρid γid rows := by
            simp only [parseSubtree, adv_noBad _ _ hnb, ok_bind]; rfl
          rw [e] at h
          exact (sub_suffix ty f t false ρid γid rows tr rows' hnt h).trans (List.suffix_cons _ _)
        | false =>
          have e : parseSubtree ty (f + 1) (.lp :: t) false ρid γid rows =
              (parseSubtree ty f t false γid γid rows >>= fun r => expectRp r.1 >>= fun t2 => parseSubtree ty f t2 true ρid γid r.2) := by
            simp only [parseSubtree, adv_noBad _ _ hnb, ok_bind]; rfl
          rw [e] at h
          exact nested t false hnt (List.suffix_cons _ _) h
      | rp =>
        cases flag with
        | true =>
          have e : parseSubtree ty (f + 1) (.rp :: t) true ρid γid rows = .ok (.rp :: t, rows) := by simp only [parseSubtree]; rfl
          rw [e] at h
          cases h
          exact List.suffix_refl _
        | false =>
          have e : parseSubtree ty (f + 1) (.rp :: t) false ρid γid rows = parseSubtree ty f t true ρid γid rows := by
            simp only [parseSubtree, adv_noBad _ _ hnb, ok_bind]; rfl
          rw [e] at h
          exact (sub_suffix ty f t true ρid γid rows tr rows' hnt h).trans (List.suffix_cons _ _)
      | bar =>
        cases flag with
        | true =>
          have e : parseSubtree ty (f + 1) (.bar :: t) true ρid γid rows = parseSubtree ty f t true ρid ρid rows := by
            simp only [parseSubtree, adv_noBad _ _ hnb, ok_bind]; rfl
          rw [e] at h
          exact (sub_suffix ty f t true ρid ρid rows tr rows' hnt h).trans (List.suffix_cons _ _)
        | false =>
          have e : parseSubtree ty (f + 1) (.bar :: t) false ρid γid rows =
              (parseSubtree ty f (.bar :: t) true γid γid rows >>= fun r => expectRp r.1 >>= fun t2 => parseSubtree ty f t2 true ρid γid r.2) := by
            simp only [parseSubtree]; rfl
          rw [e] at h
          exact nested (.bar :: t) true hnb (List.suffix_refl _) h
      | comment c =>
        have e : parseSubtree ty (f + 1) (.comment c :: t) flag ρid γid rows = parseSubtree ty f t flag ρid γid rows := by
          simp only [parseSubtree, adv_noBad _ _ hnb, ok_bind]
        rw [e] at h
        exact (sub_suffix ty f t flag ρid γid rows tr rows' hnt h).trans (List.suffix_cons _ _)
      | float a =>
        cases flag with
        | true =>
          have e : parseSubtree ty (f + 1) (.float a :: t) true ρid γid rows = .error .tokenType := by simp only [parseSubtree]; rfl
          rw [e] at h
          cases h
        | false =>
          have e : parseSubtree ty (f + 1) (.float a :: t) false ρid γid rows =
              (parseNode (.float a :: t) >>= fun nr => parseSubtree ty f nr.2 true ρid (rows.length : Int)
                (rows ++ [⟨ty, nr.1.1, nr.1.2.1, nr.1.2.2.1, nr.1.2.2.2, γid⟩])) := by
            simp only [parseSubtree]; rfl
          rw [e, bind_ok_iff] at h
          obtain ⟨⟨q, rest⟩, h1, h2⟩ := h
          obtain ⟨x, y, z, r, hshape, _⟩ := parseNode_ok _ hnb q rest h1
          have s1 : rest <:+ .float a :: t := ⟨[.float x, .float y, .float z, .float r, .rp], by rw [hshape]; rfl⟩
          exact (sub_suffix ty f rest true ρid _ _ tr rows' (noBad_suffix hnb s1) h2).trans s1
      | literal w =>
        by_cases hw : upper w = "COLOR".toList
        · have e : parseSubtree ty (f + 1) (.literal w :: t) flag ρid γid rows =
              (parseColor (.literal w :: t) >>= fun t1 => parseSubtree ty f t1 true ρid γid rows) := by
            simp only [parseSubtree, hw, if_true]
          rw [e, bind_ok_iff] at h
          obtain ⟨rest, h1, h2⟩ := h
          obtain ⟨w1, w2, hshape⟩ := parseColor_ok _ hnb rest h1
          have s1 : rest <:+ .literal w :: t := ⟨[.literal w1, .literal w2, .rp], by rw [hshape]; rfl⟩
          exact (sub_suffix ty f rest true ρid γid rows tr rows' (noBad_suffix hnb s1) h2).trans s1
        · have e : parseSubtree ty (f + 1) (.literal w :: t) flag ρid γid rows = .error .literal := by
            simp only [parseSubtree, hw, if_false]
          rw [e] at h
          cases h
      | bad => exact absurd rfl (noBad_head hnb)

theorem suffix_len {a b : List Tok} (h : a <:+ b) : a.length ≤ b.length := h.length_le

/-- **the model's `parseSubtree` does not run out of fuel** with `2·#tokens + 2` units (`+1` when `flag` is false) -/
theorem sub_nofuel (ty : Int) : ∀ (f : Nat) (toks : List Tok) (flag : Bool) (root cur : Int) (rows : List Asc.Row), NoBad toks →
    2 * toks.length + (if flag then 0 else 1) + 1 ≤ f → NF (parseSubtree ty f toks flag root cur rows)
  | 0, _, _, _, _, _, _, h => by omega
  | f + 1, toks, flag, ρid, γid, rows, hnb, hf => by
    cases toks with
    | nil => simp only [parseSubtree]; exact NF_ok _
    | cons tk t =>
      have hnt := hnb.tail
      simp only [List.length_cons] at hf
      have nested : ∀ (toksN : List Tok) (flagN : Bool), NoBad toksN → toksN.length ≤ t.length + 1 →
          2 * toksN.length + (if flagN then 0 else 1) + 1 ≤ f →
          NF (parseSubtree ty f toksN flagN γid γid rows >>= fun r => expectRp r.1 >>= fun t2 => parseSubtree ty f t2 true ρid γid r.2) := by
        intro toksN flagN hN hlen hm
        refine NF_bind _ _ (sub_nofuel ty f toksN flagN γid γid rows hN hm) fun r hr => ?_
        obtain ⟨r1, r2⟩ := r
        have s1 := sub_suffix ty f toksN flagN γid γid rows r1 r2 hN hr
        have n1 := noBad_suffix hN s1
        refine NF_bind _ _ (expectRp_NF _) fun t2 ht2 => ?_
        obtain ⟨s2, l2⟩ := expectRp_suffix r1 t2 n1 ht2
        have := suffix_len s1
        exact sub_nofuel ty f t2 true ρid γid r2 (noBad_suffix n1 s2) (by simp only [if_true]; split at hm <;> omega)
      cases tk with
      | lp =>
        cases flag with
        | true =>
          have e : parseSubtree ty (f + 1) (.lp :: t) true ρid γid rows = parseSubtree ty f t false ρid γid rows := by
            simp only [parseSubtree, adv_noBad _ _ hnb, ok_bind]; rfl
          rw [e]
          exact sub_nofuel ty f t false ρid γid rows hnt (by simp at hf ⊢; omega)
        | false =>
          have e : parseSubtree ty (f + 1) (.lp :: t) false ρid γid rows =
              (parseSubtree ty f t false γid γid rows >>= fun r => expectRp r.1 >>= fun t2 => parseSubtree ty f t2 true ρid γid r.2) := by
            simp only [parseSubtree, adv_noBad _ _ hnb, ok_bind]; rfl
          rw [e]
          exact nested t false hnt (by omega) (by simp at hf ⊢; omega)
      | rp =>
        cases flag with
        | true =>
          have e : parseSubtree ty (f + 1) (.rp :: t) true ρid γid rows = .ok (.rp :: t, rows) := by simp only [parseSubtree]; rfl
          rw [e]; exact NF_ok _
        | false =>
          have e : parseSubtree ty (f + 1) (.rp :: t) false ρid γid rows = parseSubtree ty f t true ρid γid rows := by
            simp only [parseSubtree, adv_noBad _ _ hnb, ok_bind]; rfl
          rw [e]
          exact sub_nofuel ty f t true ρid γid rows hnt (by simp at hf ⊢; omega)
      | bar =>
        cases flag with
        | true =>
          have e : parseSubtree ty (f + 1) (.bar :: t) true ρid γid rows = parseSubtree ty f t true ρid ρid rows := by
            simp only [parseSubtree, adv_noBad _ _ hnb, ok_bind]; rfl
          rw [e]
          exact sub_nofuel ty f t true ρid ρid rows hnt (by simp at hf ⊢; omega)
        | false =>
          have e : parseSubtree ty (f + 1) (.bar :: t) false ρid γid rows =
              (parseSubtree ty f (.bar :: t) true γid γid rows >>= fun r => expectRp r.1 >>= fun t2 => parseSubtree ty f t2 true ρid γid r.2) := by
            simp only [parseSubtree]; rfl
          rw [e]
          exact nested (.bar :: t) true hnb (by simp) (by simp at hf ⊢; omega)
      | comment c =>
        have e : parseSubtree ty (f + 1) (.comment c :: t) flag ρid γid rows = parseSubtree ty f t flag ρid γid rows := by
          simp only [parseSubtree, adv_noBad _ _ hnb, ok_bind]
        rw [e]
        exact sub_nofuel ty f t flag ρid γid rows hnt (by omega)
      | float a =>
        cases flag with
        | true =>
          have e : parseSubtree ty (f + 1) (.float a :: t) true ρid γid rows = .error .tokenType := by simp only [parseSubtree]; rfl
          rw [e]; intro h; cases h
        | false =>
          have e : parseSubtree ty (f + 1) (.float a :: t) false ρid γid rows =
              (parseNode (.float a :: t) >>= fun nr => parseSubtree ty f nr.2 true ρid (rows.length : Int)
                (rows ++ [⟨ty, nr.1.1, nr.1.2.1, nr.1.2.2.1, nr.1.2.2.2, γid⟩])) := by
            simp only [parseSubtree]; rfl
          rw [e]
          refine NF_bind _ _ (parseNode_NF _) fun nr hnr => ?_
          obtain ⟨q, rest⟩ := nr
          obtain ⟨x, y, z, r, hshape, _⟩ := parseNode_ok _ hnb q rest hnr
          have s1 : rest <:+ .float a :: t := ⟨[.float x, .float y, .float z, .float r, .rp], by rw [hshape]; rfl⟩
          have hl : rest.length + 5 = t.length + 1 := by
            have := congrArg List.length hshape
            simp at this; omega
          exact sub_nofuel ty f rest true ρid _ _ (noBad_suffix hnb s1) (by simp at hf ⊢; omega)
      | literal w =>
        by_cases hw : upper w = "COLOR".toList
        · have e : parseSubtree ty (f + 1) (.literal w :: t) flag ρid γid rows =
              (parseColor (.literal w :: t) >>= fun t1 => parseSubtree ty f t1 true ρid γid rows) := by
            simp only [parseSubtree, hw, if_true]
          rw [e]
          refine NF_bind _ _ (parseColor_NF _) fun rest hr => ?_
          obtain ⟨w1, w2, hshape⟩ := parseColor_ok _ hnb rest hr
          have s1 : rest <:+ .literal w :: t := ⟨[.literal w1, .literal w2, .rp], by rw [hshape]; rfl⟩
          have hl : rest.length + 3 = t.length + 1 := by
            have := congrArg List.length hshape
            simp at this; omega
          exact sub_nofuel ty f rest true ρid γid rows (noBad_suffix hnb s1) (by simp at hf ⊢; omega)
        · have e : parseSubtree ty (f + 1) (.literal w :: t) flag ρid γid rows = .error .literal := by
            simp only [parseSubtree, hw, if_false]
          rw [e]; intro h; cases h
      | bad => exact absurd rfl (noBad_head hnb)

theorem skip_props : ∀ (f : Nat) (toks : List Tok), NoBad toks →
    (∀ t', skipComments f toks = .ok t' → t' <:+ toks) ∧ (toks.length + 1 ≤ f → NF (skipComments f toks))
  | 0, _, _ => ⟨fun t' h => by simp [skipComments] at h, fun h => by omega⟩
  | f + 1, toks, hnb => by
    cases toks with
    | nil => exact ⟨fun t' h => by simp only [skipComments] at h; cases h; exact List.suffix_refl _, fun _ => by simp only [skipComments]; exact NF_ok _⟩
    | cons tk t =>
      cases tk with
      | comment c =>
        have e : skipComments (f + 1) (.comment c :: t) = skipComments f t := by
          simp only [skipComments, adv_noBad _ _ hnb, ok_bind]
        rw [e]
        obtain ⟨i1, i2⟩ := skip_props f t hnb.tail
        exact ⟨fun t' h => (i1 t' h).trans (List.suffix_cons _ _), fun h => i2 (by simp at h; omega)⟩
      | _ =>
        refine ⟨fun t' h => ?_, fun _ => ?_⟩
        · simp only [skipComments] at h; cases h; exact List.suffix_refl _
        · simp only [skipComments]; exact NF_ok _

theorem expectLp_suffix (tr t2 : List Tok) (h : NoBad tr) (he : expectLp tr = .ok t2) : t2 <:+ tr ∧ t2.length < tr.length := by
  have := expectLp_ok tr t2 h he
  subst this
  exact ⟨List.suffix_cons _ _, by simp⟩

/-- **the model's `parseTop` does not run out of fuel** with `2·#tokens + 2` units -/
theorem top_nofuel : ∀ (f : Nat) (toks : List Tok) (rows : List Asc.Row), NoBad toks → 2 * toks.length + 2 ≤ f → NF (parseTop f toks rows)
  | 0, _, _, _, h => by omega
  | f + 1, toks, rows, hnb, hf => by
    cases toks with
    | nil => simp only [parseTop]; exact NF_ok _
    | cons tk t =>
      have hnt := hnb.tail
      simp only [List.length_cons] at hf
      by_cases hlp : tk = .lp
      · subst hlp
        cases t with
        | nil =>
          have e : parseTop (f + 1) [.lp] rows = .error .eof := by simp only [parseTop, adv, ok_bind]
          rw [e]; intro h; cases h
        | cons x t' =>
          simp only [List.length_cons] at hf
          by_cases hx : ∃ w, x = .literal w
          · obtain ⟨w, rfl⟩ := hx
            by_cases hw : upper w = "AXON".toList ∨ upper w = "DENDRITE".toList
            · have hc : (upper w = "AXON".toList || upper w = "DENDRITE".toList) = true := by
                rcases hw with h | h <;> simp [h]
              have e : parseTop (f + 1) (.lp :: .literal w :: t') rows =
                  (expectRp t' >>= fun t3 => skipComments f t3 >>= fun t4 => expectLp t4 >>= fun t5 =>
                    parseSubtree (if upper w = "AXON".toList then Gen.Consts.type_axon else Gen.Consts.type_basal_dendrite) f t5 false (-1) (-1) rows
                    >>= fun r => parseTop f r.1 r.2) := by
                simp only [parseTop, adv_noBad _ _ hnb, adv_noBad _ _ hnt, ok_bind, hc, if_true]
              rw [e]
              have hn' := hnt.tail
              refine NF_bind _ _ (expectRp_NF _) fun t3 h3 => ?_
              obtain ⟨s3, l3⟩ := expectRp_suffix t' t3 hn' h3
              have n3 := noBad_suffix hn' s3
              obtain ⟨k1, k2⟩ := skip_props f t3 n3
              refine NF_bind _ _ (k2 (by omega)) fun t4 h4 => ?_
              have s4 := k1 t4 h4
              have n4 := noBad_suffix n3 s4
              have l4 := suffix_len s4
              refine NF_bind _ _ (expectLp_NF _) fun t5 h5 => ?_
              obtain ⟨s5, l5⟩ := expectLp_suffix t4 t5 n4 h5
              have n5 := noBad_suffix n4 s5
              refine NF_bind _ _ (sub_nofuel _ f t5 false (-1) (-1) rows n5 (by simp; omega)) fun r hr => ?_
              obtain ⟨r1, r2⟩ := r
              have s6 := sub_suffix _ f t5 false (-1) (-1) rows r1 r2 n5 hr
              have l6 := suffix_len s6
              exact top_nofuel f r1 r2 (noBad_suffix n5 s6) (by omega)
            · have h1 : upper w ≠ "AXON".toList := fun h => hw (Or.inl h)
              have h2 : upper w ≠ "DENDRITE".toList := fun h => hw (Or.inr h)
              have hc : (decide (upper w = "AXON".toList) || decide (upper w = "DENDRITE".toList)) = false := by
                rw [decide_eq_false h1, decide_eq_false h2]; rfl
              by_cases h3 : upper w = "COLOR".toList
              · have e : parseTop (f + 1) (.lp :: .literal w :: t') rows = (parseColor (.literal w :: t') >>= fun t2 => parseTop f t2 rows) := by
                  simp only [parseTop, adv_noBad _ _ hnb, ok_bind]
                  rw [hc]
                  simp only [Bool.false_eq_true, if_false, if_pos h3]
                rw [e]
                refine NF_bind _ _ (parseColor_NF _) fun rest hr => ?_
                obtain ⟨w1, w2, hshape⟩ := parseColor_ok _ hnt rest hr
                have s1 : rest <:+ .literal w :: t' := ⟨[.literal w1, .literal w2, .rp], by rw [hshape]; rfl⟩
                have hl := suffix_len s1
                simp only [List.length_cons] at hl
                exact top_nofuel f rest rows (noBad_suffix hnt s1) (by omega)
              · have e : parseTop (f + 1) (.lp :: .literal w :: t') rows = .error .literal := by
                  simp only [parseTop, adv_noBad _ _ hnb, ok_bind]
                  rw [hc]
                  simp only [Bool.false_eq_true, if_false, if_neg h3]
                rw [e]; intro h; cases h
          · have hx' : ∀ w, x ≠ .literal w := fun w h => hx ⟨w, h⟩
            rw [RefineAscTop.parseTop_lp_other f x t' rows hnb hx']
            intro h; cases h
      · by_cases hrp : tk = .rp
        · subst hrp
          simp only [parseTop]; exact NF_ok _
        · by_cases hcm : ∃ c, tk = .comment c
          · obtain ⟨c, rfl⟩ := hcm
            have e : parseTop (f + 1) (.comment c :: t) rows = parseTop f t rows := by
              simp only [parseTop, adv_noBad _ _ hnb, ok_bind]
            rw [e]
            exact top_nofuel f t rows hnt (by omega)
          · have hcm' : ∀ c, tk ≠ .comment c := fun c h => hcm ⟨c, h⟩
            rw [RefineAscTop.parseTop_other f tk t rows hlp hrp hcm']
            intro h; cases h

/-- **the model never runs out of fuel** when its fuel is at least `2·#tokens + 2` -/
theorem convertWith_nofuel (N : Nat) (toks : List Tok) (hnb : NoBad toks) (hN : 2 * toks.length + 2 ≤ N) :
    C15.convertWith N toks ≠ .error .fuel := by
  unfold C15.convertWith
  obtain ⟨k1, k2⟩ := skip_props N toks hnb
  refine NF_bind _ _ (k2 (by omega)) fun t0 h0 => ?_
  have s0 := k1 t0 h0
  have n0 := noBad_suffix hnb s0
  have l0 := suffix_len s0
  refine NF_bind _ _ (expectLp_NF _) fun t1 h1 => ?_
  obtain ⟨s1, l1⟩ := expectLp_suffix t0 t1 n0 h1
  refine NF_bind _ _ (top_nofuel N t1 [] (noBad_suffix n0 s1) (by omega)) fun r hr => ?_
  split
  · intro h; cases h
  · exact NF_bind _ _ (adv_NF _) fun _ _ => NF_ok _
  · intro h; cases h

end RefineAscFuel
