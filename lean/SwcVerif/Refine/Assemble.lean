import SwcVerif.Gen.AlgoAssemble
import SwcVerif.Model.Assemble
import SwcVerif.Refine.PyLemmas
/-! # Refinement: the generated `BranchTreeAssembler.__call__` (`Gen/AlgoAssemble.lean`) builds the table of `Asm.assemble`

The generated definition works on the branch tree as DATA (the two topology columns of `x`, the dictionary `x.branches`, a branch =
the list of its sample handles), with `self.pair` a state-passing callback and the two duplicate tests as function parameters.
`Rep` states that a key node handle `h` of that data represents the rose tree `t : Asm.BT` the model takes as input: the kids of `t`
are the children of `h` IN THE ORDER IN WHICH `pair` RETURNS THEM and `k.m` is the number of samples of the paired branch that survive
the trimming `br[s:e]`.  For every such input the generated function returns ids `0 .. n-1` and the parent list `Asm.assemble t`,
and the fuel `t.size + 1` suffices. -/
namespace RefineAsm
open Py Gen.Algo Asm

theorem node_detach_eq (h : Int) : node_detach h = some ⟨0, -1⟩ := by
  simp [node_detach, node_detach.body, Py.seq, Py.bind, Py.idx, Py.normIdx, Py.finish]

theorem idx_neg_one {α : Type} (l : List α) (x : α) : Py.idx (l ++ [x]) (-1) = some x := by
  simp [Py.idx, Py.normIdx]

/-- the record the reindexing loop writes at position `j` of a branch allocated from table length `N` on -/
def mk (N : Int) (j : Nat) : DNode := ⟨N + (j : Int), N + (j : Int) - 1⟩

section
variable {σ : Type} [Inhabited σ] (pair : σ → List (List Int) → List Int → σ × List ((List Int) × Int))
  (dupFirst dupLast : List Int → Int → Bool)

/-- `[n.detach() for n in br[s:e]]` -/
theorem for1_loop : ∀ (xs : List Int) (v : bt_assemble.V σ),
    forEach (bt_assemble.for1 pair dupFirst dupLast) xs v =
      .next { v with c6_ := v.c6_ ++ List.replicate xs.length ⟨0, -1⟩, n_c5 := xs.getLast?.getD v.n_c5 } := by
  intro xs
  induction xs with
  | nil => intro v; simp [forEach]
  | cons x xs ih =>
    intro v
    simp only [forEach, bt_assemble.for1, node_detach_eq, Py.bind]
    rw [ih]
    simp [List.replicate_succ, List.getLast?_cons]

/-- `for i, n in enumerate(br_nodes): n.id = len(nodes) + i; n.pid = len(nodes) + i - 1` (the elements are updated in place) -/
theorem for2_loop : ∀ (todo done : List DNode) (v : bt_assemble.V σ), v.br_nodes = done ++ todo →
    forEach (bt_assemble.for2 pair dupFirst dupLast) ((List.range todo.length).map (fun (k : Nat) => ((done.length + k : Nat) : Int))) v =
      .next { v with br_nodes := done ++ (List.range todo.length).map (fun k => mk (Py.len v.nodes) (done.length + k)),
                     i := (((List.range todo.length).map (fun (k : Nat) => ((done.length + k : Nat) : Int))).getLast?).getD v.i,
                     n := (((List.range todo.length).map (fun k => mk (Py.len v.nodes) (done.length + k))).getLast?).getD v.n } := by
  intro todo
  induction todo with
  | nil =>
    intro done v h
    simp only [List.append_nil] at h
    subst h
    simp [forEach]
  | cons d ds ih =>
    intro done v h
    have hlen : done.length < v.br_nodes.length := by simp [h]
    have hget : v.br_nodes[done.length]? = some d := by simp [h]
    have e := ih (done ++ [mk (Py.len v.nodes) done.length])
      { v with i := (done.length : Int), n := mk (Py.len v.nodes) done.length,
               br_nodes := (done ++ [mk (Py.len v.nodes) done.length]) ++ ds } rfl
    simp only [List.length_cons, List.range_succ_eq_map, List.map_cons, List.map_map, forEach, Nat.add_zero, List.getLast?_cons,
      Option.getD_some]
    simp only [bt_assemble.for2, Py.seq, Py.bind, Py.idx_nat _ _ hlen, hget, Py.setIdx_nat _ _ _ hlen]
    have hset : v.br_nodes.set done.length (mk (Py.len v.nodes) done.length) = (done ++ [mk (Py.len v.nodes) done.length]) ++ ds := by
      simp [h]
    have key : ∀ k, done.length + (0 + 1) + k = done.length + (k + 1) := by intro k; omega
    simp only [List.length_append, List.length_cons, List.length_nil] at e
    simp only [mk, Py.len_eq, key] at e hset ⊢
    rw [hset]
    simp only [Function.comp_def, Nat.succ_eq_add_one, List.append_assoc, List.cons_append, List.nil_append] at e ⊢
    exact e

/-- the whole reindexing loop -/
theorem for2_all (L : List DNode) (v : bt_assemble.V σ) (h : v.br_nodes = L) :
    forEach (bt_assemble.for2 pair dupFirst dupLast) (Py.range (Py.len L)) v =
      .next { v with br_nodes := (List.range L.length).map (fun k => mk (Py.len v.nodes) k),
                     i := (((List.range L.length).map (fun (k : Nat) => (k : Int))).getLast?).getD v.i,
                     n := (((List.range L.length).map (fun k => mk (Py.len v.nodes) k)).getLast?).getD v.n } := by
  have := for2_loop pair dupFirst dupLast L [] v (by simpa using h)
  simpa using this

/-- the samples of `br` that survive the trimming `br[s:e]` (`s`, `e` from the two duplicate tests) -/
def trim (br : List Int) (h c : Int) : List Int :=
  Py.slice br (some (if dupFirst br h then (1 : Int) else 0)) (if dupLast br c then some (-(1 : Int)) else none)

/-- rows of one branch as detached nodes: ids `N ..`, the first hangs off `p`, every further one off its predecessor -/
def chainNodes (N p : Int) (m : Nat) : List DNode := ⟨N, p⟩ :: (List.range m).map (fun k => mk N (k + 1))

theorem idx_zero_cons {α : Type} (a : α) (l : List α) : Py.idx (a :: l) 0 = some a := by simp [Py.idx, Py.normIdx]
theorem setIdx_zero_cons {α : Type} (a x : α) (l : List α) : Py.setIdx (a :: l) 0 x = some (x :: l) := by simp [Py.setIdx, Py.normIdx]

theorem idx_last_chain (N p : Int) (m : Nat) : ∃ q, Py.idx (chainNodes N p m) (-1) = some ⟨N + (m : Int), q⟩ := by
  cases m with
  | zero => exact ⟨p, by simpa [chainNodes] using idx_neg_one ([] : List DNode) ⟨N, p⟩⟩
  | succ m =>
    refine ⟨N + ((m + 1 : Nat) : Int) - 1, ?_⟩
    have : chainNodes N p (m + 1) = (⟨N, p⟩ :: (List.range m).map (fun k => mk N (k + 1))) ++ [mk N (m + 1)] := by
      simp [chainNodes, List.range_succ]
    rw [this, idx_neg_one]
    simp [mk]

theorem for3_body (br : List Int) (c : Int) (v : bt_assemble.V σ) : ∃ v1,
    bt_assemble.for3 pair dupFirst dupLast (br, c) v = .next v1 ∧
    v1.nodes = v.nodes ++ chainNodes (Py.len v.nodes) v.pid_new (trim dupFirst dupLast br v.n_orig c).length ∧
    v1.stack = v.stack ++ [(c, Py.len v.nodes + ((trim dupFirst dupLast br v.n_orig c).length : Int))] ∧
    v1.ids = v.ids ∧ v1.pids = v.pids ∧ v1.branches = v.branches ∧ v1.pid_new = v.pid_new ∧ v1.n_orig = v.n_orig ∧ v1.cbs = v.cbs := by
  simp only [bt_assemble.for3, Py.seq, Py.bindS, Py.bind, for1_loop, node_detach_eq]
  rw [for2_all pair dupFirst dupLast _ _ ?h]
  case h => rfl
  simp only [List.length_append, List.length_replicate, List.length_cons, List.length_nil, List.nil_append,
    List.range_succ_eq_map, List.map_cons, idx_zero_cons, setIdx_zero_cons]
  simp only [trim]
  generalize (slice br (some (if dupFirst br v.n_orig = true then 1 else 0)) (if dupLast br c = true then some (-1) else none)).length = M
  have hch : ({ id := (mk (len v.nodes) 0).id, pid := v.pid_new } :: List.map (fun k => mk (len v.nodes) k) (List.map Nat.succ (List.range M)))
      = chainNodes (len v.nodes) v.pid_new M := by
    simp [chainNodes, mk, List.map_map, Function.comp_def]
  rw [hch]
  obtain ⟨q, hq⟩ := idx_last_chain (len v.nodes) v.pid_new M
  rw [hq]
  exact ⟨_, rfl, rfl, rfl, rfl, rfl, rfl, rfl, rfl, rfl⟩

end
end RefineAsm
