import SwcVerif.Gen.AlgoAssemble
import SwcVerif.Model.Assemble
import SwcVerif.Refine.PyLemmas
/-! # Refinement: the generated `BranchTreeAssembler.__call__` (`Gen/AlgoAssemble.lean`) builds the table of `Asm.assemble`

The generated definition works on the branch tree as DATA (the two topology columns of `x`, the dictionary `x.branches`, a branch =
the list of its sample handles), with `self.pair` a state-passing callback and the two duplicate tests as function parameters.
`Rep` states that a key node handle `h` of that data represents the rose tree `t : Asm.BT` the model takes as input: the kids of `t`
are the children of `h` IN THE ORDER IN WHICH `pair` RETURNS THEM and `k.m` is the number of samples of the paired branch that survive
the trimming `br[s:e]`.  For every such input the generated function returns ids `0 .. n-1` and the parent list `Asm.assemble t`,
and the fuel `t.size + 1` suffices. -/
namespace RefineAsm
open Py Gen.Algo Asm

theorem node_detach_eq (h : Int) : node_detach h = some ⟨0, -1⟩ := by
  simp [node_detach, node_detach.body, Py.seq, Py.bind, Py.idx, Py.normIdx, Py.finish]

theorem idx_neg_one {α : Type} (l : List α) (x : α) : Py.idx (l ++ [x]) (-1) = some x := by
  simp [Py.idx, Py.normIdx]

/-- the record the reindexing loop writes at position `j` of a branch allocated from table length `N` on -/
def mk (N : Int) (j : Nat) : DNode := ⟨N + (j : Int), N + (j : Int) - 1⟩

section
variable {σ : Type} [Inhabited σ] (pair : σ → List (List Int) → List Int → σ × List ((List Int) × Int))
  (dupFirst dupLast : List Int → Int → Bool)

/-- `[n.detach() for n in br[s:e]]` -/
theorem for1_loop : ∀ (xs : List Int) (v : bt_assemble.V σ),
    forEach (bt_assemble.for1 pair dupFirst dupLast) xs v =
      .next { v with c6_ := v.c6_ ++ List.replicate xs.length ⟨0, -1⟩, n_c5 := xs.getLast?.getD v.n_c5 } := by
  intro xs
  induction xs with
  | nil => intro v; simp [forEach]
  | cons x xs ih =>
    intro v
    simp only [forEach, bt_assemble.for1, node_detach_eq, Py.bind]
    rw [ih]
    simp [List.replicate_succ, List.getLast?_cons]

/-- `for i, n in enumerate(br_nodes): n.id = len(nodes) + i; n.pid = len(nodes) + i - 1` (the elements are updated in place) -/
theorem for2_loop : ∀ (todo done : List DNode) (v : bt_assemble.V σ), v.br_nodes = done ++ todo →
    forEach (bt_assemble.for2 pair dupFirst dupLast) ((List.range todo.length).map (fun (k : Nat) => ((done.length + k : Nat) : Int))) v =
      .next { v with br_nodes := done ++ (List.range todo.length).map (fun k => mk (Py.len v.nodes) (done.length + k)),
                     i := (((List.range todo.length).map (fun (k : Nat) => ((done.length + k : Nat) : Int))).getLast?).getD v.i,
                     n := (((List.range todo.length).map (fun k => mk (Py.len v.nodes) (done.length + k))).getLast?).getD v.n } := by
  intro todo
  induction todo with
  | nil =>
    intro done v h
    simp only [List.append_nil] at h
    subst h
    simp [forEach]
  | cons d ds ih =>
    intro done v h
    have hlen : done.length < v.br_nodes.length := by simp [h]
    have hget : v.br_nodes[done.length]? = some d := by simp [h]
    have e := ih (done ++ [mk (Py.len v.nodes) done.length])
      { v with i := (done.length : Int), n := mk (Py.len v.nodes) done.length,
               br_nodes := (done ++ [mk (Py.len v.nodes) done.length]) ++ ds } rfl
    simp only [List.length_cons, List.range_succ_eq_map, List.map_cons, List.map_map, forEach, Nat.add_zero, List.getLast?_cons,
      Option.getD_some]
    simp only [bt_assemble.for2, Py.seq, Py.bind, Py.idx_nat _ _ hlen, hget, Py.setIdx_nat _ _ _ hlen]
    have hset : v.br_nodes.set done.length (mk (Py.len v.nodes) done.length) = (done ++ [mk (Py.len v.nodes) done.length]) ++ ds := by
      simp [h]
    have key : ∀ k, done.length + (0 + 1) + k = done.length + (k + 1) := by intro k; omega
    simp only [List.length_append, List.length_cons, List.length_nil] at e
    simp only [mk, Py.len_eq, key] at e hset ⊢
    rw [hset]
    simp only [Function.comp_def, Nat.succ_eq_add_one, List.append_assoc, List.cons_append, List.nil_append] at e ⊢
    exact e

/-- the whole reindexing loop -/
theorem for2_all (L : List DNode) (v : bt_assemble.V σ) (h : v.br_nodes = L) :
    forEach (bt_assemble.for2 pair dupFirst dupLast) (Py.range (Py.len L)) v =
      .next { v with br_nodes := (List.range L.length).map (fun k => mk (Py.len v.nodes) k),
                     i := (((List.range L.length).map (fun (k : Nat) => (k : Int))).getLast?).getD v.i,
                     n := (((List.range L.length).map (fun k => mk (Py.len v.nodes) k)).getLast?).getD v.n } := by
  have := for2_loop pair dupFirst dupLast L [] v (by simpa using h)
  simpa using this

/-- the samples of `br` that survive the trimming `br[s:e]` (`s`, `e` from the two duplicate tests) -/
def trim (br : List Int) (h c : Int) : List Int :=
  Py.slice br (some (if dupFirst br h then (1 : Int) else 0)) (if dupLast br c then some (-(1 : Int)) else none)

/-- rows of one branch as detached nodes: ids `N ..`, the first hangs off `p`, every further one off its predecessor -/
def chainNodes (N p : Int) (m : Nat) : List DNode := ⟨N, p⟩ :: (List.range m).map (fun k => mk N (k + 1))

theorem idx_zero_cons {α : Type} (a : α) (l : List α) : Py.idx (a :: l) 0 = some a := by simp [Py.idx, Py.normIdx]
theorem setIdx_zero_cons {α : Type} (a x : α) (l : List α) : Py.setIdx (a :: l) 0 x = some (x :: l) := by simp [Py.setIdx, Py.normIdx]

theorem idx_last_chain (N p : Int) (m : Nat) : ∃ q, Py.idx (chainNodes N p m) (-1) = some ⟨N + (m : Int), q⟩ := by
  cases m with
  | zero => exact ⟨p, by simpa [chainNodes] using idx_neg_one ([] : List DNode) ⟨N, p⟩⟩
  | succ m =>
    refine ⟨N + ((m + 1 : Nat) : Int) - 1, ?_⟩
    have : chainNodes N p (m + 1) = (⟨N, p⟩ :: (List.range m).map (fun k => mk N (k + 1))) ++ [mk N (m + 1)] := by
      simp [chainNodes, List.range_succ]
    rw [this, idx_neg_one]
    simp [mk]

theorem for3_body (br : List Int) (c : Int) (v : bt_assemble.V σ) : ∃ v1,
    bt_assemble.for3 pair dupFirst dupLast (br, c) v = .next v1 ∧
    v1.nodes = v.nodes ++ chainNodes (Py.len v.nodes) v.pid_new (trim dupFirst dupLast br v.n_orig c).length ∧
    v1.stack = v.stack ++ [(c, Py.len v.nodes + ((trim dupFirst dupLast br v.n_orig c).length : Int))] ∧
    v1.ids = v.ids ∧ v1.pids = v.pids ∧ v1.branches = v.branches ∧ v1.pid_new = v.pid_new ∧ v1.n_orig = v.n_orig ∧ v1.cbs = v.cbs := by
  simp only [bt_assemble.for3, Py.seq, Py.bindS, Py.bind, for1_loop, node_detach_eq]
  rw [for2_all pair dupFirst dupLast _ _ ?h]
  case h => rfl
  simp only [List.length_append, List.length_replicate, List.length_cons, List.length_nil, List.nil_append,
    List.range_succ_eq_map, List.map_cons, idx_zero_cons, setIdx_zero_cons]
  simp only [trim]
  generalize (slice br (some (if dupFirst br v.n_orig = true then 1 else 0)) (if dupLast br c = true then some (-1) else none)).length = M
  have hch : ({ id := (mk (len v.nodes) 0).id, pid := v.pid_new } :: List.map (fun k => mk (len v.nodes) k) (List.map Nat.succ (List.range M)))
      = chainNodes (len v.nodes) v.pid_new M := by
    simp [chainNodes, mk, List.map_map, Function.comp_def]
  rw [hch]
  obtain ⟨q, hq⟩ := idx_last_chain (len v.nodes) v.pid_new M
  rw [hq]
  exact ⟨_, rfl, rfl, rfl, rfl, rfl, rfl, rfl, rfl, rfl⟩

/-- the detached nodes built so far are the rows `out` of the model: ids are positions, pids the model's parent list -/
def Tab (nodes : List DNode) (out : List Int) : Prop :=
  nodes.map (·.pid) = out ∧ nodes.map (·.id) = (List.range out.length).map (fun (k : Nat) => (k : Int))

theorem Tab.length {nodes : List DNode} {out : List Int} (h : Tab nodes out) : nodes.length = out.length := by
  have := congrArg List.length h.1
  simpa using this

theorem Tab.chain {nodes : List DNode} {out : List Int} (h : Tab nodes out) (p m : Nat) :
    Tab (nodes ++ chainNodes (out.length : Int) (p : Int) m) (out ++ chainRows p out.length m) := by
  refine ⟨?_, ?_⟩
  · simp only [List.map_append, h.1, chainNodes, chainRows, List.map_cons, List.map_map]
    congr 2
    apply List.map_congr_left
    intro k _
    simp [mk] <;> omega
  · simp only [List.map_append, h.2, chainNodes, chainRows, List.map_cons, List.map_map, List.length_append, List.length_cons,
      List.length_map, List.length_range]
    rw [List.range_add, List.range_succ_eq_map]
    simp only [List.map_append, List.map_cons, List.map_map]
    congr 2

/-- the pairs returned by `pair` carry the sample counts of the kids `ks`, in order -/
def Lens (h : Int) : List (List Int × Int) → List BT → Prop
  | [], [] => True
  | pr :: prs, k :: ks => (trim dupFirst dupLast pr.1 h pr.2).length = k.m ∧ Lens h prs ks
  | _, _ => False

/-- the `for br, c in pairs` loop: the model's `chains` -/
theorem for3_loop (h : Int) (p : Nat) : ∀ (prs : List (List Int × Int)) (ks : List BT),
    Lens dupFirst dupLast h prs ks →
    ∀ (v : bt_assemble.V σ) (out : List Int), Tab v.nodes out → v.n_orig = h → v.pid_new = (p : Int) →
    ∃ v', forEach (bt_assemble.for3 pair dupFirst dupLast) prs v = .next v' ∧
      Tab v'.nodes (out ++ (chains ks p out.length).1) ∧
      v'.stack = v.stack ++ List.zip (prs.map (·.2)) ((chains ks p out.length).2.map (fun (k : Nat) => (k : Int))) ∧
      v'.ids = v.ids ∧ v'.pids = v.pids ∧ v'.branches = v.branches ∧ v'.cbs = v.cbs := by
  intro prs
  induction prs with
  | nil =>
    intro ks hF v out ht _ _
    cases ks with
    | nil => exact ⟨v, by simp [forEach], by simpa [chains] using ht, by simp [chains], rfl, rfl, rfl, rfl⟩
    | cons k ks => simp [Lens] at hF
  | cons pr prs ih =>
    intro ks hF v out ht hno hpn
    cases ks with
    | nil => simp [Lens] at hF
    | cons k ks =>
    obtain ⟨hpk, hF'⟩ := hF
    obtain ⟨br, c⟩ := pr
    obtain ⟨v1, e1, hn, hs, hi, hp, hb, hpn1, hno1, hc⟩ := for3_body pair dupFirst dupLast br c v
    simp only [hno] at hn hs
    simp only [] at hpk
    rw [hpk, hpn, Py.len_eq, ht.length] at hn
    rw [hpk, Py.len_eq, ht.length] at hs
    have ht1 : Tab v1.nodes (out ++ chainRows p out.length k.m) := by rw [hn]; exact ht.chain p k.m
    obtain ⟨v', e', ht', hs', hi', hp', hb', hc'⟩ := ih ks hF' v1 _ ht1 (by rw [hno1, hno]) (by rw [hpn1, hpn])
    refine ⟨v', ?_, ?_, ?_, by rw [hi', hi], by rw [hp', hp], by rw [hb', hb], by rw [hc', hc]⟩
    · simp only [forEach, e1]; exact e'
    · have e : (out ++ chainRows p out.length k.m).length = out.length + k.m + 1 := by
        simp [chainRows]; omega
      rw [e] at ht'
      simpa [chains, List.append_assoc] using ht'
    · have e : (out ++ chainRows p out.length k.m).length = out.length + k.m + 1 := by
        simp [chainRows]; omega
      rw [e] at hs'
      rw [hs', hs]
      simp [chains]

variable (ids pids : List Int) (branches : Py.Dict Int (List (List Int)))

mutual
/-- **the key node handle `h` of the data represents the rose tree `t`** (the model's input): the kids of `t` are the children of `h`
in the order in which `pair` returns them (whatever its state), `k.m` is the number of samples of the paired branch that survive
`br[s:e]`, hereditarily -/
def Rep : BT → Int → Prop
  | .node _ _ ks, h => ∃ cs key prs, node_children ids pids h = some cs ∧ Py.idx ids h = some key ∧
      (∀ s : σ, (pair s (Py.Dict.getD branches key []) cs).2 = prs) ∧ RepL ks h prs
def RepL : List BT → Int → List (List Int × Int) → Prop
  | [], _, [] => True
  | k :: ks, h, pr :: prs => (trim dupFirst dupLast pr.1 h pr.2).length = k.m ∧ Rep k pr.2 ∧ RepL ks h prs
  | _ :: _, _, [] => False
  | [], _, _ :: _ => False
end

theorem RepL.lens : ∀ (ks : List BT) (h : Int) (prs : List (List Int × Int)),
    RepL pair dupFirst dupLast ids pids branches ks h prs → Lens dupFirst dupLast h prs ks := by
  intro ks
  induction ks with
  | nil => intro h prs hr; cases prs <;> simp_all [RepL, Lens]
  | cons k ks ih =>
    intro h prs hr
    cases prs with
    | nil => simp [RepL] at hr
    | cons pr prs => simp only [RepL] at hr; exact ⟨hr.1, ih h prs hr.2.2⟩

/-- the columns of the branch tree and its dictionary are never written -/
def Fix (v : bt_assemble.V σ) : Prop := v.ids = ids ∧ v.pids = pids ∧ v.branches = branches

/-- the variables after `n_orig, pid_new = stack.pop()`, `children = n_orig.children()` and the call of `pair` -/
def afterPop (v : bt_assemble.V σ) (rest : List (Int × Int)) (h sid : Int) (cs : List Int) (s' : σ) : bt_assemble.V σ :=
  { v with stack := rest, n_orig := h, pid_new := sid, children := cs, cbs := s' }

theorem chains_length : ∀ (ks : List BT) (p L : Nat), (chains ks p L).2.length = ks.length := by
  intro ks
  induction ks with
  | nil => intro p L; rfl
  | cons k ks ih => intro p L; simp [chains, ih]

/-- one iteration of the `while len(stack)` loop = one step of the model's machine -/
theorem while_step (i : Int) (m : Nat) (ks : List BT) (h : Int) (sid : Nat) (rest : List (Int × Int)) (v : bt_assemble.V σ)
    (out : List Int) (hrep : Rep pair dupFirst dupLast ids pids branches (.node i m ks) h)
    (hst : v.stack = rest ++ [(h, (sid : Int))]) (ht : Tab v.nodes out) (hfix : Fix ids pids branches v) :
    ∃ prs v1, RepL pair dupFirst dupLast ids pids branches ks h prs ∧
      bt_assemble.while4_cond pair dupFirst dupLast v = some true ∧
      bt_assemble.while4_body pair dupFirst dupLast v = .next v1 ∧
      Tab v1.nodes (out ++ (chains ks sid out.length).1) ∧
      v1.stack = rest ++ List.zip (prs.map (·.2)) ((chains ks sid out.length).2.map (fun (k : Nat) => (k : Int))) ∧
      Fix ids pids branches v1 := by
  simp only [Rep] at hrep
  obtain ⟨cs, key, prs, hch, hkey, hpair, hL⟩ := hrep
  obtain ⟨hi, hp, hb⟩ := hfix
  have hbody : bt_assemble.while4_body pair dupFirst dupLast v =
      forEach (bt_assemble.for3 pair dupFirst dupLast) prs (afterPop v rest h sid cs (pair v.cbs (Py.Dict.getD branches key []) cs).1) := by
    simp only [bt_assemble.while4_body, Py.seq, Py.bind, hst, Py.pop_append, hi, hp, hb, hch, hkey, hpair v.cbs, afterPop]
  obtain ⟨v', e, ht', hs', hi', hp', hb', _⟩ := for3_loop pair dupFirst dupLast h sid prs ks (hL.lens) 
    (afterPop v rest h sid cs (pair v.cbs (Py.Dict.getD branches key []) cs).1) out ht rfl rfl
  refine ⟨prs, v', hL, ?_, by rw [hbody, e], ht', hs', ?_⟩
  · simp [bt_assemble.while4_cond, hst]; omega
  · exact ⟨by rw [hi']; exact hi, by rw [hp']; exact hp, by rw [hb']; exact hb⟩

theorem whileF_step {V R : Type} (c : V → Option Bool) (b : V → Res V R) (n : Nat) (v v1 : V)
    (hc : c v = some true) (hb : b v = .next v1) : whileF c b (n + 1) v = whileF c b n v1 := by
  simp [whileF, hc, hb]

-- **the generated loop is the model's structural recursion**: with `(h, sid)` on top of the stack, `t.size` iterations pop it,
-- append exactly the rows `sub t sid (length so far)` and leave the rest of the stack alone (any amount `f` of fuel may remain)
mutual
theorem gen_sub (t : BT) (h : Int) (sid : Nat) (rest : List (Int × Int)) (v : bt_assemble.V σ) (out : List Int) (f : Nat)
    (hrep : Rep pair dupFirst dupLast ids pids branches t h) (hst : v.stack = rest ++ [(h, (sid : Int))])
    (ht : Tab v.nodes out) (hfix : Fix ids pids branches v) :
    ∃ v', whileF (bt_assemble.while4_cond pair dupFirst dupLast) (bt_assemble.while4_body pair dupFirst dupLast) (t.size + f) v =
        whileF (bt_assemble.while4_cond pair dupFirst dupLast) (bt_assemble.while4_body pair dupFirst dupLast) f v' ∧
      v'.stack = rest ∧ Tab v'.nodes (out ++ sub t sid out.length) ∧ Fix ids pids branches v' := by
  match t with
  | .node i m ks =>
    obtain ⟨prs, v1, hL, hc, hb, ht1, hs1, hfix1⟩ := while_step pair dupFirst dupLast ids pids branches i m ks h sid rest v out hrep hst ht hfix
    have e1 : (BT.node i m ks).size + f = (Asm.sizeL ks + f) + 1 := by simp [BT.size]; omega
    rw [e1, whileF_step _ _ _ _ _ hc hb]
    obtain ⟨v', e, hs', ht', hfix'⟩ := gen_subRev ks h prs (chains ks sid out.length).2 (chains_length ks sid out.length) rest v1 _ f hL hs1 ht1 hfix1
    refine ⟨v', e, hs', ?_, hfix'⟩
    simpa [sub, List.append_assoc] using ht'
theorem gen_subRev (ks : List BT) (h : Int) (prs : List (List Int × Int)) (cids : List Nat) (hl : cids.length = ks.length)
    (rest : List (Int × Int)) (v : bt_assemble.V σ) (out : List Int) (f : Nat)
    (hrep : RepL pair dupFirst dupLast ids pids branches ks h prs)
    (hst : v.stack = rest ++ List.zip (prs.map (·.2)) (cids.map (fun (k : Nat) => (k : Int))))
    (ht : Tab v.nodes out) (hfix : Fix ids pids branches v) :
    ∃ v', whileF (bt_assemble.while4_cond pair dupFirst dupLast) (bt_assemble.while4_body pair dupFirst dupLast) (Asm.sizeL ks + f) v =
        whileF (bt_assemble.while4_cond pair dupFirst dupLast) (bt_assemble.while4_body pair dupFirst dupLast) f v' ∧
      v'.stack = rest ∧ Tab v'.nodes (out ++ subRev ks cids out.length) ∧ Fix ids pids branches v' := by
  match ks, prs, cids, hl, hrep, hst with
  | [], [], _, _, _, hst => exact ⟨v, by simp [Asm.sizeL], by simpa using hst, by simpa [subRev] using ht, hfix⟩
  | [], _ :: _, _, _, hrep, _ => simp [RepL] at hrep
  | _ :: _, [], _, _, hrep, _ => simp [RepL] at hrep
  | k :: ks, _ :: _, [], hl, _, _ => simp at hl
  | k :: ks, pr :: prs, cid :: cids, hl, hrep, hst =>
    simp only [RepL] at hrep
    obtain ⟨_, hk, hL⟩ := hrep
    have e : Asm.sizeL (k :: ks) + f = Asm.sizeL ks + (k.size + f) := by simp [Asm.sizeL]; omega
    have hst1 : v.stack = (rest ++ [(pr.2, (cid : Int))]) ++ List.zip (prs.map (·.2)) (cids.map (fun (k : Nat) => (k : Int))) := by
      simpa using hst
    obtain ⟨v1, e1, hs1, ht1, hfix1⟩ := gen_subRev ks h prs cids (by simpa using hl) (rest ++ [(pr.2, (cid : Int))]) v out (k.size + f) hL hst1 ht hfix
    obtain ⟨v', e', hs', ht', hfix'⟩ := gen_sub k pr.2 cid rest v1 _ f hk hs1 ht1 hfix1
    refine ⟨v', by rw [e, e1, e'], hs', ?_, hfix'⟩
    simpa [subRev, List.append_assoc] using ht'
end

/-- `[n.id for n in nodes]` -/
theorem for5_loop : ∀ (xs : List DNode) (v : bt_assemble.V σ),
    forEach (bt_assemble.for5 pair dupFirst dupLast) xs v =
      .next { v with c16_ := v.c16_ ++ xs.map (·.id), n := xs.getLast?.getD v.n } := by
  intro xs
  induction xs with
  | nil => intro v; simp [forEach]
  | cons x xs ih => intro v; simp only [forEach, bt_assemble.for5]; rw [ih]; simp [List.getLast?_cons]

/-- `[n.pid for n in nodes]` -/
theorem for6_loop : ∀ (xs : List DNode) (v : bt_assemble.V σ),
    forEach (bt_assemble.for6 pair dupFirst dupLast) xs v =
      .next { v with c18_ := v.c18_ ++ xs.map (·.pid), n := xs.getLast?.getD v.n } := by
  intro xs
  induction xs with
  | nil => intro v; simp [forEach]
  | cons x xs ih => intro v; simp only [forEach, bt_assemble.for6]; rw [ih]; simp [List.getLast?_cons]

/-- the variables when the `while` loop is entered -/
def init0 (s0 : σ) : bt_assemble.V σ :=
  { (default : bt_assemble.V σ) with ids := ids, pids := pids, branches := branches, cbs := s0, nodes := [⟨0, -1⟩], stack := [((0 : Int), (0 : Int))] }

/-- **refinement**: on every input that represents the rose tree `root` (at the handle 0 of the soma), for every initial state of the
`pair` callback and every fuel ≥ `root.size + 1`, the generated `BranchTreeAssembler.__call__` returns the ids `0 .. n-1` and the
parent list `-1 :: sub root 0 1` (= `Asm.assemble root`, `C16Asm.assemble_eq`) -/
theorem assemble_refines (root : BT) (s0 : σ) (fuel : Nat) (hf : root.size + 1 ≤ fuel)
    (hrep : Rep pair dupFirst dupLast ids pids branches root 0) :
    ∃ s', bt_assemble pair dupFirst dupLast fuel ids pids branches s0 =
      some (s', ((List.range (1 + (sub root 0 1).length)).map (fun (k : Nat) => (k : Int)), -1 :: sub root 0 1)) := by
  obtain ⟨f, rfl⟩ : ∃ f, fuel = root.size + (f + 1) := ⟨fuel - root.size - 1, by omega⟩
  have hinit : bt_assemble.body pair dupFirst dupLast (root.size + (f + 1))
        { (default : bt_assemble.V σ) with ids := ids, pids := pids, branches := branches, cbs := s0 } =
      (Py.seq (Py.whileF (bt_assemble.while4_cond pair dupFirst dupLast) (bt_assemble.while4_body pair dupFirst dupLast) (root.size + (f + 1)))
        (fun (v : bt_assemble.V σ) =>
          Py.bindS (((Py.seq (fun (v : bt_assemble.V σ) => .next { v with c16_ := ([] : List Int) })
            (fun (v : bt_assemble.V σ) => Py.forEach (bt_assemble.for5 pair dupFirst dupLast) v.nodes v))) v) fun (v : bt_assemble.V σ) =>
          Py.bindS (((Py.seq (fun (v : bt_assemble.V σ) => .next { v with c18_ := ([] : List Int) })
            (fun (v : bt_assemble.V σ) => Py.forEach (bt_assemble.for6 pair dupFirst dupLast) v.nodes v))) v) fun (v : bt_assemble.V σ) =>
          .ret v (v.c16_, v.c18_))) (init0 ids pids branches s0) := by
    simp only [bt_assemble.body, Py.seq, Py.bind, node_detach_eq, init0]
  obtain ⟨v', e, hs', ht', _⟩ := gen_sub pair dupFirst dupLast ids pids branches root 0 0 [] (init0 ids pids branches s0) [-1] (f + 1)
    hrep (by simp [init0]) (by simp [init0, Tab]) (by simp [init0, Fix])
  have hend : whileF (bt_assemble.while4_cond pair dupFirst dupLast) (bt_assemble.while4_body pair dupFirst dupLast) (f + 1) v' = .next v' := by
    simp [whileF, bt_assemble.while4_cond, hs']
  rw [hend] at e
  refine ⟨v'.cbs, ?_⟩
  simp only [bt_assemble, hinit]
  simp only [Py.seq, e, Py.bindS, for5_loop, for6_loop, Py.finish, List.nil_append, Option.map_some]
  obtain ⟨h1, h2⟩ := ht'
  simp only [List.cons_append, List.nil_append, List.length_cons] at h1 h2
  rw [h1, h2]
  simp only [List.length_nil, Nat.zero_add, Nat.add_comm (sub root 0 1).length 1]

end
end RefineAsm
