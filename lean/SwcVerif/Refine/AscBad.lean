import SwcVerif.Refine.AscFuel
import SwcVerif.Refine.AscLex
/-! C15 — texts on which the lexer RAISES (`.bad` in the model's token stream).  The real parser pulls tokens on demand, so the failing word
is only an error if the parser asks for it.  Two parts:
(a) MODEL: a run of the model on `t ++ .bad :: ext` against the run on `t` (relation `Ext`): as long as the short run has tokens left, the long
run is the same with `.bad :: ext` appended to the remaining tokens; as soon as the short run consumes its last token the long run is an error
(`adv` looks one token ahead = the lexer raises when the parser pulls the failing word).
(b) GENERATED CODE: `RefineAscTop.parse_refines` with the parser's final `next_token` position exposed (`convertWithL` returns the remaining
tokens after the closing bracket), hence `AlgoRun.ascConvertPrefix` on the tokens before the failure = the model on the whole stream. -/
namespace RefineAscBad
open Asc RefineAscParse RefineAscLoop
open C15 (ok_bind error_bind)

/-- where the remaining tokens sit in a result, and how `.bad :: ext` is appended to them -/
structure Sh (α : Type) where
  lo : α → List Tok
  ex : α → α

def shT (ext : List Tok) : Sh (List Tok) := ⟨id, fun a => a ++ .bad :: ext⟩
def shP (ext : List Tok) {β : Type} : Sh (List Tok × β) := ⟨Prod.fst, fun a => (a.1 ++ .bad :: ext, a.2)⟩
def shN (ext : List Tok) {β : Type} : Sh (β × List Tok) := ⟨Prod.snd, fun a => (a.1, a.2 ++ .bad :: ext)⟩

/-- `short` = a run on `t`, `long` = the run on `t ++ .bad :: ext` (with at least as much fuel; nothing is claimed when the short run has run
out of fuel) -/
def Ext {α : Type} (S : Sh α) (short long : Except Err α) : Prop :=
  match short with
  | .error e => e ≠ .fuel → ∃ e', long = .error e'
  | .ok a => if S.lo a = [] then ∃ e', long = .error e' else long = .ok (S.ex a)

/-- an error, or no token left -/
def Dead {α : Type} (S : Sh α) (r : Except Err α) : Prop := ∀ a, r = .ok a → S.lo a = []

theorem Dead_error {α : Type} (S : Sh α) (e : Err) : Dead S (.error e) := by intro a h; cases h

theorem Ext_error {α : Type} (S : Sh α) (e e' : Err) : Ext S (.error e) (.error e') := fun _ => ⟨e', rfl⟩

theorem Ext_ok {α : Type} (S : Sh α) (a : α) (h : S.lo a ≠ []) : Ext S (.ok a) (.ok (S.ex a)) := by
  show if S.lo a = [] then _ else _
  rw [if_neg h]

theorem Ext_bind {α β : Type} (S : Sh α) (T : Sh β) {x x' : Except Err α} {k k' : α → Except Err β}
    (hx : Ext S x x') (hd : ∀ a, S.lo a = [] → Dead T (k a))
    (hk : ∀ a, S.lo a ≠ [] → Ext T (k a) (k' (S.ex a))) : Ext T (x >>= k) (x' >>= k') := by
  cases x with
  | error e =>
    change e ≠ .fuel → ∃ e', x' >>= k' = .error e'
    intro he
    obtain ⟨e', rfl⟩ := hx he
    exact ⟨e', rfl⟩
  | ok a =>
    change Ext T (k a) (x' >>= k')
    have hx' : if S.lo a = [] then ∃ e', x' = .error e' else x' = .ok (S.ex a) := hx
    by_cases h : S.lo a = []
    · rw [if_pos h] at hx'
      obtain ⟨e', rfl⟩ := hx'
      change Ext T (k a) (.error e')
      have hdead := hd a h
      cases hka : k a with
      | error e2 => exact fun _ => ⟨e', rfl⟩
      | ok b =>
        have hb := hdead b hka
        show if T.lo b = [] then _ else _
        rw [if_pos hb]; exact ⟨e', rfl⟩
    · rw [if_neg h] at hx'
      subst hx'
      exact hk a h

variable (ext : List Tok)

/-! ### leaf functions -/

theorem adv_ext (t : List Tok) (ht : t ≠ []) : Ext (shT ext) (adv t) (adv (t ++ .bad :: ext)) := by
  obtain ⟨x, t', rfl⟩ := List.exists_cons_of_ne_nil ht
  cases t' with
  | nil => simp [adv, Ext, shT]
  | cons y t'' => cases y <;> simp [adv, Ext, shT]

theorem expectRp_ext (t : List Tok) (ht : t ≠ []) : Ext (shT ext) (expectRp t) (expectRp (t ++ .bad :: ext)) := by
  obtain ⟨x, t', rfl⟩ := List.exists_cons_of_ne_nil ht
  cases x
  case rp => exact adv_ext ext (.rp :: t') (by simp)
  all_goals exact Ext_error _ _ _

theorem expectLp_ext (t : List Tok) (ht : t ≠ []) : Ext (shT ext) (expectLp t) (expectLp (t ++ .bad :: ext)) := by
  obtain ⟨x, t', rfl⟩ := List.exists_cons_of_ne_nil ht
  cases x
  case lp => exact adv_ext ext (.lp :: t') (by simp)
  all_goals exact Ext_error _ _ _

/-- one level of `_parse_node` / `_parse_color`: the continuation after `adv` is a `match` on the remaining tokens that errs on `[]` -/
theorem adv_bind_ext {β : Type} (T : Sh β) (t : List Tok) (ht : t ≠ []) (k k' : List Tok → Except Err β)
    (hnil : ∃ e, k [] = .error e)
    (hk : ∀ y t1, Ext T (k (y :: t1)) (k' (y :: (t1 ++ .bad :: ext)))) :
    Ext T (adv t >>= k) (adv (t ++ .bad :: ext) >>= k') := by
  refine Ext_bind (shT ext) T (adv_ext ext t ht) ?_ ?_
  · intro a ha
    obtain ⟨e, he⟩ := hnil
    have : a = [] := ha
    subst this
    rw [he]; exact Dead_error _ _
  · intro a ha
    have ha' : a ≠ [] := ha
    obtain ⟨y, t1, rfl⟩ := List.exists_cons_of_ne_nil ha'
    exact hk y t1

theorem parseNode_ext (t : List Tok) (ht : t ≠ []) : Ext (shN ext) (parseNode t) (parseNode (t ++ .bad :: ext)) := by
  obtain ⟨x, t', rfl⟩ := List.exists_cons_of_ne_nil ht
  cases x
  case float a =>
    simp only [parseNode, List.cons_append]
    refine adv_bind_ext ext _ _ (by simp) _ _ ⟨_, rfl⟩ fun y t1 => ?_
    cases y
    case float b =>
      simp only []
      refine adv_bind_ext ext _ _ (by simp) _ _ ⟨_, rfl⟩ fun y t2 => ?_
      cases y
      case float c =>
        simp only []
        refine adv_bind_ext ext _ _ (by simp) _ _ ⟨_, rfl⟩ fun y t3 => ?_
        cases y
        case float d =>
          simp only []
          refine Ext_bind (shT ext) _ (adv_ext ext _ (by simp)) ?_ ?_
          · intro a4 h4
            have : a4 = [] := h4
            subst this
            exact Dead_error _ _
          · intro a4 h4
            refine Ext_bind (shT ext) _ (expectRp_ext ext _ h4) ?_ ?_
            · intro a5 h5 r hr
              cases hr
              exact h5
            · intro a5 h5
              exact Ext_ok (shN ext) _ h5
        all_goals exact Ext_error _ _ _
      all_goals exact Ext_error _ _ _
    all_goals exact Ext_error _ _ _
  all_goals exact Ext_error _ _ _

theorem parseColor_ext (t : List Tok) (ht : t ≠ []) : Ext (shT ext) (parseColor t) (parseColor (t ++ .bad :: ext)) := by
  obtain ⟨x, t', rfl⟩ := List.exists_cons_of_ne_nil ht
  cases x
  case literal a =>
    simp only [parseColor, List.cons_append]
    refine adv_bind_ext ext _ _ (by simp) _ _ ⟨_, rfl⟩ fun y t1 => ?_
    cases y
    case literal b =>
      simp only []
      refine Ext_bind (shT ext) _ (adv_ext ext _ (by simp)) ?_ ?_
      · intro a4 h4
        have : a4 = [] := h4
        subst this
        exact Dead_error _ _
      · intro a4 h4
        exact expectRp_ext ext _ h4
    all_goals exact Ext_error _ _ _
  all_goals exact Ext_error _ _ _

/-! ### `_parse_subtree` -/
section sub
variable (ty : Int)

/-- the nested call `_parse_split` + the rest of the loop -/
def nest (f : Nat) (ρ γ : Int) (rows : List Asc.Row) (flagN : Bool) (tN : List Tok) : Except Err (List Tok × List Asc.Row) :=
  parseSubtree ty f tN flagN γ γ rows >>= fun r => expectRp r.1 >>= fun t2 => parseSubtree ty f t2 true ρ γ r.2

theorem sub_lp_true (f : Nat) (t : List Tok) (ρ γ : Int) (rows : List Asc.Row) :
    parseSubtree ty (f + 1) (.lp :: t) true ρ γ rows = adv (.lp :: t) >>= fun t1 => parseSubtree ty f t1 false ρ γ rows := by
  simp only [parseSubtree] <;> rfl
theorem sub_lp_false (f : Nat) (t : List Tok) (ρ γ : Int) (rows : List Asc.Row) :
    parseSubtree ty (f + 1) (.lp :: t) false ρ γ rows = adv (.lp :: t) >>= fun t1 => nest ty f ρ γ rows false t1 := by
  simp only [parseSubtree, nest] <;> rfl
theorem sub_rp_true (f : Nat) (t : List Tok) (ρ γ : Int) (rows : List Asc.Row) :
    parseSubtree ty (f + 1) (.rp :: t) true ρ γ rows = .ok (.rp :: t, rows) := by
  simp only [parseSubtree] <;> rfl
theorem sub_rp_false (f : Nat) (t : List Tok) (ρ γ : Int) (rows : List Asc.Row) :
    parseSubtree ty (f + 1) (.rp :: t) false ρ γ rows = adv (.rp :: t) >>= fun t1 => parseSubtree ty f t1 true ρ γ rows := by
  simp only [parseSubtree] <;> rfl
theorem sub_bar_true (f : Nat) (t : List Tok) (ρ γ : Int) (rows : List Asc.Row) :
    parseSubtree ty (f + 1) (.bar :: t) true ρ γ rows = adv (.bar :: t) >>= fun t1 => parseSubtree ty f t1 true ρ ρ rows := by
  simp only [parseSubtree] <;> rfl
theorem sub_bar_false (f : Nat) (t : List Tok) (ρ γ : Int) (rows : List Asc.Row) :
    parseSubtree ty (f + 1) (.bar :: t) false ρ γ rows = nest ty f ρ γ rows true (.bar :: t) := by
  simp only [parseSubtree, nest] <;> rfl
theorem sub_comment (f : Nat) (c : SwcText.Str) (t : List Tok) (flag : Bool) (ρ γ : Int) (rows : List Asc.Row) :
    parseSubtree ty (f + 1) (.comment c :: t) flag ρ γ rows = adv (.comment c :: t) >>= fun t1 => parseSubtree ty f t1 flag ρ γ rows := by
  simp only [parseSubtree] <;> rfl
theorem sub_float_true (f : Nat) (a : SwcText.Sci) (t : List Tok) (ρ γ : Int) (rows : List Asc.Row) :
    parseSubtree ty (f + 1) (.float a :: t) true ρ γ rows = .error .tokenType := by
  simp only [parseSubtree] <;> rfl
theorem sub_float_false (f : Nat) (a : SwcText.Sci) (t : List Tok) (ρ γ : Int) (rows : List Asc.Row) :
    parseSubtree ty (f + 1) (.float a :: t) false ρ γ rows =
      (parseNode (.float a :: t) >>= fun nr => parseSubtree ty f nr.2 true ρ (rows.length : Int)
        (rows ++ [⟨ty, nr.1.1, nr.1.2.1, nr.1.2.2.1, nr.1.2.2.2, γ⟩])) := by
  simp only [parseSubtree] <;> rfl
theorem sub_lit_color (f : Nat) (w : SwcText.Str) (t : List Tok) (flag : Bool) (ρ γ : Int) (rows : List Asc.Row)
    (hw : upper w = "COLOR".toList) :
    parseSubtree ty (f + 1) (.literal w :: t) flag ρ γ rows = parseColor (.literal w :: t) >>= fun t1 => parseSubtree ty f t1 true ρ γ rows := by
  simp only [parseSubtree, hw, if_true]
theorem sub_lit_other (f : Nat) (w : SwcText.Str) (t : List Tok) (flag : Bool) (ρ γ : Int) (rows : List Asc.Row)
    (hw : ¬ upper w = "COLOR".toList) :
    parseSubtree ty (f + 1) (.literal w :: t) flag ρ γ rows = .error .literal := by
  simp only [parseSubtree, hw, if_false]
theorem sub_bad (f : Nat) (t : List Tok) (flag : Bool) (ρ γ : Int) (rows : List Asc.Row) :
    parseSubtree ty (f + 1) (.bad :: t) flag ρ γ rows = .error .lexError := by
  simp only [parseSubtree]

theorem sub_dead (f : Nat) (flag : Bool) (ρ γ : Int) (rows : List Asc.Row) :
    Dead (shP ext) (parseSubtree ty f [] flag ρ γ rows) := by
  cases f with
  | zero => exact Dead_error _ _
  | succ f => intro a h; simp only [parseSubtree] at h; cases h; rfl

theorem nest_dead (f : Nat) (flagN : Bool) (ρ γ : Int) (rows : List Asc.Row) :
    Dead (shP ext) (nest ty f ρ γ rows flagN []) := by
  cases f with
  | zero => exact Dead_error _ _
  | succ f => simp only [nest, parseSubtree, ok_bind, expectRp, error_bind]; exact Dead_error _ _

/-- **`_parse_subtree` on `t ++ .bad :: ext` against `t`** (any flag, any fuels `f ≤ f'`) -/
theorem sub_ext : ∀ (f f' : Nat) (t : List Tok) (flag : Bool) (ρ γ : Int) (rows : List Asc.Row), f ≤ f' → t ≠ [] →
    Ext (shP ext) (parseSubtree ty f t flag ρ γ rows) (parseSubtree ty f' (t ++ .bad :: ext) flag ρ γ rows)
  | 0, _, _, _, _, _, _, _, _ => by
    simp only [parseSubtree]; intro h; exact absurd rfl h
  | f + 1, 0, _, _, _, _, _, hf, _ => by omega
  | f + 1, f' + 1, t, flag, ρ, γ, rows, hf, ht => by
    have hf' : f ≤ f' := by omega
    have nested : ∀ (tN : List Tok) (flagN : Bool), tN ≠ [] →
        Ext (shP ext) (nest ty f ρ γ rows flagN tN) (nest ty f' ρ γ rows flagN (tN ++ .bad :: ext)) := by
      intro tN flagN hN
      refine Ext_bind (shP ext) (shP ext) (sub_ext f f' tN flagN γ γ rows hf' hN) ?_ ?_
      · intro a ha
        have : a.1 = [] := ha
        rw [this]; exact Dead_error _ _
      · intro a ha
        refine Ext_bind (shT ext) (shP ext) (expectRp_ext ext a.1 ha) ?_ ?_
        · intro t2 h2
          have : t2 = [] := h2
          subst this
          exact sub_dead ext ty f true ρ γ a.2
        · intro t2 h2
          exact sub_ext f f' t2 true ρ γ a.2 hf' h2
    have advk : ∀ (x : Tok) (t' : List Tok) (fl : Bool) (r c : Int),
        Ext (shP ext) (adv (x :: t') >>= fun t1 => parseSubtree ty f t1 fl r c rows)
          (adv (x :: (t' ++ .bad :: ext)) >>= fun t1 => parseSubtree ty f' t1 fl r c rows) := by
      intro x t' fl r c
      refine Ext_bind (shT ext) (shP ext) (adv_ext ext (x :: t') (by simp)) ?_ ?_
      · intro t1 h1
        have : t1 = [] := h1
        subst this
        exact sub_dead ext ty f fl r c rows
      · intro t1 h1
        exact sub_ext f f' t1 fl r c rows hf' h1
    obtain ⟨x, t', rfl⟩ := List.exists_cons_of_ne_nil ht
    rw [List.cons_append]
    cases x with
    | lp =>
      cases flag with
      | true => simp only [sub_lp_true]; exact advk _ _ _ _ _
      | false =>
        simp only [sub_lp_false]
        refine Ext_bind (shT ext) (shP ext) (adv_ext ext (.lp :: t') (by simp)) ?_ ?_
        · intro t1 h1
          have : t1 = [] := h1
          subst this
          exact nest_dead ext ty f false ρ γ rows
        · intro t1 h1
          exact nested t1 false h1
    | rp =>
      cases flag with
      | true => simp only [sub_rp_true]; exact Ext_ok (shP ext) (.rp :: t', rows) (by simp [shP])
      | false => simp only [sub_rp_false]; exact advk _ _ _ _ _
    | bar =>
      cases flag with
      | true => simp only [sub_bar_true]; exact advk _ _ _ _ _
      | false => simp only [sub_bar_false]; exact nested (.bar :: t') true (by simp)
    | comment c => simp only [sub_comment]; exact advk _ _ _ _ _
    | float a =>
      cases flag with
      | true => simp only [sub_float_true]; exact Ext_error _ _ _
      | false =>
        simp only [sub_float_false]
        refine Ext_bind (shN ext) (shP ext) (parseNode_ext ext (.float a :: t') (by simp)) ?_ ?_
        · intro nr h1
          have : nr.2 = [] := h1
          rw [this]
          exact sub_dead ext ty f true ρ _ _
        · intro nr h1
          exact sub_ext f f' nr.2 true ρ _ _ hf' h1
    | literal w =>
      by_cases hw : upper w = "COLOR".toList
      · simp only [sub_lit_color _ _ _ _ _ _ _ _ hw]
        refine Ext_bind (shT ext) (shP ext) (parseColor_ext ext (.literal w :: t') (by simp)) ?_ ?_
        · intro t1 h1
          have : t1 = [] := h1
          subst this
          exact sub_dead ext ty f true ρ γ rows
        · intro t1 h1
          exact sub_ext f f' t1 true ρ γ rows hf' h1
      · simp only [sub_lit_other _ _ _ _ _ _ _ _ hw]; exact Ext_error _ _ _
    | bad => simp only [sub_bad]; exact Ext_error _ _ _

end sub

/-! ### `_parse` -/

theorem skip_dead : ∀ (f : Nat), Dead (shT ext) (skipComments f [])
  | 0 => Dead_error _ _
  | f + 1 => by intro a h; simp only [skipComments] at h; cases h; rfl

theorem top_dead : ∀ (f : Nat) (rows : List Asc.Row), Dead (shP ext) (parseTop f [] rows)
  | 0, _ => Dead_error _ _
  | f + 1, rows => by intro a h; simp only [parseTop] at h; cases h; rfl

theorem skip_ext : ∀ (f f' : Nat) (t : List Tok), f ≤ f' → t ≠ [] →
    Ext (shT ext) (skipComments f t) (skipComments f' (t ++ .bad :: ext))
  | 0, _, _, _, _ => by simp only [skipComments]; intro h; exact absurd rfl h
  | f + 1, 0, _, hf, _ => by omega
  | f + 1, f' + 1, t, hf, ht => by
    obtain ⟨x, t', rfl⟩ := List.exists_cons_of_ne_nil ht
    rw [List.cons_append]
    cases x
    case comment c =>
      simp only [skipComments]
      refine Ext_bind (shT ext) (shT ext) (adv_ext ext (.comment c :: t') (by simp)) ?_ ?_
      · intro t1 h1
        have : t1 = [] := h1
        subst this
        exact skip_dead ext f
      · intro t1 h1
        exact skip_ext f f' t1 (by omega) h1
    all_goals (simp only [skipComments]; exact Ext_ok (shT ext) _ (by simp [shT]))

theorem top_ext : ∀ (f f' : Nat) (t : List Tok) (rows : List Asc.Row), f ≤ f' → t ≠ [] →
    Ext (shP ext) (parseTop f t rows) (parseTop f' (t ++ .bad :: ext) rows)
  | 0, _, _, _, _, _ => by simp only [parseTop]; intro h; exact absurd rfl h
  | f + 1, 0, _, _, hf, _ => by omega
  | f + 1, f' + 1, t, rows, hf, ht => by
    have hf' : f ≤ f' := by omega
    obtain ⟨x, t', rfl⟩ := List.exists_cons_of_ne_nil ht
    rw [List.cons_append]
    cases x
    case comment c =>
      simp only [parseTop]
      refine Ext_bind (shT ext) (shP ext) (adv_ext ext (.comment c :: t') (by simp)) ?_ ?_
      · intro t1 h1
        have : t1 = [] := h1
        subst this
        exact top_dead ext f rows
      · intro t1 h1
        exact top_ext f f' t1 rows hf' h1
    case rp => simp only [parseTop]; exact Ext_ok (shP ext) (.rp :: t', rows) (by simp [shP])
    case lp =>
      simp only [parseTop]
      refine adv_bind_ext ext _ _ (by simp) _ _ ⟨_, rfl⟩ fun y t1 => ?_
      cases y
      case literal w =>
        simp only []
        by_cases hT : (upper w = "AXON".toList || upper w = "DENDRITE".toList) = true
        · simp only [hT, if_true]
          refine Ext_bind (shT ext) (shP ext) (adv_ext ext (.literal w :: t1) (by simp)) ?_ ?_
          · intro t2 h2
            have : t2 = [] := h2
            subst this
            exact Dead_error _ _
          · intro t2 h2
            refine Ext_bind (shT ext) (shP ext) (expectRp_ext ext t2 h2) ?_ ?_
            · intro t3 h3
              have : t3 = [] := h3
              subst this
              cases f with
              | zero => exact Dead_error _ _
              | succ f => simp only [skipComments, ok_bind, expectLp, error_bind]; exact Dead_error _ _
            · intro t3 h3
              refine Ext_bind (shT ext) (shP ext) (skip_ext ext f f' t3 hf' h3) ?_ ?_
              · intro t4 h4
                have : t4 = [] := h4
                subst this
                exact Dead_error _ _
              · intro t4 h4
                refine Ext_bind (shT ext) (shP ext) (expectLp_ext ext t4 h4) ?_ ?_
                · intro t5 h5
                  have : t5 = [] := h5
                  subst this
                  cases f with
                  | zero => exact Dead_error _ _
                  | succ f =>
                    simp only [parseSubtree, ok_bind]
                    exact top_dead ext (f + 1) rows
                · intro t5 h5
                  refine Ext_bind (shP ext) (shP ext) (sub_ext ext _ f f' t5 false (-1) (-1) rows hf' h5) ?_ ?_
                  · intro r hr
                    have : r.1 = [] := hr
                    rw [this]
                    exact top_dead ext f r.2
                  · intro r hr
                    exact top_ext f f' r.1 r.2 hf' hr
        · simp only [hT]
          by_cases hC : upper w = "COLOR".toList
          · simp only [hC, if_true]
            refine Ext_bind (shT ext) (shP ext) (parseColor_ext ext (.literal w :: t1) (by simp)) ?_ ?_
            · intro t2 h2
              have : t2 = [] := h2
              subst this
              exact top_dead ext f rows
            · intro t2 h2
              exact top_ext f f' t2 rows hf' h2
          · simp only [hC, if_false]; exact Ext_error _ _ _
      all_goals exact Ext_error _ _ _
    all_goals (simp only [parseTop]; exact Ext_error _ _ _)

/-! ### the whole conversion, with the tokens remaining after the closing bracket -/

/-- the end of `_parse`: the closing bracket of the document -/
def fin (r : List Tok × List Asc.Row) : Except Err (List Tok × List Asc.Row) :=
  match r.1 with
  | [] => .error .eof
  | .rp :: _ => adv r.1 >>= fun t => .ok (t, r.2)
  | _ => .error .tokenType

/-- `C15.convertWith` returning ALSO the tokens that remain after the closing bracket (`[]` ⇔ the parser's `next_token` is `None` at the end) -/
def convertWithL (N : Nat) (toks : List Tok) : Except Err (List Tok × List Asc.Row) :=
  skipComments N toks >>= fun t0 => expectLp t0 >>= fun t1 => parseTop N t1 [] >>= fin

theorem convertWith_L (N : Nat) (toks : List Tok) : C15.convertWith N toks = (convertWithL N toks).map Prod.snd := by
  unfold C15.convertWith convertWithL
  cases skipComments N toks with
  | error e => rfl
  | ok t0 =>
    simp only [ok_bind]
    cases expectLp t0 with
    | error e => rfl
    | ok t1 =>
      simp only [ok_bind]
      cases parseTop N t1 [] with
      | error e => rfl
      | ok r =>
        obtain ⟨r1, r2⟩ := r
        simp only [ok_bind, fin]
        cases r1 with
        | nil => rfl
        | cons x t =>
          cases x
          case rp =>
            simp only []
            cases adv (.rp :: t) with
            | error e => rfl
            | ok t2 => rfl
          all_goals rfl

theorem fin_ext (r : List Tok × List Asc.Row) (hr : r.1 ≠ []) : Ext (shP ext) (fin r) (fin ((shP ext).ex r)) := by
  obtain ⟨r1, r2⟩ := r
  obtain ⟨x, t, rfl⟩ := List.exists_cons_of_ne_nil hr
  cases x
  case rp =>
    simp only [fin, shP, List.cons_append]
    refine Ext_bind (shT ext) (shP ext) (adv_ext ext (.rp :: t) (by simp)) ?_ ?_
    · intro t1 h1 a ha
      cases ha
      exact h1
    · intro t1 h1
      exact Ext_ok (shP ext) (t1, r2) h1
  all_goals exact Ext_error _ _ _

theorem convertWithL_ext (N N' : Nat) (t : List Tok) (hN : N ≤ N') (ht : t ≠ []) :
    Ext (shP ext) (convertWithL N t) (convertWithL N' (t ++ .bad :: ext)) := by
  unfold convertWithL
  refine Ext_bind (shT ext) (shP ext) (skip_ext ext N N' t hN ht) ?_ ?_
  · intro t0 h0
    have : t0 = [] := h0
    subst this
    exact Dead_error _ _
  · intro t0 h0
    refine Ext_bind (shT ext) (shP ext) (expectLp_ext ext t0 h0) ?_ ?_
    · intro t1 h1
      have : t1 = [] := h1
      subst this
      cases N with
      | zero => exact Dead_error _ _
      | succ n => simp only [parseTop, ok_bind, fin]; exact Dead_error _ _
    · intro t1 h1
      refine Ext_bind (shP ext) (shP ext) (top_ext ext N N' t1 [] hN h1) ?_ ?_
      · intro r hr
        obtain ⟨r1, r2⟩ := r
        have : r1 = [] := hr
        subst this
        exact Dead_error _ _
      · intro r hr
        exact fin_ext ext r hr

/-- **(a) THE MODEL ON A TOKEN STREAM WITH A LEXER FAILURE**: `pre` without `.bad`, then `.bad`, then anything.  The model's conversion of
the whole stream is decided by its run on `pre` alone (`convertWithL`, with the fuel of `Asc.convertTokens pre`): an error of that run, or a
run that consumes ALL of `pre` (the parser would pull the failing word) ↦ an error; a run that ends with tokens of `pre` left after the
closing bracket ↦ the same rows (the failing word is never looked at: trailing garbage). -/
theorem convertTokens_bad (pre : List Tok) (hnb : NoBad pre) :
    match convertWithL (2 * pre.length + 4) pre with
    | .error _ => ∃ e, convertTokens (pre ++ .bad :: ext) = .error e
    | .ok (rest, rows) => if rest = [] then ∃ e, convertTokens (pre ++ .bad :: ext) = .error e
        else convertTokens (pre ++ .bad :: ext) = .ok rows := by
  cases pre with
  | nil => exact ⟨_, rfl⟩
  | cons x p =>
    have hx : x ≠ .bad := noBad_head hnb
    have hc : convertTokens (x :: p ++ .bad :: ext) = C15.convertWith (2 * (x :: p ++ .bad :: ext).length + 4) (x :: p ++ .bad :: ext) :=
      C15.convertTokens_eq _ (by simpa using hx)
    rw [hc, convertWith_L]
    have hnf : convertWithL (2 * (x :: p).length + 4) (x :: p) ≠ .error .fuel := by
      intro h
      have := RefineAscFuel.convertWith_nofuel (2 * (x :: p).length + 4) (x :: p) hnb (by omega)
      rw [convertWith_L, h] at this
      exact this rfl
    have hE := convertWithL_ext ext (2 * (x :: p).length + 4) (2 * (x :: p ++ .bad :: ext).length + 4) (x :: p)
      (by simp; omega) (by simp)
    revert hE hnf
    cases convertWithL (2 * (x :: p).length + 4) (x :: p) with
    | error e =>
      intro hnf hE
      obtain ⟨e', he'⟩ := hE (fun h => hnf (by rw [h]))
      rw [he']; exact ⟨e', rfl⟩
    | ok r =>
      obtain ⟨rest, rows⟩ := r
      intro _ hE
      have hE' : if rest = [] then ∃ e', convertWithL _ (x :: p ++ .bad :: ext) = .error e'
          else convertWithL _ (x :: p ++ .bad :: ext) = .ok (rest ++ .bad :: ext, rows) := hE
      by_cases hr : rest = []
      · simp only [hr, if_true] at hE' ⊢
        obtain ⟨e', he'⟩ := hE'
        rw [he']; exact ⟨e', rfl⟩
      · simp only [hr, if_false] at hE' ⊢
        rw [hE']; rfl

/-! ### (b) the generated parser, with its final `next_token` position -/
section gen
open Gen.Algo Py RefineAsc RefineAscHeap RefineAscTop
variable {encF : SwcText.Sci → Int}

/-- **`RefineAscTop.parse_refines` WITH THE FINAL PARSER STATE**: `Parser._parse` as translated ends in the state `st encF rest nodes'` where
`rest` is exactly what the model (`convertWithL`) has left after the closing bracket: `next_token` is `None` iff `rest = []`, i.e. iff some
`_read_token` found the token list empty (the run pulled one token more than there are) -/
theorem parse_refinesL (N G : Nat) (toks : List Tok) (nodes0 : List ASTNode) (hnb : NoBad toks) (hG : 2 * N ≤ G)
    (hne : convertWithL N toks ≠ .error .fuel) :
    match convertWithL N toks with
    | .error _ => parser_parse G (st encF toks nodes0) = none
    | .ok (rest, rows) => ∃ nodes', parser_parse G (st encF toks nodes0) = some (st encF rest nodes', (nodes0.length : Int)) ∧
        Built encF U (nodes0 ++ [rootRec]) nodes' nodes0.length nodes0.length (-1) (-1) 0 rows := by
  rw [parse_unfold]
  unfold convertWithL at hne ⊢
  have hne0 : skipComments N toks ≠ .error .fuel := by
    intro h; rw [h] at hne; exact hne rfl
  obtain ⟨t0, h0, hn0, hs0⟩ := skip_comments_sim (encF := encF) N toks (nodes0 ++ [rootRec]) hnb hne0 G (by omega)
  rw [h0] at hne ⊢
  simp only [ok_bind, hs0] at hne ⊢
  rw [expectLp_refines encF t0 _ hn0]
  revert hne
  cases h1 : expectLp t0 with
  | error e => intro _; simp only [error_bind]
  | ok t1 =>
    have hn1 : NoBad t1 := noBad_drop hn0 [.lp] t1 (by simpa using expectLp_ok t0 t1 hn0 h1)
    simp only [ok_bind]
    intro hne
    have hneT : parseTop N t1 [] ≠ .error .fuel := by
      intro h; rw [h] at hne; exact hne rfl
    have htop := top_sim (encF := encF) N t1 [] hn1 hneT G G
      { self := st encF t1 (nodes0 ++ [rootRec]), root := (nodes0.length : Int), token := some (enc encF .lp) }
      (nodes0 ++ [rootRec]) nodes0.length (by omega) hG rfl rfl (by simp)
    revert htop hne
    cases parseTop N t1 [] with
    | error e =>
      intro _ htop
      simp only [TopPost] at htop
      simp only [error_bind, htop]
    | ok r =>
      obtain ⟨tr, rows⟩ := r
      intro hne htop
      obtain ⟨v', nodes', new, g1, g2, g3, g4, g5, g6⟩ := htop
      simp only [List.nil_append] at g4
      subst g4
      simp only [ok_bind, g1, g2, g3, st_next_token, assert_eq, fin]
      cases tr with
      | nil => simp
      | cons x rest =>
        cases x with
        | rp =>
          simp only [adv_noBad _ _ g5, ok_bind]
          refine ⟨nodes', ?_, by simpa using g6⟩
          simp [enc, assert_and_cunsume_st]
        | _ => simp [enc]

/-- `AlgoRun.ascConvertPrefix` (the generated parser + walk on the tokens the lexer yielded before it raised, rejecting iff the parser asked
for one more) in terms of the model's run on these tokens -/
theorem convertPrefix_eq (pre : List Tok) (hnb : NoBad pre) :
    AlgoRun.ascConvertPrefix (pre.map (enc encF)) =
      match convertWithL (2 * pre.length + 4) pre with
      | .error _ => none
      | .ok (rest, rows) => if rest = [] then none else some ((rows.length : Int), colsOf (encRows encF 0 rows)) := by
  have hnf : convertWithL (2 * pre.length + 4) pre ≠ .error .fuel := by
    intro h
    have := RefineAscFuel.convertWith_nofuel (2 * pre.length + 4) pre hnb (by omega)
    rw [convertWith_L, h] at this
    exact this rfl
  have h := parse_refinesL (encF := encF) (2 * pre.length + 4) (4 * pre.length + 8) pre [] hnb (by omega) hnf
  unfold AlgoRun.ascConvertPrefix
  rw [init_st]
  simp only [AlgoRun.ascParseFuel, List.length_map]
  revert h
  cases convertWithL (2 * pre.length + 4) pre with
  | error e => intro h; simp only [h]
  | ok r =>
    obtain ⟨rest, rows⟩ := r
    intro h
    obtain ⟨nodes', h1, h2⟩ := h
    simp only [List.length_nil] at h1
    simp only [h1, st_next_token, st_nodes]
    cases rest with
    | nil => simp
    | cons y rest' =>
      simp only [List.head?_cons, Option.map_some, Option.isNone_some, Bool.false_eq_true, if_false, reduceCtorEq]
      simpa using built_root [] nodes' rows h2 (AlgoRun.ascWalkFuel nodes') (by simp [AlgoRun.ascWalkFuel])

end gen

/-- the tokens before the first `.bad` -/
theorem goodPrefix_split : ∀ (toks : List Tok), Tok.bad ∈ toks →
    NoBad (RefineAscLex.goodPrefix toks).1 ∧ ∃ ext', toks = (RefineAscLex.goodPrefix toks).1 ++ .bad :: ext'
  | [], h => by simp at h
  | t :: ts, h => by
    by_cases ht : t = .bad
    · subst ht
      exact ⟨by intro x hx; simp [RefineAscLex.goodPrefix] at hx, ts, by simp [RefineAscLex.goodPrefix]⟩
    · have hts : Tok.bad ∈ ts := by
        rcases List.mem_cons.mp h with h | h
        · exact absurd h.symm ht
        · exact h
      obtain ⟨i1, e', i2⟩ := goodPrefix_split ts hts
      refine ⟨?_, e', ?_⟩
      · intro x hx
        simp only [RefineAscLex.goodPrefix, ht, if_false, List.mem_cons] at hx
        rcases hx with hx | hx
        · rw [hx]; exact ht
        · exact i1 x hx
      · simp only [RefineAscLex.goodPrefix, ht, if_false, List.cons_append]
        rw [← i2]

/-- **generated parser + walk on the tokens before the lexer failure = the model on the WHOLE token stream** -/
theorem convertPrefix_eq_model (encF : SwcText.Sci → Int) (toks : List Tok) (hb : Tok.bad ∈ toks) :
    AlgoRun.ascConvertPrefix ((RefineAscLex.goodPrefix toks).1.map (enc encF)) =
      match convertTokens toks with
      | .ok rows => some ((rows.length : Int), RefineAsc.colsOf (RefineAscHeap.encRows encF 0 rows))
      | .error _ => none := by
  obtain ⟨hnb, ext', hsplit⟩ := goodPrefix_split toks hb
  generalize (RefineAscLex.goodPrefix toks).1 = pre at hnb hsplit
  subst hsplit
  rw [convertPrefix_eq pre hnb]
  have hm := convertTokens_bad ext' pre hnb
  revert hm
  cases convertWithL (2 * pre.length + 4) pre with
  | error e => intro hm; obtain ⟨e', he'⟩ := hm; rw [he']
  | ok r =>
    obtain ⟨rest, rows⟩ := r
    intro hm
    by_cases hr : rest = []
    · simp only [hr, if_true] at hm ⊢
      obtain ⟨e', he'⟩ := hm; rw [he']
    · simp only [hr, if_false] at hm ⊢
      rw [hm]

/-- model corollary: a token stream whose tokens BEFORE the lexer failure are already rejected is rejected -/
theorem convertTokens_bad_of_error (pre ext' : List Tok) (hnb : NoBad pre) (he : ∃ e, convertTokens pre = .error e) :
    ∃ e, convertTokens (pre ++ .bad :: ext') = .error e := by
  have hm := convertTokens_bad ext' pre hnb
  have hc : convertTokens pre = (convertWithL (2 * pre.length + 4) pre).map Prod.snd := by
    rw [← convertWith_L]
    cases pre with
    | nil => rfl
    | cons x p => exact C15.convertTokens_eq _ (by simpa using noBad_head hnb)
  obtain ⟨e, he⟩ := he
  rw [hc] at he
  revert hm he
  cases convertWithL (2 * pre.length + 4) pre with
  | error e1 => intro hm _; exact hm
  | ok r => intro _ he; cases he

end RefineAscBad
