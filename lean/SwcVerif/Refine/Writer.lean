import SwcVerif.Gen.AlgoWriter
import SwcVerif.Refine.PyLemmas
import SwcVerif.Model.SwcText
/-! Refinement for C01: the definitions GENERATED from `swcgeom/core/swc_utils/io.py::to_swc` (a generator: the comment loop, the header
line, the nested closure `get_v`, the row loop that indexes every column with the VALUE of the id column) and from
`swcgeom/core/swc.py::SWCLike.to_swc` (the `source:` header, `comments is True`, `"".join(it)`).

Part 1 (`to_swc_refines`, `swclike_to_swc_refines`): for EVERY float payload type `F`, every `fmt4 : F → String`, every table whose seven
standard columns have one common length `n` and whose id VALUES are row positions `0 ≤ id < n` (in any order, repetitions allowed), every
`id_offset` (negative ones too) and every comment list, the generated functions return exactly the specification `linesG` / `textG`
below - one row per id value `j`, built from row `j` of every column.

Part 2 (`to_swc_eq_writeLines`, `swclike_to_swc_eq_writeSwc`): on tables whose ids ARE the positions (`rows[k].id = k`), with the float
payload of the hand-written model (`sign × magnitude·10⁻⁴`, printed by `SwcText.fmt4`) and offsets `≥ 0`, that specification is the
hand-written `SwcText.writeLines` / `SwcText.writeSwc`, character for character. -/
namespace RefineWriter
open Gen.Algo Py

/-! ## Part 1: what the generated code computes -/

variable {F : Type} [Inhabited F]

/-- the seven standard columns -/
structure Tbl (F : Type) where
  ids : List Int
  types : List Int
  xs : List F
  ys : List F
  zs : List F
  rs : List F
  pids : List Int

/-- `get_ndata` reads this table -/
def Reads (get : String → Py.Col F) (T : Tbl F) : Prop :=
  get Gen.Consts.name_id = .ints T.ids ∧ get Gen.Consts.name_type = .ints T.types ∧ get Gen.Consts.name_x = .flts T.xs ∧
  get Gen.Consts.name_y = .flts T.ys ∧ get Gen.Consts.name_z = .flts T.zs ∧ get Gen.Consts.name_r = .flts T.rs ∧
  get Gen.Consts.name_pid = .ints T.pids

/-- every column has `n` entries -/
def Tbl.Rect (T : Tbl F) (n : Nat) : Prop :=
  T.ids.length = n ∧ T.types.length = n ∧ T.xs.length = n ∧ T.ys.length = n ∧ T.zs.length = n ∧ T.rs.length = n ∧ T.pids.length = n

def cols7 : List String :=
  [Gen.Consts.name_id, Gen.Consts.name_type, Gen.Consts.name_x, Gen.Consts.name_y, Gen.Consts.name_z, Gen.Consts.name_r, Gen.Consts.name_pid]

/-- the parent column as written: shifted unless it is the root marker `-1` -/
def pidOut (off pid : Int) : Int := if pid ≠ -1 then pid + off else pid

/-- the text of column `k` in the row built from table position `i` -/
def cellText (fmt4 : F → String) (off : Int) (T : Tbl F) (i : Nat) (k : String) : String :=
  if k = Gen.Consts.name_id then strInt (T.ids.getD i 0 + off)
  else if k = Gen.Consts.name_type then strInt (T.types.getD i 0)
  else if k = Gen.Consts.name_x then fmt4 (T.xs.getD i default)
  else if k = Gen.Consts.name_y then fmt4 (T.ys.getD i default)
  else if k = Gen.Consts.name_z then fmt4 (T.zs.getD i default)
  else if k = Gen.Consts.name_r then fmt4 (T.rs.getD i default)
  else strInt (pidOut off (T.pids.getD i 0))

/-- the data line built from table position `i` -/
def rowAt (fmt4 : F → String) (off : Int) (T : Tbl F) (i : Nat) : String :=
  strJoin " " (cols7.map (cellText fmt4 off T i)) ++ "\n"

def commentLineG (c : String) : String := if strIsSpace c then "#\n" else "# " ++ strLstrip c ++ "\n"

def headerLineG : String := "# " ++ strJoin " " cols7 ++ "\n"

/-- the lines `io.to_swc` yields: one data line per VALUE `j` of the id column, built from row `j` -/
def linesG (fmt4 : F → String) (off : Int) (T : Tbl F) (comments : List String) : List String :=
  comments.map commentLineG ++ headerLineG :: T.ids.map (fun j => rowAt fmt4 off T j.toNat)

/-- the `source` header of `SWCLike.to_swc`: none for `source=False`, the given string, or the tree's `source` attribute / `"Unknown"` -/
def sourceText (self : SWCLike) : BoolOrStr → Option String
  | .bool false => none
  | .bool true => some (if self.source ≠ "" then self.source else "Unknown")
  | .str s => some s

/-- the comment list `SWCLike.to_swc` hands to `io.to_swc` -/
def writtenG (self : SWCLike) (source : BoolOrStr) (wc : Bool) : List String :=
  (match sourceText self source with
    | some s => ["source: " ++ s, ""]
    | none => []) ++ (if wc then self.comments else [])

def textG (fmt4 : F → String) (off : Int) (T : Tbl F) (self : SWCLike) (source : BoolOrStr) (wc : Bool) : String :=
  strJoin "" (linesG fmt4 off T (writtenG self source wc))

variable (fmt4 : F → String) (get : String → Py.Col F)

theorem names_distinct : cols7.Nodup := by decide +kernel

/-- `get_v` on an integer column -/
theorem get_v_ints (k : String) (l : List Int) (hk : get k = .ints l) (i : Nat) (hi : i < l.length) (off : Int) :
    to_swc_get_v fmt4 get off k (.int i) = some (off, strInt
      (if k = Gen.Consts.name_id ∨ (k = Gen.Consts.name_pid ∧ l.getD i 0 ≠ -1) then l.getD i 0 + off else l.getD i 0)) := by
  have hget : l[i]? = some (l.getD i 0) := by simp [List.getD, hi]
  generalize l.getD i 0 = x at hget ⊢
  simp only [to_swc_get_v, to_swc_get_v.body, Py.seq, Py.bind, Py.skip, hk, Col.get, idx_nat l i hi, hget, Option.map_some,
    Col.isFloating, Bool.false_eq_true, if_false]
  by_cases h1 : k = Gen.Consts.name_id
  · simp [h1, Cell.addInt, Cell.str, Py.finish]
  · by_cases h2 : k = Gen.Consts.name_pid
    · subst h2
      by_cases h3 : x = -1
      · simp [h1, h3, Cell.neInt, Cell.str, Py.finish]
      · simp [h1, h3, Cell.neInt, Cell.addInt, Cell.str, Py.finish]
    · simp [h1, h2, Cell.str, Py.finish]

/-- `get_v` on a float column: the formatting callback, no offset -/
theorem get_v_flts (k : String) (l : List F) (hk : get k = .flts l) (i : Nat) (hi : i < l.length) (off : Int) :
    to_swc_get_v fmt4 get off k (.int i) = some (off, fmt4 (l.getD i default)) := by
  have hget : l[i]? = some (l.getD i default) := by simp [List.getD, hi]
  generalize l.getD i default = x at hget ⊢
  simp [to_swc_get_v, to_swc_get_v.body, Py.seq, Py.bind, hk, Col.get, idx_nat l i hi, hget, Col.isFloating, Cell.fmtFloat, Py.finish]

/-- `get_v` on every standard column, at a valid position -/
theorem get_v_spec (T : Tbl F) (n : Nat) (hr : Reads get T) (hn : T.Rect n) (i : Nat) (hi : i < n) (off : Int) :
    ∀ k ∈ cols7, to_swc_get_v fmt4 get off k (.int i) = some (off, cellText fmt4 off T i k) := by
  obtain ⟨r1, r2, r3, r4, r5, r6, r7⟩ := hr
  obtain ⟨n1, n2, n3, n4, n5, n6, n7⟩ := hn
  have hd := names_distinct
  simp only [cols7, List.nodup_cons, List.mem_cons, List.not_mem_nil, or_false, not_or, List.nodup_nil, and_true] at hd
  intro k hk
  simp only [cols7, List.mem_cons, List.not_mem_nil, or_false] at hk
  rcases hk with rfl | rfl | rfl | rfl | rfl | rfl | rfl
  · rw [get_v_ints fmt4 get _ _ r1 i (by omega)]; simp [cellText]
  · rw [get_v_ints fmt4 get _ _ r2 i (by omega)]
    have a : Gen.Consts.name_type ≠ Gen.Consts.name_id := fun h => hd.1.1 h.symm
    have b : Gen.Consts.name_type ≠ Gen.Consts.name_pid := hd.2.1.2.2.2.2
    simp [cellText, a, b]
  · rw [get_v_flts fmt4 get _ _ r3 i (by omega)]
    have a : Gen.Consts.name_x ≠ Gen.Consts.name_id := fun h => hd.1.2.1 h.symm
    have b : Gen.Consts.name_x ≠ Gen.Consts.name_type := fun h => hd.2.1.1 h.symm
    simp [cellText, a, b]
  · rw [get_v_flts fmt4 get _ _ r4 i (by omega)]
    have a : Gen.Consts.name_y ≠ Gen.Consts.name_id := fun h => hd.1.2.2.1 h.symm
    have b : Gen.Consts.name_y ≠ Gen.Consts.name_type := fun h => hd.2.1.2.1 h.symm
    have c : Gen.Consts.name_y ≠ Gen.Consts.name_x := fun h => hd.2.2.1.1 h.symm
    simp [cellText, a, b, c]
  · rw [get_v_flts fmt4 get _ _ r5 i (by omega)]
    have a : Gen.Consts.name_z ≠ Gen.Consts.name_id := fun h => hd.1.2.2.2.1 h.symm
    have b : Gen.Consts.name_z ≠ Gen.Consts.name_type := fun h => hd.2.1.2.2.1 h.symm
    have c : Gen.Consts.name_z ≠ Gen.Consts.name_x := fun h => hd.2.2.1.2.1 h.symm
    have d : Gen.Consts.name_z ≠ Gen.Consts.name_y := fun h => hd.2.2.2.1.1 h.symm
    simp [cellText, a, b, c, d]
  · rw [get_v_flts fmt4 get _ _ r6 i (by omega)]
    have a : Gen.Consts.name_r ≠ Gen.Consts.name_id := fun h => hd.1.2.2.2.2.1 h.symm
    have b : Gen.Consts.name_r ≠ Gen.Consts.name_type := fun h => hd.2.1.2.2.2.1 h.symm
    have c : Gen.Consts.name_r ≠ Gen.Consts.name_x := fun h => hd.2.2.1.2.2.1 h.symm
    have d : Gen.Consts.name_r ≠ Gen.Consts.name_y := fun h => hd.2.2.2.1.2.1 h.symm
    have e : Gen.Consts.name_r ≠ Gen.Consts.name_z := fun h => hd.2.2.2.2.1.1 h.symm
    simp [cellText, a, b, c, d, e]
  · rw [get_v_ints fmt4 get _ _ r7 i (by omega)]
    have a : Gen.Consts.name_pid ≠ Gen.Consts.name_id := fun h => hd.1.2.2.2.2.2 h.symm
    have b : Gen.Consts.name_pid ≠ Gen.Consts.name_type := fun h => hd.2.1.2.2.2.2 h.symm
    have c : Gen.Consts.name_pid ≠ Gen.Consts.name_x := fun h => hd.2.2.1.2.2.2 h.symm
    have d : Gen.Consts.name_pid ≠ Gen.Consts.name_y := fun h => hd.2.2.2.1.2.2 h.symm
    have e : Gen.Consts.name_pid ≠ Gen.Consts.name_z := fun h => hd.2.2.2.2.1.2 h.symm
    have f : Gen.Consts.name_pid ≠ Gen.Consts.name_r := fun h => hd.2.2.2.2.2.1 h.symm
    simp [cellText, pidOut, a, b, c, d, e, f]

/-- the comment loop: one line per comment, in order -/
theorem for1_loop : ∀ (cs : List String) (v : to_swc.V F),
    ∃ c', forEach (to_swc.for1 fmt4 get) cs v = .next { v with c := c', yielded_ := v.yielded_ ++ cs.map commentLineG } := by
  intro cs
  induction cs with
  | nil => intro v; exact ⟨v.c, by simp [forEach]⟩
  | cons c cs ih =>
    intro v
    obtain ⟨c', e⟩ := ih { v with c := c, yielded_ := v.yielded_ ++ [commentLineG c] }
    refine ⟨c', ?_⟩
    simp only [forEach, to_swc.for1]
    by_cases h : strIsSpace c = true
    · have hc : commentLineG c = "#\n" := by simp [commentLineG, h]
      rw [hc] at e
      simp only [h, Bool.not_true, Bool.false_eq_true, if_false]
      rw [e]; simp [hc]
    · have hc : commentLineG c = "# " ++ strLstrip c ++ "\n" := by simp [commentLineG, h]
      rw [hc] at e
      simp only [Bool.not_eq_true] at h
      simp only [h, Bool.not_false, if_true]
      rw [e]; simp [hc]

/-- the inner loop `get_v(k, idx) for k in cols`: the texts of the cells, in column order -/
theorem for2_loop (txt : String → String) (off : Int) (cell : Cell F) : ∀ (ks : List String),
    (∀ k ∈ ks, to_swc_get_v fmt4 get off k cell = some (off, txt k)) →
    ∀ (v : to_swc.V F), v.id_offset = off → v.idx = cell →
    ∃ k', forEach (to_swc.for2 fmt4 get) ks v = .next { v with k := k', c1_ := v.c1_ ++ ks.map txt } := by
  intro ks
  induction ks with
  | nil => intro _ v _ _; exact ⟨v.k, by simp [forEach]⟩
  | cons k ks ih =>
    intro h v ho hc
    subst ho; subst hc
    obtain ⟨k', e⟩ := ih (fun k hk => h k (by simp [hk])) { v with k := k, c1_ := v.c1_ ++ [txt k] } rfl rfl
    refine ⟨k', ?_⟩
    have hk := h k (by simp)
    simp only [forEach, to_swc.for2, Py.bind, hk]
    rw [e]; simp

/-- the row loop: one data line per id VALUE `j`, built from row `j` of every column -/
theorem for3_loop (T : Tbl F) (n : Nat) (hr : Reads get T) (hn : T.Rect n) (off : Int) : ∀ (js : List Int),
    (∀ j ∈ js, 0 ≤ j ∧ j < n) →
    ∀ (v : to_swc.V F), v.id_offset = off → v.cols = cols7 →
    ∃ k' i' c', forEach (to_swc.for3 fmt4 get) (js.map Cell.int) v =
      .next { v with k := k', idx := i', c1_ := c', yielded_ := v.yielded_ ++ js.map (fun j => rowAt fmt4 off T j.toNat) } := by
  intro js
  induction js with
  | nil => intro _ v _ _; exact ⟨v.k, v.idx, v.c1_, by simp [forEach]⟩
  | cons j js ih =>
    intro h v ho hc
    obtain ⟨hj0, hjn⟩ := h j (by simp)
    have hj : j = ((j.toNat : Nat) : Int) := by omega
    obtain ⟨k1, e1⟩ := for2_loop fmt4 get (cellText fmt4 off T j.toNat) off (.int j) cols7
      (by rw [hj]; exact get_v_spec fmt4 get T n hr hn j.toNat (by omega) off)
      { v with idx := .int j, c1_ := [] } ho rfl
    obtain ⟨k', i', c', e⟩ := ih (fun j hj => h j (by simp [hj]))
      { v with idx := .int j, k := k1, c1_ := cols7.map (cellText fmt4 off T j.toNat),
               yielded_ := v.yielded_ ++ [rowAt fmt4 off T j.toNat] } ho hc
    refine ⟨k', i', c', ?_⟩
    simp only [List.map_cons, forEach, to_swc.for3, Py.bindS, Py.seq]
    rw [hc] at e1 e ⊢
    rw [e1]
    simp only [List.nil_append, rowAt] at e ⊢
    rw [e]; simp

/-- the body of the generated `io.to_swc`, from any state that has yielded nothing yet -/
theorem body_spec (T : Tbl F) (n : Nat) (hr : Reads get T) (hn : T.Rect n) (hids : ∀ j ∈ T.ids, 0 ≤ j ∧ j < n)
    (v : to_swc.V F) (hy : v.yielded_ = []) :
    ∃ v', to_swc.body fmt4 get v = .next v' ∧ v'.yielded_ = linesG fmt4 v.id_offset T (v.comments.getD []) := by
  have hcols : ([Gen.Consts.name_id, Gen.Consts.name_type, Gen.Consts.name_x, Gen.Consts.name_y, Gen.Consts.name_z, Gen.Consts.name_r,
      Gen.Consts.name_pid] ++ ([] : List String)) = cols7 := rfl
  unfold to_swc.body
  simp only [Py.seq, hcols, hr.1, Col.cells]
  cases hcm : v.comments with
  | none =>
    simp only [Option.isSome_none, Bool.false_eq_true, if_false, Py.skip]
    obtain ⟨k', i', c', e⟩ := for3_loop fmt4 get T n hr hn v.id_offset T.ids hids
      { v with cols := cols7, yielded_ := v.yielded_ ++ [headerLineG] } rfl rfl
    simp only [headerLineG] at e
    rw [e]
    exact ⟨_, rfl, by simp [linesG, headerLineG, hy]⟩
  | some cs =>
    simp only [Option.isSome_some, if_true, Py.bind]
    obtain ⟨c1, e1⟩ := for1_loop fmt4 get cs v
    rw [e1]
    obtain ⟨k', i', c', e⟩ := for3_loop fmt4 get T n hr hn v.id_offset T.ids hids
      { v with c := c1, cols := cols7, yielded_ := (v.yielded_ ++ cs.map commentLineG) ++ [headerLineG] } rfl rfl
    simp only [headerLineG] at e
    simp only []
    rw [e]
    exact ⟨_, rfl, by simp [linesG, headerLineG, hy]⟩

/-- **`io.to_swc` as translated yields exactly `linesG`**: every float type and formatting function, every table with equally long columns
whose id values are row positions (any order), every offset, comments absent (`none`) or given. -/
theorem to_swc_refines (T : Tbl F) (n : Nat) (hr : Reads get T) (hn : T.Rect n) (hids : ∀ j ∈ T.ids, 0 ≤ j ∧ j < n)
    (comments : Option (List String)) (off : Int) :
    to_swc fmt4 get comments off = some (linesG fmt4 off T (comments.getD []), ()) := by
  obtain ⟨v', e, hy⟩ := body_spec fmt4 get T n hr hn hids
    { (default : to_swc.V F) with comments := comments, id_offset := off } rfl
  unfold to_swc
  rw [e]
  simp [Py.finish, hy]

/-- **`SWCLike.to_swc` as translated returns exactly `textG`** (same domain; every `source` argument - `False`, `True`, a string -, every
`source` attribute and comment list of the tree, both values of `comments`) -/
theorem swclike_to_swc_refines (T : Tbl F) (n : Nat) (hr : Reads get T) (hn : T.Rect n) (hids : ∀ j ∈ T.ids, 0 ≤ j ∧ j < n)
    (self : SWCLike) (source : BoolOrStr) (wc : Bool) (off : Int) :
    swclike_to_swc fmt4 get self source wc off = some (textG fmt4 off T self source wc) := by
  unfold swclike_to_swc swclike_to_swc.body
  simp only [Py.seq, Py.bind, Py.skip, to_swc_refines fmt4 get T n hr hn hids, Option.getD_some]
  rcases source with (_ | _) | s <;> cases wc <;>
    simp [BoolOrStr.isBool, BoolOrStr.isStr, BoolOrStr.format, Py.finish, textG, writtenG, sourceText, strTruthy]

/-! ## Part 2: the specification is the hand-written writer model -/

section Model
open SwcText

/-- the float payload of the hand-written model: sign bit and magnitude in units of 10⁻⁴ (what CPython's `.4f` rounds the value to) -/
abbrev WF := Bool × Nat

/-- `f"{v:.4f}"` on that payload -/
def mfmt4 (p : WF) : String := String.ofList (SwcText.fmt4 p.1 p.2)

/-- the table of a row list -/
def tblOf (rows : List WRow) : Tbl WF :=
  ⟨rows.map (fun w => (w.id : Int)), rows.map (fun w => (w.type : Int)), rows.map (·.x), rows.map (·.y), rows.map (·.z), rows.map (·.r),
   rows.map (·.pid)⟩

/-- ids are the row positions (what a `Tree` guarantees) -/
def Positions (rows : List WRow) : Prop := ∀ k (h : k < rows.length), rows[k].id = k

theorem tblOf_rect (rows : List WRow) : (tblOf rows).Rect rows.length := by simp [Tbl.Rect, tblOf]

theorem tblOf_ids_range (rows : List WRow) (hp : Positions rows) : ∀ j ∈ (tblOf rows).ids, 0 ≤ j ∧ j < (rows.length : Int) := by
  intro j hj
  simp only [tblOf, List.mem_map] at hj
  obtain ⟨w, hw, rfl⟩ := hj
  obtain ⟨k, hk, rfl⟩ := List.getElem_of_mem hw
  rw [hp k hk]; omega

theorem isSpaceChar_eq : Py.isSpaceChar = SwcText.isWs := rfl

theorem strIsSpace_toList (s : String) : strIsSpace s = isSpaceStr s.toList := rfl

theorem dropWhile_isWs : ∀ l : Str, l.dropWhile isWs = dropWs l := by
  intro l
  induction l with
  | nil => rfl
  | cons c cs ih => by_cases h : isWs c = true <;> simp [List.dropWhile, dropWs, h, ih]

theorem strLstrip_toList (s : String) : (strLstrip s).toList = dropWs s.toList := by
  simp [strLstrip, isSpaceChar_eq, dropWhile_isWs]

theorem commentLineG_toList (c : String) : (commentLineG c).toList = commentLine c.toList := by
  unfold commentLineG commentLine
  rw [strIsSpace_toList]
  have h1 : "#\n".toList = ['#', '\n'] := by decide
  have h2 : "# ".toList = ['#', ' '] := by decide
  have h3 : "\n".toList = ['\n'] := by decide
  split <;> simp [String.toList_append, strLstrip_toList, h1, h2, h3]

theorem headerLineG_toList : headerLineG.toList = headerLine := by decide +kernel

theorem digitChar_eq : ∀ n, n < 10 → Nat.digitChar n = SwcText.digitChar n := by decide

theorem toDigits_eq_digits : ∀ n : Nat, Nat.toDigits 10 n = digits n := by
  intro n
  induction n using Nat.strongRecOn with
  | _ n ih =>
    by_cases h : n < 10
    · rw [Nat.toDigits_of_lt_base h, digits, dif_pos h, digitChar_eq n h]
    · rw [digits, dif_neg h, ← ih (n / 10) (by omega)]
      have hm : n % 10 < 10 := Nat.mod_lt _ (by omega)
      have := Nat.toDigits_append_toDigits (b := 10) (n := n / 10) (d := n % 10) (by omega) (by omega) hm
      rw [Nat.div_add_mod] at this
      rw [← this, Nat.toDigits_of_lt_base hm, digitChar_eq _ hm]

theorem strInt_nat (n : Nat) : (strInt (n : Int)).toList = digits n := by
  show (Int.repr (Int.ofNat n)).toList = _
  simp [Int.repr, Nat.repr, toDigits_eq_digits]

theorem strInt_toList (i : Int) : (strInt i).toList = showInt i := by
  cases i with
  | ofNat n =>
    have : ¬ (Int.ofNat n < 0) := by simp
    rw [showInt, if_neg this]
    exact strInt_nat n
  | negSucc m =>
    have : Int.negSucc m < 0 := Int.negSucc_lt_zero m
    rw [showInt, if_pos this]
    show (Int.repr (Int.negSucc m)).toList = _
    have h : "-".toList = ['-'] := by decide
    simp [Int.repr, Nat.repr, toDigits_eq_digits, String.toList_append, h]

theorem showInt_nat (n : Nat) : showInt (n : Int) = digits n := by
  have : ¬ ((n : Int) < 0) := by omega
  rw [showInt, if_neg this, Int.toNat_natCast]

theorem strJoin_empty_toList : ∀ l : List String, (strJoin "" l).toList = (l.map String.toList).flatten := by
  intro l
  induction l with
  | nil => simp [strJoin]
  | cons a l ih =>
    cases l with
    | nil => simp [strJoin]
    | cons b l => simp only [strJoin, String.toList_append] at ih ⊢; simp [ih]

theorem getD_map {α β : Type} (f : α → β) (l : List α) (k : Nat) (h : k < l.length) (d : β) : (l.map f).getD k d = f l[k] := by
  simp [List.getD, h]

/-- the data line built from table position `k` is the model's line of row `k` -/
theorem rowAt_toList (rows : List WRow) (off : Nat) (k : Nat) (h : k < rows.length) :
    (rowAt mfmt4 (off : Int) (tblOf rows) k).toList = formatRow off rows[k] := by
  have hd := names_distinct
  simp only [cols7, List.nodup_cons, List.mem_cons, List.not_mem_nil, or_false, not_or, List.nodup_nil, and_true] at hd
  obtain ⟨⟨a1, a2, a3, a4, a5, a6⟩, ⟨b2, b3, b4, b5, b6⟩, ⟨c3, c4, c5, c6⟩, ⟨d4, d5, d6⟩, ⟨e5, e6⟩, f6, -⟩ := hd
  have cells : cols7.map (cellText mfmt4 (off : Int) (tblOf rows) k) =
      [strInt (((rows[k].id + off : Nat) : Int)), strInt ((rows[k].type : Nat) : Int), mfmt4 rows[k].x, mfmt4 rows[k].y, mfmt4 rows[k].z,
       mfmt4 rows[k].r, strInt (if rows[k].pid = -1 then -1 else rows[k].pid + off)] := by
    simp only [cols7, List.map_cons, List.map_nil, cellText, tblOf, getD_map _ rows k h, if_true,
      Ne.symm a1, Ne.symm a2, Ne.symm a3, Ne.symm a4, Ne.symm a5, Ne.symm a6, Ne.symm b2, Ne.symm b3, Ne.symm b4, Ne.symm b5, Ne.symm b6,
      Ne.symm c3, Ne.symm c4, Ne.symm c5, Ne.symm c6, Ne.symm d4, Ne.symm d5, Ne.symm d6, Ne.symm e5, Ne.symm e6, Ne.symm f6, if_false, pidOut]
    by_cases hp : rows[k].pid = -1 <;> simp [hp]
  have hs : " ".toList = [' '] := by decide
  have hn : "\n".toList = ['\n'] := by decide
  rw [rowAt, cells]
  simp only [strJoin, String.toList_append, mfmt4, String.toList_ofList, hs, hn, formatRow, strInt_toList]
  rw [showInt_nat, showInt_nat]
  simp

/-- the lines of the specification are the model's lines -/
theorem linesG_toList (rows : List WRow) (hp : Positions rows) (off : Nat) (comments : List String) :
    (linesG mfmt4 (off : Int) (tblOf rows) comments).map String.toList = writeLines off (comments.map String.toList) rows := by
  simp only [linesG, writeLines, List.map_append, List.map_cons, List.map_map, headerLineG_toList]
  congr 1
  · apply List.map_congr_left; intro c _; exact commentLineG_toList c
  · congr 1
    apply List.ext_getElem
    · simp [tblOf]
    · intro k h1 h2
      have hk : k < rows.length := by simpa [tblOf] using h1
      simp only [tblOf, List.getElem_map, Function.comp, hp k hk, Int.toNat_natCast]
      exact rowAt_toList rows off k hk

variable (get : String → Py.Col WF)

/-- **the generated `io.to_swc` yields the lines of `SwcText.writeLines`**, character for character: every row list whose ids are the row
positions, every offset `≥ 0`, comments absent or any list -/
theorem to_swc_eq_writeLines (rows : List WRow) (hr : Reads get (tblOf rows)) (hp : Positions rows) (comments : Option (List String)) (off : Nat) :
    (to_swc mfmt4 get comments (off : Int)).map (fun r => r.1.map String.toList)
      = some (writeLines off ((comments.getD []).map String.toList) rows) := by
  rw [to_swc_refines mfmt4 get (tblOf rows) rows.length hr (tblOf_rect rows) (tblOf_ids_range rows hp)]
  simp [linesG_toList rows hp]

/-- the `source` argument of the model: the header text, if one is written -/
def sourceStr (self : SWCLike) (source : BoolOrStr) : Option Str := (sourceText self source).map String.toList

/-- **the generated `SWCLike.to_swc` returns the text of `SwcText.writeSwc`** (the concatenation of its lines): same domain, every
`source` argument and attribute, both values of `comments` -/
theorem swclike_to_swc_eq_writeSwc (rows : List WRow) (hr : Reads get (tblOf rows)) (hp : Positions rows)
    (self : SWCLike) (source : BoolOrStr) (wc : Bool) (off : Nat) :
    (swclike_to_swc mfmt4 get self source wc (off : Int)).map String.toList
      = some (writeSwc off (sourceStr self source) wc (self.comments.map String.toList) rows).flatten := by
  rw [swclike_to_swc_refines mfmt4 get (tblOf rows) rows.length hr (tblOf_rect rows) (tblOf_ids_range rows hp)]
  simp only [Option.map_some, textG, strJoin_empty_toList, linesG_toList rows hp, Option.some.injEq]
  congr 2
  have hsrc : "source: ".toList = ['s', 'o', 'u', 'r', 'c', 'e', ':', ' '] := by decide
  unfold writtenG sourceStr
  cases sourceText self source <;> cases wc <;> simp [String.toList_append, hsrc]

end Model

end RefineWriter
