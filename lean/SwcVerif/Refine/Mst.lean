import SwcVerif.Gen.AlgoMst
import SwcVerif.Model.Mst
import SwcVerif.Proofs.Mst
import SwcVerif.Refine.PyArrays
/-! Refinement for C17: the definition GENERATED from the greedy loop of `swcgeom/transforms/mst.py::PointsToCuntzMST.__call__`
(`Gen.Algo.mst_loop`, run at `K = Rat`) equals the hand-written model `Mst.run … (Mst.init n)` — parents, path lengths, child counts,
connected flags and the mask — for every `n > 0`, every `n × n` distance matrix, every `bf`, `furcations`, `exclude_soma`; for `n ≤ 0` it
raises (as the source does: `conn[0] = True` on an empty array). -/
namespace RefineMst
open Py Gen.Algo Mst

/-! ## the masked `argmin` of the library is the model's first-minimum fold -/

/-- the model's fold state `(cost, i, j)` and the library scan's state `(cost, flat index)` over an array with `n` columns, `N` rows -/
def Rel (n N : Nat) : Option (Rat × Nat × Nat) → Option (Rat × Nat) → Prop
  | none, none => True
  | some (c, i, j), some (c', k) => c = c' ∧ k = i * n + j ∧ j < n ∧ i < N
  | _, _ => False

theorem rel_step (masked : Nat → Nat → Bool) (cost : Nat → Nat → Rat) (n N i j : Nat) (hi : i < N) (hj : j < n)
    (b : Option (Rat × Nat × Nat)) (b' : Option (Rat × Nat)) (h : Rel n N b b') :
    Rel n N (pick masked cost b (i, j)) (argminStep b' (cost i j, masked i j) (i * n + j)) := by
  unfold pick argminStep
  by_cases hm : masked i j = true
  · simp only [hm, if_true]; exact h
  · have hm' : masked i j = false := by simpa using hm
    simp only [hm', Bool.false_eq_true, if_false]
    match b, b', h with
    | none, none, _ => exact ⟨rfl, rfl, hj, hi⟩
    | some (c, i0, j0), some (c', k), h =>
      simp only [Rel] at h
      obtain ⟨rfl, rfl, h3, h4⟩ := h
      by_cases hc : cost i j < c
      · simp only [hc, if_true]; exact ⟨rfl, rfl, hj, hi⟩
      · simp only [hc, if_false]; exact ⟨rfl, rfl, h3, h4⟩

theorem argminFrom_append (xs ys : List (Rat × Bool)) : ∀ (k : Nat) (b : Option (Rat × Nat)),
    argminFrom (xs ++ ys) k b = argminFrom ys (k + xs.length) (argminFrom xs k b) := by
  induction xs with
  | nil => intro k b; simp [argminFrom]
  | cons x xs ih =>
    intro k b
    simp only [List.cons_append, argminFrom, ih, List.length_cons]
    congr 1; omega

theorem row_scan (masked : Nat → Nat → Bool) (cost : Nat → Nat → Rat) (n N i : Nat) (hi : i < N) :
    ∀ (r : List (Rat × Bool)) (j0 : Nat) (b : Option (Rat × Nat × Nat)) (b' : Option (Rat × Nat)), j0 + r.length ≤ n →
      (∀ t, t < r.length → r[t]? = some (cost i (j0 + t), masked i (j0 + t))) →
      Rel n N b b' →
      Rel n N (((List.range' j0 r.length).map (fun j => (i, j))).foldl (pick masked cost) b) (argminFrom r (i * n + j0) b') := by
  intro r
  induction r with
  | nil => intro j0 b b' _ _ h; simpa [argminFrom] using h
  | cons x xs ih =>
    intro j0 b b' hle hr h
    have hx : x = (cost i j0, masked i j0) := by
      have := hr 0 (by simp); simpa using this
    subst hx
    have hlen : (((cost i j0, masked i j0)) :: xs).length = xs.length + 1 := rfl
    rw [hlen] at hle ⊢
    have := ih (j0 + 1) _ _ (by omega)
      (by intro t ht
          have := hr (t + 1) (by simp; omega)
          simp only [List.getElem?_cons_succ] at this
          have e : j0 + (t + 1) = j0 + 1 + t := by omega
          rw [this, e])
      (rel_step masked cost n N i j0 hi (by omega) b b' h)
    simp only [List.range'_succ, List.map_cons, List.foldl_cons, argminFrom]
    exact this

theorem rows_scan (masked : Nat → Nat → Bool) (cost : Nat → Nat → Rat) (n N : Nat) :
    ∀ (rows : List (List (Rat × Bool))) (i0 : Nat) (b : Option (Rat × Nat × Nat)) (b' : Option (Rat × Nat)), i0 + rows.length ≤ N →
      (∀ t, t < rows.length → ∃ r, rows[t]? = some r ∧ r.length = n ∧ ∀ j, j < n → r[j]? = some (cost (i0 + t) j, masked (i0 + t) j)) →
      Rel n N b b' →
      Rel n N (((List.range' i0 rows.length).flatMap fun i => (List.range n).map fun j => (i, j)).foldl (pick masked cost) b)
        (argminFrom rows.flatten (i0 * n) b') := by
  intro rows
  induction rows with
  | nil => intro i0 b b' _ _ h; simpa [argminFrom] using h
  | cons r rows ih =>
    intro i0 b b' hle hr h
    obtain ⟨r', hr0, hlen, hcells⟩ := hr 0 (by simp)
    have : r' = r := by simpa using hr0.symm
    subst this
    have h1 := row_scan masked cost n N i0 (by simp at hle; omega) r' 0 b b' (by omega)
      (by intro t ht; simpa using hcells t (by omega)) h
    rw [hlen, ← List.range_eq_range'] at h1
    have h2 := ih (i0 + 1) _ _ (by simp at hle; omega)
      (by intro t ht
          obtain ⟨q, hq, hql, hqc⟩ := hr (t + 1) (by simp; omega)
          refine ⟨q, by simpa using hq, hql, ?_⟩
          intro j hj
          have e : i0 + (t + 1) = i0 + 1 + t := by omega
          rw [hqc j hj, e]) h1
    simp only [List.length_cons, List.range'_succ, List.flatMap_cons, List.foldl_append, List.flatten_cons, argminFrom_append]
    rw [hlen]
    have e : i0 * n + n = (i0 + 1) * n := (Nat.succ_mul i0 n).symm
    rw [e]
    simpa using h2

/-! ## shapes -/
def Shape (n : Nat) (s : St) : Prop :=
  s.pid.length = n ∧ s.acc.length = n ∧ s.furc.length = n ∧ s.conn.length = n ∧ Square n s.mask

/-- an `n × n` matrix of numbers -/
def SquareQ (n : Nat) (dis : List (List Rat)) : Prop := dis.length = n ∧ ∀ r ∈ dis, r.length = n

/-- `dis + bf * acc[:, None]` -/
def costM (dis : List (List Rat)) (bf : Rat) (acc : List Rat) : List (List Rat) :=
  List.zipWith (fun row x => row.map (fun y => y + x)) dis (acc.map (fun x => bf * x))

theorem getD_row_length {α} {n : Nat} {m : List (List α)} (hm : m.length = n ∧ ∀ r ∈ m, r.length = n) (t : Nat) (ht : t < n) :
    (m.getD t []).length = n := hm.2 _ (getD_mem m t [] (by omega))

theorem costM_lengths (dis : List (List Rat)) (bf : Rat) (acc : List Rat) (n : Nat) (hd : SquareQ n dis) (ha : acc.length = n) :
    (costM dis bf acc).length = n ∧ ∀ r ∈ costM dis bf acc, r.length = n := by
  constructor
  · simp [costM, hd.1, ha]
  · intro r hr
    obtain ⟨t, ht, rfl⟩ := List.mem_iff_getElem.mp hr
    simp only [costM, List.getElem_zipWith, List.length_map]
    exact hd.2 _ (List.getElem_mem _)

theorem lengths_eq_replicate {α} {n : Nat} {m : List (List α)} (hm : m.length = n ∧ ∀ r ∈ m, r.length = n) :
    m.map List.length = List.replicate n n := by
  rw [List.eq_replicate_iff]
  refine ⟨by simp [hm.1], ?_⟩
  intro x hx
  obtain ⟨r, hr, rfl⟩ := List.mem_map.mp hx
  exact hm.2 r hr

theorem rows_cells (dis : List (List Rat)) (bf : Rat) (s : St) (n : Nat) (hd : SquareQ n dis) (hs : Shape n s) (t : Nat) (ht : t < n) :
    ∃ r, (List.zipWith List.zip (costM dis bf s.acc) s.mask)[t]? = some r ∧ r.length = n ∧
      ∀ j, j < n → r[j]? = some (cellCost dis bf s t j, smask s t j) := by
  obtain ⟨_, hacc, _, _, hmask⟩ := hs
  have hc := costM_lengths dis bf s.acc n hd hacc
  have h1 : t < (costM dis bf s.acc).length := by omega
  have h2 : t < s.mask.length := by have := hmask.1; omega
  refine ⟨List.zip (costM dis bf s.acc)[t] s.mask[t], ?_, ?_, ?_⟩
  · rw [List.getElem?_eq_getElem (by simp; omega)]; simp
  · have a1 := hc.2 _ (List.getElem_mem h1)
    have a2 := hmask.2 _ (List.getElem_mem h2)
    simp [a1, a2]
  · intro j hj
    have a1 := hc.2 _ (List.getElem_mem h1)
    have a2 := hmask.2 _ (List.getElem_mem h2)
    have hdt : t < dis.length := by have := hd.1; omega
    have a3 : dis[t].length = n := hd.2 _ (List.getElem_mem hdt)
    rw [List.getElem?_eq_getElem (by simp [a1, a2]; omega)]
    simp only [List.getElem_zip, Option.some.injEq, Prod.mk.injEq]
    constructor
    · simp only [costM, List.getElem_zipWith, List.getElem_map, cellCost]
      simp [List.getD_eq_getElem?_getD, List.getElem?_eq_getElem hdt, List.getElem?_eq_getElem (show j < dis[t].length by omega),
        List.getElem?_eq_getElem (show t < s.acc.length by omega)]
    · simp [smask, List.getD_eq_getElem?_getD, List.getElem?_eq_getElem h2, List.getElem?_eq_getElem (show j < s.mask[t].length by omega)]

/-- the library's masked `argmin` on the cost matrix the loop builds is the model's `argmin` (as a flat index) -/
theorem maArgmin_eq (dis : List (List Rat)) (bf : Rat) (s : St) (n : Nat) (hn : 0 < n) (hd : SquareQ n dis) (hs : Shape n s) :
    Py.maArgmin (K := Rat) (costM dis bf s.acc, s.mask) =
      some (((argmin dis bf s n).1 * n + (argmin dis bf s n).2 : Nat) : Int) ∧
    (argmin dis bf s n).1 < n ∧ (argmin dis bf s n).2 < n := by
  have hrel := rows_scan (smask s) (cellCost dis bf s) n n (List.zipWith List.zip (costM dis bf s.acc) s.mask) 0 none none
    (by simp [(costM_lengths dis bf s.acc n hd hs.2.1).1, hs.2.2.2.2.1])
    (by intro t ht
        have : t < n := by simpa [(costM_lengths dis bf s.acc n hd hs.2.1).1, hs.2.2.2.2.1] using ht
        simpa using rows_cells dis bf s n hd hs t this)
    trivial
  have hlen : (List.zipWith List.zip (costM dis bf s.acc) s.mask).length = n := by
    simp [(costM_lengths dis bf s.acc n hd hs.2.1).1, hs.2.2.2.2.1]
  rw [hlen, ← List.range_eq_range', Nat.zero_mul] at hrel
  have hne : (Py.maCells (costM dis bf s.acc, s.mask)).isEmpty = false := by
    obtain ⟨r, hr, hrl, _⟩ := rows_cells dis bf s n hd hs 0 hn
    have hmem : r ∈ List.zipWith List.zip (costM dis bf s.acc) s.mask := List.mem_of_getElem? hr
    rw [Bool.eq_false_iff]
    intro hc
    rw [List.isEmpty_iff] at hc
    have := List.flatten_eq_nil_iff.mp hc r hmem
    rw [this] at hrl; simp at hrl; omega
  rw [argmin_eq]
  have hfold : (cells n).foldl (pick (smask s) (cellCost dis bf s)) none =
      ((List.range n).flatMap fun i => (List.range n).map fun j => (i, j)).foldl (pick (smask s) (cellCost dis bf s)) none := rfl
  rw [hfold]
  have hcells : Py.maCells (costM dis bf s.acc, s.mask) = (List.zipWith List.zip (costM dis bf s.acc) s.mask).flatten := rfl
  rw [hcells] at hne
  simp only [Py.maArgmin, hcells, hne, Bool.false_eq_true, if_false]
  match hb : ((List.range n).flatMap fun i => (List.range n).map fun j => (i, j)).foldl (pick (smask s) (cellCost dis bf s)) none,
      hb' : argminFrom (List.zipWith List.zip (costM dis bf s.acc) s.mask).flatten 0 none, hrel with
  | none, none, _ => exact ⟨by simp, hn, hn⟩
  | some (c, i, j), some (c', k), h =>
    simp only [Rel] at h
    obtain ⟨_, rfl, h3, h4⟩ := h
    exact ⟨rfl, h4, h3⟩

/-! ## one iteration -/

/-- `self.furcations` as the model's limit: `-1` = no limit; any other value `k` is the limit `max k 0` (a negative limit other than
`-1` saturates every point at its first child, exactly as limit `0`) -/
def limitOf (k : Int) : Option Nat := if k = -1 then none else some k.toNat

/-- the record of the generated function's variables that represents the model state `s` (scratch variables arbitrary) -/
def toV (n : Nat) (dis : List (List Rat)) (bf : Rat) (k : Int) (ex : Bool) (s : St) (cost : Py.Masked2 Rat) (i j u : Int) :
    mst_loop.V Rat :=
  { n := n, dis := dis, bf := bf, limit := k, exclude_soma := ex, pid := s.pid, acc := s.acc,
    furcations := s.furc.map (fun (x : Nat) => (x : Int)), conn := s.conn, mask := s.mask, cost := cost, i := i, j := j, underscore_ := u }

theorem idx_map_cast (l : List Nat) (a : Nat) (h : a < l.length) :
    Py.idx (l.map (fun (x : Nat) => (x : Int))) (a : Int) = some ((l.getD a 0 : Nat) : Int) := by
  rw [Py.idx_nat_getD _ a 0 (by simpa using h)]
  simp [List.getD_eq_getElem?_getD, List.getElem?_eq_getElem h]

theorem for1_step (n : Nat) (hn : 0 < n) (dis : List (List Rat)) (hd : SquareQ n dis) (bf : Rat) (k : Int) (ex : Bool)
    (x : Int) (s : St) (hs : Shape n s) (c : Py.Masked2 Rat) (i j u : Int) :
    ∃ c' i' j', mst_loop.for1 x (toV n dis bf k ex s c i j u) =
      .next (toV n dis bf k ex (step dis bf (limitOf k) ex n s) c' i' j' x) := by
  obtain ⟨hA, hi, hj⟩ := maArgmin_eq dis bf s n hn hd hs
  rw [step_eq]
  generalize (argmin dis bf s n).1 = a at hA hi ⊢
  generalize (argmin dis bf s n).2 = b at hA hj ⊢
  obtain ⟨hpid, hacc, hfurc, hconn, hmask⟩ := hs
  have hcl := costM_lengths dis bf s.acc n hd hacc
  have hB : Py.bcastCol (fun x y => x + y) dis (s.acc.map (fun x => bf * x)) = some (costM dis bf s.acc) :=
    Py.bcastCol_same _ _ _ (by simp [hd.1, hacc])
  have hC : Py.maArray (costM dis bf s.acc) s.mask = some (costM dis bf s.acc, s.mask) := by
    simp [Py.maArray, lengths_eq_replicate hcl, lengths_eq_replicate hmask]
  have hS : Py.shape2 (costM dis bf s.acc) = ((n : Int), (n : Int)) := by
    obtain ⟨h1, h2⟩ := hcl
    cases hcm : costM dis bf s.acc with
    | nil => rw [hcm] at h1; simp at h1; omega
    | cons r rs =>
      rw [hcm] at h1 h2
      have := h2 r (List.mem_cons_self)
      simp only [Py.shape2, List.headD_cons, this, h1]
  have hU := Py.unravelIndex_nat a b n hi hj
  refine ⟨(costM dis bf s.acc, s.mask), (a : Int), (b : Int), ?_⟩
  -- the child count
  have hF1 : Py.idx (s.furc.map (fun (x : Nat) => (x : Int))) (a : Int) = some ((s.furc.getD a 0 : Nat) : Int) :=
    idx_map_cast _ _ (by omega)
  have hF2 : Py.setIdx (s.furc.map (fun (x : Nat) => (x : Int))) (a : Int) (((s.furc.getD a 0 : Nat) : Int) + 1) =
      some ((s.furc.set a (s.furc.getD a 0 + 1)).map (fun (x : Nat) => (x : Int))) := by
    rw [Py.setIdx_nat _ a _ (by simp; omega), List.map_set]; rfl
  have hF3 : Py.idx ((s.furc.set a (s.furc.getD a 0 + 1)).map (fun (x : Nat) => (x : Int))) (a : Int) =
      some (((s.furc.set a (s.furc.getD a 0 + 1)).getD a 0 : Nat) : Int) :=
    idx_map_cast _ _ (by simp; omega)
  -- the saturation test
  have hT : (if decide (k ≠ -1) = true then
        (some (((s.furc.set a (s.furc.getD a 0 + 1)).getD a 0 : Nat) : Int)).bind fun t14 =>
          if decide (t14 ≥ k) = true then some (!ex || decide ((a : Int) ≠ 0)) else some false
      else some false) = some (satFlag (limitOf k) ex ((s.furc.set a (s.furc.getD a 0 + 1)).getD a 0) a) := by
    generalize (s.furc.set a (s.furc.getD a 0 + 1)).getD a 0 = f
    unfold limitOf satFlag
    by_cases hk : k = -1
    · simp [hk]
    · have h1 : ((f : Int) ≥ k) ↔ f ≥ k.toNat := by omega
      have h2 : ((a : Int) ≠ 0) ↔ a ≠ 0 := by omega
      by_cases h3 : f ≥ k.toNat <;> by_cases h4 : a = 0 <;> cases ex <;> simp [hk, h1, h3, h4]
  -- the masks
  have hM1 : Py.setRowConst s.mask (a : Int) true = some (s.mask.set a (List.replicate n true)) := by
    rw [Py.setRowConst_nat _ a _ (by have := hmask.1; omega), getD_row_length hmask a hi]
  have hM2 : Py.setColConst (s.mask.set a (List.replicate n true)) (a : Int) true = some (cross s.mask a (List.replicate n true)) := by
    rw [Py.setColConst_nat]; rfl
    intro r hr
    rcases List.mem_or_eq_of_mem_set hr with h | h
    · rw [hmask.2 r h]; exact hi
    · rw [h]; simpa using hi
  have hP : Py.setIdx s.pid (b : Int) (a : Int) = some (s.pid.set b (a : Int)) := Py.setIdx_nat _ _ _ (by omega)
  have hA1 : Py.idx s.acc (a : Int) = some (s.acc.getD a 0) := Py.idx_nat_getD _ _ _ (by omega)
  have hA2 : Py.idx2 dis (a : Int) (b : Int) = some ((dis.getD a []).getD b 0) :=
    Py.idx2_nat _ _ _ _ (by have := hd.1; omega) (by rw [getD_row_length hd a hi]; exact hj)
  have hA3 : ∀ y, Py.setIdx s.acc (b : Int) y = some (s.acc.set b y) := fun y => Py.setIdx_nat _ _ _ (by omega)
  have hC1 : Py.setIdx s.conn (b : Int) true = some (s.conn.set b true) := Py.setIdx_nat _ _ _ (by omega)
  have hR : ∀ m1, Square n m1 → Py.setRow m1 (b : Int) (s.conn.set b true) = some (m1.set b (s.conn.set b true)) := by
    intro m1 hm1
    exact Py.setRow_nat _ _ _ (by have := hm1.1; omega) (by rw [getD_row_length hm1 b hj]; simp [hconn])
  have hR2 : ∀ m1, Square n m1 → Py.setColConst (m1.set b (s.conn.set b true)) (b : Int) true = some (cross m1 b (s.conn.set b true)) := by
    intro m1 hm1
    rw [Py.setColConst_nat]; rfl
    intro r hr
    rcases List.mem_or_eq_of_mem_set hr with h | h
    · rw [hm1.2 r h]; exact hj
    · rw [h]; simpa [hconn] using hj
  have hsq1 : Square n (cross s.mask a (List.replicate n true)) := cross_square a hmask (by simp)
  simp only [mst_loop.for1, toV, Py.seq, Py.bind, hB, hC, hA, hS, hU, hF1, hF2, hF3, hT]
  by_cases hsat : satFlag (limitOf k) ex ((s.furc.set a (s.furc.getD a 0 + 1)).getD a 0) a = true
  · simp only [hsat, if_true, hM1, hM2, hP, hA1, hA2, hA3, hC1, hR _ hsq1, hR2 _ hsq1, stepAt]
  · simp only [hsat, if_false, Py.skip, hP, hA1, hA2, hA3, hC1, hR _ hmask, hR2 _ hmask, stepAt, Bool.false_eq_true]

/-! ## the loop -/

theorem stepAt_shape (dis : List (List Rat)) (limit : Option Nat) (ex : Bool) (n : Nat) (s : St) (a b : Nat)
    (hs : Shape n s) : Shape n (stepAt dis limit ex n s a b) := by
  obtain ⟨hpid, hacc, hfurc, hconn, hmask⟩ := hs
  refine ⟨by simp [stepAt, hpid], by simp [stepAt, hacc], by simp [stepAt, hfurc], by simp [stepAt, hconn], ?_⟩
  show Square n (cross (if _ then _ else _) b (s.conn.set b true))
  split
  · exact cross_square b (cross_square a hmask (by simp)) (by simp [hconn])
  · exact cross_square b hmask (by simp [hconn])

theorem step_shape (dis : List (List Rat)) (bf : Rat) (limit : Option Nat) (ex : Bool) (n : Nat) (s : St)
    (hs : Shape n s) : Shape n (step dis bf limit ex n s) := by
  rw [step_eq]; exact stepAt_shape dis limit ex n s _ _ hs

theorem for1_loop (n : Nat) (hn : 0 < n) (dis : List (List Rat)) (hd : SquareQ n dis) (bf : Rat) (k : Int) (ex : Bool) :
    ∀ (xs : List Int) (s : St), Shape n s → ∀ (c : Py.Masked2 Rat) (i j u : Int),
      ∃ c' i' j' u', Py.forEach mst_loop.for1 xs (toV n dis bf k ex s c i j u) =
        .next (toV n dis bf k ex (run dis bf (limitOf k) ex n xs.length s) c' i' j' u') := by
  intro xs
  induction xs with
  | nil => intro s _ c i j u; exact ⟨c, i, j, u, rfl⟩
  | cons x xs ih =>
    intro s hs c i j u
    obtain ⟨c1, i1, j1, e1⟩ := for1_step n hn dis hd bf k ex x s hs c i j u
    obtain ⟨c2, i2, j2, u2, e2⟩ := ih _ (step_shape dis bf (limitOf k) ex n s hs) c1 i1 j1 x
    refine ⟨c2, i2, j2, u2, ?_⟩
    simp only [Py.forEach, e1, e2, List.length_cons, run]

theorem init_shape (n : Nat) : Shape n (init n) := by
  refine ⟨by simp [init], by simp [init], by simp [init], by simp [init], by simp [init], ?_⟩
  intro r hr
  simp only [init, List.mem_map, List.mem_range] at hr
  obtain ⟨i, _, rfl⟩ := hr
  simp

theorem init_conn_eq (n : Nat) : (List.replicate n false).set 0 true = (List.range n).map (· == 0) := by
  apply List.ext_getElem
  · simp
  · intro i h1 h2
    simp only [List.getElem_set, List.getElem_replicate, List.getElem_map, List.getElem_range]
    by_cases h : i = 0
    · subst h; simp
    · have : ¬ 0 = i := fun e => h e.symm
      simp [h, this]

theorem init_mask_eq (n : Nat) (hn : 0 < n) :
    ((List.replicate n (List.replicate n true)).set 0 (List.replicate n false)).set 0
      ((((List.replicate n (List.replicate n true)).set 0 (List.replicate n false)).getD 0 []).set 0 true) =
    (List.range n).map fun i => (List.range n).map fun j => if i = 0 then j == 0 else true := by
  have e0 : ((List.replicate n (List.replicate n true)).set 0 (List.replicate n false)).getD 0 [] = List.replicate n false := by
    simp [List.getD_eq_getElem?_getD, hn]
  rw [e0, init_conn_eq, List.set_set]
  apply List.ext_getElem
  · simp
  · intro i h1 h2
    simp only [List.getElem_set, List.getElem_replicate, List.getElem_map, List.getElem_range]
    by_cases h : i = 0
    · subst h; simp
    · have : ¬ 0 = i := fun e => h e.symm
      simp only [this, if_false, h]
      apply List.ext_getElem
      · simp
      · intro j _ _; simp

/-- **the generated greedy loop equals the model**: for every `n > 0`, every `n × n` distance matrix, every balancing factor, every
value of `furcations` and `exclude_soma`, the definition generated from the source returns exactly the parents, path lengths, child
counts, connected flags and mask of `Mst.run … (n - 1) (Mst.init n)` (in particular it never raises) -/
theorem mst_loop_refines (n : Nat) (hn : 0 < n) (dis : List (List Rat)) (hd : SquareQ n dis) (bf : Rat) (k : Int) (ex : Bool) :
    mst_loop (K := Rat) (n : Int) dis bf k ex =
      some ((run dis bf (limitOf k) ex n (n - 1) (init n)).pid, (run dis bf (limitOf k) ex n (n - 1) (init n)).acc,
        (run dis bf (limitOf k) ex n (n - 1) (init n)).furc.map (fun (x : Nat) => (x : Int)),
        (run dis bf (limitOf k) ex n (n - 1) (init n)).conn, (run dis bf (limitOf k) ex n (n - 1) (init n)).mask, ()) := by
  have hr : Py.range ((n : Int) - 1) = (List.range (n - 1)).map (fun (k : Nat) => (k : Int)) := by
    have : ((n : Int) - 1) = ((n - 1 : Nat) : Int) := by omega
    rw [this, Py.range_natCast]
  have hc : Py.setIdx (List.replicate n false) (0 : Int) true = some ((List.replicate n false).set 0 true) :=
    Py.setIdx_nat _ 0 _ (by simpa using hn)
  have hm1 : Py.setRowConst (List.replicate n (List.replicate n true)) (0 : Int) false =
      some ((List.replicate n (List.replicate n true)).set 0 (List.replicate n false)) := by
    have := Py.setRowConst_nat (List.replicate n (List.replicate n true)) 0 false (by simpa using hn)
    simpa [List.getD_eq_getElem?_getD, hn] using this
  have hm2 := Py.setIdx2_nat ((List.replicate n (List.replicate n true)).set 0 (List.replicate n false)) 0 0 true
    (by simpa using hn) (by simp [List.getD_eq_getElem?_getD, hn])
  obtain ⟨c', i', j', u', e⟩ := for1_loop n hn dis hd bf k ex ((List.range (n - 1)).map (fun (k : Nat) => (k : Int))) (init n)
    (init_shape n) (default : mst_loop.V Rat).cost (default : mst_loop.V Rat).i (default : mst_loop.V Rat).j
    (default : mst_loop.V Rat).underscore_
  simp only [List.length_map, List.length_range, toV, init, List.map_replicate, Nat.cast_zero] at e
  simp only [mst_loop, mst_loop.body, Py.seq, Py.bind, Py.full_nat, Py.full2_nat, hc, hm1]
  have hm2' : Py.setIdx2 ((List.replicate n (List.replicate n true)).set 0 (List.replicate n false)) (0 : Int) (0 : Int) true = _ := hm2
  rw [hm2']
  simp only [init_conn_eq, init_mask_eq n hn]
  rw [hr, e]
  rfl

/-- without points the generated loop raises (as the source does: `np.full` of a negative size, `conn[0] = True` on an empty array) -/
theorem mst_loop_raises (n : Int) (hn : n ≤ 0) (dis : List (List Rat)) (bf : Rat) (k : Int) (ex : Bool) :
    mst_loop (K := Rat) n dis bf k ex = none := by
  by_cases h0 : n = 0
  · subst h0
    simp [mst_loop, mst_loop.body, Py.seq, Py.bind, Py.full, Py.setIdx, Py.normIdx, Py.finish]
  · have : n < 0 := by omega
    simp [mst_loop, mst_loop.body, Py.seq, Py.bind, Py.full_neg n _ this, Py.finish]

-- non-vacuity: 4 points on a line at 0, 10, 11, 1 (the matrix of `C17.exDis`)
example : SquareQ 4 [[0, 10, 11, 1], [10, 0, 1, 9], [11, 1, 0, 10], [1, 9, 10, 0]] := ⟨rfl, by decide⟩
example : (mst_loop (K := Rat) 4 [[0, 10, 11, 1], [10, 0, 1, 9], [11, 1, 0, 10], [1, 9, 10, 0]] 0 (-1) true).map (·.1) =
    some [-1, 3, 1, 0] := by decide +kernel
example : (mst_loop (K := Rat) 4 [[0, 10, 11, 1], [10, 0, 1, 9], [11, 1, 0, 10], [1, 9, 10, 0]] 1 1 false).map (·.1) =
    some [-1, 3, 1, 0] := by decide +kernel

end RefineMst
