import SwcVerif.Gen.AlgoMst
import SwcVerif.Model.Mst
import SwcVerif.Proofs.Mst
import SwcVerif.Refine.PyArrays
/-! Refinement for C17: the definition GENERATED from the greedy loop of `swcgeom/transforms/mst.py::PointsToCuntzMST.__call__`
(`Gen.Algo.mst_loop`, run at `K = Rat`) equals the hand-written model `Mst.run … (Mst.init n)` — parents, path lengths, child counts,
connected flags and the mask — for every `n > 0`, every `n × n` distance matrix, every `bf`, `furcations`, `exclude_soma`; for `n ≤ 0` it
raises (as the source does: `conn[0] = True` on an empty array). -/
namespace RefineMst
open Py Gen.Algo Mst

/-! ## the masked `argmin` of the library is the model's first-minimum fold -/

/-- the model's fold state `(cost, i, j)` and the library scan's state `(cost, flat index)` over an array with `n` columns, `N` rows -/
def Rel (n N : Nat) : Option (Rat × Nat × Nat) → Option (Rat × Nat) → Prop
  | none, none => True
  | some (c, i, j), some (c', k) => c = c' ∧ k = i * n + j ∧ j < n ∧ i < N
  | _, _ => False

theorem rel_step (masked : Nat → Nat → Bool) (cost : Nat → Nat → Rat) (n N i j : Nat) (hi : i < N) (hj : j < n)
    (b : Option (Rat × Nat × Nat)) (b' : Option (Rat × Nat)) (h : Rel n N b b') :
    Rel n N (pick masked cost b (i, j)) (argminStep b' (cost i j, masked i j) (i * n + j)) := by
  unfold pick argminStep
  by_cases hm : masked i j = true
  · simp only [hm, if_true]; exact h
  · have hm' : masked i j = false := by simpa using hm
    simp only [hm', Bool.false_eq_true, if_false]
    match b, b', h with
    | none, none, _ => exact ⟨rfl, rfl, hj, hi⟩
    | some (c, i0, j0), some (c', k), h =>
      simp only [Rel] at h
      obtain ⟨rfl, rfl, h3, h4⟩ := h
      by_cases hc : cost i j < c
      · simp only [hc, if_true]; exact ⟨rfl, rfl, hj, hi⟩
      · simp only [hc, if_false]; exact ⟨rfl, rfl, h3, h4⟩

theorem argminFrom_append (xs ys : List (Rat × Bool)) : ∀ (k : Nat) (b : Option (Rat × Nat)),
    argminFrom (xs ++ ys) k b = argminFrom ys (k + xs.length) (argminFrom xs k b) := by
  induction xs with
  | nil => intro k b; simp [argminFrom]
  | cons x xs ih =>
    intro k b
    simp only [List.cons_append, argminFrom, ih, List.length_cons]
    congr 1; omega

theorem row_scan (masked : Nat → Nat → Bool) (cost : Nat → Nat → Rat) (n N i : Nat) (hi : i < N) :
    ∀ (r : List (Rat × Bool)) (j0 : Nat) (b : Option (Rat × Nat × Nat)) (b' : Option (Rat × Nat)), j0 + r.length ≤ n →
      (∀ t, t < r.length → r[t]? = some (cost i (j0 + t), masked i (j0 + t))) →
      Rel n N b b' →
      Rel n N (((List.range' j0 r.length).map (fun j => (i, j))).foldl (pick masked cost) b) (argminFrom r (i * n + j0) b') := by
  intro r
  induction r with
  | nil => intro j0 b b' _ _ h; simpa [argminFrom] using h
  | cons x xs ih =>
    intro j0 b b' hle hr h
    have hx : x = (cost i j0, masked i j0) := by
      have := hr 0 (by simp); simpa using this
    subst hx
    have hlen : (((cost i j0, masked i j0)) :: xs).length = xs.length + 1 := rfl
    rw [hlen] at hle ⊢
    have := ih (j0 + 1) _ _ (by omega)
      (by intro t ht
          have := hr (t + 1) (by simp; omega)
          simp only [List.getElem?_cons_succ] at this
          have e : j0 + (t + 1) = j0 + 1 + t := by omega
          rw [this, e])
      (rel_step masked cost n N i j0 hi (by omega) b b' h)
    simp only [List.range'_succ, List.map_cons, List.foldl_cons, argminFrom]
    exact this

theorem rows_scan (masked : Nat → Nat → Bool) (cost : Nat → Nat → Rat) (n N : Nat) :
    ∀ (rows : List (List (Rat × Bool))) (i0 : Nat) (b : Option (Rat × Nat × Nat)) (b' : Option (Rat × Nat)), i0 + rows.length ≤ N →
      (∀ t, t < rows.length → ∃ r, rows[t]? = some r ∧ r.length = n ∧ ∀ j, j < n → r[j]? = some (cost (i0 + t) j, masked (i0 + t) j)) →
      Rel n N b b' →
      Rel n N (((List.range' i0 rows.length).flatMap fun i => (List.range n).map fun j => (i, j)).foldl (pick masked cost) b)
        (argminFrom rows.flatten (i0 * n) b') := by
  intro rows
  induction rows with
  | nil => intro i0 b b' _ _ h; simpa [argminFrom] using h
  | cons r rows ih =>
    intro i0 b b' hle hr h
    obtain ⟨r', hr0, hlen, hcells⟩ := hr 0 (by simp)
    have : r' = r := by simpa using hr0.symm
    subst this
    have h1 := row_scan masked cost n N i0 (by simp at hle; omega) r' 0 b b' (by omega)
      (by intro t ht; simpa using hcells t (by omega)) h
    rw [hlen, ← List.range_eq_range'] at h1
    have h2 := ih (i0 + 1) _ _ (by simp at hle; omega)
      (by intro t ht
          obtain ⟨q, hq, hql, hqc⟩ := hr (t + 1) (by simp; omega)
          refine ⟨q, by simpa using hq, hql, ?_⟩
          intro j hj
          have e : i0 + (t + 1) = i0 + 1 + t := by omega
          rw [hqc j hj, e]) h1
    simp only [List.length_cons, List.range'_succ, List.flatMap_cons, List.foldl_append, List.flatten_cons, argminFrom_append]
    rw [hlen]
    have e : i0 * n + n = (i0 + 1) * n := (Nat.succ_mul i0 n).symm
    rw [e]
    simpa using h2

/-! ## shapes -/
def Shape (n : Nat) (s : St) : Prop :=
  s.pid.length = n ∧ s.acc.length = n ∧ s.furc.length = n ∧ s.conn.length = n ∧ Square n s.mask

/-- an `n × n` matrix of numbers -/
def SquareQ (n : Nat) (dis : List (List Rat)) : Prop := dis.length = n ∧ ∀ r ∈ dis, r.length = n

/-- `dis + bf * acc[:, None]` -/
def costM (dis : List (List Rat)) (bf : Rat) (acc : List Rat) : List (List Rat) :=
  List.zipWith (fun row x => row.map (fun y => y + x)) dis (acc.map (fun x => bf * x))

theorem getD_row_length {α} {n : Nat} {m : List (List α)} (hm : m.length = n ∧ ∀ r ∈ m, r.length = n) (t : Nat) (ht : t < n) :
    (m.getD t []).length = n := hm.2 _ (getD_mem m t [] (by omega))

theorem costM_lengths (dis : List (List Rat)) (bf : Rat) (acc : List Rat) (n : Nat) (hd : SquareQ n dis) (ha : acc.length = n) :
    (costM dis bf acc).length = n ∧ ∀ r ∈ costM dis bf acc, r.length = n := by
  constructor
  · simp [costM, hd.1, ha]
  · intro r hr
    obtain ⟨t, ht, rfl⟩ := List.mem_iff_getElem.mp hr
    simp only [costM, List.getElem_zipWith, List.length_map]
    exact hd.2 _ (List.getElem_mem _)

theorem lengths_eq_replicate {α} {n : Nat} {m : List (List α)} (hm : m.length = n ∧ ∀ r ∈ m, r.length = n) :
    m.map List.length = List.replicate n n := by
  rw [List.eq_replicate_iff]
  refine ⟨by simp [hm.1], ?_⟩
  intro x hx
  obtain ⟨r, hr, rfl⟩ := List.mem_map.mp hx
  exact hm.2 r hr

theorem rows_cells (dis : List (List Rat)) (bf : Rat) (s : St) (n : Nat) (hd : SquareQ n dis) (hs : Shape n s) (t : Nat) (ht : t < n) :
    ∃ r, (List.zipWith List.zip (costM dis bf s.acc) s.mask)[t]? = some r ∧ r.length = n ∧
      ∀ j, j < n → r[j]? = some (cellCost dis bf s t j, smask s t j) := by
  obtain ⟨_, hacc, _, _, hmask⟩ := hs
  have hc := costM_lengths dis bf s.acc n hd hacc
  have h1 : t < (costM dis bf s.acc).length := by omega
  have h2 : t < s.mask.length := by have := hmask.1; omega
  refine ⟨List.zip (costM dis bf s.acc)[t] s.mask[t], ?_, ?_, ?_⟩
  · rw [List.getElem?_eq_getElem (by simp; omega)]; simp
  · have a1 := hc.2 _ (List.getElem_mem h1)
    have a2 := hmask.2 _ (List.getElem_mem h2)
    simp [a1, a2]
  · intro j hj
    have a1 := hc.2 _ (List.getElem_mem h1)
    have a2 := hmask.2 _ (List.getElem_mem h2)
    have hdt : t < dis.length := by have := hd.1; omega
    have a3 : dis[t].length = n := hd.2 _ (List.getElem_mem hdt)
    rw [List.getElem?_eq_getElem (by simp [a1, a2]; omega)]
    simp only [List.getElem_zip, Option.some.injEq, Prod.mk.injEq]
    constructor
    · simp only [costM, List.getElem_zipWith, List.getElem_map, cellCost]
      simp [List.getD_eq_getElem?_getD, List.getElem?_eq_getElem hdt, List.getElem?_eq_getElem (show j < dis[t].length by omega),
        List.getElem?_eq_getElem (show t < s.acc.length by omega)]
    · simp [smask, List.getD_eq_getElem?_getD, List.getElem?_eq_getElem h2, List.getElem?_eq_getElem (show j < s.mask[t].length by omega)]

/-- the library's masked `argmin` on the cost matrix the loop builds is the model's `argmin` (as a flat index) -/
theorem maArgmin_eq (dis : List (List Rat)) (bf : Rat) (s : St) (n : Nat) (hn : 0 < n) (hd : SquareQ n dis) (hs : Shape n s) :
    Py.maArgmin (K := Rat) (costM dis bf s.acc, s.mask) =
      some (((argmin dis bf s n).1 * n + (argmin dis bf s n).2 : Nat) : Int) ∧
    (argmin dis bf s n).1 < n ∧ (argmin dis bf s n).2 < n := by
  have hrel := rows_scan (smask s) (cellCost dis bf s) n n (List.zipWith List.zip (costM dis bf s.acc) s.mask) 0 none none
    (by simp [(costM_lengths dis bf s.acc n hd hs.2.1).1, hs.2.2.2.2.1])
    (by intro t ht
        have : t < n := by simpa [(costM_lengths dis bf s.acc n hd hs.2.1).1, hs.2.2.2.2.1] using ht
        simpa using rows_cells dis bf s n hd hs t this)
    trivial
  have hlen : (List.zipWith List.zip (costM dis bf s.acc) s.mask).length = n := by
    simp [(costM_lengths dis bf s.acc n hd hs.2.1).1, hs.2.2.2.2.1]
  rw [hlen, ← List.range_eq_range', Nat.zero_mul] at hrel
  have hne : (Py.maCells (costM dis bf s.acc, s.mask)).isEmpty = false := by
    obtain ⟨r, hr, hrl, _⟩ := rows_cells dis bf s n hd hs 0 hn
    have hmem : r ∈ List.zipWith List.zip (costM dis bf s.acc) s.mask := List.mem_of_getElem? hr
    rw [Bool.eq_false_iff]
    intro hc
    rw [List.isEmpty_iff] at hc
    have := List.flatten_eq_nil_iff.mp hc r hmem
    rw [this] at hrl; simp at hrl; omega
  rw [argmin_eq]
  have hfold : (cells n).foldl (pick (smask s) (cellCost dis bf s)) none =
      ((List.range n).flatMap fun i => (List.range n).map fun j => (i, j)).foldl (pick (smask s) (cellCost dis bf s)) none := rfl
  rw [hfold]
  have hcells : Py.maCells (costM dis bf s.acc, s.mask) = (List.zipWith List.zip (costM dis bf s.acc) s.mask).flatten := rfl
  rw [hcells] at hne
  simp only [Py.maArgmin, hcells, hne, Bool.false_eq_true, if_false]
  match hb : ((List.range n).flatMap fun i => (List.range n).map fun j => (i, j)).foldl (pick (smask s) (cellCost dis bf s)) none,
      hb' : argminFrom (List.zipWith List.zip (costM dis bf s.acc) s.mask).flatten 0 none, hrel with
  | none, none, _ => exact ⟨by simp, hn, hn⟩
  | some (c, i, j), some (c', k), h =>
    simp only [Rel] at h
    obtain ⟨_, rfl, h3, h4⟩ := h
    exact ⟨rfl, h4, h3⟩

end RefineMst
