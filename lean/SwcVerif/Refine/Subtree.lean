import SwcVerif.Gen.AlgoSubtree
import SwcVerif.Refine.PyLemmas
import SwcVerif.Model.Subtree
/-! Refinement for C06: the definition GENERATED from `swcgeom/core/swc_utils/subtree.py::to_sub_topology` (boolean mask
`sub_id != REMOVAL`, mask indexing of both columns, the `{idx: i for i, idx in enumerate(sub_id)}` dictionary, the final
comprehension with its conditional lookup) equals the model `Sub.toSubTopology`, failures (KeyError) included, on every
pair of equally long columns whose kept ids are distinct. -/
namespace RefineSub
open Gen.Algo Sub Py

theorem removal_eq : REMOVAL = -2 := by decide

theorem select_ne_fst : ∀ (ids pids : List Int), ids.length = pids.length →
    select ids (neMask ids (-2)) = ((List.zip ids pids).filter (fun ip => !decide (ip.1 = -2))).map (·.1) ∧
    select pids (neMask ids (-2)) = ((List.zip ids pids).filter (fun ip => !decide (ip.1 = -2))).map (·.2) := by
  intro ids
  induction ids with
  | nil => intro pids _; simp [select, neMask]
  | cons i is ih =>
    intro pids hl
    cases pids with
    | nil => simp at hl
    | cons p ps =>
      have := ih ps (by simpa using hl)
      simp only [select, neMask, ne_eq, decide_not] at this ⊢
      by_cases h : i = -2
      · simp [h, this.1, this.2]
      · simp [h, this.1, this.2]

theorem for1_loop : ∀ (ps : List (Int × Int)) (v : to_sub_topology.V),
    ∃ i' x', forEach to_sub_topology.for1 ps v =
      .next { v with c0_ := ps.foldl (fun d p => Dict.set d p.2 p.1) v.c0_, i := i', idx := x' } := by
  intro ps
  induction ps with
  | nil => intro v; exact ⟨v.i, v.idx, by simp [forEach]⟩
  | cons p ps ih =>
    intro v
    obtain ⟨i', x', e⟩ := ih { v with i := p.1, idx := p.2, c0_ := Dict.set v.c0_ p.2 p.1 }
    refine ⟨i', x', ?_⟩
    simp only [forEach, to_sub_topology.for1]
    rw [e]
    simp

theorem get?_enum_not_mem : ∀ (l : List Int) (k : Int) (d : Dict Int Int) (x : Int), x ∉ l →
    Dict.get? ((enumFrom k l).foldl (fun d p => Dict.set d p.2 p.1) d) x = Dict.get? d x := by
  intro l
  induction l with
  | nil => intro k d x _; rfl
  | cons a l ih =>
    intro k d x hx
    simp only [List.mem_cons, not_or] at hx
    simp only [enumFrom, List.foldl_cons]
    rw [ih _ _ _ hx.2, Dict.get?_set, if_neg hx.1]

theorem get?_enum : ∀ (l : List Int) (k : Int) (d : Dict Int Int), l.Nodup → ∀ x ∈ l,
    Dict.get? ((enumFrom k l).foldl (fun d p => Dict.set d p.2 p.1) d) x = some (k + (l.idxOf x : Nat)) := by
  intro l
  induction l with
  | nil => intro k d _ x hx; simp at hx
  | cons a l ih =>
    intro k d hnd x hx
    rw [List.nodup_cons] at hnd
    simp only [enumFrom, List.foldl_cons]
    by_cases hxa : x = a
    · subst hxa
      rw [get?_enum_not_mem _ _ _ _ hnd.1, Dict.get?_set]
      simp
    · have hxl : x ∈ l := by
        simp only [List.mem_cons] at hx
        rcases hx with h | h
        · exact absurd h hxa
        · exact h
      rw [ih _ _ hnd.2 x hxl]
      have hax : (a == x) = false := by simp; exact fun c => hxa c.symm
      simp [List.idxOf_cons, hax]
      omega

/-- the dictionary `{idx: i for i, idx in enumerate(l)}` is the model's `pos?` when the ids are distinct -/
theorem get?_old2new (l : List Int) (hnd : l.Nodup) (x : Int) :
    Dict.get? ((enumerate l).foldl (fun d p => Dict.set d p.2 p.1) ([] : Dict Int Int)) x = pos? l x := by
  unfold enumerate pos?
  by_cases hx : x ∈ l
  · rw [get?_enum l 0 [] hnd x hx]
    have : l.idxOf x < l.length := List.idxOf_lt_length_of_mem hx
    simp [this]
  · rw [get?_enum_not_mem l 0 [] x hx]
    have : ¬ l.idxOf x < l.length := by rw [List.idxOf_lt_length_iff]; exact hx
    simp [this]

theorem for2_loop (keptIds : List Int) : ∀ (xs : List Int) (v : to_sub_topology.V),
    (∀ x, Dict.get? v.old2new x = pos? keptIds x) →
    (match xs.mapM (fun p => if p = -1 then some (-1) else pos? keptIds p) with
     | some ys => ∃ i', forEach to_sub_topology.for2 xs v = .next { v with c3_ := v.c3_ ++ ys, i := i' }
     | none => forEach to_sub_topology.for2 xs v = .err) := by
  intro xs
  induction xs with
  | nil => intro v _; exact ⟨v.i, by simp [forEach]⟩
  | cons x xs ih =>
    intro v hv
    by_cases hx : x = -1
    · subst hx
      have := ih { v with i := -1, c3_ := v.c3_ ++ [-1] } hv
      cases hm : xs.mapM (fun p => if p = -1 then some (-1) else pos? keptIds p) with
      | none =>
        have e0 : ((-1 : Int) :: xs).mapM (fun p => if p = -1 then some (-1) else pos? keptIds p) = none := by
          simp [List.mapM_cons, hm]
        rw [e0]; simp only [hm] at this
        simp only [forEach, to_sub_topology.for2, Py.bind, ne_eq, not_true_eq_false, decide_false, Bool.false_eq_true, if_false]
        exact this
      | some ys =>
        have e0 : ((-1 : Int) :: xs).mapM (fun p => if p = -1 then some (-1) else pos? keptIds p) = some (-1 :: ys) := by
          simp [List.mapM_cons, hm]
        rw [e0]; simp only [hm] at this
        obtain ⟨i', e⟩ := this
        refine ⟨i', ?_⟩
        simp only [forEach, to_sub_topology.for2, Py.bind, ne_eq, not_true_eq_false, decide_false, Bool.false_eq_true, if_false]
        rw [e]; simp
    · cases hp : pos? keptIds x with
      | none =>
        have e0 : (x :: xs).mapM (fun p => if p = -1 then some (-1) else pos? keptIds p) = none := by
          simp [List.mapM_cons, hx, hp]
        rw [e0]
        simp only [forEach, to_sub_topology.for2, Py.bind, hx, ne_eq, not_false_eq_true, decide_true, if_true, hv, hp,
          Option.bind_none]
      | some y =>
        have := ih { v with i := x, c3_ := v.c3_ ++ [y] } hv
        cases hm : xs.mapM (fun p => if p = -1 then some (-1) else pos? keptIds p) with
        | none =>
          have e0 : (x :: xs).mapM (fun p => if p = -1 then some (-1) else pos? keptIds p) = none := by
            simp [List.mapM_cons, hx, hp, hm]
          rw [e0]; simp only [hm] at this
          simp only [forEach, to_sub_topology.for2, Py.bind, hx, ne_eq, not_false_eq_true, decide_true, if_true, hv, hp,
            Option.bind_some]
          exact this
        | some ys =>
          have e0 : (x :: xs).mapM (fun p => if p = -1 then some (-1) else pos? keptIds p) = some (y :: ys) := by
            simp [List.mapM_cons, hx, hp, hm]
          rw [e0]; simp only [hm] at this
          obtain ⟨i', e⟩ := this
          refine ⟨i', ?_⟩
          simp only [forEach, to_sub_topology.for2, Py.bind, hx, ne_eq, not_false_eq_true, decide_true, if_true, hv, hp,
            Option.bind_some]
          rw [e]; simp

/-- **`to_sub_topology` as translated IS the model**: for equally long columns whose kept ids are distinct it returns
`(np.arange(m), new_pid)` and the new→old mapping of `Sub.toSubTopology`, and raises (KeyError: a kept row whose parent
was dropped) exactly when the model does -/
theorem toSubTopology_refines (subId subPid : List Int) (hl : subId.length = subPid.length)
    (hnd : (((List.zip subId subPid).filter (fun ip => !decide (ip.1 = -2))).map (·.1)).Nodup) :
    to_sub_topology (subId, subPid) =
      (toSubTopology subId subPid).map (fun r => ((range (r.mapping.length : Int), r.newPid), r.mapping)) := by
  obtain ⟨s1, s2⟩ := select_ne_fst subId subPid hl
  generalize hk : (List.zip subId subPid).filter (fun ip => !decide (ip.1 = -2)) = kept at *
  have hmodel : toSubTopology subId subPid =
      (kept.mapM fun ip => if ip.2 = -1 then some (-1) else pos? (kept.map (·.1)) ip.2).map fun np => ⟨np, kept.map (·.1)⟩ := by
    simp only [toSubTopology, removal_eq, ne_eq, decide_not, hk]
  obtain ⟨i1, x1, e1⟩ := for1_loop (enumerate (kept.map (·.1)))
    { (default : to_sub_topology.V) with sub := (subId, subPid), sub_id := kept.map (·.1), sub_pid := kept.map (·.2), keeped_id := neMask subId (-2), c0_ := [] }
  have hmm : (kept.map (·.2)).mapM (fun p => if p = -1 then some (-1) else pos? (kept.map (·.1)) p) =
      kept.mapM (fun ip => if ip.2 = -1 then some (-1) else pos? (kept.map (·.1)) ip.2) := by
    rw [List.mapM_map]; rfl
  have e2 := for2_loop (kept.map (·.1)) (kept.map (·.2))
    { (default : to_sub_topology.V) with sub := (subId, subPid), sub_id := kept.map (·.1), sub_pid := kept.map (·.2), keeped_id := neMask subId (-2), c0_ := (enumerate (kept.map (·.1))).foldl (fun d p => Dict.set d p.2 p.1) [], i := i1, idx := x1, old2new := (enumerate (kept.map (·.1))).foldl (fun d p => Dict.set d p.2 p.1) [], new_id := arange (len (kept.map (·.1))), c3_ := [] }
    (fun x => get?_old2new _ hnd x)
  rw [hmodel]
  simp only [to_sub_topology, to_sub_topology.body, seq, bindS, s1, s2]
  rw [e1]
  simp only []
  rw [hmm] at e2
  cases hm : kept.mapM (fun ip => if ip.2 = -1 then some (-1) else pos? (kept.map (·.1)) ip.2) with
  | none =>
    simp only [hm] at e2
    rw [e2]
    simp [finish]
  | some ys =>
    simp only [hm] at e2
    obtain ⟨i', e⟩ := e2
    rw [e]
    simp [finish, arange]

end RefineSub
