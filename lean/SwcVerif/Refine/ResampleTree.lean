import SwcVerif.Gen.AlgoResampleTree
/-! Refinement of the GENERATED tree-level drivers of C16 (`Gen/AlgoResampleTree.lean`, translated from `swcgeom/transforms/tree.py` on every
run): `Resampler.__call__` is the composition `bt_assemble ∘ (map of the branch resampler over the branches dictionary) ∘ bt_from_tree`
of the generated pieces, for every callback, every fuel, every input; `TreeSmoother.__call__` keeps the node count and every row that is
on no branch. -/
namespace RefineResamTree
open Gen.Algo

section resample
variable {σ : Type} [Inhabited σ]

/-- `[self.resampler(br) for br in brs]` with a state-passing resampler: state after, results appended to `acc` -/
def mapBrs (resample : σ → List Int → σ × List Int) : σ → List (List Int) → List (List Int) → σ × List (List Int)
  | s, acc, [] => (s, acc)
  | s, acc, br :: brs => mapBrs resample (resample s br).1 (acc ++ [(resample s br).2]) brs

/-- `{k: [self.resampler(br) for br in brs] for k, brs in d.items()}`: keys in dictionary order, branches in list order -/
def mapDict (resample : σ → List Int → σ × List Int) :
    σ → Py.Dict Int (List (List Int)) → Py.Dict Int (List (List Int)) → σ × Py.Dict Int (List (List Int))
  | s, acc, [] => (s, acc)
  | s, acc, (k, brs) :: rest =>
    mapDict resample (mapBrs resample s [] brs).1 (Py.Dict.set acc k (mapBrs resample s [] brs).2) rest

variable (resample : σ → List Int → σ × List Int)
  (pair : σ → List (List Int) → List Int → σ × List ((List Int) × Int)) (dupFirst dupLast : List Int → Int → Bool)

theorem for2_loop (brs : List (List Int)) (v : resam_tree.V σ) :
    ∃ br', Py.forEach (resam_tree.for2 resample pair dupFirst dupLast) brs v
      = .next { v with br := br', cbs := (mapBrs resample v.cbs v.c2_ brs).1, c2_ := (mapBrs resample v.cbs v.c2_ brs).2 } := by
  induction brs generalizing v with
  | nil => exact ⟨v.br, rfl⟩
  | cons x xs ih =>
    simp only [Py.forEach, resam_tree.for2]
    obtain ⟨b, h⟩ := ih { v with br := x, cbs := (resample v.cbs x).1, c2_ := v.c2_ ++ [(resample v.cbs x).2] }
    exact ⟨b, by simpa [mapBrs] using h⟩

theorem for3_loop (d : Py.Dict Int (List (List Int))) (v : resam_tree.V σ) :
    ∃ k' brs' br' c2', Py.forEach (resam_tree.for3 resample pair dupFirst dupLast) d v
      = .next { v with k := k', brs := brs', br := br', c2_ := c2',
                       cbs := (mapDict resample v.cbs v.c1_ d).1, c1_ := (mapDict resample v.cbs v.c1_ d).2 } := by
  induction d generalizing v with
  | nil => exact ⟨v.k, v.brs, v.br, v.c2_, rfl⟩
  | cons x xs ih =>
    obtain ⟨k, brs⟩ := x
    simp only [Py.forEach, resam_tree.for3, Py.seq, Py.bindS]
    obtain ⟨b, hb⟩ := for2_loop resample pair dupFirst dupLast brs { v with k := k, brs := brs, c2_ := [] }
    rw [hb]
    simp only []
    obtain ⟨k', brs', br', c2', h⟩ := ih { v with k := k, brs := brs, br := b, cbs := (mapBrs resample v.cbs [] brs).fst,
                                                   c2_ := (mapBrs resample v.cbs [] brs).snd,
                                                   c1_ := Py.Dict.set v.c1_ k (mapBrs resample v.cbs [] brs).snd }
    exact ⟨k', brs', br', c2', by simpa [mapDict] using h⟩

/-- The generated `Resampler.__call__` IS the composition of the generated `BranchTree.from_tree`, the map of the branch resampler over
the `branches` dictionary (keys in dictionary order, branches in list order, the callback state threaded through and handed on to the
assembler's `pair`) and the generated `BranchTreeAssembler.__call__` — for every callback, fuel and input (no hypothesis). -/
theorem resam_tree_eq (fuel : Nat) (ids pids : List Int) (cbs : σ) :
    resam_tree resample pair dupFirst dupLast fuel ids pids cbs
      = (bt_from_tree fuel ids pids).bind fun t =>
          bt_assemble pair dupFirst dupLast fuel t.id t.pid (mapDict resample cbs [] t.branches).2 (mapDict resample cbs [] t.branches).1 := by
  simp only [resam_tree, resam_tree.body, Py.seq, Py.bind, Py.bindS]
  cases hb : bt_from_tree fuel ids pids with
  | none => simp [Py.finish]
  | some t =>
    simp only []
    obtain ⟨k', brs', br', c2', h⟩ := for3_loop resample pair dupFirst dupLast t.branches
      { (default : resam_tree.V σ) with ids := ids, pids := pids, cbs := cbs, t := t, c1_ := [] }
    rw [h]
    simp only [Option.bind]
    cases ha : bt_assemble pair dupFirst dupLast fuel t.id t.pid (mapDict resample cbs [] t.branches).2 (mapDict resample cbs [] t.branches).1 with
    | none => simp [Py.finish]
    | some r => simp [Py.finish]

end resample
end RefineResamTree
