import SwcVerif.Gen.AlgoPopMap
import SwcVerif.Refine.PopFront
import SwcVerif.Props.C19
/-! Refinement for `Gen/AlgoPopMap.lean` (regenerated on every run from `swcgeom/core/population.py`): `Population.find_swcs`,
`LazyLoadingTrees.__iter__`, `Population.map`. File reads are the state-passing callback `Pop.readLog`; the generated container
represents a model state through `RefinePop.LRep`. -/
namespace RefinePopMap
open Gen.Algo Pop Py RefinePop RefinePopFront

/-! ## `Population.find_swcs` -/

/-- what one directory of the walk contributes: its files with the wanted extension, in listing order, joined to the directory
(made relative to the root when `relpath`) -/
def foundIn (relpath_of : String → String → String) (ext_of : String → String) (join : String → String → String) (root ext : String)
    (rel : Bool) (e : String × List String × List String) : List String :=
  (e.2.2.filter (fun f => decide (ext_of f = ext))).map (join (if rel then relpath_of e.1 root else e.1))

theorem find_for1_loop (relpath_of : String → String → String) (ext_of : String → String) (join : String → String → String) :
    ∀ (fs : List String) (v : find_swcs.V),
      ∃ f', forEach (find_swcs.for1 relpath_of ext_of join) fs v = .next { v with c0_ := v.c0_ ++ fs.map (join v.rr), f := f' } := by
  intro fs
  induction fs with
  | nil => intro v; exact ⟨v.f, by simp [forEach]⟩
  | cons a fs ih =>
    intro v
    obtain ⟨f', e⟩ := ih { v with f := a, c0_ := v.c0_ ++ [join v.rr a] }
    refine ⟨f', ?_⟩
    simp only [forEach, find_swcs.for1]
    rw [e]
    simp

theorem find_for2_loop (relpath_of : String → String → String) (ext_of : String → String) (join : String → String → String) :
    ∀ (w : List (String × List String × List String)) (v : find_swcs.V),
      ∃ r' u' fl' rr' fs' f' c', forEach (find_swcs.for2 relpath_of ext_of join) w v =
        .next { v with swcs := v.swcs ++ w.flatMap (foundIn relpath_of ext_of join v.root v.ext v.relpath),
                       r := r', underscore_ := u', files := fl', rr := rr', fs := fs', f := f', c0_ := c' } := by
  intro w
  induction w with
  | nil => intro v; exact ⟨v.r, v.underscore_, v.files, v.rr, v.fs, v.f, v.c0_, by simp [forEach]⟩
  | cons a w ih =>
    intro v
    obtain ⟨f1, e1⟩ := find_for1_loop relpath_of ext_of join
      (List.filter (fun f_b => decide (ext_of f_b = v.ext)) a.2.2)
      { v with r := a.1, underscore_ := a.2.1, files := a.2.2, rr := (if v.relpath then relpath_of a.1 v.root else a.1),
               fs := List.filter (fun f_b => decide (ext_of f_b = v.ext)) a.2.2, c0_ := [] }
    obtain ⟨r', u', fl', rr', fs', f', c', e⟩ := ih
      { v with r := a.1, underscore_ := a.2.1, files := a.2.2, rr := (if v.relpath then relpath_of a.1 v.root else a.1),
               fs := List.filter (fun f_b => decide (ext_of f_b = v.ext)) a.2.2, f := f1,
               c0_ := [] ++ (List.filter (fun f_b => decide (ext_of f_b = v.ext)) a.2.2).map (join (if v.relpath then relpath_of a.1 v.root else a.1)),
               swcs := v.swcs ++ ([] ++ (List.filter (fun f_b => decide (ext_of f_b = v.ext)) a.2.2).map (join (if v.relpath then relpath_of a.1 v.root else a.1))) }
    refine ⟨r', u', fl', rr', fs', f', c', ?_⟩
    simp only [forEach, find_swcs.for2, seq, bindS, e1]
    rw [e]
    simp [foundIn]

/-- **`Population.find_swcs` as translated**, for EVERY walk (list of `(dirpath, dirnames, filenames)`), root, extension and `relpath` flag and
ANY `relpath` / `splitext(·)[-1]` / `join` functions: never raises; the result is, directory by directory IN WALK ORDER, the file names whose
extension EQUALS `ext`, in listing order, each joined to its directory (the directory relative to `root` when `relpath`) -/
theorem find_swcs_refines (relpath_of : String → String → String) (ext_of : String → String) (join : String → String → String)
    (walk : List (String × List String × List String)) (root ext : String) (rel : Bool) :
    find_swcs relpath_of ext_of join walk root ext rel = some (walk.flatMap (foundIn relpath_of ext_of join root ext rel)) := by
  obtain ⟨r', u', fl', rr', fs', f', c', e⟩ := find_for2_loop relpath_of ext_of join walk
    { (default : find_swcs.V) with walk := walk, root := root, ext := ext, relpath := rel, swcs := [] }
  simp only [find_swcs, find_swcs.body, seq, e]
  simp [finish]

/-! ## `LazyLoadingTrees.__iter__` and `Population.map` -/

theorem get_nat (l : Lazy) (k : Nat) (hk : k < l.len) : l.get (k : Int) = some (l.load k, k) := by
  have := (C19.getIdx_spec (k : Int) l.len).1 (by omega) (by omega)
  simp [Lazy.get, this]

/-- the loop of `__iter__`: `self[i]` for the indices `ks` (all in range) loads them in order and yields their trees -/
theorem iter_for1_loop : ∀ (ks : List Nat) (l : Lazy) (g : LazyLoadingTrees) (v : lazy_iter.V (List Int)),
    (∀ k ∈ ks, k < l.len) → LRep g l → v.self = g → v.cbs = castL l.log →
    ∃ g' i', forEach (lazy_iter.for1 readLog) (ks.map (fun (k : Nat) => (k : Int))) v =
        .next { v with self := g', cbs := castL (ks.foldl (fun s k => s.load k) l).log,
                       c0_ := v.c0_ ++ ks.map (fun (k : Nat) => some (k : Int)), i := i' } ∧
      LRep g' (ks.foldl (fun s k => s.load k) l) := by
  intro ks
  induction ks with
  | nil =>
    intro l g v _ h hs hc
    exact ⟨g, v.i, by simp [forEach, ← hs, ← hc], h⟩
  | cons k ks ih =>
    intro l g v hk h hs hc
    have hr := getitem_refines h (k : Int)
    rw [get_nat l k (hk k (by simp))] at hr
    obtain ⟨g1, e1, r1⟩ := hr
    have hk' : ∀ k' ∈ ks, k' < (l.load k).len := by
      intro k' hk'; rw [C19.load_len]; exact hk k' (by simp [hk'])
    obtain ⟨g', i', e, r'⟩ := ih (l.load k) g1
      { v with i := (k : Int), self := g1, cbs := castL (l.load k).log, c0_ := v.c0_ ++ [some (k : Int)] } hk' r1 rfl rfl
    refine ⟨g', i', ?_, by simpa using r'⟩
    simp only [List.map_cons, forEach, lazy_iter.for1, Py.bind, hs, hc, e1]
    rw [e]
    simp

/-- **`LazyLoadingTrees.__iter__` as translated**, consumed to the end: it yields the tree of every file, in file order, and reads
exactly the files whose slot was empty, in that order — the model's `iterAll` -/
theorem lazy_iter_refines {g : LazyLoadingTrees} {l : Lazy} (h : LRep g l) :
    ∃ g', lazy_iter readLog g (castL l.log) =
        some (g', castL l.iterAll.log, (List.range l.len).map (fun (k : Nat) => some (k : Int))) ∧ LRep g' l.iterAll := by
  obtain ⟨g', i', e, r'⟩ := iter_for1_loop (List.range l.len) l g
    { (default : lazy_iter.V (List Int)) with self := g, cbs := castL l.log, c0_ := [] } (by simp) h rfl rfl
  refine ⟨g', ?_, r'⟩
  have hlen := lazy_len_rep h
  have hr : Py.range ((l.cache.length : Nat) : Int) = (List.range l.len).map (fun (k : Nat) => (k : Int)) := by
    simp [Py.range, Lazy.len]
  simp only [lazy_iter, lazy_iter.body, seq, bindS, Py.bind, hlen, hr, e]
  simp [finish, Lazy.iterAll]

theorem map_for1_loop (fn : Option Int → Int) : ∀ (ts : List (Option Int)) (v : pop_map.V (List Int)),
    ∃ t', forEach (pop_map.for1 readLog fn) ts v = .next { v with c1_ := v.c1_ ++ ts.map fn, t := t' } := by
  intro ts
  induction ts with
  | nil => intro v; exact ⟨v.t, by simp [forEach]⟩
  | cons a ts ih =>
    intro v
    obtain ⟨t', e⟩ := ih { v with t := a, c1_ := v.c1_ ++ [fn a] }
    refine ⟨t', ?_⟩
    simp only [forEach, pop_map.for1]
    rw [e]
    simp

/-- **`Population.map` as translated**, for every population over a lazy container and EVERY function `fn`: never raises; result `i` is
`fn` of the tree of file `i`, in population order, one per file; the files read are exactly those of the container's `__iter__`
(`iterAll`: every file whose slot was empty, once, in order); the population keeps the loaded container -/
theorem pop_map_refines {g : LazyLoadingTrees} {l : Lazy} (h : LRep g l) (root : String) (fn : Option Int → Int) :
    ∃ g', pop_map readLog fn ⟨g, root⟩ (castL l.log) =
        some (⟨g', root⟩, castL l.iterAll.log, (List.range l.len).map (fun (k : Nat) => fn (some (k : Int)))) ∧ LRep g' l.iterAll := by
  obtain ⟨g', e, r'⟩ := lazy_iter_refines h
  let ts : List (Option Int) := (List.range l.len).map (fun (k : Nat) => some (k : Int))
  obtain ⟨t', e2⟩ := map_for1_loop fn ts
    { (default : pop_map.V (List Int)) with self := Population.mk g' root, trees := ts, c1_ := [], cbs := castL l.iterAll.log }
  refine ⟨g', ?_, r'⟩
  simp only [pop_map, pop_map.body, seq, bindS, Py.bind, e]
  simp only [ts] at e2
  simp [finish, e2]

end RefinePopMap
