import SwcVerif.Gen.AlgoCheckers
import SwcVerif.Refine.PyLemmas
import SwcVerif.Refine.Dsu
import SwcVerif.Proofs.Dsu
import SwcVerif.Model.Sort
/-! Refinement for C18 (pointer jumping): the definition GENERATED from `swcgeom/core/swc_utils/base.py::get_dsu`
(`np.where` initialisation, `dict(zip(...))` index, the `while True` loop over `enumerate(dsu)` reading the array
LIVE while it is updated in place, `break` on an unchanged pass) equals the model `Dsu.getDsu` — for every table with
distinct ids and EVERY amount of fuel, failures (KeyError / fuel) included. -/
namespace RefineCheckers
open Gen.Algo Dsu Py

def castL (l : List Nat) : List Int := l.map (fun (k : Nat) => (k : Int))

@[simp] theorem castL_length (l : List Nat) : (castL l).length = l.length := by simp [castL]

theorem castL_getElem? (l : List Nat) (i : Nat) : (castL l)[i]? = (l[i]?).map (fun (k : Nat) => (k : Int)) := by
  simp [castL]

theorem castL_set (l : List Nat) (i x : Nat) : (castL l).set i (x : Int) = castL (l.set i x) := by
  simp [castL, List.map_set]

/-! ### initialisation -/

theorem where_init : ∀ (ids pids : List Int),
    where_ (eqMask pids (-1)) ids pids = (List.zip ids pids).map (fun ip => if ip.2 = -1 then ip.1 else ip.2) := by
  intro ids
  induction ids with
  | nil => intro pids; simp [where_, eqMask]
  | cons i is ih =>
    intro pids
    cases pids with
    | nil => simp [where_, eqMask]
    | cons p ps =>
      have := ih ps
      simp only [where_, eqMask] at this ⊢
      by_cases hp : p = -1 <;> simp [hp, this]

theorem get?_index (ids : List Int) (hnd : ids.Nodup) (x : Int) :
    Dict.get? (Dict.ofZip ids (range (len ids))) x = (idxOf? ids x).map (fun (k : Nat) => (k : Int)) := by
  by_cases hx : x ∈ ids
  · unfold Dict.ofZip
    rw [Dict.get?_foldl_set_zip ids _ [] hnd (by simp) x hx]
    have hlt : ids.idxOf x < ids.length := List.idxOf_lt_length_of_mem hx
    simp [idxOf?, hlt]
  · rw [Dict.get?_ofZip_not_mem _ _ _ hx]
    have : ¬ ids.idxOf x < ids.length := by
      rw [List.idxOf_lt_length_iff]; exact hx
    simp [idxOf?, this]

theorem for1_loop (ids : List Int) (hnd : ids.Nodup) : ∀ (xs : List Int) (v : get_dsu.V),
    v.id2idx = Dict.ofZip ids (range (len ids)) →
    (match xs.mapM (idxOf? ids) with
     | some ys => ∃ i', forEach get_dsu.for1 xs v = .next { v with c0_ := v.c0_ ++ castL ys, i := i' }
     | none => forEach get_dsu.for1 xs v = .err) := by
  intro xs
  induction xs with
  | nil => intro v _; exact ⟨v.i, by simp [forEach, castL]⟩
  | cons x xs ih =>
    intro v hv
    have hg := get?_index ids hnd x
    cases hx : idxOf? ids x with
    | none =>
      have e0 : (x :: xs).mapM (idxOf? ids) = none := by simp [List.mapM_cons, hx]
      rw [e0]
      simp only [forEach, get_dsu.for1, Py.bind, hv, hg, hx, Option.map_none]
    | some k =>
      have := ih { v with i := x, c0_ := v.c0_ ++ [(k : Int)] } hv
      cases hm : xs.mapM (idxOf? ids) with
      | none =>
        have e0 : (x :: xs).mapM (idxOf? ids) = none := by simp [List.mapM_cons, hx, hm]
        rw [e0]
        simp only [hm, hv] at this
        simp only [forEach, get_dsu.for1, Py.bind, hv, hg, hx, Option.map_some]
        exact this
      | some ys =>
        have e0 : (x :: xs).mapM (idxOf? ids) = some (k :: ys) := by simp [List.mapM_cons, hx, hm]
        rw [e0]
        simp only [hm, hv] at this
        obtain ⟨i', e⟩ := this
        refine ⟨i', ?_⟩
        simp only [forEach, get_dsu.for1, Py.bind, hv, hg, hx, Option.map_some]
        rw [e]
        simp [castL]

/-! ### one pass -/

def Closed (l : List Nat) : Prop := ∀ x ∈ l, x < l.length

theorem getD_lt {l : List Nat} (h : Closed l) (i : Nat) (hi : i < l.length) : l.getD i 0 < l.length := by
  have : l.getD i 0 = l[i] := by simp [List.getD, hi]
  rw [this]; exact h _ (List.getElem_mem hi)

theorem jumpStep_closed {acc : List Nat × Bool} (h : Closed acc.1) (i : Nat) (hi : i < acc.1.length) :
    Closed (jumpStep acc i).1 := by
  unfold jumpStep
  split
  · intro x hx
    simp only [List.length_set]
    rcases List.mem_or_eq_of_mem_set hx with hx | hx
    · exact h x hx
    · rw [hx]; exact getD_lt h _ (getD_lt h i hi)
  · exact h

theorem idx_castL (l : List Nat) (i : Nat) (hi : i < l.length) : idx (castL l) (i : Int) = some ((l.getD i 0 : Nat) : Int) := by
  rw [idx_nat _ _ (by simpa using hi), castL_getElem?]
  simp [List.getD, hi]

/-- the `for i, p in enumerate(dsu)` loop (array read live, written in place) is the model's fold -/
theorem for2_loop : ∀ (is : List Nat) (acc : List Nat × Bool) (v : get_dsu.V), Closed acc.1 → (∀ i ∈ is, i < acc.1.length) →
    v.dsu = castL acc.1 → v.flag = acc.2 →
    ∃ v', forEach get_dsu.for2 (is.map (fun (k : Nat) => (k : Int))) v = .next v' ∧
      v'.dsu = castL (is.foldl jumpStep acc).1 ∧ v'.flag = (is.foldl jumpStep acc).2 ∧ Closed (is.foldl jumpStep acc).1 ∧
      (is.foldl jumpStep acc).1.length = acc.1.length := by
  intro is
  induction is with
  | nil => intro acc v hc _ hd hf; exact ⟨v, rfl, hd, hf, hc, rfl⟩
  | cons i is ih =>
    intro acc v hc hlt hd hf
    have hi : i < acc.1.length := hlt i List.mem_cons_self
    have hp : acc.1.getD i 0 < acc.1.length := getD_lt hc i hi
    have e1 : idx v.dsu (i : Int) = some ((acc.1.getD i 0 : Nat) : Int) := by rw [hd]; exact idx_castL _ _ hi
    have e2 : idx v.dsu ((acc.1.getD i 0 : Nat) : Int) = some ((acc.1.getD (acc.1.getD i 0) 0 : Nat) : Int) := by
      rw [hd]; exact idx_castL _ _ hp
    have hlen : (jumpStep acc i).1.length = acc.1.length := jumpStep_length acc i
    have hc' := jumpStep_closed hc i hi
    have hlt' : ∀ j ∈ is, j < (jumpStep acc i).1.length := by
      intro j hj; rw [hlen]; exact hlt j (List.mem_cons_of_mem _ hj)
    by_cases hne : acc.1.getD i 0 ≠ acc.1.getD (acc.1.getD i 0) 0
    · have hneZ : ((acc.1.getD i 0 : Nat) : Int) ≠ ((acc.1.getD (acc.1.getD i 0) 0 : Nat) : Int) := by
        intro c; exact hne (Int.ofNat.inj c)
      have hset : setIdx v.dsu (i : Int) ((acc.1.getD (acc.1.getD i 0) 0 : Nat) : Int) =
          some (castL (acc.1.set i (acc.1.getD (acc.1.getD i 0) 0))) := by
        rw [setIdx_nat _ _ _ (by rw [hd]; simpa using hi), hd, castL_set]
      have hstep : jumpStep acc i = (acc.1.set i (acc.1.getD (acc.1.getD i 0) 0), false) := by
        unfold jumpStep; rw [if_pos hne]
      obtain ⟨v', e, h1, h2, h3, h4⟩ := ih (jumpStep acc i)
        { v with i := (i : Int), p := ((acc.1.getD i 0 : Nat) : Int),
                 dsu := castL (acc.1.set i (acc.1.getD (acc.1.getD i 0) 0)), flag := false } hc' hlt'
        (by rw [hstep]) (by rw [hstep])
      refine ⟨v', ?_, by simpa using h1, by simpa using h2, by simpa using h3, by simpa [hlen] using h4⟩
      simp only [List.map_cons, forEach, get_dsu.for2, seq, Py.bind, e1, e2, hneZ, ne_eq, not_false_eq_true, decide_true, if_true,
        hset]
      exact e
    · have heq : acc.1.getD i 0 = acc.1.getD (acc.1.getD i 0) 0 := by simpa using hne
      have hstep : jumpStep acc i = acc := by unfold jumpStep; rw [if_neg hne]
      obtain ⟨v', e, h1, h2, h3, h4⟩ := ih (jumpStep acc i)
        { v with i := (i : Int), p := ((acc.1.getD i 0 : Nat) : Int) } hc' hlt'
        (by rw [hstep]; exact hd) (by rw [hstep]; exact hf)
      refine ⟨v', ?_, by simpa using h1, by simpa using h2, by simpa using h3, by simpa [hlen] using h4⟩
      have : ¬ (((acc.1.getD i 0 : Nat) : Int) ≠ ((acc.1.getD (acc.1.getD i 0) 0 : Nat) : Int)) := by
        rw [← heq]; simp
      simp only [List.map_cons, forEach, get_dsu.for2, seq, Py.bind, e1, e2, this, decide_false, Bool.false_eq_true, if_false, skip]
      exact e

/-! ### the `while True` loop and the whole function -/

theorem pass_refines (l : List Nat) (hc : Closed l) (v : get_dsu.V) (hd : v.dsu = castL l) :
    ∃ v', forEach get_dsu.for2 (range (len v.dsu)) { v with flag := true } = .next v' ∧
      v'.dsu = castL (jumpPass l).1 ∧ v'.flag = (jumpPass l).2 ∧ Closed (jumpPass l).1 := by
  have hr : range (len v.dsu) = (List.range l.length).map (fun (k : Nat) => (k : Int)) := by
    rw [hd]; simp [castL]
  rw [hr, jumpPass_eq]
  obtain ⟨v', e, h1, h2, h3, _⟩ := for2_loop (List.range l.length) (l, true) { v with flag := true } hc
    (by intro i hi; simpa using hi) hd rfl
  exact ⟨v', e, h1, h2, h3⟩

theorem loop_refines : ∀ (F : Nat) (l : List Nat) (v : get_dsu.V), Closed l → v.dsu = castL l →
    (match jumpLoop F l with
     | some l' => ∃ v', whileF get_dsu.while3_cond get_dsu.while3_body F v = .next v' ∧ v'.dsu = castL l'
     | none => whileF get_dsu.while3_cond get_dsu.while3_body F v = .err) := by
  intro F
  induction F with
  | zero => intro l v _ _; simp [jumpLoop, whileF]
  | succ F ih =>
    intro l v hc hd
    obtain ⟨v1, e1, d1, f1, c1⟩ := pass_refines l hc v hd
    have hbody : get_dsu.while3_body v = if (jumpPass l).2 then .brk v1 else .next v1 := by
      simp only [get_dsu.while3_body, seq]
      rw [e1]
      simp only [f1]
      split <;> simp [skip]
    simp only [jumpLoop]
    by_cases hfl : (jumpPass l).2 = true
    · simp only [hfl, if_true]
      refine ⟨v1, ?_, d1⟩
      simp [whileF, get_dsu.while3_cond, hbody, hfl]
    · have hfl' : (jumpPass l).2 = false := by simpa using hfl
      simp only [hfl', Bool.false_eq_true, if_false]
      have := ih (jumpPass l).1 v1 c1 d1
      have hw : whileF get_dsu.while3_cond get_dsu.while3_body (F + 1) v = whileF get_dsu.while3_cond get_dsu.while3_body F v1 := by
        simp [whileF, get_dsu.while3_cond, hbody, hfl']
      rw [hw]
      exact this

theorem mapM_idxOf_closed (ids : List Int) : ∀ (xs : List Int) (ys : List Nat), xs.mapM (idxOf? ids) = some ys →
    ∀ y ∈ ys, y < ids.length := by
  intro xs
  induction xs with
  | nil => intro ys h y hy; simp at h; subst h; simp at hy
  | cons x xs ih =>
    intro ys h y hy
    simp only [List.mapM_cons, Option.bind_eq_bind] at h
    cases hx : idxOf? ids x with
    | none => simp [hx] at h
    | some k =>
      cases hm : xs.mapM (idxOf? ids) with
      | none => simp [hx, hm] at h
      | some zs =>
        simp [hx, hm] at h
        subst h
        simp only [List.mem_cons] at hy
        rcases hy with rfl | hy
        · simp only [idxOf?] at hx
          split at hx
          · simp only [Option.some.injEq] at hx; omega
          · simp at hx
        · exact ih zs hm y hy

/-- **`get_dsu` as translated on this run IS the model**, for every table with distinct ids whose two columns have the
same length and every fuel: same labels, same failures (a parent id that names no row = KeyError; fuel) -/
theorem getDsu_refines (ids pids : List Int) (hnd : ids.Nodup) (hl : ids.length = pids.length) (fuel : Nat) :
    get_dsu fuel ids pids = ((dsuInit ids pids).bind (jumpLoop fuel)).map castL := by
  have hw := where_init ids pids
  have hf := for1_loop ids hnd ((List.zip ids pids).map (fun ip => if ip.2 = -1 then ip.1 else ip.2))
    { (default : get_dsu.V) with ids := ids, pids := pids, dsu := (List.zip ids pids).map (fun ip => if ip.2 = -1 then ip.1 else ip.2), id2idx := Dict.ofZip ids (range (len ids)), c0_ := [] } rfl
  have hinit : dsuInit ids pids = ((List.zip ids pids).map (fun ip => if ip.2 = -1 then ip.1 else ip.2)).mapM (idxOf? ids) := by
    simp [dsuInit, List.mapM_map, Function.comp_def]
  rw [hinit]
  cases hm : ((List.zip ids pids).map (fun ip => if ip.2 = -1 then ip.1 else ip.2)).mapM (idxOf? ids) with
  | none =>
    simp only [hm] at hf
    simp only [get_dsu, get_dsu.body, seq, hw, bindS]
    rw [hf]
    simp [finish]
  | some l0 =>
    simp only [hm] at hf
    obtain ⟨i', e⟩ := hf
    have hlen0 : l0.length = ids.length := by
      have := mapM_option_length (idxOf? ids) _ l0 hm
      simpa [hl] using this
    have hc0 : Closed l0 := by
      intro y hy
      rw [hlen0]
      exact mapM_idxOf_closed ids _ l0 hm y hy
    have hloop := loop_refines fuel l0
      { (default : get_dsu.V) with ids := ids, pids := pids, dsu := castL l0, id2idx := Dict.ofZip ids (range (len ids)), c0_ := castL l0, i := i' } hc0 rfl
    simp only [get_dsu, get_dsu.body, seq, hw, bindS]
    rw [e]
    simp only [List.nil_append]
    cases hj : jumpLoop fuel l0 with
    | none =>
      simp only [hj] at hloop
      rw [hloop]
      simp [finish, hj]
    | some l' =>
      simp only [hj] at hloop
      obtain ⟨v', e2, d2⟩ := hloop
      rw [e2]
      simp [finish, hj, d2]

/-! ### `has_cyclic` -/

open RefineDsu in
/-- the row loop of `has_cyclic`, from row `k` on -/
theorem cyclic_loop (ids pids : List Int) (F : Nat) (hl : ids.length = pids.length)
    (hi : ∀ i ∈ ids, 0 ≤ i ∧ i < (ids.length : Int)) (hp : ∀ p ∈ pids, p = -1 ∨ (0 ≤ p ∧ p < (ids.length : Int))) :
    ∀ (m k : Nat) (d : D) (g : DisjointSetUnion) (v : has_cyclic.V), k + m = ids.length → Good g d → d.n = ids.length →
      d.b + m < F → v.dsu = g → v.topology = (ids, pids) →
      ∃ r, hasCyclicLoop d (ids.drop k) (pids.drop k) = some r ∧
        ((r = true ∧ ∃ v', forEach (has_cyclic.for1 F) ((List.range' k m).map (fun (j : Nat) => (j : Int))) v = .ret v' true) ∨
         (r = false ∧ ∃ v', forEach (has_cyclic.for1 F) ((List.range' k m).map (fun (j : Nat) => (j : Int))) v = .next v')) := by
  intro m
  induction m with
  | zero =>
    intro k d g v hk _ _ _ _ _
    have : ids.drop k = [] := List.drop_eq_nil_of_le (by omega)
    refine ⟨false, by simp [this, hasCyclicLoop], Or.inr ⟨rfl, v, by simp [forEach]⟩⟩
  | succ m ih =>
    intro k d g v hk hgood hn hF hdsu htop
    have hkl : k < ids.length := by omega
    have hkp : k < pids.length := by omega
    have ei : ids.drop k = ids[k] :: ids.drop (k + 1) := List.drop_eq_getElem_cons hkl
    have ep : pids.drop k = pids[k] :: pids.drop (k + 1) := List.drop_eq_getElem_cons hkp
    have ga : idx ids (k : Int) = some ids[k] := by rw [Py.idx_nat _ _ hkl]; simp
    have gb : idx pids (k : Int) = some pids[k] := by rw [Py.idx_nat _ _ hkp]; simp
    rw [ei, ep]
    simp only [List.range'_succ, List.map_cons, forEach]
    by_cases hroot : pids[k] = -1
    · -- a root row: `continue`
      obtain ⟨r, e, hr⟩ := ih (k + 1) d g { v with i := (k : Int), node_a := ids[k], node_b := pids[k] } (by omega) hgood hn (by omega)
        (by simpa using hdsu) (by simpa using htop)
      refine ⟨r, ?_, ?_⟩
      · simp [hasCyclicLoop, hroot, e]
      · have hb : has_cyclic.for1 F (k : Int) v = .cont { v with i := (k : Int), node_a := ids[k], node_b := pids[k] } := by
          simp [has_cyclic.for1, seq, Py.bind, htop, ga, gb, hroot]
        simp only [hb]
        exact hr
    · have ha0 := hi ids[k] (List.getElem_mem hkl)
      rcases hp pids[k] (List.getElem_mem hkp) with hb1 | hb0
      · exact absurd hb1 hroot
      have ea : ids[k] = ((ids[k].toNat : Nat) : Int) := by omega
      have eb : pids[k] = ((pids[k].toNat : Nat) : Int) := by omega
      have han : ids[k].toNat < d.n := by omega
      have hbn : pids[k].toNat < d.n := by omega
      obtain ⟨g1, e1, good1⟩ := good_same hgood ids[k].toNat pids[k].toNat han hbn F (by omega)
      rw [← ea, ← eb] at e1
      have hstep : hasCyclicLoop d (ids[k] :: ids.drop (k + 1)) (pids[k] :: pids.drop (k + 1)) =
          if (same d ids[k].toNat pids[k].toNat).1 then some true
          else hasCyclicLoop (union (same d ids[k].toNat pids[k].toNat).2 ids[k].toNat pids[k].toNat) (ids.drop (k + 1)) (pids.drop (k + 1)) := by
        have hv1 : valid d ids[k].toNat = true := by simp [valid, han]
        have hv2 : valid d pids[k].toNat = true := by simp [valid, hbn]
        have hn0 : ¬ ids[k] < 0 := by omega
        have hn1 : ¬ pids[k] < 0 := by omega
        simp [hasCyclicLoop, hroot, hv1, hv2, hn0, hn1]
      rw [hstep]
      by_cases hs : (same d ids[k].toNat pids[k].toNat).1 = true
      · refine ⟨true, by simp [hs], Or.inl ⟨rfl, ?_⟩⟩
        refine ⟨{ v with i := (k : Int), node_a := ids[k], node_b := pids[k], dsu := g1 }, ?_⟩
        simp only [has_cyclic.for1, seq, Py.bind, htop, ga, gb, hroot, decide_false, Bool.false_eq_true, if_false, skip, hdsu, e1, hs,
          if_true]
      · have hsf : (same d ids[k].toNat pids[k].toNat).1 = false := by simpa using hs
        have hsn : (same d ids[k].toNat pids[k].toNat).2.n = d.n := by simp [same]
        have hsb : (same d ids[k].toNat pids[k].toNat).2.b = d.b := by simp [same]
        obtain ⟨g2, e2, good2⟩ := good_union good1 ids[k].toNat pids[k].toNat (by rw [hsn]; exact han) (by rw [hsn]; exact hbn) F
          (by rw [hsb]; omega)
        rw [← ea, ← eb] at e2
        have hub := union_b_le (same d ids[k].toNat pids[k].toNat).2 ids[k].toNat pids[k].toNat
        obtain ⟨r, e, hr⟩ := ih (k + 1) (union (same d ids[k].toNat pids[k].toNat).2 ids[k].toNat pids[k].toNat) g2
          { v with i := (k : Int), node_a := ids[k], node_b := pids[k], dsu := g2 } (by omega) good2 (by rw [hub.2, hsn, hn]) (by omega) rfl
          (by simpa using htop)
        refine ⟨r, by simp [hsf, e], ?_⟩
        have hb : has_cyclic.for1 F (k : Int) v = .next { v with i := (k : Int), node_a := ids[k], node_b := pids[k], dsu := g2 } := by
          simp only [has_cyclic.for1, seq, Py.bind, htop, ga, gb, hroot, decide_false, Bool.false_eq_true, if_false, skip, hdsu, e1, hsf,
            e2]
        simp only [hb]
        exact hr

open RefineDsu in
/-- **`has_cyclic` as translated equals the model on every valid table** (ids `0..n-1` in any order, parents -1 or a row) -/
theorem hasCyclic_refines (ids pids : List Int) (hl : ids.length = pids.length)
    (hi : ∀ i ∈ ids, 0 ≤ i ∧ i < (ids.length : Int)) (hp : ∀ p ∈ pids, p = -1 ∨ (0 ≤ p ∧ p < (ids.length : Int))) (F : Nat) :
    has_cyclic (ids.length + 1 + F) (ids, pids) = hasCyclic ids pids := by
  obtain ⟨g, eg, rg⟩ := init_refines default ids.length
  have hgood : Good g (init ids.length) := ⟨rg, by intro i hi'; simpa [init] using hi', ⟨fun x hx => absurd rfl hx, fun x => Nat.le_refl _⟩⟩
  obtain ⟨r, e, hr⟩ := cyclic_loop ids pids (ids.length + 1 + F) hl hi hp ids.length 0 (init ids.length) g
    { (default : has_cyclic.V) with topology := (ids, pids), node_num := (ids.length : Int), dsu := g } (by omega) hgood rfl
    (by simp [init]; omega) rfl rfl
  simp only [List.drop_zero] at e
  simp only [hasCyclic, e]
  have hrange : range ((ids.length : Nat) : Int) = (List.range' 0 ids.length).map (fun (j : Nat) => (j : Int)) := by
    simp [List.range_eq_range']
  simp only [has_cyclic, has_cyclic.body, seq, Py.bind, len_eq, eg, hrange]
  rcases hr with ⟨rt, v', ev⟩ | ⟨rf, v', ev⟩
  · simp only [ev, rt, finish, Option.map]
  · simp only [ev, rf, finish, Option.map]

/-! ### `is_bifurcate` -/

/-- the `children[pid].append(idx)` loop over a `defaultdict(list)`: every entry holds the rows whose parent is its key, and the keys
are exactly the parents met -/
theorem bif_build : ∀ (ids pids : List Int) (v : is_bifurcate.V) (L : Int → List Int),
    (∀ p ∈ v.children, p.2 = L p.1) → (∀ k, k ∉ v.children.map (·.1) → L k = []) →
    ∃ v', forEach is_bifurcate.for1 (Py.zip ids pids) v = .next v' ∧
      (∀ p ∈ v'.children, p.2 = L p.1 ++ tableKids ids pids p.1) ∧
      (∀ k, k ∈ v'.children.map (·.1) ↔ (k ∈ v.children.map (·.1) ∨ k ∈ (List.zip ids pids).map (·.2))) ∧
      v'.exclude_root = v.exclude_root := by
  intro ids
  induction ids with
  | nil => intro pids v L h1 _; exact ⟨v, by simp [Py.zip, forEach], by simpa [tableKids] using h1, by simp, rfl⟩
  | cons i is ih =>
    intro pids v L h1 h2
    cases pids with
    | nil => exact ⟨v, by simp [Py.zip, forEach], by simpa [tableKids] using h1, by simp, rfl⟩
    | cons p ps =>
      -- after `setdefault` the key is present and holds `L p`
      have hkey : p ∈ (Dict.setdefault v.children p []).map (·.1) := by
        simp only [List.mem_map]
        by_cases hp : p ∈ v.children.map (·.1)
        · obtain ⟨q, hq, e⟩ := List.mem_map.1 hp
          exact ⟨q, (Dict.mem_setdefault _ _ _ _).2 (Or.inl hq), e⟩
        · exact ⟨(p, []), (Dict.mem_setdefault _ _ _ _).2 (Or.inr ⟨hp, rfl⟩), rfl⟩
      have hall1 : ∀ q ∈ Dict.setdefault v.children p [], q.2 = L q.1 := by
        intro q hq
        rcases (Dict.mem_setdefault _ _ _ _).1 hq with h | ⟨hn, rfl⟩
        · exact h1 q h
        · exact (h2 p hn).symm
      have hget : Dict.getD (Dict.setdefault v.children p []) p [] = L p := by
        rw [Dict.getD_eq, Dict.get?_of_forall _ L hall1 p hkey]; rfl
      obtain ⟨v', e, r1, r2, r3⟩ := ih ps
        { v with idx := i, pid := p, children := Dict.set (Dict.setdefault v.children p []) p (L p ++ [i]) }
        (fun k => if k = p then L p ++ [i] else L k)
        (by
          intro q hq
          rcases (Dict.mem_set_of_mem _ p _ hkey q).1 hq with ⟨hq', hne⟩ | rfl
          · simp [hne, hall1 q hq']
          · simp)
        (by
          intro k hk
          have hk' : k ∉ (Dict.setdefault v.children p []).map (·.1) := fun c => hk ((Dict.keys_set_of_mem _ p _ hkey k).2 c)
          have hkp : k ≠ p := fun c => hk' (c ▸ hkey)
          have hkv : k ∉ v.children.map (·.1) := by
            intro c
            obtain ⟨q, hq, e⟩ := List.mem_map.1 c
            exact hk' (List.mem_map.2 ⟨q, (Dict.mem_setdefault _ _ _ _).2 (Or.inl hq), e⟩)
          simp [hkp, h2 k hkv])
      refine ⟨v', ?_, ?_, ?_, r3⟩
      · simp only [Py.zip, List.zip_cons_cons, forEach, is_bifurcate.for1, hget]
        exact e
      · intro q hq
        rw [r1 q hq]
        by_cases hqp : q.1 = p
        · simp [tableKids, hqp]
        · have : ¬ p = q.1 := fun c => hqp c.symm
          simp [tableKids, hqp, this]
      · intro k
        rw [r2 k]
        simp only [List.zip_cons_cons, List.map_cons, List.mem_cons]
        rw [Dict.keys_set_of_mem _ p _ hkey k]
        constructor
        · rintro (h | h)
          · obtain ⟨q, hq, e⟩ := List.mem_map.1 h
            rcases (Dict.mem_setdefault _ _ _ _).1 hq with h' | ⟨_, rfl⟩
            · exact Or.inl (List.mem_map.2 ⟨q, h', e⟩)
            · exact Or.inr (Or.inl e.symm)
          · exact Or.inr (Or.inr h)
        · rintro (h | h | h)
          · obtain ⟨q, hq, e⟩ := List.mem_map.1 h
            exact Or.inl (List.mem_map.2 ⟨q, (Dict.mem_setdefault _ _ _ _).2 (Or.inl hq), e⟩)
          · exact Or.inl (h ▸ hkey)
          · exact Or.inr h

/-- the `for k, v in children.items()` loop with its early `return False` -/
theorem bif_scan (root : List Int) (excl : Bool) : ∀ (items : List (Int × List Int)) (v : is_bifurcate.V),
    v.root = root → v.exclude_root = excl →
    (if items.all (fun kv => decide (kv.1 = -1) || (excl && root.contains kv.1) || decide (kv.2.length ≤ 2))
     then ∃ v', forEach is_bifurcate.for2 items v = .next v' else ∃ v', forEach is_bifurcate.for2 items v = .ret v' false) := by
  intro items
  induction items with
  | nil => intro v _ _; exact ⟨v, rfl⟩
  | cons kv items ih =>
    intro v hr he
    simp only [List.all_cons]
    by_cases hskip : (decide (kv.1 = -1) || (excl && root.contains kv.1)) = true
    · have hb : is_bifurcate.for2 kv v = .cont { v with k := kv.1, v := kv.2 } := by
        simp only [is_bifurcate.for2, seq, hr, he, hskip, if_true]
      have := ih { v with k := kv.1, v := kv.2 } hr he
      simp only [forEach, hb]
      have h1 : (decide (kv.1 = -1) || (excl && root.contains kv.1) || decide (kv.2.length ≤ 2)) = true := by
        rw [hskip, Bool.true_or]
      rw [h1, Bool.true_and]
      exact this
    · have hskip' : (decide (kv.1 = -1) || (excl && root.contains kv.1)) = false := by simpa using hskip
      by_cases hlen : kv.2.length ≤ 2
      · have hb : is_bifurcate.for2 kv v = .next { v with k := kv.1, v := kv.2 } := by
          have : ¬ ((kv.2.length : Int) > 2) := by omega
          simp only [is_bifurcate.for2, seq, hr, he, hskip', Bool.false_eq_true, if_false, skip, len_eq, this, decide_false]
        have := ih { v with k := kv.1, v := kv.2 } hr he
        simp only [forEach, hb]
        have h1 : (decide (kv.1 = -1) || (excl && root.contains kv.1) || decide (kv.2.length ≤ 2)) = true := by
          rw [hskip', Bool.false_or]; exact decide_eq_true hlen
        rw [h1, Bool.true_and]
        exact this
      · have hb : is_bifurcate.for2 kv v = .ret { v with k := kv.1, v := kv.2 } false := by
          have : ((kv.2.length : Int) > 2) := by omega
          simp only [is_bifurcate.for2, seq, hr, he, hskip', Bool.false_eq_true, if_false, skip, len_eq, this, decide_true, if_true]
        have h1 : (decide (kv.1 = -1) || (excl && root.contains kv.1) || decide (kv.2.length ≤ 2)) = false := by
          rw [hskip', Bool.false_or]; exact decide_eq_false hlen
        simp only [forEach, hb, h1, Bool.false_and, Bool.false_eq_true, if_false]
        exact ⟨_, rfl⟩

/-- **`is_bifurcate` as translated equals the model** on every table with equally long columns: `True` exactly when no parent other
than the (optionally exempt) roots has more than two children -/
theorem isBifurcate_refines (ids pids : List Int) (hl : ids.length = pids.length) (excl : Bool) :
    is_bifurcate (ids, pids) excl = some (isBifurcate ids pids excl) := by
  obtain ⟨v1, e1, a1, k1, x1⟩ := bif_build ids pids
    { (default : is_bifurcate.V) with topology := (ids, pids), exclude_root := excl, children := [] } (fun _ => [])
    (by intro p hp; simp at hp) (by intro k _; rfl)
  simp only [List.nil_append] at a1
  have hzip : (List.zip ids pids).map (·.2) = pids := by
    rw [← List.unzip_snd, List.unzip_zip_right (by omega)]
  simp only [List.map_nil, List.not_mem_nil, false_or, hzip] at k1
  -- after `root = children[-1]`
  let d2 := Dict.setdefault v1.children (-1) []
  have hall2 : ∀ q ∈ d2, q.2 = tableKids ids pids q.1 := by
    intro q hq
    rcases (Dict.mem_setdefault _ _ _ _).1 hq with h | ⟨hn, rfl⟩
    · exact a1 q h
    · -- -1 is not a parent of any row
      have : (-1 : Int) ∉ pids := fun c => hn ((k1 (-1)).2 c)
      have hnil : ∀ (is ps : List Int), (-1 : Int) ∉ ps → tableKids is ps (-1) = [] := by
        intro is
        induction is with
        | nil => intro ps _; simp [tableKids]
        | cons i is ih =>
          intro ps hps
          cases ps with
          | nil => simp [tableKids]
          | cons p ps =>
            simp only [List.mem_cons, not_or] at hps
            have : ¬ p = -1 := fun c => hps.1 c.symm
            simp [tableKids, this, ih ps hps.2]
      exact (hnil ids pids this).symm
  have hkey2 : (-1 : Int) ∈ d2.map (·.1) := by
    by_cases h : (-1 : Int) ∈ v1.children.map (·.1)
    · obtain ⟨q, hq, e⟩ := List.mem_map.1 h
      exact List.mem_map.2 ⟨q, (Dict.mem_setdefault _ _ _ _).2 (Or.inl hq), e⟩
    · exact List.mem_map.2 ⟨(-1, []), (Dict.mem_setdefault _ _ _ _).2 (Or.inr ⟨h, rfl⟩), rfl⟩
  have hroot : Dict.getD d2 (-1) [] = tableKids ids pids (-1) := by
    rw [Dict.getD_eq, Dict.get?_of_forall d2 _ hall2 (-1) hkey2]; rfl
  have hscan := bif_scan (tableKids ids pids (-1)) excl d2
    { v1 with children := d2, root := tableKids ids pids (-1) } rfl x1
  -- the two `all`s agree
  have hiff : (d2.all (fun kv => decide (kv.1 = -1) || (excl && (tableKids ids pids (-1)).contains kv.1) || decide (kv.2.length ≤ 2))) =
      isBifurcate ids pids excl := by
    rw [Bool.eq_iff_iff]
    simp only [isBifurcate, List.all_eq_true]
    constructor
    · intro h k hk
      have hkd : k ∈ d2.map (·.1) := by
        obtain ⟨q, hq, e⟩ := List.mem_map.1 ((k1 k).2 hk)
        exact List.mem_map.2 ⟨q, (Dict.mem_setdefault _ _ _ _).2 (Or.inl hq), e⟩
      obtain ⟨q, hq, e⟩ := List.mem_map.1 hkd
      have := h q hq
      rw [hall2 q hq, e] at this
      simpa using this
    · intro h q hq
      rw [hall2 q hq]
      by_cases hq1 : q.1 = -1
      · simp [hq1]
      · have hqk : q.1 ∈ pids := by
          rcases (Dict.mem_setdefault _ _ _ _).1 hq with h' | ⟨_, rfl⟩
          · exact (k1 q.1).1 (List.mem_map.2 ⟨q, h', rfl⟩)
          · exact absurd rfl hq1
        have := h q.1 hqk
        simpa using this
  simp only [is_bifurcate, is_bifurcate.body, seq]
  rw [e1]
  simp only [d2] at hroot
  simp only [hroot]
  rw [hiff] at hscan
  by_cases hb : isBifurcate ids pids excl = true
  · rw [if_pos hb] at hscan
    obtain ⟨v', ev⟩ := hscan
    simp only [d2] at ev
    rw [ev]
    simp [finish, hb]
  · have hb' : isBifurcate ids pids excl = false := by simpa using hb
    rw [if_neg hb] at hscan
    obtain ⟨v', ev⟩ := hscan
    simp only [d2] at ev
    rw [ev]
    simp [finish, hb']

/-- `is_sorted` as translated is the model's `np.all(pids < ids)` -/
theorem isSorted_refines (ids pids : List Int) : is_sorted (ids, pids) = some (SortM.isSorted ids pids) := by
  have : ∀ (a b : List Int), Py.all (Py.ltMask b a) = (List.zipWith (fun i p => decide (p < i)) a b).all id := by
    intro a
    induction a with
    | nil => intro b; cases b <;> simp [Py.all, Py.ltMask]
    | cons x xs ih =>
      intro b
      cases b with
      | nil => simp [Py.all, Py.ltMask]
      | cons y ys =>
        have := ih ys
        simp only [Py.all, Py.ltMask] at this ⊢
        simp [this]
  simp [is_sorted, is_sorted.body, seq, finish, SortM.isSorted, this]

end RefineCheckers
