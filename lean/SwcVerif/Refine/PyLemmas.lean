import SwcVerif.Model.Py
/-! Generic lemmas about the combinators of `Model/Py.lean`, used by every refinement proof. -/
namespace Py
variable {V R α β : Type}

/-- a loop whose body always falls through is a fold -/
theorem forEach_pure (body : α → V → Res V R) (step : V → α → V) (h : ∀ x v, body x v = .next (step v x)) :
    ∀ (xs : List α) (v : V), forEach body xs v = .next (xs.foldl step v) := by
  intro xs
  induction xs with
  | nil => intro v; rfl
  | cons x xs ih => intro v; simp [forEach, h, ih]

/-- a loop whose body falls through or fails, as a monadic fold -/
theorem forEach_opt (body : α → V → Res V R) (step : V → α → Option V)
    (h : ∀ x v, body x v = match step v x with | some v' => .next v' | none => .err) :
    ∀ (xs : List α) (v : V), forEach body xs v = match xs.foldlM step v with | some v' => .next v' | none => .err := by
  intro xs
  induction xs with
  | nil => intro v; rfl
  | cons x xs ih =>
    intro v
    simp only [forEach, h, List.foldlM_cons]
    cases hs : step v x with
    | none => simp [hs]
    | some v' => simp [hs, ih]

theorem normIdx_nat (n k : Nat) (h : k < n) : normIdx n (k : Int) = some k := by
  simp [normIdx, h]

theorem normIdx_nat_none (n k : Nat) (h : ¬ k < n) : normIdx n (k : Int) = none := by
  simp [normIdx, h]

theorem idx_nat (l : List α) (k : Nat) (h : k < l.length) : idx l (k : Int) = l[k]? := by
  simp [idx, normIdx_nat _ _ h]

theorem idx_nat_none (l : List α) (k : Nat) (h : ¬ k < l.length) : idx l (k : Int) = none := by
  simp [idx, normIdx_nat_none _ _ h]

theorem setIdx_nat (l : List α) (k : Nat) (v : α) (h : k < l.length) : setIdx l (k : Int) v = some (l.set k v) := by
  simp [setIdx, normIdx_nat _ _ h]

@[simp] theorem range_natCast (n : Nat) : range (n : Int) = (List.range n).map (fun (k : Nat) => (k : Int)) := by
  simp [range]

@[simp] theorem len_eq (l : List α) : len l = (l.length : Int) := rfl

theorem pop_append (l : List α) (x : α) : pop (l ++ [x]) = some (l, x) := by
  simp [pop]

@[simp] theorem pop_nil : pop ([] : List α) = none := rfl

end Py

namespace Py.Dict
variable {κ ν : Type} [DecidableEq κ]

@[simp] theorem get?_nil (k : κ) : get? ([] : Dict κ ν) k = none := rfl

theorem get?_cons (p : κ × ν) (d : Dict κ ν) (k : κ) :
    get? (p :: d) k = if p.1 = k then some p.2 else get? d k := by
  simp only [get?, List.find?_cons]
  by_cases h : p.1 = k <;> simp [h]

theorem get?_append_singleton (d : Dict κ ν) (k k' : κ) (v : ν) :
    get? (d ++ [(k, v)]) k' = match get? d k' with | some x => some x | none => if k = k' then some v else none := by
  induction d with
  | nil => simp [get?_cons]
  | cons p d ih =>
    simp only [List.cons_append, get?_cons]
    by_cases h : p.1 = k' <;> simp [h, ih]

theorem get?_map_set (d : Dict κ ν) (k k' : κ) (v : ν) :
    get? (d.map (fun p => if p.1 = k then (k, v) else p)) k' =
      if k' = k then (get? d k).map (fun _ => v) else get? d k' := by
  induction d with
  | nil => simp
  | cons p d ih =>
    simp only [List.map_cons, get?_cons]
    by_cases hp : p.1 = k
    · by_cases hk : k' = k
      · subst hk; simp [hp]
      · have : ¬ k = k' := fun c => hk c.symm
        have : ¬ p.1 = k' := fun c => hk (by rw [← c, hp])
        simp [hp, hk, *, ih]
    · by_cases hk : k' = k
      · subst hk; simp [hp, ih]
      · by_cases hq : p.1 = k' <;> simp [hp, hk, hq, ih]

/-- `d[k] = v` then read -/
theorem get?_set (d : Dict κ ν) (k k' : κ) (v : ν) : get? (set d k v) k' = if k' = k then some v else get? d k' := by
  unfold set contains
  cases h : get? d k with
  | none =>
    simp only [Option.isSome_none, Bool.false_eq_true, if_false, get?_append_singleton]
    by_cases hk : k' = k
    · subst hk; simp [h]
    · have : ¬ k = k' := fun c => hk c.symm
      cases get? d k' <;> simp [hk, this]
  | some x =>
    simp only [Option.isSome_some, if_true, get?_map_set, h]
    by_cases hk : k' = k <;> simp [hk]

theorem get?_setdefault (d : Dict κ ν) (k k' : κ) (v : ν) :
    get? (setdefault d k v) k' = match get? d k' with | some x => some x | none => if k' = k then some v else none := by
  unfold setdefault contains
  cases h : get? d k with
  | none =>
    simp only [Option.isSome_none, Bool.false_eq_true, if_false, get?_append_singleton]
    by_cases hk : k' = k
    · subst hk; simp [h]
    · have : ¬ k = k' := fun c => hk c.symm
      cases get? d k' <;> simp [hk, this]
  | some x =>
    simp only [Option.isSome_some, if_true]
    by_cases hk : k' = k
    · subst hk; simp [h]
    · cases get? d k' <;> simp [hk]

theorem get?_filter_ne (d : Dict κ ν) (k k' : κ) :
    get? (d.filter (fun p => p.1 ≠ k)) k' = if k' = k then none else get? d k' := by
  induction d with
  | nil => simp
  | cons p d ih =>
    simp only [ne_eq, decide_not] at ih ⊢
    simp only [List.filter_cons]
    by_cases hp : p.1 = k
    · by_cases hk : k' = k
      · subst hk; simpa [hp] using ih
      · have h1 : ¬ p.1 = k' := fun c => hk (by rw [← c, hp])
        have h2 : ¬ k = k' := fun c => hk c.symm
        simp [hp, hk, ih, get?_cons, h2]
    · by_cases hk : k' = k
      · subst hk; simpa [hp, get?_cons] using ih
      · simp [hp, hk, ih, get?_cons]

@[simp] theorem get?_filter_ne' (d : Dict κ ν) (k k' : κ) :
    get? (d.filter (fun p => !decide (p.1 = k))) k' = if k' = k then none else get? d k' := by
  have := get?_filter_ne d k k'
  simpa only [ne_eq, decide_not] using this

/-- `d.pop(k)` succeeds exactly on a present key, returns its value and removes the key -/
theorem pop_of_get? (d : Dict κ ν) (k : κ) (x : ν) (h : get? d k = some x) :
    pop d k = some (d.filter (fun p => p.1 ≠ k), x) := by
  simp [pop, h]

theorem pop_none (d : Dict κ ν) (k : κ) (h : get? d k = none) : pop d k = none := by
  simp [pop, h]

theorem get?_foldl_set_not_mem : ∀ (zs : List (Int × Int)) (d : Dict Int Int) (k : Int), k ∉ zs.map (·.1) →
    get? (zs.foldl (fun d p => set d p.1 p.2) d) k = get? d k := by
  intro zs
  induction zs with
  | nil => intro d k _; rfl
  | cons z zs ih =>
    intro d k hk
    simp only [List.map_cons, List.mem_cons, not_or] at hk
    simp only [List.foldl_cons]
    rw [ih _ k hk.2, get?_set, if_neg hk.1]

theorem get?_foldl_set_zip : ∀ (ks vs : List Int) (d : Dict Int Int), ks.Nodup → ks.length ≤ vs.length → ∀ x ∈ ks,
    get? ((List.zip ks vs).foldl (fun d p => set d p.1 p.2) d) x = vs[ks.idxOf x]? := by
  intro ks
  induction ks with
  | nil => intro vs d _ _ x hx; simp at hx
  | cons k ks ih =>
    intro vs d hnd hlen x hx
    cases vs with
    | nil => simp at hlen
    | cons w ws =>
      rw [List.nodup_cons] at hnd
      simp only [List.zip_cons_cons, List.foldl_cons]
      by_cases hxk : x = k
      · subst hxk
        have : x ∉ (List.zip ks ws).map (·.1) := by
          intro hm
          obtain ⟨z, hz, rfl⟩ := List.mem_map.1 hm
          exact hnd.1 (List.of_mem_zip hz).1
        rw [get?_foldl_set_not_mem _ _ _ this, get?_set]
        simp
      · have hxs : x ∈ ks := by
          simp only [List.mem_cons] at hx
          rcases hx with h | h
          · exact absurd h hxk
          · exact h
        rw [ih ws _ hnd.2 (by simpa using hlen) x hxs]
        have : (k :: ks).idxOf x = ks.idxOf x + 1 := by
          have hkx : (k == x) = false := by simp; exact fun c => hxk c.symm
          simp [List.idxOf_cons, hkx]
        rw [this]
        simp

theorem get?_ofZip_not_mem (ks vs : List Int) (x : Int) (h : x ∉ ks) : get? (ofZip ks vs) x = none := by
  unfold ofZip
  rw [get?_foldl_set_not_mem]
  · rfl
  · intro hm
    obtain ⟨z, hz, rfl⟩ := List.mem_map.1 hm
    exact h (List.of_mem_zip hz).1

theorem getD_eq (d : Dict κ ν) (k : κ) (dv : ν) : getD d k dv = (get? d k).getD dv := rfl

end Py.Dict

namespace Py
variable {V R : Type}

theorem whileF_next (cond : V → Option Bool) (body : V → Res V R) (f : Nat) (v v' : V)
    (hc : cond v = some true) (hb : body v = .next v') : whileF cond body (f + 1) v = whileF cond body f v' := by
  simp [whileF, hc, hb]

theorem whileF_brk (cond : V → Option Bool) (body : V → Res V R) (f : Nat) (v v' : V)
    (hc : cond v = some true) (hb : body v = .brk v') : whileF cond body (f + 1) v = .next v' := by
  simp [whileF, hc, hb]

theorem whileF_done (cond : V → Option Bool) (body : V → Res V R) (f : Nat) (v : V)
    (hc : cond v = some false) : whileF cond body (f + 1) v = .next v := by
  simp [whileF, hc]

end Py

namespace Py.Dict
variable {κ ν : Type} [DecidableEq κ]

theorem contains_iff (d : Dict κ ν) (k : κ) : contains d k = true ↔ k ∈ d.map (·.1) := by
  unfold contains get?
  induction d with
  | nil => simp
  | cons p d ih =>
    simp only [List.find?_cons, List.map_cons, List.mem_cons]
    by_cases h : p.1 = k
    · simp [h]
    · have h' : ¬ k = p.1 := fun c => h c.symm
      simp only [h, decide_false, Bool.false_eq_true, if_false, h', false_or] at *
      exact ih

theorem mem_setdefault (d : Dict κ ν) (k : κ) (v : ν) (q : κ × ν) :
    q ∈ setdefault d k v ↔ q ∈ d ∨ (k ∉ d.map (·.1) ∧ q = (k, v)) := by
  unfold setdefault
  by_cases h : contains d k = true
  · have := (contains_iff d k).1 h
    simp [h, this]
  · have hn : k ∉ d.map (·.1) := fun c => h ((contains_iff d k).2 c)
    simp [h, hn]

theorem mem_set_of_mem (d : Dict κ ν) (k : κ) (v : ν) (hk : k ∈ d.map (·.1)) (q : κ × ν) :
    q ∈ set d k v ↔ (q ∈ d ∧ q.1 ≠ k) ∨ q = (k, v) := by
  unfold set
  rw [if_pos ((contains_iff d k).2 hk)]
  simp only [List.mem_map]
  constructor
  · rintro ⟨p, hp, rfl⟩
    by_cases h : p.1 = k
    · simp [h]
    · simp [h, hp]
  · rintro (⟨hq, hne⟩ | rfl)
    · exact ⟨q, hq, by simp [hne]⟩
    · obtain ⟨p, hp, hpk⟩ := List.mem_map.1 hk
      exact ⟨p, hp, by simp [hpk]⟩

theorem keys_set_of_mem (d : Dict κ ν) (k : κ) (v : ν) (hk : k ∈ d.map (·.1)) (k' : κ) :
    k' ∈ (set d k v).map (·.1) ↔ k' ∈ d.map (·.1) := by
  simp only [List.mem_map]
  constructor
  · rintro ⟨q, hq, rfl⟩
    rcases (mem_set_of_mem d k v hk q).1 hq with ⟨h, _⟩ | rfl
    · exact ⟨q, h, rfl⟩
    · simpa using hk
  · rintro ⟨q, hq, rfl⟩
    by_cases h : q.1 = k
    · exact ⟨(k, v), (mem_set_of_mem d k v hk _).2 (Or.inr rfl), h.symm⟩
    · exact ⟨q, (mem_set_of_mem d k v hk q).2 (Or.inl ⟨hq, h⟩), rfl⟩

theorem get?_of_forall (d : Dict κ ν) (f : κ → ν) (h : ∀ p ∈ d, p.2 = f p.1) (k : κ) (hk : k ∈ d.map (·.1)) :
    get? d k = some (f k) := by
  induction d with
  | nil => simp at hk
  | cons p d ih =>
    rw [get?_cons]
    by_cases hp : p.1 = k
    · simp only [hp, if_true]
      rw [← hp]
      exact congrArg some (h p List.mem_cons_self)
    · simp only [hp, if_false]
      simp only [List.map_cons, List.mem_cons] at hk
      rcases hk with hk | hk
      · exact absurd hk.symm hp
      · exact ih (fun q hq => h q (List.mem_cons_of_mem _ hq)) hk

theorem get?_none_of_not_mem (d : Dict κ ν) (k : κ) (hk : k ∉ d.map (·.1)) : get? d k = none := by
  have : contains d k ≠ true := fun c => hk ((contains_iff d k).1 c)
  unfold contains at this
  cases h : get? d k with
  | none => rfl
  | some x => simp [h] at this

end Py.Dict
