import SwcVerif.Model.Py
/-! Generic lemmas about the combinators of `Model/Py.lean`, used by every refinement proof. -/
namespace Py
variable {V R α β : Type}

/-- a loop whose body always falls through is a fold -/
theorem forEach_pure (body : α → V → Res V R) (step : V → α → V) (h : ∀ x v, body x v = .next (step v x)) :
    ∀ (xs : List α) (v : V), forEach body xs v = .next (xs.foldl step v) := by
  intro xs
  induction xs with
  | nil => intro v; rfl
  | cons x xs ih => intro v; simp [forEach, h, ih]

/-- a loop whose body falls through or fails, as a monadic fold -/
theorem forEach_opt (body : α → V → Res V R) (step : V → α → Option V)
    (h : ∀ x v, body x v = match step v x with | some v' => .next v' | none => .err) :
    ∀ (xs : List α) (v : V), forEach body xs v = match xs.foldlM step v with | some v' => .next v' | none => .err := by
  intro xs
  induction xs with
  | nil => intro v; rfl
  | cons x xs ih =>
    intro v
    simp only [forEach, h, List.foldlM_cons]
    cases hs : step v x with
    | none => simp [hs]
    | some v' => simp [hs, ih]

theorem normIdx_nat (n k : Nat) (h : k < n) : normIdx n (k : Int) = some k := by
  simp [normIdx, h]

theorem normIdx_nat_none (n k : Nat) (h : ¬ k < n) : normIdx n (k : Int) = none := by
  simp [normIdx, h]

theorem idx_nat (l : List α) (k : Nat) (h : k < l.length) : idx l (k : Int) = l[k]? := by
  simp [idx, normIdx_nat _ _ h]

theorem idx_nat_none (l : List α) (k : Nat) (h : ¬ k < l.length) : idx l (k : Int) = none := by
  simp [idx, normIdx_nat_none _ _ h]

theorem setIdx_nat (l : List α) (k : Nat) (v : α) (h : k < l.length) : setIdx l (k : Int) v = some (l.set k v) := by
  simp [setIdx, normIdx_nat _ _ h]

@[simp] theorem range_natCast (n : Nat) : range (n : Int) = (List.range n).map (fun (k : Nat) => (k : Int)) := by
  simp [range]

@[simp] theorem len_eq (l : List α) : len l = (l.length : Int) := rfl

theorem pop_append (l : List α) (x : α) : pop (l ++ [x]) = some (l, x) := by
  simp [pop]

@[simp] theorem pop_nil : pop ([] : List α) = none := rfl

end Py
