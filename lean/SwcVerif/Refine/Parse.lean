import SwcVerif.Gen.AlgoParse
import SwcVerif.Refine.PyLemmas
/-! Refinement for C02: the definitions GENERATED from `swcgeom/core/swc_utils/io.py::parse_swc` (the `with FileReader(...) as f:` block,
`try … except UnicodeDecodeError`, the `for i, line in enumerate(f)` loop with its three-way classification, the once-only warning, the
per-column `vals[i].append(...)`, the `raise ValueError`) and from `swcgeom/utils/file.py::FileReader.__exit__` compute, for EVERY list of
lines, every decode failure position and every `rowOf / commentOf / isHeader / blank`, the fold `Spec.loop` below — and that fold returns a
table exactly when no line is invalid, one entry per data row in EVERY column, the kept comments in order, one warning for the first row
with a non-empty tail; otherwise the error names the first invalid line. -/
namespace RefineParse
open Gen.Algo Py

variable {L Val C : Type} [Inhabited L] [Inhabited Val] [Inhabited C]

/-! ## the specification (a fold over the lines) -/

/-- what the loop accumulates -/
structure St (Val C : Type) where
  vals : List (List Val)
  comments : List C
  flag : Bool
  warns : List Py.Exc

def warnExc (n : Int) : Py.Exc := ⟨"UserWarning", "some fields are ignored in row {i + 1} of `{fname}`", [n]⟩
def invalidExc (n : Int) : Py.Exc := ⟨"ValueError", "invalid row {i + 1} in `{fname}`", [n]⟩
def decodeExc : Py.Exc := ⟨"ValueError", "decode failed, try to enable auto detect `encoding='detect'`", []⟩

/-- one value appended to every column -/
def appendRow (vals : List (List Val)) (fs : List Val) : List (List Val) := List.zipWith (fun c x => c ++ [x]) vals fs

section
variable (rowOf : L → Option ((List Val) × Bool)) (commentOf : L → Option C) (isHeader : C → Bool) (blank : L → Bool)

/-- one line (`i` = its 0-based position); `none` = the line is neither a data row, a comment nor blank -/
def step (i : Int) (l : L) (st : St Val C) : Option (St Val C) :=
  match rowOf l with
  | some (fs, t) =>
    some ⟨appendRow st.vals fs, st.comments, st.flag && !t, if st.flag && t then st.warns ++ [warnExc (i + 1)] else st.warns⟩
  | none =>
    match commentOf l with
    | some c => some ⟨st.vals, if isHeader c then st.comments else st.comments ++ [c], st.flag, st.warns⟩
    | none => if blank l then some st else none

/-- the loop: the state reached and, if a line was invalid, its 1-based number (the loop stops there) -/
def loop : List L → Int → St Val C → St Val C × Option Int
  | [], _, st => (st, none)
  | l :: ls, i, st =>
    match step rowOf commentOf isHeader blank i l st with
    | some st' => loop ls (i + 1) st'
    | none => (st, some (i + 1))

/-- `FileReader.__exit__` closes the file if there is one -/
def closeReader (r : FileReader) : FileReader := if r.f.isSome then { r with closed := true } else r

/-- the whole call: warnings, the reader afterwards, the table (as the dictionary of its columns) and the comments — or the exception -/
def parseSpec (cols extras : List String) (reader : FileReader) (stream : Py.Stream L) :
    List Py.Exc × FileReader × Except Py.Exc (Py.Dict String (List Val) × List C) :=
  let k := 7 + extras.length
  let r := loop rowOf commentOf isHeader blank stream.items 0 ⟨List.replicate (cols.length + extras.length) [], [], true, []⟩
  (r.1.warns, closeReader reader,
    match r.2 with
    | some n => .error (invalidExc n)
    | none =>
      match stream.fail with
      | none => .ok (Py.Dict.ofZip (cols ++ extras) r.1.vals, r.1.comments)
      | some e => if e.isA "UnicodeDecodeError" then .error decodeExc else .error e)

/-! ## the generated code computes the specification -/

abbrev V (L Val C : Type) := parse_swc.V L Val C
abbrev R (Val C : Type) := Except Py.Exc ((Py.Dict String (List Val)) × (List C))

theorem idx_append_mid {α : Type} (pre : List α) (a : α) (post : List α) : Py.idx (pre ++ a :: post) (pre.length : Int) = some a := by
  rw [Py.idx_nat _ _ (by simp)]; simp

theorem setIdx_append_mid {α : Type} (pre : List α) (a b : α) (post : List α) :
    Py.setIdx (pre ++ a :: post) (pre.length : Int) b = some (pre ++ b :: post) := by
  rw [Py.setIdx_nat _ _ _ (by simp)]; simp

/-- the value the inner loop variable `i` is left with -/
def finalI : Int → Nat → Int → Int
  | _, 0, i0 => i0
  | j, m + 1, _ => finalI (j + 1) m j

/-- the inner loop `for i, trans in enumerate(transforms): vals[i].append(trans(match.group(i + 1)))`: ONE value is appended to EVERY
column (columns `pre` are done, `post` are still to do) -/
theorem for3_loop (t : Bool) : ∀ (post : List (List Val)) (pre : List (List Val)) (fpre fpost : List Val) (v : V L Val C),
    v.match_ = some (fpre ++ fpost, t) → v.vals = pre ++ post → fpre.length = pre.length → post.length ≤ fpost.length →
    Py.forEach (parse_swc.for3 rowOf commentOf isHeader blank) (Py.enumFrom (pre.length : Int) (List.replicate post.length ())) v
      = .next { v with i := finalI pre.length post.length v.i, trans := (), vals := pre ++ appendRow post fpost } := by
  intro post
  induction post with
  | nil =>
    intro pre fpre fpost v hm hv _ _
    simp only [List.length_nil, List.replicate_zero, Py.enumFrom, Py.forEach, appendRow, List.zipWith_nil_left, finalI]
    rw [← hv]
  | cons col post ih =>
    intro pre fpre fpost v hm hv hl hle
    cases fpost with
    | nil => simp at hle
    | cons x fpost =>
      have hle' : post.length ≤ fpost.length := by simpa using hle
      have e := ih (pre ++ [col ++ [x]]) (fpre ++ [x]) fpost
        { v with i := (pre.length : Int), trans := (), vals := pre ++ (col ++ [x]) :: post }
        (by simp [hm]) (by simp) (by simp [hl]) hle'
      have h1 := idx_append_mid pre col post
      have h2 : Py.idx (fpre ++ x :: fpost) (pre.length : Int) = some x := by rw [← hl]; exact idx_append_mid fpre x fpost
      have h3 := setIdx_append_mid pre col (col ++ [x]) post
      simp only [List.length_cons, List.replicate_succ, Py.enumFrom, Py.forEach, parse_swc.for3, Py.bind, hm, hv, h1, h2, h3]
      have hlen : ((pre ++ [col ++ [x]]).length : Int) = (pre.length : Int) + 1 := by simp
      rw [hlen] at e
      simp only [hm] at e
      rw [e]
      simp [appendRow, finalI]

theorem for3_all (t : Bool) (fs : List Val) (k : Nat) (v : V L Val C) (hm : v.match_ = some (fs, t))
    (ht : v.transforms = List.replicate k ()) (hv : v.vals.length = k) (hle : k ≤ fs.length) :
    Py.forEach (parse_swc.for3 rowOf commentOf isHeader blank) (Py.enumerate v.transforms) v
      = .next { v with i := finalI 0 k v.i, trans := (), vals := appendRow v.vals fs } := by
  have := for3_loop rowOf commentOf isHeader blank t v.vals [] [] fs v (by simpa using hm) (by simp) rfl (by omega)
  simp only [List.length_nil, hv, List.nil_append] at this
  have he : Py.enumerate v.transforms = Py.enumFrom 0 (List.replicate k ()) := by rw [ht]; rfl
  rw [he]
  exact this

/-- the same, for the variables as the outer loop body has just set them -/
theorem for3_all' (t : Bool) (fs : List Val) (k : Nat) (v : V L Val C) (fl : Bool) (ws : List Py.Exc) (i : Int) (l : L)
    (ht : v.transforms = List.replicate k ()) (hv : v.vals.length = k) (hle : k ≤ fs.length) :
    Py.forEach (parse_swc.for3 rowOf commentOf isHeader blank) (Py.enumerate v.transforms)
        { v with flag := fl, warnings_ := ws, i := i, line := l, match_ := some (fs, t) }
      = .next { v with flag := fl, warnings_ := ws, i := finalI 0 k i, line := l, match_ := some (fs, t), trans := (), vals := appendRow v.vals fs } :=
  for3_all rowOf commentOf isHeader blank t fs k { v with flag := fl, warnings_ := ws, i := i, line := l, match_ := some (fs, t) } rfl ht hv hle

/-- the loop-carried part of the variables, and the variables the rest of the function reads that the loop must not touch -/
def abs (v : V L Val C) : St Val C := ⟨v.vals, v.comments, v.flag, v.warnings_⟩
def Frame (v v' : V L Val C) : Prop := v'.reader = v.reader ∧ v'.keys = v.keys ∧ v'.transforms = v.transforms

/-- one iteration of `for i, line in enumerate(f)` is one `step` -/
theorem for4_step (k : Nat) (hk : ∀ l fs t, rowOf l = some (fs, t) → k ≤ fs.length) (i : Int) (l : L) (v : V L Val C)
    (ht : v.transforms = List.replicate k ()) (hv : v.vals.length = k) :
    match step rowOf commentOf isHeader blank i l (abs v) with
    | some st' => ∃ v', parse_swc.for4 rowOf commentOf isHeader blank (i, l) v = .next v' ∧ Frame v v' ∧ abs v' = st'
    | none => ∃ v', parse_swc.for4 rowOf commentOf isHeader blank (i, l) v = .ret v' (.error (invalidExc (i + 1))) ∧ Frame v v' ∧ abs v' = abs v := by
  unfold step
  cases hr : rowOf l with
  | some ft =>
    obtain ⟨fs, t⟩ := ft
    have hle := hk l fs t hr
    simp only [abs]
    by_cases hf : v.flag = true <;> cases t
    all_goals
      simp only [parse_swc.for4, Py.seq, Py.bind, hr, Option.isSome_some, if_true, hf, Option.bind_some, Py.skip, Bool.false_eq_true, if_false]
      rw [for3_all' rowOf commentOf isHeader blank _ fs k v _ _ i l ht hv hle]
      refine ⟨_, rfl, ⟨rfl, rfl, rfl⟩, ?_⟩
      simp [abs, hf, warnExc]
  | none =>
    simp only [abs]
    cases hc : commentOf l with
    | some c =>
      by_cases hh : isHeader c = true
      all_goals
        simp only [parse_swc.for4, Py.seq, Py.bind, hr, hc, Option.isSome_some, Option.isSome_none, if_true, hh, Py.skip, Bool.false_eq_true, if_false, Bool.not_true, Bool.not_false]
        refine ⟨_, rfl, ⟨rfl, rfl, rfl⟩, ?_⟩
        simp [abs, hh]
    | none =>
      by_cases hb : blank l = true
      all_goals
        simp only [parse_swc.for4, Py.seq, Py.bind, hr, hc, Option.isSome_none, hb, Py.skip, Bool.false_eq_true, if_false, Bool.not_true, Bool.not_false, if_true, Py.raise]
        refine ⟨_, rfl, ⟨rfl, rfl, rfl⟩, ?_⟩
        simp [abs, invalidExc]

theorem appendRow_length (vals : List (List Val)) (fs : List Val) (h : vals.length ≤ fs.length) : (appendRow vals fs).length = vals.length := by
  simp [appendRow, List.length_zipWith]; omega

theorem step_len (k : Nat) (hk : ∀ l fs t, rowOf l = some (fs, t) → k ≤ fs.length) (i : Int) (l : L) (st st' : St Val C)
    (h : step rowOf commentOf isHeader blank i l st = some st') (hl : st.vals.length = k) : st'.vals.length = k := by
  unfold step at h
  cases hr : rowOf l with
  | some ft =>
    obtain ⟨fs, t⟩ := ft
    simp only [hr, Option.some.injEq] at h
    subst h
    simp only []
    rw [appendRow_length _ _ (by have := hk l fs t hr; omega), hl]
  | none =>
    simp only [hr] at h
    cases hc : commentOf l with
    | some c => simp only [hc, Option.some.injEq] at h; subst h; exact hl
    | none =>
      simp only [hc] at h
      by_cases hb : blank l = true
      · simp only [hb, if_true, Option.some.injEq] at h; subst h; exact hl
      · simp [hb] at h

theorem Frame.trans {a b c : V L Val C} (h1 : Frame a b) (h2 : Frame b c) : Frame a c :=
  ⟨h2.1.trans h1.1, h2.2.1.trans h1.2.1, h2.2.2.trans h1.2.2⟩

/-- the loop `for i, line in enumerate(f)` over a file that yields `ls` and then stops (`fail = none`) or raises (`fail = some e`) -/
theorem for4_loop (k : Nat) (hk : ∀ l fs t, rowOf l = some (fs, t) → k ≤ fs.length) (fail : Option Py.Exc) :
    ∀ (ls : List L) (i : Int) (v : V L Val C), v.transforms = List.replicate k () → v.vals.length = k →
    ∃ v', Py.forEachS (parse_swc.for4 rowOf commentOf isHeader blank) (Py.enumFrom i ls) fail v =
        (match (loop rowOf commentOf isHeader blank ls i (abs v)).2 with
         | some n => .ret v' (.error (invalidExc n))
         | none => match fail with
           | none => .next v'
           | some e => .ret v' (.error e))
      ∧ Frame v v' ∧ abs v' = (loop rowOf commentOf isHeader blank ls i (abs v)).1 := by
  intro ls
  induction ls with
  | nil =>
    intro i v _ _
    refine ⟨v, ?_, ⟨rfl, rfl, rfl⟩, rfl⟩
    cases fail <;> simp [loop, Py.enumFrom, Py.forEachS]
  | cons l ls ih =>
    intro i v ht hv
    have h4 := for4_step rowOf commentOf isHeader blank k hk i l v ht hv
    cases hs : step rowOf commentOf isHeader blank i l (abs v) with
    | some st' =>
      rw [hs] at h4
      obtain ⟨v1, e1, hF, ha⟩ := h4
      have hv1 : v1.vals.length = k := by
        have := step_len rowOf commentOf isHeader blank k hk i l _ _ hs (by simpa [abs] using hv)
        rw [← ha] at this; simpa [abs] using this
      obtain ⟨v', e', hF', ha'⟩ := ih (i + 1) v1 (hF.2.2.trans ht) hv1
      refine ⟨v', ?_, hF.trans hF', ?_⟩
      · simp only [Py.enumFrom, Py.forEachS, e1, loop, hs]
        rw [e', ha]
      · simp only [loop, hs]
        rw [ha', ha]
    | none =>
      rw [hs] at h4
      obtain ⟨v1, e1, hF, ha⟩ := h4
      refine ⟨v1, ?_, hF, ?_⟩
      · simp only [Py.enumFrom, Py.forEachS, e1, loop, hs]
      · simp only [loop, hs]
        exact ha

/-- `FileReader.__exit__` returns False (exceptions propagate) and closes the file if there is one -/
theorem file_reader_exit_eq (r : FileReader) (a b c : Option Py.Exc) : file_reader_exit r a b c = some (closeReader r, false) := by
  obtain ⟨f, cl⟩ := r
  cases f <;> simp [file_reader_exit, file_reader_exit.body, Py.seq, Py.skip, Py.finish, closeReader]

/-- the exception a finished loop hands to the `with` statement -/
def outcome (stream : Py.Stream L) (r : St Val C × Option Int) : Option Py.Exc :=
  match r.2 with
  | some n => some (invalidExc n)
  | none => match stream.fail with
    | none => none
    | some e => some (if e.isA "UnicodeDecodeError" then decodeExc else e)

/-- `try: for … except UnicodeDecodeError as e: raise ValueError(…) from e` -/
theorem with6_body_eq (k : Nat) (hk : ∀ l fs t, rowOf l = some (fs, t) → k ≤ fs.length) (v : V L Val C)
    (ht : v.transforms = List.replicate k ()) (hv : v.vals.length = k) :
    ∃ v', parse_swc.with6_body rowOf commentOf isHeader blank v =
        (match outcome v.f (loop rowOf commentOf isHeader blank v.f.items 0 (abs v)) with
         | some e => .ret v' (.error e)
         | none => .next v')
      ∧ Frame v v' ∧ abs v' = (loop rowOf commentOf isHeader blank v.f.items 0 (abs v)).1 := by
  obtain ⟨v', e', hF, ha⟩ := for4_loop rowOf commentOf isHeader blank k hk v.f.fail v.f.items 0 v ht hv
  simp only [parse_swc.with6_body, Py.tryExcept, parse_swc.try5_body, Py.Stream.enumerate, Py.enumerate, e', outcome]
  cases hn : (loop rowOf commentOf isHeader blank v.f.items 0 (abs v)).2 with
  | some n =>
    refine ⟨v', ?_, hF, ha⟩
    have : (invalidExc n).isA "UnicodeDecodeError" = false := rfl
    simp [this]
  | none =>
    cases hfl : v.f.fail with
    | none => exact ⟨v', by simp, hF, ha⟩
    | some e =>
      by_cases hu : e.isA "UnicodeDecodeError" = true
      · refine ⟨{ v' with e := e }, ?_, hF, ha⟩
        simp [hu, parse_swc.try5_handler, Py.raise, decodeExc]
      · refine ⟨v', ?_, hF, ha⟩
        simp [hu]

/-- the `with FileReader(...) as f:` statement: the body's exception propagates (the translated `__exit__` returns False) and the reader is closed -/
theorem with_eq (k : Nat) (hk : ∀ l fs t, rowOf l = some (fs, t) → k ≤ fs.length) (v : V L Val C)
    (ht : v.transforms = List.replicate k ()) (hv : v.vals.length = k) :
    ∃ v', Py.withExit (parse_swc.with6_exit rowOf commentOf isHeader blank) (parse_swc.with6_body rowOf commentOf isHeader blank) v =
        (match outcome v.f (loop rowOf commentOf isHeader blank v.f.items 0 (abs v)) with
         | some e => .ret v' (.error e)
         | none => .next v')
      ∧ v'.reader = closeReader v.reader ∧ v'.keys = v.keys ∧ abs v' = (loop rowOf commentOf isHeader blank v.f.items 0 (abs v)).1 := by
  obtain ⟨v', e', hF, ha⟩ := with6_body_eq rowOf commentOf isHeader blank k hk v ht hv
  refine ⟨{ v' with reader := closeReader v.reader }, ?_, rfl, hF.2.1, ha⟩
  simp only [Py.withExit, e', parse_swc.with6_exit, file_reader_exit_eq, hF.1]
  cases outcome v.f (loop rowOf commentOf isHeader blank v.f.items 0 (abs v)) <;> simp [hF.1]

def lastOr {α : Type} : List α → α → α
  | [], d => d
  | x :: xs, _ => lastOr xs x

/-- `vals = [[] for _ in keys]` -/
theorem for1_loop : ∀ (ks : List String) (v : V L Val C),
    Py.forEach (parse_swc.for1 rowOf commentOf isHeader blank) ks v
      = .next { v with c0_ := v.c0_ ++ List.replicate ks.length [], underscore_ := lastOr ks v.underscore_ } := by
  intro ks
  induction ks with
  | nil => intro v; simp [Py.forEach, lastOr]
  | cons x ks ih =>
    intro v
    simp only [Py.forEach, parse_swc.for1, ih, lastOr, List.length_cons, List.replicate_succ]
    simp

/-- `[float for _ in extras]` -/
theorem for2_loop : ∀ (ks : List String) (v : V L Val C),
    Py.forEach (parse_swc.for2 rowOf commentOf isHeader blank) ks v
      = .next { v with c2_ := v.c2_ ++ List.replicate ks.length (), underscore_ := lastOr ks v.underscore_ } := by
  intro ks
  induction ks with
  | nil => intro v; simp [Py.forEach, lastOr]
  | cons x ks ih =>
    intro v
    simp only [Py.forEach, parse_swc.for2, ih, lastOr, List.length_cons, List.replicate_succ]
    simp

/-- **Refinement.**  For every list of lines, every decode failure and every `rowOf / commentOf / isHeader / blank` (with the seven
standard column names and at least `7 + |extras|` converted groups per matched row) the generated `parse_swc` never fails with an
untracked exception and returns exactly `parseSpec`. -/
theorem parse_refines (cols extras : List String) (reader : FileReader) (stream : Py.Stream L)
    (hc : cols.length = 7) (hk : ∀ l fs t, rowOf l = some (fs, t) → 7 + extras.length ≤ fs.length) :
    parse_swc rowOf commentOf isHeader blank cols extras reader stream
      = some (parseSpec rowOf commentOf isHeader blank cols extras reader stream) := by
  unfold parse_swc parse_swc.body
  simp only [Py.seq, Py.bindS, for1_loop, for2_loop]
  obtain ⟨v', e', hr, hkeys, ha⟩ := with_eq rowOf commentOf isHeader blank (7 + extras.length) hk
    { (default : V L Val C) with
      cols := cols, extras := extras, reader := reader, stream := stream, keys := cols ++ extras,
      c0_ := [] ++ List.replicate (cols ++ extras).length [], underscore_ := lastOr extras (lastOr (cols ++ extras) (default : V L Val C).underscore_),
      vals := [] ++ List.replicate (cols ++ extras).length [], c2_ := [] ++ List.replicate extras.length (),
      transforms := [(), (), (), (), (), (), ()] ++ ([] ++ List.replicate extras.length ()),
      last_group := (7 : Int) + Py.len extras + 1, flag := true, comments := [], f := stream }
    (by rw [Nat.add_comm]; rfl) (by simp [hc])
  dsimp only at e' hr hkeys ha
  rw [e']
  have hw : (default : parse_swc.V L Val C).warnings_ = [] := rfl
  simp only [abs, List.nil_append, List.length_append, hw] at ha hr hkeys ⊢
  simp only [parseSpec]
  generalize loop rowOf commentOf isHeader blank stream.items 0 ⟨List.replicate (cols.length + extras.length) [], [], true, []⟩ = r at ha ⊢
  obtain ⟨st, n⟩ := r
  obtain ⟨hvals, hcom, hflag, hwarn⟩ : v'.vals = st.vals ∧ v'.comments = st.comments ∧ v'.flag = st.flag ∧ v'.warnings_ = st.warns := by
    cases st; simpa using ha
  cases n <;> cases hfl : stream.fail <;> simp [outcome, hfl, Py.finishX, hvals, hcom, hwarn, hr, hkeys]
  split <;> rfl

/-! ## what the fold computes -/

/-- the line is neither a data row, a comment nor blank -/
def isInvalid (l : L) : Bool := (rowOf l).isNone && (commentOf l).isNone && !blank l
/-- the converted fields of a data row -/
def rowAt (l : L) : Option (List Val) := (rowOf l).map (·.1)
/-- a data row with fields beyond the requested columns -/
def tailAt (l : L) : Bool := match rowOf l with | some (_, t) => t | none => false
/-- the comment a line contributes (not a data row, a comment, not the column header) -/
def keptComment (l : L) : Option C :=
  match rowOf l with
  | some _ => none
  | none => match commentOf l with
    | some c => if isHeader c then none else some c
    | none => none
/-- 1-based number of the first data row with a non-empty tail (lines numbered from `i + 1`) -/
def firstTail : List L → Int → Option Int
  | [], _ => none
  | l :: ls, i => if tailAt rowOf l then some (i + 1) else firstTail ls (i + 1)

theorem firstTail_isSome : ∀ (ls : List L) (i : Int), (firstTail rowOf ls i).isSome = ls.any (tailAt rowOf) := by
  intro ls
  induction ls with
  | nil => intro i; rfl
  | cons l ls ih => intro i; by_cases h : tailAt rowOf l = true <;> simp [firstTail, h, ih]

theorem step_invalid (i : Int) (l : L) (st : St Val C) (h : isInvalid rowOf commentOf blank l = true) :
    step rowOf commentOf isHeader blank i l st = none := by
  simp only [isInvalid, Bool.and_eq_true, Option.isNone_iff_eq_none, Bool.not_eq_true'] at h
  simp [step, h.1.1, h.1.2, h.2]

/-- **No invalid line**: the loop runs to the end; every data row is appended to the columns, the kept comments are collected in order,
the flag goes down at the first row with a tail, which is the one warning -/
theorem loop_valid : ∀ (ls : List L) (i : Int) (st : St Val C), (∀ l ∈ ls, isInvalid rowOf commentOf blank l = false) →
    loop rowOf commentOf isHeader blank ls i st =
      (⟨(ls.filterMap (rowAt rowOf)).foldl appendRow st.vals, st.comments ++ ls.filterMap (keptComment rowOf commentOf isHeader),
        st.flag && (firstTail rowOf ls i).isNone,
        st.warns ++ (if st.flag then (match firstTail rowOf ls i with | some n => [warnExc n] | none => []) else [])⟩, none) := by
  intro ls
  induction ls with
  | nil => intro i st _; cases st; cases ‹Bool› <;> simp [loop, firstTail]
  | cons l ls ih =>
    intro i st h
    have hl := h l (by simp)
    have ih' := fun st' => ih (i + 1) st' (fun m hm => h m (by simp [hm]))
    simp only [loop, step]
    cases hr : rowOf l with
    | some ft =>
      obtain ⟨fs, t⟩ := ft
      simp only [ih', rowAt, hr, keptComment, tailAt, firstTail, List.filterMap_cons, Option.map_some, List.foldl_cons]
      cases st.flag <;> cases t <;> simp
    | none =>
      cases hc : commentOf l with
      | some c =>
        simp only [ih', rowAt, hr, hc, keptComment, tailAt, firstTail, List.filterMap_cons, Option.map_none]
        by_cases hh : isHeader c = true <;> simp [hh]
      | none =>
        have hb : blank l = true := by simpa [isInvalid, hr, hc] using hl
        simp only [hb, if_true, ih', rowAt, hr, hc, keptComment, tailAt, firstTail, List.filterMap_cons, Option.map_none]
        simp

/-- **An invalid line anywhere**: the loop stops there, with the number of the FIRST such line (and what it had accumulated) -/
theorem loop_invalid (bad : L) (post : List L) (hbad : isInvalid rowOf commentOf blank bad = true) :
    ∀ (pre : List L) (i : Int) (st : St Val C), (∀ l ∈ pre, isInvalid rowOf commentOf blank l = false) →
    loop rowOf commentOf isHeader blank (pre ++ bad :: post) i st =
      ((loop rowOf commentOf isHeader blank pre i st).1, some (i + pre.length + 1)) := by
  intro pre
  induction pre with
  | nil => intro i st _; simp [loop, step_invalid rowOf commentOf isHeader blank i bad st hbad]
  | cons l pre ih =>
    intro i st h
    have ih' := fun st' => ih (i + 1) st' (fun m hm => h m (by simp [hm]))
    simp only [List.cons_append, loop]
    cases hs : step rowOf commentOf isHeader blank i l st with
    | some st' => simp only [ih']; congr 2; simp; omega
    | none =>
      exfalso
      have hl := h l (by simp)
      unfold step at hs
      cases hr : rowOf l with
      | some ft => simp [hr] at hs
      | none =>
        cases hc : commentOf l with
        | some c => simp [hr, hc] at hs
        | none =>
          have hb : blank l = true := by simpa [isInvalid, hr, hc] using hl
          simp [hr, hc, hb] at hs

/-- either no line is invalid, or there is a first invalid one -/
theorem first_invalid (ls : List L) :
    (∀ l ∈ ls, isInvalid rowOf commentOf blank l = false) ∨
    ∃ pre bad post, ls = pre ++ bad :: post ∧ (∀ l ∈ pre, isInvalid rowOf commentOf blank l = false) ∧ isInvalid rowOf commentOf blank bad = true := by
  induction ls with
  | nil => left; simp
  | cons l ls ih =>
    by_cases hl : isInvalid rowOf commentOf blank l = true
    · right; exact ⟨[], l, ls, rfl, by simp, hl⟩
    · rcases ih with ih | ⟨pre, bad, post, rfl, hpre, hbad⟩
      · left; intro m hm; simp at hm; rcases hm with rfl | hm
        · simpa using hl
        · exact ih m hm
      · right; refine ⟨l :: pre, bad, post, rfl, ?_, hbad⟩
        intro m hm; simp at hm; rcases hm with rfl | hm
        · simpa using hl
        · exact hpre m hm

/-- the columns after appending the rows one by one: EVERY column `j` received exactly the `j`-th field of every row, in order -/
theorem columns (k : Nat) : ∀ (rows : List (List Val)) (vals : List (List Val)), vals.length = k → (∀ fs ∈ rows, k ≤ fs.length) →
    (rows.foldl appendRow vals).length = k ∧
    ∀ j, j < k → (rows.foldl appendRow vals)[j]? = (vals[j]?).map (· ++ rows.filterMap (·[j]?)) := by
  intro rows
  induction rows with
  | nil => intro vals hl _; refine ⟨hl, fun j _ => ?_⟩; simp
  | cons fs rows ih =>
    intro vals hl hrows
    have hfs : k ≤ fs.length := hrows fs (by simp)
    have hlen : (appendRow vals fs).length = k := by rw [appendRow_length _ _ (by omega), hl]
    obtain ⟨h1, h2⟩ := ih (appendRow vals fs) hlen (fun f hf => hrows f (by simp [hf]))
    refine ⟨h1, fun j hj => ?_⟩
    rw [List.foldl_cons, h2 j hj]
    have hv : j < vals.length := by omega
    have hf : j < fs.length := by omega
    simp [appendRow, List.getElem?_zipWith, List.getElem?_eq_getElem hv, List.getElem?_eq_getElem hf]

/-- … so every column has one entry per data row -/
theorem column_length (k : Nat) (rows : List (List Val)) (hrows : ∀ fs ∈ rows, k ≤ fs.length) (j : Nat) (hj : j < k) :
    (rows.filterMap (·[j]?)).map some = rows.map (·[j]?) := by
  induction rows with
  | nil => rfl
  | cons fs rows ih =>
    have hf : j < fs.length := by have := hrows fs (by simp); omega
    simp [List.getElem?_eq_getElem hf, ih (fun f hf => hrows f (by simp [hf]))]

end
end RefineParse
