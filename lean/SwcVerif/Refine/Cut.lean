import SwcVerif.Gen.AlgoCut
import SwcVerif.Props.C06Gen
/-! Refinement for C06 (T1 `cut`): the definitions GENERATED from `swcgeom/core/tree_utils.py::to_subtree` and `cut_tree`
(both overloads, with the closures `_enter` / `_leave` that call the USER's callback) equal the models `Sub.toSubtree`,
`Sub.cutTreeEnter`, `Sub.cutTreeLeave` on every tree table. -/
namespace RefineCut
open Gen.Algo Sub Py Trav C06

/-! ## `to_subtree` -/

/-- `for i in removals: new_ids[i] = REMOVAL` as a function on the id column (`none` = IndexError) -/
def markAll : List Int → List Int → Option (List Int)
  | l, [] => some l
  | l, i :: is => (setIdx l i (-2)).bind (fun l' => markAll l' is)

theorem for1_loop : ∀ (rm : List Int) (v : to_subtree.V),
    (match markAll v.new_ids rm with
     | some l => ∃ i', forEach to_subtree.for1 rm v = .next { v with new_ids := l, i := i' }
     | none => forEach to_subtree.for1 rm v = .err) := by
  intro rm
  induction rm with
  | nil => intro v; exact ⟨v.i, by simp [forEach]⟩
  | cons i is ih =>
    intro v
    simp only [markAll]
    cases hs : setIdx v.new_ids i (-2) with
    | none => simp [forEach, to_subtree.for1, Py.bind, hs]
    | some l' =>
      have := ih { v with i := i, new_ids := l' }
      simp only [Option.bind_some]
      cases hm : markAll l' is with
      | none =>
        simp only [hm] at this
        simp only [forEach, to_subtree.for1, Py.bind, hs]
        exact this
      | some l'' =>
        simp only [hm] at this
        obtain ⟨i', e⟩ := this
        refine ⟨i', ?_⟩
        simp only [forEach, to_subtree.for1, Py.bind, hs]
        rw [e]

/-- marking node ids (all inside the table) succeeds and writes `REMOVAL` at exactly those rows -/
theorem markAll_inrange (n : Nat) : ∀ (rm : List Int) (l : List Int), l.length = n → (∀ i ∈ rm, 0 ≤ i ∧ i.toNat < n) →
    ∃ l', markAll l rm = some l' ∧ l'.length = n ∧
      ∀ k : Nat, k < n → l'[k]? = if rm.contains (k : Int) then some (-2) else l[k]? := by
  intro rm
  induction rm with
  | nil => intro l hl _; exact ⟨l, rfl, hl, fun k _ => by simp⟩
  | cons i is ih =>
    intro l hl hin
    have hi := hin i List.mem_cons_self
    have e : i = ((i.toNat : Nat) : Int) := by omega
    have hs : setIdx l i (-2) = some (l.set i.toNat (-2)) := by
      have h1 := setIdx_nat l i.toNat (-2) (by omega)
      rw [← e] at h1
      exact h1
    obtain ⟨l', h1, h2, h3⟩ := ih (l.set i.toNat (-2)) (by simp [hl]) (fun j hj => hin j (List.mem_cons_of_mem _ hj))
    refine ⟨l', by simp [markAll, hs, h1], h2, ?_⟩
    intro k hk
    rw [h3 k hk]
    by_cases hki : (k : Int) = i
    · have : i.toNat = k := by omega
      simp [hki, this, hl, hk]
    · have hne : i.toNat ≠ k := by omega
      have hik : ¬ i = (k : Int) := fun c => hki c.symm
      simp [List.getElem?_set_ne hne, hki]

theorem rangeI_getElem? (n k : Nat) (hk : k < n) : (rangeI n)[k]? = some (k : Int) := by
  simp [rangeI, hk]

/-- **`to_subtree` as translated IS the model `Sub.toSubtree`**: on every tree table (a `Tree` object: ids = positions, root 0) and every
list of node ids to remove, the generated loop writing `REMOVAL` into a copy of the id column, the generated `propagate_removal` and the
generated `to_sub_topology` (through `to_subtree_impl`) return the new parents and the new→old mapping of the model — which
`C06.toSubtree_kept` characterises as exactly the nodes neither removed nor below a removed node.  Fuel: `2·|tree| + 1` suffices. -/
theorem toSubtree_refines (pids : List Int) (r : Rose) (h : IsTree r pids) (rm : List Int)
    (hrm : ∀ i ∈ rm, 0 ≤ i ∧ i.toNat < pids.length) (F : Nat) :
    to_subtree (2 * r.size + F + 1) (rangeI pids.length) pids rm =
      (toSubtree pids rm).map (fun s => ((Py.range (s.mapping.length : Int), s.newPid), s.mapping)) := by
  obtain ⟨l1, hm1, hlen1, hget1⟩ := markAll_inrange pids.length rm (rangeI pids.length) (by simp [rangeI]) hrm
  -- the marks written by the loop are the model's initial marking
  have habs1 : absMark l1 = fun i => rm.contains i := by
    funext j
    simp only [absMark]
    by_cases hj : 0 ≤ j
    · by_cases hjn : j.toNat < pids.length
      · have e : j = ((j.toNat : Nat) : Int) := by omega
        have := hget1 j.toNat hjn
        rw [← e, rangeI_getElem? _ _ hjn, ← e] at this
        rw [List.getD_eq_getElem?_getD, this]
        by_cases hc : j ∈ rm
        · simp [hc, hj]
        · have hne : ¬ j = -2 := by omega
          simp [hc, hj, hne]
      · have hnone : l1[j.toNat]? = none := by simp [hlen1]; omega
        have hc : ¬ j ∈ rm := fun hcc => absurd (hrm j hcc).2 hjn
        rw [List.getD_eq_getElem?_getD, hnone]
        simp [hc]
    · have hc : ¬ j ∈ rm := fun hcc => absurd (hrm j hcc).1 hj
      simp [hj, hc]
  obtain ⟨l2, hp2, hlen2, habs2, hget2⟩ := generated_propagateRemoval pids r h l1 hlen1 F
  rw [habs1] at habs2
  -- the propagated id column is the model's marked column
  have hl2 : l2 = (rangeI pids.length).map (fun i => if propagateRemoval pids (fun i => rm.contains i) i then REMOVAL else i) := by
    apply List.ext_getElem?
    intro k
    by_cases hk : k < pids.length
    · have hk2 : k < l2.length := by omega
      have hm := habs2 (k : Int)
      simp only [absMark, Int.toNat_natCast, List.getD_eq_getElem?_getD, List.getElem?_eq_getElem hk2, Option.getD_some] at hm
      have h0 : (0 : Int) ≤ (k : Int) := by omega
      simp only [h0, decide_true, Bool.true_and] at hm
      have hr : ((rangeI pids.length).map (fun i => if propagateRemoval pids (fun i => rm.contains i) i then REMOVAL else i))[k]? =
          some (if propagateRemoval pids (fun i => rm.contains i) (k : Int) then REMOVAL else (k : Int)) := by
        rw [List.getElem?_map, rangeI_getElem? _ _ hk]; rfl
      rw [hr, List.getElem?_eq_getElem hk2]
      cases hM : propagateRemoval pids (fun i => rm.contains i) (k : Int) with
      | true =>
        rw [hM] at hm
        simp only [decide_eq_true_eq] at hm
        simp [hm, RefineSub.removal_eq]
      | false =>
        rw [hM] at hm
        simp only [decide_eq_false_iff_not] at hm
        have h4 := hget2 k
        rw [List.getElem?_eq_getElem hk2, hget1 k hk, rangeI_getElem? _ _ hk] at h4
        rcases h4 with h4 | h4
        · by_cases hc : rm.contains (k : Int) = true
          · simp only [hc, if_true, Option.some.injEq] at h4
            exact absurd h4 hm
          · simp only [hc, Bool.false_eq_true, if_false, Option.some.injEq] at h4
            simp [h4]
        · simp only [Option.some.injEq] at h4
          exact absurd h4 hm
    · have h1 : l2[k]? = none := by simp; omega
      rw [h1]
      symm
      simp only [List.getElem?_eq_none_iff, List.length_map, rangeI, List.length_range]
      omega
  -- the compaction
  have hnoR : ∀ i ∈ rangeI pids.length, i ≠ REMOVAL := by
    intro i hi
    have := ((mem_rangeI _ _).1 hi).1
    simp only [REMOVAL, Gen.Consts.removalMarker]; omega
  have hnd : (((List.zip l2 pids).filter (fun ip => !decide (ip.1 = -2))).map (·.1)).Nodup := by
    have e1 := zip_filter_fst (fun x => !decide (x = -2)) l2 pids (by omega)
    rw [e1, hl2]
    simp only [RefineSub.removal_eq]
    have e2 := filter_marked (propagateRemoval pids (fun i => rm.contains i)) (rangeI pids.length) hnoR
    simp only [RefineSub.removal_eq, ne_eq, decide_not] at e2
    rw [e2]
    apply List.Nodup.sublist List.filter_sublist
    exact h.2.1.nodup_iff.1 h.1.2
  have hsub := RefineSub.toSubTopology_refines l2 pids (by omega) hnd
  have hmodel : toSubtree pids rm = toSubTopology l2 pids := by
    rw [hl2]; rfl
  rw [hmodel, ← hsub]
  have hfor := for1_loop rm { (default : to_subtree.V) with tids := rangeI pids.length, tpids := pids, removals := rm, new_ids := rangeI pids.length }
  simp only [hm1] at hfor
  obtain ⟨i', hfor⟩ := hfor
  simp only [to_subtree, to_subtree.body, Py.seq, hfor, Py.bind, hp2]
  cases to_sub_topology (l2, pids) <;> simp [Py.finish]

/-! ## `cut_tree(tree, enter=…)` : the closure `_enter` calls the USER's callback, an arbitrary stateful function -/
section enter
variable {σ T : Type} [Inhabited σ] [Inhabited T]

/-- what the translated closure `_enter` computes on a node of the table: its state is (`removals`, the id column, the user callback's state) -/
def cutEnterL (ue : σ → Int → Option T → σ × (T × Bool)) :
    (List Int × List Int × σ) → Int → Option (T × Bool) → (List Int × List Int × σ) × (T × Bool) :=
  fun s n parent =>
    match parent with
    | some (pv, true) => ((s.1 ++ [s.2.1.getD n.toNat 0], s.2.1, s.2.2), (pv, true))
    | _ =>
      let r := ue s.2.2 n (parent.map (·.1))
      ((if r.2.2 then s.1 ++ [s.2.1.getD n.toNat 0] else s.1, s.2.1, r.1), r.2)

/-- the model's `_enter` wrapper (`Sub.cutEnter`) for a STATEFUL user callback: state = (`removals`, user state) -/
def cutEnterS (ue : σ → Int → Option T → σ × (T × Bool)) :
    (List Int × σ) → Int → Option (T × Bool) → (List Int × σ) × (T × Bool) :=
  fun s n parent =>
    match parent with
    | some (pv, true) => ((s.1 ++ [n], s.2), (pv, true))
    | _ =>
      let r := ue s.2 n (parent.map (·.1))
      ((if r.2.2 then s.1 ++ [n] else s.1, r.1), r.2)

theorem cutEnter_closure (ue : σ → Int → Option T → σ × (T × Bool)) (s : List Int × List Int × σ) (n : Int) (pv : Option (T × Bool))
    (hn : 0 ≤ n ∧ n.toNat < s.2.1.length) :
    cut_enter ue s n pv = some (cutEnterL ue s n pv) := by
  have e : n = ((n.toNat : Nat) : Int) := by omega
  have h0 : Py.idx s.2.1 n = some (s.2.1.getD n.toNat 0) := by
    have h1 : Py.idx s.2.1 ((n.toNat : Nat) : Int) = s.2.1[n.toNat]? := Py.idx_nat _ _ hn.2
    rw [← e] at h1
    rw [h1]; simp [List.getD, hn.2]
  match pv with
  | some (p, true) =>
    simp [cut_enter, cut_enter.body, Py.seq, Py.bind, h0, Py.finish, cutEnterL]
  | some (p, false) =>
    cases hr : (ue s.2.2 n (some p)).2.2 with
    | true => simp [cut_enter, cut_enter.body, Py.seq, Py.bind, h0, Py.finish, cutEnterL, Py.skip, hr]; exact Prod.ext rfl hr.symm
    | false => simp [cut_enter, cut_enter.body, Py.seq, Py.bind, Py.finish, cutEnterL, Py.skip, hr]; exact Prod.ext rfl hr.symm
  | none =>
    cases hr : (ue s.2.2 n none).2.2 with
    | true => simp [cut_enter, cut_enter.body, Py.seq, Py.bind, h0, Py.finish, cutEnterL, Py.skip, hr]; exact Prod.ext rfl hr.symm
    | false => simp [cut_enter, cut_enter.body, Py.seq, Py.bind, Py.finish, cutEnterL, Py.skip, hr]; exact Prod.ext rfl hr.symm

/-- invariant of the closure state along the traversal: the id column is that of a `Tree` object, the removals collected so far are node ids -/
def CutInv (n : Nat) (s : List Int × List Int × σ) : Prop := s.2.1 = rangeI n ∧ ∀ i ∈ s.1, 0 ≤ i ∧ i.toNat < n

theorem rangeI_getD (n : Nat) (j : Int) (hj : 0 ≤ j ∧ j.toNat < n) : (rangeI n).getD j.toNat 0 = j := by
  rw [List.getD_eq_getElem?_getD, rangeI_getElem? _ _ hj.2]
  simp; omega

theorem cutEnterL_step (ue : σ → Int → Option T → σ × (T × Bool)) (n : Nat) (s : List Int × List Int × σ) (j : Int) (pv : Option (T × Bool))
    (hP : CutInv n s) (hj : 0 ≤ j ∧ j.toNat < n) :
    cutEnterS ue (s.1, s.2.2) j pv = (((cutEnterL ue s j pv).1.1, (cutEnterL ue s j pv).1.2.2), (cutEnterL ue s j pv).2) ∧
      CutInv n (cutEnterL ue s j pv).1 := by
  have hg : s.2.1[j.toNat]?.getD 0 = j := by
    have := rangeI_getD n j hj
    rw [List.getD_eq_getElem?_getD] at this
    rw [hP.1]; exact this
  have hmem : ∀ i ∈ s.1 ++ [j], 0 ≤ i ∧ i.toNat < n := by
    intro i hi
    rcases List.mem_append.1 hi with hi | hi
    · exact hP.2 i hi
    · simp only [List.mem_singleton] at hi; subst hi; exact hj
  match pv with
  | some (p, true) => exact ⟨by simp [cutEnterS, cutEnterL, hg], hP.1, by simpa [cutEnterL, hg] using hmem⟩
  | some (p, false) =>
    cases hr : (ue s.2.2 j (some p)).2.2 with
    | true => exact ⟨by simp [cutEnterS, cutEnterL, hg, hr], hP.1, by simpa [cutEnterL, hg, hr] using hmem⟩
    | false => exact ⟨by simp [cutEnterS, cutEnterL, hr], hP.1, by simpa [cutEnterL, hr] using hP.2⟩
  | none =>
    cases hr : (ue s.2.2 j none).2.2 with
    | true => exact ⟨by simp [cutEnterS, cutEnterL, hg, hr], hP.1, by simpa [cutEnterL, hg, hr] using hmem⟩
    | false => exact ⟨by simp [cutEnterS, cutEnterL, hr], hP.1, by simpa [cutEnterL, hr] using hP.2⟩

/-- **`cut_tree(tree, enter=…)` as translated, for EVERY user callback** (an arbitrary stateful function `ue`; `s0` is its state before the
call): on every tree table the generated closure `_enter`, run by the generated traversal, collects exactly the removal list of the model's
wrapper (`cutEnterS` = `Sub.cutEnter` with the callback's state threaded through) and leaves the callback in the model's final state; the
generated `to_subtree` then returns the model's table for that removal list.  Nothing raises; fuel `2·|tree| + 1` suffices. -/
theorem cutTreeEnter_refines (pids : List Int) (r : Rose) (h : IsTree r pids) (ue : σ → Int → Option T → σ × (T × Bool)) (s0 : σ) (F : Nat) :
    cut_tree_enter ue (2 * r.size + F + 1) (rangeI pids.length) pids s0 =
      (toSubtree pids (spec (cutEnterS ue) Sub.noLeave r none ([], s0)).1.1).map
        (fun t => ((spec (cutEnterS ue) Sub.noLeave r none ([], s0)).1.2, ((Py.range (t.mapping.length : Int), t.newPid), t.mapping))) := by
  have hin : ∀ j ∈ r.ids, 0 ≤ j ∧ j.toNat < pids.length := fun j hj => (isTree_mem h j).1 hj
  have hP0 : CutInv pids.length (([] : List Int), rangeI pids.length, s0) := ⟨rfl, by simp⟩
  have hcall := RefineClosures.traverse_closures_on (S := List Int × List Int × σ) (T := T × Bool) (K := Unit)
    (CutInv pids.length) (fun j => 0 ≤ j ∧ j.toNat < pids.length)
    (cut_enter ue) Py.noLeave (cutEnterL ue) Sub.noLeave
    (fun s n pv hp hn => ⟨cutEnter_closure ue s n pv (by rw [hp.1]; simpa [rangeI] using hn), (cutEnterL_step ue _ s n pv hp hn).2⟩)
    (fun s n ks hp _ => ⟨rfl, hp⟩)
    (rangeI pids.length) pids r h.1 ([], rangeI pids.length, s0) hP0 hin F
  obtain ⟨e2, p2⟩ := RefineClosures.spec_abs (S := List Int × List Int × σ) (S' := List Int × σ) (T := T × Bool) (K := Unit)
    (fun s => (s.1, s.2.2)) (CutInv pids.length) (fun j => 0 ≤ j ∧ j.toNat < pids.length)
    (cutEnterL ue) Sub.noLeave (cutEnterS ue) Sub.noLeave
    (fun s n pv hp hn => cutEnterL_step ue _ s n pv hp hn)
    (fun s n ks hp _ => ⟨rfl, hp⟩) r none ([], rangeI pids.length, s0) hP0 hin
  rw [h.2.2.1] at hcall
  simp only at e2
  rw [e2]
  generalize spec (cutEnterL ue) Sub.noLeave r none ([], rangeI pids.length, s0) = res at hcall p2
  have hsub := toSubtree_refines pids r h res.1.1 p2.2 F
  simp only [cut_tree_enter, cut_tree_enter.body, Py.seq, Py.bind, hcall, p2.1, hsub]
  cases toSubtree pids res.1.1 <;> simp [Py.finish]

/-- a user callback without state of its own: the stateful wrapper is the model's `Sub.cutEnter` -/
theorem cutEnterS_pure (ue : Int → Option T → T × Bool) (s0 : σ) (r : Rose) (pv : Option (T × Bool)) (rem : List Int) :
    spec (cutEnterS (fun (s : σ) n pv => (s, ue n pv))) Sub.noLeave r pv (rem, s0) =
      (((spec (cutEnter ue) Sub.noLeave r pv rem).1, s0), (spec (cutEnter ue) Sub.noLeave r pv rem).2) := by
  obtain ⟨e, p⟩ := RefineClosures.spec_abs (S := List Int × σ) (S' := List Int) (T := T × Bool) (K := Unit)
    (fun s => s.1) (fun s => s.2 = s0) (fun _ => True)
    (cutEnterS (fun (s : σ) n pv => (s, ue n pv))) Sub.noLeave (cutEnter ue) Sub.noLeave
    (fun s n pv hp _ => by
      match pv with
      | some (p, true) => exact ⟨by simp [cutEnterS, cutEnter], by simpa [cutEnterS] using hp⟩
      | some (p, false) => exact ⟨by simp [cutEnterS, cutEnter], by simpa [cutEnterS] using hp⟩
      | none => exact ⟨by simp [cutEnterS, cutEnter], by simpa [cutEnterS] using hp⟩)
    (fun s n ks hp _ => ⟨rfl, hp⟩) r pv (rem, s0) rfl (fun _ _ => trivial)
  simp only at e p
  rw [e]
  exact Prod.ext (Prod.ext rfl p) rfl

/-- **`cut_tree(tree, enter=…)` as translated = the model `Sub.cutTreeEnter`** (user callbacks as the model takes them: functions of the node
and the parent's value), so `C06.cutEnter_removed` / `C06.toSubtree_kept` speak about the generated code -/
theorem cutTreeEnter_refines_model (pids : List Int) (r : Rose) (h : IsTree r pids) (ue : Int → Option T → T × Bool) (s0 : σ) (F : Nat) :
    cut_tree_enter (fun (s : σ) n pv => (s, ue n pv)) (2 * r.size + F + 1) (rangeI pids.length) pids s0 =
      (cutTreeEnter pids ue).map (fun t => (s0, ((Py.range (t.mapping.length : Int), t.newPid), t.mapping))) := by
  rw [cutTreeEnter_refines pids r h _ s0 F, cutEnterS_pure]
  unfold cutTreeEnter
  simp only
  rw [run_tree h]

end enter

/-! ## `cut_tree(tree, leave=…)` -/
section leave
variable {σ K : Type} [Inhabited σ] [Inhabited K]

/-- what the translated closure `_leave` computes on a node of the table -/
def cutLeaveL (ul : σ → Int → List K → σ × (K × Bool)) :
    (List Int × List Int × σ) → Int → List K → (List Int × List Int × σ) × K :=
  fun s n ks =>
    let r := ul s.2.2 n ks
    ((if r.2.2 then s.1 ++ [s.2.1.getD n.toNat 0] else s.1, s.2.1, r.1), r.2.1)

/-- the model's `_leave` wrapper (`Sub.cutLeave`) for a STATEFUL user callback -/
def cutLeaveS (ul : σ → Int → List K → σ × (K × Bool)) : (List Int × σ) → Int → List K → (List Int × σ) × K :=
  fun s n ks =>
    let r := ul s.2 n ks
    ((if r.2.2 then s.1 ++ [n] else s.1, r.1), r.2.1)

theorem cutLeave_closure (ul : σ → Int → List K → σ × (K × Bool)) (s : List Int × List Int × σ) (n : Int) (ks : List K)
    (hn : 0 ≤ n ∧ n.toNat < s.2.1.length) :
    cut_leave ul s n ks = some (cutLeaveL ul s n ks) := by
  have e : n = ((n.toNat : Nat) : Int) := by omega
  have h0 : Py.idx s.2.1 n = some (s.2.1.getD n.toNat 0) := by
    have h1 : Py.idx s.2.1 ((n.toNat : Nat) : Int) = s.2.1[n.toNat]? := Py.idx_nat _ _ hn.2
    rw [← e] at h1
    rw [h1]; simp [List.getD, hn.2]
  cases hr : (ul s.2.2 n ks).2.2 with
  | true => simp [cut_leave, cut_leave.body, Py.seq, Py.bind, h0, Py.finish, cutLeaveL, hr]
  | false => simp [cut_leave, cut_leave.body, Py.seq, Py.bind, Py.finish, cutLeaveL, Py.skip, hr]

theorem cutLeaveL_step (ul : σ → Int → List K → σ × (K × Bool)) (n : Nat) (s : List Int × List Int × σ) (j : Int) (ks : List K)
    (hP : CutInv n s) (hj : 0 ≤ j ∧ j.toNat < n) :
    cutLeaveS ul (s.1, s.2.2) j ks = (((cutLeaveL ul s j ks).1.1, (cutLeaveL ul s j ks).1.2.2), (cutLeaveL ul s j ks).2) ∧
      CutInv n (cutLeaveL ul s j ks).1 := by
  have hg : s.2.1[j.toNat]?.getD 0 = j := by
    have := rangeI_getD n j hj
    rw [List.getD_eq_getElem?_getD] at this
    rw [hP.1]; exact this
  have hmem : ∀ i ∈ s.1 ++ [j], 0 ≤ i ∧ i.toNat < n := by
    intro i hi
    rcases List.mem_append.1 hi with hi | hi
    · exact hP.2 i hi
    · simp only [List.mem_singleton] at hi; subst hi; exact hj
  cases hr : (ul s.2.2 j ks).2.2 with
  | true => exact ⟨by simp [cutLeaveS, cutLeaveL, hg, hr], hP.1, by simpa [cutLeaveL, hg, hr] using hmem⟩
  | false => exact ⟨by simp [cutLeaveS, cutLeaveL, hr], hP.1, by simpa [cutLeaveL, hr] using hP.2⟩

/-- **`cut_tree(tree, leave=…)` as translated, for EVERY user callback** (an arbitrary stateful function `ul` with state `s0` before the call):
the generated closure `_leave`, run by the generated traversal, collects the removal list of the model's wrapper (`cutLeaveS` = `Sub.cutLeave`
with the callback's state threaded through) and leaves the callback in the model's final state; the generated `to_subtree` returns the model's
table for that list.  Nothing raises; fuel `2·|tree| + 1` suffices. -/
theorem cutTreeLeave_refines (pids : List Int) (r : Rose) (h : IsTree r pids) (ul : σ → Int → List K → σ × (K × Bool)) (s0 : σ) (F : Nat) :
    cut_tree_leave ul (2 * r.size + F + 1) (rangeI pids.length) pids s0 =
      (toSubtree pids (spec Sub.noEnter (cutLeaveS ul) r none ([], s0)).1.1).map
        (fun t => ((spec Sub.noEnter (cutLeaveS ul) r none ([], s0)).1.2, ((Py.range (t.mapping.length : Int), t.newPid), t.mapping))) := by
  have hin : ∀ j ∈ r.ids, 0 ≤ j ∧ j.toNat < pids.length := fun j hj => (isTree_mem h j).1 hj
  have hP0 : CutInv pids.length (([] : List Int), rangeI pids.length, s0) := ⟨rfl, by simp⟩
  have hcall := RefineClosures.traverse_closures_on (S := List Int × List Int × σ) (T := Unit) (K := K)
    (CutInv pids.length) (fun j => 0 ≤ j ∧ j.toNat < pids.length)
    Py.noEnter (cut_leave ul) Sub.noEnter (cutLeaveL ul)
    (fun s n pv hp _ => ⟨rfl, hp⟩)
    (fun s n ks hp hn => ⟨cutLeave_closure ul s n ks (by rw [hp.1]; simpa [rangeI] using hn), (cutLeaveL_step ul _ s n ks hp hn).2⟩)
    (rangeI pids.length) pids r h.1 ([], rangeI pids.length, s0) hP0 hin F
  obtain ⟨e2, p2⟩ := RefineClosures.spec_abs (S := List Int × List Int × σ) (S' := List Int × σ) (T := Unit) (K := K)
    (fun s => (s.1, s.2.2)) (CutInv pids.length) (fun j => 0 ≤ j ∧ j.toNat < pids.length)
    Sub.noEnter (cutLeaveL ul) Sub.noEnter (cutLeaveS ul)
    (fun s n pv hp _ => ⟨rfl, hp⟩)
    (fun s n ks hp hn => cutLeaveL_step ul _ s n ks hp hn)
    r none ([], rangeI pids.length, s0) hP0 hin
  rw [h.2.2.1] at hcall
  simp only at e2
  rw [e2]
  generalize spec Sub.noEnter (cutLeaveL ul) r none ([], rangeI pids.length, s0) = res at hcall p2
  have hsub := toSubtree_refines pids r h res.1.1 p2.2 F
  simp only [cut_tree_leave, cut_tree_leave.body, Py.seq, Py.bind, hcall, p2.1, hsub]
  cases toSubtree pids res.1.1 <;> simp [Py.finish]

theorem cutLeaveS_pure (ul : Int → List K → K × Bool) (s0 : σ) (r : Rose) (pv : Option Unit) (rem : List Int) :
    spec Sub.noEnter (cutLeaveS (fun (s : σ) n ks => (s, ul n ks))) r pv (rem, s0) =
      (((spec Sub.noEnter (cutLeave ul) r pv rem).1, s0), (spec Sub.noEnter (cutLeave ul) r pv rem).2) := by
  obtain ⟨e, p⟩ := RefineClosures.spec_abs (S := List Int × σ) (S' := List Int) (T := Unit) (K := K)
    (fun s => s.1) (fun s => s.2 = s0) (fun _ => True)
    Sub.noEnter (cutLeaveS (fun (s : σ) n ks => (s, ul n ks))) Sub.noEnter (cutLeave ul)
    (fun s n pv hp _ => ⟨rfl, hp⟩)
    (fun s n ks hp _ => ⟨by simp [cutLeaveS, cutLeave], by simpa [cutLeaveS] using hp⟩)
    r pv (rem, s0) rfl (fun _ _ => trivial)
  simp only at e p
  rw [e]
  exact Prod.ext (Prod.ext rfl p) rfl

/-- **`cut_tree(tree, leave=…)` as translated = the model `Sub.cutTreeLeave`** -/
theorem cutTreeLeave_refines_model (pids : List Int) (r : Rose) (h : IsTree r pids) (ul : Int → List K → K × Bool) (s0 : σ) (F : Nat) :
    cut_tree_leave (fun (s : σ) n ks => (s, ul n ks)) (2 * r.size + F + 1) (rangeI pids.length) pids s0 =
      (cutTreeLeave pids ul).map (fun t => (s0, ((Py.range (t.mapping.length : Int), t.newPid), t.mapping))) := by
  rw [cutTreeLeave_refines pids r h _ s0 F, cutLeaveS_pure]
  unfold cutTreeLeave
  simp only
  rw [run_tree h]

end leave

/-! ## `CutByFurcationOrder._enter` : the callback `CutByFurcationOrder.__call__` hands to `cut_tree` -/

theorem countNonzero_eqMask (pids : List Int) (x : Int) : countNonzero (eqMask pids x) = ((pids.filter (· = x)).length : Int) := by
  simp only [countNonzero, eqMask]
  congr 1
  induction pids with
  | nil => rfl
  | cons p ps ih =>
    by_cases hp : p = x
    · simp [List.filter_cons, hp, ih]
    · simp [List.filter_cons, hp, ih]

theorem isFurcation_generated (pids : List Int) (j : Int) (hj : 0 ≤ j ∧ j.toNat < pids.length) :
    node_is_furcation (rangeI pids.length) pids j = some (isFurcation pids j) := by
  have e : j = ((j.toNat : Nat) : Int) := by omega
  have h0 : Py.idx (rangeI pids.length) j = some j := by
    have h1 : Py.idx (rangeI pids.length) ((j.toNat : Nat) : Int) = (rangeI pids.length)[j.toNat]? :=
      Py.idx_nat _ _ (by simpa [rangeI] using hj.2)
    rw [← e, rangeI_getElem? _ _ hj.2, ← e] at h1
    exact h1
  simp only [node_is_furcation, node_is_furcation.body, Py.bind, h0, Py.finish, Option.map, countNonzero_eqMask, isFurcation]
  congr 1
  simp only [gt_iff_lt, decide_eq_decide]
  omega

/-- **`CutByFurcationOrder._enter` as translated IS the model's callback `Sub.orderEnter`** on every node of a tree object (it raises nothing) -/
theorem orderEnter_refines (pids : List Int) (m j : Int) (pl : Option Int) (hj : 0 ≤ j ∧ j.toNat < pids.length) :
    order_enter (rangeI pids.length) pids m j pl = some (orderEnter pids m j pl) := by
  cases pl with
  | none => simp [order_enter, order_enter.body, Py.seq, Py.finish, orderEnter]
  | some l =>
    cases hf : isFurcation pids j with
    | true => simp [order_enter, order_enter.body, Py.seq, Py.bind, Py.finish, orderEnter, isFurcation_generated pids j hj, hf]
    | false => simp [order_enter, order_enter.body, Py.seq, Py.bind, Py.finish, orderEnter, isFurcation_generated pids j hj, hf]

/-- `CutByFurcationOrder(m).__call__` = `cut_tree(x, enter=self._enter)`: the generated `_enter` as the user callback of the generated `cut_tree`
(callback state: "has not raised") -/
def orderCallback (pids : List Int) (m : Int) : Bool → Int → Option Int → Bool × (Int × Bool) :=
  fun ok n pv => match order_enter (rangeI pids.length) pids m n pv with
    | some r => (ok, r)
    | none => (false, default)

/-- **the translated `CutByFurcationOrder` pipeline equals the model `Sub.cutByOrder`** on every tree table: the generated `cut_tree` run with the
generated `_enter` never raises and returns the model's table -/
theorem cutByOrder_refines (pids : List Int) (r : Rose) (h : IsTree r pids) (m : Int) (F : Nat) :
    cut_tree_enter (orderCallback pids m) (2 * r.size + F + 1) (rangeI pids.length) pids true =
      (cutByOrder pids m).map (fun t => (true, ((Py.range (t.mapping.length : Int), t.newPid), t.mapping))) := by
  have hin : ∀ j ∈ r.ids, 0 ≤ j ∧ j.toNat < pids.length := fun j hj => (isTree_mem h j).1 hj
  rw [cutTreeEnter_refines pids r h _ true F]
  -- on the nodes of the tree the generated callback is the model's, lifted to a callback that ignores its state
  obtain ⟨e, _⟩ := RefineClosures.spec_abs (S := List Int × Bool) (S' := List Int × Bool) (T := Int × Bool) (K := Unit)
    (fun s => s) (fun _ => True) (fun j => 0 ≤ j ∧ j.toNat < pids.length)
    (cutEnterS (orderCallback pids m)) Sub.noLeave (cutEnterS (fun (s : Bool) n pv => (s, orderEnter pids m n pv))) Sub.noLeave
    (fun s n pv _ hn => by
      refine ⟨?_, trivial⟩
      match pv with
      | some (p, true) => simp [cutEnterS]
      | some (p, false) => simp [cutEnterS, orderCallback, orderEnter_refines pids m n _ hn]
      | none => simp [cutEnterS, orderCallback, orderEnter_refines pids m n _ hn])
    (fun s n ks _ _ => ⟨rfl, trivial⟩) r none ([], true) trivial hin
  have e' : spec (cutEnterS (orderCallback pids m)) Sub.noLeave r none ([], true) =
      spec (cutEnterS (fun (s : Bool) n pv => (s, orderEnter pids m n pv))) Sub.noLeave r none ([], true) := by
    rw [e]
  rw [e', cutEnterS_pure]
  unfold cutByOrder cutTreeEnter
  simp only
  rw [run_tree h]

/-! ## `CutByType.__call__` : the `leave` closure over the `removals` SET -/

theorem mem_select {α : Type} (a : List α) (m : List Bool) (x : α) :
    x ∈ select a m ↔ ∃ k : Nat, a[k]? = some x ∧ m[k]? = some true := by
  simp only [select, List.mem_filterMap]
  constructor
  · rintro ⟨p, hp, hf⟩
    obtain ⟨k, hk⟩ := List.mem_iff_getElem?.1 hp
    rw [List.getElem?_zip_eq_some] at hk
    by_cases h2 : p.2 = true
    · simp only [h2, if_true, Option.some.injEq] at hf
      exact ⟨k, by rw [hk.1, hf], by rw [hk.2, h2]⟩
    · simp [h2] at hf
  · rintro ⟨k, h1, h2⟩
    refine ⟨(x, true), List.mem_iff_getElem?.2 ⟨k, ?_⟩, by simp⟩
    rw [List.getElem?_zip_eq_some]
    exact ⟨h1, h2⟩

theorem mem_foldl_add (l : List Int) : ∀ (acc : List Int) (x : Int), x ∈ l.foldl Py.Set.add acc ↔ x ∈ acc ∨ x ∈ l := by
  induction l with
  | nil => intro acc x; simp
  | cons a l ih =>
    intro acc x
    simp only [List.foldl_cons, ih, Py.Set.add]
    by_cases ha : acc.contains a = true
    · have ha' : a ∈ acc := by simpa using ha
      simp only [ha, if_true, List.mem_cons]
      constructor
      · rintro (h | h)
        · exact Or.inl h
        · exact Or.inr (Or.inr h)
      · rintro (h | h | h)
        · exact Or.inl h
        · exact Or.inl (h ▸ ha')
        · exact Or.inr h
    · simp only [ha, Bool.false_eq_true, if_false, List.mem_append, List.mem_cons, List.not_mem_nil, or_false]
      constructor
      · rintro ((h | h) | h)
        · exact Or.inl h
        · exact Or.inr (Or.inl h)
        · exact Or.inr (Or.inr h)
      · rintro (h | h | h)
        · exact Or.inl (Or.inl h)
        · exact Or.inl (Or.inr h)
        · exact Or.inr h

theorem mem_ofList (l : List Int) (x : Int) : x ∈ Py.Set.ofList l ↔ x ∈ l := by
  simp [Py.Set.ofList, mem_foldl_add]

/-- what the translated closure `leave` computes on a node of the table: its state is (the `removals` set, the id column) -/
def typeLeaveL (s : List Int × List Int) (n : Int) (kc : List Bool) : (List Int × List Int) × Bool :=
  let i := s.2.getD n.toNat 0
  let rem' := if s.1.contains i && kc.any id then s.1.filter (fun y => y ≠ i) else s.1
  ((rem', s.2), !rem'.contains i)

theorem typeLeave_closure (s : List Int × List Int) (n : Int) (kc : List Bool) (hn : 0 ≤ n ∧ n.toNat < s.2.length) :
    type_leave s n kc = some (typeLeaveL s n kc) := by
  have e : n = ((n.toNat : Nat) : Int) := by omega
  have h0 : Py.idx s.2 n = some (s.2[n.toNat]?.getD 0) := by
    have h1 : Py.idx s.2 ((n.toNat : Nat) : Int) = s.2[n.toNat]? := Py.idx_nat _ _ hn.2
    rw [← e] at h1
    rw [h1]; simp [hn.2]
  by_cases hc : s.2[n.toNat]?.getD 0 ∈ s.1
  · by_cases ha : true ∈ kc
    · simp [type_leave, type_leave.body, Py.seq, Py.bind, h0, Py.finish, typeLeaveL, Py.skip, hc, ha, Py.any, Py.Set.remove]
    · simp [type_leave, type_leave.body, Py.seq, Py.bind, h0, Py.finish, typeLeaveL, Py.skip, hc, ha, Py.any, Py.Set.remove]
  · simp [type_leave, type_leave.body, Py.seq, Py.bind, h0, Py.finish, typeLeaveL, Py.skip, hc, Py.any, Py.Set.remove]

/-- a set of node ids ↦ the model's membership function -/
def absSet (l : List Int) : Int → Bool := fun i => l.contains i

/-- invariant of the closure state: the id column is that of a `Tree` object, the members of `removals` are node ids -/
def TypeInv (n : Nat) (s : List Int × List Int) : Prop := s.2 = rangeI n ∧ ∀ i ∈ s.1, 0 ≤ i ∧ i.toNat < n

theorem typeLeaveL_step (n : Nat) (s : List Int × List Int) (j : Int) (kc : List Bool) (hP : TypeInv n s) (hj : 0 ≤ j ∧ j.toNat < n) :
    typeLeave (absSet s.1) j kc = (absSet (typeLeaveL s j kc).1.1, (typeLeaveL s j kc).2) ∧ TypeInv n (typeLeaveL s j kc).1 := by
  have hg : s.2[j.toNat]?.getD 0 = j := by
    have := rangeI_getD n j hj
    rw [List.getD_eq_getElem?_getD] at this
    rw [hP.1]; exact this
  by_cases hc : j ∈ s.1
  · by_cases ha : true ∈ kc
    · refine ⟨?_, hP.1, ?_⟩
      · have hf : absSet (s.1.filter (fun y => y ≠ j)) = upd (absSet s.1) j false := by
          funext x
          by_cases hx : x = j
          · simp [absSet, upd, hx]
          · simp [absSet, upd, hx]
        simp only [typeLeave, typeLeaveL, List.getD_eq_getElem?_getD, hg]
        have h1 : absSet s.1 j = true := by simpa [absSet] using hc
        have h2 : kc.any id = true := by simpa using ha
        have h3 : s.1.contains j = true := by simpa using hc
        simp only [h1, h2, h3, Bool.and_self, if_true, hf]
        simp [absSet, upd]
      · intro i hi
        simp only [typeLeaveL, List.getD_eq_getElem?_getD, hg] at hi
        have h3 : s.1.contains j = true := by simpa using hc
        have h2 : kc.any id = true := by simpa using ha
        simp only [h3, h2, Bool.and_self, if_true] at hi
        exact hP.2 i (List.mem_filter.1 hi).1
    · have h2 : kc.any id = false := by simpa using ha
      refine ⟨?_, hP.1, ?_⟩
      · simp only [typeLeave, typeLeaveL, List.getD_eq_getElem?_getD, hg, h2, Bool.and_false, Bool.false_eq_true, if_false]
        try simp [absSet]
      · simpa [typeLeaveL, ha] using hP.2
  · have h3 : s.1.contains j = false := by simpa using hc
    have h1 : absSet s.1 j = false := by simpa [absSet] using hc
    refine ⟨?_, hP.1, ?_⟩
    · simp only [typeLeave, typeLeaveL, List.getD_eq_getElem?_getD, hg, h1, h3, Bool.false_and, Bool.false_eq_true, if_false]
      try simp [absSet, h3]
    · simpa [typeLeaveL, List.getD_eq_getElem?_getD, hg, hc] using hP.2

theorem toSubtree_congr (pids : List Int) (a b : List Int) (hab : ∀ i, a.contains i = b.contains i) : toSubtree pids a = toSubtree pids b := by
  unfold toSubtree
  have : (fun i => a.contains i) = (fun i => b.contains i) := funext hab
  simp only [this]

/-- **`CutByType.__call__` as translated IS the model `Sub.cutByType`**: on every tree table with a type column of the same length, the set
`set(x.id()[x.type() != self.type])`, the generated closure `leave` (which takes a node out of the set when one of its children is kept) run
by the generated traversal, and the generated `to_subtree` return the model's table — `C06.cutByType_kept` characterises it.  Nothing raises
(in particular `removals.remove` never meets an absent element); fuel `2·|tree| + 1` suffices. -/
theorem cutByType_refines (pids types : List Int) (ty : Int) (r : Rose) (h : IsTree r pids) (hl : types.length = pids.length) (F : Nat) :
    cut_by_type (2 * r.size + F + 1) (rangeI pids.length) pids types ty =
      (cutByType pids types ty).map (fun t => ((Py.range (t.mapping.length : Int), t.newPid), t.mapping)) := by
  have hin : ∀ j ∈ r.ids, 0 ≤ j ∧ j.toNat < pids.length := fun j hj => (isTree_mem h j).1 hj
  -- the initial set
  have hmem0 : ∀ i, i ∈ Py.Set.ofList (select (rangeI pids.length) (neMask types ty)) ↔
      (0 ≤ i ∧ i.toNat < pids.length) ∧ types.getD i.toNat 0 ≠ ty := by
    intro i
    rw [mem_ofList, mem_select]
    constructor
    · rintro ⟨k, h1, h2⟩
      have hk : k < pids.length := by
        by_cases hk : k < pids.length
        · exact hk
        · have : (rangeI pids.length)[k]? = none := by simp [rangeI]; omega
          rw [this] at h1; exact absurd h1 (by simp)
      rw [rangeI_getElem? _ _ hk] at h1
      simp only [Option.some.injEq] at h1
      subst h1
      simp only [neMask, List.getElem?_map] at h2
      have hk2 : k < types.length := by omega
      rw [List.getElem?_eq_getElem hk2] at h2
      simp only [Option.map_some, Option.some.injEq, decide_eq_true_eq] at h2
      refine ⟨⟨by omega, by simpa using hk⟩, ?_⟩
      simp only [Int.toNat_natCast, List.getD_eq_getElem?_getD, List.getElem?_eq_getElem hk2, Option.getD_some]
      exact h2
    · rintro ⟨⟨h0, h1⟩, h2⟩
      refine ⟨i.toNat, ?_, ?_⟩
      · rw [rangeI_getElem? _ _ h1]; simp; omega
      · have hk2 : i.toNat < types.length := by omega
        simp only [List.getD_eq_getElem?_getD, List.getElem?_eq_getElem hk2, Option.getD_some] at h2
        simp only [neMask, List.getElem?_map, List.getElem?_eq_getElem hk2, Option.map_some, Option.some.injEq, decide_eq_true_eq]
        exact h2
  generalize hrem0 : Py.Set.ofList (select (rangeI pids.length) (neMask types ty)) = rem0 at hmem0
  have hP0 : TypeInv pids.length (rem0, rangeI pids.length) := ⟨rfl, fun i hi => ((hmem0 i).1 hi).1⟩
  have habs0 : absSet rem0 =
      fun i => decide (0 ≤ i) && decide (i.toNat < pids.length) && (types.getD i.toNat 0 != ty) := by
    funext i
    by_cases hi : i ∈ rem0
    · have := (hmem0 i).1 hi
      have h2 := this.2
      rw [List.getD_eq_getElem?_getD] at h2
      simp [absSet, hi, this.1.1, this.1.2, h2]
    · have hn : ¬ ((0 ≤ i ∧ i.toNat < pids.length) ∧ types.getD i.toNat 0 ≠ ty) := fun c => hi ((hmem0 i).2 c)
      simp only [absSet, List.contains_eq_mem, hi, decide_false]
      symm
      by_cases h0 : 0 ≤ i
      · by_cases h1 : i.toNat < pids.length
        · have : types.getD i.toNat 0 = ty := by
            by_cases c : types.getD i.toNat 0 = ty
            · exact c
            · exact absurd ⟨⟨h0, h1⟩, c⟩ hn
          rw [List.getD_eq_getElem?_getD] at this
          simp [this]
        · simp [h1]
      · simp [h0]
  have hcall := RefineClosures.traverse_closures_on (S := List Int × List Int) (T := Unit) (K := Bool)
    (TypeInv pids.length) (fun j => 0 ≤ j ∧ j.toNat < pids.length)
    Py.noEnter type_leave Sub.noEnter typeLeaveL
    (fun s n pv hp _ => ⟨rfl, hp⟩)
    (fun s n ks hp hn => ⟨typeLeave_closure s n ks (by rw [hp.1]; simpa [rangeI] using hn), (typeLeaveL_step _ s n ks hp hn).2⟩)
    (rangeI pids.length) pids r h.1 (rem0, rangeI pids.length) hP0 hin F
  obtain ⟨e2, p2⟩ := RefineClosures.spec_abs (S := List Int × List Int) (S' := Int → Bool) (T := Unit) (K := Bool)
    (fun s => absSet s.1) (TypeInv pids.length) (fun j => 0 ≤ j ∧ j.toNat < pids.length)
    Sub.noEnter typeLeaveL Sub.noEnter typeLeave
    (fun s n pv hp _ => ⟨rfl, hp⟩)
    (fun s n ks hp hn => typeLeaveL_step _ s n ks hp hn)
    r none (rem0, rangeI pids.length) hP0 hin
  rw [h.2.2.1] at hcall
  simp only at e2
  -- the model
  have hmodel : cutByType pids types ty =
      toSubtree pids ((rangeI pids.length).filter (absSet (spec Sub.noEnter typeLeaveL r none (rem0, rangeI pids.length)).1.1)) := by
    unfold cutByType
    simp only
    rw [run_tree h, ← habs0, e2]
  generalize spec Sub.noEnter typeLeaveL r none (rem0, rangeI pids.length) = res at hcall p2 hmodel
  have hcongr : toSubtree pids ((rangeI pids.length).filter (absSet res.1.1)) = toSubtree pids res.1.1 := by
    apply toSubtree_congr
    intro i
    by_cases hi : i ∈ res.1.1
    · have := (mem_rangeI pids.length i).2 (p2.2 i hi)
      simp [absSet, hi, this]
    · simp [absSet, hi]
  have hsub := toSubtree_refines pids r h res.1.1 p2.2 F
  rw [hmodel, hcongr]
  simp only [cut_by_type, cut_by_type.body, Py.seq, Py.bind, hrem0, hcall, p2.1, hsub]
  cases toSubtree pids res.1.1 <;> simp [Py.finish]

end RefineCut
