import SwcVerif.Gen.AlgoCut
import SwcVerif.Props.C06Gen
/-! Refinement for C06 (T1 `cut`): the definitions GENERATED from `swcgeom/core/tree_utils.py::to_subtree` and `cut_tree`
(both overloads, with the closures `_enter` / `_leave` that call the USER's callback) equal the models `Sub.toSubtree`,
`Sub.cutTreeEnter`, `Sub.cutTreeLeave` on every tree table. -/
namespace RefineCut
open Gen.Algo Sub Py Trav C06

/-! ## `to_subtree` -/

/-- `for i in removals: new_ids[i] = REMOVAL` as a function on the id column (`none` = IndexError) -/
def markAll : List Int → List Int → Option (List Int)
  | l, [] => some l
  | l, i :: is => (setIdx l i (-2)).bind (fun l' => markAll l' is)

theorem for1_loop : ∀ (rm : List Int) (v : to_subtree.V),
    (match markAll v.new_ids rm with
     | some l => ∃ i', forEach to_subtree.for1 rm v = .next { v with new_ids := l, i := i' }
     | none => forEach to_subtree.for1 rm v = .err) := by
  intro rm
  induction rm with
  | nil => intro v; exact ⟨v.i, by simp [forEach]⟩
  | cons i is ih =>
    intro v
    simp only [markAll]
    cases hs : setIdx v.new_ids i (-2) with
    | none => simp [forEach, to_subtree.for1, Py.bind, hs]
    | some l' =>
      have := ih { v with i := i, new_ids := l' }
      simp only [Option.bind_some]
      cases hm : markAll l' is with
      | none =>
        simp only [hm] at this
        simp only [forEach, to_subtree.for1, Py.bind, hs]
        exact this
      | some l'' =>
        simp only [hm] at this
        obtain ⟨i', e⟩ := this
        refine ⟨i', ?_⟩
        simp only [forEach, to_subtree.for1, Py.bind, hs]
        rw [e]

/-- marking node ids (all inside the table) succeeds and writes `REMOVAL` at exactly those rows -/
theorem markAll_inrange (n : Nat) : ∀ (rm : List Int) (l : List Int), l.length = n → (∀ i ∈ rm, 0 ≤ i ∧ i.toNat < n) →
    ∃ l', markAll l rm = some l' ∧ l'.length = n ∧
      ∀ k : Nat, k < n → l'[k]? = if rm.contains (k : Int) then some (-2) else l[k]? := by
  intro rm
  induction rm with
  | nil => intro l hl _; exact ⟨l, rfl, hl, fun k _ => by simp⟩
  | cons i is ih =>
    intro l hl hin
    have hi := hin i List.mem_cons_self
    have e : i = ((i.toNat : Nat) : Int) := by omega
    have hs : setIdx l i (-2) = some (l.set i.toNat (-2)) := by
      have h1 := setIdx_nat l i.toNat (-2) (by omega)
      rw [← e] at h1
      exact h1
    obtain ⟨l', h1, h2, h3⟩ := ih (l.set i.toNat (-2)) (by simp [hl]) (fun j hj => hin j (List.mem_cons_of_mem _ hj))
    refine ⟨l', by simp [markAll, hs, h1], h2, ?_⟩
    intro k hk
    rw [h3 k hk]
    by_cases hki : (k : Int) = i
    · have : i.toNat = k := by omega
      simp [hki, this, hl, hk]
    · have hne : i.toNat ≠ k := by omega
      have hik : ¬ i = (k : Int) := fun c => hki c.symm
      simp [List.getElem?_set_ne hne, hki]

theorem rangeI_getElem? (n k : Nat) (hk : k < n) : (rangeI n)[k]? = some (k : Int) := by
  simp [rangeI, hk]

/-- **`to_subtree` as translated IS the model `Sub.toSubtree`**: on every tree table (a `Tree` object: ids = positions, root 0) and every
list of node ids to remove, the generated loop writing `REMOVAL` into a copy of the id column, the generated `propagate_removal` and the
generated `to_sub_topology` (through `to_subtree_impl`) return the new parents and the new→old mapping of the model — which
`C06.toSubtree_kept` characterises as exactly the nodes neither removed nor below a removed node.  Fuel: `2·|tree| + 1` suffices. -/
theorem toSubtree_refines (pids : List Int) (r : Rose) (h : IsTree r pids) (rm : List Int)
    (hrm : ∀ i ∈ rm, 0 ≤ i ∧ i.toNat < pids.length) (F : Nat) :
    to_subtree (2 * r.size + F + 1) (rangeI pids.length) pids rm =
      (toSubtree pids rm).map (fun s => ((Py.range (s.mapping.length : Int), s.newPid), s.mapping)) := by
  obtain ⟨l1, hm1, hlen1, hget1⟩ := markAll_inrange pids.length rm (rangeI pids.length) (by simp [rangeI]) hrm
  -- the marks written by the loop are the model's initial marking
  have habs1 : absMark l1 = fun i => rm.contains i := by
    funext j
    simp only [absMark]
    by_cases hj : 0 ≤ j
    · by_cases hjn : j.toNat < pids.length
      · have e : j = ((j.toNat : Nat) : Int) := by omega
        have := hget1 j.toNat hjn
        rw [← e, rangeI_getElem? _ _ hjn, ← e] at this
        rw [List.getD_eq_getElem?_getD, this]
        by_cases hc : j ∈ rm
        · simp [hc, hj]
        · have hne : ¬ j = -2 := by omega
          simp [hc, hj, hne]
      · have hnone : l1[j.toNat]? = none := by simp [hlen1]; omega
        have hc : ¬ j ∈ rm := fun hcc => absurd (hrm j hcc).2 hjn
        rw [List.getD_eq_getElem?_getD, hnone]
        simp [hc]
    · have hc : ¬ j ∈ rm := fun hcc => absurd (hrm j hcc).1 hj
      simp [hj, hc]
  obtain ⟨l2, hp2, hlen2, habs2, hget2⟩ := generated_propagateRemoval pids r h l1 hlen1 F
  rw [habs1] at habs2
  -- the propagated id column is the model's marked column
  have hl2 : l2 = (rangeI pids.length).map (fun i => if propagateRemoval pids (fun i => rm.contains i) i then REMOVAL else i) := by
    apply List.ext_getElem?
    intro k
    by_cases hk : k < pids.length
    · have hk2 : k < l2.length := by omega
      have hm := habs2 (k : Int)
      simp only [absMark, Int.toNat_natCast, List.getD_eq_getElem?_getD, List.getElem?_eq_getElem hk2, Option.getD_some] at hm
      have h0 : (0 : Int) ≤ (k : Int) := by omega
      simp only [h0, decide_true, Bool.true_and] at hm
      have hr : ((rangeI pids.length).map (fun i => if propagateRemoval pids (fun i => rm.contains i) i then REMOVAL else i))[k]? =
          some (if propagateRemoval pids (fun i => rm.contains i) (k : Int) then REMOVAL else (k : Int)) := by
        rw [List.getElem?_map, rangeI_getElem? _ _ hk]; rfl
      rw [hr, List.getElem?_eq_getElem hk2]
      cases hM : propagateRemoval pids (fun i => rm.contains i) (k : Int) with
      | true =>
        rw [hM] at hm
        simp only [decide_eq_true_eq] at hm
        simp [hm, RefineSub.removal_eq]
      | false =>
        rw [hM] at hm
        simp only [decide_eq_false_iff_not] at hm
        have h4 := hget2 k
        rw [List.getElem?_eq_getElem hk2, hget1 k hk, rangeI_getElem? _ _ hk] at h4
        rcases h4 with h4 | h4
        · by_cases hc : rm.contains (k : Int) = true
          · simp only [hc, if_true, Option.some.injEq] at h4
            exact absurd h4 hm
          · simp only [hc, Bool.false_eq_true, if_false, Option.some.injEq] at h4
            simp [h4]
        · simp only [Option.some.injEq] at h4
          exact absurd h4 hm
    · have h1 : l2[k]? = none := by simp; omega
      rw [h1]
      symm
      simp only [List.getElem?_eq_none_iff, List.length_map, rangeI, List.length_range]
      omega
  -- the compaction
  have hnoR : ∀ i ∈ rangeI pids.length, i ≠ REMOVAL := by
    intro i hi
    have := ((mem_rangeI _ _).1 hi).1
    simp only [REMOVAL, Gen.Consts.removalMarker]; omega
  have hnd : (((List.zip l2 pids).filter (fun ip => !decide (ip.1 = -2))).map (·.1)).Nodup := by
    have e1 := zip_filter_fst (fun x => !decide (x = -2)) l2 pids (by omega)
    rw [e1, hl2]
    simp only [RefineSub.removal_eq]
    have e2 := filter_marked (propagateRemoval pids (fun i => rm.contains i)) (rangeI pids.length) hnoR
    simp only [RefineSub.removal_eq, ne_eq, decide_not] at e2
    rw [e2]
    apply List.Nodup.sublist List.filter_sublist
    exact h.2.1.nodup_iff.1 h.1.2
  have hsub := RefineSub.toSubTopology_refines l2 pids (by omega) hnd
  have hmodel : toSubtree pids rm = toSubTopology l2 pids := by
    rw [hl2]; rfl
  rw [hmodel, ← hsub]
  have hfor := for1_loop rm { (default : to_subtree.V) with tids := rangeI pids.length, tpids := pids, removals := rm, new_ids := rangeI pids.length }
  simp only [hm1] at hfor
  obtain ⟨i', hfor⟩ := hfor
  simp only [to_subtree, to_subtree.body, Py.seq, hfor, Py.bind, hp2]
  cases to_sub_topology (l2, pids) <;> simp [Py.finish]

end RefineCut
