import SwcVerif.Gen.AlgoVolume
import SwcVerif.Refine.TravFront
import SwcVerif.Props.C14
/-! Refinement for C14: the definition GENERATED (on this run) from `swcgeom/analysis/volume.py::_get_volume_frustum_cone` — the `leave` closure
with its list of child results, the cones built from them, the accuracy gating `if accuracy >= …`, the accumulation into the non-local
`volume`, handed to the GENERATED `Tree.traverse` (closure factory `wrap`, `Tree.__getitem__`) above the generated `_traverse_dfs` — returns
`Vol.treeVolume`, the hand-written traversal model of `Model/Volume.lean`, for every tree and every accuracy level other than 10 (Monte Carlo
only); the primitive volumes are arbitrary functions of the node data. -/
namespace RefineVolume
open Gen.Algo Trav Py Vol C14 RefineTravFront

variable (volSphere : Int → ℝ) (volFrustum : Int × Int → ℝ) (volSF : Int → Int × Int → ℝ) (volPairs : Int → List (Int × Int) → ℝ) (mcScene : List Py.Shape → ℝ)

/-- the per-node ingredients of the model, from the primitive volumes: node `i` with the children `ks` (their spheres are what `leave` returned) -/
noncomputable def terms : Int → List Int → Terms ℝ := fun i ks =>
  { s := volSphere i
    f := Py.sumNum (ks.map fun c => volFrustum (i, c))
    p := Py.sumNum (ks.map fun c => volSF i (i, c))
    c := Py.sumNum (ks.map fun c => volSF c (i, c))
    l := 0
    q := volPairs i (ks.map fun c => (i, c)) }

/-! ### the four comprehension loops of `leave` -/

theorem for1_loop : ∀ (cs : List Int) (v : vol_leave.V ℝ),
    forEach (vol_leave.for1 volSphere volFrustum volSF volPairs mcScene) cs v
      = .next { v with c0_ := v.c0_ ++ cs.map (fun c => (v.n, c)), c := cs.getLast?.getD v.c } := by
  intro cs
  induction cs with
  | nil => intro v; simp [forEach]
  | cons c cs ih =>
    intro v
    simp only [forEach, vol_leave.for1]
    rw [ih]
    simp [List.getLast?_cons]

theorem for2_loop : ∀ (cs : List (Int × Int)) (v : vol_leave.V ℝ),
    forEach (vol_leave.for2 volSphere volFrustum volSF volPairs mcScene) cs v
      = .next { v with c2_ := v.c2_ ++ cs.map volFrustum, fc := cs.getLast?.getD v.fc } := by
  intro cs
  induction cs with
  | nil => intro v; simp [forEach]
  | cons c cs ih =>
    intro v
    simp only [forEach, vol_leave.for2]
    rw [ih]
    simp [List.getLast?_cons]

theorem for3_loop : ∀ (cs : List (Int × Int)) (v : vol_leave.V ℝ),
    forEach (vol_leave.for3 volSphere volFrustum volSF volPairs mcScene) cs v
      = .next { v with c4_ := v.c4_ ++ cs.map (volSF v.sphere), fc := cs.getLast?.getD v.fc } := by
  intro cs
  induction cs with
  | nil => intro v; simp [forEach]
  | cons c cs ih =>
    intro v
    simp only [forEach, vol_leave.for3]
    rw [ih]
    simp [List.getLast?_cons]

theorem for4_loop : ∀ (cs : List (Int × (Int × Int))) (v : vol_leave.V ℝ),
    forEach (vol_leave.for4 volSphere volFrustum volSF volPairs mcScene) cs v
      = .next { v with c6_ := v.c6_ ++ cs.map (fun x => volSF x.1 x.2), s := (cs.getLast?.map (·.1)).getD v.s,
                       fc := (cs.getLast?.map (·.2)).getD v.fc } := by
  intro cs
  induction cs with
  | nil => intro v; simp [forEach]
  | cons c cs ih =>
    intro v
    simp only [forEach, vol_leave.for4]
    rw [ih]
    cases h : cs.getLast? <;> simp [List.getLast?_cons, h]

theorem zip_map_pair (n : Int) (ks : List Int) (g : Int → Int × Int → ℝ) :
    (Py.zip ks (ks.map fun c => (n, c))).map (fun x => g x.1 x.2) = ks.map (fun c => g c (n, c)) := by
  induction ks with
  | nil => simp [Py.zip]
  | cons k ks ih => simpa [Py.zip] using ih

/-- **the `leave` closure as translated**: it never raises, adds the generated per-node value `Gen.VolTerms.nodeVolume` at the current accuracy
level (from the primitive volumes of the node, its children's spheres and the cones between them) to the non-local `volume`, leaves `accuracy`
alone, and returns the node's sphere -/
theorem vol_leave_eq (acc : Nat) (vol : ℝ) (n : Int) (ks : List Int) :
    vol_leave volSphere volFrustum volSF volPairs mcScene (vol, (acc : Int)) n ks
      = some ((vol + nodeVal acc (terms volSphere volFrustum volSF volPairs n ks), (acc : Int)), n) := by
  have z := zip_map_pair n ks volSF
  by_cases h2 : 2 ≤ acc
  · by_cases h3 : 3 ≤ acc
    · by_cases h5 : 5 ≤ acc
      · have i2 : (acc : Int) ≥ 2 := by omega
        have i3 : (acc : Int) ≥ 3 := by omega
        have i5 : (acc : Int) ≥ 5 := by omega
        simp [vol_leave, vol_leave.body, Py.seq, Py.bindS, Py.skip, for1_loop, for2_loop, for3_loop, for4_loop, Py.finish, i2, i3, i5, h2, h3, h5,
          nodeVal, Gen.VolTerms.nodeVolume, terms, z, List.map_map, Function.comp_def]
      · have i2 : (acc : Int) ≥ 2 := by omega
        have i3 : (acc : Int) ≥ 3 := by omega
        have i5 : ¬ (acc : Int) ≥ 5 := by omega
        simp [vol_leave, vol_leave.body, Py.seq, Py.bindS, Py.skip, for1_loop, for2_loop, for3_loop, for4_loop, Py.finish, i2, i3, i5, h2, h3, h5,
          nodeVal, Gen.VolTerms.nodeVolume, terms, z, List.map_map, Function.comp_def]
    · have i2 : (acc : Int) ≥ 2 := by omega
      have i3 : ¬ (acc : Int) ≥ 3 := by omega
      have i5 : ¬ (acc : Int) ≥ 5 := by omega
      have h5 : ¬ 5 ≤ acc := by omega
      simp [vol_leave, vol_leave.body, Py.seq, Py.bindS, Py.skip, for1_loop, for2_loop, for3_loop, for4_loop, Py.finish, i2, i3, i5, h2, h3, h5,
        nodeVal, Gen.VolTerms.nodeVolume, terms, List.map_map, Function.comp_def]
  · have i2 : ¬ (acc : Int) ≥ 2 := by omega
    have i3 : ¬ (acc : Int) ≥ 3 := by omega
    have i5 : ¬ (acc : Int) ≥ 5 := by omega
    have h3 : ¬ 3 ≤ acc := by omega
    have h5 : ¬ 5 ≤ acc := by omega
    simp [vol_leave, vol_leave.body, Py.seq, Py.bindS, Py.skip, for1_loop, for2_loop, for3_loop, for4_loop, Py.finish, i2, i3, i5, h2, h3, h5,
      nodeVal, Gen.VolTerms.nodeVolume, terms]

/-- what the closure computes, as a total callback over its state (volume, accuracy) -/
noncomputable def liftLeave : (ℝ × Int) → Int → List Int → (ℝ × Int) × Int :=
  fun st n ks => ((st.1 + nodeVal st.2.toNat (terms volSphere volFrustum volSF volPairs n ks), st.2), n)

/-- the traversal with the wrapped closure = the model's traversal callbacks `volEnter` / `volLeave` -/
theorem spec_vol_leave (acc : Nat) (r : Rose) (v : ℝ) :
    spec Py.absent2 (Py.wrap2 (vol_leave volSphere volFrustum volSF volPairs mcScene)) r none (some (v, (acc : Int)))
      = (some (v + sumRose (fun i ks => nodeVal acc (terms volSphere volFrustum volSF volPairs i ks)) r, (acc : Int)), r.id) := by
  rw [absent2_eq_wrapE, wrap2_eq_wrapL]
  have h1 := RefineClosures.spec_wrap_on (fun st : ℝ × Int => st.2 = (acc : Int)) (fun _ => True)
    (fun st n pv => some (Py.absent2 st n pv)) (vol_leave volSphere volFrustum volSF volPairs mcScene)
    Py.absent2 (liftLeave volSphere volFrustum volSF volPairs)
    (fun st n pv hP _ => ⟨rfl, hP⟩)
    (fun st n ks hP _ => by
      obtain ⟨a, b⟩ := st
      simp only at hP
      subst hP
      exact ⟨by rw [vol_leave_eq]; simp [liftLeave], rfl⟩)
    r none (v, (acc : Int)) rfl (fun _ _ => trivial)
  have h2 := RefineClosures.spec_abs (Prod.fst : ℝ × Int → ℝ) (fun st : ℝ × Int => st.2 = (acc : Int)) (fun _ => True)
    Py.absent2 (liftLeave volSphere volFrustum volSF volPairs) volEnter (volLeave acc (terms volSphere volFrustum volSF volPairs))
    (fun st n pv hP _ => ⟨rfl, hP⟩)
    (fun st n ks hP _ => ⟨by simp [volLeave, liftLeave, hP], hP⟩)
    r none (v, (acc : Int)) rfl (fun _ _ => trivial)
  rw [h1.1]
  have e := h2.1
  simp only at e
  rw [C14.spec_vol] at e
  have e1 : (spec Py.absent2 (liftLeave volSphere volFrustum volSF volPairs) r none (v, (acc : Int))).1
      = (v + sumRose (fun i ks => nodeVal acc (terms volSphere volFrustum volSF volPairs i ks)) r, (acc : Int)) :=
    Prod.ext (congrArg Prod.fst e).symm h1.2
  have e2 : (spec Py.absent2 (liftLeave volSphere volFrustum volSF volPairs) r none (v, (acc : Int))).2 = r.id :=
    (congrArg Prod.snd e).symm
  rw [e1, e2]

/-- **`_get_volume_frustum_cone` as translated on this run**: on every tree (a table whose subtree at node 0 is `r`, all of whose nodes are rows),
at every accuracy level other than 10 and for arbitrary primitive volumes, the call returns — never raises, never runs out of fuel — the sum
over all nodes of the generated per-node value, each node seeing exactly its own children -/
theorem getVolume_refines (acc : Nat) (hacc : acc ≠ 10) (ids pids : List Int) (r : Rose) (hR : Represents r ids pids) (h0 : r.id = 0)
    (hok : Rows r ids) (F : Nat) :
    get_volume_frustum_cone volSphere volFrustum volSF volPairs mcScene (2 * r.size + F + 1) ids pids (acc : Int)
      = some (sumRose (fun i ks => nodeVal acc (terms volSphere volFrustum volSF volPairs i ks)) r) := by
  have hne : ¬ ((acc : Int) = 10) := by omega
  simp [get_volume_frustum_cone, get_volume_frustum_cone.body, Py.seq, Py.skip, Py.bind, hne,
    tree_traverse_l_refines _ ids pids r hR h0 hok _ F, spec_vol_leave, Py.unwrapCb, Py.finish]

/-- level 10, EVERY input (any table, any fuel): `_get_volume_frustum_cone` is the GENERATED Monte-Carlo-only routine `get_volume_mc_only`
(Gen/AlgoVolMC.lean, from `_get_volume_frustum_cone_mc_only`) on the same tree with the same fuel and the same sampler — nothing else is evaluated -/
theorem getVolume_level10 (ids pids : List Int) (fuel : Nat) :
    get_volume_frustum_cone volSphere volFrustum volSF volPairs mcScene fuel ids pids 10 = get_volume_mc_only mcScene fuel ids pids := by
  cases h : get_volume_mc_only mcScene fuel ids pids <;>
    simp [get_volume_frustum_cone, get_volume_frustum_cone.body, Py.seq, Py.bind, Py.finish, h]

end RefineVolume
