import SwcVerif.Gen.AlgoNode
import SwcVerif.Refine.PyLemmas
import SwcVerif.Model.Subtree
/-! Specifications of the node-handle methods generated from `swcgeom/core/tree.py::Tree.Node.parent / children / is_root` and
`swcgeom/core/node.py::Node.is_furcation / is_tip` (`Gen/AlgoNode.lean`, regenerated on every run).

A node handle is the row index it dereferences; the tree is its columns.  Two layers:

* `*_eq`   — for ARBITRARY columns and an arbitrary handle: the method in terms of the row's id `Py.idx ids k` (an invalid handle raises);
* `*_spec` — on a `Tree` object (`ids = rangeI n` = positions) and a valid handle `0 ≤ k < n`: the parent column entry (`none` for −1),
  `tableKids` (children in table order), "≥ 2 children", "no children", "the parent entry is −1".  Nothing about well-formedness. -/
namespace RefineNode
open Gen.Algo Py Sub

/-! ### the columns -/

theorem idx_rangeI (n : Nat) (k : Int) (h0 : 0 ≤ k) (hk : k < n) : Py.idx (rangeI n) k = some k := by
  obtain ⟨m, rfl⟩ := Int.eq_ofNat_of_zero_le h0
  have hm : m < n := by omega
  rw [idx_nat _ _ (by simpa [rangeI] using hm)]
  simp [rangeI, hm]

theorem idx_some_of_lt (l : List Int) (k : Int) (h0 : 0 ≤ k) (hk : k < l.length) : Py.idx l k = some (l[k.toNat]'(by omega)) := by
  obtain ⟨m, rfl⟩ := Int.eq_ofNat_of_zero_le h0
  have hm : m < l.length := by omega
  rw [idx_nat _ _ hm]
  simp [hm]

/-- `ids[pids == i]` is `tableKids ids pids i` (the rows whose parent entry is `i`, in table order) — any two columns -/
theorem select_eqMask : ∀ (ids pids : List Int) (i : Int), Py.select ids (Py.eqMask pids i) = tableKids ids pids i
  | [], [], _ => by simp [Py.select, Py.eqMask, tableKids]
  | [], _ :: _, _ => by simp [Py.select, Py.eqMask, tableKids]
  | _ :: _, [], _ => by simp [Py.select, Py.eqMask, tableKids]
  | a :: as, p :: ps, i => by
    have ih := select_eqMask as ps i
    simp only [Py.select, Py.eqMask] at ih
    by_cases h : p = i <;> simp [Py.select, Py.eqMask, tableKids, h, ih]

/-- `np.count_nonzero(pids == i)` counts the occurrences of `i` in the parent column -/
theorem countNonzero_eqMask (pids : List Int) (i : Int) : Py.countNonzero (Py.eqMask pids i) = (pids.count i : Int) := by
  induction pids with
  | nil => simp [Py.countNonzero, Py.eqMask]
  | cons p ps ih =>
    simp only [Py.countNonzero, Py.eqMask, List.map_cons, List.filter_cons, List.count_cons] at ih ⊢
    by_cases h : p = i
    · simp [h]; omega
    · simp [h]; omega

/-- the number of children in the table = the number of occurrences in the parent column (when no parent entry lies beyond the id column) -/
theorem tableKids_length : ∀ (ids pids : List Int) (i : Int), pids.length ≤ ids.length → (tableKids ids pids i).length = pids.count i
  | _, [], _, _ => by cases ‹List Int› <;> simp [tableKids]
  | [], _ :: _, _, h => by simp at h
  | a :: as, p :: ps, i, h => by
    have ih := tableKids_length as ps i (by simpa using h)
    by_cases hp : p = i <;> simp [tableKids, hp, ih, List.count_cons]

/-! ### the methods on arbitrary columns -/

/-- `Tree.Node.parent`: the parent entry of the row as a handle, `None` for −1; an invalid handle raises -/
theorem node_parent_eq (pids : List Int) (k : Int) :
    node_parent pids k = (Py.idx pids k).map (fun p => if p = -1 then none else some p) := by
  cases h : Py.idx pids k with
  | none => simp [node_parent, node_parent.body, Py.bind, h, Py.finish]
  | some p =>
    by_cases hp : p = -1 <;> simp [node_parent, node_parent.body, Py.bind, h, Py.finish, hp]

/-- `Tree.Node.is_root`: the parent entry is −1 -/
theorem node_is_root_eq (pids : List Int) (k : Int) :
    node_is_root pids k = (Py.idx pids k).map (fun p => decide (p = -1)) := by
  cases h : Py.idx pids k with
  | none => simp [node_is_root, node_is_root.body, Py.bind, node_parent_eq, h, Py.finish]
  | some p =>
    by_cases hp : p = -1 <;> simp [node_is_root, node_is_root.body, Py.bind, node_parent_eq, h, Py.finish, hp]

theorem children_loop : ∀ (xs : List Int) (v : node_children.V),
    ∃ ix, forEach node_children.for1 xs v = .next { v with c1_ := v.c1_ ++ xs, idx := ix } := by
  intro xs
  induction xs with
  | nil => intro v; exact ⟨v.idx, by simp [forEach]⟩
  | cons x xs ih =>
    intro v
    obtain ⟨ix, e⟩ := ih { v with idx := x, c1_ := v.c1_ ++ [x] }
    refine ⟨ix, ?_⟩
    simp only [forEach, node_children.for1]
    rw [e]
    simp

/-- `Tree.Node.children`: handles `ids[pids == self.id]`, i.e. `tableKids` of the row's id — any two columns -/
theorem node_children_eq (ids pids : List Int) (k : Int) :
    node_children ids pids k = (Py.idx ids k).map (fun i => tableKids ids pids i) := by
  cases h : Py.idx ids k with
  | none => simp [node_children, node_children.body, Py.seq, Py.bind, h, Py.finish]
  | some i =>
    obtain ⟨ix, e⟩ := children_loop (tableKids ids pids i)
      { (default : node_children.V) with ids := ids, pids := pids, self := k, children := tableKids ids pids i, c1_ := [] }
    simp only [node_children, node_children.body, Py.seq, Py.bind, h, Py.bindS, select_eqMask]
    rw [e]
    simp [Py.finish]

/-- `Node.is_furcation`: the row's id occurs more than once in the parent column -/
theorem node_is_furcation_eq (ids pids : List Int) (k : Int) :
    node_is_furcation ids pids k = (Py.idx ids k).map (fun i => decide (1 < pids.count i)) := by
  cases h : Py.idx ids k with
  | none => simp [node_is_furcation, node_is_furcation.body, Py.bind, h, Py.finish]
  | some i =>
    simp only [node_is_furcation, node_is_furcation.body, Py.bind, h, Py.finish, countNonzero_eqMask, Option.map_some]
    congr 1
    simp only [gt_iff_lt, decide_eq_decide]
    omega

/-- `Node.is_tip`: the row's id does not occur in the parent column -/
theorem node_is_tip_eq (ids pids : List Int) (k : Int) :
    node_is_tip ids pids k = (Py.idx ids k).map (fun i => !pids.contains i) := by
  cases h : Py.idx ids k <;> simp [node_is_tip, node_is_tip.body, Py.bind, h, Py.finish]

/-! ### on a `Tree` object: ids = positions, a valid handle -/

/-- **`Tree.Node.parent`** = the parent column entry, `none` for −1 -/
theorem node_parent_spec (pids : List Int) (k : Int) (h0 : 0 ≤ k) (hk : k < pids.length) :
    node_parent pids k = some (if pids[k.toNat]'(by omega) = -1 then none else some (pids[k.toNat]'(by omega))) := by
  rw [node_parent_eq, idx_some_of_lt pids k h0 hk]; rfl

/-- **`Tree.Node.is_root`** ⇔ the parent column entry is −1 -/
theorem node_is_root_spec (pids : List Int) (k : Int) (h0 : 0 ≤ k) (hk : k < pids.length) :
    node_is_root pids k = some (decide (pids[k.toNat]'(by omega) = -1)) := by
  rw [node_is_root_eq, idx_some_of_lt pids k h0 hk]; rfl

/-- **`Tree.Node.children`** = `tableKids`: the children in table order -/
theorem node_children_spec (n : Nat) (pids : List Int) (k : Int) (h0 : 0 ≤ k) (hk : k < n) :
    node_children (rangeI n) pids k = some (tableKids (rangeI n) pids k) := by
  rw [node_children_eq, idx_rangeI n k h0 hk]; rfl

/-- **`Node.is_furcation`** ⇔ two or more children -/
theorem node_is_furcation_spec (n : Nat) (pids : List Int) (hl : pids.length ≤ n) (k : Int) (h0 : 0 ≤ k) (hk : k < n) :
    node_is_furcation (rangeI n) pids k = some (decide (2 ≤ (tableKids (rangeI n) pids k).length)) := by
  rw [node_is_furcation_eq, idx_rangeI n k h0 hk, tableKids_length _ _ _ (by simpa [rangeI] using hl)]
  simp only [Option.map_some]
  congr 1

/-- **`Node.is_tip`** ⇔ no children -/
theorem node_is_tip_spec (n : Nat) (pids : List Int) (hl : pids.length ≤ n) (k : Int) (h0 : 0 ≤ k) (hk : k < n) :
    node_is_tip (rangeI n) pids k = some (decide ((tableKids (rangeI n) pids k).length = 0)) := by
  rw [node_is_tip_eq, idx_rangeI n k h0 hk, tableKids_length _ _ _ (by simpa [rangeI] using hl)]
  simp only [Option.map_some]
  congr 1
  by_cases h : k ∈ pids
  · have : pids.count k ≠ 0 := by simpa [List.count_eq_zero] using h
    simp [h, this]
  · simp [h, List.count_eq_zero.2 h]

/-- non-vacuity (kernel-evaluated): node 1 of the tree `0 → 1 → {2, 3 → 4}` -/
example : node_parent [-1, 0, 1, 1, 3] 1 = some (some 0) ∧ node_parent [-1, 0, 1, 1, 3] 0 = some none ∧
          node_children (rangeI 5) [-1, 0, 1, 1, 3] 1 = some [2, 3] ∧ node_is_furcation (rangeI 5) [-1, 0, 1, 1, 3] 1 = some true ∧
          node_is_tip (rangeI 5) [-1, 0, 1, 1, 3] 4 = some true ∧ node_is_root [-1, 0, 1, 1, 3] 0 = some true ∧
          node_parent [-1, 0, 1, 1, 3] 5 = none := by decide +kernel

end RefineNode
