import SwcVerif.Proofs.Invariance
import SwcVerif.Refine.NodeFeat2
/-! # C11 for the GENERATED measures (T33 `invar`)

The theorems of `Props/C11.lean` are about the hand-written feature models.  Here the same invariances are proved for the definitions the
translator regenerates from the source on every run: `Gen/AlgoLmGeo` (L-Measure geometry), `Gen/AlgoNodeFeat` (`Tree.length`, `Path.length`,
`straight_line_distance`, `tortuosity`, radial distance), `Gen/AlgoSholl` (`Sholl.intersect`), `Gen/AlgoLMeasure` (counts).  They are generic in the
numeric type `K` and in the Euclidean norm `norm : List K → K`.

A change of pose is a map `g` on coordinate rows.  `Invar.RowRel φ norm d g` says `norm (g a − g b) = φ (norm (a − b))` for all rows `a b` of
dimension `d` (and `g` keeps the dimension); `Invar.Homog F φ` says `φ` is additive, keeps signs and ratios.  `φ = id` is a rigid motion
(`generated_rigid_*`; `Invar.rigid_rowRel`: the translation / rotation matrices generated from the source are such maps), `φ = (s * ·)`, `s > 0`,
a uniform scaling (`generated_scale_*`; `Invar.scale_rowRel`: the generated `scale3d s s s`).  Every length becomes `φ` of itself (`Option.map φ`:
the raising cases included), ratios and counts do not change, angles do not change when `angle` does not. -/
namespace C11
open Gen.Algo LmGeo Invar RefineNf

section generic
variable {K : Type} [Inhabited K] [Add K] [Sub K] [Mul K] [OfNat K 0] [OfNat K 1] [LT K] [DecidableLT K] [LE K] [DecidableLE K]

/-- the table `xs' ys' zs'` is the table `xs ys zs` with every node's point mapped by `g` -/
def Moved (g : List K → List K) (n : Nat) (xs ys zs xs' ys' zs' : List K) : Prop :=
  RefineLmGeo.Cols n xs' ys' zs' ∧ ∀ i : Int, VI n i → pos xs' ys' zs' i = g (pos xs ys zs i)

/-- `Moved` is satisfiable for every `g` that keeps 3-vectors 3-vectors: the columns of the mapped rows -/
theorem moved_mapCols (g : List K → List K) (hlen : ∀ a, a.length = 3 → (g a).length = 3) {n : Nat} {xs ys zs : List K}
    (hc : RefineLmGeo.Cols n xs ys zs) : Moved g n xs ys zs (mapCols g xs ys zs 0) (mapCols g xs ys zs 1) (mapCols g xs ys zs 2) :=
  ⟨mapCols_cols g hc, fun i hi => pos_mapCols g hlen hc i hi⟩

theorem Moved.distRel {φ : K → K} {norm : List K → K} {g : List K → List K} (hg : RowRel φ norm 3 g) {n : Nat} {xs ys zs xs' ys' zs' : List K}
    (hm : Moved g n xs ys zs xs' ys' zs') : DistRel φ norm n xs ys zs xs' ys' zs' := by
  intro a b ha hb
  unfold dist
  rw [hm.2 a ha, hm.2 b hb]
  exact hg.dist _ _ (by simp [pos]) (by simp [pos])

/-- **generated L-Measure lengths under a change of pose** (`LMeasure.path_distance`, `euc_distance`, `Path.length`, `branch_pathlength`, `length`,
`contraction` of `swcgeom/analysis/lmeasure.py` as translated): on every well-formed tree, every node, every branch (list of nodes) and every
fuel the refinement theorem covers, the value on the moved table is `φ` of the value on the original (raising cases included); the
contraction — a ratio — is unchanged -/
theorem generated_lmgeo_under_map {F : Py.Fld K} {φ : K → K} (hφ : Homog F φ) (norm : List K → K) (g : List K → List K) (hg : RowRel φ norm 3 g)
    {xs ys zs xs' ys' zs' : List K} (pids : List Int) (hw : C07.WF pids) (hc : RefineLmGeo.Cols pids.length xs ys zs)
    (hm : Moved g pids.length xs ys zs xs' ys' zs') :
    (∀ k : Nat, k < pids.length → ∀ Fu : Nat,
      lm_path_distance norm (pids.length + 2 + Fu) pids xs' ys' zs' (k : Int) =
        (lm_path_distance norm (pids.length + 2 + Fu) pids xs ys zs (k : Int)).map φ) ∧
    (∀ (ids types : List Int) (k : Nat), k < pids.length →
      lm_euc_distance norm ids pids types xs' ys' zs' (k : Int) = (lm_euc_distance norm ids pids types xs ys zs (k : Int)).map φ) ∧
    (∀ br : List Int, (∀ i ∈ br, VI pids.length i) →
      path_length norm xs' ys' zs' br = (path_length norm xs ys zs br).map φ ∧
      lm_branch_pathlength norm xs' ys' zs' br = (lm_branch_pathlength norm xs ys zs br).map φ ∧
      lm_length norm xs' ys' zs' br = (lm_length norm xs ys zs br).map φ ∧
      lm_contraction F norm xs' ys' zs' br = lm_contraction F norm xs ys zs br) :=
  ⟨fun k hk Fu => path_distance_rel hφ norm pids hw hc hm.1 (hm.distRel hg) k hk Fu,
   fun ids types k hk => euc_distance_rel norm ids pids types hc hm.1 (hm.distRel hg) k hk,
   fun br hb => branch_measures_rel hφ norm hc hm.1 (hm.distRel hg) br hb⟩

/-- **generated bifurcation angles under a change of pose** (`LMeasure.bif_ampl_local`, `bif_ampl_remote` as translated), at every bifurcation
(a node with exactly two children) of a well-formed tree: unchanged, provided the `angle` parameter gives the same answer on mapped edge
vectors, `angle (g u − g w) (g v − g w) = angle (u − w) (v − w)` (for the source's `angle` — arccos of the normalised inner product — this is
`C11.rigid_preserves_angles` / `angle_data_scale`: inner products and norms are determined by the distances) -/
theorem generated_bif_angles_under_map (angle : List K → List K → Option K) (degrees : K → K) (g : List K → List K)
    (hang : ∀ u v w : List K, u.length = 3 → v.length = 3 → w.length = 3 →
      angle (vsub (g u) (g w)) (vsub (g v) (g w)) = angle (vsub u w) (vsub v w))
    {xs ys zs xs' ys' zs' : List K} (pids : List Int) (hw : C07.WF pids) (hc : RefineLmGeo.Cols pids.length xs ys zs)
    (hm : Moved g pids.length xs ys zs xs' ys' zs') (k : Nat) (hk : k < pids.length) (a b : Int)
    (hkids : RefineLmGeo.kids pids (k : Int) = [a, b]) :
    lm_bif_ampl_local angle degrees (Sub.rangeI pids.length) pids xs' ys' zs' (k : Int) =
      lm_bif_ampl_local angle degrees (Sub.rangeI pids.length) pids xs ys zs (k : Int) ∧
    ∀ Fu : Nat, pids.length + 1 ≤ Fu →
      lm_bif_ampl_remote angle degrees Fu (Sub.rangeI pids.length) pids xs' ys' zs' (k : Int) =
        lm_bif_ampl_remote angle degrees Fu (Sub.rangeI pids.length) pids xs ys zs (k : Int) := by
  have ha : AngleRel angle pids.length xs ys zs xs' ys' zs' := by
    intro a b c va vb vc
    rw [hm.2 a va, hm.2 b vb, hm.2 c vc]
    exact hang _ _ _ (by simp [pos]) (by simp [pos]) (by simp [pos])
  exact ⟨bif_ampl_local_rel angle degrees pids hc hm.1 ha k hk a b hkids,
    fun Fu hF => bif_ampl_remote_rel angle degrees pids hw hc hm.1 ha k hk a b hkids Fu hF⟩

/-- **generated feature geometry under a change of pose** (`Tree.length`, `Path.length`, `Path.straight_line_distance`, `Path.tortuosity`,
`NodeFeatures.get_radial_distance` as translated; the table of coordinate rows `axyz` is mapped row by row): lengths and distances become `φ` of
themselves, the tortuosity — a ratio, with its zero-length guard — is unchanged; for every tree object with coordinates of dimension `d`,
every path of rows -/
theorem generated_nodefeat_under_map {F : Py.Fld K} {φ : K → K} (hφ : Homog F φ) (norm : List K → K) (d : Nat) (g : List K → List K)
    (hg : RowRel φ norm d g) (axyz : List (List K)) (hdim : ∀ r ∈ axyz, r.length = d) :
    (∀ pids : List Int, C10.GeoTree pids axyz d →
      nf_tree_length norm (Sub.rangeI pids.length) pids (axyz.map g) = (nf_tree_length norm (Sub.rangeI pids.length) pids axyz).map φ) ∧
    (∀ idx : List Int, (∀ i ∈ idx, Valid axyz i) → nf_path_length norm (axyz.map g) idx = (nf_path_length norm axyz idx).map φ) ∧
    (∀ (a : Int) (mid : List Int) (b : Int), (∀ i ∈ a :: (mid ++ [b]), Valid axyz i) →
      nf_path_straight norm (axyz.map g) (a :: (mid ++ [b])) = (nf_path_straight norm axyz (a :: (mid ++ [b]))).map φ ∧
      nf_path_tortuosity F norm (axyz.map g) (a :: (mid ++ [b])) = nf_path_tortuosity F norm axyz (a :: (mid ++ [b]))) ∧
    (∀ ids pids types : List Int, 0 < axyz.length →
      nf_radial_distance norm ids pids types (axyz.map g) = (nf_radial_distance norm ids pids types axyz).map (List.map φ)) :=
  ⟨fun pids h => tree_length_rel hφ hg pids axyz h,
   fun idx hv => path_length_rel hφ hg axyz hdim idx hv,
   fun a mid b hv => ⟨straight_rel hg axyz hdim a mid b (hv a List.mem_cons_self) (hv b (by simp)), tortuosity_rel hφ hg axyz hdim a mid b hv⟩,
   fun ids pids types h0 => radial_rel hg ids pids types axyz h0 hdim⟩

/-- **generated Sholl counts under a monotone change of the root distances** (`Sholl.intersect` as translated, on the segment end radii
`pairs`): the count at radius `φ r` over the radii `φ a, φ b` is the count at `r` over `a, b` — the profile only stretches along the
radius axis.  (The root distances are the generated radial distances, which `generated_nodefeat_under_map` maps by `φ`.) -/
theorem generated_sholl_under_map (φ : K → K) (hle : ∀ a b, φ a ≤ φ b ↔ a ≤ b) (hlt : ∀ a b, φ a < φ b ↔ a < b) (pairs : List (K × K)) (r : K) :
    sholl_intersect (RefineSholl.rows (pairs.map fun p => (φ p.1, φ p.2))) (φ r) = sholl_intersect (RefineSholl.rows pairs) r :=
  sholl_intersect_rel φ hle hlt pairs r

/-- **rigid motions change no generated measure**: `generated_lmgeo_under_map` / `generated_nodefeat_under_map` at `φ = id` -/
theorem generated_rigid_invariance (F : Py.Fld K) (norm : List K → K) (g : List K → List K) (hg : RowRel (fun x => x) norm 3 g)
    {xs ys zs xs' ys' zs' : List K} (pids : List Int) (hw : C07.WF pids) (hc : RefineLmGeo.Cols pids.length xs ys zs)
    (hm : Moved g pids.length xs ys zs xs' ys' zs') (axyz : List (List K)) (ht : C10.GeoTree pids axyz 3) :
    (∀ k : Nat, k < pids.length → ∀ Fu : Nat,
      lm_path_distance norm (pids.length + 2 + Fu) pids xs' ys' zs' (k : Int) = lm_path_distance norm (pids.length + 2 + Fu) pids xs ys zs (k : Int)) ∧
    (∀ (ids types : List Int) (k : Nat), k < pids.length →
      lm_euc_distance norm ids pids types xs' ys' zs' (k : Int) = lm_euc_distance norm ids pids types xs ys zs (k : Int)) ∧
    (∀ br : List Int, (∀ i ∈ br, VI pids.length i) →
      lm_branch_pathlength norm xs' ys' zs' br = lm_branch_pathlength norm xs ys zs br ∧
      lm_contraction F norm xs' ys' zs' br = lm_contraction F norm xs ys zs br) ∧
    nf_tree_length norm (Sub.rangeI pids.length) pids (axyz.map g) = nf_tree_length norm (Sub.rangeI pids.length) pids axyz ∧
    (∀ (a : Int) (mid : List Int) (b : Int), (∀ i ∈ a :: (mid ++ [b]), Valid axyz i) →
      nf_path_length norm (axyz.map g) (a :: (mid ++ [b])) = nf_path_length norm axyz (a :: (mid ++ [b])) ∧
      nf_path_tortuosity F norm (axyz.map g) (a :: (mid ++ [b])) = nf_path_tortuosity F norm axyz (a :: (mid ++ [b]))) ∧
    (∀ ids types : List Int, 0 < axyz.length →
      nf_radial_distance norm ids pids types (axyz.map g) = nf_radial_distance norm ids pids types axyz) := by
  have h1 := generated_lmgeo_under_map (Homog.id F) norm g hg pids hw hc hm
  have h2 := generated_nodefeat_under_map (Homog.id F) norm 3 g hg axyz ht.dim
  have idm : ∀ o : Option K, o.map (fun x => x) = o := fun o => by cases o <;> rfl
  have idl : ∀ o : Option (List K), o.map (List.map fun x => x) = o := fun o => by cases o <;> simp
  refine ⟨fun k hk Fu => by rw [h1.1 k hk Fu, idm], fun ids types k hk => by rw [h1.2.1 ids types k hk, idm],
    fun br hb => ⟨by rw [(h1.2.2 br hb).2.1, idm], (h1.2.2 br hb).2.2.2⟩, by rw [h2.1 pids ht, idm],
    fun a mid b hv => ⟨by rw [h2.2.1 _ hv, idm], (h2.2.2.1 a mid b hv).2⟩, fun ids types h0 => by rw [h2.2.2.2 ids pids types h0, idl]⟩

/-- **the topological measures take no coordinates**: the generated `n_tips`, `n_bifs`, `n_branch`, `n_stems`, `branch_order`, `terminal_degree`,
`fragmentation` are functions of the id / parent / type columns alone — no change of the coordinate table can change them -/
theorem generated_counts_coordinate_free (fuel : Nat) (ids pids types : List Int) (k : Int) (b : List Int) (axyz axyz' : List (List K)) :
    (fun (_ : List (List K)) => (lm_n_tips ids pids types, lm_n_bifs fuel ids pids types, lm_n_branch fuel ids pids types,
      lm_n_stems ids pids types, lm_branch_order fuel ids pids k, lm_terminal_degree fuel ids pids k, lm_fragmentation b)) axyz =
    (fun (_ : List (List K)) => (lm_n_tips ids pids types, lm_n_bifs fuel ids pids types, lm_n_branch fuel ids pids types,
      lm_n_stems ids pids types, lm_branch_order fuel ids pids k, lm_terminal_degree fuel ids pids k, lm_fragmentation b)) axyz' := rfl
end generic

/-! ## renumbering -/

/-- **renumbering the nodes changes neither the generated `n_tips` nor the generated `n_bifs`**: `σ` injective and permuting the ids `0 .. n-1`,
the new parent column the `σ`-image of the old one as a multiset of rows (`Invar.Renumbered`: rows `(σ i, σ pids[i])` in any order — what
`pids'[σ i] = σ (pids[i])` gives); both tables tree objects (`C06.IsTree`, needed by the refinement theorem of `n_bifs` only), every fuel
`≥ 2n + 1` -/
theorem generated_counts_renumbered (σ : Int → Int) (pids pids' types types' : List Int) (h : Renumbered σ pids pids') :
    lm_n_tips (Sub.rangeI pids'.length) pids' types' = lm_n_tips (Sub.rangeI pids.length) pids types ∧
    ∀ (r r' : Rose), C06.IsTree r pids → C06.IsTree r' pids' → ∀ F : Nat,
      lm_n_bifs (2 * pids'.length + F + 1) (Sub.rangeI pids'.length) pids' types' =
        lm_n_bifs (2 * pids.length + F + 1) (Sub.rangeI pids.length) pids types := by
  constructor
  · rw [C10.generated_n_tips, C10.generated_n_tips]
    have e : ∀ p : List Int, (fun i => decide (tableKids (Sub.rangeI p.length) p i = [])) =
        fun i => (fun n : Nat => decide (n = 0)) (tableKids (Sub.rangeI p.length) p i).length := by
      intro p; funext i; simp [List.length_eq_zero_iff]
    rw [e pids, e pids']
    exact congrArg (fun n : Nat => some (n : Int)) (h.count_kids (fun n : Nat => decide (n = 0)))
  · intro r r' ht ht' F
    rw [C10.generated_n_bifs pids types r ht F, C10.generated_n_bifs pids' types' r' ht' F]
    exact congrArg (fun n : Nat => some (n : Int)) (h.count_kids (fun n : Nat => decide (2 ≤ n)))

/-- **renumbering the nodes does not change the generated `n_stems`**: a valid renumbering keeps the root at id 0 (`σ 0 = 0`: the library requires
the root to be the first row) and the first row's type; the translated `LMeasure.n_stems` — the number of children of node 0 when that row is
typed as soma, `Tree.soma`'s `ValueError` otherwise — then gives the same answer (the raising case included) on both tables -/
theorem generated_n_stems_renumbered (σ : Int → Int) (pids pids' types types' : List Int) (h : Renumbered σ pids pids') (h0 : σ 0 = 0)
    (hn : 0 < pids.length) (ht : types'.head? = types.head?) :
    lm_n_stems (Sub.rangeI pids'.length) pids' types' = lm_n_stems (Sub.rangeI pids.length) pids types := by
  have hn' : 0 < pids'.length := by rw [h.len]; exact hn
  have a := C10.generated_n_stems pids types hn
  have b := C10.generated_n_stems pids' types' hn'
  have k := h.kids_len 0
  rw [h0] at k
  by_cases hs : types.head? = some Gen.Consts.type_soma
  · rw [a.1 hs, b.1 (by rw [ht]; exact hs), k]
  · rw [a.2 hs, b.2 (by rw [ht]; exact hs)]

section field
variable {K : Type} [Field K] [LinearOrder K] [IsStrictOrderedRing K] [Inhabited K]

/-- **uniform scaling by `s > 0`** (any row map that multiplies the norm of every difference by `s`; `Invar.scale_rowRel`: the generated
`scale3d s s s`), in an ordered field whose `Py.Fld` division is the field division: generated lengths (`path_distance`, `euc_distance`,
`branch_pathlength`, `Tree.length`, `Path.length`, radial distances) are multiplied by `s`; the ratios (`contraction`, `tortuosity`) do not
change; the Sholl count at radius `s · r` over the scaled root distances is the count at `r` -/
theorem generated_scale (F : Py.Fld K) (hF : ∀ a b : K, F.div a b = a / b) (s : K) (hs : 0 < s) (norm : List K → K) (g : List K → List K)
    (hg : RowRel (fun x => s * x) norm 3 g) {xs ys zs xs' ys' zs' : List K} (pids : List Int) (hw : C07.WF pids)
    (hc : RefineLmGeo.Cols pids.length xs ys zs) (hm : Moved g pids.length xs ys zs xs' ys' zs') (axyz : List (List K))
    (ht : C10.GeoTree pids axyz 3) :
    (∀ k : Nat, k < pids.length → ∀ Fu : Nat,
      lm_path_distance norm (pids.length + 2 + Fu) pids xs' ys' zs' (k : Int) =
        (lm_path_distance norm (pids.length + 2 + Fu) pids xs ys zs (k : Int)).map (s * ·)) ∧
    (∀ (ids types : List Int) (k : Nat), k < pids.length →
      lm_euc_distance norm ids pids types xs' ys' zs' (k : Int) = (lm_euc_distance norm ids pids types xs ys zs (k : Int)).map (s * ·)) ∧
    (∀ br : List Int, (∀ i ∈ br, VI pids.length i) →
      lm_branch_pathlength norm xs' ys' zs' br = (lm_branch_pathlength norm xs ys zs br).map (s * ·) ∧
      lm_contraction F norm xs' ys' zs' br = lm_contraction F norm xs ys zs br) ∧
    nf_tree_length norm (Sub.rangeI pids.length) pids (axyz.map g) = (nf_tree_length norm (Sub.rangeI pids.length) pids axyz).map (s * ·) ∧
    (∀ (a : Int) (mid : List Int) (b : Int), (∀ i ∈ a :: (mid ++ [b]), Valid axyz i) →
      nf_path_length norm (axyz.map g) (a :: (mid ++ [b])) = (nf_path_length norm axyz (a :: (mid ++ [b]))).map (s * ·) ∧
      nf_path_tortuosity F norm (axyz.map g) (a :: (mid ++ [b])) = nf_path_tortuosity F norm axyz (a :: (mid ++ [b]))) ∧
    (∀ ids types : List Int, 0 < axyz.length →
      nf_radial_distance norm ids pids types (axyz.map g) = (nf_radial_distance norm ids pids types axyz).map (List.map (s * ·))) ∧
    (∀ (pairs : List (K × K)) (r : K),
      sholl_intersect (RefineSholl.rows (pairs.map fun p => (s * p.1, s * p.2))) (s * r) = sholl_intersect (RefineSholl.rows pairs) r) := by
  have hφ := Homog.scale F hF s hs
  have h1 := generated_lmgeo_under_map hφ norm g hg pids hw hc hm
  have h2 := generated_nodefeat_under_map hφ norm 3 g hg axyz ht.dim
  exact ⟨h1.1, h1.2.1, fun br hb => ⟨(h1.2.2 br hb).2.1, (h1.2.2 br hb).2.2.2⟩, h2.1 pids ht,
    fun a mid b hv => ⟨h2.2.1 _ hv, (h2.2.2.1 a mid b hv).2⟩, fun ids types h0 => h2.2.2.2 ids pids types h0,
    fun pairs r => generated_sholl_under_map (fun x => s * x) (scale_le s hs) (scale_lt s hs) pairs r⟩

/-- **the rigid motions GENERATED from the source change no generated length**: for the translation matrix and the rotations about the x / y / z
axis through any centre (`Gen/Matrices`, `c² + s² = 1`) applied to every coordinate row, and the Euclidean norm `ψ (x² + y² + z²)` with any
`ψ` (the square root), `Tree.length` and every `Path.length` / `tortuosity` / radial distance as translated are unchanged -/
theorem generated_rigid_source_matrices (F : Py.Fld K) (ψ : K → K) (c s cx cy cz tx ty tz : K) (h : c * c + s * s = 1) (pids : List Int)
    (axyz : List (List K)) (ht : C10.GeoTree pids axyz 3) :
    ∀ M ∈ [Gen.Mat.translate3d tx ty tz, Gen.Affine.aboutRoot (Gen.Mat.rotate3d_x c s) cx cy cz,
        Gen.Affine.aboutRoot (Gen.Mat.rotate3d_y c s) cx cy cz, Gen.Affine.aboutRoot (Gen.Mat.rotate3d_z c s) cx cy cz],
      let g := liftPt (Gen.Affine.applyPoint M)
      let norm := fun v : List K => ψ (sq3 v)
      nf_tree_length norm (Sub.rangeI pids.length) pids (axyz.map g) = nf_tree_length norm (Sub.rangeI pids.length) pids axyz ∧
      (∀ (a : Int) (mid : List Int) (b : Int), (∀ i ∈ a :: (mid ++ [b]), Valid axyz i) →
        nf_path_length norm (axyz.map g) (a :: (mid ++ [b])) = nf_path_length norm axyz (a :: (mid ++ [b])) ∧
        nf_path_tortuosity F norm (axyz.map g) (a :: (mid ++ [b])) = nf_path_tortuosity F norm axyz (a :: (mid ++ [b]))) ∧
      (∀ ids types : List Int, 0 < axyz.length →
        nf_radial_distance norm ids pids types (axyz.map g) = nf_radial_distance norm ids pids types axyz) := by
  have hr := rigid_rowRel ψ c s cx cy cz tx ty tz h
  have idm : ∀ o : Option K, o.map (fun x => x) = o := fun o => by cases o <;> rfl
  have idl : ∀ o : Option (List K), o.map (List.map fun x => x) = o := fun o => by cases o <;> simp
  have main : ∀ M, RowRel (fun x => x) (fun v : List K => ψ (sq3 v)) 3 (liftPt (Gen.Affine.applyPoint M)) →
      nf_tree_length (fun v : List K => ψ (sq3 v)) (Sub.rangeI pids.length) pids (axyz.map (liftPt (Gen.Affine.applyPoint M))) =
        nf_tree_length (fun v : List K => ψ (sq3 v)) (Sub.rangeI pids.length) pids axyz ∧
      (∀ (a : Int) (mid : List Int) (b : Int), (∀ i ∈ a :: (mid ++ [b]), Valid axyz i) →
        nf_path_length (fun v : List K => ψ (sq3 v)) (axyz.map (liftPt (Gen.Affine.applyPoint M))) (a :: (mid ++ [b])) =
          nf_path_length (fun v : List K => ψ (sq3 v)) axyz (a :: (mid ++ [b])) ∧
        nf_path_tortuosity F (fun v : List K => ψ (sq3 v)) (axyz.map (liftPt (Gen.Affine.applyPoint M))) (a :: (mid ++ [b])) =
          nf_path_tortuosity F (fun v : List K => ψ (sq3 v)) axyz (a :: (mid ++ [b]))) ∧
      (∀ ids types : List Int, 0 < axyz.length →
        nf_radial_distance (fun v : List K => ψ (sq3 v)) ids pids types (axyz.map (liftPt (Gen.Affine.applyPoint M))) =
          nf_radial_distance (fun v : List K => ψ (sq3 v)) ids pids types axyz) := by
    intro M hM
    have h2 := generated_nodefeat_under_map (Homog.id F) _ 3 _ hM axyz ht.dim
    exact ⟨by rw [h2.1 pids ht, idm], fun a mid b hv => ⟨by rw [h2.2.1 _ hv, idm], (h2.2.2.1 a mid b hv).2⟩,
      fun ids types h0 => by rw [h2.2.2.2 ids pids types h0, idl]⟩
  intro M hM
  simp only [List.mem_cons, List.not_mem_nil, or_false] at hM
  rcases hM with rfl | rfl | rfl | rfl
  · exact main _ hr.1
  · exact main _ hr.2.1
  · exact main _ hr.2.2.1
  · exact main _ hr.2.2.2

theorem nodup_map_inj {α β : Type} (f : α → β) : ∀ l : List α, (l.map f).Nodup → ∀ x ∈ l, ∀ y ∈ l, f x = f y → x = y := by
  intro l
  induction l with
  | nil => intro _ x hx; simp at hx
  | cons a as ih =>
    intro h x hx y hy e
    rw [List.map_cons, List.nodup_cons] at h
    rcases List.mem_cons.mp hx with rfl | hx' <;> rcases List.mem_cons.mp hy with rfl | hy'
    · rfl
    · exact absurd (List.mem_map.mpr ⟨y, hy', e.symm⟩) h.1
    · exact absurd (List.mem_map.mpr ⟨x, hx', e⟩) h.1
    · exact ih h.2 x hx' y hy' e

/-- **renumbering the nodes does not change the generated `Tree.length`** (ordered field: the summands are permuted, so addition must commute):
`σ` permutes `0 .. n-1` and keeps the root at 0, the new table carries every row along — `pids'[σ i] = σ (pids[i])` for the non-root rows,
`xyz'[σ i] = xyz[i]` — both tables tree objects with coordinates (`C10.GeoTree`) -/
theorem generated_tree_length_renumbered (norm : List K → K) (σ : Nat → Nat) (pids pids' : List Int) (axyz axyz' : List (List K)) (d : Nat)
    (ht : C10.GeoTree pids axyz d) (ht' : C10.GeoTree pids' axyz' d) (hl : pids'.length = pids.length)
    (hσ : ((List.range pids.length).map σ).Perm (List.range pids.length)) (h0 : σ 0 = 0)
    (hp : ∀ i, 0 < i → i < pids.length → pids'.getD (σ i) 0 = ((σ (pids.getD i 0).toNat : Nat) : Int))
    (hx : ∀ i, i < pids.length → row axyz' ((σ i : Nat) : Int) = row axyz (i : Int)) :
    nf_tree_length norm (Sub.rangeI pids'.length) pids' axyz' = nf_tree_length norm (Sub.rangeI pids.length) pids axyz := by
  rw [C10.generated_tree_length norm pids axyz d ht, C10.generated_tree_length norm pids' axyz' d ht', hl]
  congr 1
  set t : Nat → K := fun k => Py.Nf.sumK [norm (vec axyz (pids.getD k 0) ((k : Nat) : Int))] with ht_def
  set t' : Nat → K := fun k => Py.Nf.sumK [norm (vec axyz' (pids'.getD k 0) ((k : Nat) : Int))] with ht'_def
  have key : ∀ (u : Nat → K) (n : Nat), Py.Nf.sumK ((List.range (n - 1)).map fun k => u (k + 1)) =
      ((List.range n).map fun k => if k = 0 then (0 : K) else u k).sum := by
    intro u n
    have hs : ∀ l : List K, Py.Nf.sumK l = l.sum := fun l => (List.sum_eq_foldl (xs := l)).symm
    rw [hs]
    cases n with
    | zero => simp
    | succ m =>
      rw [List.range_succ_eq_map]
      simp [List.map_map, Function.comp_def]
  show Py.Nf.sumK ((List.range (pids.length - 1)).map fun k => t' (k + 1)) = Py.Nf.sumK ((List.range (pids.length - 1)).map fun k => t (k + 1))
  rw [key t', key t]
  have hperm := (hσ.map fun k => if k = 0 then (0 : K) else t' k).sum_eq
  rw [← hperm, List.map_map]
  congr 1
  apply List.map_congr_left
  intro i hi
  have hin : i < pids.length := List.mem_range.mp hi
  have hnd : ((List.range pids.length).map σ).Nodup := hσ.nodup_iff.mpr List.nodup_range
  simp only [Function.comp]
  by_cases hi0 : i = 0
  · subst hi0; simp [h0]
  · have hs0 : σ i ≠ 0 := by
      intro hc
      have := nodup_map_inj σ _ hnd i hi 0 (List.mem_range.mpr (by omega : 0 < pids.length)) (by rw [hc, h0])
      exact hi0 this
    rw [if_neg hs0, if_neg hi0]
    obtain ⟨j, rfl⟩ : ∃ j, i = j + 1 := ⟨i - 1, by omega⟩
    obtain ⟨hp0, hp1⟩ := ht.par j hin
    simp only [ht_def, ht'_def]
    congr 3
    unfold vec
    rw [hx (j + 1) hin, hp (j + 1) (by omega) hin, hx _ hp1]
    congr 2
    omega
open RefineNf2 in
/-- **the angles between branches do not depend on the length unit** (the property's scaling clause for the GENERATED, repaired
`BranchFeatures.calc_angle`): when every coordinate row is multiplied by `s > 0`, the generated angle matrix is unchanged - for every `norm`
with `norm (s·v) = s · norm v` that vanishes only together with the dot products (`‖v‖‖w‖ = 0 → v·w = 0`: the Euclidean norm), every `acos`,
whatever `eps` is handed in.  (With the absolute `eps` the unrepaired source added to `‖v‖‖w‖` this statement is false.) -/
theorem generated_branch_angle_scale (F : Py.Fld K) (hF : ∀ a b : K, F.div a b = a / b) (s : K) (hs : 0 < s) (norm : List K → K)
    (hnorm : ∀ v : List K, norm (v.map (s * ·)) = s * norm v)
    (hnz : ∀ v w : List K, norm v * norm w = 0 → RefineNf2.dotK v w = 0) (acos : K → K)
    (axyz : List (List K)) (d : Nat) (brs : List (List Int)) (eps eps' : K) (hg : ∀ b ∈ brs, GoodBr axyz d b) :
    nf_calc_angle F norm acos (axyz.map (List.map (s * ·))) brs eps' = nf_calc_angle F norm acos axyz brs eps := by
  have hrow : ∀ i : Int, RefineNf.row (axyz.map (List.map (s * ·))) i = (RefineNf.row axyz i).map (s * ·) := by
    intro i
    simp only [RefineNf.row, List.getD_eq_getElem?_getD, List.getElem?_map]
    cases axyz[i.toNat]? <;> simp
  have hbv : ∀ b, bvec (axyz.map (List.map (s * ·))) b = (bvec axyz b).map (s * ·) := by
    intro b
    simp [bvec, RefineNf.vec, hrow, List.zipWith_map, List.map_zipWith, mul_sub]
  have hg' : ∀ b ∈ brs, GoodBr (axyz.map (List.map (s * ·))) d b := by
    intro b hb
    obtain ⟨h0, h1, h2, h3, h4⟩ := hg b hb
    refine ⟨h0, ?_, ?_, ?_, ?_⟩
    · simpa [RefineNf.Valid] using h1
    · simpa [RefineNf.Valid] using h2
    · simpa [hrow] using h3
    · simpa [hrow] using h4
  have hsum : ∀ l : List K, Py.Nf.sumK l = l.sum := by
    intro l; simp [Py.Nf.sumK, List.sum_eq_foldl]
  have hdot : ∀ a b : List K, RefineNf2.dotK (a.map (s * ·)) (b.map (s * ·)) = s * s * RefineNf2.dotK a b := by
    intro a b
    simp only [RefineNf2.dotK, hsum, List.zipWith_map]
    have hsm : ∀ (c : K) (l : List K), (l.map (c * ·)).sum = c * l.sum := by
      intro c l
      induction l with
      | nil => simp
      | cons x xs ih => simp [ih, mul_add]
    rw [← hsm, List.map_zipWith]
    congr 2
    funext x y
    ring
  have hss : 0 < s * s := mul_pos hs hs
  rw [calc_angle_refines F norm acos _ d brs eps' one_pos hg', calc_angle_refines F norm acos axyz d brs eps one_pos hg]
  congr 1
  apply List.map_congr_left; intro bi _
  apply List.map_congr_left; intro bj _
  congr 2
  have hN : angNd norm (axyz.map (List.map (s * ·))) bi bj = s * s * angNd norm axyz bi bj := by
    simp only [angNd, hsum, hbv, hnorm, List.sum_singleton]; ring
  simp only [angDen, angDeg, hN, hbv, hdot, hF]
  by_cases h0 : angNd norm axyz bi bj = 0
  · have hd0 : RefineNf2.dotK (bvec axyz bi) (bvec axyz bj) = 0 := hnz _ _ (by simpa [angNd, hsum] using h0)
    simp [h0, hd0]
  · have hne : ¬ (¬ angNd norm axyz bi bj < 0 ∧ ¬ 0 < angNd norm axyz bi bj) := by
      intro h; exact h0 (le_antisymm (not_lt.mp h.2) (not_lt.mp h.1))
    have hne' : ¬ (¬ s * s * angNd norm axyz bi bj < 0 ∧ ¬ 0 < s * s * angNd norm axyz bi bj) := by
      intro h
      apply hne
      constructor
      · intro hlt; exact h.1 (mul_neg_of_pos_of_neg hss hlt)
      · intro hgt; exact h.2 (mul_pos hss hgt)
    simp only [Bool.not_eq_true', Bool.or_eq_false_iff, decide_eq_false_iff_not, hne, hne', if_false]
    exact mul_div_mul_left _ _ (ne_of_gt hss)

end field

/-! non-vacuity, kernel-evaluated at `K = Rat` with `ψ = id` (squared lengths): the generated translation by (1, 2, 3) and the generated
scaling by 2 on the tree `0 → 1 → 2` -/
section examples
def ivA : List (List Rat) := [[0, 0, 0], [3, 0, 0], [3, 4, 0]]
def ivNorm : List Rat → Rat := fun v => sq3 v
def ivT : List Rat → List Rat := liftPt (Gen.Affine.applyPoint (Gen.Mat.translate3d (1 : Rat) 2 3))
def ivS : List Rat → List Rat := liftPt (Gen.Affine.applyPoint (Gen.Mat.scale3d (2 : Rat) 2 2))

example : RowRel (fun x => x) ivNorm 3 ivT := (rigid_rowRel (fun x : Rat => x) 1 0 0 0 0 1 2 3 (by norm_num)).1
example : RowRel (fun x => 4 * x) ivNorm 3 ivS := by
  have := rowRel_of_d2 (fun x : Rat => x) (fun x => 4 * x) (2 * 2) (fun q => by ring) _
    (fun x y z x' y' z' => C11.scale_distances (2 : Rat) x y z x' y' z')
  exact this
example : ivA.map ivT = [[1, 2, 3], [4, 2, 3], [4, 6, 3]] ∧ ivA.map ivS = [[0, 0, 0], [6, 0, 0], [6, 8, 0]] := by decide +kernel
example : nf_tree_length ivNorm (Sub.rangeI 3) [-1, 0, 1] ivA = some 25 ∧
    nf_tree_length ivNorm (Sub.rangeI 3) [-1, 0, 1] (ivA.map ivT) = some 25 ∧
    nf_tree_length ivNorm (Sub.rangeI 3) [-1, 0, 1] (ivA.map ivS) = some 100 ∧
    nf_path_tortuosity Py.ratFld ivNorm ivA [0, 1, 2] = some 1 ∧
    nf_path_tortuosity Py.ratFld ivNorm (ivA.map ivS) [0, 1, 2] = some 1 := by decide +kernel
example : C10.GeoTree [-1, 0, 1] ivA 3 := by
  refine ⟨rfl, ?_, by decide⟩
  intro k hk
  have : k = 0 ∨ k = 1 := by simp at hk; omega
  rcases this with rfl | rfl <;> decide
/-- a non-trivial renumbering (swap ids 1 and 2 of the chain `0 → 1 → 2`: the new table `[-1, 2, 0]` is the chain `0 → 2 → 1`) -/
def ivSwap (i : Int) : Int := if i = 1 then 2 else if i = 2 then 1 else i
example : Renumbered ivSwap [-1, 0, 1] [-1, 2, 0] :=
  ⟨by intro a b; simp only [ivSwap]; split_ifs <;> omega, by decide, by decide⟩
example : lm_n_tips (Sub.rangeI 3) [-1, 2, 0] [1, 3, 3] = some 1 ∧ lm_n_tips (Sub.rangeI 3) [-1, 0, 1] [1, 3, 3] = some 1 ∧
    lm_n_tips (Sub.rangeI 3) [-1, 0, 0] [1, 3, 3] = some 2 := by decide +kernel
example : nf_tree_length ivNorm (Sub.rangeI 3) [-1, 2, 0] [[0, 0, 0], [3, 4, 0], [3, 0, 0]] = some 25 ∧
    C10.GeoTree [-1, 2, 0] ([[0, 0, 0], [3, 4, 0], [3, 0, 0]] : List (List Rat)) 3 := by
  refine ⟨by decide +kernel, rfl, ?_, by decide⟩
  intro k hk
  have : k = 0 ∨ k = 1 := by simp at hk; omega
  rcases this with rfl | rfl <;> decide
end examples

end C11
