import SwcVerif.Proofs.SwcText
/-! # C02 — SWC reading keeps every data row, in order, or fails loudly

Theorems about the model `SwcText.readLines` of `parse_swc` (recogniser + loop; tied to the code by the
`c02.recogniser` correspondence against the real `parse_swc`, by the regex strings pinned in
`consts_pinned`, and by the `FileReader.__exit__` flag extracted from the source on every run). -/
namespace C02
open SwcText

/-- the row a line contributes, if it is a data line -/
def dataOf (nx : Nat) (l : Str) : Option Row :=
  match classify nx l with
  | .data r _ => some r
  | _ => none
/-- the comment a line contributes (the writer's column header is dropped) -/
def commentOf (nx : Nat) (l : Str) : Option Str :=
  match classify nx l with
  | .comment c => if keepComment c then some c else none
  | _ => none
def tailOf (nx : Nat) (l : Str) : Bool :=
  match classify nx l with
  | .data _ t => t
  | _ => false

/-- the source says `FileReader.__exit__` returns `False`: exceptions raised while reading propagate.
(Regenerated from `utils/file.py` on every run; `return True` there breaks this theorem.) -/
theorem exit_flag_pinned : Gen.Consts.fileReaderExitSwallows = false := rfl

/-- the regular expressions, the dispatch chain and the error action the recogniser was written for -/
theorem consts_pinned :
    Gen.Consts.reFloat = "([+-]?(?:\\d+(?:[.]\\d*)?(?:[eE][+-]?\\d+)?|[.]\\d+(?:[eE][+-]?\\d+)?))" ∧
    Gen.Consts.reComment = "^\\s*#" ∧
    Gen.Consts.reCols = ["([0-9]+)", "([0-9]+)", "RE_FLOAT", "RE_FLOAT", "RE_FLOAT", "RE_FLOAT", "(-?[0-9]+)"] ∧
    Gen.Consts.reExtraCols = "[RE_FLOAT for _ in extras]" ∧
    Gen.Consts.reColsJoin = "'\\\\s+'.join(re_swc_cols)" ∧
    Gen.Consts.reSwcTemplate = "re.compile(f'^\\\\s*{re_swc_cols_str}((?:\\\\s+[+-.0-9eE]+)*)\\\\s*$')" ∧
    Gen.Consts.readTransforms = "[int, int, float, float, float, float, int] + [float for _ in extras]" ∧
    Gen.Consts.lineDispatch = ["(match := re_swc.search(line)) is not None", "(match := RE_COMMENT.match(line))", "not line.isspace()"] ∧
    Gen.Consts.invalidAction = "raise ValueError(f'invalid row {i + 1} in `{fname}`')" ∧
    Gen.Consts.commentExpr = "line[len(match.group(0)):].removesuffix('\\n')" ∧
    Gen.Consts.ignoredTest = "not comment.lstrip().startswith(ignored_comment)" ∧
    Gen.Consts.ignoredCommentExpr = "' '.join(names.cols())" := by
  exact ⟨rfl, rfl, rfl, rfl, rfl, rfl, rfl, rfl, rfl, rfl, rfl, rfl⟩

theorem dataOf_eq : dataOf = rowOf := rfl
theorem commentOf_eq : commentOf = cmtOf := rfl
theorem tailOf_eq : tailOf = tlOf := rfl

/-- **Reading succeeds exactly when no line is invalid, and then returns exactly one row per data line,
in file order, the comments in order, and the "fields ignored" flag.** -/
theorem read_ok_iff (nx : Nat) (ls : List Str) (res : ReadResult) :
    readLines nx ls = .ok res ↔
      (∀ l ∈ ls, classify nx l ≠ .invalid) ∧ res.rows = ls.filterMap (dataOf nx) ∧
      res.comments = ls.filterMap (commentOf nx) ∧ res.warned = ls.any (tailOf nx) := by
  rw [readLines_eq, dataOf_eq, commentOf_eq, tailOf_eq]
  rcases first_invalid nx ls with h | ⟨pre, bad, post, rfl, hpre, hbad⟩
  · rw [readLinesWith_valid false nx ls h]
    cases res
    simp only [Except.ok.injEq, ReadResult.mk.injEq]
    constructor
    · rintro ⟨rfl, rfl, rfl⟩; exact ⟨h, rfl, rfl, rfl⟩
    · rintro ⟨-, rfl, rfl, rfl⟩; exact ⟨rfl, rfl, rfl⟩
  · rw [readLinesWith_invalid false nx pre bad post hpre hbad]
    constructor
    · intro h; simp at h
    · rintro ⟨hall, -⟩; exact absurd hbad (hall bad (by simp))

/-- one node per data row -/
theorem read_row_count (nx : Nat) (ls : List Str) (res : ReadResult) (h : readLines nx ls = .ok res) :
    res.rows.length = (ls.filter (fun l => (dataOf nx l).isSome)).length := by
  have := ((read_ok_iff nx ls res).1 h).2.1
  rw [this]
  clear this h
  induction ls with
  | nil => rfl
  | cons l ls ih =>
    cases hd : dataOf nx l <;> simp [hd, ih]

/-- **Never a shortened or partially filled table**: an invalid line at ANY position makes the whole
read an error, which names the first such line (1-based). -/
theorem read_never_partial (nx : Nat) (pre : List Str) (bad : Str) (post : List Str)
    (hpre : ∀ l ∈ pre, classify nx l ≠ .invalid) (hbad : classify nx bad = .invalid) :
    readLines nx (pre ++ bad :: post) = .error (.invalidRow (pre.length + 1)) := by
  rw [readLines_eq, readLinesWith_invalid false nx pre bad post hpre hbad]; rfl

/-- what would happen if `__exit__` returned `True` (the D03 defect): the rows before the bad line come
back as a "successful" shortened table — the model exhibits the defect, so the flag matters. -/
theorem swallow_truncates (nx : Nat) (pre : List Str) (bad : Str) (post : List Str)
    (hpre : ∀ l ∈ pre, classify nx l ≠ .invalid) (hbad : classify nx bad = .invalid) :
    ∃ res, readLinesWith true nx (pre ++ bad :: post) = .ok res ∧ res.rows = pre.filterMap (dataOf nx) := by
  refine ⟨⟨pre.filterMap (rowOf nx), pre.filterMap (cmtOf nx), pre.any (tlOf nx)⟩, ?_, rfl⟩
  rw [readLinesWith_invalid true nx pre bad post hpre hbad]; rfl

/-- blank lines and `#` lines contribute no row -/
theorem blank_and_comment_skipped (nx : Nat) (l : Str) (h : classify nx l = .blank ∨ ∃ c, classify nx l = .comment c) :
    dataOf nx l = none := by
  rcases h with h | ⟨c, h⟩ <;> simp [dataOf, h]

/-! ## every field is numerically what the row says, for every whitespace layout -/

/-- a string of whitespace characters -/
def AllWs (w : Str) : Prop := ∀ c ∈ w, isWs c = true
/-- a non-empty string of whitespace characters -/
def Sep (w : Str) : Prop := w ≠ [] ∧ AllWs w

/-- **Layout independence.**  If the seven whitespace-delimited tokens of a line are each accepted in full
by their field's recogniser, the line is a data row carrying exactly those seven values — whatever
the leading blanks, the separators (blanks / tabs, any number) and the trailing blanks / line end. -/
theorem data_line_fields (lead w1 w2 w3 w4 w5 w6 trail t1 t2 t3 t4 t5 t6 t7 : Str)
    (a b : Nat) (x y z r : Sci) (p : Int)
    (hl : AllWs lead) (ht : AllWs trail)
    (h1 : Sep w1) (h2 : Sep w2) (h3 : Sep w3) (h4 : Sep w4) (h5 : Sep w5) (h6 : Sep w6)
    (e1 : intTok t1 = some (a, [])) (e2 : intTok t2 = some (b, []))
    (e3 : floatPrefix t3 = some (x, [])) (e4 : floatPrefix t4 = some (y, []))
    (e5 : floatPrefix t5 = some (z, [])) (e6 : floatPrefix t6 = some (r, []))
    (e7 : pidTok t7 = some (p, [])) :
    classify 0 (lead ++ t1 ++ w1 ++ t2 ++ w2 ++ t3 ++ w3 ++ t4 ++ w4 ++ t5 ++ w5 ++ t6 ++ w6 ++ t7 ++ trail)
      = .data ⟨a, b, x, y, z, r, p, []⟩ false := by
  simp only [List.append_assoc]
  exact classify_of_parseData (parseData_seven lead w1 w2 w3 w4 w5 w6 trail t1 t2 t3 t4 t5 t6 t7 a b x y z r p
    hl ht h1.1 h1.2 h2.1 h2.2 h3.1 h3.2 h4.1 h4.2 h5.1 h5.2 h6.1 h6.2 e1 e2 e3 e4 e5 e6 e7)

/-- **Fields beyond the requested columns only cause a warning** — whatever their float spelling: a data row followed
by blank-separated fields made of the trailing characters (digits, signs, `.`, `,`, and `e` / `E`, so also
`1e-05` or `2.5E+3`) is a data row with the seven values, flagged "some fields are ignored". -/
theorem trailing_fields_only_warn (lead w1 w2 w3 w4 w5 w6 t1 t2 t3 t4 t5 t6 t7 wt f rest : Str)
    (a b : Nat) (x y z r : Sci) (p : Int) (tl : Bool)
    (hl : AllWs lead)
    (h1 : Sep w1) (h2 : Sep w2) (h3 : Sep w3) (h4 : Sep w4) (h5 : Sep w5) (h6 : Sep w6)
    (e1 : intTok t1 = some (a, [])) (e2 : intTok t2 = some (b, []))
    (e3 : floatPrefix t3 = some (x, [])) (e4 : floatPrefix t4 = some (y, []))
    (e5 : floatPrefix t5 = some (z, [])) (e6 : floatPrefix t6 = some (r, []))
    (e7 : pidTok t7 = some (p, []))
    (hwt : Sep wt) (hf : f ≠ [] ∧ ∀ c ∈ f, isTailTok c = true) (hr : tailFields rest = some tl) :
    classify 0 (lead ++ t1 ++ w1 ++ t2 ++ w2 ++ t3 ++ w3 ++ t4 ++ w4 ++ t5 ++ w5 ++ t6 ++ w6 ++ t7 ++ (wt ++ f ++ rest))
      = .data ⟨a, b, x, y, z, r, p, []⟩ true := by
  simp only [List.append_assoc]
  have ht := tailFields_fields wt f rest hwt.1 hwt.2 hf.1 hf.2 tl hr
  simp only [List.append_assoc] at ht
  exact classify_of_parseData (parseData_seven_tail lead w1 w2 w3 w4 w5 w6 _ t1 t2 t3 t4 t5 t6 t7 a b x y z r p true
    hl ht h1.1 h1.2 h2.1 h2.2 h3.1 h3.2 h4.1 h4.2 h5.1 h5.2 h6.1 h6.2 e1 e2 e3 e4 e5 e6 e7)

/-- the exponent spellings are trailing characters (the defect D25: they were not) -/
theorem exponent_is_trailing_char : isTailTok 'e' = true ∧ isTailTok 'E' = true ∧ isTailTok '+' = true ∧ isTailTok '-' = true ∧
    isTailTok '.' = true ∧ (∀ c, isDig c = true → isTailTok c = true) := by
  refine ⟨by decide, by decide, by decide, by decide, by decide, ?_⟩
  intro c hc; simp [isTailTok, hc]

/-- … and a trailing part glued to the last requested column (`2e5`, `1.5` as the parent id) is NOT read as a shorter
number plus ignored fields: what follows the parent id must start with a blank -/
theorem glued_suffix_not_a_tail (c : Char) (cs : Str) (hc : isWs c = false) : tailFields (c :: cs) = none :=
  tailFields_none_of_head hc

/-- positional notation: the value of a digit string with more digits appended -/
theorem natOf_append (a b : Str) : natOf (a ++ b) = natOf a * 10 ^ b.length + natOf b := by
  exact SwcText.natOf_append a b

/-- the value the recogniser assigns to a float token is its decimal meaning: for the spelling
`[sign] ip [. fp] [e [sign] ex]` (digit strings `ip ≠ ""`, `fp`, `ex ≠ ""`) it is
`± (ip.fp) × 10^(±ex)`, kept exactly as `mant = natOf (ip ++ fp)`, `exp = ±ex − |fp|`. -/
theorem float_token_value (sg : Str) (neg : Bool) (ip fp ex : Str) (esg : Str) (eneg : Bool)
    (hsg : (sg = [] ∧ neg = false) ∨ (sg = ['+'] ∧ neg = false) ∨ (sg = ['-'] ∧ neg = true))
    (hesg : (esg = [] ∧ eneg = false) ∨ (esg = ['+'] ∧ eneg = false) ∨ (esg = ['-'] ∧ eneg = true))
    (hip : ip ≠ [] ∧ ∀ c ∈ ip, isDig c = true) (hfp : ∀ c ∈ fp, isDig c = true)
    (hex : ex ≠ [] ∧ ∀ c ∈ ex, isDig c = true) :
    floatPrefix (sg ++ ip ++ '.' :: fp ++ 'e' :: esg ++ ex)
      = some (⟨neg, natOf (ip ++ fp), (if eneg then -(natOf ex : Int) else (natOf ex : Int)) - fp.length⟩, []) ∧
    floatPrefix (sg ++ ip ++ '.' :: fp) = some (⟨neg, natOf (ip ++ fp), -(fp.length : Int)⟩, []) ∧
    floatPrefix (sg ++ ip) = some (⟨neg, natOf ip, 0⟩, []) ∧
    floatPrefix (sg ++ ip ++ 'E' :: esg ++ ex)
      = some (⟨neg, natOf ip, (if eneg then -(natOf ex : Int) else (natOf ex : Int))⟩, []) := by
  have hE : NoDig ('E' :: (esg ++ ex)) := noDig_cons _ (by decide)
  have he : NoDig ('e' :: (esg ++ ex)) := noDig_cons _ (by decide)
  have xe := expPart_exp hesg 'e' (Or.inl rfl) ex hex.1 hex.2
  have xE := expPart_exp hesg 'E' (Or.inr rfl) ex hex.1 hex.2
  refine ⟨?_, ?_, ?_, ?_⟩
  · have := floatPrefix_shape hsg ip ('.' :: (fp ++ 'e' :: (esg ++ ex))) hip.1 hip.2 (noDig_dot _)
    simp only [List.append_assoc, List.cons_append]
    rw [this, fracPart_dot, takeDigs_digs_append fp _ hfp he]
    simp only [xe]
  · have := floatPrefix_shape hsg ip ('.' :: fp) hip.1 hip.2 (noDig_dot _)
    simp only [List.append_assoc]
    rw [this, fracPart_dot, takeDigs_allDig fp hfp]
    simp [expPart]
  · have := floatPrefix_shape hsg ip [] hip.1 hip.2 noDig_nil
    simp only [List.append_nil] at this
    rw [this]
    simp [fracPart_nil, expPart]
  · have := floatPrefix_shape hsg ip ('E' :: (esg ++ ex)) hip.1 hip.2 hE
    simp only [List.append_assoc, List.cons_append]
    rw [this, fracPart_other 'E' _ (by decide)]
    simp only [xE]
    simp

/-- a token that is not a number is not accepted: a data line needs all seven fields -/
theorem too_few_fields_invalid (t1 t2 : Str) (a b : Nat) (e1 : intTok t1 = some (a, [])) (e2 : intTok t2 = some (b, [])) :
    classify 0 (t1 ++ ' ' :: t2 ++ ['\n']) = .invalid := by
  have s1 := intTok_some_start e1
  have s2 := intTok_some_start e2
  have hsp : ∀ c ∈ [' '], isWs c = true := by simp; decide
  have hl : t1 ++ ' ' :: t2 ++ ['\n'] = t1 ++ ' ' :: (t2 ++ ['\n']) := by simp
  rw [hl]
  have d0 : dropWs (t1 ++ ' ' :: (t2 ++ ['\n'])) = t1 ++ ' ' :: (t2 ++ ['\n']) := (s1.append _).dropWs
  have a1 : intTok (t1 ++ ' ' :: (t2 ++ ['\n'])) = some (a, ' ' :: (t2 ++ ['\n'])) :=
    intTok_step e1 (wsHead_cons (by decide)).noDig
  have b1 : needWs (' ' :: (t2 ++ ['\n'])) = some (t2 ++ ['\n']) :=
    needWs_step (w := [' ']) (by simp) hsp (s2.append ['\n'])
  have a2 := intTok_step e2 (wsHead_cons (c := '\n') (cs := []) (by decide)).noDig
  have b2 : needWs ['\n'] = some [] := by simp [needWs, dropWs, isWs]
  apply classify_invalid_of
  · simp [parseData, d0, a1, b1, a2, b2, floatPrefix_nil]
  · rw [d0]; exact s1.append _

-- non-vacuity / concrete behaviour of the model (these run in the kernel)
example : classify 0 " 1 2 3. .5 1e3 -2.5E-1 -1\n".toList
    = .data ⟨1, 2, ⟨false, 3, 0⟩, ⟨false, 5, -1⟩, ⟨false, 1, 3⟩, ⟨true, 25, -2⟩, -1, []⟩ false := by decide +kernel
example : classify 0 "1 1 0 0 0 1 -1 7,8\n".toList = .data ⟨1, 1, ⟨false, 0, 0⟩, ⟨false, 0, 0⟩, ⟨false, 0, 0⟩, ⟨false, 1, 0⟩, -1, []⟩ true := by
  decide +kernel
example : classify 0 "foo bar\n".toList = .invalid := by decide +kernel
example : classify 0 "1 1 0 0 0 1\n".toList = .invalid := by decide +kernel
example : classify 0 "  # note\n".toList = .comment " note".toList := by decide +kernel
example : classify 0 " \t\n".toList = .blank := by decide +kernel
example : (match readLines 0 ["1 1 0 0 0 1 -1\n".toList, "foo bar\n".toList, "2 1 0 0 0 1 1\n".toList] with
    | .error (.invalidRow 2) => true | _ => false) = true := by
  decide +kernel

end C02
