import SwcVerif.Props.C16
import SwcVerif.Refine.Resample
/-! # C16 — the branch resamplers and the smoother, tied to the source by the translator

`Gen.Algo.lin_resample`, `Gen.Algo.iso_resample`, `Gen.Algo.conv_smooth` are regenerated on every run from
`swcgeom/transforms/branch.py` (`BranchLinearResampler.resample`, `BranchIsometricResampler.resample`, `BranchConvSmoother.__call__`): the
cumulative arc length (`np.cumsum`, `np.insert` / `np.concatenate`), `xp[-1]`, `int(np.ceil(L / d)) + 1`, `np.linspace` / `np.arange`,
`np.interp` per column, `np.stack(axis=1)` / `.T` / column stores, `signal.convolve(mode="same")`, `(s / c)[1:-1]` written into `[1:-1]`.
The numpy / scipy functions have their meaning in `Model/PyResample.lean`; `Refine/Resample.lean` proves that at `K = ℚ` the generated
definitions equal the hand-written models of `Model/Resample.lean`, so the theorems of `Props/C16.lean` hold for what THE SOURCE computes
(given the segment lengths — the one piece of geometry that enters as data). -/
namespace C16
open Resample Gen.Algo RefineResample

/-- **generated = model (linear resampler)**: every `(N, 4)` array (rows of length 4), segment lengths `≥ 0` (one per consecutive pair of
rows, so `N ≥ 1`), every point count `n` -/
theorem generated_lin_eq_model (rows : List (List Rat)) (lens : List Rat) (n : Nat)
    (hrow : ∀ r ∈ rows, r.length = 4) (hlen : lens.length + 1 = rows.length) (hpos : ∀ l ∈ lens, 0 ≤ l) :
    lin_resample Py.ratFld rows lens (n : Int) = some (rowsOf (linearResample lens (colsOf rows) n) n) :=
  linResample_refines rows lens n hrow hlen hpos

/-- **generated = model (isometric resampler)**: every spacing `d > 0`, both gap modes -/
theorem generated_iso_eq_model (rows : List (List Rat)) (lens : List Rat) (d : Rat) (adj : Bool)
    (hrow : ∀ r ∈ rows, r.length = 4) (hlen : lens.length + 1 = rows.length) (hpos : ∀ l ∈ lens, 0 ≤ l) (hd : 0 < d) :
    iso_resample Py.ratFld rows lens d adj =
      some (rowsOf (isoResample lens (colsOf rows) d adj) (isoCount ((cumdist lens).getLastD 0) d)) :=
  isoResample_refines rows lens d adj hrow hlen hpos hd

/-- **generated = model (smoother)**: every branch of `n ≥ 2` nodes (the dictionary of its columns), every window `np.ones(k)`, `k ≥ 1` -/
theorem generated_smooth_eq_model (nd : Py.Dict String (List Rat)) (xs ys zs : List Rat) (n k : Nat) (hk : 1 ≤ k) (hn : 2 ≤ n)
    (hx : Py.Dict.get? nd "x" = some xs) (hy : Py.Dict.get? nd "y" = some ys) (hz : Py.Dict.get? nd "z" = some zs)
    (hxl : xs.length = n) (hyl : ys.length = n) (hzl : zs.length = n) :
    conv_smooth Py.ratFld nd (n : Int) (List.replicate k 1) =
      some (Py.Dict.set (Py.Dict.set (Py.Dict.set nd "x" (convSmooth xs k)) "y" (convSmooth ys k)) "z" (convSmooth zs k), ()) :=
  convSmooth_refines nd xs ys zs n k hk hn hx hy hz hxl hyl hzl

/-- **`iso_step_le` transported**: on a branch of positive length `L` the generated isometric resampler (default gap mode) returns
`N = ⌈L/d⌉ + 1 ≥ 2` rows whose columns are the original columns interpolated at `N` equally spaced arc lengths `i · L/(N-1)` (`linspace`),
and the step `L/(N-1)` is no longer than the spacing `d` -/
theorem generated_iso_step_le (rows : List (List Rat)) (lens : List Rat) (d : Rat)
    (hrow : ∀ r ∈ rows, r.length = 4) (hlen : lens.length + 1 = rows.length) (hpos : ∀ l ∈ lens, 0 ≤ l) (hd : 0 < d)
    (hL : 0 < (cumdist lens).getLastD 0) :
    let L := (cumdist lens).getLastD 0
    let N := isoCount L d
    iso_resample Py.ratFld rows lens d true = some (rowsOf ((colsOf rows).map (interp (linspace L N) (cumdist lens))) N) ∧
      (rowsOf ((colsOf rows).map (interp (linspace L N) (cumdist lens))) N).length = N ∧
      2 ≤ N ∧ L / ((N - 1 : Nat) : Rat) ≤ d := by
  intro L N
  have h := isoResample_refines rows lens d true hrow hlen hpos hd
  rw [isoResample_columns, isoPositions_adjust _ d hL hd] at h
  exact ⟨h, by simp [rowsOf], iso_step_le L d hL hd⟩

/-- **`smooth_endpoints_count` transported**: in the dictionary the generated smoother returns, each of `x`, `y`, `z` has the same length,
the same first and the same last entry as before; every other column (radii, ids, parents) is the one handed in -/
theorem generated_smooth_endpoints_count (nd : Py.Dict String (List Rat)) (xs ys zs : List Rat) (n k : Nat) (hk : 1 ≤ k) (hn : 2 ≤ n)
    (hx : Py.Dict.get? nd "x" = some xs) (hy : Py.Dict.get? nd "y" = some ys) (hz : Py.Dict.get? nd "z" = some zs)
    (hxl : xs.length = n) (hyl : ys.length = n) (hzl : zs.length = n) :
    ∃ nd', conv_smooth Py.ratFld nd (n : Int) (List.replicate k 1) = some (nd', ()) ∧
      (∀ key col, (key, col) ∈ [("x", xs), ("y", ys), ("z", zs)] → ∃ col', Py.Dict.get? nd' key = some col' ∧
        col'.length = col.length ∧ col'.head? = col.head? ∧ col'.getLast? = col.getLast?) ∧
      (∀ key, key ≠ "x" → key ≠ "y" → key ≠ "z" → Py.Dict.get? nd' key = Py.Dict.get? nd key) := by
  refine ⟨_, convSmooth_refines nd xs ys zs n k hk hn hx hy hz hxl hyl hzl, ?_, ?_⟩
  · intro key col hmem
    simp only [List.mem_cons, Prod.mk.injEq, List.mem_nil_iff, or_false] at hmem
    rcases hmem with ⟨rfl, rfl⟩ | ⟨rfl, rfl⟩ | ⟨rfl, rfl⟩
    · exact ⟨convSmooth col k, by simp [Py.Dict.get?_set], smooth_endpoints_count col k⟩
    · exact ⟨convSmooth col k, by simp [Py.Dict.get?_set], smooth_endpoints_count col k⟩
    · exact ⟨convSmooth col k, by simp [Py.Dict.get?_set], smooth_endpoints_count col k⟩
  · intro key h1 h2 h3
    simp [Py.Dict.get?_set, h1, h2, h3]

/-- a column interpolated at positions that end at the full arc length ends at the column's last value -/
theorem interp_col_last (lens fp pos : List Rat) (hpos : ∀ l ∈ lens, 0 ≤ l) (hl : fp.length = lens.length + 1)
    (hlast : pos.getLast? = some ((cumdist lens).getLastD 0)) :
    (interp pos (cumdist lens) fp).getLast? = fp.getLast? := by
  obtain ⟨hlen, _, _, hm⟩ := cumdist_spec lens hpos
  cases hxp : cumdist lens with
  | nil => rw [hxp] at hlen; simp at hlen
  | cons x0 xr =>
    cases fp with
    | nil => simp at hl
    | cons f0 fr =>
      have hlr : xr.length = fr.length := by rw [hxp] at hlen; simp at hlen hl; omega
      have h := (interp_endpoints (x0 :: xr) (f0 :: fr) x0 f0 xr fr rfl rfl hlr (hxp ▸ hm)).2
      rw [hxp] at hlast
      simp only [interp, List.getLast?_map, hlast, Option.map_some]
      rw [List.getLastD_cons] at h ⊢
      rw [h, List.getLast?_cons, List.getLastD_cons, List.getLastD_eq_getLast?]

/-- **`interp_endpoints` transported (last point)**: for `n ≥ 2` the four columns of the array the generated linear resampler returns end at
the last values of the original columns, i.e. its last row is the last point of the branch with its radius -/
theorem generated_lin_last (rows : List (List Rat)) (lens : List Rat) (n : Nat) (hn : 2 ≤ n)
    (hrow : ∀ r ∈ rows, r.length = 4) (hlen : lens.length + 1 = rows.length) (hpos : ∀ l ∈ lens, 0 ≤ l) :
    ∃ cols', lin_resample Py.ratFld rows lens (n : Int) = some (rowsOf cols' n) ∧
      List.Forall₂ (fun c' c => c'.length = n ∧ c'.getLast? = c.getLast?) cols' (colsOf rows) := by
  refine ⟨_, linResample_refines rows lens n hrow hlen hpos, ?_⟩
  have hl := (linspace_spec ((cumdist lens).getLastD 0) n hn).2.2.1
  have key : ∀ fp : List Rat, fp.length = lens.length + 1 →
      (interp (linspace ((cumdist lens).getLastD 0) n) (cumdist lens) fp).length = n ∧
      (interp (linspace ((cumdist lens).getLastD 0) n) (cumdist lens) fp).getLast? = fp.getLast? :=
    fun fp h => ⟨by simp [interp, C16.linspace_length], interp_col_last lens fp _ hpos h hl⟩
  simp only [linearResample, colsOf, List.map_cons, List.map_nil]
  refine .cons (key _ (by simp; omega)) (.cons (key _ (by simp; omega)) (.cons (key _ (by simp; omega)) (.cons (key _ (by simp; omega)) .nil)))

/-! non-vacuity: the generated definitions evaluated by the kernel -/
example : lin_resample Py.ratFld [[0, 0, 0, 1], [1, 0, 0, 2], [1, 0, 0, 5], [3, 0, 0, 3]] [1, 0, 2] 4 =
    some [[0, 0, 0, 1], [1, 0, 0, 5], [2, 0, 0, 4], [3, 0, 0, 3]] := by decide +kernel
example : iso_resample Py.ratFld [[0, 0, 0, 1], [2, 0, 0, 2]] [2] (3 / 4) false =
    some [[0, 0, 0, 1], [3 / 4, 0, 0, 11 / 8], [3 / 2, 0, 0, 7 / 4], [2, 0, 0, 2]] := by decide +kernel
example : iso_resample Py.ratFld [[0, 0, 0, 1], [2, 0, 0, 2]] [2] (3 / 4) true =
    some [[0, 0, 0, 1], [2 / 3, 0, 0, 4 / 3], [4 / 3, 0, 0, 5 / 3], [2, 0, 0, 2]] := by decide +kernel
example : conv_smooth Py.ratFld [("x", [0, 1, 4, 9, 16]), ("y", [0, 0, 0, 0, 0]), ("z", [1, 1, 1, 1, 1]), ("r", [1, 2, 3, 4, 5])] 5 [1, 1, 1] =
    some ([("x", [0, 5 / 3, 14 / 3, 29 / 3, 16]), ("y", [0, 0, 0, 0, 0]), ("z", [1, 1, 1, 1, 1]), ("r", [1, 2, 3, 4, 5])], ()) := by decide +kernel
/-- the hypotheses of `generated_iso_step_le` are satisfiable -/
example : (iso_resample Py.ratFld [[0, 0, 0, 1], [2, 0, 0, 2]] [2] (3 / 4) true).map List.length = some 4 ∧
    (0 : Rat) < (cumdist [2]).getLastD 0 := by decide +kernel

end C16
