import SwcVerif.Props.C08Gen
import SwcVerif.Refine.Node
import SwcVerif.Refine.CtorTree
/-! # C08, the deprecated spellings `Tree.get_bifurcations` / `Node.is_bifurcation`, tied to the source by the translator (`Gen/AlgoCtorTree.lean`) -/
namespace C08
open Branches Trav Gen.Algo Sub

/-- **`Tree.get_bifurcations()` as translated returns exactly the nodes with two or more children** (it IS `get_furcations`, for every fuel) -/
theorem generated_get_bifurcations_eq (ids pids : List Int) (r : Rose) (h : Represents r ids pids) (h0 : r.id = 0) (F : Nat) :
    ∃ l, get_bifurcations (2 * r.size + F + 1) ids pids = some l ∧ l.Perm (furcsOf r) := by
  rw [RefineCtor.get_bifurcations_eq]; exact generated_furcations_eq ids pids r h h0 F

/-- **`Node.is_bifurcation()` as translated** ⇔ two or more children (it IS `is_furcation`) -/
theorem generated_node_is_bifurcation_spec (n : Nat) (pids : List Int) (hl : pids.length ≤ n) (k : Int) (h0 : 0 ≤ k) (hk : k < n) :
    node_is_bifurcation (rangeI n) pids k = some (decide (2 ≤ (tableKids (rangeI n) pids k).length)) := by
  rw [RefineCtor.node_is_bifurcation_eq]; exact RefineNode.node_is_furcation_spec n pids hl k h0 hk

example : get_bifurcations 12 [0, 1, 2, 3, 4] [-1, 0, 1, 1, 3] = some [1] ∧
          node_is_bifurcation [0, 1, 2, 3, 4] [-1, 0, 1, 1, 3] 1 = some true ∧
          node_is_bifurcation [0, 1, 2, 3, 4] [-1, 0, 1, 1, 3] 3 = some false := by decide +kernel

end C08
