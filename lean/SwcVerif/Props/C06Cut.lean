import SwcVerif.Refine.Cut
/-! # C06, tied to the source by the translator: `to_subtree` and `cut_tree`

`Gen/AlgoCut.lean` is regenerated on every run from `swcgeom/core/tree_utils.py`: `to_subtree` (the loop writing `REMOVAL` into a copy of the id
column, the generated `propagate_removal`, `to_subtree_impl` = the generated `to_sub_topology`) and `cut_tree` in both overloads, with the nested
closures `_enter` / `_leave` that CALL THE USER'S CALLBACK (a state-passing parameter: arbitrary, stateful) and append to the captured `removals`,
handed to the generated traversal.  The theorems below are the refinement theorems of `Refine/Cut.lean` restated next to kernel-evaluated examples. -/
namespace C06
open Sub Gen.Algo Trav RefineCut

/-- the translated `to_subtree` equals the model `Sub.toSubtree` on every tree table and every list of node ids -/
theorem generated_toSubtree_eq_model (pids : List Int) (r : Rose) (h : IsTree r pids) (rm : List Int)
    (hrm : ∀ i ∈ rm, 0 ≤ i ∧ i.toNat < pids.length) (F : Nat) :
    to_subtree (2 * r.size + F + 1) (rangeI pids.length) pids rm =
      (toSubtree pids rm).map (fun s => ((Py.range (s.mapping.length : Int), s.newPid), s.mapping)) :=
  toSubtree_refines pids r h rm hrm F

/-- … hence the translated `to_subtree` keeps precisely the nodes that are neither removed nor below a removed node, in increasing id order
(`toSubtree_kept` transported to the generated code) -/
theorem generated_toSubtree_kept (pids : List Int) (r : Rose) (h : IsTree r pids) (rm : List Int)
    (hrm : ∀ i ∈ rm, 0 ≤ i ∧ i.toNat < pids.length) (F : Nat) :
    ∃ newPid, to_subtree (2 * r.size + F + 1) (rangeI pids.length) pids rm =
      some ((Py.range (newPid.length : Int), newPid),
        (rangeI pids.length).filter (fun v => !decide (v ∈ removedSet (fun i => rm.contains i) r false))) := by
  obtain ⟨res, h1, h2, h3, _⟩ := toSubtree_kept pids r h rm
  refine ⟨res.newPid, ?_⟩
  rw [generated_toSubtree_eq_model pids r h rm hrm F, h1, ← h2, h3]
  rfl

/-- the translated `cut_tree(tree, enter=ue)` for EVERY stateful user callback `ue` -/
theorem generated_cutTreeEnter {σ T : Type} [Inhabited σ] [Inhabited T] (pids : List Int) (r : Rose) (h : IsTree r pids)
    (ue : σ → Int → Option T → σ × (T × Bool)) (s0 : σ) (F : Nat) :
    cut_tree_enter ue (2 * r.size + F + 1) (rangeI pids.length) pids s0 =
      (toSubtree pids (spec (cutEnterS ue) Sub.noLeave r none ([], s0)).1.1).map
        (fun t => ((spec (cutEnterS ue) Sub.noLeave r none ([], s0)).1.2, ((Py.range (t.mapping.length : Int), t.newPid), t.mapping))) :=
  cutTreeEnter_refines pids r h ue s0 F

/-- the translated `cut_tree(tree, enter=ue)` equals the model `Sub.cutTreeEnter` (callbacks as the model takes them) -/
theorem generated_cutTreeEnter_eq_model {σ T : Type} [Inhabited σ] [Inhabited T] (pids : List Int) (r : Rose) (h : IsTree r pids)
    (ue : Int → Option T → T × Bool) (s0 : σ) (F : Nat) :
    cut_tree_enter (fun (s : σ) n pv => (s, ue n pv)) (2 * r.size + F + 1) (rangeI pids.length) pids s0 =
      (cutTreeEnter pids ue).map (fun t => (s0, ((Py.range (t.mapping.length : Int), t.newPid), t.mapping))) :=
  cutTreeEnter_refines_model pids r h ue s0 F

/-- the translated `cut_tree(tree, leave=ul)` for EVERY stateful user callback `ul` -/
theorem generated_cutTreeLeave {σ K : Type} [Inhabited σ] [Inhabited K] (pids : List Int) (r : Rose) (h : IsTree r pids)
    (ul : σ → Int → List K → σ × (K × Bool)) (s0 : σ) (F : Nat) :
    cut_tree_leave ul (2 * r.size + F + 1) (rangeI pids.length) pids s0 =
      (toSubtree pids (spec Sub.noEnter (cutLeaveS ul) r none ([], s0)).1.1).map
        (fun t => ((spec Sub.noEnter (cutLeaveS ul) r none ([], s0)).1.2, ((Py.range (t.mapping.length : Int), t.newPid), t.mapping))) :=
  cutTreeLeave_refines pids r h ul s0 F

/-- the translated `cut_tree(tree, leave=ul)` equals the model `Sub.cutTreeLeave` -/
theorem generated_cutTreeLeave_eq_model {σ K : Type} [Inhabited σ] [Inhabited K] (pids : List Int) (r : Rose) (h : IsTree r pids)
    (ul : Int → List K → K × Bool) (s0 : σ) (F : Nat) :
    cut_tree_leave (fun (s : σ) n ks => (s, ul n ks)) (2 * r.size + F + 1) (rangeI pids.length) pids s0 =
      (cutTreeLeave pids ul).map (fun t => (s0, ((Py.range (t.mapping.length : Int), t.newPid), t.mapping))) :=
  cutTreeLeave_refines_model pids r h ul s0 F

/-! non-vacuity (kernel-evaluated, on `exPids = [-1, 0, 1, 1, 0]`): the generated definitions run, with stateful callbacks that count their calls -/
example : to_subtree 11 (rangeI 5) exPids [2] = some (([0, 1, 2, 3], [-1, 0, 1, 0]), [0, 1, 3, 4]) := by decide +kernel
-- a negative index wraps (Python), an index outside the table raises: outside the theorem's domain, where the model marks nothing
example : to_subtree 11 (rangeI 5) exPids [-1] = some (([0, 1, 2, 3], [-1, 0, 1, 1]), [0, 1, 2, 3]) := by decide +kernel
example : to_subtree 11 (rangeI 5) exPids [7] = none := by decide +kernel
-- enter: remove node 1; the user callback is NOT called on 2 and 3 (3 calls for 5 nodes)
example : cut_tree_enter (σ := Nat) (T := Int) (fun c n pv => (c + 1, (pv.getD (-1) + 1, n == 1))) 11 (rangeI 5) exPids 0
    = some (3, (([0, 1], [-1, 0]), [0, 4])) := by decide +kernel
-- leave: remove the tips (height 0); the callback is called on every node
example : cut_tree_leave (σ := Nat) (K := Int) (fun c n ks => (c + 1, (ks.foldl (fun a k => max a (k + 1)) 0, ks.isEmpty && n != 0))) 11 (rangeI 5) exPids 0
    = some (5, (([0, 1], [-1, 0]), [0, 1])) := by decide +kernel

/-! ## `CutByFurcationOrder` -/

/-- the translated `CutByFurcationOrder._enter` is the model's callback `Sub.orderEnter` on every node of a tree object -/
theorem generated_orderEnter_eq_model (pids : List Int) (m j : Int) (pl : Option Int) (hj : 0 ≤ j ∧ j.toNat < pids.length) :
    order_enter (rangeI pids.length) pids m j pl = some (orderEnter pids m j pl) :=
  orderEnter_refines pids m j pl hj

/-- the translated pipeline `cut_tree(x, enter=self._enter)` equals the model `Sub.cutByOrder` on every tree table -/
theorem generated_cutByOrder_eq_model (pids : List Int) (r : Rose) (h : IsTree r pids) (m : Int) (F : Nat) :
    cut_tree_enter (orderCallback pids m) (2 * r.size + F + 1) (rangeI pids.length) pids true =
      (cutByOrder pids m).map (fun t => (true, ((Py.range (t.mapping.length : Int), t.newPid), t.mapping))) :=
  cutByOrder_refines pids r h m F

example : order_enter (rangeI 5) exPids 1 1 (some 0) = some (1, true) := by decide +kernel
example : order_enter (rangeI 5) exPids 1 4 (some 0) = some (0, false) := by decide +kernel
example : cut_tree_enter (orderCallback exPids 1) 11 (rangeI 5) exPids true = some (true, (([0, 1], [-1, 0]), [0, 4])) := by decide +kernel
/-! ## `CutByType` -/

/-- the translated `CutByType.__call__` (the `removals` set, its `leave` closure, the generated traversal and `to_subtree`) equals the model
`Sub.cutByType` on every tree table with a type column of the same length -/
theorem generated_cutByType_eq_model (pids types : List Int) (ty : Int) (r : Rose) (h : IsTree r pids) (hl : types.length = pids.length) (F : Nat) :
    cut_by_type (2 * r.size + F + 1) (rangeI pids.length) pids types ty =
      (cutByType pids types ty).map (fun t => ((Py.range (t.mapping.length : Int), t.newPid), t.mapping)) :=
  cutByType_refines pids types ty r h hl F

example : cut_by_type 11 (rangeI 5) exPids [1, 3, 2, 3, 3] 2 = some (([0, 1, 2], [-1, 0, 1]), [0, 1, 2]) := by decide +kernel

end C06
