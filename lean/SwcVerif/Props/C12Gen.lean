import SwcVerif.Props.C12
import SwcVerif.Refine.Affine
/-! # C12 (and the pipelines of C03), tied to the CONTROL FLOW of the source by the imperative translator

`Gen/AlgoAffine.lean` is regenerated on every run from `swcgeom/transforms/geometry.py` (the constructors of `Translate`, `Scale`,
`Rotate`, `RotateX/Y/Z`, `AffineTransform.__init__ / __call__ / apply`, `TranslateOrigin.transform`), `swcgeom/utils/transforms.py`
(the matrix builders), `swcgeom/core/swc.py` (`xyz`, `xyzw`) and `swcgeom/transforms/base.py` (`Transforms.__call__`).
`RefineAffine.call_affine` proves that the generated `__call__` ∘ `apply` moves row `i` of EVERY tree (any size ≥ 1, root = the first
row whose parent is −1) to `applyPoint M (xᵢ, yᵢ, zᵢ)` with `M = aboutRoot tm root` for `center ∈ {root, soma}` and `M = tm`
otherwise, and returns ids / parents / types / radii as they are — so the theorems of `Props/C12.lean` about `applyPoint` / `aboutRoot`
speak about what the classes do to whole trees.  Below they are transported to the generated classes: constructor (which matrix builder,
which centre), then `__call__`.  `K` is any linearly ordered field, `F.div` its division, `c s` stand for `cos θ`, `sin θ`. -/
namespace C12
open Gen.Mat Gen.Affine Gen.Algo RefineAffine

variable {K : Type} [Field K] [LinearOrder K] [Inhabited K]

/-- a tree as the generated code sees it: ids, parents, types, the three coordinate columns of its points, radii -/
abbrev GTree (K : Type) := (List Int) × ((List Int) × ((List Int) × ((List K) × ((List K) × ((List K) × (List K))))))

def treeOf (ids pids types : List Int) (pts : List (Pt K)) (rs : List K) : GTree K :=
  (ids, pids, types, colX pts, colY pts, colZ pts, rs)

/-- a transform object `(self.tm, self.center)` as a function on trees: the generated `__call__` -/
def callFn (F : Py.Fld K) (tm : List (List K)) (center : String) : GTree K → Option (GTree K) :=
  fun t => affine_call F center tm t.1 t.2.1 t.2.2.1 t.2.2.2.1 t.2.2.2.2.1 t.2.2.2.2.2.1 t.2.2.2.2.2.2

/-- `Cls(args)(tree)`: the object the generated constructor builds, then the generated `__call__` -/
def runObj (F : Py.Fld K) (o : Option ((List (List K)) × String × (List Int) × Unit)) (t : GTree K) : Option (GTree K) :=
  o.bind fun o => callFn F o.1 o.2.1 t

/-- the hypotheses on the tree: there is a root row (parent −1), and the first one is at a position that has a point -/
structure HasRoot (pids : List Int) (pts : List (Pt K)) (root : Pt K) : Prop where
  mem : (-1) ∈ pids
  at_ : pts[pids.idxOf (-1)]? = some root

theorem mapPts_congr (M : List (List K)) (g : Pt K → Pt K) (h : ∀ p : Pt K, applyPoint M p.1 p.2.1 p.2.2 = g p) (pts : List (Pt K)) :
    mapPts M pts = pts.map g := by
  simp only [mapPts]
  exact List.map_congr_left (fun p _ => h p)

/-- the generated `__call__` of an object with an affine matrix, on every tree with a root: the stated matrix about the stated centre -/
theorem callFn_affine (F : Py.Fld K) (hF : ∀ a b : K, F.div a b = a / b) (tm : List (List K)) (center : String) (ha : IsAffine tm)
    (ids pids types : List Int) (rs : List K) (pts : List (Pt K)) (root : Pt K) (h : HasRoot pids pts root) :
    callFn F tm center (treeOf ids pids types pts rs) = some (treeOf ids pids types (mapPts (effective center tm root) pts) rs) :=
  call_affine F hF center tm ha ids pids types rs pts h.mem root h.at_

/-! ### `Translate` -/

theorem translate_about (tx ty tz cx cy cz x y z : K) :
    applyPoint (aboutRoot (translate3d tx ty tz) cx cy cz) x y z = (x + tx, y + ty, z + tz) := by
  simp [applyPoint, aboutRoot, mapply, mmul, dotK, colK, translate3d]

/-- **`Translate(tx, ty, tz[, center=c])(tree)` as translated**: every node moves by exactly the vector — whatever the centre —;
ids, parents, types, radii are unchanged. -/
theorem generated_translate_moves (F : Py.Fld K) (hF : ∀ a b : K, F.div a b = a / b) (tx ty tz : K) (kw : Py.Dict String String)
    (hkw : kw = [] ∨ ∃ c, kw = [("center", c)])
    (ids pids types : List Int) (rs : List K) (pts : List (Pt K)) (root : Pt K) (h : HasRoot pids pts root) :
    runObj F (translate_init tx ty tz kw) (treeOf ids pids types pts rs)
      = some (treeOf ids pids types (pts.map fun p => (p.1 + tx, p.2.1 + ty, p.2.2 + tz)) rs) := by
  have key : ∀ c : String, callFn F (translate3d tx ty tz) c (treeOf ids pids types pts rs)
      = some (treeOf ids pids types (pts.map fun p => (p.1 + tx, p.2.1 + ty, p.2.2 + tz)) rs) := by
    intro c
    rw [callFn_affine F hF _ c (affine_translate3d _ _ _) ids pids types rs pts root h]
    congr 2
    apply mapPts_congr
    intro p
    by_cases hc : c = "root" ∨ c = "soma"
    · simp only [effective, hc, if_true]; exact translate_about ..
    · simp only [effective, hc, if_false]; exact translate_moves ..
  rcases hkw with rfl | ⟨c, rfl⟩
  · rw [translate_init_default]; exact key _
  · rw [translate_init_center]; exact key _

/-! ### `TranslateOrigin` -/

/-- **`TranslateOrigin.transform(tree)` as translated**: every node moves by minus the root's position, so the root lands on the origin. -/
theorem generated_translate_origin (F : Py.Fld K) (hF : ∀ a b : K, F.div a b = a / b)
    (ids pids types : List Int) (rs : List K) (pts : List (Pt K)) (root : Pt K) (h : HasRoot pids pts root) :
    translate_origin F ids pids types (colX pts) (colY pts) (colZ pts) rs
      = some (treeOf ids pids types (pts.map fun p => (p.1 - root.1, p.2.1 - root.2.1, p.2.2 - root.2.2)) rs) ∧
    (pts.map fun p => (p.1 - root.1, p.2.1 - root.2.1, p.2.2 - root.2.2))[pids.idxOf (-1)]? = some (0, 0, 0) := by
  refine ⟨?_, by simp [h.at_]⟩
  rw [translate_origin_refines F hF ids pids types rs pts h.mem root h.at_]
  simp only [treeOf]
  rw [mapPts_congr _ (fun p => (p.1 - root.1, p.2.1 - root.2.1, p.2.2 - root.2.2))]
  intro p
  rw [translate_moves]
  simp [sub_eq_add_neg]

/-! ### `Scale` -/

/-- **`Scale(sx, sy, sz, center=c)(tree)` as translated**: about the root (`c ∈ {root, soma}`; the signature's default is
`defaultCenterScale = "root"`, `C12.default_centres`) root-relative offsets are multiplied per axis and the root row stays where it is;
for any other `c` the coordinates themselves are multiplied. -/
theorem generated_scale (F : Py.Fld K) (hF : ∀ a b : K, F.div a b = a / b) (sx sy sz : K) (c : String)
    (ids pids types : List Int) (rs : List K) (pts : List (Pt K)) (root : Pt K) (h : HasRoot pids pts root) :
    runObj F (scale_init sx sy sz c []) (treeOf ids pids types pts rs)
      = some (treeOf ids pids types
          (pts.map fun p => if c = "root" ∨ c = "soma"
            then (root.1 + sx * (p.1 - root.1), root.2.1 + sy * (p.2.1 - root.2.1), root.2.2 + sz * (p.2.2 - root.2.2))
            else (sx * p.1, sy * p.2.1, sz * p.2.2)) rs) := by
  rw [scale_init_eq]
  simp only [runObj, Option.bind_some]
  rw [callFn_affine F hF _ c (affine_scale3d _ _ _) ids pids types rs pts root h]
  congr 2
  apply mapPts_congr
  intro p
  by_cases hc : c = "root" ∨ c = "soma"
  · simp only [effective, hc, if_true]; exact scale_about_root ..
  · simp only [effective, hc, if_false]; exact scale_origin ..

/-- the root row of a tree scaled about its root stays fixed -/
theorem generated_scale_root_fixed (sx sy sz : K) (pids : List Int) (pts : List (Pt K)) (root : Pt K) (h : HasRoot pids pts root) :
    (pts.map fun p => (root.1 + sx * (p.1 - root.1), root.2.1 + sy * (p.2.1 - root.2.1), root.2.2 + sz * (p.2.2 - root.2.2)))[
      pids.idxOf (-1)]? = some root := by
  simp [h.at_]

/-! ### `RotateX / RotateY / RotateZ`, `Rotate` -/

/-- the map a rotation class applies to every node: the builder's matrix about the stated centre -/
def rotMap (M : List (List K)) (c : String) (root : Pt K) (p : Pt K) : Pt K :=
  applyPoint (effective c M root) p.1 p.2.1 p.2.2

/-- **`RotateX(θ, center=c)(tree)`, `RotateY`, `RotateZ` as translated** (`c s` = cos θ, sin θ): every node is moved by the matrix of
the matching builder about the stated centre -/
theorem generated_rotate_axis (F : Py.Fld K) (hF : ∀ a b : K, F.div a b = a / b) (c s : K) (cen : String)
    (ids pids types : List Int) (rs : List K) (pts : List (Pt K)) (root : Pt K) (h : HasRoot pids pts root) :
    runObj F (rotate_x_init c s cen []) (treeOf ids pids types pts rs)
      = some (treeOf ids pids types (pts.map (rotMap (rotate3d_x c s) cen root)) rs) ∧
    runObj F (rotate_y_init c s cen []) (treeOf ids pids types pts rs)
      = some (treeOf ids pids types (pts.map (rotMap (rotate3d_y c s) cen root)) rs) ∧
    runObj F (rotate_z_init c s cen []) (treeOf ids pids types pts rs)
      = some (treeOf ids pids types (pts.map (rotMap (rotate3d_z c s) cen root)) rs) := by
  refine ⟨?_, ?_, ?_⟩
  · rw [rotate_x_init_eq]; exact callFn_affine F hF _ cen (affine_rotate3d_x _ _) ids pids types rs pts root h
  · rw [rotate_y_init_eq]; exact callFn_affine F hF _ cen (affine_rotate3d_y _ _) ids pids types rs pts root h
  · rw [rotate_z_init_eq]; exact callFn_affine F hF _ cen (affine_rotate3d_z _ _) ids pids types rs pts root h

/-- **`Rotate(n, θ, center=c)(tree)` as translated**, `rotate3d(n, θ)` being the Rodrigues matrix of `Gen/Matrices.lean` -/
theorem generated_rotate (F : Py.Fld K) (hF : ∀ a b : K, F.div a b = a / b) (nx ny nz c s : K) (cen : String)
    (ids pids types : List Int) (rs : List K) (pts : List (Pt K)) (root : Pt K) (h : HasRoot pids pts root) :
    runObj F (rotate_init (rotate3d nx ny nz c s) cen []) (treeOf ids pids types pts rs)
      = some (treeOf ids pids types (pts.map (rotMap (rotate3d nx ny nz c s) cen root)) rs) := by
  rw [rotate_init_eq]; exact callFn_affine F hF _ cen (affine_rotate3d ..) ids pids types rs pts root h

/-- what `rotMap` does, for the axis rotations (`c² + s² = 1`): the chosen centre (the root, or the origin) stays fixed and ALL
inter-node distances are preserved -/
theorem rotMap_axis_rigid (c s : K) (hcs : c * c + s * s = 1) (cen : String) (root : Pt K) :
    (∀ M ∈ [rotate3d_x c s, rotate3d_y c s, rotate3d_z c s],
      (∀ p q : Pt K, d2 (rotMap M cen root p) (rotMap M cen root q) = d2 p q) ∧
      ((cen = "root" ∨ cen = "soma") → rotMap M cen root root = root) ∧
      (¬ (cen = "root" ∨ cen = "soma") → rotMap M cen root (0, 0, 0) = (0, 0, 0))) := by
  obtain ⟨rx, ry, rz⟩ := root
  have hfix := rotate_root_fixed c s rx ry rz
  intro M hM
  simp only [List.mem_cons, List.not_mem_nil, or_false] at hM
  refine ⟨?_, ?_, ?_⟩
  · rintro ⟨x, y, z⟩ ⟨x', y', z'⟩
    by_cases hc : cen = "root" ∨ cen = "soma"
    · simp only [rotMap, effective, hc, if_true]
      have := rotate_axis_isometry c s rx ry rz x y z x' y' z' hcs
      rcases hM with rfl | rfl | rfl
      exacts [this.1, this.2.1, this.2.2]
    · simp only [rotMap, effective, hc, if_false]
      have := rotate_axis_isometry_origin c s x y z x' y' z' hcs
      rcases hM with rfl | rfl | rfl
      exacts [this.1, this.2.1, this.2.2]
  · intro hc
    simp only [rotMap, effective, hc, if_true]
    rcases hM with rfl | rfl | rfl
    exacts [hfix.1, hfix.2.1, hfix.2.2]
  · intro hc
    simp only [rotMap, effective, hc, if_false]
    rcases hM with rfl | rfl | rfl <;>
      simp [applyPoint, mapply, dotK, rotate3d_x, rotate3d_y, rotate3d_z]

/-- Rodrigues rotation about a unit axis, about the origin: all distances preserved, the axis fixed -/
theorem rotMap_rodrigues_rigid (nx ny nz c s : K) (hn : nx * nx + ny * ny + nz * nz = 1) (hcs : c * c + s * s = 1) (cen : String)
    (hc : ¬ (cen = "root" ∨ cen = "soma")) (root : Pt K) :
    (∀ p q : Pt K, d2 (rotMap (rotate3d nx ny nz c s) cen root p) (rotMap (rotate3d nx ny nz c s) cen root q) = d2 p q) ∧
    (∀ t : K, rotMap (rotate3d nx ny nz c s) cen root (t * nx, t * ny, t * nz) = (t * nx, t * ny, t * nz)) := by
  refine ⟨?_, ?_⟩
  · rintro ⟨x, y, z⟩ ⟨x', y', z'⟩
    simp only [rotMap, effective, hc, if_false]
    exact rodrigues_isometry nx ny nz c s x y z x' y' z' hn hcs
  · intro t
    simp only [rotMap, effective, hc, if_false]
    exact rodrigues_fixes_axis nx ny nz c s t hn

/-! ### `Transforms.__call__`: pipelines, and a transform followed by its inverse -/

theorem effective_root (M : List (List K)) (r : Pt K) : effective "root" M r = aboutRoot M r.1 r.2.1 r.2.2 := by
  simp [effective]
theorem effective_soma (M : List (List K)) (r : Pt K) : effective "soma" M r = aboutRoot M r.1 r.2.1 r.2.2 := by
  simp [effective]
theorem effective_origin (M : List (List K)) (r : Pt K) : effective "origin" M r = M := by
  simp [effective]

/-- **`Transforms(t₁, …, tₙ)(tree)` as translated** is the left-to-right composition of its members (the first exception ends it) -/
theorem generated_pipeline {X : Type} [Inhabited X] (fs : List (X → Option X)) (x : X) :
    transforms_call fs x = fs.foldlM (fun x f => f x) x := transforms_call_refines fs x

theorem generated_pipeline_two {X : Type} [Inhabited X] (f g : X → Option X) (x : X) :
    transforms_call [f, g] x = (f x).bind g := by
  rw [transforms_call_refines]
  cases h : f x <;> simp [List.foldlM, h]

/-- two affine transform objects one after the other, on every tree with a root: the second one is applied about ITS centre of the
tree it is given (the root of the moved tree) -/
theorem generated_two_steps (F : Py.Fld K) (hF : ∀ a b : K, F.div a b = a / b) (tm1 tm2 : List (List K)) (c1 c2 : String)
    (h1 : IsAffine tm1) (h2 : IsAffine tm2)
    (ids pids types : List Int) (rs : List K) (pts : List (Pt K)) (root : Pt K) (h : HasRoot pids pts root) :
    transforms_call [callFn F tm1 c1, callFn F tm2 c2] (treeOf ids pids types pts rs)
      = some (treeOf ids pids types
          (pts.map fun p => rotMap tm2 c2 (rotMap tm1 c1 root root) (rotMap tm1 c1 root p)) rs) := by
  rw [generated_pipeline_two, callFn_affine F hF tm1 c1 h1 ids pids types rs pts root h]
  simp only [Option.bind_some]
  have h' : HasRoot pids (mapPts (effective c1 tm1 root) pts) (rotMap tm1 c1 root root) :=
    ⟨h.mem, by simp [mapPts, h.at_, rotMap]⟩
  rw [callFn_affine F hF tm2 c2 h2 ids pids types rs _ _ h']
  simp [mapPts, rotMap, List.map_map, Function.comp_def]

/-- **a transform followed by its inverse restores the original coordinates** — as translated, on whole trees, through the
generated `Transforms.__call__`: `Translate(t)` then `Translate(−t)` (any centres), `Scale(s)` then `Scale(1/s)` (`s ≠ 0` per axis;
both about the origin, or both about the root — which the first step leaves fixed), `RotateZ/X/Y(θ)` then `(−θ)` (both about the origin). -/
theorem generated_inverse_restores (F : Py.Fld K) (hF : ∀ a b : K, F.div a b = a / b) (tx ty tz sx sy sz c s : K)
    (hx : sx ≠ 0) (hy : sy ≠ 0) (hz : sz ≠ 0) (hcs : c * c + s * s = 1) (c1 c2 : String)
    (ids pids types : List Int) (rs : List K) (pts : List (Pt K)) (root : Pt K) (h : HasRoot pids pts root) :
    transforms_call [callFn F (translate3d tx ty tz) c1, callFn F (translate3d (-tx) (-ty) (-tz)) c2] (treeOf ids pids types pts rs)
      = some (treeOf ids pids types pts rs) ∧
    transforms_call [callFn F (scale3d sx sy sz) "origin", callFn F (scale3d (1 / sx) (1 / sy) (1 / sz)) "origin"]
      (treeOf ids pids types pts rs) = some (treeOf ids pids types pts rs) ∧
    transforms_call [callFn F (scale3d sx sy sz) "root", callFn F (scale3d (1 / sx) (1 / sy) (1 / sz)) "root"]
      (treeOf ids pids types pts rs) = some (treeOf ids pids types pts rs) ∧
    transforms_call [callFn F (rotate3d_z c s) "origin", callFn F (rotate3d_z c (-s)) "origin"] (treeOf ids pids types pts rs)
      = some (treeOf ids pids types pts rs) ∧
    transforms_call [callFn F (rotate3d_x c s) "origin", callFn F (rotate3d_x c (-s)) "origin"] (treeOf ids pids types pts rs)
      = some (treeOf ids pids types pts rs) ∧
    transforms_call [callFn F (rotate3d_y c s) "origin", callFn F (rotate3d_y c (-s)) "origin"] (treeOf ids pids types pts rs)
      = some (treeOf ids pids types pts rs) := by
  have inv := fun x y z => inverse_restores tx ty tz sx sy sz c s x y z hx hy hz hcs
  have fin : ∀ g : Pt K → Pt K, (∀ p, g p = p) →
      some (treeOf ids pids types (pts.map g) rs) = some (treeOf ids pids types pts rs) := by
    intro g hg
    have : pts.map g = pts := by
      conv_rhs => rw [← List.map_id pts]
      exact List.map_congr_left (fun p _ => hg p)
    rw [this]
  refine ⟨?_, ?_, ?_, ?_, ?_, ?_⟩
  · rw [generated_two_steps F hF _ _ c1 c2 (affine_translate3d ..) (affine_translate3d ..) ids pids types rs pts root h]
    apply fin
    rintro ⟨x, y, z⟩
    have t1 : ∀ (c : String) (r p : Pt K) (a b d : K), rotMap (translate3d a b d) c r p = (p.1 + a, p.2.1 + b, p.2.2 + d) := by
      intro c r p a b d
      by_cases hc : c = "root" ∨ c = "soma"
      · simp only [rotMap, effective, hc, if_true]; exact translate_about ..
      · simp only [rotMap, effective, hc, if_false]; exact translate_moves ..
    simp [t1]
  · rw [generated_two_steps F hF _ _ _ _ (affine_scale3d ..) (affine_scale3d ..) ids pids types rs pts root h]
    apply fin
    rintro ⟨x, y, z⟩
    simp only [rotMap, effective_origin]
    exact (inv x y z).2.1
  · rw [generated_two_steps F hF _ _ _ _ (affine_scale3d ..) (affine_scale3d ..) ids pids types rs pts root h]
    apply fin
    rintro ⟨x, y, z⟩
    obtain ⟨rx, ry, rz⟩ := root
    simp only [rotMap, effective_root, scale_about_root, scale_root_fixed]
    refine Prod.ext ?_ (Prod.ext ?_ ?_) <;> simp only <;> field_simp <;> ring
  · rw [generated_two_steps F hF _ _ _ _ (affine_rotate3d_z ..) (affine_rotate3d_z ..) ids pids types rs pts root h]
    apply fin
    rintro ⟨x, y, z⟩
    simp only [rotMap, effective_origin]
    exact (inv x y z).2.2.1
  · rw [generated_two_steps F hF _ _ _ _ (affine_rotate3d_x ..) (affine_rotate3d_x ..) ids pids types rs pts root h]
    apply fin
    rintro ⟨x, y, z⟩
    simp only [rotMap, effective_origin]
    exact (inv x y z).2.2.2.1
  · rw [generated_two_steps F hF _ _ _ _ (affine_rotate3d_y ..) (affine_rotate3d_y ..) ids pids types rs pts root h]
    apply fin
    rintro ⟨x, y, z⟩
    simp only [rotMap, effective_origin]
    exact (inv x y z).2.2.2.2

/-! ### non-vacuity: the generated classes evaluated by the kernel on small trees over ℚ -/

abbrev ratFld : Py.Fld ℚ := Py.ratFld
set_option synthInstance.maxSize 1024 in
instance decEqGTree : DecidableEq (GTree ℚ) := inferInstance

/-- `Scale(2, 2, 2)` (default centre, root at (5,5,5)) : the root stays, the offsets double; parents / types / radii untouched -/
example : runObj ratFld (scale_init (2 : ℚ) 2 2 defaultCenterScale []) (treeOf [0, 1, 2] [-1, 0, 1] [1, 3, 3] [(5, 5, 5), (6, 5, 5), (7, 1, 2)] [1, 1, 1])
    = some (treeOf [0, 1, 2] [-1, 0, 1] [1, 3, 3] [(5, 5, 5), (7, 5, 5), (9, -3, -1)] [1, 1, 1]) := by decide +kernel
/-- `center="soma"` is the root as well (a change that loses `"soma"` breaks `RefineAffine.call_root` and this) -/
example : callFn ratFld (scale3d (2 : ℚ) 2 2) "soma" (treeOf [0, 1] [-1, 0] [1, 3] [(5, 5, 5), (6, 5, 5)] [1, 1])
    = some (treeOf [0, 1] [-1, 0] [1, 3] [(5, 5, 5), (7, 5, 5)] [1, 1]) := by decide +kernel
/-- a root that is NOT the first row: the first row whose parent is −1 is the centre -/
example : callFn ratFld (scale3d (2 : ℚ) 2 2) "root" (treeOf [0, 1] [1, -1] [3, 1] [(6, 5, 5), (5, 5, 5)] [1, 1])
    = some (treeOf [0, 1] [1, -1] [3, 1] [(7, 5, 5), (5, 5, 5)] [1, 1]) := by decide +kernel
/-- no root row: `__call__` raises for `center="root"` -/
example : callFn ratFld (scale3d (2 : ℚ) 2 2) "root" (treeOf [0, 1] [1, 0] [3, 1] [(6, 5, 5), (5, 5, 5)] [1, 1]) = none := by decide +kernel
example : runObj ratFld (translate_init (1 : ℚ) 2 3 [("center", "root")]) (treeOf [0, 1] [-1, 0] [1, 3] [(5, 5, 5), (6, 5, 5)] [1, 1])
    = some (treeOf [0, 1] [-1, 0] [1, 3] [(6, 7, 8), (7, 7, 8)] [1, 1]) := by decide +kernel
/-- a quarter turn about z about the root, then `TranslateOrigin`, through `Transforms.__call__` -/
example : transforms_call [fun t => runObj ratFld (rotate_z_init (0 : ℚ) 1 defaultCenterRotateZ []) t,
      fun t => translate_origin ratFld t.1 t.2.1 t.2.2.1 t.2.2.2.1 t.2.2.2.2.1 t.2.2.2.2.2.1 t.2.2.2.2.2.2]
      (treeOf [0, 1] [-1, 0] [1, 3] [(5, 5, 5), (6, 5, 5)] [1, 1])
    = some (treeOf [0, 1] [-1, 0] [1, 3] [(0, 0, 0), (0, 1, 0)] [1, 1]) := by decide +kernel
/-- an unexpected keyword raises (TypeError), as does `center=` given twice -/
example : translate_init (1 : ℚ) 2 3 [("centre", "root")] = none := by decide +kernel
example : scale_init (1 : ℚ) 2 3 "root" [("center", "root")] = none := by decide +kernel
example : HasRoot [-1, 0, 1] [((5 : ℚ), (5 : ℚ), (5 : ℚ)), (6, 5, 5), (7, 1, 2)] (5, 5, 5) := ⟨by decide, by decide⟩
end C12
