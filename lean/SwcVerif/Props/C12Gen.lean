import SwcVerif.Gen.AlgoAffine
namespace C12
end C12
