import SwcVerif.Refine.NodeFeat
import SwcVerif.Gen.AlgoBranchTree
import SwcVerif.Props.C10
/-! # C10 / C11, the feature classes and geometry helpers, tied to the source by the translator (T22 `nodefeat`)

`Tree.length` (core/tree.py), `Path.length / straight_line_distance / tortuosity` (core/path.py), `Node.distance` (core/node.py) and the
classes behind the feature names (`NodeFeatures`, `FurcationFeatures` / `TipFeatures`, `PathFeatures`, `BranchFeatures` of
analysis/features.py) are regenerated on every run (`Gen/AlgoNodeFeat.lean`) over a numeric type `K`; the Euclidean norm is the function
parameter `norm` (no square root exists in `K`): the theorems pin WHICH vectors it is applied to and in which order, for every table. -/
namespace C10
open Gen.Algo RefineNf

variable {K : Type} [Inhabited K] [Add K] [Sub K] [Mul K] [OfNat K 0] [OfNat K 1] [LT K] [DecidableLT K] [LE K] [DecidableLE K]

/-- a tree object with coordinates: ids = positions, every parent of a non-root row is a row, every coordinate row has `d` entries -/
structure GeoTree (pids : List Int) (axyz : List (List K)) (d : Nat) : Prop where
  len : axyz.length = pids.length
  par : ∀ k : Nat, k + 1 < pids.length → 0 ≤ pids.getD (k + 1) 0 ∧ (pids.getD (k + 1) 0).toNat < pids.length
  dim : ∀ r ∈ axyz, r.length = d

theorem GeoTree.row_len {pids : List Int} {axyz : List (List K)} {d : Nat} (h : GeoTree pids axyz d) (i : Int) (hi : Valid axyz i) :
    (row axyz i).length = d := by
  apply h.dim
  unfold row
  rw [List.getD_eq_getElem?_getD, List.getElem?_eq_getElem hi.2]
  simp

/-- **`Tree.length` as translated is the sum over the non-root nodes `1 .. n-1`, in order, of `norm (xyz[i] − xyz[pid i])`** (the sum of the
Euclidean parent–child distances), on every tree object with coordinates -/
theorem generated_tree_length (norm : List K → K) (pids : List Int) (axyz : List (List K)) (d : Nat) (h : GeoTree pids axyz d) :
    nf_tree_length norm (Sub.rangeI pids.length) pids axyz
      = some (Py.Nf.sumK ((List.range (pids.length - 1)).map fun (k : Nat) =>
          Py.Nf.sumK [norm (vec axyz (pids.getD (k + 1) 0) ((k + 1 : Nat) : Int))])) := by
  have hr : ∀ k : Nat, k + 1 < pids.length → (Sub.rangeI pids.length).getD (k + 1) 0 = ((k + 1 : Nat) : Int) := by
    intro k hk
    simp [Sub.rangeI, List.getD_eq_getElem?_getD, hk]
  have hlen : (Sub.rangeI pids.length).length = pids.length := by simp [Sub.rangeI]
  have := tree_length_refines norm (Sub.rangeI pids.length) pids axyz hlen.symm (by
    intro k hk
    rw [hlen] at hk
    rw [hr k hk]
    have hp : Valid axyz (pids.getD (k + 1) 0) := by
      have := h.par k hk
      exact ⟨this.1, by rw [h.len]; exact this.2⟩
    have hc : Valid axyz ((k + 1 : Nat) : Int) := ⟨by omega, by rw [h.len]; simpa using hk⟩
    exact ⟨hp, hc, by rw [h.row_len _ hc, h.row_len _ hp]⟩)
  rw [this, hlen]
  congr 2
  apply List.map_congr_left
  intro k hk
  rw [hr k (by simp at hk; omega)]

/-- **`Path.tortuosity` as translated is straight-line distance / path length, with the source's zero-length guard**: `1` when the
translated `Path.length` `L` is neither below nor above `0`, otherwise `S / L` for the translated `straight_line_distance` `S` -/
theorem generated_tortuosity (F : Py.Fld K) (norm : List K → K) (axyz : List (List K)) (idx : List Int) :
    nf_path_tortuosity F norm axyz idx =
      (nf_path_length norm axyz idx).bind fun L =>
        if ¬ (L < 0) ∧ ¬ (0 < L) then some 1
        else (nf_path_straight norm axyz idx).bind fun S => some (F.div S L) :=
  tortuosity_refines F norm axyz idx

/-- **`Path.straight_line_distance` as translated is `norm (xyz[last] − xyz[first])`** -/
theorem generated_straight_line_distance (norm : List K → K) (axyz : List (List K)) (a : Int) (mid : List Int) (b : Int)
    (ha : Valid axyz a) (hb : Valid axyz b) (hd : (row axyz b).length = (row axyz a).length) :
    nf_path_straight norm axyz (a :: (mid ++ [b])) = some (norm (vec axyz a b)) :=
  straight_refines norm axyz a mid b ha hb hd

/-- **`NodeFeatures.get_radial_distance` as translated is `norm (xyz[i] − xyz[root])` for every node `i`, in order** (the first row must be
typed as soma: otherwise `Tree.soma` raises and so does the feature) -/
theorem generated_radial_distance (norm : List K → K) (ids pids types : List Int) (axyz : List (List K)) (h0 : 0 < axyz.length)
    (hd : ∀ r ∈ axyz, r.length = (row axyz 0).length) :
    (types.head? = some Gen.Consts.type_soma →
      nf_radial_distance norm ids pids types axyz
        = some (axyz.map fun r => norm (List.zipWith (fun x y => x - y) r (row axyz 0)))) ∧
    (types.head? ≠ some Gen.Consts.type_soma → nf_radial_distance norm ids pids types axyz = none) :=
  radial_refines norm ids pids types axyz h0 hd

/-- **`NodeFeatures.get_count` as translated is the number of nodes** (as a one-element float array) -/
theorem generated_node_count (F : Py.Fld K) (ids : List Int) : nf_node_count F ids = some [F.ofInt (ids.length : Int)] :=
  node_count_refines F ids

-- non-vacuity (kernel-evaluated, at `Int` with the squared norm): the tree of `C10.exP` at (0,0,0), (3,4,0), (3,4,5), (6,8,0), (0,0,2)
def nfSq (v : List Int) : Int := v.foldl (fun a x => a + x * x) 0
def exXYZ : List (List Int) := [[0, 0, 0], [3, 4, 0], [3, 4, 5], [6, 8, 0], [0, 0, 2]]
example : GeoTree exP exXYZ 3 := ⟨rfl, by
  intro k hk
  simp [exP] at hk
  have : k = 0 ∨ k = 1 ∨ k = 2 ∨ k = 3 := by omega
  rcases this with rfl | rfl | rfl | rfl <;> decide, by decide⟩
example : nf_tree_length nfSq (Sub.rangeI 5) exP exXYZ = some (25 + 25 + 25 + 4) ∧
          nf_radial_distance nfSq (Sub.rangeI 5) exP [1, 3, 3, 3, 3] exXYZ = some [0, 25, 50, 100, 4] ∧
          nf_radial_distance nfSq (Sub.rangeI 5) exP [3, 3, 3, 3, 3] exXYZ = none ∧
          nf_path_straight nfSq exXYZ [0, 1, 3] = some 100 ∧ nf_path_length nfSq exXYZ [0, 1, 3] = some 50 ∧
          nf_bf_length nfSq 14 (Sub.rangeI 5) exP exXYZ = some [25, 25, 25, 4] := by decide +kernel
/-- `NodeFeatures.get_branch_order` (depth in the branch tree: the root is 0, a furcation does not count itself) and
`LMeasure.branch_order` (furcations on the root path, the node and the root included: `C10.generated_branch_order`) are DIFFERENT
quantities: on `exP` the former gives 0, 1, 2, 2, 1 for the critical nodes 0, 1, 3, 2, 4 (branch-tree order), the latter 1, 2, 2, 2, 1 -/
example : (bt_from_tree 14 (Sub.rangeI 5) exP).bind (fun bt => (nf_branch_order 14 bt.id bt.pid).map fun o => (bt.src, o))
            = some ([0, 1, 3, 2, 4], [0, 1, 2, 2, 1]) ∧
          (Sub.rangeI 5).map (lm_branch_order 7 (Sub.rangeI 5) exP) = [some 1, some 2, some 2, some 2, some 1] := by decide +kernel

end C10
