import SwcVerif.Props.C16AsmGen
import SwcVerif.Refine.ResampleTree
/-! # C16 — the tree-level resampling driver, tied to the source by the translator

`Gen.Algo.resam_tree` is regenerated on every run from `swcgeom/transforms/tree.py::Resampler.__call__`; it CALLS the generated
`BranchTree.from_tree`, a state-passing branch-resampler callback and the generated `BranchTreeAssembler.__call__`.
`RefineResamTree.resam_tree_eq` shows it is exactly their composition; composed with `C16Asm.generated_assemble_wf` the table the
generated driver returns is a well-formed, parent-before-child tree whenever the resampled branch tree represents a rose tree. -/
namespace C16Tree
open Asm Gen.Algo RefineAsm RefineResamTree C16Asm

section
variable {σ : Type} [Inhabited σ] (resample : σ → List Int → σ × List Int)
  (pair : σ → List (List Int) → List Int → σ × List ((List Int) × Int)) (dupFirst dupLast : List Int → Int → Bool)

/-- **generated driver = composition of the generated pieces** (every callback, fuel, input) -/
theorem generated_resample_tree_eq_compose (fuel : Nat) (ids pids : List Int) (cbs : σ) :
    resam_tree resample pair dupFirst dupLast fuel ids pids cbs
      = (bt_from_tree fuel ids pids).bind fun t =>
          bt_assemble pair dupFirst dupLast fuel t.id t.pid (mapDict resample cbs [] t.branches).2 (mapDict resample cbs [] t.branches).1 :=
  resam_tree_eq resample pair dupFirst dupLast fuel ids pids cbs

/-- **the resampled tree is a well-formed sorted tree** (`generated_assemble_wf` composed through the generated driver): if the generated
`from_tree` returns the branch tree `t` and `t` with every branch replaced by what the resampler callback returns represents the rose
tree `root` (`Rep`: children of every key node in pairing order, sample counts after trimming the duplicated end points), then the
generated `Resampler.__call__` returns a table with ids `0 .. n-1`, root first, every parent an earlier row, `1 + weight root` rows
(one per key node and per kept sample), for every fuel ≥ number of key nodes + 1.
PARTIAL in this sense: `Rep` of the resampled branch tree is a hypothesis, not derived from the well-formedness of the input tree. -/
theorem generated_resample_tree_wf_partial (root : BT) (fuel : Nat) (ids pids : List Int) (cbs : σ) (t : BranchTreeObj)
    (ht : bt_from_tree fuel ids pids = some t) (hf : root.size + 1 ≤ fuel)
    (hrep : Rep pair dupFirst dupLast t.id t.pid (mapDict resample cbs [] t.branches).2 root 0) :
    ∃ s' nid npid, resam_tree resample pair dupFirst dupLast fuel ids pids cbs = some (s', (nid, npid)) ∧
      C07.WF npid ∧ npid.length = 1 + weight root ∧ nid = (List.range npid.length).map (fun (k : Nat) => (k : Int)) ∧
      npid.head? = some (-1) ∧ ∀ k (h : k < npid.length), 0 < k → 0 ≤ npid[k] ∧ npid[k] < (k : Int) := by
  rw [resam_tree_eq, ht]
  exact C16Asm.generated_assemble_wf pair dupFirst dupLast t.id t.pid _ root _ fuel hf hrep

end

/-- non-vacuity (kernel-evaluated): the generated driver on the Y-shaped tree `0 ← 1 ← {2, 3}` with a resampler that returns 3, 2, 2
samples (handles 100.., 200.., 300..), pairing in branch order, all end samples duplicates: 1 + (1+1) + (0+1) + (0+1) = 5 rows -/
example :
    resam_tree (σ := Nat)
      (fun s br => (s + 1, (List.range (if s = 0 then 3 else 2)).map fun (k : Nat) => (100 * (s + 1) + k : Int)))
      (fun s bs cs => (s, List.zip bs cs)) (fun _ _ => true) (fun _ _ => true) 9 [0, 1, 2, 3] [-1, 0, 1, 1] 0
      = some (3, ([0, 1, 2, 3, 4], [-1, 0, 1, 2, 2])) := by decide +kernel

end C16Tree
