import SwcVerif.Props.C18Gen
import SwcVerif.Refine.Repair
/-! # C18 root repair, tied to the source by the translator

`Gen.Algo.is_single_root`, `link_roots_to_nearest_`, `sort_nodes_`, `read_swc_fix` (the tail of `io.read_swc` from `# fix swc` on) are
regenerated from `swc_utils/checker.py`, `normalizer.py`, `io.py` on every run.  `RefineRepair.*` show that they compute what the models
compute; composed with `C18.isSingleRoot_total`, `C18.repair_somas`, `C18.repair_nearest_tree` the property is stated about the code as
translated.  Row-numbered ids (`0..n-1`) as in those theorems. -/
namespace C18
open Dsu Gen.Algo RefineRepair Py

/-- the ids `0..n-1` -/
abbrev rowIds (n : Nat) : List Int := (List.range n).map Int.ofNat

/-- the translated `is_single_root` equals the model on every table with distinct ids, with the model's own pass budget -/
theorem generated_isSingleRoot_eq_model (ids pids : List Int) (hnd : ids.Nodup) (hl : ids.length = pids.length) :
    is_single_root (ids.length * ids.length + 2) ids pids = isSingleRoot ids pids := by
  rw [isSingleRoot_refines ids pids hnd hl]; rfl

/-- **The translated `is_single_root` answers on EVERY table whose parents name rows (cycles included), and answers "one weakly
connected component"** -/
theorem generated_isSingleRoot_total (pids : List Int) (hpos : 0 < pids.length)
    (hv : ∀ k (h : k < pids.length), pids[k] = -1 ∨ (0 ≤ pids[k] ∧ pids[k] < pids.length)) :
    ∃ b, is_single_root (pids.length * pids.length + 2) (rowIds pids.length) pids = some b ∧
      (b = true ↔ ∀ x y, x < pids.length → y < pids.length → WConn pids.length (ptr pids) x y) := by
  obtain ⟨b, hb, hiff⟩ := isSingleRoot_total pids hpos hv
  refine ⟨b, ?_, hiff⟩
  have := generated_isSingleRoot_eq_model (rowIds pids.length) pids (range_nodup _) (by simp)
  simp only [rowIds, List.length_map, List.length_range] at this
  rw [← hb]; exact this

example : is_single_root 27 (rowIds 5) [1, 2, 0, 1, -1] = some false ∧ is_single_root 27 (rowIds 5) [1, 2, 0, 1, 3] = some true := by
  decide +kernel

/-- the translated `link_roots_to_nearest_` returns the model's parent column on every table with distinct ids and a root, for every
distance function (`normOf n dist2` is the callback standing for `np.linalg.norm(…, axis=1)`) -/
theorem generated_linkRoots_eq_model {σ : Type} [Inhabited σ] (ids pids : List Int) (hnd : ids.Nodup) (hl : ids.length = pids.length)
    (hr : (-1 : Int) ∈ pids) (dist2 : Nat → Nat → Int) (cbs : σ) :
    link_roots_to_nearest_ (normOf ids.length dist2) (ids.length * ids.length + 2) ids pids cbs =
      (linkRootsToNearest ids pids dist2).map (fun p => (p, cbs, ())) :=
  linkRoots_refines ids pids hnd hl hr dist2 cbs

theorem root_mem (pids : List Int) (hr : firstRootLoc pids < pids.length) : (-1 : Int) ∈ pids := by
  have := firstRootLoc_spec pids hr
  rw [← this]; exact List.getElem_mem _

/-- **`fix_roots="nearest"` as translated, on any forest, returns a single tree** (`C18.repair_nearest_tree` carried over to the generated
function): it returns; exactly the first root stays a root; every row that had a parent keeps it; every parent names a row; some measure
drops along every parent pointer of the result (no cycle) -/
theorem generated_repair_nearest_tree {σ : Type} [Inhabited σ] (pids : List Int) (dp : Nat → Nat) (dist2 : Nat → Nat → Int) (cbs : σ)
    (hv : ∀ k (h : k < pids.length), pids[k] = -1 ∨ (0 ≤ pids[k] ∧ pids[k] < pids.length))
    (hd : ∀ k (h : k < pids.length), pids[k] ≠ -1 → dp (pids[k]).toNat < dp k)
    (hb : ∀ k, k < pids.length → dp k < pids.length)
    (hr : firstRootLoc pids < pids.length) :
    ∃ (res : List Int) (dp' : Nat → Nat),
      link_roots_to_nearest_ (normOf pids.length dist2) (pids.length * pids.length + 2) (rowIds pids.length) pids cbs = some (res, cbs, ()) ∧
      ∃ hl : res.length = pids.length,
      (∀ k (h : k < res.length), res[k] = -1 ↔ k = firstRootLoc pids) ∧
      (∀ k (h : k < res.length), pids[k]'(hl ▸ h) ≠ -1 → res[k] = pids[k]'(hl ▸ h)) ∧
      (∀ k (h : k < res.length), res[k] ≠ -1 →
        0 ≤ res[k] ∧ res[k] < pids.length ∧ dp' (res[k]).toNat < dp' k) := by
  obtain ⟨res, dp', hres, hl, h1, h2, h3⟩ := repair_nearest_tree pids dp dist2 hv hd hb hr
  refine ⟨res, dp', ?_, hl, h1, h2, h3⟩
  have := generated_linkRoots_eq_model (σ := σ) (rowIds pids.length) pids (range_nodup _) (by simp) (root_mem pids hr) dist2 cbs
  simp only [rowIds, List.length_map, List.length_range] at this
  rw [this, hres]; rfl

-- non-vacuity: three fragments on a line (the example of `repair_nearest_tree`), run through the GENERATED function
example : link_roots_to_nearest_ (normOf (σ := Unit) 5
      (fun i j => let xs : List Int := [0, 1, 5, 6, 8]; (xs.getD i 0 - xs.getD j 0) * (xs.getD i 0 - xs.getD j 0))) 27
    (rowIds 5) [-1, 0, -1, 2, -1] () = some ([-1, 0, 4, 2, 1], (), ()) := by decide +kernel

end C18
