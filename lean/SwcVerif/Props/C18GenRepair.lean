import SwcVerif.Props.C18Gen
import SwcVerif.Refine.Repair
/-! # C18 root repair, tied to the source by the translator

`Gen.Algo.is_single_root`, `link_roots_to_nearest_`, `sort_nodes_`, `read_swc_fix` (the tail of `io.read_swc` from `# fix swc` on) are
regenerated from `swc_utils/checker.py`, `normalizer.py`, `io.py` on every run.  `RefineRepair.*` show that they compute what the models
compute; composed with `C18.isSingleRoot_total`, `C18.repair_somas`, `C18.repair_nearest_tree` the property is stated about the code as
translated.  Row-numbered ids (`0..n-1`) as in those theorems. -/
namespace C18
open Dsu Gen.Algo RefineRepair Py

/-- the ids `0..n-1` -/
abbrev rowIds (n : Nat) : List Int := (List.range n).map Int.ofNat

/-- the translated `is_single_root` equals the model on every table with distinct ids, with the model's own pass budget -/
theorem generated_isSingleRoot_eq_model (ids pids : List Int) (hnd : ids.Nodup) (hl : ids.length = pids.length) :
    is_single_root (ids.length * ids.length + 2) ids pids = isSingleRoot ids pids := by
  rw [isSingleRoot_refines ids pids hnd hl]; rfl

/-- **The translated `is_single_root` answers on EVERY table whose parents name rows (cycles included), and answers "one weakly
connected component"** -/
theorem generated_isSingleRoot_total (pids : List Int) (hpos : 0 < pids.length)
    (hv : ∀ k (h : k < pids.length), pids[k] = -1 ∨ (0 ≤ pids[k] ∧ pids[k] < pids.length)) :
    ∃ b, is_single_root (pids.length * pids.length + 2) (rowIds pids.length) pids = some b ∧
      (b = true ↔ ∀ x y, x < pids.length → y < pids.length → WConn pids.length (ptr pids) x y) := by
  obtain ⟨b, hb, hiff⟩ := isSingleRoot_total pids hpos hv
  refine ⟨b, ?_, hiff⟩
  have := generated_isSingleRoot_eq_model (rowIds pids.length) pids (range_nodup _) (by simp)
  simp only [rowIds, List.length_map, List.length_range] at this
  rw [← hb]; exact this

example : is_single_root 27 (rowIds 5) [1, 2, 0, 1, -1] = some false ∧ is_single_root 27 (rowIds 5) [1, 2, 0, 1, 3] = some true := by
  decide +kernel

/-- the translated `link_roots_to_nearest_` returns the model's parent column on every table with distinct ids and a root, for every
distance function (`normOf n dist2` is the callback standing for `np.linalg.norm(…, axis=1)`) -/
theorem generated_linkRoots_eq_model {σ : Type} [Inhabited σ] (ids pids : List Int) (hnd : ids.Nodup) (hl : ids.length = pids.length)
    (hr : (-1 : Int) ∈ pids) (dist2 : Nat → Nat → Int) (cbs : σ) :
    link_roots_to_nearest_ (normOf ids.length dist2) (ids.length * ids.length + 2) ids pids cbs =
      (linkRootsToNearest ids pids dist2).map (fun p => (p, cbs, ())) :=
  linkRoots_refines ids pids hnd hl hr dist2 cbs

theorem root_mem (pids : List Int) (hr : firstRootLoc pids < pids.length) : (-1 : Int) ∈ pids := by
  have := firstRootLoc_spec pids hr
  rw [← this]; exact List.getElem_mem _

/-- **`fix_roots="nearest"` as translated, on any forest, returns a single tree** (`C18.repair_nearest_tree` carried over to the generated
function): it returns; exactly the first root stays a root; every row that had a parent keeps it; every parent names a row; some measure
drops along every parent pointer of the result (no cycle) -/
theorem generated_repair_nearest_tree {σ : Type} [Inhabited σ] (pids : List Int) (dp : Nat → Nat) (dist2 : Nat → Nat → Int) (cbs : σ)
    (hv : ∀ k (h : k < pids.length), pids[k] = -1 ∨ (0 ≤ pids[k] ∧ pids[k] < pids.length))
    (hd : ∀ k (h : k < pids.length), pids[k] ≠ -1 → dp (pids[k]).toNat < dp k)
    (hb : ∀ k, k < pids.length → dp k < pids.length)
    (hr : firstRootLoc pids < pids.length) :
    ∃ (res : List Int) (dp' : Nat → Nat),
      link_roots_to_nearest_ (normOf pids.length dist2) (pids.length * pids.length + 2) (rowIds pids.length) pids cbs = some (res, cbs, ()) ∧
      ∃ hl : res.length = pids.length,
      (∀ k (h : k < res.length), res[k] = -1 ↔ k = firstRootLoc pids) ∧
      (∀ k (h : k < res.length), pids[k]'(hl ▸ h) ≠ -1 → res[k] = pids[k]'(hl ▸ h)) ∧
      (∀ k (h : k < res.length), res[k] ≠ -1 →
        0 ≤ res[k] ∧ res[k] < pids.length ∧ dp' (res[k]).toNat < dp' k) := by
  obtain ⟨res, dp', hres, hl, h1, h2, h3⟩ := repair_nearest_tree pids dp dist2 hv hd hb hr
  refine ⟨res, dp', ?_, hl, h1, h2, h3⟩
  have := generated_linkRoots_eq_model (σ := σ) (rowIds pids.length) pids (range_nodup _) (by simp) (root_mem pids hr) dist2 cbs
  simp only [rowIds, List.length_map, List.length_range] at this
  rw [this, hres]; rfl

-- non-vacuity: three fragments on a line (the example of `repair_nearest_tree`), run through the GENERATED function
example : link_roots_to_nearest_ (normOf (σ := Unit) 5
      (fun i j => let xs : List Int := [0, 1, 5, 6, 8]; (xs.getD i 0 - xs.getD j 0) * (xs.getD i 0 - xs.getD j 0))) 27
    (rowIds 5) [-1, 0, -1, 2, -1] () = some ([-1, 0, 4, 2, 1], (), ()) := by decide +kernel

/-! ## the repair dispatch of `read_swc` (from `# fix swc` to the end), as translated -/

/-- **an unknown `fix_roots` raises when there are several roots** (whatever the other options) -/
theorem generated_readFix_unknown_raises {σ : Type} [Inhabited σ] (norm : σ → Int → σ × List Int) (fuel : Nat)
    (ids pids types rs : List Int) (m : String) (srt rst : Bool) (cbs : σ)
    (h1 : m ≠ "somas") (h2 : m ≠ "nearest") (hc : countNonzero (eqMask pids (-1)) > 1) :
    read_swc_fix norm fuel ids pids types rs (some m) srt rst cbs = none := by
  rw [readFix_stages]; simp [fixStage, hc, h1, h2]

/-- **… and only then: with at most one root `fix_roots` is never looked at** — any value, known or not, gives what `fix_roots=False` gives -/
theorem generated_readFix_few_roots {σ : Type} [Inhabited σ] (norm : σ → Int → σ × List Int) (fuel : Nat)
    (ids pids types rs : List Int) (m : String) (srt rst : Bool) (cbs : σ) (hc : ¬ countNonzero (eqMask pids (-1)) > 1) :
    read_swc_fix norm fuel ids pids types rs (some m) srt rst cbs = read_swc_fix norm fuel ids pids types rs none srt rst cbs := by
  rw [readFix_stages, readFix_stages]; simp [fixStage, hc]

/-- **`fix_roots=False` (default options otherwise) leaves the columns exactly as `reset_index_` alone gives them** — several roots are
kept, each with its `-1` — and returns the warnings of the check stage on that table (an exception exactly when `is_single_root` raises) -/
theorem generated_readFix_plain {σ : Type} [Inhabited σ] (norm : σ → Int → σ × List Int) (fuel : Nat)
    (ids pids types rs : List Int) (cbs : σ) (hl : ids.length = pids.length) (hr : (-1 : Int) ∈ pids) :
    read_swc_fix norm fuel ids pids types rs none false true cbs =
      (checkStage fuel (ids.map (fun i => i - ids.getD (firstRootLoc pids) 0))
          (pids.map (fun p => if p = -1 then -1 else p - ids.getD (firstRootLoc pids) 0)) rs).map fun w =>
        (ids.map (fun i => i - ids.getD (firstRootLoc pids) 0),
         pids.map (fun p => if p = -1 then -1 else p - ids.getD (firstRootLoc pids) 0), types, rs, w, cbs, ()) := by
  rw [readFix_stages]; simp [fixStage, normStage, generated_resetIndex ids pids hl hr]

theorem rowIds_getD (n k : Nat) (h : k < n) : (rowIds n).getD k 0 = (k : Int) := by
  simp [rowIds, List.getD_eq_getElem?_getD, h]

/-- the checks of `read_swc` return on every row-numbered table whose parents name rows -/
theorem checkStage_total (pids rs : List Int) (hpos : 0 < pids.length)
    (hv : ∀ k (h : k < pids.length), pids[k] = -1 ∨ (0 ≤ pids[k] ∧ pids[k] < pids.length)) :
    ∃ w, checkStage (pids.length * pids.length + 2) (rowIds pids.length) pids rs = some w := by
  obtain ⟨b, hb, _⟩ := generated_isSingleRoot_total pids hpos hv
  have hne : (eqMask pids (-1)).isEmpty = false := by
    cases pids with
    | nil => simp at hpos
    | cons a l => simp [eqMask]
  unfold checkStage
  rw [hb]
  simp [argmaxMask, hne]

/-- **`fix_roots="somas"` as translated, several roots**: the call returns, with the model's columns; exactly the first root of the input is
a root afterwards and every row that had a parent keeps it (ids, radii untouched; `sort_nodes=False`, `reset_index=False`) -/
theorem generated_readFix_somas {σ : Type} [Inhabited σ] (norm : σ → Int → σ × List Int) (pids types rs : List Int) (cbs : σ)
    (hv : ∀ k (h : k < pids.length), pids[k] = -1 ∨ (0 ≤ pids[k] ∧ pids[k] < pids.length))
    (hr : firstRootLoc pids < pids.length) (hc : countNonzero (eqMask pids (-1)) > 1) :
    ∃ (res : List Int) (tys w : List Int),
      read_swc_fix norm (pids.length * pids.length + 2) (rowIds pids.length) pids types rs (some "somas") false false cbs =
        some (rowIds pids.length, res, tys, rs, w, cbs, ()) ∧
      ∃ hl : res.length = pids.length,
      (∀ k (h : k < res.length), res[k] = -1 ↔ k = firstRootLoc pids) ∧
      (∀ k (h : k < res.length), pids[k]'(hl ▸ h) ≠ -1 → res[k] = pids[k]'(hl ▸ h)) := by
  have hid : ∀ i ∈ rowIds pids.length, i ≠ -1 := by
    intro i hi
    simp only [rowIds, List.mem_map] at hi
    obtain ⟨m, _, rfl⟩ := hi
    have : (0 : Int) ≤ Int.ofNat m := Int.natCast_nonneg m
    omega
  obtain ⟨hlen, hroot, hkeep, hother, _⟩ := repair_somas (rowIds pids.length) pids types (some 1) (by simp) hr hid
  generalize hres : markRootsAsSomas (rowIds pids.length) pids types (some 1) = R at hlen hroot hkeep hother
  have hvR : ∀ k (h : k < R.1.length), R.1[k] = -1 ∨ (0 ≤ R.1[k] ∧ R.1[k] < R.1.length) := by
    intro k h
    have h' : k < pids.length := hlen ▸ h
    by_cases e : pids[k] = -1
    · by_cases ek : k = firstRootLoc pids
      · left; exact (hroot k h).2 ek
      · right
        rw [hother k h h' e ek, rowIds_getD _ _ hr, hlen]
        omega
    · right
      rw [hkeep k h h' e, hlen]
      rcases hv k h' with c | c
      · exact absurd c e
      · exact c
  obtain ⟨w, hw⟩ := checkStage_total R.1 rs (by omega) hvR
  rw [hlen] at hw
  refine ⟨R.1, R.2, w, ?_, hlen, hroot, fun k h => hkeep k h (hlen ▸ h)⟩
  rw [readFix_stages]
  simp [fixStage, hc, generated_markRoots_eq_model (rowIds pids.length) pids types (some 1) (by simp) (root_mem pids hr), hres, normStage, hw]

/-- **`fix_roots="nearest"` as translated, on any forest with several roots, for any distances**: the call returns; exactly the first root
of the input is a root afterwards, every row that had a parent keeps it, every parent names a row, and some measure drops along every
parent pointer (one tree); ids, types, radii untouched (`sort_nodes=False`, `reset_index=False`) -/
theorem generated_readFix_nearest {σ : Type} [Inhabited σ] (pids types rs : List Int) (dp : Nat → Nat) (dist2 : Nat → Nat → Int) (cbs : σ)
    (hv : ∀ k (h : k < pids.length), pids[k] = -1 ∨ (0 ≤ pids[k] ∧ pids[k] < pids.length))
    (hd : ∀ k (h : k < pids.length), pids[k] ≠ -1 → dp (pids[k]).toNat < dp k)
    (hb : ∀ k, k < pids.length → dp k < pids.length)
    (hr : firstRootLoc pids < pids.length) (hc : countNonzero (eqMask pids (-1)) > 1) :
    ∃ (res w : List Int) (dp' : Nat → Nat),
      read_swc_fix (normOf pids.length dist2) (pids.length * pids.length + 2) (rowIds pids.length) pids types rs (some "nearest") false false cbs =
        some (rowIds pids.length, res, types, rs, w, cbs, ()) ∧
      ∃ hl : res.length = pids.length,
      (∀ k (h : k < res.length), res[k] = -1 ↔ k = firstRootLoc pids) ∧
      (∀ k (h : k < res.length), pids[k]'(hl ▸ h) ≠ -1 → res[k] = pids[k]'(hl ▸ h)) ∧
      (∀ k (h : k < res.length), res[k] ≠ -1 → 0 ≤ res[k] ∧ res[k] < pids.length ∧ dp' (res[k]).toNat < dp' k) := by
  obtain ⟨res, dp', hres, hl, h1, h2, h3⟩ := generated_repair_nearest_tree (σ := σ) pids dp dist2 cbs hv hd hb hr
  have hvR : ∀ k (h : k < res.length), res[k] = -1 ∨ (0 ≤ res[k] ∧ res[k] < res.length) := by
    intro k h
    by_cases e : res[k] = -1
    · exact Or.inl e
    · right; rw [hl]; exact ⟨(h3 k h e).1, (h3 k h e).2.1⟩
  obtain ⟨w, hw⟩ := checkStage_total res rs (by omega) hvR
  rw [hl] at hw
  refine ⟨res, w, dp', ?_, hl, h1, h2, h3⟩
  rw [readFix_stages]
  simp [fixStage, hc, hres, normStage, hw]

-- non-vacuity (kernel-evaluated; parent column, radii, warnings of the result): three fragments; "nearest", "somas", an unknown mode, no repair
example : (read_swc_fix (normOf (σ := Unit) 5 (fun i j => let xs : List Int := [0, 1, 5, 6, 8]; (xs.getD i 0 - xs.getD j 0) * (xs.getD i 0 - xs.getD j 0)))
    27 (rowIds 5) [-1, 0, -1, 2, -1] [1, 3, 3, 3, 3] [4, 4, 0, 4, 4] (some "nearest") false false ()).map (fun r => (r.2.1, r.2.2.2.1, r.2.2.2.2.1)) =
    some ([-1, 0, 4, 2, 1], [4, 4, 0, 4, 4], [2]) := by decide +kernel
example : (read_swc_fix (normOf (σ := Unit) 5 (fun _ _ => 0)) 27 (rowIds 5) [-1, 0, -1, 2, -1] [1, 3, 3, 3, 3] [4, 4, 4, 4, 4] (some "somas") false true ()).map
    (fun r => (r.2.1, r.2.2.2.1, r.2.2.2.2.1)) = some ([-1, 0, 0, 2, 0], [4, 4, 4, 4, 4], []) := by decide +kernel
example : (read_swc_fix (normOf (σ := Unit) 5 (fun _ _ => 0)) 27 (rowIds 5) [-1, 0, -1, 2, -1] [1, 3, 3, 3, 3] [4, 4, 4, 4, 4] (some "soma") false true ()).isNone = true ∧
    (read_swc_fix (normOf (σ := Unit) 5 (fun _ _ => 0)) 27 (rowIds 5) [-1, 0, -1, 2, -1] [1, 3, 3, 3, 3] [4, 4, 4, 4, 4] none false true ()).map
      (fun r => (r.2.1, r.2.2.2.1, r.2.2.2.2.1)) = some ([-1, 0, -1, 2, -1], [4, 4, 4, 4, 4], [0]) := by decide +kernel

end C18
