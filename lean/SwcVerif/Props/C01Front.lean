import SwcVerif.Props.C01Gen
import SwcVerif.Props.C02Front
/-! # C01 through the whole translated reader front end

`C01.generated_write_generated_read` (generated writer, then the generated read loop) restated through `ReadFront.parseSwcFull`: the
generated `FileReader.__init__ / __enter__`, `detect_encoding`, `extras = …`, `names.cols()` and the generated loop - for EVERY way of
handing the written text to `parse_swc` (a text stream, a `BytesIO`, a file name; any `encoding`, any chardet answer), provided the world
delivers the lines of the written text (`linesRead … = splitLines text`: the decoding of what was written is CPython's). -/
namespace C01
open SwcText Gen.Algo RefineWriter RefineReadFront ReadFront Py

variable {F : Type} [Inhabited F] [Add F] [Sub F] [Mul F] [OfNat F 0] [OfNat F 1] [LT F] [DecidableLT F] [LE F] [DecidableLE F]
variable (get : String → Py.Col WF)

/-- **generated writer, then the generated reader front end + read loop**: whatever the source kind and the encoding options, and whether
`extra_cols` is `None` or `[]`, `parse_swc` returns the table of the written rows (shifted) under the keys `names.cols()`, the kept comments,
no "fields ignored" warning, and has closed the file; the only warning possible is the low-confidence one of `detect_encoding` -/
theorem generated_write_generated_read_front (rows : List WRow) (hr : Reads get (tblOf rows)) (hpos : Positions rows)
    (self : SWCLike) (source : BoolOrStr) (wc : Bool) (off : Nat) (hnb : NoBreaks self source)
    (hp : ∀ w ∈ rows, w.pid = -1 ∨ 0 ≤ w.pid) (linesOf : Src → Py.Stream Str) (nm : SWCNames7) (xs : Option (List String))
    (hxs : normExtras xs = []) (src : Src) (encoding : String) (lowc : F) (chardet : Option String × F) :
    ∃ text, swclike_to_swc mfmt4 get self source wc (off : Int) = some text ∧
      (linesRead linesOf src encoding chardet.1 = ⟨splitLines text.toList, none⟩ →
        parseSwcFull linesOf (C02.mRowOf 0) C02.mCommentOf C02.mIsHeader C02.mBlank nm xs src encoding lowc chardet
          = some (detectWarn src encoding lowc chardet, [], ⟨some (), true⟩,
              .ok (C02.tableOf (namesCols nm) [] ((rows.map (shifted off)).map C02.fieldsOf),
                   ((written (sourceStr self source) wc (self.comments.map String.toList)).map readBack).filter keepComment))) := by
  obtain ⟨text, h1, h2⟩ := generated_write_generated_read get rows hr hpos self source wc off hnb hp (namesCols nm) (namesCols_length nm)
    ⟨some (), false⟩
  refine ⟨text, h1, fun hl => ?_⟩
  rw [parseSwcFull_eq, hxs, hl, h2]
  rfl

end C01
