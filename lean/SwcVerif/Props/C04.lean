import SwcVerif.Proofs.Traverse
/-! # C04 — tree traversal is structural recursion, at any depth

Property theorems about the model `Trav.run` of `_traverse_dfs` (tied to the code by the
correspondence suite `c04.trav`).  `Trav.spec` *is* the property read as a program: `enter` once
per node with the value the parent's `enter` returned (nothing for the start node), then the
children (last table row first), then `leave` once with the children's values in table order. -/
namespace C04
open Trav
variable {σ T K : Type}

/-- **Core theorem.** For every table whose subtree at `r.id` is the rose `r` (any shape, any
depth, any distinct numbering), the loop started at `r.id` and run for `2·|r|` iterations has
emptied its stack, threaded the callbacks' state exactly like structural recursion, and holds
the start node's value.  No recursion in the machine ⇒ no depth limit. -/
theorem traverse_eq_spec (ids pids : List Int) (r : Rose) (h : Represents r ids pids)
    (enter : σ → Int → Option T → σ × T) (leave : σ → Int → List K → σ × K) (s : σ) :
    let st := run (tableKids ids pids) enter leave (2 * r.size) (init r.id s)
    st.stack = [] ∧ st.s = (spec enter leave r none s).1 ∧
      st.vals r.id = some (spec enter leave r none s).2 := by
  have := main (tableKids ids pids) enter leave r h.1 h.2 [] (fun _ => none) (fun _ => none) s
  obtain ⟨h1, h2, h3, _, _⟩ := this
  exact ⟨h1, h2, h3⟩

/-- termination with exactly `2·|subtree|` iterations: more fuel changes nothing. -/
theorem fuel_suffices (ids pids : List Int) (r : Rose) (h : Represents r ids pids)
    (enter : σ → Int → Option T → σ × T) (leave : σ → Int → List K → σ × K) (s : σ) (extra : Nat) :
    run (tableKids ids pids) enter leave (2 * r.size + extra) (init r.id s)
      = run (tableKids ids pids) enter leave (2 * r.size) (init r.id s) := by
  rw [run_add]
  apply run_none
  have := (traverse_eq_spec ids pids r h enter leave s).1
  simp only [step]
  rw [this]

/-- values of nodes outside the subtree are never written, their `params` never touched -/
theorem outside_untouched (ids pids : List Int) (r : Rose) (h : Represents r ids pids)
    (enter : σ → Int → Option T → σ × T) (leave : σ → Int → List K → σ × K) (s : σ) (j : Int) (hj : j ∉ r.ids) :
    (run (tableKids ids pids) enter leave (2 * r.size) (init r.id s)).vals j = none := by
  have := main (tableKids ids pids) enter leave r h.1 h.2 [] (fun _ => none) (fun _ => none) s
  exact this.2.2.2.1 j hj

/-! ## what the specification says about call counts

Instrument arbitrary callbacks with a log of the ids they are called on. -/

def enterI (enter : σ → Int → Option T → σ × T) : σ × List Int → Int → Option T → (σ × List Int) × T :=
  fun s i pv => let r := enter s.1 i pv; ((r.1, i :: s.2), r.2)
def leaveI (leave : σ → Int → List K → σ × K) : σ × List Int → Int → List K → (σ × List Int) × K :=
  fun s i ks => let r := leave s.1 i ks; ((r.1, i :: s.2), r.2)
def noLogE (enter : σ → Int → Option T → σ × T) : σ × List Int → Int → Option T → (σ × List Int) × T :=
  fun s i pv => let r := enter s.1 i pv; ((r.1, s.2), r.2)
def noLogL (leave : σ → Int → List K → σ × K) : σ × List Int → Int → List K → (σ × List Int) × K :=
  fun s i ks => let r := leave s.1 i ks; ((r.1, s.2), r.2)

-- order of the `enter` calls: node, then kids from the last to the first
mutual
def enterOrder : Rose → List Int
  | .node i ks => i :: enterOrderRev ks
def enterOrderRev : List Rose → List Int
  | [] => []
  | r :: rs => enterOrderRev rs ++ enterOrder r
end
-- order of the `leave` calls: kids from the last to the first, then the node
mutual
def leaveOrder : Rose → List Int
  | .node i ks => leaveOrderRev ks ++ [i]
def leaveOrderRev : List Rose → List Int
  | [] => []
  | r :: rs => leaveOrderRev rs ++ leaveOrder r
end

mutual
theorem enterOrder_perm : ∀ r : Rose, (enterOrder r).Perm r.ids
  | .node i ks => by simp only [enterOrder, Rose.ids]; exact (enterOrderRev_perm ks).cons _
theorem enterOrderRev_perm : ∀ ks : List Rose, (enterOrderRev ks).Perm (idsL ks)
  | [] => by simp [enterOrderRev, idsL]
  | r :: rs => by
    simp only [enterOrderRev, idsL]
    exact List.perm_append_comm.trans ((enterOrder_perm r).append (enterOrderRev_perm rs))
end
mutual
theorem leaveOrder_perm : ∀ r : Rose, (leaveOrder r).Perm r.ids
  | .node i ks => by
    simp only [leaveOrder, Rose.ids]
    exact (List.perm_append_comm).trans (by simpa using (leaveOrderRev_perm ks).cons i)
theorem leaveOrderRev_perm : ∀ ks : List Rose, (leaveOrderRev ks).Perm (idsL ks)
  | [] => by simp [leaveOrderRev, idsL]
  | r :: rs => by
    simp only [leaveOrderRev, idsL]
    exact List.perm_append_comm.trans ((leaveOrder_perm r).append (leaveOrderRev_perm rs))
end

mutual
theorem spec_enter_log (enter : σ → Int → Option T → σ × T) (leave : σ → Int → List K → σ × K) :
    ∀ (r : Rose) (pv : Option T) (s : σ) (l : List Int),
    spec (enterI enter) (noLogL leave) r pv (s, l)
      = (((spec enter leave r pv s).1, (enterOrder r).reverse ++ l), (spec enter leave r pv s).2)
  | .node i ks, pv, s, l => by
    simp only [spec, enterI, noLogL, enterOrder]
    have := specRev_enter_log enter leave ks (enter s i pv).2 (enter s i pv).1 (i :: l)
    simp [enterI, noLogL] at this ⊢
    simp [this]
theorem specRev_enter_log (enter : σ → Int → Option T → σ × T) (leave : σ → Int → List K → σ × K) :
    ∀ (ks : List Rose) (cur : T) (s : σ) (l : List Int),
    specRev (enterI enter) (noLogL leave) ks cur (s, l)
      = (((specRev enter leave ks cur s).1, (enterOrderRev ks).reverse ++ l), (specRev enter leave ks cur s).2)
  | [], cur, s, l => by simp [specRev, enterOrderRev]
  | r :: rs, cur, s, l => by
    simp only [specRev, enterOrderRev]
    rw [specRev_enter_log enter leave rs cur s l, spec_enter_log enter leave r]
    simp
end

mutual
theorem spec_leave_log (enter : σ → Int → Option T → σ × T) (leave : σ → Int → List K → σ × K) :
    ∀ (r : Rose) (pv : Option T) (s : σ) (l : List Int),
    spec (noLogE enter) (leaveI leave) r pv (s, l)
      = (((spec enter leave r pv s).1, (leaveOrder r).reverse ++ l), (spec enter leave r pv s).2)
  | .node i ks, pv, s, l => by
    simp only [spec, leaveI, noLogE, leaveOrder]
    have := specRev_leave_log enter leave ks (enter s i pv).2 (enter s i pv).1 l
    simp [leaveI, noLogE] at this ⊢
    simp [this]
theorem specRev_leave_log (enter : σ → Int → Option T → σ × T) (leave : σ → Int → List K → σ × K) :
    ∀ (ks : List Rose) (cur : T) (s : σ) (l : List Int),
    specRev (noLogE enter) (leaveI leave) ks cur (s, l)
      = (((specRev enter leave ks cur s).1, (leaveOrderRev ks).reverse ++ l), (specRev enter leave ks cur s).2)
  | [], cur, s, l => by simp [specRev, leaveOrderRev]
  | r :: rs, cur, s, l => by
    simp only [specRev, leaveOrderRev]
    rw [specRev_leave_log enter leave rs cur s l, spec_leave_log enter leave r]
    simp
end

/-- `enter` is called exactly once for each node of the subtree and for no other node: the
ids it is called on, in call order, are a permutation of the subtree's (distinct) ids. -/
theorem enter_once_per_subtree_node (ids pids : List Int) (r : Rose) (h : Represents r ids pids)
    (enter : σ → Int → Option T → σ × T) (leave : σ → Int → List K → σ × K) (s : σ) :
    let st := run (tableKids ids pids) (enterI enter) (noLogL leave) (2 * r.size) (init r.id (s, []))
    st.s.2.reverse = enterOrder r ∧ st.s.2.Perm r.ids ∧ st.s.2.Nodup ∧ (∀ j, j ∉ r.ids → j ∉ st.s.2) := by
  have h2 := (traverse_eq_spec ids pids r h (enterI enter) (noLogL leave) (s, [])).2.1
  simp only at h2 ⊢
  rw [h2, spec_enter_log]
  simp only [List.append_nil, List.reverse_reverse]
  have hp : (enterOrder r).reverse.Perm r.ids := (List.reverse_perm _).trans (enterOrder_perm r)
  exact ⟨trivial, hp, hp.nodup_iff.2 h.2, fun j hj hm => hj (hp.mem_iff.1 hm)⟩

/-- `leave` likewise: exactly once per subtree node, children before their parent. -/
theorem leave_once_per_subtree_node (ids pids : List Int) (r : Rose) (h : Represents r ids pids)
    (enter : σ → Int → Option T → σ × T) (leave : σ → Int → List K → σ × K) (s : σ) :
    let st := run (tableKids ids pids) (noLogE enter) (leaveI leave) (2 * r.size) (init r.id (s, []))
    st.s.2.reverse = leaveOrder r ∧ st.s.2.Perm r.ids ∧ st.s.2.Nodup := by
  have h2 := (traverse_eq_spec ids pids r h (noLogE enter) (leaveI leave) (s, [])).2.1
  simp only at h2 ⊢
  rw [h2, spec_leave_log]
  simp only [List.append_nil, List.reverse_reverse]
  have hp : (leaveOrder r).reverse.Perm r.ids := (List.reverse_perm _).trans (leaveOrder_perm r)
  exact ⟨trivial, hp, hp.nodup_iff.2 h.2⟩

/-- the value handed to a child's `enter` is what the parent's `enter` returned; the list handed
to `leave` is the children's `leave` values in table order (read off `spec` for a two-level tree;
deeper levels are the same equation applied recursively, which is what `spec` is) -/
theorem spec_unfold (enter : σ → Int → Option T → σ × T) (leave : σ → Int → List K → σ × K)
    (i : Int) (ks : List Rose) (pv : Option T) (s : σ) :
    spec enter leave (.node i ks) pv s =
      leave (specRev enter leave ks (enter s i pv).2 (enter s i pv).1).1 i
            (specRev enter leave ks (enter s i pv).2 (enter s i pv).1).2 := rfl

/-- the children's values reach `leave` in table order, one per child -/
theorem specRev_length (enter : σ → Int → Option T → σ × T) (leave : σ → Int → List K → σ × K) :
    ∀ (ks : List Rose) (cur : T) (s : σ), (specRev enter leave ks cur s).2.length = ks.length
  | [], _, _ => rfl
  | r :: rs, cur, s => by simp [specRev, specRev_length enter leave rs cur s]

-- non-vacuity: a concrete unsorted 5-node table, a rose that represents it, and the machine's log
def exIds : List Int := [0, 1, 2, 3, 4]
def exPids : List Int := [-1, 3, 0, 0, 3]
def exRose : Rose := .node 0 [.node 2 [], .node 3 [.node 1 [], .node 4 []]]
example : Represents exRose exIds exPids := by
  refine ⟨?_, by decide⟩
  simp [exRose, exIds, exPids, Agrees, AgreesL, tableKids, Rose.id]
example : ((run (tableKids exIds exPids) logEnter logLeave (2 * exRose.size) (init 0 [])).s.reverse.map Ev.show)
    = ["E0:N", "E3:217", "E4:6730", "L4:[]", "E1:6730", "L1:[]", "L3:[1,4]", "E2:217", "L2:[]", "L0:[2,888]"] := by
  decide +kernel
end C04
