import SwcVerif.Props.C12Gen
import SwcVerif.Refine.Rodrigues
import Mathlib.Tactic.LinearCombination
/-! # C12: the general-axis rotation `rotate3d` and the camera helpers, tied to the source by the imperative translator

`Gen/AlgoRodrigues.lean` is regenerated on every run from `swcgeom/utils/transforms.py::rotate3d / _to_homogeneous /
model_view_transformation / orthographic_projection_simple`.  `RefineRodrigues.rotate3d_refines` proves the generated `rotate3d` equal to
the Rodrigues matrix `Gen.Mat.rotate3d` (which `18_affine.py` hands to `Rotate.__init__` as the parameter `rot`): here the theorems
about `Rotate(n, θ)` are restated with the GENERATED matrix. -/
namespace C12
open Gen.Mat Gen.Affine Gen.Algo RefineAffine RefineRodrigues

variable {K : Type} [Field K] [LinearOrder K] [Inhabited K]

/-- **`Rotate(n, θ, center=c)(tree)` as translated, with `rotate3d(n, θ)` as translated** (`n` any array with ≥ 3 entries; only
`n[0:3]` is read): `rotate3d` returns a matrix and every node is moved by it about the stated centre -/
theorem generated_rotate_rodrigues (F : Py.Fld K) (hF : ∀ a b : K, F.div a b = a / b) (nx ny nz c s : K) (rest : List K) (cen : String)
    (ids pids types : List Int) (rs : List K) (pts : List (Pt K)) (root : Pt K) (h : HasRoot pids pts root) :
    ∃ rot, rd_rotate3d (nx :: ny :: nz :: rest) c s = some rot ∧
      runObj F (rotate_init rot cen []) (treeOf ids pids types pts rs)
        = some (treeOf ids pids types (pts.map (rotMap rot cen root)) rs) :=
  ⟨_, rotate3d_refines nx ny nz c s rest, generated_rotate F hF nx ny nz c s cen ids pids types rs pts root h⟩

/-- **the GENERATED Rodrigues matrix is rigid**: unit axis, `c² + s² = 1`, rotation about the origin: all inter-node distances are
preserved (the matrix is orthogonal) and every point `t·n` of the axis is fixed -/
theorem rodrigues_generated_rigid (nx ny nz c s : K) (rest : List K) (hn : nx * nx + ny * ny + nz * nz = 1) (hcs : c * c + s * s = 1)
    (cen : String) (hc : ¬ (cen = "root" ∨ cen = "soma")) (root : Pt K) :
    ∃ rot, rd_rotate3d (nx :: ny :: nz :: rest) c s = some rot ∧
      (∀ p q : Pt K, d2 (rotMap rot cen root p) (rotMap rot cen root q) = d2 p q) ∧
      (∀ t : K, rotMap rot cen root (t * nx, t * ny, t * nz) = (t * nx, t * ny, t * nz)) :=
  ⟨_, rotate3d_refines nx ny nz c s rest, rotMap_rodrigues_rigid nx ny nz c s hn hcs cen hc root⟩

/-- the generated Rodrigues matrix turns by the stated angle in the right-handed sense: about the z axis it IS `rotate3d_z` -/
theorem rodrigues_generated_z (c s : K) : rd_rotate3d [0, 0, 1] c s = some (rotate3d_z c s) := by
  rw [rotate3d_refines]; simp [rotate3d, rodrigues, rotate3d_z]

/-! ### model / view -/

/-- **`model_view_transformation` as translated maps the camera position to the origin** (any look-at / up with non-zero norms) -/
theorem model_view_position (F : Py.Fld K) (hF : ∀ a b : K, F.div a b = a / b) (ex ey ez gx gy gz ux uy uz ng nt : K)
    (hg : ng ≠ 0) (ht : nt ≠ 0) :
    ∃ M, rd_model_view F [ex, ey, ez] [gx, gy, gz] [ux, uy, uz] ng nt = some M ∧ applyPoint M ex ey ez = (0, 0, 0) := by
  refine ⟨_, model_view_refines F hF ex ey ez gx gy gz ux uy uz ng nt hg ht, ?_⟩
  simp [applyPoint, mapply, mmul, dotK, colK, viewRot, translate3d]
  refine ⟨?_, ?_, ?_⟩ <;> ring

/-- the rotation block `viewRot g t` (rows `g × t`, `t`, `−g`) is orthonormal when `g`, `t` are unit vectors AND `g ⟂ t` — the
source normalises `look_at` and `up` but does NOT make them perpendicular: that is a precondition on the caller -/
theorem viewRot_orthonormal (g t : Pt K) (hg : g.1 * g.1 + g.2.1 * g.2.1 + g.2.2 * g.2.2 = 1)
    (ht : t.1 * t.1 + t.2.1 * t.2.1 + t.2.2 * t.2.2 = 1) (hgt : g.1 * t.1 + g.2.1 * t.2.1 + g.2.2 * t.2.2 = 0) :
    let row := fun i : Nat => (viewRot g t).getD i []
    dotK (row 0) (row 0) = 1 ∧ dotK (row 1) (row 1) = 1 ∧ dotK (row 2) (row 2) = 1 ∧
      dotK (row 0) (row 1) = 0 ∧ dotK (row 0) (row 2) = 0 ∧ dotK (row 1) (row 2) = 0 := by
  obtain ⟨g0, g1, g2⟩ := g
  obtain ⟨t0, t1, t2⟩ := t
  simp only at hg ht hgt
  have h00 : (g1 * t2 - g2 * t1) * (g1 * t2 - g2 * t1) + ((g2 * t0 - g0 * t2) * (g2 * t0 - g0 * t2)
      + (g0 * t1 - g1 * t0) * (g0 * t1 - g1 * t0)) = 1 := by
    have : (g1 * t2 - g2 * t1) * (g1 * t2 - g2 * t1) + ((g2 * t0 - g0 * t2) * (g2 * t0 - g0 * t2)
      + (g0 * t1 - g1 * t0) * (g0 * t1 - g1 * t0))
        = (g0 * g0 + g1 * g1 + g2 * g2) * (t0 * t0 + t1 * t1 + t2 * t2) - (g0 * t0 + g1 * t1 + g2 * t2) ^ 2 := by ring
    rw [this, hg, ht, hgt]; ring
  have h11 : t0 * t0 + (t1 * t1 + t2 * t2) = 1 := by rw [← ht]; ring
  have h22 : g0 * g0 + (g1 * g1 + g2 * g2) = 1 := by rw [← hg]; ring
  have h01 : (g1 * t2 - g2 * t1) * t0 + ((g2 * t0 - g0 * t2) * t1 + (g0 * t1 - g1 * t0) * t2) = 0 := by ring
  have h02 : (g1 * t2 - g2 * t1) * g0 + ((g2 * t0 - g0 * t2) * g1 + (g0 * t1 - g1 * t0) * g2) = 0 := by ring
  have h12 : t0 * g0 + (t1 * g1 + t2 * g2) = 0 := by rw [← hgt]; ring
  simp only [viewRot, dotK, List.getD_cons_zero, List.getD_cons_succ, List.zipWith_cons_cons, List.zipWith_nil_left, List.foldr_cons,
    List.foldr_nil]
  refine ⟨?_, ?_, ?_, ?_, ?_, ?_⟩
  · linear_combination h00
  · linear_combination h11
  · linear_combination h22
  · linear_combination h01
  · linear_combination h02
  · linear_combination -h12

/-! ### kernel-evaluated examples over ℚ -/
example : rd_rotate3d [(0 : ℚ), 0, 1, 7] 0 1 = some [[0, -1, 0, 0], [1, 0, 0, 0], [0, 0, 1, 0], [0, 0, 0, 1]] := by decide +kernel
example : rd_rotate3d [(0 : ℚ), 1] 0 1 = none := by decide +kernel
example : rd_to_homogeneous2 [[(1 : ℚ), 2, 3], [4, 5, 6]] 1 = some [[1, 2, 3, 1], [4, 5, 6, 1]] := by decide +kernel
example : rd_to_homogeneous2 [[(1 : ℚ), 2]] 1 = none := by decide +kernel
example : rd_model_view Py.ratFld [(1 : ℚ), 2, 3] [0, 0, -2] [0, 3, 0] 2 3
    = some [[1, 0, 0, -1], [0, 1, 0, -2], [0, 0, 1, -3], [0, 0, 0, 1]] := by decide +kernel
end C12
